// C01 — Query results do not depend on the physical plan chosen.
//
//	c01 extract   the join-reordering property tables (assocTable, leftAsscomTable,
//	              rightAsscomTable), the lookupTableEntry bit values, getOpIdx, commute and the
//	              JoinType classification predicates — all dumped by RUNNING the freshly compiled
//	              sql/memo + sql/plan code (overlay accessors memo.Verif*); plus, with go/ast: the hint
//	              names of select_hints.go, the iterator dispatch order of rowexec.buildJoinNode, the
//	              number of writes to edge.nullRejectedRels and the uses of JoinTypeGroupBy; plus the
//	              facts of the keq stream (keqfacts.go): collation weights of the key alphabet,
//	              HashLookup.GetHashKey vs. Equals on typed values
//	              → Gms/Generated/C01.lean
//	c01 run       (a) checkProperty unit correspondence (real memo.checkProperty vs. the Lean model);
//	              (a') conflict-detection unit correspondence `jcd` (conflict.go): the REAL edge.calcTES /
//	              edge.applicable on generated left-deep inner chains and plan trees vs. the Lean model
//	              Gms.JoinConflict (TES, conflict rules, number of plan nodes that get each conjunct);
//	              (b) corpus: one witness per known finding, run under the configuration that shows it;
//	              (c) engine level: generated databases (PK / UNIQUE / secondary / composite indexes;
//	              every third database is made for merge / lookup / hash joins: indexed join columns,
//	              blocks of equal keys, NULL keys) and join queries (2-4 way inner/left/cross chains,
//	              mixed chains, three-table "reorder" chains with one two-table conjunct per ON and
//	              NULL-accepting conditions, IN / EXISTS / NOT IN / NOT EXISTS subqueries that become
//	              semi/anti joins, row-constructor NOT IN, filters, aggregates), each run under many plan
//	              configurations (all JOIN_ORDER permutations of three tables, per-pair HASH / MERGE /
//	              LOOKUP / INNER / SEMI / ANTI hints, LEFT_DEEP, NO_MERGE_JOIN, seeded random costers);
//	              every DISTINCT analyzed plan is a case: result multiset vs. the Lean reference semantics
//	              (for a plain two-table merge join plan the Lean driver also runs the merge-join model),
//	              plus the model-free pairwise oracle (all plans of one query agree);
//	              (d) stream keq (keq.go): join keys whose equality is not byte equality — text under
//	              case/accent-insensitive collations, numeric keys of different column types, one- and
//	              two-column keys, all index layouts, joins and [NOT] IN / [NOT] EXISTS — against the
//	              reference semantics on the NORMAL FORMS of the keys (Gms/Model/PhysKeys.lean);
//	              (e) stream mres (mres.go): LEFT / INNER joins with a residual ON predicate over blocks
//	              of equal keys, both sides indexed (merge / lookup / hash / nested loop)
//	c01 sql       run the statements on stdin on a fresh engine and print result + plan (manual replay)
package main

import (
	"bufio"
	"fmt"
	"go/ast"
	"os"
	"regexp"
	"sort"
	"strings"

	"github.com/dolthub/go-mysql-server/sql"
	"github.com/dolthub/go-mysql-server/sql/memo"
	"github.com/dolthub/go-mysql-server/sql/plan"
	"github.com/dolthub/go-mysql-server/verifharness/hx"
	"github.com/dolthub/go-mysql-server/verifharness/hx/eng"
	"github.com/dolthub/go-mysql-server/verifharness/sqlgen"
)

func main() {
	if len(os.Args) > 1 && os.Args[1] == "sql" {
		sqlMode()
		return
	}
	hx.Main(extract, run)
}

// ---------------------------------------------------------------------------------------------
// plan access

// randCoster steers the memo to an arbitrary alternative: every cost is a draw of a seeded PRNG
// (the sequence of EstimateCost calls is deterministic for a given statement).
type randCoster struct{ r *hx.Rand }

func (c *randCoster) EstimateCost(ctx *sql.Context, n memo.RelExpr, s sql.StatsProvider) (float64, error) {
	return float64(c.r.Intn(1000)), nil
}

// planOf analyzes the statement and returns the plan text (not executed).
func planOf(e *eng.Eng, ctx *sql.Context, q string) (text string, err error) {
	p := hx.Safe(func() {
		var n sql.Node
		n, err = e.E.AnalyzeQuery(ctx, q)
		if err == nil {
			text = n.String()
		}
	})
	if p != "" {
		return "", fmt.Errorf("panic: %s", p)
	}
	return text, err
}

var joinOpRe = regexp.MustCompile(`(?m)^[ │├└─]*([A-Za-z]*Join[A-Za-z]*|cmp: \(\(|IndexedTableAccess\([^)]*\)|IndexedTableAccess|HashLookup|CachedResults|Filter|Sort|TableAlias\([^)]*\)|Table|Project|GroupBy|Distinct|TopN|Limit)\b`)

// planOps: the operator skeleton of a plan text: join operators in tree order with the access
// path of each table.
func planOps(text string) []string {
	var ops []string
	for _, m := range joinOpRe.FindAllStringSubmatch(text, -1) {
		op := m[1]
		switch {
		case strings.HasPrefix(op, "cmp: (("):
			// the merge join compares row constructors (composite index)
			ops = append(ops, "TupleCmp")
		case strings.Contains(op, "Join"):
			ops = append(ops, op)
		case strings.HasPrefix(op, "IndexedTableAccess"):
			ops = append(ops, "Idx")
		case op == "HashLookup", op == "CachedResults":
			// implied by the join operator
		case op == "Table":
			ops = append(ops, "Tbl")
		}
	}
	return ops
}

func sqlMode() {
	e := eng.New("d")
	ctx := e.Ctx()
	sc := bufio.NewScanner(os.Stdin)
	sc.Buffer(make([]byte, 1<<20), 1<<24)
	def := e.E.Analyzer.Coster
	for sc.Scan() {
		q := strings.TrimSpace(sc.Text())
		if q == "" || strings.HasPrefix(q, "--") {
			continue
		}
		if strings.HasPrefix(q, "!coster ") { // `!coster <seed>` / `!coster default`
			arg := strings.TrimSpace(q[8:])
			if arg == "default" {
				e.E.Analyzer.Coster = def
			} else {
				var s uint64
				fmt.Sscan(arg, &s)
				e.E.Analyzer.Coster = &randCoster{r: hx.NewRand(s)}
			}
			continue
		}
		up := strings.ToUpper(q)
		if strings.HasPrefix(up, "SELECT") || strings.HasPrefix(up, "WITH") {
			pt, err := planOf(e, ctx, q)
			if err != nil {
				fmt.Printf("plan error: %v\n", err)
			} else {
				fmt.Printf("%s  ops=%v\n", pt, planOps(pt))
			}
		}
		r := e.Query(ctx, q)
		fmt.Printf("%s\n  => %s", q, r.Class())
		if r.Err != nil {
			fmt.Printf(" err=%v", r.Err)
		}
		if r.Panic != "" {
			fmt.Printf(" panic=%v", r.Panic)
		}
		var txt []string
		for _, row := range r.Rows {
			txt = append(txt, "["+strings.Join(row, ",")+"]")
		}
		fmt.Printf("\n  rows: %s\n", strings.Join(txt, " "))
	}
}

// ---------------------------------------------------------------------------------------------
// Facts

func leanBool(b bool) string {
	if b {
		return "true"
	}
	return "false"
}

func extract(a hx.ExtractArgs) error {
	lf := hx.NewLeanFile("Gms.Generated.C01", "sql/memo/join_order_builder.go", "sql/memo/select_hints.go", "sql/plan/join.go", "sql/rowexec/rel.go",
		"sql/plan/hash_lookup.go", "sql/collations.go")

	// (1) the three property tables and the entry bit values, from the running code
	assoc, lasscom, rasscom := memo.VerifJoinPropTables()
	tab := func(name string, t [8][8]uint8) {
		rows := make([]string, 8)
		for i := 0; i < 8; i++ {
			cells := make([]string, 8)
			for j := 0; j < 8; j++ {
				cells[j] = fmt.Sprint(t[i][j])
			}
			rows[i] = "[" + strings.Join(cells, ", ") + "]"
		}
		lf.Raw(fmt.Sprintf("def %s : List (List Nat) := [\n  %s]\n", name, strings.Join(rows, ",\n  ")))
	}
	lf.Comment("join-reordering property tables (rows: operator A, columns: operator B; index = getOpIdx:")
	lf.Comment("0 cross, 1 inner, 2 semi, 3 anti, 4 left, 5 full, 6 group-by, 7 lateral); entries are lookupTableEntry bit sets")
	tab("assocTable", assoc)
	tab("leftAsscomTable", lasscom)
	tab("rightAsscomTable", rasscom)
	bits := memo.VerifEntryBits()
	var bl []uint64
	for _, b := range bits {
		bl = append(bl, uint64(b))
	}
	lf.Comment("never, always, filterA, filterB, rejectsOnLeftA, rejectsOnRightA, rejectsOnRightB")
	lf.DefNatList("entryBits", bl)

	// (2) JoinType classification, from the running code: every JoinType value until String() stops
	// naming them.
	lf.Comment("(name, getOpIdx or 99, commute, IsExcludeNulls, IsLeftOuter, IsSemi, IsAnti, IsPartial, IsHash, IsMerge, IsLookup, IsCross, IsRange, IsLateral, IsFullOuter, IsPlaceholder)")
	var rows []string
	for t := plan.JoinType(0); t < 64; t++ {
		name := t.String()
		if strings.HasPrefix(name, "JoinType(") {
			break
		}
		idx := memo.VerifGetOpIdx(t)
		if idx < 0 {
			idx = 99
		}
		fl := []bool{memo.VerifCommute(t), t.IsExcludeNulls(), t.IsLeftOuter(), t.IsSemi(), t.IsAnti(), t.IsPartial(), t.IsHash(), t.IsMerge(), t.IsLookup(), t.IsCross(), t.IsRange(), t.IsLateral(), t.IsFullOuter(), t.IsPlaceholder()}
		fs := make([]string, len(fl))
		for i, b := range fl {
			fs[i] = leanBool(b)
		}
		rows = append(rows, fmt.Sprintf("(%s, %d, [%s])", hx.LeanString(name), idx, strings.Join(fs, ", ")))
	}
	if len(rows) < 20 {
		return fmt.Errorf("only %d join types enumerated", len(rows))
	}
	lf.Raw(fmt.Sprintf("def joinTypes : List (String × Nat × List Bool) := [\n  %s]\n", strings.Join(rows, ",\n  ")))

	// (3) iterator dispatch order of rowexec.buildJoinNode (go/ast): [(predicate, constructor)]
	src, err := hx.ParseSrc(a.Repo, "sql/rowexec/rel.go")
	if err != nil {
		return err
	}
	fd, err := src.Func("BaseBuilder", "buildJoinNode")
	if err != nil {
		return err
	}
	var disp []string
	ok := false
	ast.Inspect(fd.Body, func(n ast.Node) bool {
		sw, isSw := n.(*ast.SwitchStmt)
		if !isSw || sw.Tag != nil {
			return true
		}
		ok = true
		for _, c := range sw.Body.List {
			cc := c.(*ast.CaseClause)
			pred := "default"
			if len(cc.List) == 1 {
				if call, isCall := cc.List[0].(*ast.CallExpr); isCall {
					if sel, isSel := call.Fun.(*ast.SelectorExpr); isSel && src.Text(sel.X) == "n.Op" {
						pred = sel.Sel.Name
					} else {
						pred = "?" + src.Text(cc.List[0])
					}
				} else {
					pred = "?" + src.Text(cc.List[0])
				}
			} else if len(cc.List) > 1 {
				pred = "?multi"
			}
			target := "?"
			if len(cc.Body) == 1 {
				switch st := cc.Body[0].(type) {
				case *ast.ReturnStmt:
					if len(st.Results) == 1 {
						if call, isCall := st.Results[0].(*ast.CallExpr); isCall {
							target = src.Text(call.Fun)
						}
					}
				case *ast.ExprStmt:
					if call, isCall := st.X.(*ast.CallExpr); isCall {
						target = src.Text(call.Fun)
					}
				}
			}
			disp = append(disp, fmt.Sprintf("(%s, %s)", hx.LeanString(pred), hx.LeanString(target)))
		}
		return false
	})
	if !ok || len(disp) == 0 {
		return fmt.Errorf("buildJoinNode: tagless switch not found")
	}
	lf.Comment("rowexec.buildJoinNode: first matching case wins")
	lf.Raw(fmt.Sprintf("def iterDispatch : List (String × String) := [\n  %s]\n", strings.Join(disp, ",\n  ")))

	// (4) hint names (select_hints.go newHint switch)
	hs, err := hx.ParseSrc(a.Repo, "sql/memo/select_hints.go")
	if err != nil {
		return err
	}
	nh, err := hs.Func("", "newHint")
	if err != nil {
		return err
	}
	var hints []string
	ast.Inspect(nh.Body, func(n ast.Node) bool {
		cc, isCC := n.(*ast.CaseClause)
		if !isCC {
			return true
		}
		for _, x := range cc.List {
			if bl, isBL := x.(*ast.BasicLit); isBL {
				hints = append(hints, strings.Trim(bl.Value, "\""))
			}
		}
		return true
	})
	if len(hints) == 0 {
		return fmt.Errorf("newHint: no hint names found")
	}
	lf.DefStringList("hintNames", hints)

	// (5) writes to edge.nullRejectedRels and uses of JoinTypeGroupBy in non-test sources
	writes, groupUses := 0, 0
	for _, dir := range []string{"sql/memo", "sql/analyzer", "sql/planbuilder", "sql/plan", "sql/rowexec"} {
		ents, err := os.ReadDir(a.Repo + "/" + dir)
		if err != nil {
			return err
		}
		for _, ent := range ents {
			name := ent.Name()
			if !strings.HasSuffix(name, ".go") || strings.HasSuffix(name, "_test.go") || name == "jointype_string.go" {
				continue
			}
			s, err := hx.ParseSrc(a.Repo, dir+"/"+name)
			if err != nil {
				return err
			}
			ast.Inspect(s.File, func(n ast.Node) bool {
				switch x := n.(type) {
				case *ast.AssignStmt:
					for _, l := range x.Lhs {
						if sel, isSel := l.(*ast.SelectorExpr); isSel && sel.Sel.Name == "nullRejectedRels" {
							writes++
						}
					}
				case *ast.KeyValueExpr:
					if id, isId := x.Key.(*ast.Ident); isId && id.Name == "nullRejectedRels" {
						writes++
					}
				case *ast.Ident:
					if x.Name == "JoinTypeGroupBy" {
						groupUses++
					}
				case *ast.SelectorExpr:
					if x.Sel.Name == "JoinTypeGroupBy" {
						groupUses++
					}
				}
				return true
			})
		}
	}
	lf.Comment("assignments to edge.nullRejectedRels anywhere in memo/analyzer/planbuilder/plan/rowexec (0: conditional table entries never fire)")
	lf.DefNat("nullRejectedRelsWrites", uint64(writes))
	lf.Comment("occurrences of the identifier JoinTypeGroupBy (declaration + getOpIdx case only: the kind is never constructed)")
	lf.DefNat("groupByJoinMentions", uint64(groupUses))

	// (6) keq stream: collation weights of the key alphabet, GetHashKey vs Equals on typed values
	if err := keqFacts(lf); err != nil {
		return err
	}
	return lf.Write(a.Out)
}

// ---------------------------------------------------------------------------------------------
// Engine-level generator

type gen struct {
	r  *hx.Rand
	g  *sqlgen.Gen
	db *sqlgen.Db
}

// genDb: 2..nt tables; column 0 is always int. Index layouts: none, KEY(cj), PRIMARY KEY(c0),
// UNIQUE KEY(cj), composite KEY(c0,c1).
func (x *gen) genDb(maxT int) *sqlgen.Db {
	db := &sqlgen.Db{}
	nt := x.r.Range(2, maxT)
	for n := 0; n < nt; n++ {
		t := &sqlgen.Table{}
		nc := x.r.Range(1, 3)
		for j := 0; j < nc; j++ {
			ty := sqlgen.TInt
			if j > 0 && x.r.Chance(1, 5) {
				ty = sqlgen.TStr
			}
			t.Tys = append(t.Tys, ty)
			t.NotNull = append(t.NotNull, x.r.Chance(1, 4))
		}
		layout := x.r.Intn(7)
		nr := x.r.Range(0, 6)
		if x.r.Chance(1, 10) {
			nr = 0
		}
		pk := layout == 2
		if pk {
			t.NotNull[0] = true
		}
		used := map[int64]bool{}
		for i := 0; i < nr; i++ {
			if !pk && i > 0 && x.r.Chance(1, 5) {
				t.Rows = append(t.Rows, append([]sqlgen.Value(nil), t.Rows[x.r.Intn(i)]...))
				continue
			}
			row := make([]sqlgen.Value, nc)
			for j := range row {
				row[j] = x.g.Value(t.Tys[j], !t.NotNull[j])
			}
			if pk {
				v := int64(x.r.Range(-2, 5))
				for used[v] {
					v++
				}
				used[v] = true
				row[0] = sqlgen.Int(v)
			}
			t.Rows = append(t.Rows, row)
		}
		switch layout {
		case 1, 5:
			j := x.r.Intn(nc)
			t.Extra = fmt.Sprintf(", KEY k%d (c%d)", j, j)
			x.g.Stats["db:key"]++
		case 2:
			t.Extra = ", PRIMARY KEY (c0)"
			x.g.Stats["db:pk"]++
		case 3:
			// UNIQUE: allowed only when the non-NULL values of the column are distinct
			j := x.r.Intn(nc)
			seen := map[string]bool{}
			okU := true
			for _, row := range t.Rows {
				if row[j].Null {
					continue
				}
				k := row[j].Sexp()
				if seen[k] {
					okU = false
				}
				seen[k] = true
			}
			if okU {
				t.Extra = fmt.Sprintf(", UNIQUE KEY u%d (c%d)", j, j)
				x.g.Stats["db:unique"]++
			}
		case 4:
			if nc >= 2 {
				t.Extra = ", KEY k01 (c0, c1)"
				x.g.Stats["db:composite"]++
			}
		}
		db.Tables = append(db.Tables, t)
	}
	x.db = db
	x.g.Db = db
	return db
}

// conjHaveCols: every top-level conjunct mentions a column of the current row. (A constant-false
// conjunct in an ON / WHERE makes the analyzer replace a join input by an EmptyTable, and join
// planning then fails for EVERY configuration with the internal error "failed to replan join:
// unknown type for rel output cols: *memo.EmptyTable" — an engine defect, but not a plan dependence:
// kept out of this generator's envelope.)
func conjHaveCols(e *sqlgen.Expr) bool {
	if e.Op == "and" {
		return conjHaveCols(e.Args[0]) && conjHaveCols(e.Args[1])
	}
	return sqlgen.HasCol(e)
}

func intCols(tys []sqlgen.Ty, lo, hi int) []int {
	var out []int
	for i := lo; i < hi; i++ {
		if tys[i] != sqlgen.TStr {
			out = append(out, i)
		}
	}
	return out
}

// joinCond: an equality between an int column of the new (right) part and one of the left part,
// optionally with an extra conjunct over both; sometimes a range comparison; sometimes arbitrary.
func (x *gen) joinCond(all []sqlgen.Ty, nl int) *sqlgen.Expr {
	lc, rc := intCols(all, 0, nl), intCols(all, nl, len(all))
	var on *sqlgen.Expr
	switch k := x.r.Intn(10); {
	case k < 7:
		on = sqlgen.Cmp("eq", sqlgen.Col(0, hx.Pick(x.r, lc)), sqlgen.Col(0, hx.Pick(x.r, rc)))
		if x.r.Bool() {
			on.Args[0], on.Args[1] = on.Args[1], on.Args[0]
		}
		x.g.Stats["on:equi"]++
	case k < 8:
		on = sqlgen.Cmp(hx.Pick(x.r, []string{"lt", "le", "gt", "ge"}), sqlgen.Col(0, hx.Pick(x.r, lc)), sqlgen.Col(0, hx.Pick(x.r, rc)))
		x.g.Stats["on:range"]++
	case k < 9:
		on = sqlgen.Cmp("nseq", sqlgen.Col(0, hx.Pick(x.r, lc)), sqlgen.Col(0, hx.Pick(x.r, rc)))
		x.g.Stats["on:nullsafe"]++
	default:
		x.g.Stats["on:general"]++
		return x.g.JoinOn(1, all)
	}
	if x.r.Chance(1, 3) {
		extra := x.g.Pred(x.r.Intn(2), [][]sqlgen.Ty{all})
		if conjHaveCols(extra) {
			on = sqlgen.Bin("and", on, extra)
			x.g.Stats["on:extra-conjunct"]++
		}
	}
	return on
}

// joinChain: a left-deep chain of 2..n tables.
func (x *gen) joinChain(n int, mixed bool) (*sqlgen.Query, []sqlgen.Ty) {
	t0 := x.r.Intn(len(x.db.Tables))
	q := sqlgen.TableQ(t0)
	tys := append([]sqlgen.Ty(nil), x.db.Tables[t0].Tys...)
	kind0 := hx.Pick(x.r, []string{"inner", "inner", "left"})
	for i := 1; i < n; i++ {
		m := x.r.Intn(len(x.db.Tables))
		rt := x.db.Tables[m].Tys
		if len(tys)+len(rt) > 8 {
			break
		}
		all := append(append([]sqlgen.Ty(nil), tys...), rt...)
		kind := kind0
		if mixed {
			kind = hx.Pick(x.r, []string{"inner", "inner", "left"})
		}
		var on *sqlgen.Expr
		if kind == "inner" && x.r.Chance(1, 8) {
			on = sqlgen.Lit(sqlgen.Int(1))
			x.g.Stats["on:cross"]++
		} else {
			on = x.joinCond(all, len(tys))
		}
		j := sqlgen.Join(kind, on, q, sqlgen.TableQ(m))
		j.Cross = x.r.Bool()
		x.g.Stats["join:"+kind]++
		q, tys = j, all
	}
	return q, tys
}

// subPred: a predicate with a (mostly correlated) subquery that the analyzer turns into a semi or
// anti join: [NOT] EXISTS (SELECT … FROM t WHERE t.ci = outer.cj [AND p]) or
// outer.cj [NOT] IN (SELECT t.ci FROM t [WHERE p]).
func (x *gen) subPred(outer []sqlgen.Ty) *sqlgen.Expr {
	m := x.r.Intn(len(x.db.Tables))
	in := x.db.Tables[m].Tys
	oc, ic := intCols(outer, 0, len(outer)), intCols(in, 0, len(in))
	neg := x.r.Chance(2, 5)
	var e *sqlgen.Expr
	if x.r.Bool() {
		// EXISTS
		p := sqlgen.Cmp("eq", sqlgen.Col(0, hx.Pick(x.r, ic)), sqlgen.Col(1, hx.Pick(x.r, oc)))
		if x.r.Chance(1, 3) {
			extra := x.g.Pred(0, [][]sqlgen.Ty{in})
			if conjHaveCols(extra) {
				p = sqlgen.Bin("and", p, extra)
			}
		}
		e = sqlgen.Exists(sqlgen.Filter(p, sqlgen.TableQ(m)))
		x.g.Stats["sub:exists"]++
	} else {
		var sq *sqlgen.Query = sqlgen.TableQ(m)
		switch x.r.Intn(4) {
		case 0:
			extra := x.g.Pred(0, [][]sqlgen.Ty{in})
			if conjHaveCols(extra) {
				sq = sqlgen.Filter(extra, sq)
			}
		case 1:
			// correlated IN: the subquery's WHERE mentions the outer row
			sq = sqlgen.Filter(sqlgen.Cmp("eq", sqlgen.Col(0, hx.Pick(x.r, ic)), sqlgen.Col(1, hx.Pick(x.r, oc))), sq)
			x.g.Stats["sub:in-correlated"]++
		}
		e = sqlgen.InSub(sqlgen.Col(0, hx.Pick(x.r, oc)), sqlgen.Project([]*sqlgen.Expr{sqlgen.Col(0, hx.Pick(x.r, ic))}, sq))
		x.g.Stats["sub:in"]++
	}
	if neg {
		e = sqlgen.Not(e)
		e.Alt = x.r.Chance(3, 4)
		x.g.Stats["sub:negated"]++
	}
	return e
}

// reorderChain: a three-table left-deep chain aimed at the reordering moves: every join is inner or
// left outer, every ON is ONE conjunct over exactly two tables (so that assoc / l-asscom / r-asscom
// are applicable), and conditions are often NULL-accepting (`<=>`, `x IS NULL OR x = y`,
// `(x = y) IS NOT TRUE`), which is what makes an unsound move visible on NULL-padded rows.
func (x *gen) reorderChain() (*sqlgen.Query, []sqlgen.Ty) {
	pickT := func() int { return x.r.Intn(len(x.db.Tables)) }
	t1, t2, t3 := pickT(), pickT(), pickT()
	ty1, ty2, ty3 := x.db.Tables[t1].Tys, x.db.Tables[t2].Tys, x.db.Tables[t3].Tys
	cond := func(li, ri int) *sqlgen.Expr {
		a, b := sqlgen.Col(0, li), sqlgen.Col(0, ri)
		switch x.r.Intn(6) {
		case 0, 1:
			x.g.Stats["reorder:on-eq"]++
			return sqlgen.Cmp("eq", a, b)
		case 2:
			x.g.Stats["reorder:on-nullsafe"]++
			return sqlgen.Cmp("nseq", a, b)
		case 3:
			x.g.Stats["reorder:on-isnull-or-eq"]++
			return sqlgen.Bin("or", sqlgen.Un("isnull", a), sqlgen.Cmp("eq", a.Clone(), b))
		case 4:
			x.g.Stats["reorder:on-is-not-true"]++
			n := sqlgen.Not(sqlgen.Un("istrue", sqlgen.Cmp(hx.Pick(x.r, []string{"eq", "lt"}), a, b)))
			n.Alt = x.r.Bool()
			return n
		default:
			x.g.Stats["reorder:on-range"]++
			return sqlgen.Cmp(hx.Pick(x.r, []string{"lt", "le", "ne"}), a, b)
		}
	}
	k1 := hx.Pick(x.r, []string{"inner", "left"})
	k2 := hx.Pick(x.r, []string{"inner", "left"})
	all12 := append(append([]sqlgen.Ty(nil), ty1...), ty2...)
	all := append(append([]sqlgen.Ty(nil), all12...), ty3...)
	c1 := intCols(all12, 0, len(ty1))
	c2 := intCols(all12, len(ty1), len(all12))
	c3 := intCols(all, len(all12), len(all))
	j1 := sqlgen.Join(k1, cond(hx.Pick(x.r, c1), hx.Pick(x.r, c2)), sqlgen.TableQ(t1), sqlgen.TableQ(t2))
	// the upper condition mentions e3 and exactly one of e1, e2
	lower := c2
	if x.r.Bool() {
		lower = c1
	}
	j2 := sqlgen.Join(k2, cond(hx.Pick(x.r, lower), hx.Pick(x.r, c3)), j1, sqlgen.TableQ(t3))
	x.g.Stats["reorder:"+k1+"-"+k2]++
	return j2, all
}

// genPhysDb: tables made for merge / lookup / hash joins: 2-3 int columns, column 0 (and sometimes
// column 1) indexed, up to 9 rows whose keys come from a tiny domain (blocks of equal keys, NULL keys).
func (x *gen) genPhysDb() *sqlgen.Db {
	db := &sqlgen.Db{}
	nt := x.r.Range(2, 3)
	for n := 0; n < nt; n++ {
		t := &sqlgen.Table{}
		nc := x.r.Range(2, 3)
		for j := 0; j < nc; j++ {
			t.Tys = append(t.Tys, sqlgen.TInt)
			t.NotNull = append(t.NotNull, false)
		}
		layout := x.r.Intn(5)
		pk := layout == 0
		if pk {
			t.NotNull[0] = true
		}
		nr := x.r.Range(0, 9)
		used := map[int64]bool{}
		for i := 0; i < nr; i++ {
			row := make([]sqlgen.Value, nc)
			for j := range row {
				if x.r.Chance(1, 6) {
					row[j] = sqlgen.Null()
				} else {
					row[j] = sqlgen.Int(int64(x.r.Range(0, 3)))
				}
			}
			if pk {
				v := int64(x.r.Range(0, 6))
				for used[v] {
					v++
				}
				used[v] = true
				row[0] = sqlgen.Int(v)
			}
			t.Rows = append(t.Rows, row)
		}
		switch layout {
		case 0:
			t.Extra = ", PRIMARY KEY (c0)"
			x.g.Stats["db:pk"]++
		case 1, 2:
			t.Extra = ", KEY k0 (c0)"
			x.g.Stats["db:key"]++
		case 3:
			t.Extra = ", KEY k0 (c0), KEY k1 (c1)"
			x.g.Stats["db:two-keys"]++
		case 4:
			t.Extra = ", KEY k01 (c0, c1)"
			x.g.Stats["db:composite"]++
		}
		db.Tables = append(db.Tables, t)
	}
	x.db = db
	x.g.Db = db
	return db
}

// physQuery: a two- or three-table inner/left equi-join on indexed columns, optionally with a
// second conjunct (the merge join's `sel` filters / the hash join's residual condition).
func (x *gen) physQuery() qcase {
	n := 2
	if x.r.Chance(1, 4) {
		n = 3
	}
	t0 := x.r.Intn(len(x.db.Tables))
	q := sqlgen.TableQ(t0)
	tys := append([]sqlgen.Ty(nil), x.db.Tables[t0].Tys...)
	kind := hx.Pick(x.r, []string{"inner", "left"})
	for i := 1; i < n; i++ {
		m := x.r.Intn(len(x.db.Tables))
		rt := x.db.Tables[m].Tys
		nl := len(tys)
		all := append(append([]sqlgen.Ty(nil), tys...), rt...)
		// left column: an indexed column (0 or 1) of one of the tables so far; right: column 0 or 1
		lc := (x.r.Intn(nl) / 2) * 0
		lc = hx.Pick(x.r, []int{0, 0, 1})
		if i > 1 && x.r.Bool() {
			lc = nl - len(x.db.Tables[m].Tys)
			if lc < 0 || lc >= nl {
				lc = 0
			}
		}
		rc := nl + hx.Pick(x.r, []int{0, 0, 1})
		on := sqlgen.Cmp("eq", sqlgen.Col(0, lc), sqlgen.Col(0, rc))
		if x.r.Bool() {
			on.Args[0], on.Args[1] = on.Args[1], on.Args[0]
		}
		if x.r.Chance(1, 3) {
			a, b := x.r.Intn(nl), nl+x.r.Intn(len(rt))
			extra := sqlgen.Cmp(hx.Pick(x.r, []string{"le", "ne", "eq", "lt"}), sqlgen.Col(0, a), sqlgen.Col(0, b))
			on = sqlgen.Bin("and", on, extra)
			x.g.Stats["phys:extra-conjunct"]++
		}
		q = sqlgen.Join(kind, on, q, sqlgen.TableQ(m))
		tys = all
	}
	x.g.Stats["phys:"+kind]++
	return qcase{q: q, tys: tys, kind: "phys"}
}

type qcase struct {
	q    *sqlgen.Query
	tys  []sqlgen.Ty
	kind string
	keq  *keqInfo // keq stream: the key kinds of the database (nil elsewhere)
	db   *sqlgen.Db // the database the term is over (region inner_conjunct_lost_by_conflict_rule: column → table)
}

func (x *gen) query(thorough bool, mixed bool) qcase {
	maxN := 3
	if thorough {
		maxN = 4
	}
	kind := "join"
	var q *sqlgen.Query
	var tys []sqlgen.Ty
	switch k := x.r.Intn(12); {
	case k >= 10:
		q, tys = x.reorderChain()
		kind = "reorder"
	case k < 5:
		q, tys = x.joinChain(x.r.Range(2, maxN), mixed)
	case k < 8:
		kind = "semi"
		if x.r.Chance(1, 3) {
			q, tys = x.joinChain(2, mixed)
			kind = "join+semi"
		} else {
			t := x.r.Intn(len(x.db.Tables))
			q, tys = sqlgen.TableQ(t), append([]sqlgen.Ty(nil), x.db.Tables[t].Tys...)
		}
		p := x.subPred(tys)
		if x.r.Chance(1, 4) {
			p = sqlgen.Bin("and", p, x.subPred(tys))
			x.g.Stats["sub:two"]++
		}
		q = sqlgen.Filter(p, q)
	default:
		q, tys = x.joinChain(2, mixed)
		kind = "join+where"
	}
	if kind != "semi" && kind != "join+semi" && kind != "reorder" && x.r.Chance(2, 5) || kind == "join+where" {
		p := x.g.Pred(x.r.Intn(2), [][]sqlgen.Ty{tys})
		if conjHaveCols(p) {
			q = sqlgen.Filter(p, q)
			x.g.Stats["q:where"]++
		}
	}
	switch x.r.Intn(8) {
	case 0:
		// aggregate on top: GROUP BY one column, COUNT(*) and SUM of an int column
		ic := intCols(tys, 0, len(tys))
		k := x.r.Intn(len(tys))
		q = sqlgen.Group([]*sqlgen.Expr{sqlgen.Col(0, k)}, []string{"countstar", "sum"}, []*sqlgen.Expr{sqlgen.Lit(sqlgen.Int(1)), sqlgen.Col(0, hx.Pick(x.r, ic))}, q)
		tys = []sqlgen.Ty{tys[k], sqlgen.TInt, sqlgen.TInt}
		x.g.Stats["q:group"]++
	case 1:
		q = sqlgen.Group(nil, []string{"countstar"}, []*sqlgen.Expr{sqlgen.Lit(sqlgen.Int(1))}, q)
		tys = []sqlgen.Ty{sqlgen.TInt}
		x.g.Stats["q:count"]++
	case 2:
		// projection of a subset of the columns (column pruning changes what the join carries)
		k := x.r.Intn(len(tys))
		q = sqlgen.Project([]*sqlgen.Expr{sqlgen.Col(0, k)}, q)
		tys = []sqlgen.Ty{tys[k]}
		x.g.Stats["q:project"]++
	}
	return qcase{q: q, tys: tys, kind: kind}
}

// tupleTerm: the reference term of `WHERE (a.ci, a.cj) NOT IN (SELECT b.ck, b.cl FROM b)`. A row
// constructor IN is TRUE/FALSE/NULL as the disjunction over the subquery rows of the conjunction of
// the column equalities; a WHERE keeps the row iff NOT IN is TRUE, i.e. iff every such conjunction is
// FALSE: NOT EXISTS (SELECT * FROM b WHERE NOT ((b.ck = a.ci AND b.cl = a.cj) IS FALSE)).
// (Gms.C01.tupleNotIn_filter proves this equivalence in the 3VL of the reference semantics.)
func tupleTerm(ta, tb, i, j, k, l int) *sqlgen.Query {
	conj := sqlgen.Bin("and", sqlgen.Cmp("eq", sqlgen.Col(1, i), sqlgen.Col(0, k)), sqlgen.Cmp("eq", sqlgen.Col(1, j), sqlgen.Col(0, l)))
	return sqlgen.Filter(sqlgen.Not(sqlgen.Exists(sqlgen.Filter(sqlgen.Not(sqlgen.Un("isfalse", conj)), sqlgen.TableQ(tb)))), sqlgen.TableQ(ta))
}

func tupleSQL(db *sqlgen.Db, ta, tb, i, j, k, l int) string {
	var items []string
	for c := range db.Tables[ta].Tys {
		items = append(items, fmt.Sprintf("s1.c%d AS c%d", c, c))
	}
	return fmt.Sprintf("SELECT %s FROM t%d AS s1 WHERE ((s1.c%d, s1.c%d) NOT IN (SELECT s2.c%d, s2.c%d FROM t%d AS s2))", strings.Join(items, ", "), ta, i, j, k, l, tb)
}

// tupleNotIn: a two-column NOT IN over two tables with >= 2 int columns each.
func (x *gen) tupleNotIn() (qcase, string, bool) {
	var cand []int
	for n, t := range x.db.Tables {
		if len(intCols(t.Tys, 0, len(t.Tys))) >= 2 {
			cand = append(cand, n)
		}
	}
	if len(cand) == 0 {
		return qcase{}, "", false
	}
	ta, tb := hx.Pick(x.r, cand), hx.Pick(x.r, cand)
	ia, ib := intCols(x.db.Tables[ta].Tys, 0, len(x.db.Tables[ta].Tys)), intCols(x.db.Tables[tb].Tys, 0, len(x.db.Tables[tb].Tys))
	i, k := hx.Pick(x.r, ia), hx.Pick(x.r, ib)
	j, l := hx.Pick(x.r, ia), hx.Pick(x.r, ib)
	if i == j || k == l {
		return qcase{}, "", false
	}
	x.g.Stats["sub:tuple-not-in"]++
	return qcase{q: tupleTerm(ta, tb, i, j, k, l), tys: append([]sqlgen.Ty(nil), x.db.Tables[ta].Tys...), kind: "tuple-not-in"}, tupleSQL(x.db, ta, tb, i, j, k, l), true
}

type witness struct {
	db     *sqlgen.Db
	qc     qcase
	sql    string // "" = print the term
	cfgs   []config
	repeat int
}

func iv(vs ...interface{}) []sqlgen.Value {
	out := make([]sqlgen.Value, len(vs))
	for i, v := range vs {
		switch x := v.(type) {
		case nil:
			out[i] = sqlgen.Null()
		case int:
			out[i] = sqlgen.Int(int64(x))
		}
	}
	return out
}

func corpus() []witness {
	ii := []sqlgen.Ty{sqlgen.TInt, sqlgen.TInt}
	iii := []sqlgen.Ty{sqlgen.TInt, sqlgen.TInt, sqlgen.TInt}
	c := func(k int) *sqlgen.Expr { return sqlgen.Col(0, k) }
	// (1) inner_conjunct_lost_at_outer_join:
	//   t0 s1 LEFT JOIN t1 s2 ON s2.c1 = s1.c1 INNER JOIN t1 s3 ON s1.c1 = s3.c2 AND s3.c2 <= s2.c2
	// s2 is NULL-padded, so `s3.c2 <= s2.c2` is NULL and the inner join is empty; under
	// JOIN_ORDER(s1,s3,s2) the conjunct is dropped and the row (1,3,NULL,NULL,NULL,3,1,3) appears.
	db1 := &sqlgen.Db{Tables: []*sqlgen.Table{
		{Tys: ii, NotNull: []bool{false, false}, Rows: [][]sqlgen.Value{iv(1, 3)}},
		{Tys: iii, NotNull: []bool{false, false, false}, Rows: [][]sqlgen.Value{iv(3, 1, 3)}},
	}}
	q1 := sqlgen.Join("inner", sqlgen.Bin("and", sqlgen.Cmp("eq", c(1), c(7)), sqlgen.Cmp("le", c(7), c(4))),
		sqlgen.Join("left", sqlgen.Cmp("eq", c(3), c(1)), sqlgen.TableQ(0), sqlgen.TableQ(1)), sqlgen.TableQ(1))
	// (2) hash_exclude_nulls_probe_miss: (5,7) NOT IN {(1,5),(2,6),(NULL,7),(3,8),…} is NULL (the row is
	// filtered out); as LeftOuterHashJoinExcludingNulls the probe of the empty bucket (5,7) is answered
	// with an arbitrary other bucket, and unless that happens to be the bucket of (NULL,7) the row is kept.
	db2 := &sqlgen.Db{Tables: []*sqlgen.Table{
		{Tys: ii, NotNull: []bool{false, false}, Rows: [][]sqlgen.Value{iv(1, 2), iv(5, 7), iv(nil, 3), iv(2, 2), iv(7, 2)}},
		{Tys: ii, NotNull: []bool{false, false}, Rows: [][]sqlgen.Value{iv(1, 5), iv(2, 6), iv(nil, 7), iv(3, 8), iv(10, 1), iv(11, 1), iv(12, 1), iv(13, 1)}},
	}}
	// (3) merge_join_tuple_null_key: self join on both columns of a composite index; the left row
	// (NULL,1) makes the tuple comparison fail with a nil operand, the left TUPLE is not nil, so the
	// iterator advances the right side to its end and returns nothing.
	db3 := &sqlgen.Db{Tables: []*sqlgen.Table{
		{Tys: ii, NotNull: []bool{false, false}, Extra: ", KEY k01 (c0, c1)", Rows: [][]sqlgen.Value{iv(nil, 1), iv(2, 0), iv(3, 2)}},
	}}
	q3 := sqlgen.Join("inner", sqlgen.Bin("and", sqlgen.Cmp("eq", c(0), c(2)), sqlgen.Cmp("eq", c(1), c(3))), sqlgen.TableQ(0), sqlgen.TableQ(0))
	// (4) transitive_edge_from_nullsafe_equality: s1.c1 <=> s2.c0 and s1.c1 <=> s3.c0 make the builder add
	// the edge s2.c0 = s3.c0 (plain equality); joining s2 and s3 first loses the NULL <=> NULL matches.
	db4 := &sqlgen.Db{Tables: []*sqlgen.Table{
		{Tys: ii, NotNull: []bool{false, false}, Extra: ", KEY k0 (c0)", Rows: [][]sqlgen.Value{iv(nil, -2), iv(2, 1), iv(nil, nil), iv(3, -2)}},
	}}
	q4 := sqlgen.Join("inner", sqlgen.Cmp("nseq", c(1), c(4)), sqlgen.Join("inner", sqlgen.Cmp("nseq", c(1), c(2)), sqlgen.TableQ(0), sqlgen.TableQ(0)), sqlgen.TableQ(0))
	// (5) not_in_as_left_outer_join: both key columns indexed, so the default plan of the NOT IN anti join
	// is Filter(IS NULL, LeftOuterMergeJoin) (and LeftOuterLookupJoin under LOOKUP_JOIN): the NULL-keyed
	// left row and the unmatched row 9 come out although the subquery has a NULL.
	db5 := &sqlgen.Db{Tables: []*sqlgen.Table{
		{Tys: ii, NotNull: []bool{false, false}, Extra: ", KEY k1 (c1)", Rows: [][]sqlgen.Value{iv(1, 1), iv(2, 1), iv(3, 2), iv(4, nil), iv(5, 3), iv(6, 9)}},
		{Tys: ii, NotNull: []bool{false, false}, Extra: ", KEY k1 (c1)", Rows: [][]sqlgen.Value{iv(1, 1), iv(2, 2), iv(3, 2), iv(4, nil), iv(5, 3), iv(6, 1)}},
	}}
	n5 := sqlgen.Not(sqlgen.InSub(c(1), sqlgen.Project([]*sqlgen.Expr{c(1)}, sqlgen.TableQ(1))))
	n5.Alt = true
	q5 := sqlgen.Filter(n5, sqlgen.TableQ(0))
	// (6) lookup_join_nullsafe_for_all_key_parts: ON s1.c1 <=> s2.c1 AND s1.c3 = s2.c3 as a lookup on the
	// index of c3: the row whose c3 is NULL finds itself.
	db6 := &sqlgen.Db{Tables: []*sqlgen.Table{
		{Tys: []sqlgen.Ty{sqlgen.TInt, sqlgen.TInt, sqlgen.TInt, sqlgen.TInt}, NotNull: []bool{false, false, false, false}, Extra: ", KEY k1 (c1), KEY k3 (c3)",
			Rows: [][]sqlgen.Value{iv(1, 7, 2, nil), iv(2, 7, 1, 5), iv(3, 8, 2, 6), iv(4, nil, 2, 6)}},
	}}
	q6 := sqlgen.Join("inner", sqlgen.Bin("and", sqlgen.Cmp("nseq", c(1), c(5)), sqlgen.Cmp("eq", c(3), c(7))), sqlgen.TableQ(0), sqlgen.TableQ(0))
	iiii := []sqlgen.Ty{sqlgen.TInt, sqlgen.TInt, sqlgen.TInt, sqlgen.TInt}
	// (7) inner_conjunct_lost_by_conflict_rule: a four-table chain of inner joins whose last ON is
	//   s3.c0 = s4.c0 AND s4.c0 > s1.c0. The edge of `s4.c0 > s1.c0` gets the conflict rule {s3} → {s2}
	// (calcTES: assoc with the edge s2.c0 = s3.c0 would "estrange" s1); the equalities make
	// ensureClosure add s1.c0 = s3.c0, so {s1,s3,s4} is joined without s2 — the rule keeps the
	// conjunct out of that join, and above it both of its tables are on one side. The default plan
	// LookupJoin(InnerJoin(s4, InnerJoin(s3, s1)), s2) returns (0,0,0,0) although 0 > 0 is false.
	i1 := []sqlgen.Ty{sqlgen.TInt}
	db7 := &sqlgen.Db{Tables: []*sqlgen.Table{
		{Tys: i1, NotNull: []bool{true}, Extra: ", PRIMARY KEY (c0)", Rows: [][]sqlgen.Value{iv(-2), iv(4), iv(-1), iv(0)}},
		{Tys: i1, NotNull: []bool{true}, Extra: ", UNIQUE KEY u0 (c0)", Rows: [][]sqlgen.Value{iv(0)}},
	}}
	q7 := sqlgen.Join("inner", sqlgen.Bin("and", sqlgen.Cmp("eq", c(2), c(3)), sqlgen.Cmp("gt", c(3), c(0))),
		sqlgen.Join("inner", sqlgen.Cmp("eq", c(1), c(2)),
			sqlgen.Join("inner", sqlgen.Cmp("eq", c(1), c(0)), sqlgen.TableQ(1), sqlgen.TableQ(0)), sqlgen.TableQ(1)), sqlgen.TableQ(1))
	// (8) left_join_replaced_by_inner_join: the equalities s4.c0 = s2.c0 AND s3.c0 = s4.c0 above the
	// LEFT JOIN make ensureClosure derive s2.c0 = s3.c0, registered as an inner edge of the LEFT JOIN's
	// operator; under some costs (random coster 13) addPlans joins s2 and s3 as an INNER join on that
	// edge alone: the LEFT JOIN's ON (never true here: s3.c0 > s3.c0) is gone and rows come out.
	db8 := &sqlgen.Db{Tables: []*sqlgen.Table{
		{Tys: i1, NotNull: []bool{false}, Rows: [][]sqlgen.Value{iv(-1), iv(-1), iv(-2), iv(-1)}},
		{Tys: i1, NotNull: []bool{false}, Extra: ", UNIQUE KEY u0 (c0)", Rows: [][]sqlgen.Value{iv(-1), iv(nil)}},
	}}
	q8 := sqlgen.Filter(sqlgen.Cmp("le", sqlgen.Lit(sqlgen.Int(-1)), c(2)),
		sqlgen.Join("inner", sqlgen.Bin("and", sqlgen.Cmp("eq", c(3), c(1)), sqlgen.Cmp("eq", c(2), c(3))),
			sqlgen.Join("left", sqlgen.Bin("and", sqlgen.Cmp("nseq", c(1), c(2)), sqlgen.Cmp("gt", c(2), c(2))),
				sqlgen.Join("inner", sqlgen.Lit(sqlgen.Int(1)), sqlgen.TableQ(1), sqlgen.TableQ(0)), sqlgen.TableQ(1)), sqlgen.TableQ(0)))
	return []witness{
		{db: db8, qc: qcase{q: q8, tys: iiii, kind: "witness"}, cfgs: []config{{name: "witness:coster", coster: 13}}, repeat: 1},
		{db: db7, qc: qcase{q: q7, tys: iiii, kind: "witness"}, cfgs: []config{{name: "witness:default"}}, repeat: 1},
		{db: db6, qc: qcase{q: q6, tys: append(append([]sqlgen.Ty{}, iiii...), iiii...), kind: "witness"}, cfgs: []config{{name: "witness:lookup", hint: "LOOKUP_JOIN(s1,s2)"}}, repeat: 1},
		{db: db5, qc: qcase{q: q5, tys: ii, kind: "witness"}, cfgs: []config{{name: "witness:default"}}, repeat: 1},
		{db: db3, qc: qcase{q: q3, tys: iiii, kind: "witness"}, cfgs: []config{{name: "witness:merge", hint: "MERGE_JOIN(s1,s2)"}}, repeat: 1},
		{db: db4, qc: qcase{q: q4, tys: append(append([]sqlgen.Ty{}, iiii...), ii...), kind: "witness"},
			cfgs: []config{{name: "witness:order", hint: "JOIN_ORDER(s2,s3,s1) MERGE_JOIN(s2,s3)"}}, repeat: 1},
		{db: db1, qc: qcase{q: q1, tys: append(append(append([]sqlgen.Ty{}, ii...), iii...), iii...), kind: "witness"},
			cfgs: []config{{name: "witness:order", hint: "JOIN_ORDER(s1,s3,s2)"}}, repeat: 1},
		{db: db2, qc: qcase{q: tupleTerm(0, 1, 0, 1, 0, 1), tys: ii, kind: "witness"}, sql: tupleSQL(db2, 0, 1, 0, 1, 0, 1),
			cfgs: []config{{name: "witness:hash", hint: "HASH_JOIN(s1,s2)"}, {name: "witness:hash", hint: "HASH_JOIN(s1,s2)", force: true},
				{name: "witness:hash", hint: "HASH_JOIN(s1,s2)", force: true}, {name: "witness:hash", hint: "HASH_JOIN(s1,s2)", force: true},
				{name: "witness:hash", hint: "HASH_JOIN(s1,s2)", force: true}, {name: "witness:hash", hint: "HASH_JOIN(s1,s2)", force: true}}, repeat: 1},
	}
}

var aliasRe = regexp.MustCompile(`\bt\d+ AS (s\d+)\b`)

type config struct {
	name   string
	hint   string
	coster uint64 // 0 = default coster
	force  bool   // run even if the plan was already seen (witness of a nondeterministic finding)
}

// configs: the plan configurations a statement with the given table aliases is run under.
func (x *gen) configs(aliases []string, thorough bool) []config {
	cs := []config{{name: "default"}}
	perm := func() []string {
		p := append([]string(nil), aliases...)
		for i := len(p) - 1; i > 0; i-- {
			j := x.r.Intn(i + 1)
			p[i], p[j] = p[j], p[i]
		}
		return p
	}
	pairs := func(op string) string {
		var parts []string
		for i := range aliases {
			for j := range aliases {
				if i < j {
					parts = append(parts, fmt.Sprintf("%s(%s,%s)", op, aliases[i], aliases[j]))
				}
			}
		}
		return strings.Join(parts, " ")
	}
	algs := []string{"HASH_JOIN", "MERGE_JOIN", "LOOKUP_JOIN", "INNER_JOIN"}
	if len(aliases) >= 2 {
		rev := append([]string(nil), aliases...)
		for i, j := 0, len(rev)-1; i < j; i, j = i+1, j-1 {
			rev[i], rev[j] = rev[j], rev[i]
		}
		cs = append(cs, config{name: "order:fwd", hint: "JOIN_ORDER(" + strings.Join(aliases, ",") + ")"})
		cs = append(cs, config{name: "order:rev", hint: "JOIN_ORDER(" + strings.Join(rev, ",") + ")"})
		for _, a := range algs {
			cs = append(cs, config{name: a, hint: pairs(a)})
			cs = append(cs, config{name: a + "+fwd", hint: "JOIN_ORDER(" + strings.Join(aliases, ",") + ") " + pairs(a)})
			cs = append(cs, config{name: a + "+rev", hint: "JOIN_ORDER(" + strings.Join(rev, ",") + ") " + pairs(a)})
		}
		cs = append(cs, config{name: "SEMI_JOIN", hint: pairs("SEMI_JOIN")})
		cs = append(cs, config{name: "ANTI_JOIN", hint: pairs("ANTI_JOIN")})
		cs = append(cs, config{name: "LEFT_OUTER_LOOKUP_JOIN", hint: pairs("LEFT_OUTER_LOOKUP_JOIN")})
		cs = append(cs, config{name: "LEFT_DEEP", hint: "LEFT_DEEP"})
		cs = append(cs, config{name: "NO_MERGE_JOIN", hint: "NO_MERGE_JOIN"})
		if len(aliases) == 3 {
			a := aliases
			for _, p := range [][]string{{a[0], a[2], a[1]}, {a[1], a[0], a[2]}, {a[1], a[2], a[0]}, {a[2], a[0], a[1]}} {
				cs = append(cs, config{name: "order:perm3", hint: "JOIN_ORDER(" + strings.Join(p, ",") + ")"})
			}
		}
		if len(aliases) >= 3 {
			n := 2
			if thorough {
				n = 4
			}
			for i := 0; i < n; i++ {
				p := perm()
				cs = append(cs, config{name: "order:perm", hint: "JOIN_ORDER(" + strings.Join(p, ",") + ")"})
				a := hx.Pick(x.r, algs)
				cs = append(cs, config{name: a + "+perm", hint: "JOIN_ORDER(" + strings.Join(perm(), ",") + ") " + pairs(a)})
			}
			// per-pair mixed algorithms
			var parts []string
			for i := range aliases {
				for j := range aliases {
					if i < j {
						parts = append(parts, fmt.Sprintf("%s(%s,%s)", hx.Pick(x.r, algs), aliases[i], aliases[j]))
					}
				}
			}
			cs = append(cs, config{name: "mixed-algs", hint: strings.Join(parts, " ")})
		}
	}
	nc := 2
	if thorough {
		nc = 5
	}
	for i := 0; i < nc; i++ {
		cs = append(cs, config{name: "random-coster", coster: x.r.U64() | 1})
	}
	return cs
}

// worst: a disagreement between two plans belongs to a known region when either plan does.
func worst(a, b string) string {
	if b != "-" {
		return b
	}
	return a
}

func withHint(sqlText, hint string) string {
	if hint == "" {
		return sqlText
	}
	i := strings.Index(sqlText, "SELECT ")
	if i < 0 {
		return sqlText
	}
	return sqlText[:i] + "SELECT /*+ " + hint + " */ " + sqlText[i+7:]
}

// features of the query term / plan that the known-finding regions are decided on (mirrored by
// lean/Drivers/C01.lean, which reads the same `plan` field).
func hasOp(ops []string, sub string) bool {
	for _, o := range ops {
		if strings.Contains(o, sub) {
			return true
		}
	}
	return false
}

func run(a hx.RunArgs) error {
	out := hx.NewOut(a.OutDir)
	defer out.Close()
	out.Rule = "checkProperty unit cases (all entry bit sets x null-rejection sets); engine level: a generated database (2-4 tables, <=3 columns, <=6 rows, NULLs, " +
		"duplicates, PK / UNIQUE / secondary / composite indexes) and a join query (2-4 way inner/left/cross chain or [NOT] EXISTS / [NOT] IN subquery, optional WHERE / " +
		"GROUP BY / projection) run under up to ~30 plan configurations (JOIN_ORDER, HASH/MERGE/LOOKUP/INNER/SEMI/ANTI hints, LEFT_DEEP, NO_MERGE_JOIN, seeded random costers); " +
		"one case per DISTINCT analyzed plan; a case is non-trivial when its plan differs from the default plan of the query and the result is non-empty. " +
		"Stream keq: 2-3 tables (id, key, x[, key2]) whose keys are text under utf8mb4_0900_ai_ci / utf8mb4_general_ci (control: 0900_bin) spelled in several cases/accents, or " +
		"INT / BIGINT UNSIGNED / DECIMAL(8,1) / DECIMAL(8,3) / DOUBLE holding the same numbers; index layouts none / KEY(k) / KEY(k,x) / PK+KEY(k) / KEY(k,k2); joins on the key(s) " +
		"with optional residual, [NOT] IN / [NOT] EXISTS; int columns selected. Stream mres: two tables (id, key in {0,1,2,NULL}, x), both keys indexed, LEFT/INNER JOIN ON key equality AND a residual over x / id"
	r := hx.NewRand(a.Seed).Fork()

	unitCases(out)
	// unit correspondence of the conflict-detection model (Gms.JoinConflict) with the real calcTES /
	// applicable on generated chains and plan trees (own PRNG)
	nJcd := 3000
	if a.Thorough {
		nJcd = 30000
	}
	jcdCases(out, hx.NewRand(a.Seed*1000003+0xc03).Fork(), nJcd)

	nDb, perDb := 40, 6
	if a.Thorough {
		nDb, perDb = 900, 8
	}
	cfg := sqlgen.Default()
	cfg.Subqueries = false
	cfg.Xor = false
	g := sqlgen.NewGen(r.Fork(), cfg)
	x := &gen{r: r.Fork(), g: g}
	shapes := map[string]int{}

	// runQuery runs one query (term + SQL text) under every configuration on the open engine.
	var runQueryG func(cx *gen, e *eng.Eng, ctx *sql.Context, dbS, setupS string, qc qcase, text string, extra []config)
	runQuery := func(e *eng.Eng, ctx *sql.Context, dbS, setupS string, qc qcase, text string, extra []config) {
		runQueryG(x, e, ctx, dbS, setupS, qc, text, extra)
	}
	runQueryG = func(cx *gen, e *eng.Eng, ctx *sql.Context, dbS, setupS string, qc qcase, text string, extra []config) {
		defCoster := e.E.Analyzer.Coster
		hasNull := strings.Contains(dbS, "null")
		var aliases []string
		for _, m := range aliasRe.FindAllStringSubmatch(text, -1) {
			aliases = append(aliases, m[1])
		}
		allAliases := aliases
		if len(aliases) > 4 {
			aliases = aliases[:4]
		}
		seen := map[string]string{} // plan text -> observation
		defPlan := ""
		firstObs, firstID, firstCfg, firstRegion := "", "", "", "-"
		for ci, c := range append(extra, cx.configs(aliases, a.Thorough)...) {
			stmt := withHint(text, c.hint)
			setCoster := func() {
				if c.coster != 0 {
					e.E.Analyzer.Coster = &randCoster{r: hx.NewRand(c.coster)}
				} else {
					e.E.Analyzer.Coster = defCoster
				}
			}
			setCoster()
			pt, err := planOf(e, ctx, stmt)
			if err != nil {
				// the analyzer rejects the statement under this configuration: an observation
				pt = "analyze-error: " + fmt.Sprint(eng.Errno(err))
			}
			out.Stat("configs")
			if _, dup := seen[pt]; dup && !c.force {
				e.E.Analyzer.Coster = defCoster
				out.Stat("configs:same-plan-as-earlier")
				continue
			}
			setCoster()
			res := e.Query(ctx, stmt)
			e.E.Analyzer.Coster = defCoster
			obs := sqlgen.Canon(res, qc.tys, false)
			seen[pt] = obs
			ops := planOps(pt)
			if qc.keq != nil {
				ops = planOpsKeq(pt)
			}
			if ci == 0 {
				defPlan = pt
			}
			// the chain position of every leaf of the plan (pre-order)
			leaves := planLeaves(pt, allAliases)
			var leafS []string
			for _, l := range leaves {
				leafS = append(leafS, fmt.Sprint(l))
			}
			shape := strings.Join(ops, "+")
			shapes[shape]++
			for _, o := range ops {
				if strings.Contains(o, "Join") {
					out.Stat("planop:" + o)
				}
			}
			if hasOp(ops, "Idx") {
				out.Stat("plan:uses-index")
			}
			payload := fmt.Sprintf("(c01 (ordered 0) %s (q %s) (kind %s) (cfg %s) (plan %s) (leaves %s) (obs %s) (sql %s) %s)", dbS, qc.q.Sexp(), qc.kind,
				hx.HexS(c.name), strings.Join(ops, " "), strings.Join(leafS, " "), hx.HexS(obs), hx.HexS(stmt), setupS)
			nontrivial := pt != defPlan && len(res.Rows) > 0
			id := out.Case(payload, obs, nontrivial)
			out.Stat("cases")
			out.Stat("kind:" + qc.kind)
			out.Stat("cfg:" + c.name)
			if res.Class() != "ok" {
				out.Stat("engine:" + res.Class())
			}
			if firstID == "" {
				firstRegion = region(qc, ops, leaves, hasNull)
				firstObs, firstID, firstCfg = obs, id, c.name
			} else if obs != firstObs {
				// model-free oracle: two plans of one query disagree
				out.OracleFail(id, worst(firstRegion, region(qc, ops, leaves, hasNull)), fmt.Sprintf("plan under %q returns %s, plan under %q (case %s) returns %s: %s", c.name, obs, firstCfg, firstID, firstObs, stmt))
			}
		}
		out.Stat(fmt.Sprintf("distinct-plans-per-query:%d", len(seen)))
	}
	openWith := func(db *sqlgen.Db, setup []string) (*eng.Eng, *sql.Context, string, string) {
		e := eng.New("d")
		ctx := e.Ctx()
		e.MustExec(ctx, setup...)
		setupS := hx.ListOf(append([]string{"setup"}, setup...), func(s string) string {
			if s == "setup" {
				return s
			}
			return hx.HexS(s)
		})
		return e, ctx, db.Sexp(), setupS
	}
	open := func(db *sqlgen.Db) (*eng.Eng, *sql.Context, string, string) { return openWith(db, db.Setup()) }

	// corpus: the witnesses of the known findings first
	for _, w := range corpus() {
		e, ctx, dbS, setupS := open(w.db)
		text := w.sql
		if text == "" {
			text = (&sqlgen.Printer{Db: w.db, AllowMixedJoinChains: true}).SQL(w.qc.q)
			if whereNotIn(w.qc.q) {
				text = unaliasIn(text) // witness (5): let the analyzer unnest the NOT IN
			}
		}
		w.qc.db = w.db
		for i := 0; i < w.repeat; i++ {
			runQuery(e, ctx, dbS, setupS, w.qc, text, w.cfgs)
		}
		out.Stat("corpus")
	}

	// C01-specific streams (own generators and PRNGs: the general stream below is the same sample
	// with or without them): join keys whose equality is not byte equality (keq.go) and residual
	// predicates over blocks of equal keys (mres.go)
	st := &streams{a: a, out: out, g: g, openWith: openWith, runQuery: runQueryG}
	st.keqStream()
	st.mresStream()

	for i := 0; i < nDb; i++ {
		maxT := 3
		if a.Thorough {
			maxT = 4
		}
		if i%3 == 2 {
			db := x.genPhysDb()
			e, ctx, dbS, setupS := open(db)
			for k := 0; k < perDb; k++ {
				qc := x.physQuery()
				qc.db = db
				runQuery(e, ctx, dbS, setupS, qc, (&sqlgen.Printer{Db: db}).SQL(qc.q), nil)
			}
			out.Stat("db:phys")
			continue
		}
		db := x.genDb(maxT)
		e, ctx, dbS, setupS := open(db)
		for k := 0; k < perDb; k++ {
			if x.r.Chance(1, 12) {
				if qc, text, ok := x.tupleNotIn(); ok {
					qc.db = db
					runQuery(e, ctx, dbS, setupS, qc, text, nil)
					continue
				}
			}
			mixed := x.r.Chance(1, 4)
			qc := x.query(a.Thorough, mixed)
			qc.db = db
			p := &sqlgen.Printer{Db: db, AllowMixedJoinChains: mixed || qc.kind == "reorder"}
			if mixed {
				out.Stat("q:mixed-chain")
			}
			runQuery(e, ctx, dbS, setupS, qc, p.SQL(qc.q), nil)
		}
	}
	out.Extra["plan_shapes"] = len(shapes)
	type kv struct {
		k string
		v int
	}
	var top []kv
	for k, v := range shapes {
		top = append(top, kv{k, v})
	}
	sort.Slice(top, func(i, j int) bool { return top[i].v > top[j].v || top[i].v == top[j].v && top[i].k < top[j].k })
	if len(top) > 40 {
		top = top[:40]
	}
	tm := map[string]int{}
	for _, t := range top {
		tm[t.k] = t.v
	}
	out.Extra["top_plan_shapes"] = tm
	for k, v := range g.Stats {
		out.StatN(k, v)
	}
	return nil
}

// region mirrors the region predicate of lean/Gms/Model/PhysRegions.lean (decided on the case:
// query term + operator skeleton of the plan, not on the outcome); "-" = no known region.
func conjuncts(e *sqlgen.Expr) int {
	if e.Op == "and" {
		return conjuncts(e.Args[0]) + conjuncts(e.Args[1])
	}
	return 1
}

func joinTree(q *sqlgen.Query) *sqlgen.Query {
	for q.Op == "filter" || q.Op == "project" || q.Op == "group" || q.Op == "distinct" {
		q = q.L
	}
	return q
}

func hasLeftJoin(q *sqlgen.Query) bool {
	if q.Op != "join" {
		return false
	}
	return q.Kind == "left" || hasLeftJoin(q.L) || hasLeftJoin(q.R)
}

func multiConjInnerAboveLeft(q *sqlgen.Query) bool {
	if q.Op != "join" {
		return false
	}
	if q.Kind == "inner" && conjuncts(q.P) >= 2 && (hasLeftJoin(q.L) || hasLeftJoin(q.R)) {
		return true
	}
	return multiConjInnerAboveLeft(q.L) || multiConjInnerAboveLeft(q.R)
}

func isInnerTypeOp(s string) bool {
	switch s {
	case "InnerJoin", "HashJoin", "LookupJoin", "MergeJoin", "CrossJoin", "CrossHashJoin", "RangeHeapJoin":
		return true
	}
	return false
}

func outerAboveInner(ops []string) bool {
	for i, o := range ops {
		if strings.HasPrefix(o, "LeftOuter") {
			for _, p := range ops[i+1:] {
				if isInnerTypeOp(p) {
					return true
				}
			}
		}
	}
	return false
}

// hasTupleNotIn: the term is the encoding of a row-constructor NOT IN (see tupleTerm).
func hasTupleNotIn(q *sqlgen.Query) bool {
	if q.Op != "filter" || q.P.Op != "not" || q.P.Args[0].Op != "exists" {
		return false
	}
	in := q.P.Args[0].Q
	return in.Op == "filter" && in.P.Op == "not" && in.P.Args[0].Op == "isfalse" && in.P.Args[0].Args[0].Op == "and"
}

// nseqPairs: the column pairs of the `<=>` conjuncts in the ON conditions of inner joins.
func nseqPairs(q *sqlgen.Query, out *[][2]int) {
	if q.Op != "join" {
		return
	}
	if q.Kind == "inner" {
		var walk func(e *sqlgen.Expr)
		walk = func(e *sqlgen.Expr) {
			if e.Op == "and" {
				walk(e.Args[0])
				walk(e.Args[1])
				return
			}
			if e.Op == "cmp" && e.Sub == "nseq" && e.Args[0].Op == "col" && e.Args[1].Op == "col" && e.Args[0].D == 0 && e.Args[1].D == 0 {
				*out = append(*out, [2]int{e.Args[0].I, e.Args[1].I})
			}
		}
		walk(q.P)
	}
	nseqPairs(q.L, out)
	nseqPairs(q.R, out)
}

// sharedNullsafe: two `<=>` join conjuncts share a column (a <=> b, a <=> c): the join order builder
// derives the transitive edge b = c — with plain equality.
func sharedNullsafe(q *sqlgen.Query) bool {
	var ps [][2]int
	nseqPairs(q, &ps)
	for i := range ps {
		for j := range ps {
			if i < j && (ps[i][0] == ps[j][0] || ps[i][0] == ps[j][1] || ps[i][1] == ps[j][0] || ps[i][1] == ps[j][1]) && ps[i] != ps[j] {
				return true
			}
		}
	}
	return false
}

func hasExactOp(ops []string, op string) bool {
	for _, o := range ops {
		if o == op {
			return true
		}
	}
	return false
}

func predHasNotIn(e *sqlgen.Expr) bool {
	switch {
	case e.Op == "not" && e.Args[0].Op == "insub":
		return true
	case e.Op == "and":
		return predHasNotIn(e.Args[0]) || predHasNotIn(e.Args[1])
	}
	return false
}

// whereNotIn mirrors Gms.PhysRegions.whereNotIn.
func whereNotIn(q *sqlgen.Query) bool {
	switch q.Op {
	case "filter":
		return predHasNotIn(q.P) || whereNotIn(q.L)
	case "project", "group", "distinct":
		return whereNotIn(q.L)
	case "join":
		return whereNotIn(q.L) || whereNotIn(q.R)
	}
	return false
}

func colCmpConj(op string, e *sqlgen.Expr) int {
	switch {
	case e.Op == "and":
		return colCmpConj(op, e.Args[0]) + colCmpConj(op, e.Args[1])
	case e.Op == "cmp" && e.Sub == op && e.Args[0].Op == "col" && e.Args[1].Op == "col" && e.Args[0].D == 0 && e.Args[1].D == 0:
		return 1
	}
	return 0
}

// mixedNullsafeOn mirrors Gms.PhysRegions.mixedNullsafeOn.
func mixedNullsafeOn(q *sqlgen.Query) bool {
	if q.Op != "join" {
		return false
	}
	return colCmpConj("nseq", q.P) >= 1 && colCmpConj("eq", q.P) >= 1 || mixedNullsafeOn(q.L) || mixedNullsafeOn(q.R)
}

func hasLookupOp(ops []string) bool {
	for _, o := range ops {
		switch o {
		case "LookupJoin", "LeftOuterLookupJoin", "SemiLookupJoin", "AntiLookupJoin", "AntiLookupIncludingNulls":
			return true
		}
	}
	return false
}

// leftJoins / leftJoinReplaced mirror Gms.PhysRegions.leftJoins / leftJoinReplaced: the plan has
// fewer left outer join operators than the term has LEFT JOINs.
func leftJoins(q *sqlgen.Query) int {
	if q.Op != "join" {
		return 0
	}
	n := leftJoins(q.L) + leftJoins(q.R)
	if q.Kind == "left" {
		n++
	}
	return n
}

func leftJoinReplaced(q *sqlgen.Query, ops []string) bool {
	n := 0
	for _, o := range ops {
		if strings.HasPrefix(o, "LeftOuter") {
			n++
		}
	}
	return leftJoins(q) > n
}

func region(qc qcase, ops []string, leaves []int, hasNull bool) string {
	if chainRegion(qc.db, joinTree(qc.q), ops, leaves) {
		return "inner_conjunct_lost_by_conflict_rule"
	}
	if leftJoinReplaced(joinTree(qc.q), ops) {
		return "left_join_replaced_by_inner_join"
	}
	if multiConjInnerAboveLeft(joinTree(qc.q)) && outerAboveInner(ops) {
		return "inner_conjunct_lost_at_outer_join"
	}
	if hasOp(ops, "TupleCmp") && hasNull {
		return "merge_join_tuple_null_key"
	}
	if sharedNullsafe(joinTree(qc.q)) {
		return "transitive_edge_from_nullsafe_equality"
	}
	if hasTupleNotIn(qc.q) {
		for _, o := range ops {
			if o == "LeftOuterHashJoinExcludingNulls" || o == "AntiHashJoin" {
				return "hash_exclude_nulls_probe_miss"
			}
		}
	}
	if whereNotIn(qc.q) && hasNull && (hasExactOp(ops, "LeftOuterMergeJoin") || hasExactOp(ops, "LeftOuterLookupJoin")) {
		return "not_in_as_left_outer_join"
	}
	if mixedNullsafeOn(joinTree(qc.q)) && hasNull && hasLookupOp(ops) {
		return "lookup_join_nullsafe_for_all_key_parts"
	}
	if qc.keq != nil {
		return keqRegion(qc, ops)
	}
	return "-"
}

// ---------------------------------------------------------------------------------------------
// (a) checkProperty unit correspondence

func unitCases(out *hx.Out) {
	bits := memo.VerifEntryBits()
	// every subset of the six condition bits that occurs as OR of table constants plus all single
	// bits; null-rejection sets over vertexes {0,1,2}
	var entries []uint8
	for e := 0; e < 64; e++ {
		entries = append(entries, uint8(e))
	}
	_ = bits
	for _, en := range entries {
		for nrA := uint64(0); nrA < 8; nrA++ {
			for nrB := uint64(0); nrB < 8; nrB++ {
				if (nrA*8+nrB+uint64(en))%3 != 0 && en > 1 { // thin out: a third of the non-trivial grid
					continue
				}
				leftA, rightA := uint64(1), uint64(2)
				var res bool
				p := hx.Safe(func() { res = memo.VerifCheckProperty(en, nrA, nrB, leftA, rightA) })
				obs := leanBool(res)
				if p != "" {
					obs = "crash:" + p
				}
				out.Case(fmt.Sprintf("(checkprop %d %d %d %d %d)", en, nrA, nrB, leftA, rightA), obs, en > 1 && res)
				out.Stat("checkprop")
			}
		}
	}
}
