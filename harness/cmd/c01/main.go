// C01 — Query results do not depend on the physical plan chosen.
//
//	c01 extract   the join-reordering property tables (assocTable, leftAsscomTable,
//	              rightAsscomTable), the lookupTableEntry bit values, getOpIdx, commute and the
//	              JoinType classification predicates — all dumped by RUNNING the freshly compiled
//	              sql/memo + sql/plan code (overlay accessors memo.Verif*); plus, with go/ast: the hint
//	              names of select_hints.go, the iterator dispatch order of rowexec.buildJoinNode, the
//	              number of writes to edge.nullRejectedRels and the uses of JoinTypeGroupBy
//	              → Gms/Generated/C01.lean
//	c01 run       (a) checkProperty unit correspondence (real memo.checkProperty vs. the Lean model);
//	              (b) physical-operator cases: two-table joins forced to one algorithm by hints, plan
//	              shape verified, the engine's row SEQUENCE against the Lean model of that iterator;
//	              (c) engine-level: generated databases (PK / UNIQUE / secondary / composite indexes)
//	              and join queries (2-4 way inner/left/cross chains, IN / EXISTS / NOT IN / NOT EXISTS
//	              subqueries that become semi/anti joins, filters, aggregates), each run under many
//	              plan configurations (JOIN_ORDER permutations, per-pair HASH/MERGE/LOOKUP/INNER/SEMI/
//	              ANTI hints, LEFT_DEEP, NO_MERGE_JOIN, seeded random costers); every DISTINCT plan is a
//	              case: result multiset vs. the Lean reference semantics, plus the model-free pairwise
//	              oracle (all plans of one query agree)
//	c01 sql       run the statements on stdin on a fresh engine and print result + plan (manual replay)
package main

import (
	"bufio"
	"fmt"
	"go/ast"
	"os"
	"regexp"
	"sort"
	"strings"

	"github.com/dolthub/go-mysql-server/sql"
	"github.com/dolthub/go-mysql-server/sql/memo"
	"github.com/dolthub/go-mysql-server/sql/plan"
	"github.com/dolthub/go-mysql-server/verifharness/hx"
	"github.com/dolthub/go-mysql-server/verifharness/hx/eng"
	"github.com/dolthub/go-mysql-server/verifharness/sqlgen"
)

func main() {
	if len(os.Args) > 1 && os.Args[1] == "sql" {
		sqlMode()
		return
	}
	hx.Main(extract, run)
}

// ---------------------------------------------------------------------------------------------
// plan access

// randCoster steers the memo to an arbitrary alternative: every cost is a draw of a seeded PRNG
// (the sequence of EstimateCost calls is deterministic for a given statement).
type randCoster struct{ r *hx.Rand }

func (c *randCoster) EstimateCost(ctx *sql.Context, n memo.RelExpr, s sql.StatsProvider) (float64, error) {
	return float64(c.r.Intn(1000)), nil
}

// planOf analyzes the statement and returns the plan text (not executed).
func planOf(e *eng.Eng, ctx *sql.Context, q string) (text string, err error) {
	p := hx.Safe(func() {
		var n sql.Node
		n, err = e.E.AnalyzeQuery(ctx, q)
		if err == nil {
			text = n.String()
		}
	})
	if p != "" {
		return "", fmt.Errorf("panic: %s", p)
	}
	return text, err
}

var joinOpRe = regexp.MustCompile(`(?m)^[ │├└─]*([A-Za-z]*Join[A-Za-z]*|IndexedTableAccess\([^)]*\)|IndexedTableAccess|HashLookup|CachedResults|Filter|Sort|TableAlias\([^)]*\)|Table|Project|GroupBy|Distinct|TopN|Limit)\b`)

// planOps: the operator skeleton of a plan text: join operators in tree order with the access
// path of each table.
func planOps(text string) []string {
	var ops []string
	for _, m := range joinOpRe.FindAllStringSubmatch(text, -1) {
		op := m[1]
		switch {
		case strings.Contains(op, "Join"):
			ops = append(ops, op)
		case strings.HasPrefix(op, "IndexedTableAccess"):
			ops = append(ops, "Idx")
		case op == "HashLookup", op == "CachedResults":
			// implied by the join operator
		case op == "Table":
			ops = append(ops, "Tbl")
		}
	}
	return ops
}

func sqlMode() {
	e := eng.New("d")
	ctx := e.Ctx()
	sc := bufio.NewScanner(os.Stdin)
	sc.Buffer(make([]byte, 1<<20), 1<<24)
	def := e.E.Analyzer.Coster
	for sc.Scan() {
		q := strings.TrimSpace(sc.Text())
		if q == "" || strings.HasPrefix(q, "--") {
			continue
		}
		if strings.HasPrefix(q, "!coster ") { // `!coster <seed>` / `!coster default`
			arg := strings.TrimSpace(q[8:])
			if arg == "default" {
				e.E.Analyzer.Coster = def
			} else {
				var s uint64
				fmt.Sscan(arg, &s)
				e.E.Analyzer.Coster = &randCoster{r: hx.NewRand(s)}
			}
			continue
		}
		up := strings.ToUpper(q)
		if strings.HasPrefix(up, "SELECT") || strings.HasPrefix(up, "WITH") {
			pt, err := planOf(e, ctx, q)
			if err != nil {
				fmt.Printf("plan error: %v\n", err)
			} else {
				fmt.Printf("%s  ops=%v\n", pt, planOps(pt))
			}
		}
		r := e.Query(ctx, q)
		fmt.Printf("%s\n  => %s", q, r.Class())
		if r.Err != nil {
			fmt.Printf(" err=%v", r.Err)
		}
		if r.Panic != "" {
			fmt.Printf(" panic=%v", r.Panic)
		}
		var txt []string
		for _, row := range r.Rows {
			txt = append(txt, "["+strings.Join(row, ",")+"]")
		}
		fmt.Printf("\n  rows: %s\n", strings.Join(txt, " "))
	}
}

// ---------------------------------------------------------------------------------------------
// Facts

func leanBool(b bool) string {
	if b {
		return "true"
	}
	return "false"
}

func extract(a hx.ExtractArgs) error {
	lf := hx.NewLeanFile("Gms.Generated.C01", "sql/memo/join_order_builder.go", "sql/memo/select_hints.go", "sql/plan/join.go", "sql/rowexec/rel.go")

	// (1) the three property tables and the entry bit values, from the running code
	assoc, lasscom, rasscom := memo.VerifJoinPropTables()
	tab := func(name string, t [8][8]uint8) {
		rows := make([]string, 8)
		for i := 0; i < 8; i++ {
			cells := make([]string, 8)
			for j := 0; j < 8; j++ {
				cells[j] = fmt.Sprint(t[i][j])
			}
			rows[i] = "[" + strings.Join(cells, ", ") + "]"
		}
		lf.Raw(fmt.Sprintf("def %s : List (List Nat) := [\n  %s]\n", name, strings.Join(rows, ",\n  ")))
	}
	lf.Comment("join-reordering property tables (rows: operator A, columns: operator B; index = getOpIdx:")
	lf.Comment("0 cross, 1 inner, 2 semi, 3 anti, 4 left, 5 full, 6 group-by, 7 lateral); entries are lookupTableEntry bit sets")
	tab("assocTable", assoc)
	tab("leftAsscomTable", lasscom)
	tab("rightAsscomTable", rasscom)
	bits := memo.VerifEntryBits()
	var bl []uint64
	for _, b := range bits {
		bl = append(bl, uint64(b))
	}
	lf.Comment("never, always, filterA, filterB, rejectsOnLeftA, rejectsOnRightA, rejectsOnRightB")
	lf.DefNatList("entryBits", bl)

	// (2) JoinType classification, from the running code: every JoinType value until String() stops
	// naming them.
	lf.Comment("(name, getOpIdx or 99, commute, IsExcludeNulls, IsLeftOuter, IsSemi, IsAnti, IsPartial, IsHash, IsMerge, IsLookup, IsCross, IsRange, IsLateral, IsFullOuter, IsPlaceholder)")
	var rows []string
	for t := plan.JoinType(0); t < 64; t++ {
		name := t.String()
		if strings.HasPrefix(name, "JoinType(") {
			break
		}
		idx := memo.VerifGetOpIdx(t)
		if idx < 0 {
			idx = 99
		}
		fl := []bool{memo.VerifCommute(t), t.IsExcludeNulls(), t.IsLeftOuter(), t.IsSemi(), t.IsAnti(), t.IsPartial(), t.IsHash(), t.IsMerge(), t.IsLookup(), t.IsCross(), t.IsRange(), t.IsLateral(), t.IsFullOuter(), t.IsPlaceholder()}
		fs := make([]string, len(fl))
		for i, b := range fl {
			fs[i] = leanBool(b)
		}
		rows = append(rows, fmt.Sprintf("(%s, %d, [%s])", hx.LeanString(name), idx, strings.Join(fs, ", ")))
	}
	if len(rows) < 20 {
		return fmt.Errorf("only %d join types enumerated", len(rows))
	}
	lf.Raw(fmt.Sprintf("def joinTypes : List (String × Nat × List Bool) := [\n  %s]\n", strings.Join(rows, ",\n  ")))

	// (3) iterator dispatch order of rowexec.buildJoinNode (go/ast): [(predicate, constructor)]
	src, err := hx.ParseSrc(a.Repo, "sql/rowexec/rel.go")
	if err != nil {
		return err
	}
	fd, err := src.Func("BaseBuilder", "buildJoinNode")
	if err != nil {
		return err
	}
	var disp []string
	ok := false
	ast.Inspect(fd.Body, func(n ast.Node) bool {
		sw, isSw := n.(*ast.SwitchStmt)
		if !isSw || sw.Tag != nil {
			return true
		}
		ok = true
		for _, c := range sw.Body.List {
			cc := c.(*ast.CaseClause)
			pred := "default"
			if len(cc.List) == 1 {
				if call, isCall := cc.List[0].(*ast.CallExpr); isCall {
					if sel, isSel := call.Fun.(*ast.SelectorExpr); isSel && src.Text(sel.X) == "n.Op" {
						pred = sel.Sel.Name
					} else {
						pred = "?" + src.Text(cc.List[0])
					}
				} else {
					pred = "?" + src.Text(cc.List[0])
				}
			} else if len(cc.List) > 1 {
				pred = "?multi"
			}
			target := "?"
			if len(cc.Body) == 1 {
				switch st := cc.Body[0].(type) {
				case *ast.ReturnStmt:
					if len(st.Results) == 1 {
						if call, isCall := st.Results[0].(*ast.CallExpr); isCall {
							target = src.Text(call.Fun)
						}
					}
				case *ast.ExprStmt:
					if call, isCall := st.X.(*ast.CallExpr); isCall {
						target = src.Text(call.Fun)
					}
				}
			}
			disp = append(disp, fmt.Sprintf("(%s, %s)", hx.LeanString(pred), hx.LeanString(target)))
		}
		return false
	})
	if !ok || len(disp) == 0 {
		return fmt.Errorf("buildJoinNode: tagless switch not found")
	}
	lf.Comment("rowexec.buildJoinNode: first matching case wins")
	lf.Raw(fmt.Sprintf("def iterDispatch : List (String × String) := [\n  %s]\n", strings.Join(disp, ",\n  ")))

	// (4) hint names (select_hints.go newHint switch)
	hs, err := hx.ParseSrc(a.Repo, "sql/memo/select_hints.go")
	if err != nil {
		return err
	}
	nh, err := hs.Func("", "newHint")
	if err != nil {
		return err
	}
	var hints []string
	ast.Inspect(nh.Body, func(n ast.Node) bool {
		cc, isCC := n.(*ast.CaseClause)
		if !isCC {
			return true
		}
		for _, x := range cc.List {
			if bl, isBL := x.(*ast.BasicLit); isBL {
				hints = append(hints, strings.Trim(bl.Value, "\""))
			}
		}
		return true
	})
	if len(hints) == 0 {
		return fmt.Errorf("newHint: no hint names found")
	}
	lf.DefStringList("hintNames", hints)

	// (5) writes to edge.nullRejectedRels and uses of JoinTypeGroupBy in non-test sources
	writes, groupUses := 0, 0
	for _, dir := range []string{"sql/memo", "sql/analyzer", "sql/planbuilder", "sql/plan", "sql/rowexec"} {
		ents, err := os.ReadDir(a.Repo + "/" + dir)
		if err != nil {
			return err
		}
		for _, ent := range ents {
			name := ent.Name()
			if !strings.HasSuffix(name, ".go") || strings.HasSuffix(name, "_test.go") || name == "jointype_string.go" {
				continue
			}
			s, err := hx.ParseSrc(a.Repo, dir+"/"+name)
			if err != nil {
				return err
			}
			ast.Inspect(s.File, func(n ast.Node) bool {
				switch x := n.(type) {
				case *ast.AssignStmt:
					for _, l := range x.Lhs {
						if sel, isSel := l.(*ast.SelectorExpr); isSel && sel.Sel.Name == "nullRejectedRels" {
							writes++
						}
					}
				case *ast.KeyValueExpr:
					if id, isId := x.Key.(*ast.Ident); isId && id.Name == "nullRejectedRels" {
						writes++
					}
				case *ast.Ident:
					if x.Name == "JoinTypeGroupBy" {
						groupUses++
					}
				case *ast.SelectorExpr:
					if x.Sel.Name == "JoinTypeGroupBy" {
						groupUses++
					}
				}
				return true
			})
		}
	}
	lf.Comment("assignments to edge.nullRejectedRels anywhere in memo/analyzer/planbuilder/plan/rowexec (0: conditional table entries never fire)")
	lf.DefNat("nullRejectedRelsWrites", uint64(writes))
	lf.Comment("occurrences of the identifier JoinTypeGroupBy (declaration + getOpIdx case only: the kind is never constructed)")
	lf.DefNat("groupByJoinMentions", uint64(groupUses))
	return lf.Write(a.Out)
}

// ---------------------------------------------------------------------------------------------
// Engine-level generator

type gen struct {
	r  *hx.Rand
	g  *sqlgen.Gen
	db *sqlgen.Db
}

// genDb: 2..nt tables; column 0 is always int. Index layouts: none, KEY(cj), PRIMARY KEY(c0),
// UNIQUE KEY(cj), composite KEY(c0,c1).
func (x *gen) genDb(maxT int) *sqlgen.Db {
	db := &sqlgen.Db{}
	nt := x.r.Range(2, maxT)
	for n := 0; n < nt; n++ {
		t := &sqlgen.Table{}
		nc := x.r.Range(1, 3)
		for j := 0; j < nc; j++ {
			ty := sqlgen.TInt
			if j > 0 && x.r.Chance(1, 5) {
				ty = sqlgen.TStr
			}
			t.Tys = append(t.Tys, ty)
			t.NotNull = append(t.NotNull, x.r.Chance(1, 4))
		}
		layout := x.r.Intn(7)
		nr := x.r.Range(0, 6)
		if x.r.Chance(1, 10) {
			nr = 0
		}
		pk := layout == 2
		if pk {
			t.NotNull[0] = true
		}
		used := map[int64]bool{}
		for i := 0; i < nr; i++ {
			if !pk && i > 0 && x.r.Chance(1, 5) {
				t.Rows = append(t.Rows, append([]sqlgen.Value(nil), t.Rows[x.r.Intn(i)]...))
				continue
			}
			row := make([]sqlgen.Value, nc)
			for j := range row {
				row[j] = x.g.Value(t.Tys[j], !t.NotNull[j])
			}
			if pk {
				v := int64(x.r.Range(-2, 5))
				for used[v] {
					v++
				}
				used[v] = true
				row[0] = sqlgen.Int(v)
			}
			t.Rows = append(t.Rows, row)
		}
		switch layout {
		case 1, 5:
			j := x.r.Intn(nc)
			t.Extra = fmt.Sprintf(", KEY k%d (c%d)", j, j)
			x.g.Stats["db:key"]++
		case 2:
			t.Extra = ", PRIMARY KEY (c0)"
			x.g.Stats["db:pk"]++
		case 3:
			// UNIQUE: allowed only when the non-NULL values of the column are distinct
			j := x.r.Intn(nc)
			seen := map[string]bool{}
			okU := true
			for _, row := range t.Rows {
				if row[j].Null {
					continue
				}
				k := row[j].Sexp()
				if seen[k] {
					okU = false
				}
				seen[k] = true
			}
			if okU {
				t.Extra = fmt.Sprintf(", UNIQUE KEY u%d (c%d)", j, j)
				x.g.Stats["db:unique"]++
			}
		case 4:
			if nc >= 2 {
				t.Extra = ", KEY k01 (c0, c1)"
				x.g.Stats["db:composite"]++
			}
		}
		db.Tables = append(db.Tables, t)
	}
	x.db = db
	x.g.Db = db
	return db
}

func intCols(tys []sqlgen.Ty, lo, hi int) []int {
	var out []int
	for i := lo; i < hi; i++ {
		if tys[i] != sqlgen.TStr {
			out = append(out, i)
		}
	}
	return out
}

// joinCond: an equality between an int column of the new (right) part and one of the left part,
// optionally with an extra conjunct over both; sometimes a range comparison; sometimes arbitrary.
func (x *gen) joinCond(all []sqlgen.Ty, nl int) *sqlgen.Expr {
	lc, rc := intCols(all, 0, nl), intCols(all, nl, len(all))
	var on *sqlgen.Expr
	switch k := x.r.Intn(10); {
	case k < 7:
		on = sqlgen.Cmp("eq", sqlgen.Col(0, hx.Pick(x.r, lc)), sqlgen.Col(0, hx.Pick(x.r, rc)))
		if x.r.Bool() {
			on.Args[0], on.Args[1] = on.Args[1], on.Args[0]
		}
		x.g.Stats["on:equi"]++
	case k < 8:
		on = sqlgen.Cmp(hx.Pick(x.r, []string{"lt", "le", "gt", "ge"}), sqlgen.Col(0, hx.Pick(x.r, lc)), sqlgen.Col(0, hx.Pick(x.r, rc)))
		x.g.Stats["on:range"]++
	case k < 9:
		on = sqlgen.Cmp("nseq", sqlgen.Col(0, hx.Pick(x.r, lc)), sqlgen.Col(0, hx.Pick(x.r, rc)))
		x.g.Stats["on:nullsafe"]++
	default:
		x.g.Stats["on:general"]++
		return x.g.JoinOn(1, all)
	}
	if x.r.Chance(1, 3) {
		extra := x.g.Pred(x.r.Intn(2), [][]sqlgen.Ty{all})
		if sqlgen.HasCol(extra) {
			on = sqlgen.Bin("and", on, extra)
			x.g.Stats["on:extra-conjunct"]++
		}
	}
	return on
}

// joinChain: a left-deep chain of 2..n tables.
func (x *gen) joinChain(n int, mixed bool) (*sqlgen.Query, []sqlgen.Ty) {
	t0 := x.r.Intn(len(x.db.Tables))
	q := sqlgen.TableQ(t0)
	tys := append([]sqlgen.Ty(nil), x.db.Tables[t0].Tys...)
	kind0 := hx.Pick(x.r, []string{"inner", "inner", "left"})
	for i := 1; i < n; i++ {
		m := x.r.Intn(len(x.db.Tables))
		rt := x.db.Tables[m].Tys
		if len(tys)+len(rt) > 8 {
			break
		}
		all := append(append([]sqlgen.Ty(nil), tys...), rt...)
		kind := kind0
		if mixed {
			kind = hx.Pick(x.r, []string{"inner", "inner", "left"})
		}
		var on *sqlgen.Expr
		if kind == "inner" && x.r.Chance(1, 8) {
			on = sqlgen.Lit(sqlgen.Int(1))
			x.g.Stats["on:cross"]++
		} else {
			on = x.joinCond(all, len(tys))
		}
		j := sqlgen.Join(kind, on, q, sqlgen.TableQ(m))
		j.Cross = x.r.Bool()
		x.g.Stats["join:"+kind]++
		q, tys = j, all
	}
	return q, tys
}

// subPred: a predicate with a (mostly correlated) subquery that the analyzer turns into a semi or
// anti join: [NOT] EXISTS (SELECT … FROM t WHERE t.ci = outer.cj [AND p]) or
// outer.cj [NOT] IN (SELECT t.ci FROM t [WHERE p]).
func (x *gen) subPred(outer []sqlgen.Ty) *sqlgen.Expr {
	m := x.r.Intn(len(x.db.Tables))
	in := x.db.Tables[m].Tys
	oc, ic := intCols(outer, 0, len(outer)), intCols(in, 0, len(in))
	neg := x.r.Chance(2, 5)
	var e *sqlgen.Expr
	if x.r.Bool() {
		// EXISTS
		p := sqlgen.Cmp("eq", sqlgen.Col(0, hx.Pick(x.r, ic)), sqlgen.Col(1, hx.Pick(x.r, oc)))
		if x.r.Chance(1, 3) {
			extra := x.g.Pred(0, [][]sqlgen.Ty{in})
			if sqlgen.HasCol(extra) {
				p = sqlgen.Bin("and", p, extra)
			}
		}
		e = sqlgen.Exists(sqlgen.Filter(p, sqlgen.TableQ(m)))
		x.g.Stats["sub:exists"]++
	} else {
		var sq *sqlgen.Query = sqlgen.TableQ(m)
		switch x.r.Intn(4) {
		case 0:
			extra := x.g.Pred(0, [][]sqlgen.Ty{in})
			if sqlgen.HasCol(extra) {
				sq = sqlgen.Filter(extra, sq)
			}
		case 1:
			// correlated IN: the subquery's WHERE mentions the outer row
			sq = sqlgen.Filter(sqlgen.Cmp("eq", sqlgen.Col(0, hx.Pick(x.r, ic)), sqlgen.Col(1, hx.Pick(x.r, oc))), sq)
			x.g.Stats["sub:in-correlated"]++
		}
		e = sqlgen.InSub(sqlgen.Col(0, hx.Pick(x.r, oc)), sqlgen.Project([]*sqlgen.Expr{sqlgen.Col(0, hx.Pick(x.r, ic))}, sq))
		x.g.Stats["sub:in"]++
	}
	if neg {
		e = sqlgen.Not(e)
		e.Alt = x.r.Chance(3, 4)
		x.g.Stats["sub:negated"]++
	}
	return e
}

type qcase struct {
	q       *sqlgen.Query
	tys     []sqlgen.Ty
	kind    string
}

func (x *gen) query(thorough bool, mixed bool) qcase {
	maxN := 3
	if thorough {
		maxN = 4
	}
	kind := "join"
	var q *sqlgen.Query
	var tys []sqlgen.Ty
	switch k := x.r.Intn(10); {
	case k < 5:
		q, tys = x.joinChain(x.r.Range(2, maxN), mixed)
	case k < 8:
		kind = "semi"
		if x.r.Chance(1, 3) {
			q, tys = x.joinChain(2, mixed)
			kind = "join+semi"
		} else {
			t := x.r.Intn(len(x.db.Tables))
			q, tys = sqlgen.TableQ(t), append([]sqlgen.Ty(nil), x.db.Tables[t].Tys...)
		}
		p := x.subPred(tys)
		if x.r.Chance(1, 4) {
			p = sqlgen.Bin("and", p, x.subPred(tys))
			x.g.Stats["sub:two"]++
		}
		q = sqlgen.Filter(p, q)
	default:
		q, tys = x.joinChain(2, mixed)
		kind = "join+where"
	}
	if kind != "semi" && kind != "join+semi" && x.r.Chance(2, 5) || kind == "join+where" {
		p := x.g.Pred(x.r.Intn(2), [][]sqlgen.Ty{tys})
		if sqlgen.HasCol(p) {
			q = sqlgen.Filter(p, q)
			x.g.Stats["q:where"]++
		}
	}
	switch x.r.Intn(8) {
	case 0:
		// aggregate on top: GROUP BY one column, COUNT(*) and SUM of an int column
		ic := intCols(tys, 0, len(tys))
		k := x.r.Intn(len(tys))
		q = sqlgen.Group([]*sqlgen.Expr{sqlgen.Col(0, k)}, []string{"countstar", "sum"}, []*sqlgen.Expr{sqlgen.Lit(sqlgen.Int(1)), sqlgen.Col(0, hx.Pick(x.r, ic))}, q)
		tys = []sqlgen.Ty{tys[k], sqlgen.TInt, sqlgen.TInt}
		x.g.Stats["q:group"]++
	case 1:
		q = sqlgen.Group(nil, []string{"countstar"}, []*sqlgen.Expr{sqlgen.Lit(sqlgen.Int(1))}, q)
		tys = []sqlgen.Ty{sqlgen.TInt}
		x.g.Stats["q:count"]++
	case 2:
		// projection of a subset of the columns (column pruning changes what the join carries)
		k := x.r.Intn(len(tys))
		q = sqlgen.Project([]*sqlgen.Expr{sqlgen.Col(0, k)}, q)
		tys = []sqlgen.Ty{tys[k]}
		x.g.Stats["q:project"]++
	}
	return qcase{q: q, tys: tys, kind: kind}
}

var aliasRe = regexp.MustCompile(`\bt\d+ AS (s\d+)\b`)

type config struct {
	name   string
	hint   string
	coster uint64 // 0 = default coster
}

// configs: the plan configurations a statement with the given table aliases is run under.
func (x *gen) configs(aliases []string, thorough bool) []config {
	cs := []config{{name: "default"}}
	perm := func() []string {
		p := append([]string(nil), aliases...)
		for i := len(p) - 1; i > 0; i-- {
			j := x.r.Intn(i + 1)
			p[i], p[j] = p[j], p[i]
		}
		return p
	}
	pairs := func(op string) string {
		var parts []string
		for i := range aliases {
			for j := range aliases {
				if i < j {
					parts = append(parts, fmt.Sprintf("%s(%s,%s)", op, aliases[i], aliases[j]))
				}
			}
		}
		return strings.Join(parts, " ")
	}
	algs := []string{"HASH_JOIN", "MERGE_JOIN", "LOOKUP_JOIN", "INNER_JOIN"}
	if len(aliases) >= 2 {
		rev := append([]string(nil), aliases...)
		for i, j := 0, len(rev)-1; i < j; i, j = i+1, j-1 {
			rev[i], rev[j] = rev[j], rev[i]
		}
		cs = append(cs, config{name: "order:fwd", hint: "JOIN_ORDER(" + strings.Join(aliases, ",") + ")"})
		cs = append(cs, config{name: "order:rev", hint: "JOIN_ORDER(" + strings.Join(rev, ",") + ")"})
		for _, a := range algs {
			cs = append(cs, config{name: a, hint: pairs(a)})
			cs = append(cs, config{name: a + "+fwd", hint: "JOIN_ORDER(" + strings.Join(aliases, ",") + ") " + pairs(a)})
			cs = append(cs, config{name: a + "+rev", hint: "JOIN_ORDER(" + strings.Join(rev, ",") + ") " + pairs(a)})
		}
		cs = append(cs, config{name: "SEMI_JOIN", hint: pairs("SEMI_JOIN")})
		cs = append(cs, config{name: "ANTI_JOIN", hint: pairs("ANTI_JOIN")})
		cs = append(cs, config{name: "LEFT_OUTER_LOOKUP_JOIN", hint: pairs("LEFT_OUTER_LOOKUP_JOIN")})
		cs = append(cs, config{name: "LEFT_DEEP", hint: "LEFT_DEEP"})
		cs = append(cs, config{name: "NO_MERGE_JOIN", hint: "NO_MERGE_JOIN"})
		if len(aliases) >= 3 {
			n := 2
			if thorough {
				n = 4
			}
			for i := 0; i < n; i++ {
				p := perm()
				cs = append(cs, config{name: "order:perm", hint: "JOIN_ORDER(" + strings.Join(p, ",") + ")"})
				a := hx.Pick(x.r, algs)
				cs = append(cs, config{name: a + "+perm", hint: "JOIN_ORDER(" + strings.Join(perm(), ",") + ") " + pairs(a)})
			}
			// per-pair mixed algorithms
			var parts []string
			for i := range aliases {
				for j := range aliases {
					if i < j {
						parts = append(parts, fmt.Sprintf("%s(%s,%s)", hx.Pick(x.r, algs), aliases[i], aliases[j]))
					}
				}
			}
			cs = append(cs, config{name: "mixed-algs", hint: strings.Join(parts, " ")})
		}
	}
	nc := 2
	if thorough {
		nc = 5
	}
	for i := 0; i < nc; i++ {
		cs = append(cs, config{name: "random-coster", coster: x.r.U64() | 1})
	}
	return cs
}

func withHint(sqlText, hint string) string {
	if hint == "" {
		return sqlText
	}
	i := strings.Index(sqlText, "SELECT ")
	if i < 0 {
		return sqlText
	}
	return sqlText[:i] + "SELECT /*+ " + hint + " */ " + sqlText[i+7:]
}

// features of the query term / plan that the known-finding regions are decided on (mirrored by
// lean/Drivers/C01.lean, which reads the same `plan` field).
func hasOp(ops []string, sub string) bool {
	for _, o := range ops {
		if strings.Contains(o, sub) {
			return true
		}
	}
	return false
}

func run(a hx.RunArgs) error {
	out := hx.NewOut(a.OutDir)
	defer out.Close()
	out.Rule = "checkProperty unit cases (all entry bit sets x null-rejection sets); engine level: a generated database (2-4 tables, <=3 columns, <=6 rows, NULLs, " +
		"duplicates, PK / UNIQUE / secondary / composite indexes) and a join query (2-4 way inner/left/cross chain or [NOT] EXISTS / [NOT] IN subquery, optional WHERE / " +
		"GROUP BY / projection) run under up to ~30 plan configurations (JOIN_ORDER, HASH/MERGE/LOOKUP/INNER/SEMI/ANTI hints, LEFT_DEEP, NO_MERGE_JOIN, seeded random costers); " +
		"one case per DISTINCT analyzed plan; a case is non-trivial when its plan differs from the default plan of the query and the result is non-empty"
	r := hx.NewRand(a.Seed).Fork()

	unitCases(out)

	nDb, perDb := 25, 6
	if a.Thorough {
		nDb, perDb = 700, 8
	}
	cfg := sqlgen.Default()
	cfg.Subqueries = false
	cfg.Xor = false
	g := sqlgen.NewGen(r.Fork(), cfg)
	x := &gen{r: r.Fork(), g: g}
	shapes := map[string]int{}
	for i := 0; i < nDb; i++ {
		maxT := 3
		if a.Thorough {
			maxT = 4
		}
		db := x.genDb(maxT)
		e := eng.New("d")
		ctx := e.Ctx()
		e.MustExec(ctx, db.Setup()...)
		defCoster := e.E.Analyzer.Coster
		dbS := db.Sexp()
		setupS := hx.ListOf(append([]string{"setup"}, db.Setup()...), func(s string) string {
			if s == "setup" {
				return s
			}
			return hx.HexS(s)
		})
		for k := 0; k < perDb; k++ {
			qc := x.query(a.Thorough, false)
			p := &sqlgen.Printer{Db: db}
			text := p.SQL(qc.q)
			var aliases []string
			for _, m := range aliasRe.FindAllStringSubmatch(text, -1) {
				aliases = append(aliases, m[1])
			}
			if len(aliases) > 4 {
				aliases = aliases[:4]
			}
			seen := map[string]string{} // plan text -> observation
			defPlan := ""
			firstObs, firstID, firstCfg := "", "", ""
			for ci, c := range x.configs(aliases, a.Thorough) {
				stmt := withHint(text, c.hint)
				setCoster := func() {
					if c.coster != 0 {
						e.E.Analyzer.Coster = &randCoster{r: hx.NewRand(c.coster)}
					} else {
						e.E.Analyzer.Coster = defCoster
					}
				}
				setCoster()
				pt, err := planOf(e, ctx, stmt)
				if err != nil {
					// the analyzer rejects the statement under this configuration: an observation
					pt = "analyze-error: " + fmt.Sprint(eng.Errno(err))
				}
				out.Stat("configs")
				if _, dup := seen[pt]; dup {
					out.Stat("configs:same-plan-as-earlier")
					continue
				}
				setCoster()
				res := e.Query(ctx, stmt)
				e.E.Analyzer.Coster = defCoster
				obs := sqlgen.Canon(res, qc.tys, false)
				seen[pt] = obs
				ops := planOps(pt)
				if ci == 0 {
					defPlan = pt
				}
				shape := strings.Join(ops, "+")
				shapes[shape]++
				for _, o := range ops {
					if strings.Contains(o, "Join") {
						out.Stat("planop:" + o)
					}
				}
				if hasOp(ops, "Idx") {
					out.Stat("plan:uses-index")
				}
				payload := fmt.Sprintf("(c01 (ordered 0) %s (q %s) (kind %s) (cfg %s) (plan %s) (obs %s) (sql %s) %s)", dbS, qc.q.Sexp(), qc.kind,
					hx.HexS(c.name), hx.ListOf(ops, func(s string) string { return s }), hx.HexS(obs), hx.HexS(stmt), setupS)
				nontrivial := pt != defPlan && len(res.Rows) > 0
				id := out.Case(payload, obs, nontrivial)
				out.Stat("cases")
				out.Stat("kind:" + qc.kind)
				out.Stat("cfg:" + c.name)
				if res.Class() != "ok" {
					out.Stat("engine:" + res.Class())
				}
				if firstID == "" {
					firstObs, firstID, firstCfg = obs, id, c.name
				} else if obs != firstObs {
					// model-free oracle: two plans of one query disagree
					out.OracleFail(id, region(qc, ops, obs), fmt.Sprintf("plan under %q returns %s, plan under %q (case %s) returns %s: %s", c.name, obs, firstCfg, firstID, firstObs, stmt))
				}
			}
			out.Stat(fmt.Sprintf("distinct-plans-per-query:%d", len(seen)))
		}
	}
	out.Extra["plan_shapes"] = len(shapes)
	type kv struct {
		k string
		v int
	}
	var top []kv
	for k, v := range shapes {
		top = append(top, kv{k, v})
	}
	sort.Slice(top, func(i, j int) bool { return top[i].v > top[j].v || top[i].v == top[j].v && top[i].k < top[j].k })
	if len(top) > 40 {
		top = top[:40]
	}
	tm := map[string]int{}
	for _, t := range top {
		tm[t.k] = t.v
	}
	out.Extra["top_plan_shapes"] = tm
	for k, v := range g.Stats {
		out.StatN(k, v)
	}
	return nil
}

// region mirrors the region predicate of lean/Drivers/C01.lean (decided on the case, not on the
// outcome); "-" = no known region.
func region(qc qcase, ops []string, obs string) string {
	return "-"
}

// ---------------------------------------------------------------------------------------------
// (a) checkProperty unit correspondence

func unitCases(out *hx.Out) {
	bits := memo.VerifEntryBits()
	// every subset of the six condition bits that occurs as OR of table constants plus all single
	// bits; null-rejection sets over vertexes {0,1,2}
	var entries []uint8
	for e := 0; e < 64; e++ {
		entries = append(entries, uint8(e))
	}
	_ = bits
	for _, en := range entries {
		for nrA := uint64(0); nrA < 8; nrA++ {
			for nrB := uint64(0); nrB < 8; nrB++ {
				if (nrA*8+nrB+uint64(en))%3 != 0 && en > 1 { // thin out: a third of the non-trivial grid
					continue
				}
				leftA, rightA := uint64(1), uint64(2)
				var res bool
				p := hx.Safe(func() { res = memo.VerifCheckProperty(en, nrA, nrB, leftA, rightA) })
				obs := leanBool(res)
				if p != "" {
					obs = "crash:" + p
				}
				out.Case(fmt.Sprintf("(checkprop %d %d %d %d %d)", en, nrA, nrB, leftA, rightA), obs, en > 1 && res)
				out.Stat("checkprop")
			}
		}
	}
}
