// Finding inner_conjunct_lost_by_conflict_rule: the conflict detection of the join order builder on
// left-deep chains of inner joins.
//
//   - chainRegion mirrors Gms.JoinConflict.conjunctLost (lean/Gms/Model/JoinConflict.lean): decided on
//     the query term and the plan skeleton (join operators in pre-order + the table of every leaf). It
//     is a Go transliteration of the LEAN MODEL, independent of /repo (a changed builder must not move
//     the region).
//   - jcdCases is the unit correspondence of that model with the REAL edge.calcTES / edge.applicable
//     (overlay accessors memo.VerifChainEdges / VerifChainApplicable) on generated chains and plan
//     trees.
package main

import (
	"fmt"
	"math/bits"
	"regexp"
	"strings"

	"github.com/dolthub/go-mysql-server/sql/memo"
	"github.com/dolthub/go-mysql-server/verifharness/hx"
	"github.com/dolthub/go-mysql-server/verifharness/sqlgen"
)

// ---------------------------------------------------------------------------------------------
// the model (vertex sets are bit masks)

type cRule struct{ from, to uint64 }

type cEdge struct {
	m        int
	ses, tes uint64
	rules    []cRule
}

func opLeft(m int) uint64  { return (uint64(1) << uint(m)) - 1 }
func opRight(m int) uint64 { return uint64(1) << uint(m) }

func (e *cEdge) addRule(r cRule) {
	switch {
	case r.from&e.tes != 0:
		e.tes |= r.to
	case r.to&^e.tes == 0:
	default:
		e.rules = append(e.rules, r)
	}
}

func narrow(side, ses uint64) uint64 {
	if side&ses != 0 {
		return side & ses
	}
	return side
}

func mkEdge(m int, ses uint64, below []cEdge) cEdge {
	e := cEdge{m: m, ses: ses, tes: ses}
	if e.tes&opLeft(m) == 0 {
		e.tes |= opLeft(m)
	}
	if e.tes&opRight(m) == 0 {
		e.tes |= opRight(m)
	}
	for i := range below {
		if opLeft(m)&^e.tes == 0 {
			break
		}
		eA := &below[i]
		if ses&opLeft(eA.m) != 0 || eA.ses&opRight(m) != 0 {
			e.addRule(cRule{opRight(eA.m), narrow(opLeft(eA.m), eA.ses)})
		}
		if ses&opRight(eA.m) != 0 || eA.ses&opRight(m) != 0 {
			e.addRule(cRule{opLeft(eA.m), narrow(opRight(eA.m), eA.ses)})
		}
	}
	return e
}

// buildEdges: ons[k] = the SESs of the conjuncts of operator k+1 (empty: a cross join).
func buildEdges(ons [][]uint64) []cEdge {
	var edges []cEdge
	for k, conj := range ons {
		below := edges
		var fresh []cEdge
		if len(conj) == 0 {
			fresh = append(fresh, mkEdge(k+1, 0, below))
		}
		for _, s := range conj {
			fresh = append(fresh, mkEdge(k+1, s, below))
		}
		edges = append(append([]cEdge(nil), below...), fresh...)
	}
	return edges
}

type pTree struct {
	leaf bool
	v    int
	l, r *pTree
}

func (t *pTree) verts() uint64 {
	if t.leaf {
		return uint64(1) << uint(t.v)
	}
	return t.l.verts() | t.r.verts()
}

func (e *cEdge) applicable(s1, s2 uint64) bool {
	s := s1 | s2
	for _, r := range e.rules {
		if r.from&s != 0 && r.to&^s != 0 {
			return false
		}
	}
	return e.tes&^s == 0 && e.tes&s1 != 0 && e.tes&s2 != 0
}

func countApplied(app func(s1, s2 uint64) bool, t *pTree) int {
	if t.leaf {
		return 0
	}
	n := countApplied(app, t.l) + countApplied(app, t.r)
	if app(t.l.verts(), t.r.verts()) {
		n++
	}
	return n
}

// parseTree: pre-order operator skeleton + the table position of every leaf.
func parseTree(ops []string, leaves []int) *pTree {
	var toks []string
	nl := 0
	for _, o := range ops {
		if strings.Contains(o, "Join") {
			toks = append(toks, "J")
		} else if o == "Tbl" || o == "Idx" {
			toks = append(toks, "L")
			nl++
		}
	}
	if nl != len(leaves) {
		return nil
	}
	var stack []*pTree
	li := len(leaves)
	for i := len(toks) - 1; i >= 0; i-- {
		if toks[i] == "L" {
			li--
			stack = append(stack, &pTree{leaf: true, v: leaves[li]})
		} else {
			if len(stack) < 2 {
				return nil
			}
			l, r := stack[len(stack)-1], stack[len(stack)-2]
			stack = append(stack[:len(stack)-2], &pTree{l: l, r: r})
		}
	}
	if len(stack) != 1 {
		return nil
	}
	return stack[0]
}

// ---------------------------------------------------------------------------------------------
// from the case

// chainOf: a left-deep chain of inner joins over base tables.
func chainOf(q *sqlgen.Query) (tabs []int, ons []*sqlgen.Expr, ok bool) {
	switch {
	case q.Op == "table":
		return []int{q.N}, nil, true
	case q.Op == "join" && q.Kind == "inner" && q.R.Op == "table":
		ts, os, ok := chainOf(q.L)
		if !ok {
			return nil, nil, false
		}
		return append(ts, q.R.N), append(os, q.P), true
	}
	return nil, nil, false
}

// exprCols: the columns of the current row an expression mentions; ok=false when it has a subquery.
func exprCols(e *sqlgen.Expr, out *[]int) bool {
	switch e.Op {
	case "exists", "insub", "scalar":
		return false
	case "col":
		if e.D == 0 {
			*out = append(*out, e.I)
		}
	}
	if e.Q != nil {
		return false
	}
	for _, a := range e.Args {
		if !exprCols(a, out) {
			return false
		}
	}
	for _, a := range e.List {
		if !exprCols(a, out) {
			return false
		}
	}
	return true
}

func splitConj(e *sqlgen.Expr, out *[]*sqlgen.Expr) {
	if e.Op == "and" {
		splitConj(e.Args[0], out)
		splitConj(e.Args[1], out)
		return
	}
	*out = append(*out, e)
}

// chainSes: the SESs of the conjuncts over >= 2 tables of every ON.
func chainSes(db *sqlgen.Db, tabs []int, ons []*sqlgen.Expr) ([][]uint64, bool) {
	var starts []int
	w := 0
	for _, t := range tabs {
		starts = append(starts, w)
		w += len(db.Tables[t].Tys)
	}
	tableOf := func(c int) int {
		if c >= w {
			return -1
		}
		k := 0
		for k+1 < len(starts) && starts[k+1] <= c {
			k++
		}
		return k
	}
	var out [][]uint64
	for _, on := range ons {
		var cs []*sqlgen.Expr
		splitConj(on, &cs)
		sess := []uint64{}
		for _, c := range cs {
			var cols []int
			if !exprCols(c, &cols) {
				return nil, false
			}
			var s uint64
			for _, col := range cols {
				t := tableOf(col)
				if t < 0 {
					return nil, false
				}
				s |= uint64(1) << uint(t)
			}
			if bits.OnesCount64(s) >= 2 {
				sess = append(sess, s)
			}
		}
		out = append(out, sess)
	}
	return out, true
}

var leafAliasRe = regexp.MustCompile(`TableAlias\((s\d+)\)`)

// planLeaves: the chain position of every leaf of the plan, in pre-order (aliases[k] is the alias of
// the k-th table of the FROM clause); nil when a leaf is not a table of the statement.
func planLeaves(planText string, aliases []string) []int {
	pos := map[string]int{}
	for i, a := range aliases {
		if _, dup := pos[a]; !dup {
			pos[a] = i
		}
	}
	out := []int{}
	for _, m := range leafAliasRe.FindAllStringSubmatch(planText, -1) {
		p, ok := pos[m[1]]
		if !ok {
			return nil
		}
		out = append(out, p)
	}
	return out
}

// chainRegion mirrors Gms.JoinConflict.conjunctLost.
func chainRegion(db *sqlgen.Db, q *sqlgen.Query, ops []string, leaves []int) bool {
	if db == nil {
		return false
	}
	tabs, ons, ok := chainOf(q)
	if !ok {
		return false
	}
	sess, ok := chainSes(db, tabs, ons)
	if !ok {
		return false
	}
	t := parseTree(ops, leaves)
	if t == nil {
		return false
	}
	// the leaves are a permutation of the chain's tables
	if len(leaves) != len(tabs) || t.verts() != opLeft(len(tabs)) {
		return false
	}
	for _, e := range buildEdges(sess) {
		e := e
		if bits.OnesCount64(e.ses) >= 2 && countApplied(e.applicable, t) == 0 {
			return true
		}
	}
	return false
}

// ---------------------------------------------------------------------------------------------
// unit correspondence with the real calcTES / applicable

func maskList(s uint64) string {
	var parts []string
	for i := 0; i < 64; i++ {
		if s&(uint64(1)<<uint(i)) != 0 {
			parts = append(parts, fmt.Sprint(i))
		}
	}
	return "(" + strings.Join(parts, " ") + ")"
}

func randTree(r *hx.Rand, leaves []int) (*pTree, []string, []int) {
	if len(leaves) == 1 {
		return &pTree{leaf: true, v: leaves[0]}, []string{hx.Pick(r, []string{"Tbl", "Idx"})}, []int{leaves[0]}
	}
	k := r.Range(1, len(leaves)-1)
	l, lo, ll := randTree(r, leaves[:k])
	rt, ro, rl := randTree(r, leaves[k:])
	op := hx.Pick(r, []string{"InnerJoin", "HashJoin", "LookupJoin", "MergeJoin", "CrossJoin"})
	return &pTree{l: l, r: rt}, append(append([]string{op}, lo...), ro...), append(ll, rl...)
}

// jcdCases: generated chains (2-6 tables, 0-3 conjuncts per ON, arbitrary SESs — also SESs that do
// not mention the operator's right table) and arbitrary plan trees over their tables. Observation:
// per edge `op/ses/tes/from>to,…/number of plan nodes that get the filter`, from the REAL code.
func jcdCases(out *hx.Out, r *hx.Rand, n int) {
	run := func(ons [][]uint64, t *pTree, ops []string, leaves []int) {
		var obs string
		lost := false
		rules := false
		p := hx.Safe(func() {
			var parts []string
			for i, e := range memo.VerifChainEdges(ons) {
				var rs []string
				for _, ru := range e.Rules {
					rs = append(rs, fmt.Sprintf("%d>%d", ru[0], ru[1]))
					rules = true
				}
				i := i
				c := 0
				if e.Ses != 0 { // (an edge without filter — a cross join — has nothing to apply)
					c = countApplied(func(s1, s2 uint64) bool { return memo.VerifChainApplicable(ons, i, s1, s2) }, t)
				}
				if c == 0 && bits.OnesCount64(e.Ses) >= 2 {
					lost = true
				}
				parts = append(parts, fmt.Sprintf("%d/%d/%d/%s/%d", e.Op, e.Ses, e.Tes, strings.Join(rs, ","), c))
			}
			obs = strings.Join(parts, "|")
		})
		if p != "" {
			obs = "crash:" + p
		}
		var onS []string
		for _, conj := range ons {
			var cs []string
			for _, s := range conj {
				cs = append(cs, maskList(s))
			}
			onS = append(onS, "("+strings.Join(cs, " ")+")")
		}
		var lv []string
		for _, l := range leaves {
			lv = append(lv, fmt.Sprint(l))
		}
		out.Case(fmt.Sprintf("(jcd (ons %s) (plan %s) (leaves %s))", strings.Join(onS, " "), strings.Join(ops, " "), strings.Join(lv, " ")), obs, rules && lost)
		out.Stat("jcd")
		if rules {
			out.Stat("jcd:edge-with-conflict-rule")
		}
		if lost {
			out.Stat("jcd:conjunct-applied-nowhere")
		}
	}
	// the witness first: s1-s2, s2-s3, s3-s4 ∧ s1-s4 under ((s4 (s3 s1)) s2)
	w := [][]uint64{{3}, {6}, {12, 9}}
	lf := func(v int) *pTree { return &pTree{leaf: true, v: v} }
	run(w, &pTree{l: &pTree{l: lf(3), r: &pTree{l: lf(2), r: lf(0)}}, r: lf(1)},
		[]string{"LookupJoin", "InnerJoin", "Tbl", "InnerJoin", "Tbl", "Tbl", "Idx"}, []int{3, 2, 0, 1})
	for k := 0; k < n; k++ {
		nt := r.Range(2, 6)
		var ons [][]uint64
		for m := 1; m < nt; m++ {
			nc := hx.Pick(r, []int{0, 1, 1, 1, 1, 1, 2, 2, 2, 3})
			conj := []uint64{}
			for c := 0; c < nc; c++ {
				var s uint64
				if r.Chance(4, 5) {
					s |= uint64(1) << uint(m)
				}
				for j := r.Range(1, 2); j > 0; j-- {
					s |= uint64(1) << uint(r.Intn(m))
				}
				if r.Chance(1, 12) {
					s = uint64(1) << uint(r.Intn(m+1))
				}
				conj = append(conj, s)
			}
			ons = append(ons, conj)
		}
		leaves := make([]int, nt)
		for i := range leaves {
			leaves[i] = i
		}
		for i := nt - 1; i > 0; i-- {
			j := r.Intn(i + 1)
			leaves[i], leaves[j] = leaves[j], leaves[i]
		}
		t, ops, lv := randTree(r, leaves)
		run(ons, t, ops, lv)
	}
}
