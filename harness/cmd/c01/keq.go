// C01 — stream `keq`: join keys whose equality is NOT byte equality.
//
// The general stream joins on int columns (and a few binary-collation strings): there `=` on the key
// is equality of the stored bytes, and a physical operator that keys a Go map / compares raw values
// behaves like one that asks the column type. This stream makes the two differ:
//
//   - text keys under a case- and accent-insensitive collation (utf8mb4_0900_ai_ci,
//     utf8mb4_general_ci): 'Bob' = 'BOB' = 'bób'; control: the same words under utf8mb4_0900_bin;
//   - numeric keys of different column types on the two sides: INT, BIGINT UNSIGNED, DECIMAL(8,1),
//     DECIMAL(8,3), DOUBLE: 1 = 1.0 = 1.000 = 1e0, -0.0 = 0;
//   - single-column and two-column keys.
//
// Every database has blocks of keys that are equal but spelled differently, NULL keys, and one of
// several index layouts (none, KEY(k), KEY(k,x), PRIMARY KEY(id)+KEY(k), KEY(k,k2)), so that hash,
// merge, lookup and nested-loop plans — and the semi/anti variants of each — exist for the same
// query. Queries: 2-3 table inner / left joins on the key (optionally a residual predicate on int
// columns, `<=>`), [NOT] IN / [NOT] EXISTS subqueries on the key; only int columns are selected.
//
// Reference: the Lean driver NORMALISES the key columns (Gms/Model/PhysKeys.lean: case/accent fold
// of the alphabet used here, tied to the collations' real weights by the regenerated fact
// `ciWeights`; decimal text → thousandths) and evaluates the term with the shared SQL definition;
// `(kinds …)` in the payload names the kind of every column (r raw, c ci text, n numeric key).
package main

import (
	"fmt"
	"regexp"
	"strconv"
	"strings"

	"github.com/dolthub/go-mysql-server/sql"
	"github.com/dolthub/go-mysql-server/verifharness/hx"
	"github.com/dolthub/go-mysql-server/verifharness/hx/eng"
	"github.com/dolthub/go-mysql-server/verifharness/sqlgen"
)

type streams struct {
	a        hx.RunArgs
	out      *hx.Out
	g        *sqlgen.Gen
	openWith func(db *sqlgen.Db, setup []string) (*eng.Eng, *sql.Context, string, string)
	runQuery func(cx *gen, e *eng.Eng, ctx *sql.Context, dbS, setupS string, qc qcase, text string, extra []config)
}

// kkind: a key column type.
type kkind struct {
	name     string
	ddl      string
	lean     string // r raw | c ci text | n numeric (fractions possible) | z integral numeric
	text     bool
	integral bool
	nonneg   bool
	lit      func(milli int64, r *hx.Rand) string // numeric kinds: the literal of value milli/1000
}

func decLit(scale int) func(int64, *hx.Rand) string {
	return func(m int64, r *hx.Rand) string {
		neg := m < 0
		if neg {
			m = -m
		}
		s := fmt.Sprintf("%d.%03d", m/1000, m%1000)[:len(fmt.Sprintf("%d", m/1000))+1+scale]
		if neg {
			s = "-" + s
		}
		return s
	}
}

var textKinds = []kkind{
	{name: "ci9", ddl: "varchar(20) COLLATE utf8mb4_0900_ai_ci", lean: "c", text: true},
	{name: "cig", ddl: "varchar(20) COLLATE utf8mb4_general_ci", lean: "c", text: true},
	{name: "bin", ddl: "varchar(20) COLLATE utf8mb4_0900_bin", lean: "r", text: true},
}

var numKinds = []kkind{
	{name: "int", ddl: "int", lean: "z", integral: true},
	{name: "u64", ddl: "bigint unsigned", lean: "z", integral: true, nonneg: true},
	{name: "d1", ddl: "decimal(8,1)", lean: "n", lit: decLit(1)},
	{name: "d3", ddl: "decimal(8,3)", lean: "n", lit: decLit(3)},
	{name: "dbl", ddl: "double", lean: "n", lit: func(m int64, r *hx.Rand) string {
		if m == 0 && r.Chance(1, 3) {
			return "-0.0"
		}
		return decLit(1)(m, r)
	}},
}

// The alphabet of the text keys: ASCII letters and the Latin-1 letters below (the Lean fold
// `Gms.PhysKeys.foldRune` knows exactly these; the regenerated fact `ciWeights` checks it against the
// collations).
var accents = map[rune][]rune{'a': {'á'}, 'e': {'é'}, 'i': {'í'}, 'o': {'ó', 'ö'}, 'u': {'ú', 'ü'}, 'n': {'ñ'}, 'c': {'ç'}}

var keqAlphabet = func() []rune {
	var out []rune
	for c := 'a'; c <= 'z'; c++ {
		out = append(out, c, c-32)
	}
	for _, c := range []rune("áéíóöúüñç") {
		out = append(out, c, []rune(strings.ToUpper(string(c)))[0])
	}
	return out
}()

var keqBases = []string{"bob", "jose", "ana", "zoe", "nu", "c", "ob", "bo"}

// spell: a random spelling of a base word (case and accents vary per letter).
func spell(r *hx.Rand, base string) string {
	var b strings.Builder
	mode := r.Intn(5) // 0 lower, 1 UPPER, 2 Title, 3/4 per-letter
	for i, c := range base {
		ch := c
		if as := accents[c]; len(as) > 0 && r.Chance(1, 3) {
			ch = hx.Pick(r, as)
		}
		up := mode == 1 || mode == 2 && i == 0 || mode >= 3 && r.Bool()
		if up {
			ch = []rune(strings.ToUpper(string(ch)))[0]
		}
		b.WriteRune(ch)
	}
	return b.String()
}

type keqTable struct {
	kinds []kkind // per column; zero value (name "") = plain int column
	ddl   string
	ins   string
}

type keqInfo struct {
	tabs  []*keqTable
	kindS string // (kinds (r c r) …)
	fam   string // text | num
	// variants: two stored key values (anywhere in the database) are equal as join keys but are not
	// the same stored value ('Bob' / 'BOB', 1 / 1.0) — Gms.PhysRegions.dbHasKeyVariants
	variants bool
	// integralCol: some key column is INT / BIGINT UNSIGNED; fractional: some stored value of a
	// DECIMAL / DOUBLE key column is not an integer
	integralCol, fractional bool
}

var foldMap = map[rune]rune{'á': 'a', 'é': 'e', 'í': 'i', 'ó': 'o', 'ö': 'o', 'ú': 'u', 'ü': 'u', 'ñ': 'n', 'ç': 'c'}

// normKey mirrors Gms.PhysKeys.normValue (used for region predicates only, never for an expected result).
func normKey(kd kkind, v sqlgen.Value) string {
	switch {
	case v.Null:
		return ""
	case kd.lean == "c":
		var b strings.Builder
		for _, c := range strings.ToLower(v.S) {
			if f, ok := foldMap[c]; ok {
				c = f
			}
			b.WriteRune(c)
		}
		return "s" + b.String()
	case (kd.lean == "n" || kd.lean == "z") && !v.IsStr:
		return "n" + strconv.FormatInt(v.I*1000, 10)
	case kd.lean == "n":
		f, _ := strconv.ParseFloat(v.S, 64)
		m := int64(f*1000 + 0.5)
		if f < 0 {
			m = int64(f*1000 - 0.5)
		}
		return "n" + strconv.FormatInt(m, 10)
	}
	return "r" + v.Sexp()
}

func keyVariants(db *sqlgen.Db, info *keqInfo) bool {
	seen := map[string]string{}
	for n, t := range db.Tables {
		for _, row := range t.Rows {
			for j, v := range row {
				kd := info.tabs[n].kinds[j]
				if kd.name == "" || kd.lean == "r" || v.Null {
					continue
				}
				nk, raw := normKey(kd, v), v.Sexp()
				if o, ok := seen[nk]; ok && o != raw {
					return true
				}
				seen[nk] = raw
			}
		}
	}
	return false
}

type keqGen struct {
	r  *hx.Rand
	st *streams
}

// genDb: 2-3 tables t<n>(c0 int id, c1 key, c2 int x [, c3 key2]).
func (k *keqGen) genDb() (*sqlgen.Db, *keqInfo, []string) {
	r := k.r
	info := &keqInfo{}
	db := &sqlgen.Db{}
	var setup []string
	text := r.Chance(3, 5)
	var tk kkind
	if text {
		info.fam = "text"
		tk = textKinds[[]int{0, 0, 0, 1, 1, 2}[r.Intn(6)]]
	} else {
		info.fam = "num"
	}
	nt := r.Range(2, 3)
	twoKeys := r.Chance(1, 4)
	// key families of this database: 3-4 distinct values, each row draws one
	nf := r.Range(2, 4)
	var bases []string
	var millis []int64
	for len(bases) < nf {
		b := hx.Pick(r, keqBases)
		dup := false
		for _, o := range bases {
			dup = dup || o == b
		}
		if !dup {
			bases = append(bases, b)
		}
	}
	for len(millis) < nf {
		m := int64(r.Range(-3, 6)) * 500
		dup := false
		for _, o := range millis {
			dup = dup || o == m
		}
		if !dup {
			millis = append(millis, m)
		}
	}
	kindNames := map[string]bool{}
	for n := 0; n < nt; n++ {
		kd := tk
		if !text {
			kd = hx.Pick(r, numKinds)
		}
		kindNames[kd.name] = true
		t := &keqTable{kinds: []kkind{{}, kd, {}}}
		st := &sqlgen.Table{Tys: []sqlgen.Ty{sqlgen.TInt, sqlgen.TInt, sqlgen.TInt}, NotNull: []bool{true, false, false}}
		if kd.text || kd.lit != nil {
			st.Tys[1] = sqlgen.TStr
		}
		nc := 3
		if twoKeys {
			nc = 4
			kd2 := kd
			if !text {
				kd2 = hx.Pick(r, numKinds)
			}
			t.kinds = append(t.kinds, kd2)
			st.Tys = append(st.Tys, sqlgen.TInt)
			st.NotNull = append(st.NotNull, false)
			if kd2.text || kd2.lit != nil {
				st.Tys[3] = sqlgen.TStr
			}
		}
		keyVal := func(kd kkind) (sqlgen.Value, string) {
			if r.Chance(1, 7) {
				return sqlgen.Null(), "NULL"
			}
			if kd.text {
				s := spell(r, hx.Pick(r, bases))
				return sqlgen.Str(s), "'" + s + "'"
			}
			m := hx.Pick(r, millis)
			if kd.integral {
				m = m / 1000 * 1000
			}
			if kd.nonneg && m < 0 {
				m = -m
			}
			if kd.integral {
				return sqlgen.Int(m / 1000), fmt.Sprint(m / 1000)
			}
			l := kd.lit(m, r)
			return sqlgen.Str(l), l
		}
		nr := r.Range(2, 8)
		var rows []string
		for i := 0; i < nr; i++ {
			row := make([]sqlgen.Value, nc)
			lits := make([]string, nc)
			row[0], lits[0] = sqlgen.Int(int64(i+1)), fmt.Sprint(i+1)
			row[1], lits[1] = keyVal(t.kinds[1])
			if r.Chance(1, 8) {
				row[2], lits[2] = sqlgen.Null(), "NULL"
			} else {
				v := int64(r.Range(0, 3))
				row[2], lits[2] = sqlgen.Int(v), fmt.Sprint(v)
			}
			if nc == 4 {
				row[3], lits[3] = keyVal(t.kinds[3])
			}
			st.Rows = append(st.Rows, row)
			rows = append(rows, "("+strings.Join(lits, ", ")+")")
		}
		cols := []string{"c0 int NOT NULL", "c1 " + kd.ddl, "c2 int"}
		if nc == 4 {
			cols = append(cols, "c3 "+t.kinds[3].ddl)
		}
		extra := ""
		layouts := []string{"", ", KEY k1 (c1)", ", KEY k1 (c1)", ", KEY k12 (c1, c2)", ", PRIMARY KEY (c0), KEY k1 (c1)"}
		if nc == 4 {
			layouts = append(layouts, ", KEY k13 (c1, c3)", ", KEY k13 (c1, c3)", ", KEY k1 (c1), KEY k3 (c3)")
		}
		extra = hx.Pick(r, layouts)
		k.st.out.Stat("keq:layout:" + strings.TrimPrefix(strings.TrimPrefix(extra, ", "), "PRIMARY KEY (c0), "))
		t.ddl = fmt.Sprintf("CREATE TABLE t%d (%s%s)", n, strings.Join(cols, ", "), extra)
		t.ins = fmt.Sprintf("INSERT INTO t%d VALUES %s", n, strings.Join(rows, ", "))
		setup = append(setup, t.ddl, t.ins)
		info.tabs = append(info.tabs, t)
		db.Tables = append(db.Tables, st)
		k.st.out.Stat("keq:kind:" + kd.name)
	}
	info.finish(db)
	var ks []string
	for _, t := range info.tabs {
		var cs []string
		for _, kd := range t.kinds {
			if kd.name == "" {
				cs = append(cs, "r")
			} else {
				cs = append(cs, kd.lean)
			}
		}
		ks = append(ks, "("+strings.Join(cs, " ")+")")
	}
	info.kindS = "(kinds " + strings.Join(ks, " ") + ")"
	return db, info, setup
}

// query: a join / subquery on the key columns; selects int columns only.
func (k *keqGen) query(db *sqlgen.Db, info *keqInfo) qcase {
	r := k.r
	nt := len(db.Tables)
	w := func(t int) int { return len(db.Tables[t].Tys) }
	two := w(0) == 4
	c := func(i int) *sqlgen.Expr { return sqlgen.Col(0, i) }
	eqOp := "eq"
	if r.Chance(1, 8) {
		eqOp = "nseq"
	}
	// residual on the int columns of the two rows (offsets lo, ro)
	residual := func(lo, ro int) *sqlgen.Expr {
		switch r.Intn(4) {
		case 0:
			return sqlgen.Cmp(hx.Pick(r, []string{"ne", "lt", "le", "gt"}), c(lo+2), c(ro+2))
		case 1:
			return sqlgen.Cmp(hx.Pick(r, []string{"ne", "lt", "ge"}), c(lo+0), c(ro+0))
		case 2:
			return sqlgen.Cmp(hx.Pick(r, []string{"ne", "le"}), c(lo+2), c(ro+0))
		default:
			return sqlgen.Bin("or", sqlgen.Un("isnull", c(ro+2)), sqlgen.Cmp("le", c(lo+2), c(ro+2)))
		}
	}
	keyOn := func(lo, ro int) *sqlgen.Expr {
		on := sqlgen.Cmp(eqOp, c(lo+1), c(ro+1))
		if r.Bool() {
			on.Args[0], on.Args[1] = on.Args[1], on.Args[0]
		}
		if two && r.Chance(2, 3) {
			on = sqlgen.Bin("and", on, sqlgen.Cmp("eq", c(lo+3), c(ro+3)))
			k.st.out.Stat("keq:two-column-key")
		}
		if r.Chance(1, 3) {
			on = sqlgen.Bin("and", on, residual(lo, ro))
			k.st.out.Stat("keq:residual")
		}
		return on
	}
	switch sh := r.Intn(10); {
	case sh < 5: // two-table join
		t0, t1 := r.Intn(nt), r.Intn(nt)
		kind := hx.Pick(r, []string{"inner", "inner", "left"})
		j := sqlgen.Join(kind, keyOn(0, w(t0)), sqlgen.TableQ(t0), sqlgen.TableQ(t1))
		outs := []*sqlgen.Expr{c(0), c(w(t0))}
		tys := []sqlgen.Ty{sqlgen.TInt, sqlgen.TInt}
		if r.Bool() {
			outs = append(outs, c(2), c(w(t0)+2))
			tys = append(tys, sqlgen.TInt, sqlgen.TInt)
		}
		var q *sqlgen.Query = sqlgen.Project(outs, j)
		if r.Chance(1, 6) {
			q = sqlgen.Group(nil, []string{"countstar"}, []*sqlgen.Expr{sqlgen.Lit(sqlgen.Int(1))}, j)
			tys = []sqlgen.Ty{sqlgen.TInt}
		}
		k.st.out.Stat("keq:q:join2-" + kind)
		return qcase{q: q, tys: tys, kind: "keq", keq: info}
	case sh < 7: // three-table chain, one join kind
		t0, t1, t2 := r.Intn(nt), r.Intn(nt), r.Intn(nt)
		kind := hx.Pick(r, []string{"inner", "inner", "left"})
		j1 := sqlgen.Join(kind, keyOn(0, w(t0)), sqlgen.TableQ(t0), sqlgen.TableQ(t1))
		lo := 0
		if r.Bool() {
			lo = w(t0)
		}
		on2 := sqlgen.Cmp("eq", c(lo+1), c(w(t0)+w(t1)+1))
		j2 := sqlgen.Join(kind, on2, j1, sqlgen.TableQ(t2))
		q := sqlgen.Project([]*sqlgen.Expr{c(0), c(w(t0)), c(w(t0) + w(t1))}, j2)
		k.st.out.Stat("keq:q:join3-" + kind)
		return qcase{q: q, tys: []sqlgen.Ty{sqlgen.TInt, sqlgen.TInt, sqlgen.TInt}, kind: "keq", keq: info}
	default: // [NOT] IN / [NOT] EXISTS on the key
		t0, t1 := r.Intn(nt), r.Intn(nt)
		var p *sqlgen.Expr
		var sub *sqlgen.Query = sqlgen.TableQ(t1)
		neg := r.Chance(2, 5)
		// IN (subquery) between an integral and a fraction-capable numeric type: plan.InSubquery converts
		// the probe to the subquery's type (0.5 IN (SELECT <bigint>) finds 1) under EVERY plan — a defect,
		// but not a plan dependence (C02/C07 territory): such pairs get EXISTS only.
		sameClass := info.tabs[t0].kinds[1].lean == info.tabs[t1].kinds[1].lean
		if sameClass && r.Bool() {
			if r.Chance(1, 3) {
				sub = sqlgen.Filter(sqlgen.Cmp(hx.Pick(r, []string{"lt", "ge", "ne"}), c(2), sqlgen.Lit(sqlgen.Int(int64(r.Range(0, 3))))), sub)
			}
			p = sqlgen.InSub(c(1), sqlgen.Project([]*sqlgen.Expr{c(1)}, sub))
			k.st.out.Stat("keq:q:in")
		} else {
			cond := sqlgen.Cmp("eq", c(1), sqlgen.Col(1, 1))
			if r.Chance(1, 3) {
				cond = sqlgen.Bin("and", cond, sqlgen.Cmp(hx.Pick(r, []string{"ne", "lt"}), c(2), sqlgen.Col(1, 2)))
			}
			p = sqlgen.Exists(sqlgen.Filter(cond, sub))
			k.st.out.Stat("keq:q:exists")
		}
		if neg {
			p = sqlgen.Not(p)
			p.Alt = true
			k.st.out.Stat("keq:q:negated")
		}
		q := sqlgen.Project([]*sqlgen.Expr{c(0), c(2)}, sqlgen.Filter(p, sqlgen.TableQ(t0)))
		return qcase{q: q, tys: []sqlgen.Ty{sqlgen.TInt, sqlgen.TInt}, kind: "keq", keq: info}
	}
}

// mkKeqTable builds one table of a corpus database from literal rows ("NULL", "'bob'", "1.5", "3").
func mkKeqTable(n int, kds []kkind, extra string, rows [][]string) (*sqlgen.Table, *keqTable) {
	st := &sqlgen.Table{}
	var cols []string
	for j, kd := range kds {
		ty, ddl := sqlgen.TInt, "int"
		if kd.name != "" {
			ddl = kd.ddl
			if kd.text || kd.lit != nil {
				ty = sqlgen.TStr
			}
		}
		st.Tys = append(st.Tys, ty)
		st.NotNull = append(st.NotNull, false)
		cols = append(cols, fmt.Sprintf("c%d %s", j, ddl))
	}
	var ins []string
	for _, row := range rows {
		vals := make([]sqlgen.Value, len(row))
		for j, l := range row {
			switch {
			case l == "NULL":
				vals[j] = sqlgen.Null()
			case strings.HasPrefix(l, "'"):
				vals[j] = sqlgen.Str(strings.Trim(l, "'"))
			case st.Tys[j] == sqlgen.TStr:
				vals[j] = sqlgen.Str(l)
			default:
				i, _ := strconv.ParseInt(l, 10, 64)
				vals[j] = sqlgen.Int(i)
			}
		}
		st.Rows = append(st.Rows, vals)
		ins = append(ins, "("+strings.Join(row, ", ")+")")
	}
	t := &keqTable{kinds: kds}
	t.ddl = fmt.Sprintf("CREATE TABLE t%d (%s%s)", n, strings.Join(cols, ", "), extra)
	t.ins = fmt.Sprintf("INSERT INTO t%d VALUES %s", n, strings.Join(ins, ", "))
	return st, t
}

type keqWitness struct {
	db    *sqlgen.Db
	info  *keqInfo
	setup []string
	qs    []qcase
}

func mkKeqDb(fam string, tabs ...func(n int) (*sqlgen.Table, *keqTable)) keqWitness {
	w := keqWitness{db: &sqlgen.Db{}, info: &keqInfo{fam: fam}}
	var ks []string
	for n, f := range tabs {
		st, t := f(n)
		w.db.Tables = append(w.db.Tables, st)
		w.info.tabs = append(w.info.tabs, t)
		w.setup = append(w.setup, t.ddl, t.ins)
		var cs []string
		for _, kd := range t.kinds {
			if kd.name == "" {
				cs = append(cs, "r")
			} else {
				cs = append(cs, kd.lean)
			}
		}
		ks = append(ks, "("+strings.Join(cs, " ")+")")
	}
	w.info.kindS = "(kinds " + strings.Join(ks, " ") + ")"
	w.info.finish(w.db)
	return w
}

// finish computes the value-class flags the region predicates are decided on.
func (info *keqInfo) finish(db *sqlgen.Db) {
	info.variants = keyVariants(db, info)
	for n, t := range db.Tables {
		for j, kd := range info.tabs[n].kinds {
			if kd.lean == "z" {
				info.integralCol = true
			}
			if kd.lean == "n" {
				for _, row := range t.Rows {
					if !row[j].Null && !strings.HasSuffix(normKey(kd, row[j]), "000") && normKey(kd, row[j]) != "n0" {
						info.fractional = true
					}
				}
			}
		}
	}
}

// keqCorpus: (1) the witness of the stream's reason to exist — case/accent variants of one word on
// both sides of an indexed key, so that hash, merge, lookup and nested-loop plans exist; (2)-(4) the
// witnesses of the stream's three known findings (known_findings/C01.jsonl).
func keqCorpus() []keqWitness {
	ci, plain := textKinds[0], kkind{}
	tab := func(kds []kkind, extra string, rows ...[]string) func(int) (*sqlgen.Table, *keqTable) {
		return func(n int) (*sqlgen.Table, *keqTable) { return mkKeqTable(n, kds, extra, rows) }
	}
	r := func(vs ...string) []string { return vs }
	c := func(i int) *sqlgen.Expr { return sqlgen.Col(0, i) }
	ii := []sqlgen.Ty{sqlgen.TInt, sqlgen.TInt}
	ick := []kkind{plain, ci, plain}
	// (1)
	w1 := mkKeqDb("text",
		tab(ick, ", KEY k1 (c1)", r("1", "'Bob'", "0"), r("2", "'BOB'", "1"), r("3", "'José'", "2"), r("4", "NULL", "0"), r("5", "'alice'", "1"), r("6", "'zed'", "2")),
		tab(ick, ", KEY k1 (c1)", r("1", "'bob'", "0"), r("2", "'jose'", "1"), r("3", "'JOSE'", "2"), r("4", "NULL", "0"), r("5", "'ALICE'", "1"), r("6", "'bób'", "2")))
	for _, kind := range []string{"inner", "left"} {
		q := sqlgen.Project([]*sqlgen.Expr{c(0), c(3)}, sqlgen.Join(kind, sqlgen.Cmp("eq", c(1), c(4)), sqlgen.TableQ(0), sqlgen.TableQ(1)))
		w1.qs = append(w1.qs, qcase{q: q, tys: ii, kind: "keq", keq: w1.info})
	}
	// (2) hash_join_tuple_key_not_by_equality
	w2 := mkKeqDb("text",
		tab([]kkind{plain, ci, ci}, "", r("1", "'bob'", "'x'"), r("2", "'BOB'", "'x'"), r("3", "'bob'", "'X'"), r("4", "'Bob'", "'X'"), r("5", "'bób'", "'x'")),
		tab([]kkind{plain, ci, ci}, "", r("1", "'bob'", "'x'")))
	w2.qs = []qcase{{q: sqlgen.Project([]*sqlgen.Expr{c(0), c(3)}, sqlgen.Join("inner", sqlgen.Bin("and", sqlgen.Cmp("eq", c(1), c(4)), sqlgen.Cmp("eq", c(2), c(5))), sqlgen.TableQ(0), sqlgen.TableQ(1))),
		tys: ii, kind: "keq", keq: w2.info}}
	// (3) semi_join_distinct_not_by_key_equality
	w3 := mkKeqDb("text",
		tab([]kkind{plain, ci}, "", r("1", "'bób'"), r("2", "'zed'")),
		tab([]kkind{plain, ci}, "", r("1", "'bob'"), r("2", "'BOB'"), r("3", "'bob'")))
	w3.qs = []qcase{{q: sqlgen.Project([]*sqlgen.Expr{c(0)}, sqlgen.Filter(sqlgen.InSub(c(1), sqlgen.Project([]*sqlgen.Expr{c(1)}, sqlgen.TableQ(1))), sqlgen.TableQ(0))),
		tys: []sqlgen.Ty{sqlgen.TInt}, kind: "keq", keq: w3.info}}
	// (4) lookup_join_probe_key_rounded
	w4 := mkKeqDb("num",
		tab([]kkind{plain, numKinds[4]}, ", PRIMARY KEY (c0), KEY k1 (c1)", r("1", "3.0"), r("3", "2.5")),
		tab([]kkind{plain, numKinds[1]}, ", KEY k1 (c1)", r("1", "2"), r("2", "3")))
	w4.qs = []qcase{{q: sqlgen.Project([]*sqlgen.Expr{c(0), c(2)}, sqlgen.Join("inner", sqlgen.Cmp("eq", c(1), c(3)), sqlgen.TableQ(0), sqlgen.TableQ(1))), tys: ii, kind: "keq", keq: w4.info}}
	return []keqWitness{w1, w2, w3, w4}
}

func (s *streams) keqStream() {
	r := hx.NewRand(s.a.Seed*1000003 + 0xc01).Fork()
	kg := &keqGen{r: r.Fork(), st: s}
	cx := &gen{r: r.Fork(), g: s.g}
	nDb, perDb := 14, 5
	if s.a.Thorough {
		nDb, perDb = 250, 6
	}
	runDb := func(db *sqlgen.Db, info *keqInfo, setup []string, qs []qcase) {
		e, ctx, dbS, setupS := s.openWith(db, setup)
		for _, qc := range qs {
			text := unaliasIn((&sqlgen.Printer{Db: db}).SQL(qc.q))
			s.runQuery(cx, e, ctx, info.kindS+" "+dbS, setupS, qc, text, nil)
		}
		s.out.Stat("db:keq")
		s.out.Stat("keq:family:" + info.fam)
	}
	for _, w := range keqCorpus() {
		runDb(w.db, w.info, w.setup, w.qs)
		s.out.Stat("corpus")
	}
	for i := 0; i < nDb; i++ {
		db, info, setup := kg.genDb()
		var qs []qcase
		for j := 0; j < perDb; j++ {
			qs = append(qs, kg.query(db, info))
		}
		runDb(db, info, setup, qs)
	}
}

// planOpsKeq: the operator skeleton plus the `Distinct` nodes (the memo turns a semi join into an
// inner join over a DISTINCT right side; a region of this stream is decided on it).
// unaliasIn: the shared printer gives every select item an alias; `x IN (SELECT s2.c1 AS c0 FROM …)` is
// left as a per-row InSubquery filter by the analyzer, `x IN (SELECT s2.c1 FROM …)` becomes a semi /
// anti join with a choice of physical operators — which is what this property is about.
var inAliasRe = regexp.MustCompile(`IN \(SELECT (s\d+\.c\d+) AS c0 FROM`)

func unaliasIn(text string) string { return inAliasRe.ReplaceAllString(text, "IN (SELECT $1 FROM") }

var tupleKeyRe = regexp.MustCompile(`(?m)left-key: \([^)\n]*,`)

func planOpsKeq(text string) []string {
	var ops []string
	if tupleKeyRe.MatchString(text) {
		// a HashLookup keyed by a row constructor (two or more key columns)
		ops = append(ops, "TupleKey")
	}
	for _, m := range joinOpRe.FindAllStringSubmatch(text, -1) {
		op := m[1]
		switch {
		case strings.HasPrefix(op, "cmp: (("):
			ops = append(ops, "TupleCmp")
		case strings.Contains(op, "Join"):
			ops = append(ops, op)
		case strings.HasPrefix(op, "IndexedTableAccess"):
			ops = append(ops, "Idx")
		case op == "Table":
			ops = append(ops, "Tbl")
		case op == "Distinct":
			ops = append(ops, "Distinct")
		}
	}
	return ops
}

// keqRegion mirrors Gms.PhysRegions.keqRegion.
func keqRegion(qc qcase, ops []string) string {
	if hasOp(ops, "TupleKey") && qc.keq.variants {
		return "hash_join_tuple_key_not_by_equality"
	}
	if hasExactOp(ops, "Distinct") && qc.keq.variants {
		return "semi_join_distinct_not_by_key_equality"
	}
	if qc.keq.integralCol && qc.keq.fractional && hasLookupOp(ops) {
		return "lookup_join_probe_key_rounded"
	}
	return "-"
}
