// C01 — stream `mres`: residual (non-equality) ON predicates over BLOCKS of equal join keys.
//
// An outer join's iterator has to remember, per left row, whether some right row of the current key
// block has already satisfied the whole condition (mergeJoinIter.leftMatched / joinIter.foundMatch):
// the NULL-extended row is due iff none did — whatever the order of passing and failing rows inside
// the block and whatever happened for the previous left row. The general `phys` stream reaches the
// interesting inputs (LEFT JOIN + residual + duplicate right keys + pass-then-fail order) only in its
// thorough tier; this stream builds them on purpose:
//
//   - l(c0 id, c1 key, c2 x) and r(c0 id, c1 key, c2 y), key domain {0,1,2,NULL}, 5-9 rows, so every
//     key has a block of 2-4 right rows and most keys also several left rows;
//   - both key columns indexed (KEY(c1), KEY(c1,c2) — the composite index fixes the order inside a
//     block — or PRIMARY KEY(c0)+KEY(c1)), so that merge, lookup, hash and nested-loop plans exist;
//   - LEFT (2/3) or INNER JOIN ON l.c1 = r.c1 AND <residual over c2 / c0 of both sides>; the residual
//     is chosen so that a block has passing and failing rows in both orders.
//
// The query is a bare two-table join, so for a [LeftOuter]MergeJoin(Idx, Idx) plan the Lean driver
// also runs the merge-join Impl model (Gms.Phys.mergeJoin; = the join of the SQL definition by
// phys_merge_inner / phys_merge_left).
package main

import (
	"fmt"

	"github.com/dolthub/go-mysql-server/verifharness/hx"
	"github.com/dolthub/go-mysql-server/verifharness/sqlgen"
)

func (s *streams) mresStream() {
	r := hx.NewRand(s.a.Seed*1000003 + 0xc02).Fork()
	cx := &gen{r: r.Fork(), g: s.g}
	nDb, perDb := 8, 4
	if s.a.Thorough {
		nDb, perDb = 120, 5
	}
	c := func(i int) *sqlgen.Expr { return sqlgen.Col(0, i) }
	iii := []sqlgen.Ty{sqlgen.TInt, sqlgen.TInt, sqlgen.TInt}
	for i := 0; i < nDb; i++ {
		db := &sqlgen.Db{}
		for n := 0; n < 2; n++ {
			t := &sqlgen.Table{Tys: iii, NotNull: []bool{true, false, false}}
			nr := r.Range(4, 9)
			for k := 0; k < nr; k++ {
				row := []sqlgen.Value{sqlgen.Int(int64(k + 1)), sqlgen.Int(int64(r.Range(0, 2))), sqlgen.Int(int64(r.Range(0, 3)))}
				if r.Chance(1, 9) {
					row[1] = sqlgen.Null()
				}
				if r.Chance(1, 9) {
					row[2] = sqlgen.Null()
				}
				t.Rows = append(t.Rows, row)
			}
			t.Extra = hx.Pick(r, []string{", KEY k1 (c1)", ", KEY k12 (c1, c2)", ", KEY k12 (c1, c2)", ", PRIMARY KEY (c0), KEY k1 (c1)"})
			db.Tables = append(db.Tables, t)
		}
		e, ctx, dbS, setupS := s.openWith(db, db.Setup())
		for k := 0; k < perDb; k++ {
			kind := hx.Pick(r, []string{"left", "left", "inner"})
			lt, rt := r.Intn(2), r.Intn(2)
			on := sqlgen.Cmp("eq", c(1), c(4))
			if r.Bool() {
				on.Args[0], on.Args[1] = on.Args[1], on.Args[0]
			}
			var res *sqlgen.Expr
			switch r.Intn(5) {
			case 0:
				res = sqlgen.Cmp(hx.Pick(r, []string{"gt", "lt", "ne", "le"}), c(2), c(5))
			case 1:
				res = sqlgen.Cmp(hx.Pick(r, []string{"ne", "lt", "ge"}), c(0), c(3))
			case 2:
				res = sqlgen.Cmp(hx.Pick(r, []string{"ne", "gt", "eq"}), c(5), sqlgen.Lit(sqlgen.Int(int64(r.Range(0, 3)))))
			case 3:
				res = sqlgen.Cmp(hx.Pick(r, []string{"lt", "ne"}), c(2), c(3))
			default:
				res = sqlgen.Bin("or", sqlgen.Un("isnull", c(5)), sqlgen.Cmp("lt", c(2), c(5)))
			}
			on = sqlgen.Bin("and", on, res)
			if r.Chance(1, 5) {
				on = sqlgen.Bin("and", on, sqlgen.Cmp("ne", c(0), c(5)))
			}
			q := sqlgen.Join(kind, on, sqlgen.TableQ(lt), sqlgen.TableQ(rt))
			qc := qcase{q: q, tys: append(append([]sqlgen.Ty{}, iii...), iii...), kind: "mres"}
			s.out.Stat("mres:" + kind)
			s.runQuery(cx, e, ctx, dbS, setupS, qc, (&sqlgen.Printer{Db: db}).SQL(q), nil)
		}
		s.out.Stat("db:mres")
		s.out.Stat(fmt.Sprintf("mres:layout:%s|%s", db.Tables[0].Extra[2:], db.Tables[1].Extra[2:]))
	}
}
