// C01 — regenerated facts of the keq stream (appended to Gms/Generated/C01.lean by extract):
//
//	ciWeights     for every case-insensitive collation the stream uses: the weight the collation's real
//	              Sorter gives to every rune of the stream's alphabet (Gms.C01.fold_eq_iff_weight_eq ties
//	              the Lean case/accent fold to them);
//	hashKeyFacts  plan.HashLookup.GetHashKey RUN on typed values read back from the engine, for every
//	              ordered pair of key column types the stream joins: (left type, right type, value pairs,
//	              pairs that are `=` by expression.Equals, `=` pairs whose probe key and entry key are the
//	              same map key); hashKeyBreaks lists the `=` pairs with different keys — the hypothesis of
//	              Gms.C01.phys_hash_eq ("TRUE pairs agree on the key") on the real key function.
package main

import (
	"fmt"
	"strings"

	"github.com/dolthub/go-mysql-server/sql"
	"github.com/dolthub/go-mysql-server/sql/expression"
	"github.com/dolthub/go-mysql-server/sql/plan"
	"github.com/dolthub/go-mysql-server/verifharness/hx"
	"github.com/dolthub/go-mysql-server/verifharness/hx/eng"
)

func keqFacts(lf *hx.LeanFile) error {
	// (a) collation weights of the alphabet
	colls := []struct {
		name string
		id   sql.CollationID
	}{{"utf8mb4_0900_ai_ci", sql.Collation_utf8mb4_0900_ai_ci}, {"utf8mb4_general_ci", sql.Collation_utf8mb4_general_ci}}
	var cw []string
	for _, c := range colls {
		sorter := c.id.Sorter()
		if sorter == nil {
			return fmt.Errorf("collation %s has no sorter", c.name)
		}
		var ws []string
		for _, r := range keqAlphabet {
			ws = append(ws, fmt.Sprintf("(%d, %s)", r, hx.LeanInt(int64(sorter(r)))))
		}
		cw = append(cw, fmt.Sprintf("(%s, [%s])", hx.LeanString(c.name), strings.Join(ws, ", ")))
	}
	lf.Comment("keq stream: (collation, [(rune of the alphabet, weight given by the collation's Sorter)])")
	lf.Raw(fmt.Sprintf("def ciWeights : List (String × List (Nat × Int)) := [\n  %s]\n", strings.Join(cw, ",\n  ")))

	// (b) GetHashKey against Equals on typed values
	e := eng.New("d")
	ctx := e.Ctx()
	type col struct {
		name string
		typ  sql.Type
		vals []interface{}
		lits []string
	}
	var cols []col
	words := []string{"bob", "Bob", "BOB", "bób", "BÖB", "jose", "José", "JOSE", "zed", "ZED", "ob"}
	nums := []string{"0", "1", "1.5", "2", "-1.5", "-1", "3"}
	mk := func(name, ddl string, lits []string) error {
		var rows []string
		for i, l := range lits {
			rows = append(rows, fmt.Sprintf("(%d, %s)", i, l))
		}
		e.MustExec(ctx, fmt.Sprintf("CREATE TABLE f_%s (i int, k %s)", name, ddl), fmt.Sprintf("INSERT INTO f_%s VALUES %s", name, strings.Join(rows, ", ")))
		r := e.Query(ctx, fmt.Sprintf("SELECT k FROM f_%s ORDER BY i", name))
		if r.Class() != "ok" || len(r.Raw) != len(lits) {
			return fmt.Errorf("fact table f_%s: %s", name, r.Class())
		}
		c := col{name: name, typ: r.Schema[0].Type, lits: lits}
		for _, row := range r.Raw {
			c.vals = append(c.vals, row[0])
		}
		cols = append(cols, c)
		return nil
	}
	for _, k := range textKinds {
		var lits []string
		for _, w := range words {
			lits = append(lits, "'"+w+"'")
		}
		if err := mk(k.name, k.ddl, lits); err != nil {
			return err
		}
	}
	for _, k := range numKinds {
		var lits []string
		for _, n := range nums {
			if k.integral && strings.Contains(n, ".") || k.nonneg && strings.HasPrefix(n, "-") {
				continue
			}
			lits = append(lits, n)
		}
		if k.name == "dbl" {
			lits = append(lits, "-0.0")
		}
		if k.name == "d3" {
			lits = append(lits, "1.500", "2.000")
		}
		if err := mk(k.name, k.ddl, lits); err != nil {
			return err
		}
	}
	var facts, breaks []string
	for li, l := range cols {
		for ri, r := range cols {
			lt, rt := li < len(textKinds), ri < len(textKinds)
			if lt != rt || lt && li != ri {
				continue // text joins text of the same collation, numbers join numbers
			}
			probe := expression.NewGetField(0, l.typ, "l", true)
			entry := expression.NewGetField(0, r.typ, "r", true)
			var hl *plan.HashLookup
			if p := hx.Safe(func() { hl = plan.NewHashLookup(ctx, nil, entry, probe, plan.JoinTypeHash) }); p != "" {
				return fmt.Errorf("NewHashLookup(%s, %s): panic %s", l.name, r.name, p)
			}
			eq := expression.NewEquals(expression.NewGetField(0, l.typ, "l", true), expression.NewGetField(1, r.typ, "r", true))
			n, nEq, nSame := 0, 0, 0
			for i, lv := range l.vals {
				for j, rv := range r.vals {
					n++
					res, err := eq.Eval(ctx, sql.Row{lv, rv})
					if err != nil {
						return fmt.Errorf("Equals(%s %s, %s %s): %v", l.name, l.lits[i], r.name, r.lits[j], err)
					}
					isEq, _ := sql.ConvertToBool(ctx, res)
					if res == nil || !isEq {
						continue
					}
					nEq++
					kl, _, err1 := hl.GetHashKey(ctx, hl.LeftProbeKey, sql.Row{lv})
					kr, _, err2 := hl.GetHashKey(ctx, hl.RightEntryKey, sql.Row{rv})
					if err1 == nil && err2 == nil && kl == kr {
						nSame++
					} else {
						breaks = append(breaks, hx.LeanString(fmt.Sprintf("%s %s = %s %s", l.name, l.lits[i], r.name, r.lits[j])))
					}
				}
			}
			facts = append(facts, fmt.Sprintf("(%s, %s, %d, %d, %d)", hx.LeanString(l.name), hx.LeanString(r.name), n, nEq, nSame))
		}
	}
	lf.Comment("keq stream: HashLookup.GetHashKey on typed values: (probe column type, entry column type, value pairs, pairs that are `=`, `=` pairs with the same hash key)")
	lf.Raw(fmt.Sprintf("def hashKeyFacts : List (String × String × Nat × Nat × Nat) := [\n  %s]\n", strings.Join(facts, ",\n  ")))
	lf.Comment("`=` pairs whose probe key and entry key differ (rows a hash join would lose)")
	lf.Raw(fmt.Sprintf("def hashKeyBreaks : List String := [%s]\n", strings.Join(breaks, ", ")))
	return nil
}
