package main

import (
	"bufio"
	"fmt"
	"os"
	"strings"

	"github.com/dolthub/go-mysql-server/verifharness/hx/eng"
)

// c15probe: reads SQL statements from stdin (one per line), runs them on one session, prints results.
func main() {
	e := eng.New("d")
	ctx := e.Ctx()
	sc := bufio.NewScanner(os.Stdin)
	sc.Buffer(make([]byte, 1<<20), 1<<20)
	for sc.Scan() {
		q := strings.TrimSpace(sc.Text())
		if q == "" || strings.HasPrefix(q, "--") {
			continue
		}
		r := e.Query(eng.SameSession(ctx), q)
		fmt.Printf("> %s\n  %s", q, r.Class())
		if r.Err != nil {
			fmt.Printf(" %v", r.Err)
		}
		if r.Panic != "" {
			fmt.Printf(" PANIC %s", r.Panic)
		}
		if r.IsOk {
			fmt.Printf(" affected=%d", r.Affected)
		}
		fmt.Println()
		for _, row := range r.Rows {
			fmt.Printf("    %s\n", strings.Join(row, " | "))
		}
	}
}
