package main

import (
	"context"
	"fmt"
	"os"
	"strconv"

	"github.com/dolthub/go-mysql-server/sql"
	"github.com/dolthub/go-mysql-server/sql/types"
	"github.com/dolthub/go-mysql-server/verifharness/hx"
)

var typ = types.Int64

func cut(kind int, k int64) sql.MySQLRangeCut {
	switch kind {
	case 0:
		return sql.BelowNull{}
	case 1:
		return sql.AboveNull{}
	case 2:
		return sql.Below{Key: k, Typ: typ}
	case 3:
		return sql.Above{Key: k, Typ: typ}
	}
	return sql.AboveAll{}
}

func allCuts(n int64) []sql.MySQLRangeCut {
	cs := []sql.MySQLRangeCut{sql.BelowNull{}, sql.AboveNull{}}
	for k := int64(0); k < n; k++ {
		cs = append(cs, sql.Below{Key: k, Typ: typ}, sql.Above{Key: k, Typ: typ})
	}
	return append(cs, sql.AboveAll{})
}

func member(ctx context.Context, r sql.MySQLRange, pt []int64) bool { // -1 = NULL
	for i, c := range r {
		var v sql.MySQLRangeCut
		// point v is in (lo,hi) iff lo < "at v" <= ... use cut comparisons: lo <= Below{v} and Above{v} <= hi
		if pt[i] < 0 {
			// NULL: lo must be BelowNull, hi must not be BelowNull
			_, lo := c.LowerBound.(sql.BelowNull)
			_, hi := c.UpperBound.(sql.BelowNull)
			if !lo || hi {
				return false
			}
			continue
		}
		v = sql.Below{Key: pt[i], Typ: typ}
		a, _ := c.LowerBound.Compare(ctx, v, typ)
		w := sql.Above{Key: pt[i], Typ: typ}
		b, _ := w.Compare(ctx, c.UpperBound, typ)
		if a > 0 || b > 0 {
			return false
		}
	}
	return true
}

func main() {
	ctx := sql.NewEmptyContext()
	r1 := sql.MySQLRange{sql.ClosedRangeColumnExpr(int64(1), int64(5), typ)}
	r2 := sql.MySQLRange{sql.ClosedRangeColumnExpr(int64(3), int64(9), typ)}
	fmt.Println("IntersectRanges:", sql.IntersectRanges(ctx, r1, r2))
	x, _ := r1.Intersect(ctx, r2)
	fmt.Println("Intersect:", x)

	seed, _ := strconv.Atoi(os.Args[1])
	ncol, _ := strconv.Atoi(os.Args[2])
	r := hx.NewRand(uint64(seed))
	cuts := allCuts(4)
	randRange := func() sql.MySQLRange {
		rg := make(sql.MySQLRange, ncol)
		for i := range rg {
			for {
				lo, hi := hx.Pick(r, cuts), hx.Pick(r, cuts)
				c, _ := lo.Compare(ctx, hi, typ)
				if c < 0 {
					rg[i] = sql.MySQLRangeColumnExpr{LowerBound: lo, UpperBound: hi, Typ: typ}
					break
				}
			}
		}
		return rg
	}
	miss, extra, total, rorErr, rorBad := 0, 0, 0, 0, 0
	for it := 0; it < 3000; it++ {
		first := randRange()
		types_ := make([]sql.Type, ncol)
		for i := range types_ {
			types_[i] = typ
		}
		tree, err := sql.NewMySQLRangeColumnExprTree(first, types_)
		if err != nil {
			panic(err)
		}
		set := map[string]sql.MySQLRange{first.String(): first}
		for op := 0; op < 12; op++ {
			rg := randRange()
			switch r.Intn(4) {
			case 0, 1:
				tree.Insert(ctx, rg)
				set[rg.String()] = rg
			case 2:
				// remove an existing or random one
				if r.Bool() && len(set) > 0 {
					for _, v := range set {
						rg = v
						break
					}
				}
				tree.Remove(ctx, rg)
				delete(set, rg.String())
			}
			q := randRange()
			got, err := tree.FindConnections(ctx, q, 0)
			if err != nil {
				panic(err)
			}
			gotSet := map[string]bool{}
			for _, g := range got {
				gotSet[g.String()] = true
				if _, ok := set[g.String()]; !ok {
					extra++
				}
			}
			for k, v := range set {
				conn := true
				for i := range v {
					c, _ := v[i].IsConnected(ctx, q[i])
					conn = conn && c
				}
				total++
				if conn && !gotSet[k] {
					miss++
					if miss < 4 {
						sz, sh := tree.VerifShape()
						fmt.Println("MISS", q, "stored", v, "size", sz, "shape", sh)
					}
				}
				if !conn && gotSet[k] {
					extra++
				}
			}
			sz, _ := tree.VerifShape()
			_ = sz
		}
	}
	fmt.Println("tree: pairs", total, "missed", miss, "extra", extra)

	// RemoveOverlappingRanges
	for it := 0; it < 20000; it++ {
		n := 1 + r.Intn(6)
		var in []sql.MySQLRange
		for i := 0; i < n; i++ {
			in = append(in, randRange())
		}
		out, err := sql.RemoveOverlappingRanges(ctx, in...)
		if err != nil {
			rorErr++
			if rorErr < 4 {
				fmt.Println("ROR error", in, err)
			}
			continue
		}
		// membership
		pt := make([]int64, ncol)
		var rec func(i int) bool
		rec = func(i int) bool {
			if i == ncol {
				a, b := false, 0
				for _, x := range in {
					a = a || member(ctx, x, pt)
				}
				for _, x := range out {
					if member(ctx, x, pt) {
						b++
					}
				}
				if (a && b != 1) || (!a && b != 0) {
					return false
				}
				return true
			}
			for v := int64(-1); v < 4; v++ {
				pt[i] = v
				if !rec(i + 1) {
					return false
				}
			}
			return true
		}
		if !rec(0) {
			rorBad++
			if rorBad < 4 {
				fmt.Println("ROR bad", in, "=>", out)
			}
		}
	}
	fmt.Println("ROR errors", rorErr, "bad", rorBad)
}
