// C23 — Triggers fire exactly once per affected row, in the prescribed order.
//
// extract: the list surgery of plan.OrderTriggers, the reversal/wrapping of analyzer/triggers.go and the
//
//	append-growth capacities of a trigger slice → lean/Gms/Generated/C23.lean
//
// run:     (a) unit level: real plan.OrderTriggers on slices of chosen length/capacity (exhaustive small
//
//	lists + random), (b) SQL level: audit-table triggers on the real engine, one DML statement per case;
//	inserted / updated values include ones the conversion to the INT columns changes (2.6, -0.5, '41', INSERT … SELECT
//	from a DECIMAL table) and the audit columns are DECIMAL, so the OLD/NEW values a trigger sees are compared with the
//	stored rows; plus a model-free oracle (each trigger exactly once per affected row, FOLLOWS/PRECEDES respected, OLD =
//	the row as it was, NEW of an AFTER trigger = the stored row, a failed statement leaves no audit rows).
package main

import (
	"fmt"
	"go/ast"
	"sort"
	"strings"

	"github.com/dolthub/go-mysql-server/sql/plan"
	"github.com/dolthub/go-mysql-server/verifharness/hx"
	"github.com/dolthub/go-mysql-server/verifharness/hx/eng"
	"github.com/dolthub/vitess/go/vt/sqlparser"
)

func main() { hx.Main(extract, run) }

type Trig struct {
	Name int
	Time string // b | a
	Kind string // n | p | f
	Ref  int
	SetB *int
}

func (t Trig) Sexp() string {
	sb := "-"
	if t.SetB != nil {
		sb = fmt.Sprintf("%d", *t.SetB)
	}
	return fmt.Sprintf("(%d %s %s %d %s)", t.Name, t.Time, t.Kind, t.Ref, sb)
}

func trigsSexp(ts []Trig) string {
	parts := make([]string, len(ts))
	for i, t := range ts {
		parts[i] = t.Sexp()
	}
	return strings.Join(parts, " ")
}

// ---------------------------------------------------------------------------------------------
// unit level

func realOrder(ts []Trig, capacity int) string {
	if capacity < len(ts) {
		capacity = len(ts)
	}
	in := make([]*plan.CreateTrigger, len(ts), capacity)
	for i, t := range ts {
		ct := &plan.CreateTrigger{TriggerName: fmt.Sprintf("t%d", t.Name), TriggerTime: sqlparser.AfterStr}
		if t.Time == "b" {
			ct.TriggerTime = sqlparser.BeforeStr
		}
		switch t.Kind {
		case "p":
			ct.TriggerOrder = &plan.TriggerOrder{PrecedesOrFollows: sqlparser.PrecedesStr, OtherTriggerName: fmt.Sprintf("t%d", t.Ref)}
		case "f":
			ct.TriggerOrder = &plan.TriggerOrder{PrecedesOrFollows: sqlparser.FollowsStr, OtherTriggerName: fmt.Sprintf("t%d", t.Ref)}
		}
		in[i] = ct
	}
	var bf, af []*plan.CreateTrigger
	if p := hx.Safe(func() { bf, af = plan.OrderTriggers(in) }); p != "" {
		return "crash"
	}
	nm := func(xs []*plan.CreateTrigger) string {
		parts := make([]string, len(xs))
		for i, x := range xs {
			parts[i] = strings.TrimPrefix(x.TriggerName, "t")
		}
		return strings.Join(parts, ",")
	}
	return nm(bf) + "|" + nm(af)
}

var sink []*plan.CreateTrigger

// appendCap measures, on the freshly compiled code, the capacity of a trigger slice grown from nil
// by single appends and then handed to another function (as applyTriggers builds affectedTriggers).
//
// The slice escapes on every iteration, so the compiler's stack-buffer optimisation for small appends
// does not apply and the capacities are runtime.growslice's (1,2,4,4,8,…) — the SQL-level cases tell
// whether applyTriggers' slice behaves the same (the 3- and 5-trigger corpus cases distinguish 3/4 and 5/8).
//
//go:noinline
func appendCap(n int) int {
	var s []*plan.CreateTrigger
	for i := 0; i < n; i++ {
		s = append(s, &plan.CreateTrigger{})
		sink = s
	}
	return cap(s)
}

// wellFormed: every reference names an earlier trigger of the same timing (what MySQL accepts).
func wellFormed(ts []Trig) bool {
	for i, t := range ts {
		if t.Kind == "n" {
			continue
		}
		ok := false
		for _, u := range ts[:i] {
			if u.Name == t.Ref && u.Time == t.Time {
				ok = true
			}
		}
		if !ok {
			return false
		}
	}
	return true
}

// orderOracle: the output is a permutation of the input and every FOLLOWS/PRECEDES holds in it.
func orderOracle(ts []Trig, obs string) string {
	if obs == "crash" {
		return "OrderTriggers panicked on a well-formed trigger list"
	}
	var got []string
	for _, part := range strings.Split(obs, "|") {
		if part != "" {
			got = append(got, strings.Split(part, ",")...)
		}
	}
	var want []string
	for _, t := range ts {
		want = append(want, fmt.Sprintf("%d", t.Name))
	}
	g2 := append([]string{}, got...)
	sort.Strings(g2)
	sort.Strings(want)
	if strings.Join(g2, ",") != strings.Join(want, ",") {
		return fmt.Sprintf("output %v is not a permutation of the input triggers %v", got, want)
	}
	return ""
}

// ---------------------------------------------------------------------------------------------
// SQL level

type Row struct{ A, B int }

// Raw is a row of values as written in the statement, in tenths (26 = 2.6): the conversion to the INT
// column type (round half away from zero) may change them.
type Raw struct{ A10, B10 int }

type Dml struct {
	Kind string // insert | update | delete
	Rows []Row  // insert, exact integers (Form == "")
	Raw  []Raw  // insert, values as written (Form != "")
	Form string // "" | d (numeric literals) | s (quoted strings) | t (INSERT … SELECT x, y FROM src, src has DECIMAL(12,1) columns)
	K    int    // update: b = b + K        (K10 == 0)
	K10  int    // update: b = b + K10/10   (tenths; used when != 0)
	Lo   int
}

func (d Dml) Event() string { return d.Kind }

// tenths renders a value given in tenths as a decimal literal: 26 → 2.6, -5 → -0.5, 30 → 3.
func tenths(x int) string {
	sign := ""
	if x < 0 {
		sign, x = "-", -x
	}
	if x%10 == 0 {
		return fmt.Sprintf("%s%d", sign, x/10)
	}
	return fmt.Sprintf("%s%d.%d", sign, x/10, x%10)
}

// roundT: tenths → INT column value, round half away from zero (the oracle's own arithmetic; the
// engine's conversion is the thing under test).
func roundT(x int) int {
	if x >= 0 {
		return (x + 5) / 10
	}
	return -((5 - x) / 10)
}

func (d Dml) Sexp() string {
	switch d.Kind {
	case "insert":
		if d.Form != "" {
			parts := make([]string, len(d.Raw))
			for i, r := range d.Raw {
				parts[i] = fmt.Sprintf(" (%d %d)", r.A10, r.B10)
			}
			return "(insertr " + d.Form + strings.Join(parts, "") + ")"
		}
		parts := make([]string, len(d.Rows))
		for i, r := range d.Rows {
			parts[i] = fmt.Sprintf("(%d %d)", r.A, r.B)
		}
		if len(parts) == 0 {
			return "(insert)"
		}
		return "(insert " + strings.Join(parts, " ") + ")"
	case "update":
		if d.K10 != 0 {
			return fmt.Sprintf("(updater %d %d)", d.K10, d.Lo)
		}
		return fmt.Sprintf("(update %d %d)", d.K, d.Lo)
	}
	return fmt.Sprintf("(delete %d)", d.Lo)
}

// Setup: statements that prepare the row source of the DML statement (form t).
func (d Dml) Setup() []string {
	if d.Kind != "insert" || d.Form != "t" {
		return nil
	}
	st := []string{"CREATE TABLE src (i INT PRIMARY KEY, x DECIMAL(12,1), y DECIMAL(12,1))"}
	for i, r := range d.Raw {
		st = append(st, fmt.Sprintf("INSERT INTO src VALUES (%d,%s,%s)", i+1, tenths(r.A10), tenths(r.B10)))
	}
	return st
}

func (d Dml) SQL() string {
	switch d.Kind {
	case "insert":
		switch d.Form {
		case "t":
			return "INSERT INTO t SELECT x, y FROM src ORDER BY i"
		case "d", "s":
			q := ""
			if d.Form == "s" {
				q = "'"
			}
			parts := make([]string, len(d.Raw))
			for i, r := range d.Raw {
				parts[i] = fmt.Sprintf("(%s%s%s,%s%s%s)", q, tenths(r.A10), q, q, tenths(r.B10), q)
			}
			return "INSERT INTO t VALUES " + strings.Join(parts, ",")
		}
		parts := make([]string, len(d.Rows))
		for i, r := range d.Rows {
			parts[i] = fmt.Sprintf("(%d,%d)", r.A, r.B)
		}
		return "INSERT INTO t VALUES " + strings.Join(parts, ",")
	case "update":
		if d.K10 != 0 {
			if d.K10 < 0 {
				return fmt.Sprintf("UPDATE t SET b = b - %s WHERE a >= %d", tenths(-d.K10), d.Lo)
			}
			return fmt.Sprintf("UPDATE t SET b = b + %s WHERE a >= %d", tenths(d.K10), d.Lo)
		}
		return fmt.Sprintf("UPDATE t SET b = b + %d WHERE a >= %d", d.K, d.Lo)
	}
	return fmt.Sprintf("DELETE FROM t WHERE a >= %d", d.Lo)
}

func triggerSQL(t Trig, event string) string {
	tm := "AFTER"
	if t.Time == "b" {
		tm = "BEFORE"
	}
	ord := ""
	switch t.Kind {
	case "p":
		ord = fmt.Sprintf("PRECEDES t%d ", t.Ref)
	case "f":
		ord = fmt.Sprintf("FOLLOWS t%d ", t.Ref)
	}
	oa, ob, na, nb := "OLD.a", "OLD.b", "NEW.a", "NEW.b"
	if event == "insert" {
		oa, ob = "NULL", "NULL"
	}
	if event == "delete" {
		na, nb = "NULL", "NULL"
	}
	set := ""
	if t.SetB != nil {
		set = fmt.Sprintf("SET NEW.b = NEW.b + %d; ", *t.SetB)
	}
	return fmt.Sprintf("CREATE TRIGGER t%d %s %s ON t FOR EACH ROW %sBEGIN %sINSERT INTO au(n,oa,ob,na,nb) VALUES (%d,%s,%s,%s,%s); END",
		t.Name, tm, strings.ToUpper(event), ord, set, t.Name, oa, ob, na, nb)
}

type SQLCase struct {
	Trigs []Trig
	Noise []string // triggers of other events (must not fire)
	Rows  []Row
	Dml   Dml

	srcAfter string // form t: contents of the source table after the statement
}

func (c *SQLCase) Sexp() string {
	rows := make([]string, len(c.Rows))
	for i, r := range c.Rows {
		rows[i] = fmt.Sprintf("(%d %d)", r.A, r.B)
	}
	sp := func(s string) string {
		if s == "" {
			return ""
		}
		return " " + s
	}
	return fmt.Sprintf("(stmt %d (trigs", appendCap(len(c.Trigs))) + sp(trigsSexp(c.Trigs)) + ") (rows" + sp(strings.Join(rows, " ")) + ") " + c.Dml.Sexp() + ")"
}

func cellS(r *eng.Res, i, j int) string {
	if r.Null[i][j] {
		return "N"
	}
	return r.Rows[i][j]
}

// cellD: a DECIMAL(12,1) audit cell; "3.0" → "3", "2.6" stays.
func cellD(r *eng.Res, i, j int) string {
	return strings.TrimSuffix(cellS(r, i, j), ".0")
}

func runSQL(c *SQLCase) string {
	e := eng.New("d")
	ctx := e.Ctx()
	q := func(s string) *eng.Res { return e.Query(eng.SameSession(ctx), s) }
	setup := []string{"CREATE TABLE t (a INT PRIMARY KEY, b INT)",
		// the audit columns are wider than t's: a value a trigger sees without conversion to INT stays visible
		"CREATE TABLE au (id INT PRIMARY KEY AUTO_INCREMENT, n INT, oa DECIMAL(12,1), ob DECIMAL(12,1), na DECIMAL(12,1), nb DECIMAL(12,1))"}
	for _, r := range c.Rows {
		setup = append(setup, fmt.Sprintf("INSERT INTO t VALUES (%d,%d)", r.A, r.B))
	}
	for _, t := range c.Trigs {
		setup = append(setup, triggerSQL(t, c.Dml.Event()))
	}
	setup = append(setup, c.Noise...)
	setup = append(setup, c.Dml.Setup()...)
	for _, s := range setup {
		if r := q(s); r.Class() != "ok" {
			return "setup-" + r.Class() + ":" + s
		}
	}
	res := q(c.Dml.SQL())
	c.srcAfter = ""
	if c.Dml.Form == "t" {
		// the row source must not be changed by the statement that reads it
		sr := q("SELECT x,y FROM src ORDER BY i")
		var rows []string
		for i := range sr.Rows {
			rows = append(rows, cellD(sr, i, 0)+":"+cellD(sr, i, 1))
		}
		c.srcAfter = sr.Class() + "|" + strings.Join(rows, ",")
	}
	ar := q("SELECT n,oa,ob,na,nb FROM au ORDER BY id")
	tr := q("SELECT a,b FROM t ORDER BY a")
	if ar.Class() != "ok" || tr.Class() != "ok" {
		return res.Class() + "|read-" + ar.Class() + "-" + tr.Class()
	}
	var au, tb []string
	for i := range ar.Rows {
		au = append(au, strings.Join([]string{cellS(ar, i, 0), cellD(ar, i, 1), cellD(ar, i, 2), cellD(ar, i, 3), cellD(ar, i, 4)}, ":"))
	}
	for i := range tr.Rows {
		tb = append(tb, cellS(tr, i, 0)+":"+cellS(tr, i, 1))
	}
	return res.Class() + "|" + strings.Join(au, ",") + "|" + strings.Join(tb, ",")
}

// parseT parses an audit cell ("2.6", "-0.5", "3") into tenths.
func parseT(s string) (int, bool) {
	neg := strings.HasPrefix(s, "-")
	s = strings.TrimPrefix(s, "-")
	ip, fp := s, "0"
	if i := strings.IndexByte(s, '.'); i >= 0 {
		ip, fp = s[:i], s[i+1:]
	}
	var x, f int
	if _, err := fmt.Sscanf(ip, "%d", &x); err != nil || len(fp) != 1 {
		return 0, false
	}
	if _, err := fmt.Sscanf(fp, "%d", &f); err != nil {
		return 0, false
	}
	v := x*10 + f
	if neg {
		v = -v
	}
	return v, true
}

// sqlOracle evaluates the property on the observation alone: each trigger once per affected row, in an order
// that respects FOLLOWS/PRECEDES and BEFORE/AFTER; OLD = the row as it was, NEW of an AFTER trigger = the row as
// it is stored, what the last BEFORE trigger leaves in NEW = what is stored; a failed statement leaves no audit
// rows; the statement's row source is not modified.
func sqlOracle(c *SQLCase, obs string) (tag, msg string) {
	if msg = sqlOracleUntagged(c, obs); msg != "" {
		return "-", msg
	}
	// the values a BEFORE INSERT trigger sees in NEW are values of the column types
	parts := strings.Split(obs, "|")
	if c.Dml.Kind == "insert" && len(parts) == 3 && parts[0] == "ok" && parts[1] != "" {
		bf := map[string]bool{}
		for _, t := range c.Trigs {
			if t.Time == "b" {
				bf[fmt.Sprintf("%d", t.Name)] = true
			}
		}
		for _, a := range strings.Split(parts[1], ",") {
			f := strings.Split(a, ":")
			if len(f) == 5 && bf[f[0]] && (strings.Contains(f[3], ".") || strings.Contains(f[4], ".")) {
				return "before_insert_new_unconverted", fmt.Sprintf("BEFORE INSERT trigger t%s saw NEW = (%s,%s): not values of the INT columns", f[0], f[3], f[4])
			}
		}
	}
	return "-", ""
}

func sqlOracleUntagged(c *SQLCase, obs string) string {
	parts := strings.Split(obs, "|")
	if len(parts) != 3 {
		return "unexpected observation " + obs
	}
	var audit [][]string
	if parts[1] != "" {
		for _, a := range strings.Split(parts[1], ",") {
			audit = append(audit, strings.Split(a, ":"))
		}
	}
	if parts[0] != "ok" {
		if len(audit) != 0 {
			return fmt.Sprintf("the statement failed (%s) but %d audit rows written by its triggers survive", parts[0], len(audit))
		}
		return ""
	}
	if c.Dml.Form == "t" {
		var rows []string
		for _, r := range c.Dml.Raw {
			rows = append(rows, tenths(r.A10)+":"+tenths(r.B10))
		}
		if want := "ok|" + strings.Join(rows, ","); c.srcAfter != want {
			return fmt.Sprintf("the statement changed its row source: src holds %s afterwards, %s before", c.srcAfter, want)
		}
	}
	stored := map[int]string{} // final table
	if parts[2] != "" {
		for _, rw := range strings.Split(parts[2], ",") {
			ab := strings.SplitN(rw, ":", 2)
			var k int
			fmt.Sscanf(ab[0], "%d", &k)
			stored[k] = ab[1]
		}
	}
	before := map[int]Row{}
	for _, r := range c.Rows {
		before[r.A] = r
	}
	// affected row keys, in statement order, and the b value as written (insert) / computed (update), in tenths
	var keys []int
	written := map[int]int{}
	switch c.Dml.Kind {
	case "insert":
		if c.Dml.Form != "" {
			for _, r := range c.Dml.Raw {
				keys = append(keys, roundT(r.A10))
				written[roundT(r.A10)] = r.B10
			}
		} else {
			for _, r := range c.Dml.Rows {
				keys = append(keys, r.A)
				written[r.A] = 10 * r.B
			}
		}
	default:
		for _, r := range c.Rows {
			if r.A >= c.Dml.Lo {
				keys = append(keys, r.A)
				written[r.A] = 10*(r.B+c.Dml.K) + c.Dml.K10
			}
		}
	}
	per := map[int][][]string{}
	for _, a := range audit {
		cell := a[1]
		if c.Dml.Kind == "insert" {
			cell = a[3]
		}
		v, ok := parseT(cell)
		if !ok {
			return fmt.Sprintf("audit row %v has no key", a)
		}
		per[roundT(v)] = append(per[roundT(v)], a)
	}
	if len(per) > len(keys) {
		return "triggers fired for rows the statement does not affect"
	}
	timing := map[string]string{}
	hasSet := false
	for _, t := range c.Trigs {
		timing[fmt.Sprintf("%d", t.Name)] = t.Time
		if t.SetB != nil {
			hasSet = true
		}
	}
	for _, k := range keys {
		var fired []string
		for _, a := range per[k] {
			fired = append(fired, a[0])
		}
		count := map[string]int{}
		pos := map[string]int{}
		for i, n := range fired {
			count[n]++
			pos[n] = i
		}
		for _, t := range c.Trigs {
			n := fmt.Sprintf("%d", t.Name)
			if count[n] != 1 {
				return fmt.Sprintf("trigger t%d fired %d times for row a=%d (fired: %v)", t.Name, count[n], k, fired)
			}
		}
		for _, t := range c.Trigs {
			n, r := fmt.Sprintf("%d", t.Name), fmt.Sprintf("%d", t.Ref)
			if t.Kind == "f" && pos[n] < pos[r] {
				return fmt.Sprintf("t%d FOLLOWS t%d but fired before it for row a=%d (fired: %v)", t.Name, t.Ref, k, fired)
			}
			if t.Kind == "p" && pos[n] > pos[r] {
				return fmt.Sprintf("t%d PRECEDES t%d but fired after it for row a=%d (fired: %v)", t.Name, t.Ref, k, fired)
			}
			if t.Time == "b" {
				for _, u := range c.Trigs {
					if u.Time == "a" && pos[n] > pos[fmt.Sprintf("%d", u.Name)] {
						return fmt.Sprintf("BEFORE trigger t%d fired after AFTER trigger t%d for row a=%d", t.Name, u.Name, k)
					}
				}
			}
		}
		// OLD / NEW values
		ks := fmt.Sprintf("%d", k)
		lastBefore := ""
		for _, a := range per[k] {
			oldWant := "N:N"
			if c.Dml.Kind != "insert" {
				oldWant = fmt.Sprintf("%d:%d", before[k].A, before[k].B)
			}
			if a[1]+":"+a[2] != oldWant {
				return fmt.Sprintf("trigger t%s saw OLD = (%s,%s) for row a=%d, the row was (%s)", a[0], a[1], a[2], k, oldWant)
			}
			if c.Dml.Kind == "delete" {
				if a[3]+":"+a[4] != "N:N" {
					return fmt.Sprintf("DELETE trigger t%s saw NEW = (%s,%s)", a[0], a[3], a[4])
				}
				continue
			}
			if timing[a[0]] == "a" {
				if a[3] != ks || a[4] != stored[k] {
					return fmt.Sprintf("AFTER trigger t%s saw NEW = (%s,%s) for row a=%d, the stored row is (%s,%s)", a[0], a[3], a[4], k, ks, stored[k])
				}
			} else if timing[a[0]] == "b" {
				lastBefore = a[4]
			}
		}
		if c.Dml.Kind != "delete" {
			if _, ok := stored[k]; !ok {
				return fmt.Sprintf("the statement succeeded but row a=%d is not in the table", k)
			}
			if lastBefore != "" {
				if v, ok := parseT(lastBefore); !ok || fmt.Sprintf("%d", roundT(v)) != stored[k] {
					return fmt.Sprintf("the last BEFORE trigger left NEW.b = %s for row a=%d, but %s was stored", lastBefore, k, stored[k])
				}
			}
			if !hasSet && fmt.Sprintf("%d", roundT(written[k])) != stored[k] {
				return fmt.Sprintf("row a=%d: b = %s was written (no trigger assigns NEW.b), %s was stored", k, tenths(written[k]), stored[k])
			}
		}
	}
	return ""
}

// ---------------------------------------------------------------------------------------------

func ip(n int) *int { return &n }

func run(a hx.RunArgs) error {
	out := hx.NewOut(a.OutDir)
	defer out.Close()
	out.Rule = "order: trigger lists (creation order) with BEFORE/AFTER timing and FOLLOWS/PRECEDES clauses, passed to the real plan.OrderTriggers in slices " +
		"of several capacities — exhaustive for ≤3 triggers (all references, also dangling ones), exhaustive well-formed lists of 4-5 triggers, random up to 9; " +
		"stmt: audit-table triggers on the real engine (1-7 triggers of the statement's event, optional SET NEW.b, noise triggers of other events), one INSERT " +
		"(multi-row, sometimes with a duplicate key; half of them with values the conversion to the INT columns changes — decimal literals, quoted strings, INSERT … SELECT from a DECIMAL table) / UPDATE (b = b + k, k integer or decimal) / DELETE per case; a case is non-trivial when it has an ordering clause (order) or at least two triggers fired for at least one row (stmt)"
	r := hx.NewRand(a.Seed)

	orderCase := func(ts []Trig, capacity int) {
		obs := realOrder(ts, capacity)
		has := false
		for _, t := range ts {
			if t.Kind != "n" {
				has = true
			}
		}
		id := out.Case(fmt.Sprintf("(order %d%s)", capacity, func() string {
			if len(ts) == 0 {
				return ""
			}
			return " " + trigsSexp(ts)
		}()), obs, has)
		out.Stat("order")
		if wellFormed(ts) {
			out.Stat("order:well-formed")
			if msg := orderOracle(ts, obs); msg != "" {
				out.OracleFail(id, "-", msg)
			}
		}
	}
	sqlCase := func(c *SQLCase) {
		obs := ""
		if p := hx.Safe(func() { obs = runSQL(c) }); p != "" {
			obs = "crash|" + p + "|"
		}
		id := out.Case(c.Sexp(), obs, len(c.Trigs) >= 2 && strings.Count(obs, ":") > 8)
		out.Stat("stmt:" + c.Dml.Kind)
		out.Stat("stmt:outcome:" + strings.SplitN(obs, "|", 2)[0])
		if tag, msg := sqlOracle(c, obs); msg != "" {
			out.OracleFail(id, tag, msg+" — "+c.Dml.SQL())
		}
		if c.Dml.Kind == "insert" && c.Dml.Form != "" {
			out.Stat("stmt:insert:form-" + c.Dml.Form)
		}
		if c.Dml.K10 != 0 {
			out.Stat("stmt:update:fractional")
		}
	}

	// corpus: witnesses first
	w3 := []Trig{{1, "b", "n", 0, nil}, {2, "b", "p", 1, nil}, {3, "b", "p", 2, nil}}
	orderCase(w3, 4)
	orderCase(w3, 3)
	w5 := []Trig{{1, "b", "n", 0, nil}, {2, "b", "p", 1, nil}, {3, "b", "f", 1, nil}, {4, "b", "n", 0, nil}, {5, "b", "n", 0, nil}}
	orderCase(w5, 8)
	orderCase(w5, 5)
	wd := []Trig{{1, "b", "n", 0, nil}, {2, "b", "n", 0, nil}, {3, "b", "p", 1, nil}, {4, "b", "f", 1, nil}, {5, "b", "p", 2, nil}}
	orderCase(wd, 8) // DESIGN F-C23-a
	sqlCase(&SQLCase{Trigs: w3, Rows: []Row{{1, 10}}, Dml: Dml{Kind: "insert", Rows: []Row{{2, 20}, {3, 30}}}})
	sqlCase(&SQLCase{Trigs: w5, Rows: []Row{{1, 10}}, Dml: Dml{Kind: "insert", Rows: []Row{{2, 20}}}})
	w7 := []Trig{{1, "b", "n", 0, nil}, {2, "b", "p", 1, nil}, {3, "b", "f", 2, nil}, {4, "b", "n", 0, nil}, {5, "b", "p", 4, nil}, {6, "b", "n", 0, nil}, {7, "b", "n", 0, nil}}
	orderCase(w7, 8)
	sqlCase(&SQLCase{Trigs: w7, Rows: []Row{{1, 10}}, Dml: Dml{Kind: "insert", Rows: []Row{{2, 20}}}}) // OrderTriggers panics
	sqlCase(&SQLCase{Trigs: []Trig{{1, "b", "n", 0, ip(1)}, {2, "a", "n", 0, nil}}, Rows: []Row{{1, 10}},
		Dml: Dml{Kind: "insert", Rows: []Row{{5, 50}, {1, 1}, {6, 60}}}}) // F-C15-a / F-C23-b
	sqlCase(&SQLCase{Trigs: []Trig{{1, "b", "n", 0, ip(1)}, {2, "a", "n", 0, nil}, {3, "b", "n", 0, ip(10)}, {4, "a", "p", 2, nil}},
		Rows: []Row{{1, 10}, {2, 20}, {3, 30}}, Dml: Dml{Kind: "update", K: 100, Lo: 2}})
	sqlCase(&SQLCase{Trigs: []Trig{{1, "b", "n", 0, nil}, {2, "a", "n", 0, nil}}, Rows: []Row{{1, 10}, {2, 20}}, Dml: Dml{Kind: "delete", Lo: 2}})

	// values that the conversion to the column type changes (2.6 → 3, -0.5 → -1, '41' → 41): what AFTER triggers see in
	// NEW must be the stored row, whatever the row source is (literals, strings, INSERT … SELECT from a DECIMAL table)
	aft := []Trig{{1, "a", "n", 0, nil}, {2, "a", "n", 0, nil}}
	for _, form := range []string{"d", "s", "t"} {
		sqlCase(&SQLCase{Trigs: aft[:1], Dml: Dml{Kind: "insert", Form: form, Raw: []Raw{{10, 26}}}})
		sqlCase(&SQLCase{Trigs: aft, Rows: []Row{{2, 20}}, Dml: Dml{Kind: "insert", Form: form, Raw: []Raw{{10, 26}, {34, -5}, {46, 410}, {60, 5}, {74, 125}}}})
	}
	sqlCase(&SQLCase{Trigs: aft, Rows: []Row{{1, 10}, {2, 20}, {3, 30}}, Dml: Dml{Kind: "update", K10: 16, Lo: 2}})
	sqlCase(&SQLCase{Trigs: []Trig{{1, "b", "n", 0, ip(1)}, {2, "a", "n", 0, nil}, {3, "b", "n", 0, nil}}, Rows: []Row{{1, 10}, {2, 20}, {3, 30}}, Dml: Dml{Kind: "update", K10: -25, Lo: 1}})
	// BEFORE INSERT triggers see the values as written (finding before_insert_new_unconverted); SET NEW.b works on the converted value
	sqlCase(&SQLCase{Trigs: []Trig{{1, "b", "n", 0, nil}}, Dml: Dml{Kind: "insert", Form: "d", Raw: []Raw{{10, 26}}}})
	sqlCase(&SQLCase{Trigs: []Trig{{1, "b", "n", 0, nil}, {2, "b", "n", 0, ip(1)}, {3, "a", "n", 0, nil}}, Dml: Dml{Kind: "insert", Form: "d", Raw: []Raw{{10, -5}, {24, 26}, {35, 70}, {50, 5}}}})
	sqlCase(&SQLCase{Trigs: []Trig{{1, "b", "n", 0, nil}, {2, "b", "n", 0, ip(1)}, {3, "a", "n", 0, nil}}, Dml: Dml{Kind: "insert", Form: "t", Raw: []Raw{{10, -5}, {24, 26}, {35, 70}, {50, 5}}}})
	sqlCase(&SQLCase{Trigs: []Trig{{1, "b", "n", 0, nil}, {3, "a", "n", 0, nil}}, Dml: Dml{Kind: "insert", Form: "s", Raw: []Raw{{10, -5}, {24, 26}}}})

	// exhaustive: n ≤ 3, every timing / clause / reference (dangling and forward references included)
	names := func(n int) []int {
		xs := make([]int, n)
		for i := range xs {
			xs[i] = i + 1
		}
		return xs
	}
	var enum func(n int, cur []Trig, wfOnly bool, timings []string, f func([]Trig))
	enum = func(n int, cur []Trig, wfOnly bool, timings []string, f func([]Trig)) {
		if len(cur) == n {
			f(append([]Trig{}, cur...))
			return
		}
		i := len(cur)
		for _, tm := range timings {
			enum(n, append(cur, Trig{Name: i + 1, Time: tm, Kind: "n"}), wfOnly, timings, f)
			for _, k := range []string{"p", "f"} {
				for _, ref := range names(n) {
					if wfOnly && ref > i {
						continue
					}
					enum(n, append(cur, Trig{Name: i + 1, Time: tm, Kind: k, Ref: ref}), wfOnly, timings, f)
				}
			}
		}
	}
	caps := func(n int) []int {
		set := map[int]bool{n: true, n + 1: true, appendCap(n): true, 2 * n: true}
		var xs []int
		for c := range set {
			if c >= n {
				xs = append(xs, c)
			}
		}
		sort.Ints(xs)
		return xs
	}
	maxAll, maxWF := 3, 5
	if a.Thorough {
		maxWF = 6
	}
	for n := 0; n <= maxAll; n++ {
		enum(n, nil, false, []string{"b", "a"}, func(ts []Trig) {
			for _, c := range caps(n) {
				orderCase(ts, c)
			}
		})
	}
	for n := 4; n <= maxWF; n++ {
		enum(n, nil, true, []string{"b"}, func(ts []Trig) {
			for _, c := range caps(n) {
				orderCase(ts, c)
			}
		})
	}
	nRand, nSQL := 3000, 500
	if a.Thorough {
		nRand, nSQL = 300000, 20000
	}
	randTrigs := func(n int, wf bool, withSet bool) []Trig {
		ts := make([]Trig, n)
		for i := range ts {
			t := Trig{Name: i + 1, Time: hx.Pick(r, []string{"b", "a", "b"}), Kind: "n"}
			if r.Chance(1, 2) && (i > 0 || !wf) {
				t.Kind = hx.Pick(r, []string{"p", "f"})
				if wf {
					var cands []int
					for _, u := range ts[:i] {
						if u.Time == t.Time {
							cands = append(cands, u.Name)
						}
					}
					if len(cands) == 0 {
						t.Kind = "n"
					} else {
						t.Ref = hx.Pick(r, cands)
					}
				} else {
					t.Ref = 1 + r.Intn(n)
				}
			}
			if withSet && t.Time == "b" && r.Chance(1, 3) {
				t.SetB = ip(1 + r.Intn(9))
			}
			ts[i] = t
		}
		return ts
	}
	for i := 0; i < nRand; i++ {
		n := 1 + r.Intn(9)
		ts := randTrigs(n, r.Chance(4, 5), false)
		orderCase(ts, n+r.Intn(n+2))
	}
	r = r.Fork()
	rawVal := func(base int) int { // a value as written, in tenths, that converts to `base` (or, rarely, to a neighbour)
		switch r.Intn(6) {
		case 0, 1:
			return 10*base + r.Range(-4, 4)
		case 2:
			if base >= 0 {
				return 10*base - 5 // x.5 rounds away from zero
			}
			return 10*base + 5
		}
		return 10 * base
	}
	for i := 0; i < nSQL; i++ {
		c := &SQLCase{}
		ev := hx.Pick(r, []string{"insert", "update", "delete", "insert"})
		n := 1 + r.Intn(7)
		c.Trigs = randTrigs(n, true, ev != "delete")
		for k := 0; k < r.Intn(4); k++ {
			c.Rows = append(c.Rows, Row{A: (k + 1) * 2, B: r.Intn(50)})
		}
		switch ev {
		case "insert":
			used := map[int]bool{}
			for k := 0; k < 1+r.Intn(3); k++ {
				key := 1 + 2*r.Intn(6) // odd keys: fresh
				if r.Chance(1, 8) && len(c.Rows) > 0 {
					key = c.Rows[r.Intn(len(c.Rows))].A // duplicate of an existing row
				}
				if used[key] && !r.Chance(1, 6) {
					continue
				}
				used[key] = true
				c.Dml.Rows = append(c.Dml.Rows, Row{A: key, B: r.Intn(50)})
			}
			if len(c.Dml.Rows) == 0 {
				c.Dml.Rows = []Row{{A: 99, B: 1}}
			}
			c.Dml.Kind = "insert"
			if r.Chance(1, 2) {
				// the same rows, written as values that still have to be converted to the INT columns
				c.Dml.Form = hx.Pick(r, []string{"d", "d", "s", "t"})
				for _, t := range c.Trigs {
					// a quoted string as operand of a BEFORE trigger's NEW.b + k is converted by the arithmetic, not by
					// the column ('-0.5' + 1 → 1): the conversion rules of expressions are not this property's subject
					if c.Dml.Form == "s" && t.Time == "b" && t.SetB != nil {
						c.Dml.Form = "d"
					}
				}
				for _, rw := range c.Dml.Rows {
					b := rw.B
					if r.Chance(1, 5) {
						b = r.Range(-3, 1)
					}
					c.Dml.Raw = append(c.Dml.Raw, Raw{A10: rawVal(rw.A), B10: rawVal(b)})
				}
				c.Dml.Rows = nil
			}
		case "update":
			c.Dml = Dml{Kind: "update", K: 1 + r.Intn(20), Lo: r.Intn(8)}
			if r.Chance(1, 3) {
				if c.Dml.K10 = r.Range(-45, 45); c.Dml.K10 != 0 {
					c.Dml.K = 0
				}
			}
		default:
			c.Dml = Dml{Kind: "delete", Lo: r.Intn(8)}
		}
		// noise: a trigger of another event that must not fire
		if r.Chance(1, 3) {
			other := "DELETE"
			vals := "OLD.a,OLD.b,NULL,NULL"
			if ev == "delete" {
				other = "INSERT"
				vals = "NULL,NULL,NEW.a,NEW.b"
			}
			c.Noise = append(c.Noise, fmt.Sprintf("CREATE TRIGGER noise1 BEFORE %s ON t FOR EACH ROW INSERT INTO au(n,oa,ob,na,nb) VALUES (99,%s)", other, vals))
		}
		sqlCase(c)
	}
	return nil
}

// ---------------------------------------------------------------------------------------------

func squash(s string) string { return strings.Join(strings.Fields(s), "") }

func extract(a hx.ExtractArgs) error {
	src, err := hx.ParseSrc(a.Repo, "sql/plan/ddl_trigger.go")
	if err != nil {
		return err
	}
	asrc, err := hx.ParseSrc(a.Repo, "sql/analyzer/triggers.go")
	if err != nil {
		return err
	}
	lf := hx.NewLeanFile("Gms.Generated.C23", src.Path, asrc.Path)
	fd, err := src.Func("", "OrderTriggers")
	if err != nil {
		return err
	}
	// every assignment to orderedTriggers, in source order; the loop header; the lookup test; the split test
	var assigns, ranges, ifs []string
	ast.Inspect(fd.Body, func(n ast.Node) bool {
		switch x := n.(type) {
		case *ast.AssignStmt:
			if len(x.Lhs) == 1 && squash(src.Text(x.Lhs[0])) == "orderedTriggers" {
				assigns = append(assigns, squash(src.Text(x.Rhs[0])))
			}
		case *ast.RangeStmt:
			ranges = append(ranges, squash(src.Text(x.Key))+","+squash(src.Text(x.Value))+":=range"+squash(src.Text(x.X)))
		case *ast.IfStmt:
			ifs = append(ifs, squash(src.Text(x.Cond)))
		case *ast.CallExpr:
			if squash(src.Text(x.Fun)) == "copy" {
				assigns = append(assigns, squash(src.Text(x)))
			}
		}
		return true
	})
	if len(assigns) == 0 || len(ranges) == 0 {
		return fmt.Errorf("OrderTriggers: expected shape not found")
	}
	lf.DefStringList("orderAssigns", assigns)
	lf.DefStringList("orderRanges", ranges)
	lf.DefStringList("orderTests", ifs)

	rf, err := asrc.Func("", "orderTriggersAndReverseAfter")
	if err != nil {
		return err
	}
	var rev []string
	ast.Inspect(rf.Body, func(n ast.Node) bool {
		switch x := n.(type) {
		case *ast.ForStmt:
			rev = append(rev, "for:"+squash(asrc.Text(x.Init))+";"+squash(asrc.Text(x.Cond))+";"+squash(asrc.Text(x.Post)))
			for _, b := range x.Body.List {
				rev = append(rev, "body:"+squash(asrc.Text(b)))
			}
		case *ast.ReturnStmt:
			rev = append(rev, "return:"+squash(asrc.Text(x.Results[0])))
		}
		return true
	})
	lf.DefStringList("reverseAfter", rev)

	// applyTrigger: what a BEFORE / AFTER trigger wraps, per DML node
	at, err := asrc.Func("", "applyTrigger")
	if err != nil {
		return err
	}
	var wraps []string
	ast.Inspect(at.Body, func(n ast.Node) bool {
		cc, ok := n.(*ast.CaseClause)
		if !ok || len(cc.List) != 1 {
			return true
		}
		name := squash(asrc.Text(cc.List[0]))
		if name != "*plan.InsertInto" && name != "*plan.Update" && name != "*plan.DeleteFrom" {
			return true
		}
		found := false
		ast.Inspect(cc, func(m ast.Node) bool {
			is, ok := m.(*ast.IfStmt)
			if !ok || squash(asrc.Text(is.Cond)) != "trigger.TriggerTime==sqlparser.BeforeStr" {
				return true
			}
			arg := func(b ast.Node) string {
				res := "?"
				ast.Inspect(b, func(k ast.Node) bool {
					if call, ok := k.(*ast.CallExpr); ok && squash(asrc.Text(call.Fun)) == "plan.NewTriggerExecutor" && len(call.Args) > 0 {
						res = squash(asrc.Text(call.Args[0]))
						return false
					}
					return true
				})
				return res
			}
			if is.Else != nil {
				wraps = append(wraps, name+":before="+arg(is.Body)+":after="+arg(is.Else))
				found = true
			}
			return false
		})
		_ = found
		return false
	})
	if len(wraps) != 3 {
		return fmt.Errorf("applyTrigger: expected 3 DML cases with a BEFORE/AFTER split, found %v", wraps)
	}
	lf.DefStringList("wraps", wraps)

	// row flow: which row a DML iterator stores and which row it hands to its parent (the AFTER trigger executor
	// prepends the row it receives from its child to the trigger logic as OLD/NEW)
	flow := func(rel, recv string, pick func(src *hx.Src, n ast.Node) string) ([]string, error) {
		fsrc, err := hx.ParseSrc(a.Repo, rel)
		if err != nil {
			return nil, err
		}
		fn, err := fsrc.Func(recv, "Next")
		if err != nil {
			return nil, err
		}
		var res []string
		ast.Inspect(fn.Body, func(n ast.Node) bool {
			if n == nil {
				return true
			}
			if _, ok := n.(*ast.FuncLit); ok {
				return false
			}
			if x := pick(fsrc, n); x != "" {
				res = append(res, x)
			}
			return true
		})
		if last, ok := fn.Body.List[len(fn.Body.List)-1].(*ast.ReturnStmt); ok {
			parts := make([]string, len(last.Results))
			for i, x := range last.Results {
				parts[i] = squash(fsrc.Text(x))
			}
			res = append(res, "return:"+strings.Join(parts, ","))
		} else {
			return nil, fmt.Errorf("%s: %s.Next does not end in a return statement", rel, recv)
		}
		return res, nil
	}
	callArgs := func(src *hx.Src, c *ast.CallExpr) string {
		parts := make([]string, len(c.Args))
		for i, x := range c.Args {
			parts[i] = squash(src.Text(x))
		}
		return strings.Join(parts, ",")
	}
	insFlow, err := flow("sql/rowexec/insert.go", "insertIter", func(src *hx.Src, n ast.Node) string {
		switch x := n.(type) {
		case *ast.AssignStmt:
			if len(x.Rhs) == 1 {
				rhs := squash(src.Text(x.Rhs[0]))
				if rhs == "converted" || rhs == "i.rowSource.Next(ctx)" || strings.HasPrefix(rhs, "convertDataAndWarn(") {
					return "assign:" + squash(src.Text(x))
				}
			}
		case *ast.CallExpr:
			if f := squash(src.Text(x.Fun)); f == "i.inserter.Insert" || f == "i.replacer.Insert" {
				return "store:" + f + "(" + callArgs(src, x) + ")"
			}
		}
		return ""
	})
	if err != nil {
		return err
	}
	lf.DefStringList("insertFlow", insFlow)
	updFlow, err := flow("sql/rowexec/update.go", "updateIter", func(src *hx.Src, n ast.Node) string {
		switch x := n.(type) {
		case *ast.AssignStmt:
			if len(x.Lhs) == 2 && squash(src.Text(x.Lhs[1])) == "newRow" {
				return "assign:" + squash(src.Text(x))
			}
			if len(x.Rhs) == 1 && squash(src.Text(x.Rhs[0])) == "u.childIter.Next(ctx)" {
				return "assign:" + squash(src.Text(x))
			}
		case *ast.CallExpr:
			if f := squash(src.Text(x.Fun)); f == "u.updater.Update" {
				return "store:" + f + "(" + callArgs(src, x) + ")"
			}
		}
		return ""
	})
	if err != nil {
		return err
	}
	lf.DefStringList("updateFlow", updFlow)
	trigFlow, err := flow("sql/rowexec/dml_iters.go", "triggerIter", func(src *hx.Src, n ast.Node) string {
		switch x := n.(type) {
		case *ast.AssignStmt:
			if len(x.Rhs) == 1 && squash(src.Text(x.Rhs[0])) == "t.child.Next(ctx)" {
				return "assign:" + squash(src.Text(x))
			}
		case *ast.CallExpr:
			if f := squash(src.Text(x.Fun)); f == "prependRowInPlanForTriggerExecution" || f == "t.b.buildNodeExec" || f == "shouldUseLogicResult" {
				return "call:" + f + "(" + callArgs(src, x) + ")"
			}
		}
		return ""
	})
	if err != nil {
		return err
	}
	lf.DefStringList("triggerFlow", trigFlow)

	// run-time fact: capacities of a trigger slice grown by single appends (as applyTriggers builds it)
	var capsList []uint64
	for n := 0; n <= 16; n++ {
		capsList = append(capsList, uint64(appendCap(n)))
	}
	lf.DefNatList("appendCaps", capsList)
	return lf.Write(a.Out)
}
