// C23 — Triggers fire exactly once per affected row, in the prescribed order.
//
// extract: the list surgery of plan.OrderTriggers, the reversal/wrapping of analyzer/triggers.go and the
//
//	append-growth capacities of a trigger slice → lean/Gms/Generated/C23.lean
//
// run:     (a) unit level: real plan.OrderTriggers on slices of chosen length/capacity (exhaustive small
//
//	lists + random), (b) SQL level: audit-table triggers on the real engine, one DML statement per case;
//	plus a model-free oracle (each trigger exactly once per affected row, FOLLOWS/PRECEDES respected,
//	a failed statement leaves no audit rows).
package main

import (
	"fmt"
	"go/ast"
	"sort"
	"strings"

	"github.com/dolthub/go-mysql-server/sql/plan"
	"github.com/dolthub/go-mysql-server/verifharness/hx"
	"github.com/dolthub/go-mysql-server/verifharness/hx/eng"
	"github.com/dolthub/vitess/go/vt/sqlparser"
)

func main() { hx.Main(extract, run) }

type Trig struct {
	Name int
	Time string // b | a
	Kind string // n | p | f
	Ref  int
	SetB *int
}

func (t Trig) Sexp() string {
	sb := "-"
	if t.SetB != nil {
		sb = fmt.Sprintf("%d", *t.SetB)
	}
	return fmt.Sprintf("(%d %s %s %d %s)", t.Name, t.Time, t.Kind, t.Ref, sb)
}

func trigsSexp(ts []Trig) string {
	parts := make([]string, len(ts))
	for i, t := range ts {
		parts[i] = t.Sexp()
	}
	return strings.Join(parts, " ")
}

// ---------------------------------------------------------------------------------------------
// unit level

func realOrder(ts []Trig, capacity int) string {
	if capacity < len(ts) {
		capacity = len(ts)
	}
	in := make([]*plan.CreateTrigger, len(ts), capacity)
	for i, t := range ts {
		ct := &plan.CreateTrigger{TriggerName: fmt.Sprintf("t%d", t.Name), TriggerTime: sqlparser.AfterStr}
		if t.Time == "b" {
			ct.TriggerTime = sqlparser.BeforeStr
		}
		switch t.Kind {
		case "p":
			ct.TriggerOrder = &plan.TriggerOrder{PrecedesOrFollows: sqlparser.PrecedesStr, OtherTriggerName: fmt.Sprintf("t%d", t.Ref)}
		case "f":
			ct.TriggerOrder = &plan.TriggerOrder{PrecedesOrFollows: sqlparser.FollowsStr, OtherTriggerName: fmt.Sprintf("t%d", t.Ref)}
		}
		in[i] = ct
	}
	var bf, af []*plan.CreateTrigger
	if p := hx.Safe(func() { bf, af = plan.OrderTriggers(in) }); p != "" {
		return "crash"
	}
	nm := func(xs []*plan.CreateTrigger) string {
		parts := make([]string, len(xs))
		for i, x := range xs {
			parts[i] = strings.TrimPrefix(x.TriggerName, "t")
		}
		return strings.Join(parts, ",")
	}
	return nm(bf) + "|" + nm(af)
}

var sink []*plan.CreateTrigger

// appendCap measures, on the freshly compiled code, the capacity of a trigger slice grown from nil
// by single appends and then handed to another function (as applyTriggers builds affectedTriggers).
//
// The slice escapes on every iteration, so the compiler's stack-buffer optimisation for small appends
// does not apply and the capacities are runtime.growslice's (1,2,4,4,8,…) — the SQL-level cases tell
// whether applyTriggers' slice behaves the same (the 3- and 5-trigger corpus cases distinguish 3/4 and 5/8).
//
//go:noinline
func appendCap(n int) int {
	var s []*plan.CreateTrigger
	for i := 0; i < n; i++ {
		s = append(s, &plan.CreateTrigger{})
		sink = s
	}
	return cap(s)
}

// wellFormed: every reference names an earlier trigger of the same timing (what MySQL accepts).
func wellFormed(ts []Trig) bool {
	for i, t := range ts {
		if t.Kind == "n" {
			continue
		}
		ok := false
		for _, u := range ts[:i] {
			if u.Name == t.Ref && u.Time == t.Time {
				ok = true
			}
		}
		if !ok {
			return false
		}
	}
	return true
}

// orderOracle: the output is a permutation of the input and every FOLLOWS/PRECEDES holds in it.
func orderOracle(ts []Trig, obs string) string {
	if obs == "crash" {
		return "OrderTriggers panicked on a well-formed trigger list"
	}
	var got []string
	for _, part := range strings.Split(obs, "|") {
		if part != "" {
			got = append(got, strings.Split(part, ",")...)
		}
	}
	var want []string
	for _, t := range ts {
		want = append(want, fmt.Sprintf("%d", t.Name))
	}
	g2 := append([]string{}, got...)
	sort.Strings(g2)
	sort.Strings(want)
	if strings.Join(g2, ",") != strings.Join(want, ",") {
		return fmt.Sprintf("output %v is not a permutation of the input triggers %v", got, want)
	}
	return ""
}

// ---------------------------------------------------------------------------------------------
// SQL level

type Row struct{ A, B int }

type Dml struct {
	Kind string // insert | update | delete
	Rows []Row
	K    int
	Lo   int
}

func (d Dml) Event() string { return d.Kind }

func (d Dml) Sexp() string {
	switch d.Kind {
	case "insert":
		parts := make([]string, len(d.Rows))
		for i, r := range d.Rows {
			parts[i] = fmt.Sprintf("(%d %d)", r.A, r.B)
		}
		if len(parts) == 0 {
			return "(insert)"
		}
		return "(insert " + strings.Join(parts, " ") + ")"
	case "update":
		return fmt.Sprintf("(update %d %d)", d.K, d.Lo)
	}
	return fmt.Sprintf("(delete %d)", d.Lo)
}

func (d Dml) SQL() string {
	switch d.Kind {
	case "insert":
		parts := make([]string, len(d.Rows))
		for i, r := range d.Rows {
			parts[i] = fmt.Sprintf("(%d,%d)", r.A, r.B)
		}
		return "INSERT INTO t VALUES " + strings.Join(parts, ",")
	case "update":
		return fmt.Sprintf("UPDATE t SET b = b + %d WHERE a >= %d", d.K, d.Lo)
	}
	return fmt.Sprintf("DELETE FROM t WHERE a >= %d", d.Lo)
}

func triggerSQL(t Trig, event string) string {
	tm := "AFTER"
	if t.Time == "b" {
		tm = "BEFORE"
	}
	ord := ""
	switch t.Kind {
	case "p":
		ord = fmt.Sprintf("PRECEDES t%d ", t.Ref)
	case "f":
		ord = fmt.Sprintf("FOLLOWS t%d ", t.Ref)
	}
	oa, ob, na, nb := "OLD.a", "OLD.b", "NEW.a", "NEW.b"
	if event == "insert" {
		oa, ob = "NULL", "NULL"
	}
	if event == "delete" {
		na, nb = "NULL", "NULL"
	}
	set := ""
	if t.SetB != nil {
		set = fmt.Sprintf("SET NEW.b = NEW.b + %d; ", *t.SetB)
	}
	return fmt.Sprintf("CREATE TRIGGER t%d %s %s ON t FOR EACH ROW %sBEGIN %sINSERT INTO au(n,oa,ob,na,nb) VALUES (%d,%s,%s,%s,%s); END",
		t.Name, tm, strings.ToUpper(event), ord, set, t.Name, oa, ob, na, nb)
}

type SQLCase struct {
	Trigs []Trig
	Noise []string // triggers of other events (must not fire)
	Rows  []Row
	Dml   Dml
}

func (c *SQLCase) Sexp() string {
	rows := make([]string, len(c.Rows))
	for i, r := range c.Rows {
		rows[i] = fmt.Sprintf("(%d %d)", r.A, r.B)
	}
	sp := func(s string) string {
		if s == "" {
			return ""
		}
		return " " + s
	}
	return fmt.Sprintf("(stmt %d (trigs", appendCap(len(c.Trigs))) + sp(trigsSexp(c.Trigs)) + ") (rows" + sp(strings.Join(rows, " ")) + ") " + c.Dml.Sexp() + ")"
}

func cellS(r *eng.Res, i, j int) string {
	if r.Null[i][j] {
		return "N"
	}
	return r.Rows[i][j]
}

func runSQL(c *SQLCase) string {
	e := eng.New("d")
	ctx := e.Ctx()
	q := func(s string) *eng.Res { return e.Query(eng.SameSession(ctx), s) }
	setup := []string{"CREATE TABLE t (a INT PRIMARY KEY, b INT)",
		"CREATE TABLE au (id INT PRIMARY KEY AUTO_INCREMENT, n INT, oa INT, ob INT, na INT, nb INT)"}
	for _, r := range c.Rows {
		setup = append(setup, fmt.Sprintf("INSERT INTO t VALUES (%d,%d)", r.A, r.B))
	}
	for _, t := range c.Trigs {
		setup = append(setup, triggerSQL(t, c.Dml.Event()))
	}
	setup = append(setup, c.Noise...)
	for _, s := range setup {
		if r := q(s); r.Class() != "ok" {
			return "setup-" + r.Class() + ":" + s
		}
	}
	res := q(c.Dml.SQL())
	ar := q("SELECT n,oa,ob,na,nb FROM au ORDER BY id")
	tr := q("SELECT a,b FROM t ORDER BY a")
	if ar.Class() != "ok" || tr.Class() != "ok" {
		return res.Class() + "|read-" + ar.Class() + "-" + tr.Class()
	}
	var au, tb []string
	for i := range ar.Rows {
		au = append(au, strings.Join([]string{cellS(ar, i, 0), cellS(ar, i, 1), cellS(ar, i, 2), cellS(ar, i, 3), cellS(ar, i, 4)}, ":"))
	}
	for i := range tr.Rows {
		tb = append(tb, cellS(tr, i, 0)+":"+cellS(tr, i, 1))
	}
	return res.Class() + "|" + strings.Join(au, ",") + "|" + strings.Join(tb, ",")
}

// sqlOracle evaluates the property on the observation alone.
func sqlOracle(c *SQLCase, obs string) string {
	parts := strings.Split(obs, "|")
	if len(parts) != 3 {
		return "unexpected observation " + obs
	}
	var audit [][]string
	if parts[1] != "" {
		for _, a := range strings.Split(parts[1], ",") {
			audit = append(audit, strings.Split(a, ":"))
		}
	}
	if parts[0] != "ok" {
		if len(audit) != 0 {
			return fmt.Sprintf("the statement failed (%s) but %d audit rows written by its triggers survive", parts[0], len(audit))
		}
		return ""
	}
	// affected row keys, in statement order
	var keys []int
	switch c.Dml.Kind {
	case "insert":
		for _, r := range c.Dml.Rows {
			keys = append(keys, r.A)
		}
	default:
		for _, r := range c.Rows {
			if r.A >= c.Dml.Lo {
				keys = append(keys, r.A)
			}
		}
	}
	per := map[string][]string{}
	for _, a := range audit {
		k := a[1]
		if c.Dml.Kind == "insert" {
			k = a[3]
		}
		per[k] = append(per[k], a[0])
	}
	if len(per) > len(keys) {
		return "triggers fired for rows the statement does not affect"
	}
	for _, k := range keys {
		fired := per[fmt.Sprintf("%d", k)]
		count := map[string]int{}
		pos := map[string]int{}
		for i, n := range fired {
			count[n]++
			pos[n] = i
		}
		for _, t := range c.Trigs {
			n := fmt.Sprintf("%d", t.Name)
			if count[n] != 1 {
				return fmt.Sprintf("trigger t%d fired %d times for row a=%d (fired: %v)", t.Name, count[n], k, fired)
			}
		}
		for _, t := range c.Trigs {
			n, r := fmt.Sprintf("%d", t.Name), fmt.Sprintf("%d", t.Ref)
			if t.Kind == "f" && pos[n] < pos[r] {
				return fmt.Sprintf("t%d FOLLOWS t%d but fired before it for row a=%d (fired: %v)", t.Name, t.Ref, k, fired)
			}
			if t.Kind == "p" && pos[n] > pos[r] {
				return fmt.Sprintf("t%d PRECEDES t%d but fired after it for row a=%d (fired: %v)", t.Name, t.Ref, k, fired)
			}
			if t.Time == "b" {
				for _, u := range c.Trigs {
					if u.Time == "a" && pos[n] > pos[fmt.Sprintf("%d", u.Name)] {
						return fmt.Sprintf("BEFORE trigger t%d fired after AFTER trigger t%d for row a=%d", t.Name, u.Name, k)
					}
				}
			}
		}
	}
	return ""
}

// ---------------------------------------------------------------------------------------------

func ip(n int) *int { return &n }

func run(a hx.RunArgs) error {
	out := hx.NewOut(a.OutDir)
	defer out.Close()
	out.Rule = "order: trigger lists (creation order) with BEFORE/AFTER timing and FOLLOWS/PRECEDES clauses, passed to the real plan.OrderTriggers in slices " +
		"of several capacities — exhaustive for ≤3 triggers (all references, also dangling ones), exhaustive well-formed lists of 4-5 triggers, random up to 9; " +
		"stmt: audit-table triggers on the real engine (1-7 triggers of the statement's event, optional SET NEW.b, noise triggers of other events), one INSERT " +
		"(multi-row, sometimes with a duplicate key) / UPDATE / DELETE per case; a case is non-trivial when it has an ordering clause (order) or at least two triggers fired for at least one row (stmt)"
	r := hx.NewRand(a.Seed)

	orderCase := func(ts []Trig, capacity int) {
		obs := realOrder(ts, capacity)
		has := false
		for _, t := range ts {
			if t.Kind != "n" {
				has = true
			}
		}
		id := out.Case(fmt.Sprintf("(order %d%s)", capacity, func() string {
			if len(ts) == 0 {
				return ""
			}
			return " " + trigsSexp(ts)
		}()), obs, has)
		out.Stat("order")
		if wellFormed(ts) {
			out.Stat("order:well-formed")
			if msg := orderOracle(ts, obs); msg != "" {
				out.OracleFail(id, "-", msg)
			}
		}
	}
	sqlCase := func(c *SQLCase) {
		obs := ""
		if p := hx.Safe(func() { obs = runSQL(c) }); p != "" {
			obs = "crash|" + p + "|"
		}
		id := out.Case(c.Sexp(), obs, len(c.Trigs) >= 2 && strings.Count(obs, ":") > 8)
		out.Stat("stmt:" + c.Dml.Kind)
		out.Stat("stmt:outcome:" + strings.SplitN(obs, "|", 2)[0])
		if msg := sqlOracle(c, obs); msg != "" {
			out.OracleFail(id, "-", msg+" — "+c.Dml.SQL())
		}
	}

	// corpus: witnesses first
	w3 := []Trig{{1, "b", "n", 0, nil}, {2, "b", "p", 1, nil}, {3, "b", "p", 2, nil}}
	orderCase(w3, 4)
	orderCase(w3, 3)
	w5 := []Trig{{1, "b", "n", 0, nil}, {2, "b", "p", 1, nil}, {3, "b", "f", 1, nil}, {4, "b", "n", 0, nil}, {5, "b", "n", 0, nil}}
	orderCase(w5, 8)
	orderCase(w5, 5)
	wd := []Trig{{1, "b", "n", 0, nil}, {2, "b", "n", 0, nil}, {3, "b", "p", 1, nil}, {4, "b", "f", 1, nil}, {5, "b", "p", 2, nil}}
	orderCase(wd, 8) // DESIGN F-C23-a
	sqlCase(&SQLCase{Trigs: w3, Rows: []Row{{1, 10}}, Dml: Dml{Kind: "insert", Rows: []Row{{2, 20}, {3, 30}}}})
	sqlCase(&SQLCase{Trigs: w5, Rows: []Row{{1, 10}}, Dml: Dml{Kind: "insert", Rows: []Row{{2, 20}}}})
	w7 := []Trig{{1, "b", "n", 0, nil}, {2, "b", "p", 1, nil}, {3, "b", "f", 2, nil}, {4, "b", "n", 0, nil}, {5, "b", "p", 4, nil}, {6, "b", "n", 0, nil}, {7, "b", "n", 0, nil}}
	orderCase(w7, 8)
	sqlCase(&SQLCase{Trigs: w7, Rows: []Row{{1, 10}}, Dml: Dml{Kind: "insert", Rows: []Row{{2, 20}}}}) // OrderTriggers panics
	sqlCase(&SQLCase{Trigs: []Trig{{1, "b", "n", 0, ip(1)}, {2, "a", "n", 0, nil}}, Rows: []Row{{1, 10}},
		Dml: Dml{Kind: "insert", Rows: []Row{{5, 50}, {1, 1}, {6, 60}}}}) // F-C15-a / F-C23-b
	sqlCase(&SQLCase{Trigs: []Trig{{1, "b", "n", 0, ip(1)}, {2, "a", "n", 0, nil}, {3, "b", "n", 0, ip(10)}, {4, "a", "p", 2, nil}},
		Rows: []Row{{1, 10}, {2, 20}, {3, 30}}, Dml: Dml{Kind: "update", K: 100, Lo: 2}})
	sqlCase(&SQLCase{Trigs: []Trig{{1, "b", "n", 0, nil}, {2, "a", "n", 0, nil}}, Rows: []Row{{1, 10}, {2, 20}}, Dml: Dml{Kind: "delete", Lo: 2}})

	// exhaustive: n ≤ 3, every timing / clause / reference (dangling and forward references included)
	names := func(n int) []int {
		xs := make([]int, n)
		for i := range xs {
			xs[i] = i + 1
		}
		return xs
	}
	var enum func(n int, cur []Trig, wfOnly bool, timings []string, f func([]Trig))
	enum = func(n int, cur []Trig, wfOnly bool, timings []string, f func([]Trig)) {
		if len(cur) == n {
			f(append([]Trig{}, cur...))
			return
		}
		i := len(cur)
		for _, tm := range timings {
			enum(n, append(cur, Trig{Name: i + 1, Time: tm, Kind: "n"}), wfOnly, timings, f)
			for _, k := range []string{"p", "f"} {
				for _, ref := range names(n) {
					if wfOnly && ref > i {
						continue
					}
					enum(n, append(cur, Trig{Name: i + 1, Time: tm, Kind: k, Ref: ref}), wfOnly, timings, f)
				}
			}
		}
	}
	caps := func(n int) []int {
		set := map[int]bool{n: true, n + 1: true, appendCap(n): true, 2 * n: true}
		var xs []int
		for c := range set {
			if c >= n {
				xs = append(xs, c)
			}
		}
		sort.Ints(xs)
		return xs
	}
	maxAll, maxWF := 3, 5
	if a.Thorough {
		maxWF = 6
	}
	for n := 0; n <= maxAll; n++ {
		enum(n, nil, false, []string{"b", "a"}, func(ts []Trig) {
			for _, c := range caps(n) {
				orderCase(ts, c)
			}
		})
	}
	for n := 4; n <= maxWF; n++ {
		enum(n, nil, true, []string{"b"}, func(ts []Trig) {
			for _, c := range caps(n) {
				orderCase(ts, c)
			}
		})
	}
	nRand, nSQL := 3000, 500
	if a.Thorough {
		nRand, nSQL = 300000, 20000
	}
	randTrigs := func(n int, wf bool, withSet bool) []Trig {
		ts := make([]Trig, n)
		for i := range ts {
			t := Trig{Name: i + 1, Time: hx.Pick(r, []string{"b", "a", "b"}), Kind: "n"}
			if r.Chance(1, 2) && (i > 0 || !wf) {
				t.Kind = hx.Pick(r, []string{"p", "f"})
				if wf {
					var cands []int
					for _, u := range ts[:i] {
						if u.Time == t.Time {
							cands = append(cands, u.Name)
						}
					}
					if len(cands) == 0 {
						t.Kind = "n"
					} else {
						t.Ref = hx.Pick(r, cands)
					}
				} else {
					t.Ref = 1 + r.Intn(n)
				}
			}
			if withSet && t.Time == "b" && r.Chance(1, 3) {
				t.SetB = ip(1 + r.Intn(9))
			}
			ts[i] = t
		}
		return ts
	}
	for i := 0; i < nRand; i++ {
		n := 1 + r.Intn(9)
		ts := randTrigs(n, r.Chance(4, 5), false)
		orderCase(ts, n+r.Intn(n+2))
	}
	for i := 0; i < nSQL; i++ {
		c := &SQLCase{}
		ev := hx.Pick(r, []string{"insert", "update", "delete", "insert"})
		n := 1 + r.Intn(7)
		c.Trigs = randTrigs(n, true, ev != "delete")
		for k := 0; k < r.Intn(4); k++ {
			c.Rows = append(c.Rows, Row{A: (k + 1) * 2, B: r.Intn(50)})
		}
		switch ev {
		case "insert":
			used := map[int]bool{}
			for k := 0; k < 1+r.Intn(3); k++ {
				key := 1 + 2*r.Intn(6) // odd keys: fresh
				if r.Chance(1, 8) && len(c.Rows) > 0 {
					key = c.Rows[r.Intn(len(c.Rows))].A // duplicate of an existing row
				}
				if used[key] && !r.Chance(1, 6) {
					continue
				}
				used[key] = true
				c.Dml.Rows = append(c.Dml.Rows, Row{A: key, B: r.Intn(50)})
			}
			if len(c.Dml.Rows) == 0 {
				c.Dml.Rows = []Row{{A: 99, B: 1}}
			}
			c.Dml.Kind = "insert"
		case "update":
			c.Dml = Dml{Kind: "update", K: 1 + r.Intn(20), Lo: r.Intn(8)}
		default:
			c.Dml = Dml{Kind: "delete", Lo: r.Intn(8)}
		}
		// noise: a trigger of another event that must not fire
		if r.Chance(1, 3) {
			other := "DELETE"
			vals := "OLD.a,OLD.b,NULL,NULL"
			if ev == "delete" {
				other = "INSERT"
				vals = "NULL,NULL,NEW.a,NEW.b"
			}
			c.Noise = append(c.Noise, fmt.Sprintf("CREATE TRIGGER noise1 BEFORE %s ON t FOR EACH ROW INSERT INTO au(n,oa,ob,na,nb) VALUES (99,%s)", other, vals))
		}
		sqlCase(c)
	}
	return nil
}

// ---------------------------------------------------------------------------------------------

func squash(s string) string { return strings.Join(strings.Fields(s), "") }

func extract(a hx.ExtractArgs) error {
	src, err := hx.ParseSrc(a.Repo, "sql/plan/ddl_trigger.go")
	if err != nil {
		return err
	}
	asrc, err := hx.ParseSrc(a.Repo, "sql/analyzer/triggers.go")
	if err != nil {
		return err
	}
	lf := hx.NewLeanFile("Gms.Generated.C23", src.Path, asrc.Path)
	fd, err := src.Func("", "OrderTriggers")
	if err != nil {
		return err
	}
	// every assignment to orderedTriggers, in source order; the loop header; the lookup test; the split test
	var assigns, ranges, ifs []string
	ast.Inspect(fd.Body, func(n ast.Node) bool {
		switch x := n.(type) {
		case *ast.AssignStmt:
			if len(x.Lhs) == 1 && squash(src.Text(x.Lhs[0])) == "orderedTriggers" {
				assigns = append(assigns, squash(src.Text(x.Rhs[0])))
			}
		case *ast.RangeStmt:
			ranges = append(ranges, squash(src.Text(x.Key))+","+squash(src.Text(x.Value))+":=range"+squash(src.Text(x.X)))
		case *ast.IfStmt:
			ifs = append(ifs, squash(src.Text(x.Cond)))
		case *ast.CallExpr:
			if squash(src.Text(x.Fun)) == "copy" {
				assigns = append(assigns, squash(src.Text(x)))
			}
		}
		return true
	})
	if len(assigns) == 0 || len(ranges) == 0 {
		return fmt.Errorf("OrderTriggers: expected shape not found")
	}
	lf.DefStringList("orderAssigns", assigns)
	lf.DefStringList("orderRanges", ranges)
	lf.DefStringList("orderTests", ifs)

	rf, err := asrc.Func("", "orderTriggersAndReverseAfter")
	if err != nil {
		return err
	}
	var rev []string
	ast.Inspect(rf.Body, func(n ast.Node) bool {
		switch x := n.(type) {
		case *ast.ForStmt:
			rev = append(rev, "for:"+squash(asrc.Text(x.Init))+";"+squash(asrc.Text(x.Cond))+";"+squash(asrc.Text(x.Post)))
			for _, b := range x.Body.List {
				rev = append(rev, "body:"+squash(asrc.Text(b)))
			}
		case *ast.ReturnStmt:
			rev = append(rev, "return:"+squash(asrc.Text(x.Results[0])))
		}
		return true
	})
	lf.DefStringList("reverseAfter", rev)

	// applyTrigger: what a BEFORE / AFTER trigger wraps, per DML node
	at, err := asrc.Func("", "applyTrigger")
	if err != nil {
		return err
	}
	var wraps []string
	ast.Inspect(at.Body, func(n ast.Node) bool {
		cc, ok := n.(*ast.CaseClause)
		if !ok || len(cc.List) != 1 {
			return true
		}
		name := squash(asrc.Text(cc.List[0]))
		if name != "*plan.InsertInto" && name != "*plan.Update" && name != "*plan.DeleteFrom" {
			return true
		}
		found := false
		ast.Inspect(cc, func(m ast.Node) bool {
			is, ok := m.(*ast.IfStmt)
			if !ok || squash(asrc.Text(is.Cond)) != "trigger.TriggerTime==sqlparser.BeforeStr" {
				return true
			}
			arg := func(b ast.Node) string {
				res := "?"
				ast.Inspect(b, func(k ast.Node) bool {
					if call, ok := k.(*ast.CallExpr); ok && squash(asrc.Text(call.Fun)) == "plan.NewTriggerExecutor" && len(call.Args) > 0 {
						res = squash(asrc.Text(call.Args[0]))
						return false
					}
					return true
				})
				return res
			}
			if is.Else != nil {
				wraps = append(wraps, name+":before="+arg(is.Body)+":after="+arg(is.Else))
				found = true
			}
			return false
		})
		_ = found
		return false
	})
	if len(wraps) != 3 {
		return fmt.Errorf("applyTrigger: expected 3 DML cases with a BEFORE/AFTER split, found %v", wraps)
	}
	lf.DefStringList("wraps", wraps)

	// run-time fact: capacities of a trigger slice grown by single appends (as applyTriggers builds it)
	var capsList []uint64
	for n := 0; n <= 16; n++ {
		capsList = append(capsList, uint64(appendCap(n)))
	}
	lf.DefNatList("appendCaps", capsList)
	return lf.Write(a.Out)
}
