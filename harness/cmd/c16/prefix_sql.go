package main

// SQL-level part of C16 for PREFIX indexes: the statements that rewrite a row under its own primary
// key — UPDATE, REPLACE, INSERT … ON DUPLICATE KEY UPDATE — run through the whole engine (parser,
// planner, the DML nodes and their table editor) on
//
//	CREATE TABLE t (id BIGINT PRIMARY KEY, s VARCHAR(32), w BIGINT, KEY ks (s(P)), KEY kws (w, s(Q)))
//
// with new values of `s` that differ from the stored one only behind the prefix, inside it, or are
// shorter than it; mixed with inserts, deletes, primary-key changes and drop + re-create of the
// prefix index. As in ddl.go the cases have no Impl model (payload `(sql …)`); the property is
// evaluated on the real code alone: after every statement, for every value of `s` stored now or
// earlier in the history, the index-driven reads `s = v` and `w = k AND s = v` must return what the
// same predicates return when the planner cannot use an index (`CONCAT(s, '') = v`, `w + 0 = k`).

import (
	"fmt"
	"sort"
	"strings"

	"github.com/dolthub/go-mysql-server/verifharness/hx"
	"github.com/dolthub/go-mysql-server/verifharness/hx/eng"
	mi "github.com/dolthub/go-mysql-server/verifharness/memidx"
)

var pfxSQLCorpus = [][]string{
	// the three rewriting statements with the change behind the prefix (P = 3, Q = 2)
	{"ins:1:abcab:1", "ins:2:abcb:1", "ins:3:ab:2", "upd:2:abcc", "rep:1:abcaa:1", "odku:3:abb:2", "odku:2:abcca:1", "del:1", "upd:3:a"},
	{"ins:1:abcab:1", "ins:2:abcab:2", "pk:1:5", "upd:5:abca", "reidx", "upd:5:abcac", "rep:2:abc:2"},
}

func runPfxSQL(a hx.RunArgs, out *hx.Out, r *hx.Rand) error {
	n := 16
	if a.Thorough {
		n = 400
	}
	for c := 0; c < n; c++ {
		cr := r.Fork()
		e := eng.New("d")
		ctx := e.Ctx()
		var script []string
		exec := func(q string) *eng.Res {
			script = append(script, q)
			return e.Query(eng.SameSession(ctx), q)
		}
		p, q := cr.Range(1, 4), cr.Range(1, 3)
		if c < len(pfxSQLCorpus) {
			p, q = 3, 2
		}
		exec(fmt.Sprintf("CREATE TABLE t (id BIGINT PRIMARY KEY, s VARCHAR(32), w BIGINT, KEY ks (s(%d)), KEY kws (w, s(%d)))", p, q))
		type rec struct {
			s string
			w int64
		}
		rows := map[int64]rec{}
		ever := map[string]bool{}
		var fails []string
		ids := func() []int64 {
			var ks []int64
			for k := range rows {
				ks = append(ks, k)
			}
			sort.Slice(ks, func(i, j int) bool { return ks[i] < ks[j] })
			return ks
		}
		check := func(after string) {
			vals := make([]string, 0, len(ever))
			for v := range ever {
				vals = append(vals, v)
			}
			sort.Strings(vals)
			for _, v := range vals {
				pairs := [][2]string{{fmt.Sprintf("SELECT id FROM t WHERE s = '%s'", v), fmt.Sprintf("SELECT id FROM t WHERE CONCAT(s, '') = '%s'", v)}}
				for w := int64(0); w < 3; w++ {
					pairs = append(pairs, [2]string{fmt.Sprintf("SELECT id FROM t WHERE w = %d AND s = '%s'", w, v),
						fmt.Sprintf("SELECT id FROM t WHERE w + 0 = %d AND CONCAT(s, '') = '%s'", w, v)})
				}
				for _, pq := range pairs {
					ri, rs := e.Query(eng.SameSession(ctx), pq[0]), e.Query(eng.SameSession(ctx), pq[1])
					out.Stat("pfxsql:read")
					if ci, cs := eng.Canon(ri, false), eng.Canon(rs, false); ci != cs {
						fails = append(fails, fmt.Sprintf("after %q: %s -> %s but %s -> %s", after, pq[0], ci, pq[1], cs))
						return
					}
				}
			}
		}
		steps := cr.Range(5, 10)
		if c < len(pfxSQLCorpus) {
			steps = len(pfxSQLCorpus[c])
		}
		rewrites := 0
		for i := 0; i < steps && len(fails) == 0; i++ {
			var kind string
			var id int64
			var s string
			var w int64
			if c < len(pfxSQLCorpus) {
				parts := strings.Split(pfxSQLCorpus[c][i], ":")
				kind = parts[0]
				if len(parts) > 1 {
					fmt.Sscan(parts[1], &id)
				}
				if len(parts) > 2 {
					s = parts[2]
				}
				if len(parts) > 3 {
					fmt.Sscan(parts[3], &w)
				}
				if kind == "pk" {
					fmt.Sscan(parts[2], &w)
				}
			} else {
				kind = hx.Pick(cr, []string{"ins", "ins", "upd", "upd", "rep", "odku", "del", "pk", "reidx"})
				if len(rows) == 0 {
					kind = "ins"
				}
				if kind == "ins" {
					id = int64(cr.Intn(10))
					s, w = mi.StrVal(cr).S, int64(cr.Intn(3))
				} else if kind != "reidx" {
					id = hx.Pick(cr, ids())
					old := rows[id]
					w = old.w
					keep := p
					if q > keep {
						keep = q
					}
					if cr.Chance(2, 3) {
						s = mi.TailMutation(cr, mi.Val{IsStr: true, S: old.s}, keep).S
					} else {
						s = mi.StrVal(cr).S
					}
					if kind == "pk" {
						w = int64(cr.Intn(10))
					}
				}
			}
			var sqlq string
			switch kind {
			case "ins":
				if _, dup := rows[id]; dup {
					continue
				}
				sqlq = fmt.Sprintf("INSERT INTO t VALUES (%d, '%s', %d)", id, s, w)
				rows[id] = rec{s, w}
			case "upd":
				sqlq = fmt.Sprintf("UPDATE t SET s = '%s' WHERE id = %d", s, id)
				rows[id] = rec{s, rows[id].w}
				rewrites++
			case "rep":
				sqlq = fmt.Sprintf("REPLACE INTO t VALUES (%d, '%s', %d)", id, s, w)
				rows[id] = rec{s, w}
				rewrites++
			case "odku":
				sqlq = fmt.Sprintf("INSERT INTO t VALUES (%d, 'zz', 0) ON DUPLICATE KEY UPDATE s = '%s'", id, s)
				rows[id] = rec{s, rows[id].w}
				rewrites++
			case "del":
				sqlq = fmt.Sprintf("DELETE FROM t WHERE id = %d", id)
				delete(rows, id)
			case "pk":
				if _, dup := rows[w]; dup {
					continue
				}
				sqlq = fmt.Sprintf("UPDATE t SET id = %d WHERE id = %d", w, id)
				rows[w] = rows[id]
				delete(rows, id)
			case "reidx":
				res := exec("DROP INDEX ks ON t")
				if res.Class() != "ok" {
					fails = append(fails, fmt.Sprintf("DROP INDEX ks -> %s %v %s", res.Class(), res.Err, res.Panic))
					continue
				}
				sqlq = fmt.Sprintf("CREATE INDEX ks ON t (s(%d))", p)
			}
			for _, rw := range rows {
				ever[rw.s] = true
			}
			res := exec(sqlq)
			out.Stat("pfxsql:" + kind + ":" + res.Class())
			if cls := res.Class(); cls != "ok" {
				fails = append(fails, fmt.Sprintf("%q -> %s %v %s", sqlq, cls, res.Err, res.Panic))
				break
			}
			check(sqlq)
		}
		id := out.Case(hx.List("sql", hx.HexS(strings.Join(script, "; "))), "sql", rewrites > 0 && len(rows) > 0)
		if len(fails) > 0 {
			out.OracleFail(id, "-", strings.Join(script, "; ")+" :: "+strings.Join(fails, " | "))
		}
	}
	return nil
}
