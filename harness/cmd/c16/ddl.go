package main

// SQL-level DDL part of C16: index naming. `TableData.indexes` is keyed by the lower-cased name,
// `secondaryIndexStorage` by the name as written (lean/Gms/Model/MemIndexDdl.lean). These cases
// have no Impl model in the correspondence (payload `(sql …)`); the property is evaluated on the
// real code alone: after every statement, every index-driven read must equal the scan-driven one,
// and no statement may crash.
//
// Regions (decided on the case):
//   drop_index_keeps_storage_of_mixed_case_name — the history drops an index whose name has an
//       upper-case letter from a table that holds rows;
//   rename_index_keeps_storage_key — the history renames an index of a table that holds rows.
// Everything else (lower-case names, create / drop / re-create, rename on an empty table) must hold.

import (
	"fmt"
	"strings"

	"github.com/dolthub/go-mysql-server/verifharness/hx"
	"github.com/dolthub/go-mysql-server/verifharness/hx/eng"
)

var ddlCorpus = [][]string{
	{"create:KV:v", "drop:KV", "insert"},
	{"create:kv:v", "drop:kv", "insert", "create:kv:w", "delete"},
	{"create:kv:v", "rename:kv:kw", "insert"},
	{"create:kv:v", "insert", "delete", "update"},
	{"create:Idx_A:w", "insert", "update", "delete"},
	{"create:KV:v", "create:kw:w", "drop:kw", "insert"},
}

func hasUpper(s string) bool { return strings.ToLower(s) != s }

func runDDL(a hx.RunArgs, out *hx.Out, r *hx.Rand) error {
	n := 30
	if a.Thorough {
		n = 600
	}
	namePool := []string{"kv", "idx_a", "KV", "Idx_A", "kV2", "byv"}
	for c := 0; c < n; c++ {
		cr := r.Fork()
		e := eng.New("d")
		ctx := e.Ctx()
		var script []string
		region := "-"
		exec := func(q string) *eng.Res {
			script = append(script, q)
			return e.Query(eng.SameSession(ctx), q)
		}
		keyless := cr.Chance(1, 5)
		if keyless {
			exec("CREATE TABLE t (id BIGINT, v BIGINT, w BIGINT)")
		} else {
			exec("CREATE TABLE t (id BIGINT PRIMARY KEY, v BIGINT, w BIGINT)")
		}
		nrows := cr.Intn(5)
		if c < len(ddlCorpus) {
			nrows = 3
		}
		rows := map[int64][2]int64{}
		nextID := int64(1)
		insert := func() *eng.Res {
			id := nextID
			nextID++
			v, w := int64(cr.Intn(4)), int64(cr.Intn(4))
			res := exec(fmt.Sprintf("INSERT INTO t VALUES (%d, %d, %d)", id, v, w))
			if res.Class() == "ok" {
				rows[id] = [2]int64{v, w}
			}
			return res
		}
		for i := 0; i < nrows; i++ {
			insert()
		}
		live := map[string]string{} // index name -> column
		var fails []string
		check := func(after string) {
			// index-driven vs scan-driven (IGNORE INDEX is not needed: `v + 0` defeats the index)
			for _, col := range []string{"v", "w"} {
				for val := int64(0); val < 4; val++ {
					qi := fmt.Sprintf("SELECT id FROM t WHERE %s = %d", col, val)
					qs := fmt.Sprintf("SELECT id FROM t WHERE %s + 0 = %d", col, val)
					ri, rs := e.Query(eng.SameSession(ctx), qi), e.Query(eng.SameSession(ctx), qs)
					out.Stat("ddl:read")
					if ci, cs := eng.Canon(ri, false), eng.Canon(rs, false); ci != cs {
						fails = append(fails, fmt.Sprintf("after %q: %s -> %s but %s -> %s", after, qi, ci, qs, cs))
						return
					}
				}
			}
		}
		steps := cr.Range(3, 8)
		if c < len(ddlCorpus) {
			steps = len(ddlCorpus[c])
		}
		kinds := []string{"create", "create", "drop", "rename", "insert", "insert", "delete", "update"}
		for i := 0; i < steps && len(fails) == 0; i++ {
			kind := hx.Pick(cr, kinds)
			if c < len(ddlCorpus) { // regression corpus first: the two witnesses and their well-behaved twins
				kind = ddlCorpus[c][i]
			}
			parts := strings.Split(kind, ":")
			var res *eng.Res
			var q string
			switch parts[0] {
			case "create":
				name, col := hx.Pick(cr, namePool), hx.Pick(cr, []string{"v", "w"})
				if len(parts) == 3 {
					name, col = parts[1], parts[2]
				}
				dup := false
				for k := range live {
					if strings.EqualFold(k, name) {
						dup = true
					}
				}
				if dup {
					continue
				}
				q = fmt.Sprintf("CREATE INDEX %s ON t (%s)", name, col)
				res = exec(q)
				if res.Class() == "ok" {
					live[name] = col
				}
			case "drop":
				name := ""
				if len(parts) == 2 {
					name = parts[1]
				} else {
					ks := sortedKeys(live)
					if len(ks) == 0 {
						continue
					}
					name = hx.Pick(cr, ks)
				}
				if _, ok := live[name]; !ok {
					continue
				}
				q = fmt.Sprintf("DROP INDEX %s ON t", name)
				if hasUpper(name) && region == "-" {
					region = regionDrop
				}
				res = exec(q)
				if res.Class() == "ok" {
					delete(live, name)
				}
			case "rename":
				ks := sortedKeys(live)
				if len(ks) == 0 {
					continue
				}
				from := hx.Pick(cr, ks)
				to := from + "r"
				if len(parts) == 3 {
					from, to = parts[1], parts[2]
				}
				if _, ok := live[from]; !ok {
					continue
				}
				q = fmt.Sprintf("ALTER TABLE t RENAME INDEX %s TO %s", from, to)
				if region == "-" {
					region = regionRename
				}
				res = exec(q)
				if res.Class() == "ok" {
					live[to] = live[from]
					delete(live, from)
				}
			case "insert":
				res = insert()
				q = script[len(script)-1]
			case "delete":
				if len(rows) == 0 {
					continue
				}
				var id int64
				for k := range rows {
					if id == 0 || k < id {
						id = k
					}
				}
				q = fmt.Sprintf("DELETE FROM t WHERE id = %d", id)
				res = exec(q)
				if res.Class() == "ok" {
					delete(rows, id)
				}
			case "update":
				if len(rows) == 0 {
					continue
				}
				q = fmt.Sprintf("UPDATE t SET v = v + 1, w = %d WHERE id >= 0", cr.Intn(4))
				res = exec(q)
			}
			out.Stat("ddl:" + parts[0] + ":" + res.Class())
			if cls := res.Class(); cls != "ok" {
				fails = append(fails, fmt.Sprintf("%q -> %s %v %s", q, cls, res.Err, res.Panic))
				break
			}
			check(q)
		}
		id := out.Case(hx.List("sql", hx.HexS(strings.Join(script, "; "))), "sql", len(live) > 0 && len(rows) > 0)
		if len(fails) > 0 {
			out.OracleFail(id, region, strings.Join(script, "; ")+" :: "+strings.Join(fails, " | "))
		}
	}
	return nil
}

func sortedKeys(m map[string]string) []string {
	var ks []string
	for k := range m {
		ks = append(ks, k)
	}
	// insertion sort (tiny)
	for i := 1; i < len(ks); i++ {
		for j := i; j > 0 && ks[j] < ks[j-1]; j-- {
			ks[j], ks[j-1] = ks[j-1], ks[j]
		}
	}
	return ks
}
