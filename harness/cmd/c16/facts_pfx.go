package main

// Facts about WHO writes the index storage and WHERE prefix-truncated comparison is used.
//
// The models transliterate the functions that write `secondaryIndexStorage` (MemIndex.lean) and the
// theorems of Props/C16.lean (`idxInv_*`) are about exactly those writers; `idxInv_rewrite` says what
// any further writer that rewrites a storage row in place must satisfy. The storage keeps FULL column
// values (`extVals`, `extVals_ignores_pfx`), and `columnsMatch` with prefix lengths is not equality
// of stored keys (`prefix_match_is_not_key_equality`): it may only serve the unique-key lookups.

import (
	"go/ast"
	"path/filepath"
	"sort"
	"strings"

	"github.com/dolthub/go-mysql-server/verifharness/hx"
)

func funcName(fd *ast.FuncDecl, src *hx.Src) string {
	if fd.Recv != nil && len(fd.Recv.List) == 1 {
		t := src.Text(fd.Recv.List[0].Type)
		return strings.TrimPrefix(t, "*") + "." + fd.Name.Name
	}
	return fd.Name.Name
}

// storageWriters lists the functions that assign to (an element of) `secondaryIndexStorage`, to a
// local alias of one of its slices, or delete from it.
func storageWriters(srcs ...*hx.Src) []string {
	seen := map[string]bool{}
	for _, src := range srcs {
		for _, decl := range src.File.Decls {
			fd, ok := decl.(*ast.FuncDecl)
			if !ok || fd.Body == nil {
				continue
			}
			alias := map[string]bool{}
			writes := false
			ast.Inspect(fd.Body, func(n ast.Node) bool {
				switch x := n.(type) {
				case *ast.AssignStmt:
					for i, l := range x.Lhs {
						lt := src.Text(l)
						if strings.Contains(lt, "secondaryIndexStorage") {
							writes = true
						}
						if ie, ok := l.(*ast.IndexExpr); ok && alias[src.Text(ie.X)] {
							writes = true
						}
						if id, ok := l.(*ast.Ident); ok && i < len(x.Rhs) {
							if ie, ok := x.Rhs[i].(*ast.IndexExpr); ok && strings.Contains(src.Text(ie.X), "secondaryIndexStorage") {
								alias[id.Name] = true
							}
						}
					}
				case *ast.CallExpr:
					if src.Text(x.Fun) == "delete" && len(x.Args) == 2 && strings.Contains(src.Text(x.Args[0]), "secondaryIndexStorage") {
						writes = true
					}
				}
				return true
			})
			if writes {
				seen[filepath.Base(src.Path)+":"+funcName(fd, src)] = true
			}
		}
	}
	var out []string
	for k := range seen {
		out = append(out, k)
	}
	sort.Strings(out)
	return out
}

// prefixCompareUsers lists the functions that call `columnsMatch` with prefix lengths (second
// argument other than nil), as "func:argument".
func prefixCompareUsers(srcs ...*hx.Src) []string {
	seen := map[string]bool{}
	for _, src := range srcs {
		for _, decl := range src.File.Decls {
			fd, ok := decl.(*ast.FuncDecl)
			if !ok || fd.Body == nil {
				continue
			}
			ast.Inspect(fd.Body, func(n ast.Node) bool {
				ce, ok := n.(*ast.CallExpr)
				if ok && src.Text(ce.Fun) == "columnsMatch" && len(ce.Args) >= 2 && src.Text(ce.Args[1]) != "nil" {
					seen[funcName(fd, src)+":"+src.Text(ce.Args[1])] = true
				}
				return true
			})
		}
	}
	var out []string
	for k := range seen {
		out = append(out, k)
	}
	sort.Strings(out)
	return out
}

// storedKeyPrefixRefs lists the references to prefix lengths inside the functions that build a
// storage row (`rowToIndexStorage`, `ExtendedExprs`); "none" when there are none (full values).
func storedKeyPrefixRefs(ix *hx.Src) ([]string, error) {
	var out []string
	for _, name := range []string{"rowToIndexStorage", "ExtendedExprs"} {
		fd, err := ix.Func("Index", name)
		if err != nil {
			return nil, err
		}
		ast.Inspect(fd.Body, func(n ast.Node) bool {
			if se, ok := n.(*ast.SelectorExpr); ok && strings.Contains(se.Sel.Name, "Prefix") {
				out = append(out, name+":"+ix.Text(se))
			}
			return true
		})
	}
	if len(out) == 0 {
		out = []string{"none"}
	}
	return out, nil
}
