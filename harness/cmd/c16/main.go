// C16 — Indexes stay consistent with table data across histories.
//
// extract: how the source forms the keys of `indexes` / `secondaryIndexStorage` in CreateIndex,
//
//	DropIndex, RenameIndex, the index scan, addRowToIndexes and sortSecondaryIndexes; the
//	renumbering comparisons of deleteRowFromIndexes; the relocation done by
//	partitionssort.Swap; the dangling-location guard of indexScanRowIter; the order of
//	ApplyEdits; what truncate resets; which functions write secondaryIndexStorage; who calls
//	columnsMatch with prefix lengths; that a storage row is built without them (go/ast).
//
// run:     (a) histories of editor-level statements (Insert / Update / Delete / IndexedAccess calls
//
//	through the real TableEditorIter + tableEditor), TRUNCATE, CREATE [UNIQUE] INDEX on
//	existing data and DROP INDEX (through Engine.Query) on partitioned tables with
//	secondary, unique and multi-column indexes; one third of the tables have VARCHAR
//	columns under PREFIX indexes (`KEY (s(3))`, `(w, s(2))`) and their statements rewrite
//	rows under their own key (Update; Delete+Insert as REPLACE does) with the indexed string
//	changed behind the prefix, inside it, or to a value shorter than it; after every step partitions and
//	secondaryIndexStorage are dumped and compared with the Impl model; model-free oracle:
//	every index holds exactly one storage row per stored row, pointing at it, storage is
//	sorted, and every index-driven SQL read (equality on each key present, NULL, ranges,
//	ORDER BY) equals the same read computed from a scan of the dumped rows.
//	(b) SQL-level DDL cases for the two naming defects (DROP INDEX of a name with upper-case
//	letters, RENAME INDEX): model-free oracle, regions decided on the case.
package main

import (
	"fmt"
	"go/ast"
	"sort"
	"strconv"
	"strings"

	"github.com/sirupsen/logrus"

	"github.com/dolthub/go-mysql-server/verifharness/hx"
	"github.com/dolthub/go-mysql-server/verifharness/hx/eng"
	mi "github.com/dolthub/go-mysql-server/verifharness/memidx"
	m "github.com/dolthub/go-mysql-server/verifharness/memtbl"
)

func main() { hx.Main(extract, run) }

// ---------------------------------------------------------------------------------------------
// facts

func set(xs ...string) map[string]bool {
	o := map[string]bool{}
	for _, x := range xs {
		o[x] = true
	}
	return o
}

// indexExprs lists the texts of index expressions `base[key]` for the wanted bases, in source order,
// rendered as base[key].
func indexExprs(src *hx.Src, body ast.Node, bases map[string]bool) []string {
	var out []string
	ast.Inspect(body, func(n ast.Node) bool {
		ie, ok := n.(*ast.IndexExpr)
		if !ok {
			return true
		}
		b := src.Text(ie.X)
		if bases[b] {
			out = append(out, b+"["+src.Text(ie.Index)+"]")
		}
		return true
	})
	return out
}

// deletesIn lists `delete(m, k)` calls as "m<-k".
func deletesIn(src *hx.Src, body ast.Node) []string {
	var out []string
	ast.Inspect(body, func(n ast.Node) bool {
		ce, ok := n.(*ast.CallExpr)
		if !ok || src.Text(ce.Fun) != "delete" || len(ce.Args) != 2 {
			return true
		}
		out = append(out, src.Text(ce.Args[0])+"<-"+src.Text(ce.Args[1]))
		return true
	})
	return out
}

func extract(a hx.ExtractArgs) error {
	te, err := hx.ParseSrc(a.Repo, "memory/table_editor.go")
	if err != nil {
		return err
	}
	td, err := hx.ParseSrc(a.Repo, "memory/table_data.go")
	if err != nil {
		return err
	}
	tb, err := hx.ParseSrc(a.Repo, "memory/table.go")
	if err != nil {
		return err
	}
	ix, err := hx.ParseSrc(a.Repo, "memory/index.go")
	if err != nil {
		return err
	}
	lf := hx.NewLeanFile("Gms.Generated.C16", te.Path, td.Path, tb.Path, ix.Path)
	need := func(name string, xs []string) error {
		if len(xs) == 0 {
			return fmt.Errorf("%s: expected shape not found", name)
		}
		lf.DefStringList(name, xs)
		return nil
	}
	storage := set("table.secondaryIndexStorage", "data.secondaryIndexStorage", "td.secondaryIndexStorage")
	idxmap := set("data.indexes", "td.indexes", "table.indexes")

	fn, err := te.Func("", "addRowToIndexes")
	if err != nil {
		return err
	}
	if err := need("addStorageKeys", indexExprs(te, fn.Body, storage)); err != nil {
		return err
	}
	fn, err = te.Func("", "deleteRowFromIndexes")
	if err != nil {
		return err
	}
	if err := need("delStorageKeys", indexExprs(te, fn.Body, storage)); err != nil {
		return err
	}
	// the two conditions of deleteRowFromIndexes and the renumbering expression
	var conds []string
	ast.Inspect(fn.Body, func(n ast.Node) bool {
		if ifs, ok := n.(*ast.IfStmt); ok {
			conds = append(conds, te.Text(ifs.Cond))
		}
		return true
	})
	if err := need("delConds", conds); err != nil {
		return err
	}
	var renum []string
	ast.Inspect(fn.Body, func(n ast.Node) bool {
		as, ok := n.(*ast.AssignStmt)
		if ok && len(as.Lhs) == 1 && te.Text(as.Lhs[0]) == "idxRow[len(idxRow)-1]" {
			renum = append(renum, te.Text(as.Rhs[0]))
		}
		return true
	})
	if err := need("delRenumber", renum); err != nil {
		return err
	}

	fn, err = td.Func("TableData", "sortSecondaryIndexes")
	if err != nil {
		return err
	}
	var rng []string
	ast.Inspect(fn.Body, func(n ast.Node) bool {
		if rs, ok := n.(*ast.RangeStmt); ok && len(rng) == 0 {
			rng = append(rng, td.Text(rs.X))
		}
		return true
	})
	if err := need("sortSecRange", rng); err != nil {
		return err
	}
	if err := need("sortSecIndexLookup", indexExprs(td, fn.Body, idxmap)); err != nil {
		return err
	}
	sortKind := []string{}
	ast.Inspect(fn.Body, func(n ast.Node) bool {
		if ce, ok := n.(*ast.CallExpr); ok {
			if t := td.Text(ce.Fun); strings.HasPrefix(t, "sort.") {
				sortKind = append(sortKind, t)
			}
		}
		return true
	})
	if err := need("sortSecCall", sortKind); err != nil {
		return err
	}
	fn, err = td.Func("TableData", "truncate")
	if err != nil {
		return err
	}
	var resets []string
	ast.Inspect(fn.Body, func(n ast.Node) bool {
		as, ok := n.(*ast.AssignStmt)
		if ok && len(as.Lhs) == 1 {
			l := td.Text(as.Lhs[0])
			if l == "td.secondaryIndexStorage" || l == "td.partitions" {
				resets = append(resets, l+" = "+td.Text(as.Rhs[0]))
			}
		}
		return true
	})
	if err := need("truncateResets", resets); err != nil {
		return err
	}

	fn, err = tb.Func("Table", "CreateIndex")
	if err != nil {
		return err
	}
	if err := need("createIndexKeys", indexExprs(tb, fn.Body, idxmap)); err != nil {
		return err
	}
	fn, err = tb.Func("Table", "DropIndex")
	if err != nil {
		return err
	}
	if err := need("dropIndexDeletes", deletesIn(tb, fn.Body)); err != nil {
		return err
	}
	var dropRange []string
	ast.Inspect(fn.Body, func(n ast.Node) bool {
		if rs, ok := n.(*ast.RangeStmt); ok {
			dropRange = append(dropRange, tb.Text(rs.Key)+" := range "+tb.Text(rs.X))
		}
		return true
	})
	if err := need("dropIndexRange", dropRange); err != nil {
		return err
	}
	fn, err = tb.Func("Table", "RenameIndex")
	if err != nil {
		return err
	}
	var ren []string
	ren = append(ren, deletesIn(tb, fn.Body)...)
	ast.Inspect(fn.Body, func(n ast.Node) bool {
		as, ok := n.(*ast.AssignStmt)
		if ok && len(as.Lhs) == 1 && len(as.Rhs) == 1 {
			l := tb.Text(as.Lhs[0])
			if strings.HasPrefix(l, "data.") || strings.HasSuffix(l, ".Name") {
				ren = append(ren, l+" = "+tb.Text(as.Rhs[0]))
			}
		}
		return true
	})
	if err := need("renameIndexEffects", ren); err != nil {
		return err
	}
	fn, err = tb.Func("Table", "PartitionRows")
	if err != nil {
		return err
	}
	if err := need("scanStorageKey", indexExprs(tb, fn.Body, storage)); err != nil {
		return err
	}
	fn, err = tb.Func("indexScanRowIter", "Next")
	if err != nil {
		return err
	}
	var skip []string
	ast.Inspect(fn.Body, func(n ast.Node) bool {
		ifs, ok := n.(*ast.IfStmt)
		if !ok || len(ifs.Body.List) != 1 {
			return true
		}
		if bs, ok := ifs.Body.List[0].(*ast.BranchStmt); ok && bs.Tok.String() == "continue" {
			skip = append(skip, tb.Text(ifs.Cond))
		}
		return true
	})
	if err := need("scanSkipsWhen", skip); err != nil {
		return err
	}
	fn, err = tb.Func("partitionssort", "Swap")
	if err != nil {
		return err
	}
	var sw []string
	ast.Inspect(fn.Body, func(n ast.Node) bool {
		ifs, ok := n.(*ast.IfStmt)
		if !ok {
			return true
		}
		sw = append(sw, tb.Text(ifs.Cond))
		return true
	})
	if err := need("swapConds", sw); err != nil {
		return err
	}
	fn, err = ix.Func("Index", "rowToIndexStorage")
	if err != nil {
		return err
	}
	var locAt []string
	ast.Inspect(fn.Body, func(n ast.Node) bool {
		as, ok := n.(*ast.AssignStmt)
		if ok && len(as.Lhs) == 1 && strings.HasPrefix(ix.Text(as.Lhs[0]), "newRow[") {
			if cl, ok := as.Rhs[0].(*ast.CompositeLit); ok && ix.Text(cl.Type) == "primaryRowLocation" {
				locAt = append(locAt, ix.Text(as.Lhs[0]))
			}
		}
		return true
	})
	if err := need("locationStoredAt", locAt); err != nil {
		return err
	}
	var ext []string
	ast.Inspect(fn.Body, func(n ast.Node) bool {
		if ce, ok := n.(*ast.CallExpr); ok {
			if t := ix.Text(ce.Fun); t == "idx.ExtendedExprs" {
				ext = append(ext, t)
			}
		}
		return true
	})
	if err := need("storageUses", ext); err != nil {
		return err
	}
	for _, p := range [][2]string{{"pkTableEditAccumulator", "pkApplyEdits"}, {"keylessTableEditAccumulator", "klApplyEdits"}} {
		fd, err := te.Func(p[0], "ApplyEdits")
		if err != nil {
			return err
		}
		if err := need(p[1], m.CallSeq(te, fd, set("deleteHelper", "insertHelper", "tableData.sortRows", "tableData.sortSecondaryIndexes"))); err != nil {
			return err
		}
	}
	for _, p := range [][2]string{{"pkTableEditAccumulator", "pkHelperCalls"}, {"keylessTableEditAccumulator", "klHelperCalls"}} {
		var s []string
		for _, h := range []string{"deleteHelper", "insertHelper"} {
			fd, err := te.Func(p[0], h)
			if err != nil {
				return err
			}
			for _, c := range m.CallSeq(te, fd, set("deleteRowFromIndexes", "addRowToIndexes")) {
				s = append(s, h+":"+c)
			}
		}
		if err := need(p[1], s); err != nil {
			return err
		}
	}
	if err := need("storageWriters", storageWriters(te, td, tb, ix)); err != nil {
		return err
	}
	if err := need("prefixCompareUsers", prefixCompareUsers(te, td, tb, ix)); err != nil {
		return err
	}
	refs, err := storedKeyPrefixRefs(ix)
	if err != nil {
		return err
	}
	if err := need("storedKeyPrefixRefs", refs); err != nil {
		return err
	}
	return lf.Write(a.Out)
}

// ---------------------------------------------------------------------------------------------
// run

const (
	regionShared = "index_rows_shared_with_snapshot"
	regionDrop   = "drop_index_keeps_storage_of_mixed_case_name"
	regionRename = "rename_index_keeps_storage_key"
)

type step struct {
	kind string // s | trunc | mkidx | rmidx
	st   mi.Stmt
	d    mi.IdxDef
	j    int
}

func ints(xs []int) string { return hx.ListOf(xs, strconv.Itoa) }

func (s step) Sexp() string {
	switch s.kind {
	case "s":
		return hx.List("s", s.st.Sexp())
	case "trunc":
		return "(trunc)"
	case "mkidx":
		u := "0"
		if s.d.Unique {
			u = "1"
		}
		if s.d.HasPrefix() {
			return hx.List("mkidx", ints(s.d.Cols), u, s.d.PrefixSexp())
		}
		return hx.List("mkidx", ints(s.d.Cols), u)
	}
	return hx.List("rmidx", strconv.Itoa(s.j))
}

func payload(env mi.Env, tb *mi.Table, steps []step) string {
	// reuse memidx.Payload for the env part
	p := mi.Payload(env, tb.PM, tb.PMK, nil)
	i := strings.LastIndex(p, " (stmts")
	items := []string{"steps"}
	for _, s := range steps {
		items = append(items, s.Sexp())
	}
	return p[:i] + " " + hx.List(items...)
}

// lit renders a value as an SQL literal (strings are over [a-c]).
func lit(v mi.Val) string {
	switch {
	case v.Null:
		return "NULL"
	case v.IsStr:
		return "'" + v.S + "'"
	}
	return strconv.FormatInt(v.I, 10)
}

// withPrefixes gives the string columns of an index a prefix length (mostly), and keeps unique
// indexes off string columns (unique checks over prefixes belong to C14).
func withPrefixes(r *hx.Rand, env mi.Env, d mi.IdxDef) mi.IdxDef {
	d.Prefix = make([]int, len(d.Cols))
	for j, c := range d.Cols {
		if env.IsStr(c) {
			d.Unique = false
			if r.Chance(4, 5) {
				d.Prefix[j] = r.Range(1, 4)
			}
		}
	}
	if !d.HasPrefix() {
		d.Prefix = nil
	}
	return d
}

// genStrEnv: a keyed (mostly) table with BIGINT key columns, at least one VARCHAR column and
// indexes over the string columns, most of them prefix indexes (`KEY (s(3))`, `(w, s(2))`).
func genStrEnv(r *hx.Rand) mi.Env {
	n := r.Range(3, 4)
	e := mi.Env{NCols: n, NParts: r.Range(1, 3), Str: make([]bool, n)}
	if !r.Chance(1, 8) {
		e.PK = []int{r.Intn(n)}
	}
	var strs []int
	for c := 0; c < n; c++ {
		if !e.IsPK(c) && (len(strs) == 0 || r.Chance(1, 2)) {
			e.Str[c] = true
			strs = append(strs, c)
		}
	}
	ni := r.Range(1, 2)
	for i := 0; i < ni; i++ {
		s := hx.Pick(r, strs)
		d := mi.IdxDef{Cols: []int{s}}
		if r.Chance(1, 2) { // multi-column: (w, s(k)) or (s(k), w)
			b := r.Intn(n - 1)
			if b >= s {
				b++
			}
			if r.Chance(1, 2) {
				d.Cols = []int{b, s}
			} else {
				d.Cols = []int{s, b}
			}
		}
		e.Idx = append(e.Idx, withPrefixes(r, e, d))
	}
	return e
}

func lessVal(a, b mi.Val) bool { // NULL first
	switch {
	case a.Null && b.Null:
		return false
	case a.Null:
		return true
	case b.Null:
		return false
	}
	return a.I < b.I
}

// sqlReads evaluates the property on the real engine: for every index, reads that the planner
// drives through it, compared with the same read computed from the dumped rows.
func sqlReads(tb *mi.Table, env mi.Env, rows []mi.Row, out *hx.Out) []string {
	var bad []string
	e := tb.E
	ctx := e.Ctx()
	cols := make([]string, env.NCols)
	for i := range cols {
		cols[i] = "c" + strconv.Itoa(i)
	}
	render := func(rs []mi.Row) string {
		s := make([]string, len(rs))
		for i, r := range rs {
			s[i] = r.Sexp()
		}
		sort.Strings(s)
		return strings.Join(s, " ")
	}
	check := func(q string, pred func(mi.Row) bool) {
		res := e.Query(eng.SameSession(ctx), q)
		out.Stat("read")
		if res.Class() != "ok" {
			bad = append(bad, fmt.Sprintf("%s -> %s %v %s", q, res.Class(), res.Err, res.Panic))
			return
		}
		var got []mi.Row
		for i, r := range res.Rows {
			row := make(mi.Row, len(r))
			for j, c := range r {
				if res.Null[i][j] {
					row[j] = m.Null
				} else {
					n, err := strconv.ParseInt(c, 10, 64)
					if err != nil || env.IsStr(j) {
						row[j] = m.Str(c)
					} else {
						row[j] = m.Int(n)
					}
				}
			}
			got = append(got, row)
		}
		var want []mi.Row
		for _, r := range rows {
			if pred(r) {
				want = append(want, r)
			}
		}
		if g, w := render(got), render(want); g != w {
			bad = append(bad, fmt.Sprintf("%s returned %s, a scan of the stored rows gives %s", q, g, w))
		}
	}
	sel := "SELECT " + strings.Join(cols, ", ") + " FROM " + tb.Name
	for _, d := range env.Idx {
		c0 := d.Cols[0]
		str0 := env.IsStr(c0)
		seen := map[mi.Val]bool{}
		for _, r := range rows {
			v := r[c0]
			if v.Null || seen[v] {
				continue
			}
			seen[v] = true
			val := v
			check(fmt.Sprintf("%s WHERE %s = %s", sel, cols[c0], lit(val)), func(r mi.Row) bool { return r[c0] == val })
			if len(d.Cols) > 1 {
				c1 := d.Cols[1]
				if w := r[c1]; !w.Null {
					wv := w
					check(fmt.Sprintf("%s WHERE %s = %s AND %s = %s", sel, cols[c0], lit(val), cols[c1], lit(wv)),
						func(r mi.Row) bool { return r[c0] == val && r[c1] == wv })
				}
			}
		}
		check(fmt.Sprintf("%s WHERE %s IS NULL", sel, cols[c0]), func(r mi.Row) bool { return r[c0].Null })
		if str0 {
			// values that were stored earlier in the history and are gone (a stale storage row would bring
			// one back) and values that are stored now are both among the short strings
			check(fmt.Sprintf("%s WHERE %s = 'zz'", sel, cols[c0]), func(r mi.Row) bool { return false })
			check(fmt.Sprintf("%s WHERE %s >= 'ab' AND %s < 'b'", sel, cols[c0], cols[c0]), func(r mi.Row) bool { return !r[c0].Null && r[c0].S >= "ab" && r[c0].S < "b" })
			check(fmt.Sprintf("%s WHERE %s > 'b'", sel, cols[c0]), func(r mi.Row) bool { return !r[c0].Null && r[c0].S > "b" })
			check(fmt.Sprintf("%s WHERE %s <= 'abc'", sel, cols[c0]), func(r mi.Row) bool { return !r[c0].Null && r[c0].S <= "abc" })
			continue
		}
		check(fmt.Sprintf("%s WHERE %s = 77", sel, cols[c0]), func(r mi.Row) bool { return false })
		check(fmt.Sprintf("%s WHERE %s >= 2 AND %s < 5", sel, cols[c0], cols[c0]), func(r mi.Row) bool { return !r[c0].Null && r[c0].I >= 2 && r[c0].I < 5 })
		check(fmt.Sprintf("%s WHERE %s > 3", sel, cols[c0]), func(r mi.Row) bool { return !r[c0].Null && r[c0].I > 3 })
	}
	// primary-key reads
	for _, c := range env.PK {
		col := c
		check(fmt.Sprintf("%s WHERE %s >= 3", sel, cols[col]), func(r mi.Row) bool { return r[col].I >= 3 })
	}
	return bad
}

type histResult struct {
	steps   []step
	obs     []string
	oracle  []string
	nontriv bool
}

func hasDupProj(rows []mi.Row, cols []int) bool {
	seen := map[string]bool{}
	for _, r := range rows {
		null := false
		var k mi.Row
		for _, c := range cols {
			if r[c].Null {
				null = true
			}
			k = append(k, r[c])
		}
		if null {
			continue
		}
		s := k.Sexp()
		if seen[s] {
			return true
		}
		seen[s] = true
	}
	return false
}

func runCase(e *eng.Eng, cr *hx.Rand, out *hx.Out, env0 mi.Env, script []step, nsteps int, withReads bool) (*mi.Table, mi.Env, histResult, error) {
	var hr histResult
	tb, err := mi.NewTable(e, env0)
	if err != nil {
		return nil, env0, hr, err
	}
	env := env0
	env.Idx = append([]mi.IdxDef(nil), env0.Idx...)
	names := env.IndexNames()
	nextName := len(names)
	g := &mi.Gen{R: cr, Env: env, Replace: 12}
	before, err := tb.DumpNow()
	if err != nil {
		return tb, env0, hr, err
	}
	deleted, relocated, behind := false, false, false
	for i := 0; i < nsteps; i++ {
		cur := before.Rows()
		var s step
		if script != nil {
			if i >= len(script) {
				break
			}
			s = script[i]
		} else {
			switch k := cr.Intn(100); {
			case k < 4 && len(cur) > 0:
				s = step{kind: "trunc"}
			case k < 16 && len(env.Idx) < 3:
				d := mi.IdxDef{Cols: []int{cr.Intn(env.NCols)}}
				if env.NCols >= 3 && cr.Chance(1, 3) {
					b := cr.Intn(env.NCols - 1)
					if b >= d.Cols[0] {
						b++
					}
					d.Cols = append(d.Cols, b)
				}
				d.Unique = !env.Keyless() && cr.Chance(1, 3)
				s = step{kind: "mkidx", d: d}
			case k < 24 && len(env.Idx) > 0:
				s = step{kind: "rmidx", j: cr.Intn(len(env.Idx))}
			default:
				g.Env = env
				idxChance := 0
				if cr.Chance(1, 4) {
					idxChance = 15
				}
				st := g.Stmt(cur, idxChance)
				if cr.Chance(1, 8) { // a failing statement in between (C15's part; kept to see that it leaves the indexes alone)
					st = mi.Stmt{Fin: "err", Ops: st.Ops[:cr.Intn(len(st.Ops)+1)]}
				}
				s = step{kind: "s", st: st}
			}
		}
		stop := false
		obs := ""
		expRows := cur
		failed := false
		switch s.kind {
		case "s":
			if err := mi.Validate(env, s.st); err != nil {
				return tb, env0, hr, err
			}
			res, err := tb.Exec(s.st)
			if err != nil {
				return tb, env0, hr, err
			}
			failed = res.Failed
			inRegion := res.Failed && res.Crash == "" && len(env.Idx) > 0 && executedIdx(s.st, res.Executed)
			switch {
			case res.Crash != "":
				obs = "crash:" + res.Crash + "|" + res.Dump.View(names)
			case inRegion:
				obs = "fail|*"
				stop = true
				out.Stat("region:" + regionShared)
				if mi.OnlyLocationsDiffer(before, res.Dump) {
					hr.oracle = append(hr.oracle, regionShared+"\t"+fmt.Sprintf("step %d %s failed after an early ApplyEdits and left index rows relocated: before %s after %s", i, s.Sexp(), before.Physical(), res.Dump.Physical()))
				} else if before.Physical() != res.Dump.Physical() {
					hr.oracle = append(hr.oracle, "-\t"+fmt.Sprintf("step %d %s failed but changed the table: before %s after %s", i, s.Sexp(), before.Physical(), res.Dump.Physical()))
				}
			case res.Failed:
				obs = "fail|" + res.Dump.View(names)
			default:
				obs = "ok|" + res.Dump.View(names)
				for _, o := range s.st.Ops {
					expRows = mi.ShadowApply(env, expRows, o)
					if o.Kind == "d" || o.Kind == "u" {
						deleted = true
					}
					if o.Kind == "u" && !env.Keyless() && mi.SamePK(env, o.R, o.N) && behindPrefix(env, o.R, o.N) {
						out.Stat("op:update-behind-indexed-prefix")
						behind = true
					}
				}
				if !env.Keyless() && len(cur) > 0 {
					relocated = true
				}
			}
			before = res.Dump
			out.Stat("step:stmt")
		default:
			var q string
			switch s.kind {
			case "trunc":
				q = "TRUNCATE TABLE " + tb.Name
				expRows = nil
			case "mkidx":
				u := ""
				if s.d.Unique {
					u = "UNIQUE "
				}
				q = fmt.Sprintf("CREATE %sINDEX %s ON %s (%s)", u, mi.IdxName(nextName), tb.Name, s.d.ColList())
			case "rmidx":
				if s.j < 0 || s.j >= len(names) {
					return tb, env0, hr, fmt.Errorf("generated rmidx %d out of range (%d indexes)", s.j, len(names))
				}
				q = fmt.Sprintf("DROP INDEX %s ON %s", names[s.j], tb.Name)
			}
			r := e.Query(eng.SameSession(tb.Sess), q)
			cls := r.Class()
			out.Stat("step:" + s.kind + ":" + cls)
			d, err := tb.DumpNow()
			if err != nil {
				return tb, env0, hr, err
			}
			switch {
			case cls == "ok":
				switch s.kind {
				case "mkidx":
					env.Idx = append(env.Idx, s.d)
					names = append(names, mi.IdxName(nextName))
					nextName++
				case "rmidx":
					env.Idx = append(append([]mi.IdxDef(nil), env.Idx[:s.j]...), env.Idx[s.j+1:]...)
					names = append(append([]string(nil), names[:s.j]...), names[s.j+1:]...)
				}
				obs = "ok|" + d.View(names)
			case s.kind == "mkidx" && s.d.Unique && cls == "err:1062":
				failed = true
				obs = "fail|" + d.View(names)
			default:
				failed = true
				obs = cls + ":" + r.Panic + "|" + d.View(names)
			}
			before = d
		}
		hr.steps = append(hr.steps, s)
		hr.obs = append(hr.obs, obs)
		if stop {
			break
		}
		// the property on the real code alone
		if failed {
			expRows = cur
		}
		if want, got := env.ConsistentView(expRows), before.View(names); want != got {
			hr.oracle = append(hr.oracle, "-\t"+fmt.Sprintf("after step %d %s rows/indexes are %s, expected %s", i, s.Sexp(), got, want))
			break
		}
		if ok, why := before.Sorted(); !ok {
			hr.oracle = append(hr.oracle, "-\t"+fmt.Sprintf("after step %d %s: %s", i, s.Sexp(), why))
			break
		}
		if len(before.Indexes) != len(env.Idx) && len(before.Rows()) > 0 {
			hr.oracle = append(hr.oracle, "-\t"+fmt.Sprintf("after step %d %s: %d index storages for %d indexes", i, s.Sexp(), len(before.Indexes), len(env.Idx)))
			break
		}
		// C14's finding `unique_check_ignores_pending_edits` can store two rows with the same unique
		// value (a pending delete masks the conflict); a later rebuild then fails half-way. That
		// defect belongs to C14: the history ends here.
		uniqDup := false
		for _, d := range env.Idx {
			if d.Unique && hasDupProj(before.Rows(), d.Cols) {
				uniqDup = true
			}
		}
		if uniqDup {
			out.Stat("stop:c14-unique-dup")
			break
		}
		if withReads && len(env.Idx) > 0 {
			if bad := sqlReads(tb, env, before.Rows(), out); len(bad) > 0 {
				hr.oracle = append(hr.oracle, "-\t"+fmt.Sprintf("after step %d %s: %s", i, s.Sexp(), strings.Join(bad, " | ")))
				break
			}
		}
	}
	hr.nontriv = len(env.Idx) > 0 && deleted && relocated
	if behind {
		out.Stat("hist:update-behind-indexed-prefix")
	}
	return tb, env0, hr, nil
}

// behindPrefix: some prefix index sees the same prefix in both versions of the row although the
// indexed string changed.
func behindPrefix(env mi.Env, a, b mi.Row) bool {
	for _, d := range env.Idx {
		for j, c := range d.Cols {
			p := d.PrefixOf(j)
			if p == 0 || !a[c].IsStr || !b[c].IsStr || a[c].S == b[c].S {
				continue
			}
			cut := func(s string) string {
				if len(s) > p {
					return s[:p]
				}
				return s
			}
			if cut(a[c].S) == cut(b[c].S) {
				return true
			}
		}
	}
	return false
}

// executedIdx: an IndexedAccess call was executed before the statement stopped.
func executedIdx(st mi.Stmt, executed int) bool {
	for i, o := range st.Ops {
		if i < executed && o.Kind == "x" {
			return true
		}
	}
	return false
}

func ri(vs ...int64) mi.Row {
	r := make(mi.Row, len(vs))
	for i, v := range vs {
		if v < 0 {
			r[i] = m.Null
		} else {
			r[i] = m.Int(v)
		}
	}
	return r
}

func corpus() []struct {
	env mi.Env
	h   []step
} {
	ins := func(rs ...mi.Row) step {
		var o []mi.Op
		for _, r := range rs {
			o = append(o, mi.Op{Kind: "i", R: r})
		}
		return step{kind: "s", st: mi.Stmt{Fin: "eof", Ops: o}}
	}
	ops := func(o ...mi.Op) step { return step{kind: "s", st: mi.Stmt{Fin: "eof", Ops: o}} }
	del := func(r mi.Row) mi.Op { return mi.Op{Kind: "d", R: r} }
	upd := func(a, b mi.Row) mi.Op { return mi.Op{Kind: "u", R: a, N: b} }
	e1 := mi.Env{NCols: 3, PK: []int{0}, Idx: []mi.IdxDef{{Cols: []int{1}}, {Cols: []int{2, 1}}}, NParts: 2}
	e2 := mi.Env{NCols: 2, Idx: []mi.IdxDef{{Cols: []int{1}}}, NParts: 3}
	e3 := mi.Env{NCols: 3, PK: []int{2, 0}, NParts: 2}
	// prefix indexes: KEY (c1(3)), KEY (c2, c1(2)) over a VARCHAR column
	e4 := mi.Env{NCols: 4, PK: []int{0}, NParts: 2, Str: []bool{false, true, false, false},
		Idx: []mi.IdxDef{{Cols: []int{1}, Prefix: []int{3}}, {Cols: []int{2, 1}, Prefix: []int{0, 2}}}}
	rs := func(pk int64, s string, w, x int64) mi.Row { return mi.Row{m.Int(pk), m.Str(s), m.Int(w), m.Int(x)} }
	return []struct {
		env mi.Env
		h   []step
	}{
		// delete in the middle of a partition (renumbering), key update (row moves in the sort), index re-sort
		{e1, []step{ins(ri(4, 1, 1), ri(2, 1, 0), ri(9, 0, 1), ri(6, -1, 1), ri(1, 3, 3)),
			ops(del(ri(2, 1, 0))), ops(upd(ri(9, 0, 1), ri(0, 5, 1))), ops(del(ri(4, 1, 1)), mi.Op{Kind: "x"}, upd(ri(6, -1, 1), ri(6, 2, 2))),
			{kind: "mkidx", d: mi.IdxDef{Cols: []int{2}}}, {kind: "rmidx", j: 0}, ops(del(ri(1, 3, 3))), {kind: "trunc"}, ins(ri(3, 3, 3))}},
		// keyless: equal rows, one of them deleted
		{e2, []step{ins(ri(1, 1), ri(1, 1), ri(2, 1), ri(3, -1)), ops(del(ri(1, 1))), ops(upd(ri(1, 1), ri(1, 2)), del(ri(3, -1))),
			{kind: "mkidx", d: mi.IdxDef{Cols: []int{0}}}, ops(del(ri(2, 1)))}},
		// index created on existing data of a composite-key table; unique index refused on duplicates
		{e3, []step{ins(ri(1, 5, 2), ri(0, 5, 3), ri(7, 4, 2)), {kind: "mkidx", d: mi.IdxDef{Cols: []int{1}, Unique: true}},
			{kind: "mkidx", d: mi.IdxDef{Cols: []int{1, 0}}}, ops(del(ri(0, 5, 3)), upd(ri(1, 5, 2), ri(1, 5, 9)))}},
		// rows rewritten under their own key with the indexed string changed only behind the prefix
		// (UPDATE, REPLACE = Delete + Insert), inside the prefix, to a value shorter than the prefix;
		// a prefix index created on existing data
		{e4, []step{ins(rs(1, "abcab", 1, 0), rs(2, "abcb", 1, 0), rs(3, "ab", 2, 0), rs(4, "abcab", 2, 0)),
			ops(upd(rs(2, "abcb", 1, 0), rs(2, "abcc", 1, 0))),
			ops(del(rs(1, "abcab", 1, 0)), mi.Op{Kind: "i", R: rs(1, "abcaa", 1, 5)}),
			ops(upd(rs(3, "ab", 2, 0), rs(3, "abb", 2, 0)), upd(rs(4, "abcab", 2, 0), rs(4, "abca", 2, 0))),
			{kind: "mkidx", d: mi.IdxDef{Cols: []int{1, 3}, Prefix: []int{1, 0}}},
			ops(upd(rs(4, "abca", 2, 0), rs(4, "a", 2, 0)), upd(rs(2, "abcc", 1, 0), rs(7, "abcc", 1, 0))),
			{kind: "rmidx", j: 0}, ops(upd(rs(7, "abcc", 1, 0), rs(7, "abccc", 1, 0)))}},
	}
}

func run(a hx.RunArgs) error {
	logrus.SetLevel(logrus.PanicLevel)
	out := hx.NewOut(a.OutDir)
	defer out.Close()
	out.Rule = "histories of scripted editor statements (real TableEditorIter + tableEditor), TRUNCATE, CREATE [UNIQUE] INDEX on existing data, DROP INDEX on partitioned tables (BIGINT columns; every third table also VARCHAR columns under prefix indexes, rows rewritten under their own key with the string changed behind / inside / below the prefix); after each step storage dump vs model and index-driven SQL reads vs scan. Non-trivial: the table has a secondary index and the history deleted/updated rows and re-sorted a non-empty keyed table"
	r := hx.NewRand(a.Seed).Fork()
	e := eng.New("d")
	emit := func(tb *mi.Table, env mi.Env, hr histResult) {
		id := out.Case(payload(env, tb, hr.steps), strings.Join(hr.obs, ";"), hr.nontriv)
		for _, o := range hr.oracle {
			p := strings.SplitN(o, "\t", 2)
			out.OracleFail(id, p[0], p[1])
		}
	}
	for _, c := range corpus() {
		tb, env, hr, err := runCase(e, r.Fork(), out, c.env, c.h, len(c.h), true)
		if err != nil {
			return fmt.Errorf("corpus: %v", err)
		}
		emit(tb, env, hr)
		tb.Drop()
		out.Stat("corpus")
	}
	cases := 300
	if a.Thorough {
		cases = 20000
	}
	for c := 0; c < cases; c++ {
		cr := r.Fork()
		var env mi.Env
		if c%3 == 1 { // string columns and prefix indexes
			env = genStrEnv(cr)
			out.Stat("env:str")
		} else {
			env = mi.GenEnv(cr)
			if len(env.Idx) == 0 && cr.Chance(2, 3) {
				env.Idx = []mi.IdxDef{{Cols: []int{cr.Intn(env.NCols)}}}
			}
		}
		withReads := c%4 == 0 || (env.HasStr() && c%2 == 0)
		tb, env0, hr, err := runCase(e, cr, out, env, nil, cr.Range(4, 12), withReads)
		if err != nil {
			return err
		}
		emit(tb, env0, hr)
		tb.Drop()
		out.Stat(fmt.Sprintf("env:pk%d:idx%d:np%d", len(env.PK), len(env.Idx), env.NParts))
	}
	if err := runDDL(a, out, r.Fork()); err != nil {
		return err
	}
	return runPfxSQL(a, out, r.Fork())
}
