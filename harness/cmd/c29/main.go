// C29 — Collation comparison is a total preorder coherent with hashing
// (sql/collations.go, sql/types/strings.go, sql/expression/like.go, sql/encodings/*).
package main

import (
	"bytes"
	"context"
	"fmt"
	"go/ast"
	"go/token"
	"os"
	"sort"
	"strings"
	"unicode/utf8"

	"github.com/dolthub/vitess/go/sqltypes"

	"github.com/dolthub/go-mysql-server/sql"
	"github.com/dolthub/go-mysql-server/sql/expression"
	"github.com/dolthub/go-mysql-server/sql/types"
	"github.com/dolthub/go-mysql-server/verifharness/hx"
	"github.com/dolthub/go-mysql-server/verifharness/hx/eng"
)

func main() { hx.Main(extract, run) }

const defaultWeight = 2147483647

// tableSize: runes 0..tableSize-1 of every collation go into the regenerated fact file (Basic Latin .. Latin Extended-B,
// IPA, spacing modifiers: all case pairs the per-table facts talk about).
const tableSize = 768

type coll struct {
	c     sql.Collation
	name  string
	bin   bool // the charset's encoder reads bytes (binary)
	isBin bool // *_bin or binary
	ci    bool
	typ   sql.StringType
}

func collations() []coll {
	var out []coll
	it := sql.NewCollationsIterator()
	for c, ok := it.Next(); ok; c, ok = it.Next() {
		if c.Sorter == nil || c.CharacterSet.Encoder() == nil {
			continue
		}
		k := coll{c: c, name: c.Name, bin: c.ID == sql.Collation_binary, ci: strings.Contains(c.Name, "_ci"),
			isBin: strings.HasSuffix(c.Name, "_bin") || c.ID == sql.Collation_binary}
		var err error
		if k.bin {
			k.typ, err = types.CreateBinary(sqltypes.VarBinary, 4000)
		} else {
			k.typ, err = types.CreateString(sqltypes.VarChar, 4000, c.ID)
		}
		if err != nil {
			continue
		}
		out = append(out, k)
	}
	sort.Slice(out, func(i, j int) bool { return out[i].name < out[j].name })
	return out
}

// ---------------------------------------------------------------------------------------------
// Facts.

func condTerms(src *hx.Src, e ast.Expr) []string {
	if be, ok := e.(*ast.BinaryExpr); ok && be.Op == token.LOR {
		return append(condTerms(src, be.X), condTerms(src, be.Y)...)
	}
	return []string{src.Text(e)}
}

// malformedTests returns the disjuncts of the first `if … == utf8.RuneError …` condition of the function.
func malformedTests(src *hx.Src, fd *ast.FuncDecl) []string {
	var out []string
	ast.Inspect(fd.Body, func(n ast.Node) bool {
		is, ok := n.(*ast.IfStmt)
		if !ok || out != nil {
			return true
		}
		t := src.Text(is.Cond)
		if strings.Contains(t, "utf8.RuneError") {
			out = condTerms(src, is.Cond)
		}
		return true
	})
	return out
}

// decodeSteps lists, in source order, every loop header, every call that decodes a rune (utf8.DecodeRune*, NextRune),
// every assignment that re-slices a string variable (x = x[..]) and every slice expression with an upper bound
// (x[:n], x[a:b] — a window of the input) of the function.
func decodeSteps(src *hx.Src, fd *ast.FuncDecl) []string {
	var out []string
	ast.Inspect(fd.Body, func(n ast.Node) bool {
		switch x := n.(type) {
		case *ast.ForStmt:
			c := ""
			if x.Cond != nil {
				c = src.Text(x.Cond)
			}
			out = append(out, "for "+c)
		case *ast.RangeStmt:
			out = append(out, "range "+src.Text(x.X))
		case *ast.CallExpr:
			t := src.Text(x.Fun)
			if strings.Contains(t, "DecodeRune") || strings.Contains(t, "NextRune") || strings.Contains(t, "DecodeLastRune") {
				out = append(out, "decode "+src.Text(x))
			}
		case *ast.AssignStmt:
			if len(x.Lhs) == 1 && len(x.Rhs) == 1 {
				if se, ok := x.Rhs[0].(*ast.SliceExpr); ok {
					if _, isId := x.Lhs[0].(*ast.Ident); isId {
						out = append(out, "slice "+src.Text(x.Lhs[0])+" = "+src.Text(se))
						return true
					}
				}
			}
		case *ast.SliceExpr:
			if x.High != nil {
				out = append(out, "window "+src.Text(x))
			}
		}
		return true
	})
	return out
}

func leanStrings(xs []string) string {
	q := make([]string, len(xs))
	for i, s := range xs {
		q[i] = hx.LeanString(s)
	}
	return "[" + strings.Join(q, ", ") + "]"
}

func extract(a hx.ExtractArgs) error {
	var b strings.Builder
	b.WriteString("/- GENERATED on every run by the harness extractor (c29 extract) from /repo's working tree. Do not edit.\n")
	b.WriteString("   Sources: sql/types/strings.go, sql/collations.go (go/ast); weights returned by every implemented Collation.Sorter for runes 0..767 (compiled code); sql/expression/like.go (go/ast) -/\n")
	b.WriteString("namespace Gms.Generated.C29\n\n")

	s1, err := hx.ParseSrc(a.Repo, "sql/types/strings.go")
	if err != nil {
		return err
	}
	cmpFn, err := s1.Func("StringType", "Compare")
	if err != nil {
		return err
	}
	ct := malformedTests(s1, cmpFn)
	if len(ct) == 0 {
		return fmt.Errorf("StringType.Compare: the malformed-string test was not found")
	}
	fmt.Fprintf(&b, "def compareMalformedTests : List String := %s\n", leanStrings(ct))
	// the weight comparison and the tail
	var cmps []string
	ast.Inspect(cmpFn.Body, func(n ast.Node) bool {
		if is, ok := n.(*ast.IfStmt); ok {
			t := s1.Text(is.Cond)
			if strings.Contains(t, "Weight") || strings.Contains(t, "len(as)") {
				cmps = append(cmps, t)
			}
		}
		return true
	})
	fmt.Fprintf(&b, "def compareTests : List String := %s\n", leanStrings(cmps))

	s2, err := hx.ParseSrc(a.Repo, "sql/collations.go")
	if err != nil {
		return err
	}
	wFn, err := s2.Func("CollationID", "WriteWeightString")
	if err != nil {
		return err
	}
	wt := malformedTests(s2, wFn)
	if len(wt) == 0 {
		return fmt.Errorf("WriteWeightString: the malformed-string test was not found")
	}
	fmt.Fprintf(&b, "def weightMalformedTests : List String := %s\n", leanStrings(wt))
	var shifts []string
	binCase := ""
	ast.Inspect(wFn.Body, func(n ast.Node) bool {
		switch x := n.(type) {
		case *ast.AssignStmt:
			if len(x.Lhs) == 1 && len(x.Rhs) == 1 {
				if ie, ok := x.Lhs[0].(*ast.IndexExpr); ok {
					if id, ok := ie.X.(*ast.Ident); ok && id.Name == "buf" {
						shifts = append(shifts, s2.Text(ie.Index)+" <- "+s2.Text(x.Rhs[0]))
					}
				}
			}
		case *ast.IfStmt:
			if binCase == "" && strings.Contains(s2.Text(x.Cond), "Collation_binary") {
				binCase = s2.Text(x.Cond)
			}
		}
		return true
	})
	fmt.Fprintf(&b, "def weightByteWrites : List String := %s\n", leanStrings(shifts))
	// what the decoder is applied to and how the loops advance: the model decodes the *whole remaining string* at every
	// step (no windows / chunks / cut-off), so the argument of every DecodeRune call, every re-slicing assignment and the
	// number of loops are pinned
	fmt.Fprintf(&b, "def weightDecodeSteps : List String := %s\n", leanStrings(decodeSteps(s2, wFn)))
	fmt.Fprintf(&b, "def compareDecodeSteps : List String := %s\n", leanStrings(decodeSteps(s1, cmpFn)))
	fmt.Fprintf(&b, "def weightBinaryCase : String := %s\n\n", hx.LeanString(binCase))

	// LIKE: the malformed-input tests of ConstructLikeMatcher / Match and the "negative sort order matches anything" test
	s3, err := hx.ParseSrc(a.Repo, "sql/expression/like.go")
	if err != nil {
		return err
	}
	for _, fn := range [][2]string{{"", "ConstructLikeMatcher"}, {"LikeMatcher", "Match"}, {"LikeMatcher", "backtrack"}} {
		fd, err := s3.Func(fn[0], fn[1])
		if err != nil {
			return err
		}
		var tests []string
		ast.Inspect(fd.Body, func(n ast.Node) bool {
			if is, ok := n.(*ast.IfStmt); ok && strings.Contains(s3.Text(is.Cond), "utf8.RuneError") {
				tests = append(tests, s3.Text(is.Cond))
			}
			return true
		})
		if len(tests) == 0 {
			return fmt.Errorf("%s: the malformed-string test was not found", fn[1])
		}
		fmt.Fprintf(&b, "def likeMalformedTests_%s : List String := %s\n", fn[1], leanStrings(tests))
	}
	rm, err := s3.Func("likeMatcherRune", "Match")
	if err != nil {
		return err
	}
	runeMatch := ""
	ast.Inspect(rm.Body, func(n ast.Node) bool {
		if is, ok := n.(*ast.IfStmt); ok && runeMatch == "" {
			runeMatch = s3.Text(is.Cond)
		}
		return true
	})
	fmt.Fprintf(&b, "def likeRuneMatchTest : String := %s\n\n", hx.LeanString(runeMatch))

	cs := collations()
	if len(cs) == 0 {
		return fmt.Errorf("no implemented collation found")
	}
	// One natural number per collation: the int32 weights of the runes 0..tableSize-1, 32 bits each (two's complement),
	// rune r in bits [32r, 32r+32) — a hex literal elaborates instantly and the kernel reads it with GMP arithmetic.
	fmt.Fprintf(&b, "def tableSize : Nat := %d\n\n", tableSize)
	b.WriteString("structure Coll where\n  name : String\n  id : Nat\n  charset : String\n  ci : Bool\n  bin : Bool\n  caseSensitiveFlag : Bool\n  maxLen : Nat\n  tbl : Nat\n  byteW : Nat\n\n")
	var names []string
	for _, k := range cs {
		var hexs strings.Builder
		for r := tableSize - 1; r >= 0; r-- {
			fmt.Fprintf(&hexs, "%08x", uint32(k.c.Sorter(rune(r))))
		}
		fmt.Fprintf(&b, "def t_%d : Nat := 0x%s\n", k.c.ID, hexs.String())
		// one-byte character sets: the weight of the character each byte 0..255 decodes to (0x80000000 = the byte is
		// not a character of the set), 32 bits per byte, byte b in bits [32b, 32b+32)
		encName := "0"
		if k.c.CharacterSet.MaxLength() == 1 {
			var eh strings.Builder
			for bt := 255; bt >= 0; bt-- {
				v := uint32(0x80000000)
				if k.bin {
					v = uint32(k.c.Sorter(rune(bt)))
				} else if u, ok := k.c.CharacterSet.Encoder().DecodeRune([]byte{byte(bt)}); ok {
					if r, n := utf8.DecodeRune(u); n == len(u) && (r != utf8.RuneError || n == 3) {
						v = uint32(k.c.Sorter(r))
					}
				}
				fmt.Fprintf(&eh, "%08x", v)
			}
			fmt.Fprintf(&b, "def e_%d : Nat := 0x%s\n", k.c.ID, eh.String())
			encName = fmt.Sprintf("e_%d", k.c.ID)
		}
		fmt.Fprintf(&b, "def c_%d : Coll := ⟨%s, %d, %s, %v, %v, %v, %d, t_%d, %s⟩\n", k.c.ID, hx.LeanString(k.name), k.c.ID, hx.LeanString(k.c.CharacterSet.Name()), k.ci, k.isBin, k.c.IsCaseSensitive, k.c.CharacterSet.MaxLength(), k.c.ID, encName)
		names = append(names, fmt.Sprintf("c_%d", k.c.ID))
	}
	b.WriteString("\n/-- every collation with a Sorter and an encoder: flags and the weights of the runes 0..tableSize-1 -/\ndef table : List Coll := [")
	b.WriteString(strings.Join(names, ", "))
	b.WriteString("]\n\nend Gms.Generated.C29\n")
	return os.WriteFile(a.Out, []byte(b.String()), 0o644)
}

// ---------------------------------------------------------------------------------------------

type fnv struct{ h uint64 }

func newFnv() *fnv { return &fnv{h: 14695981039346656037} }
func (f *fnv) byte(b byte) {
	f.h ^= uint64(b)
	f.h *= 1099511628211
}

func (k coll) runesOf(s []byte) []rune {
	var rs []rune
	if k.bin {
		for _, c := range s {
			rs = append(rs, rune(c))
		}
		return rs
	}
	for len(s) > 0 {
		r, n := utf8.DecodeRune(s)
		rs = append(rs, r)
		s = s[n:]
	}
	return rs
}

func (k coll) assoc(strs ...[]byte) string {
	seen := map[rune]bool{}
	var parts []string
	add := func(r rune) {
		if !seen[r] {
			seen[r] = true
			parts = append(parts, fmt.Sprintf("(%d %d)", r, k.c.Sorter(r)))
		}
	}
	for _, s := range strs {
		for _, r := range k.runesOf(s) {
			add(r)
		}
	}
	add(utf8.RuneError)
	return "(" + strings.Join(parts, " ") + ")"
}

func (k coll) compare(a, b []byte) string {
	var c int
	var err error
	p := hx.Safe(func() {
		if k.bin {
			c, err = k.typ.Compare(context.Background(), a, b)
		} else {
			c, err = k.typ.Compare(context.Background(), string(a), string(b))
		}
	})
	switch {
	case p != "":
		return "crash"
	case err != nil:
		return "err"
	}
	return fmt.Sprint(c)
}

func (k coll) weights(s []byte) (string, []byte) {
	var buf bytes.Buffer
	var err error
	p := hx.Safe(func() { err = k.c.ID.WriteWeightString(&buf, string(s)) })
	switch {
	case p != "":
		return "crash", nil
	case err != nil:
		return "err", nil
	}
	return "ok:" + hx.Hex(buf.Bytes()), buf.Bytes()
}

func b01(b bool) string {
	if b {
		return "1"
	}
	return "0"
}

func run(a hx.RunArgs) error {
	out := hx.NewOut(a.OutDir)
	defer out.Close()
	out.Rule = "per collation: (sweep) every code point of the chosen range as a one-rune string: weight string and comparison with the previous rune, digested, the weights travel with the case; " +
		"(cmp/ws/like) corpus + random strings of 0-6 units over a per-collation alphabet that contains runes with colliding weights, case pairs, runes outside the repertoire and ill-formed bytes; " +
		"(long) strings around every size 16..4096 (powers of two and small multiples) in which a 2-, 3- or 4-byte character straddles that byte offset at every phase and which differ only in that character (other weight / same weight), random strings of 60-320 runes that differ in one rune: as law triples, weight strings and through SQL, incl. (sqlhash) the hash-based operators over the three stored rows: WHERE a IN (literal list) and the number of GROUP BY groups; " +
		"(sqlcmp) the same pairs through =, <, >, LIKE, IN on collated columns. Oracle on the real code: preorder laws on triples, Compare = 0 <=> equal weight strings <=> equal hashes, case folding for case-insensitive collations, code-point order for binary ones. " +
		"A case is non-trivial when the two strings differ as byte strings (sweep: the block is not ASCII)."
	r := hx.NewRand(a.Seed)
	cs := collations()
	byName := map[string]coll{}
	for _, k := range cs {
		byName[k.name] = k
	}
	ctx := sql.NewEmptyContext()

	// --- single operations -------------------------------------------------------------------
	cmpCase := func(k coll, x, y []byte) string {
		obs := k.compare(x, y)
		out.Case(hx.List("cmp", k.name, b01(k.bin), hx.Hex(x), hx.Hex(y), k.assoc(x, y)), obs, !bytes.Equal(x, y))
		out.Stat("cmp")
		out.Stat("cmp=" + obs)
		return obs
	}
	wsCase := func(k coll, x []byte) {
		obs, _ := k.weights(x)
		out.Case(hx.List("ws", k.name, b01(k.bin), hx.Hex(x), k.assoc(x)), obs, len(x) > 0)
		out.Stat("ws")
	}
	likeCase := func(k coll, pat, s []byte, esc rune) {
		var m expression.LikeMatcher
		var err error
		var res bool
		p := hx.Safe(func() {
			m, err = expression.ConstructLikeMatcher(k.c.ID, string(pat), esc)
			if err == nil {
				res = m.Match(string(s))
			}
		})
		obs := fmt.Sprint(res)
		if p != "" {
			obs = "crash"
		} else if err != nil {
			obs = "err"
		}
		id := out.Case(hx.List("like", k.name, b01(k.bin), fmt.Sprint(int(esc)), hx.Hex(pat), hx.Hex(s), k.assoc(pat, s)), obs, !bytes.Equal(pat, s))
		out.Stat("like")
		out.Stat("like=" + obs)
		if p != "" {
			out.OracleFail(id, "-", fmt.Sprintf("%s: %q LIKE %q panics: %s", k.name, s, pat, p))
		}
	}
	// property oracle on a triple, real code only
	hashOf := func(k coll, s []byte) (uint64, bool) {
		var h uint64
		var err error
		if p := hx.Safe(func() { h, err = k.c.ID.HashToUint(string(s)) }); p != "" || err != nil {
			return 0, false
		}
		return h, true
	}
	sign := func(s string) (int, bool) {
		switch s {
		case "-1":
			return -1, true
		case "0":
			return 0, true
		case "1":
			return 1, true
		}
		return 0, false
	}
	lawCase := func(k coll, x, y, z []byte) {
		ab := cmpCase(k, x, y)
		id := fmt.Sprint(out.N())
		ba, bc, ac, aa := k.compare(y, x), k.compare(y, z), k.compare(x, z), k.compare(x, x)
		sab, ok1 := sign(ab)
		sba, ok2 := sign(ba)
		sbc, ok3 := sign(bc)
		sac, ok4 := sign(ac)
		if !(ok1 && ok2 && ok3 && ok4) || aa != "0" {
			out.OracleFail(id, "-", fmt.Sprintf("%s: Compare is not total/reflexive on %q %q %q: %s %s %s %s %s", k.name, x, y, z, ab, ba, bc, ac, aa))
			return
		}
		if sab != -sba {
			out.OracleFail(id, "-", fmt.Sprintf("%s: Compare(%q,%q)=%d but Compare(%q,%q)=%d", k.name, x, y, sab, y, x, sba))
		}
		if sab <= 0 && sbc <= 0 && sac > 0 {
			out.OracleFail(id, "-", fmt.Sprintf("%s: not transitive: %q <= %q <= %q but Compare(first,last)=%d", k.name, x, y, z, sac))
		}
		_, wa := k.weights(x)
		_, wb := k.weights(y)
		ha, okh1 := hashOf(k, x)
		hb, okh2 := hashOf(k, y)
		if !okh1 || !okh2 {
			out.OracleFail(id, "-", fmt.Sprintf("%s: HashToUint fails on %q / %q", k.name, x, y))
			return
		}
		if (sab == 0) != bytes.Equal(wa, wb) || (sab == 0) != (ha == hb) {
			out.OracleFail(id, "-", fmt.Sprintf("%s: Compare(%q,%q)=%d, weight strings equal=%v, hashes equal=%v", k.name, x, y, sab, bytes.Equal(wa, wb), ha == hb))
		}
		if sab == 0 {
			out.Stat("law:equal-pair")
			if !bytes.Equal(x, y) {
				out.Stat("law:equal-but-different-bytes")
			}
		}
	}

	// --- sweeps ------------------------------------------------------------------------------
	sweepCase := func(k coll, lo, hi int) {
		f := newFnv()
		var wsHex strings.Builder
		var prev []byte
		bad := ""
		for cp := lo; cp < hi; cp++ {
			w := k.c.Sorter(rune(cp))
			fmt.Fprintf(&wsHex, "%08x", uint32(w))
			if !k.bin && cp >= 0xD800 && cp <= 0xDFFF {
				continue
			}
			var s []byte
			if k.bin {
				s = []byte{byte(cp)}
			} else {
				s = utf8.AppendRune(nil, rune(cp))
			}
			obs, wb := k.weights(s)
			if obs == "crash" || obs == "err" {
				f.byte(0xEE)
				if bad == "" {
					bad = fmt.Sprintf("%s: WriteWeightString(U+%04X) gives %s", k.name, cp, obs)
				}
			}
			for _, c := range wb {
				f.byte(c)
			}
			if prev == nil {
				prev = s
			}
			c := k.compare(s, prev)
			sc, ok := sign(c)
			if !ok {
				f.byte(0xEF)
				if bad == "" {
					bad = fmt.Sprintf("%s: Compare(U+%04X, previous) gives %s", k.name, cp, c)
				}
			} else {
				f.byte(byte(sc + 1))
			}
			prev = s
		}
		obs := fmt.Sprintf("h=%016x", f.h)
		id := out.Case(hx.List("sweep", k.name, b01(k.bin), fmt.Sprint(lo), fmt.Sprint(hi), "x"+wsHex.String()), obs, hi > 0x80)
		out.Stat("sweep")
		out.StatN("sweep:codepoints", hi-lo)
		if bad != "" {
			out.OracleFail(id, "-", bad)
		}
	}

	// case-insensitivity / binary order, Sorter level, all code points of the range (real code only)
	enc := func(k coll, r rune) bool {
		if k.bin {
			return r < 256
		}
		_, ok := k.c.CharacterSet.Encoder().EncodeRune(utf8.AppendRune(nil, r))
		return ok
	}
	tableOracle := func(k coll, maxCP int) {
		// attached to a small `cmp` case so that a failure has a replayable input
		if k.ci && !k.bin {
			// A–Z for every character set, À–Þ (without ×) where the character set has both letters — the ranges the
			// Lean facts facts_ci_fold_ascii / facts_ci_fold_latin1 decide on the dumped tables.
			var uppers []rune
			for c := 'A'; c <= 'Z'; c++ {
				uppers = append(uppers, c)
			}
			for c := rune(0xC0); c <= 0xDE; c++ {
				if c != 0xD7 && enc(k, c) && enc(k, c+32) {
					uppers = append(uppers, c)
				}
			}
			turkish := strings.Contains(k.name, "turkish") || strings.Contains(k.name, "_tr_")
			for _, c := range uppers {
				lo := c + 32
				if k.c.Sorter(c) != k.c.Sorter(lo) {
					obs := cmpCase(k, []byte(string(c)), []byte(string(lo)))
					tag := "-"
					switch {
					case turkish && (c == 'I' || (c >= 0xCC && c <= 0xCF)):
						tag = "ci_turkish_dotted_i"
					case k.name == "latin7_general_ci" && (c == 'T' || c == 0xD8):
						tag = "ci_latin7_general_pairs"
					}
					out.Stat("ci-fold-exception:" + tag)
					out.OracleFail(fmt.Sprint(out.N()), tag, fmt.Sprintf("%s is case-insensitive but Compare(%q,%q)=%s (weights %d, %d)", k.name, string(c), string(lo), obs, k.c.Sorter(c), k.c.Sorter(lo)))
				}
			}
		}
		if k.isBin {
			// (i) the property's wording: order by code point; (ii) what a binary collation of a character set
			// means in MySQL: order by the encoded bytes. (ii) must hold everywhere; (i) fails for the
			// single-byte character sets whose byte order differs from the code-point order.
			encOf := func(r rune) []byte {
				if k.bin {
					return []byte{byte(r)}
				}
				b, _ := k.c.CharacterSet.Encoder().EncodeRune(utf8.AppendRune(nil, r))
				return b
			}
			str := func(r rune) []byte {
				if k.bin {
					return []byte{byte(r)}
				}
				return utf8.AppendRune(nil, r)
			}
			prevW, prevCP := int32(-1<<31), -1
			type rw struct {
				r rune
				w int32
				e []byte
			}
			var all []rw
			cpFail := false
			for cp := 0; cp < maxCP; cp++ {
				if cp >= 0xD800 && cp <= 0xDFFF || !enc(k, rune(cp)) {
					continue
				}
				w := k.c.Sorter(rune(cp))
				if k.c.CharacterSet.MaxLength() == 1 {
					all = append(all, rw{rune(cp), w, encOf(rune(cp))})
				}
				if w <= prevW && prevCP >= 0 && !cpFail {
					cpFail = true
					obs := cmpCase(k, str(rune(prevCP)), str(rune(cp)))
					tag := "-"
					if k.c.CharacterSet.MaxLength() == 1 && !k.bin {
						tag = "bin_single_byte_charset_order"
					}
					out.OracleFail(fmt.Sprint(out.N()), tag, fmt.Sprintf("%s is a binary collation but U+%04X (weight %d) does not sort before U+%04X (weight %d): Compare=%s", k.name, prevCP, prevW, cp, w, obs))
				}
				prevW, prevCP = w, cp
			}
			sort.Slice(all, func(i, j int) bool { return bytes.Compare(all[i].e, all[j].e) < 0 })
			for i := 1; i < len(all); i++ {
				if all[i-1].w >= all[i].w {
					obs := cmpCase(k, str(all[i-1].r), str(all[i].r))
					out.OracleFail(fmt.Sprint(out.N()), "-", fmt.Sprintf("%s: encoded %x sorts before %x but the weights are %d, %d (Compare=%s)", k.name, all[i-1].e, all[i].e, all[i-1].w, all[i].w, obs))
					break
				}
			}
		}
	}

	// --- SQL level ---------------------------------------------------------------------------
	e := eng.New("d")
	tblMade := map[string]int{}
	lit := func(s []byte) (string, bool) {
		if !utf8.Valid(s) {
			return "", false
		}
		for _, c := range string(s) {
			if c == '\'' || c == '\\' || c < 0x20 || c == 0x7f || c == '%' || c == '_' {
				return "", false
			}
		}
		return "'" + string(s) + "'", true
	}
	sqlCase := func(k coll, x, y []byte) {
		lx, ok1 := lit(x)
		ly, ok2 := lit(y)
		if !ok1 || !ok2 || k.bin || k.c.CharacterSet.Name() != "utf8mb4" {
			return
		}
		// values of more than 64 characters live in a second table with wider columns (the payload does not name the
		// table: the operators do not depend on the declared length)
		tname, width := "t_"+k.name, 64
		if utf8.RuneCount(x) > 64 || utf8.RuneCount(y) > 64 {
			tname, width = "tl_"+k.name, 1200
			out.Stat("sqlcmp:long")
		}
		if _, ok := tblMade[tname]; !ok {
			r := e.Query(e.Ctx(), fmt.Sprintf("CREATE TABLE %s (id INT PRIMARY KEY, a VARCHAR(%d) COLLATE %s, b VARCHAR(%d) COLLATE %s)", tname, width, k.name, width, k.name))
			if r.Err != nil || r.Panic != "" {
				tblMade[tname] = -1
			} else {
				tblMade[tname] = 0
			}
		}
		if tblMade[tname] < 0 {
			return
		}
		tblMade[tname]++
		id := tblMade[tname]
		ins := e.Query(e.Ctx(), fmt.Sprintf("INSERT INTO %s VALUES (%d, %s, %s)", tname, id, lx, ly))
		if ins.Err != nil || ins.Panic != "" {
			return
		}
		q := fmt.Sprintf("SELECT a = b, a < b, a > b, a LIKE b, a IN (b, b), a IN (%s, '\x01'), a <=> b, STRCMP(a, b) FROM %s WHERE id = %d", ly, tname, id)
		res := e.Query(e.Ctx(), q)
		obs := eng.Canon(res, true)
		if res.Class() == "ok" && len(res.Rows) == 1 {
			obs = strings.Join(res.Rows[0], ",")
		}
		cid := out.Case(hx.List("sqlcmp", k.name, hx.Hex(x), hx.Hex(y), k.assoc(x, y)), obs, !bytes.Equal(x, y))
		out.Stat("sqlcmp")
		e.Query(e.Ctx(), fmt.Sprintf("DELETE FROM %s WHERE id = %d", tname, id))
		if res.Panic != "" {
			out.OracleFail(cid, "-", fmt.Sprintf("%s panics: %s", q, res.Panic))
		}
		// oracle: the operators agree with StringType.Compare
		if c, ok := sign(k.compare(x, y)); ok && res.Class() == "ok" && len(res.Rows) == 1 {
			row := res.Rows[0]
			t := func(b bool) string {
				if b {
					return "1"
				}
				return "0"
			}
			want := []string{t(c == 0), t(c < 0), t(c > 0), row[3], t(c == 0), t(c == 0), t(c == 0), fmt.Sprint(c)}
			for i := range want {
				if row[i] != want[i] {
					out.OracleFail(cid, "-", fmt.Sprintf("%s under %s: column %d is %s, Compare says %s (row %v)", q, k.name, i, row[i], want[i], row))
					break
				}
			}
		}
	}

	// the hash-based operators over stored rows: `a IN (<y>, 'other', 'another')` in a WHERE clause (HashInTuple) and
	// GROUP BY a (grouping-key hash) over the three rows x, y, z. Observation: "<rows matched by IN>,<groups>".
	sqlHashCase := func(k coll, x, y, z []byte) {
		lx, ok1 := lit(x)
		ly, ok2 := lit(y)
		lz, ok3 := lit(z)
		if !ok1 || !ok2 || !ok3 || k.bin || k.c.CharacterSet.Name() != "utf8mb4" {
			return
		}
		tname := "th_" + k.name
		if _, ok := tblMade[tname]; !ok {
			r := e.Query(e.Ctx(), fmt.Sprintf("CREATE TABLE %s (id INT PRIMARY KEY, a VARCHAR(1200) COLLATE %s)", tname, k.name))
			tblMade[tname] = 0
			if r.Err != nil || r.Panic != "" {
				tblMade[tname] = -1
			}
		}
		if tblMade[tname] < 0 {
			return
		}
		defer e.Query(e.Ctx(), "DELETE FROM "+tname)
		ins := e.Query(e.Ctx(), fmt.Sprintf("INSERT INTO %s VALUES (1, %s), (2, %s), (3, %s)", tname, lx, ly, lz))
		if ins.Err != nil || ins.Panic != "" {
			return
		}
		q1 := fmt.Sprintf("SELECT COUNT(*) FROM %s WHERE a IN (%s, 'other', 'another')", tname, ly)
		q2 := fmt.Sprintf("SELECT COUNT(*) FROM (SELECT a, COUNT(*) FROM %s GROUP BY a) q", tname)
		r1, r2 := e.Query(e.Ctx(), q1), e.Query(e.Ctx(), q2)
		one := func(r *eng.Res) string {
			if r.Class() == "ok" && len(r.Rows) == 1 && len(r.Rows[0]) == 1 {
				return r.Rows[0][0]
			}
			return r.Class()
		}
		obs := one(r1) + "," + one(r2)
		cid := out.Case(hx.List("sqlhash", k.name, hx.Hex(x), hx.Hex(y), hx.Hex(z), k.assoc(x, y, z)), obs, !bytes.Equal(x, y))
		out.Stat("sqlhash")
		if r1.Panic != "" || r2.Panic != "" {
			out.OracleFail(cid, "-", fmt.Sprintf("%s / %s panics: %s %s", q1, q2, r1.Panic, r2.Panic))
		}
		// oracle on the real code: GROUP BY yields as many groups as Compare has classes among the rows
		rows := [][]byte{x, y, z}
		classes := 0
		for i := range rows {
			fresh := true
			for j := 0; j < i; j++ {
				if k.compare(rows[i], rows[j]) == "0" {
					fresh = false
				}
			}
			if fresh {
				classes++
			}
		}
		if g := one(r2); g != fmt.Sprint(classes) {
			out.OracleFail(cid, "-", fmt.Sprintf("%s under %s: %s groups, Compare finds %d classes among the 3 rows", q2, k.name, g, classes))
		}
	}

	// --- alphabets ---------------------------------------------------------------------------
	type alpha struct {
		runes []rune // representative runes, with collisions
	}
	alphabets := map[string]*alpha{}
	for _, k := range cs {
		al := &alpha{}
		if k.bin {
			for _, c := range []rune{0, 1, 'A', 'a', 'B', 0x7f, 0x80, 0xc3, 0xa9, 0xff} {
				al.runes = append(al.runes, c)
			}
			alphabets[k.name] = al
			continue
		}
		byW := map[int32][]rune{}
		cands := []rune{}
		for c := rune(0x20); c < 0x250; c++ {
			cands = append(cands, c)
		}
		for _, c := range []rune{0x391, 0x3B1, 0x410, 0x430, 0x5D0, 0x4E2D, 0x3042, 0x30A2, 0xFF21, 0xFF41, 0x1F600, 0x10400, 0x10428, 0xFFFD, 0x2028, 0x1E9E, 0xDF, 0x131, 0x130, 0} {
			cands = append(cands, c)
		}
		for _, c := range cands {
			w := k.c.Sorter(c)
			byW[w] = append(byW[w], c)
		}
		// runes that collide with another one first, then a few singletons
		var ws []int32
		for w := range byW {
			ws = append(ws, w)
		}
		sort.Slice(ws, func(i, j int) bool { return ws[i] < ws[j] })
		for _, w := range ws {
			g := byW[w]
			if len(g) > 1 {
				n := 3
				if w == defaultWeight {
					n = 4
				}
				for i := 0; i < len(g) && i < n; i++ {
					al.runes = append(al.runes, g[i])
				}
			}
		}
		if len(al.runes) > 120 {
			rr := hx.NewRand(uint64(len(k.name)) + a.Seed)
			for i := len(al.runes) - 1; i > 0; i-- {
				j := rr.Intn(i + 1)
				al.runes[i], al.runes[j] = al.runes[j], al.runes[i]
			}
			al.runes = al.runes[:120]
		}
		for _, c := range []rune{'a', 'A', 'b', 'B', 'z', 'T', 't', 'I', 'i', ' ', '0', 0xE9, 0xC9, 0x4E2D, 0x1F600} {
			al.runes = append(al.runes, c)
		}
		alphabets[k.name] = al
	}
	malformed := [][]byte{{0x80}, {0xff}, {0xc3}, {0xe2, 0x82}, {0xed, 0xa0, 0x80}, {0xf4, 0x90, 0x80, 0x80}, {0xc0, 0xaf}}
	gen := func(k coll, base []byte) []byte {
		al := alphabets[k.name]
		if base != nil && r.Chance(2, 3) {
			// a variant of base: replace runes by runes of equal weight, change case, append, truncate
			rs := k.runesOf(base)
			for i := range rs {
				if r.Chance(1, 2) {
					w := k.c.Sorter(rs[i])
					var same []rune
					for _, c := range al.runes {
						if k.c.Sorter(c) == w {
							same = append(same, c)
						}
					}
					if len(same) > 0 {
						rs[i] = hx.Pick(r, same)
					}
				}
			}
			switch r.Intn(5) {
			case 0:
				if len(rs) > 0 {
					rs = rs[:len(rs)-1]
				}
			case 1:
				rs = append(rs, hx.Pick(r, al.runes))
			}
			var s []byte
			for _, c := range rs {
				if k.bin {
					s = append(s, byte(c))
				} else {
					s = utf8.AppendRune(s, c)
				}
			}
			return s
		}
		var s []byte
		for n := r.Intn(7); n > 0; n-- {
			c := hx.Pick(r, al.runes)
			switch {
			case k.bin:
				s = append(s, byte(c))
			case r.Chance(1, 25):
				s = append(s, hx.Pick(r, malformed)...)
			default:
				s = utf8.AppendRune(s, c)
			}
		}
		return s
	}

	// --- long strings ------------------------------------------------------------------------
	// Anything that processes the string in pieces (fixed-size chunks or windows, pooled buffers of a bounded size,
	// a length cut-off, a fast path for short inputs) behaves like the whole-string loop on short inputs. The `long`
	// stream builds strings around every power-of-two size 16..4096 (and its small multiples) in which a multi-byte
	// character of width 2, 3 and 4 straddles the byte offset m*C at every possible phase, and compares strings that
	// differ only in that character (different weight: must differ; same weight: must stay equal), as triples under
	// the law oracle, as weight strings and through the SQL operators.
	wideCands := map[int][]rune{
		2: {0xE9, 0xF1, 0xC9, 0xE8, 0x3B1, 0x391, 0x430, 0x410, 0x5D0, 0x131},
		3: {0x4E2D, 0x3042, 0x30A2, 0xFF21, 0xFF41, 0x1E9E, 0x2028, 0x4E2E, 0xFFFD},
		4: {0x1F600, 0x10400, 0x10428, 0x1F601, 0x20000},
	}
	// filler of exactly n bytes: runes of the alphabet (all widths), padded with ASCII letters
	filler := func(k coll, n int, asciiOnly bool) []byte {
		al := alphabets[k.name]
		var s []byte
		for len(s) < n {
			c := rune('a' + r.Intn(26))
			if !asciiOnly && r.Chance(1, 3) {
				c = hx.Pick(r, al.runes)
			}
			if c == 0 || c == '\'' || c == '\\' || c == '%' || c == '_' || c < 0x20 || c == 0x7f {
				c = 'q'
			}
			if len(s)+utf8.RuneLen(c) > n {
				c = rune('a' + r.Intn(26))
			}
			s = utf8.AppendRune(s, c)
		}
		return s
	}
	cat := func(parts ...[]byte) []byte {
		var s []byte
		for _, p := range parts {
			s = append(s, p...)
		}
		return s
	}
	// straddle: one triple whose middle character (width wd) starts `phase` bytes before byte offset `at`
	straddle := func(k coll, at, wd, phase int, withSQL bool) {
		cands := wideCands[wd]
		c1 := cands[r.Intn(len(cands))]
		c2, c3 := rune(-1), rune(-1) // different weight / same weight as c1
		for _, c := range cands {
			if c == c1 {
				continue
			}
			if k.c.Sorter(c) != k.c.Sorter(c1) && c2 < 0 {
				c2 = c
			}
			if k.c.Sorter(c) == k.c.Sorter(c1) && c3 < 0 {
				c3 = c
			}
		}
		if c2 < 0 {
			c2 = 'z' // the character set has one weight for all of them: compare with a one-byte character instead
		}
		pre := filler(k, at-phase, r.Chance(1, 2))
		suf := filler(k, r.Intn(6), false)
		x := cat(pre, utf8.AppendRune(nil, c1), suf)
		y := cat(pre, utf8.AppendRune(nil, c2), suf)
		z := x
		if c3 >= 0 {
			z = cat(pre, utf8.AppendRune(nil, c3), suf)
		}
		out.Stat("long:straddle")
		out.Stat(fmt.Sprintf("long:straddle:width=%d", wd))
		lawCase(k, x, y, z)
		if c3 >= 0 {
			lawCase(k, x, z, y)
		}
		if r.Chance(1, 3) {
			wsCase(k, x)
		}
		if withSQL && at <= 1024 {
			sqlHashCase(k, x, y, z)
			sqlCase(k, x, y)
			if c3 >= 0 {
				sqlCase(k, x, z)
			}
		}
	}
	type strad struct{ at, wd, phase int }
	var stradAll []strad
	for _, C := range []int{16, 32, 64, 128, 256, 512, 1024, 2048, 4096} {
		for _, m := range []int{1, 2, 3} {
			if C*m > 4096 || (m == 3 && C > 256) {
				continue
			}
			for wd := 2; wd <= 4; wd++ {
				for ph := 1; ph < wd; ph++ {
					stradAll = append(stradAll, strad{C * m, wd, ph})
				}
			}
		}
	}
	longCases := func(k coll, full bool) {
		if k.bin {
			// raw bytes: long strings that differ in one byte at / around the offsets
			for _, at := range []int{16, 64, 128, 256, 1024, 2048} { // the VARBINARY(4000) type of the harness rejects longer values
				pre := filler(k, at-1, true)
				x, y := cat(pre, []byte{0xc3, 0xa9, 'z'}), cat(pre, []byte{0xc3, 0xb1, 'z'})
				lawCase(k, x, y, cat(pre, []byte{0xc3}))
				wsCase(k, x)
				out.Stat("long:binary")
			}
			return
		}
		n := 8
		if full {
			n = len(stradAll)
		} else if a.Thorough {
			n = 48
		}
		if n >= len(stradAll) {
			for _, s := range stradAll {
				straddle(k, s.at, s.wd, s.phase, true)
			}
		} else {
			// always the sizes a buffer pool / chunk is most likely to have, then a sample of the matrix
			straddle(k, 64, 2, 1, true)
			straddle(k, 128*(1+r.Intn(2)), 2+r.Intn(2), 1, false)
			for i := 2; i < n; i++ {
				s := stradAll[r.Intn(len(stradAll))]
				straddle(k, s.at, s.wd, s.phase, i < 4)
			}
		}
		// random long strings over the whole alphabet (all widths, ill-formed bytes), one rune changed at a random place
		nl := 4
		if a.Thorough {
			nl = 40
		}
		al := alphabets[k.name]
		for i := 0; i < nl; i++ {
			var rs []rune
			for n := 60 + r.Intn(260); n > 0; n-- {
				rs = append(rs, hx.Pick(r, al.runes))
			}
			enc := func(rs []rune, bad int) []byte {
				var s []byte
				for i, c := range rs {
					if i == bad {
						s = append(s, hx.Pick(r, malformed)...)
					}
					s = utf8.AppendRune(s, c)
				}
				return s
			}
			bad := -1
			if r.Chance(1, 6) {
				bad = r.Intn(len(rs))
			}
			x := enc(rs, bad)
			p := r.Intn(len(rs))
			ys := append([]rune(nil), rs...)
			ys[p] = hx.Pick(r, al.runes)
			zs := append([]rune(nil), ys...)
			// same-weight replacement at another place
			q := r.Intn(len(rs))
			for _, c := range al.runes {
				if c != zs[q] && k.c.Sorter(c) == k.c.Sorter(zs[q]) {
					zs[q] = c
					break
				}
			}
			out.Stat("long:random")
			lawCase(k, x, enc(ys, bad), enc(zs, bad))
			if i == 0 {
				wsCase(k, x)
			}
		}
	}

	// --- corpus ------------------------------------------------------------------------------
	if k, ok := byName["utf8mb4_0900_ai_ci"]; ok {
		lawCase(k, []byte("abc"), []byte("ABC"), []byte("\xc3\xa1bc"))
		lawCase(k, []byte("a"), []byte("a "), []byte("ab"))
		lawCase(k, []byte("\xff"), []byte("\xfe"), []byte("\xef\xbf\xbd")) // ill-formed bytes all weigh like U+FFFD
		likeCase(k, []byte("A%"), []byte("abc"), '\\')
		likeCase(k, []byte("a_c"), []byte("ABC"), '\\')
		likeCase(k, []byte("a\\"), []byte("a"), '\\')
		likeCase(k, []byte("%\xff"), []byte("a"), '\\')
		likeCase(k, []byte("%"), []byte("\xff"), '\\')
		wsCase(k, []byte("aA\xc3\xa9"))
		sqlCase(k, []byte("abc"), []byte("ABC"))
		sqlHashCase(k, []byte("abc"), []byte("ABC"), []byte("abd"))
	}
	if k, ok := byName["utf8mb4_bin"]; ok {
		lawCase(k, []byte("a\xf0\x90\x80\x80"), []byte("a\xef\xbf\xbf"), []byte("b"))
		sqlCase(k, []byte("abc"), []byte("ABC"))
	}
	if k, ok := byName["binary"]; ok {
		lawCase(k, []byte{0xff}, []byte{0xfe}, []byte{0xff, 0x00})
		wsCase(k, []byte{0xff, 0x00, 0x41})
	}
	if k, ok := byName["latin7_general_ci"]; ok {
		lawCase(k, []byte("T"), []byte("t"), []byte("u"))
	}
	if k, ok := byName["latin1_swedish_ci"]; ok {
		lawCase(k, []byte("\xc4\x80"), []byte("\xe4\xb8\xad"), []byte("z")) // outside the repertoire: one default weight
	}

	// --- per collation -----------------------------------------------------------------------
	quickSweep := map[string]bool{"utf8mb4_0900_ai_ci": true, "utf8mb4_0900_bin": true, "utf8mb4_bin": true, "utf8mb4_general_ci": true, "utf8mb4_unicode_ci": true,
		"utf8mb4_0900_as_cs": true, "latin1_swedish_ci": true, "latin1_bin": true, "utf8mb3_general_ci": true, "utf16_unicode_ci": true, "ascii_general_ci": true, "binary": true}
	nTrip := 120
	if a.Thorough {
		nTrip = 4000
	}
	for _, k := range cs {
		maxCP := 0x10000
		full := quickSweep[k.name]
		if a.Thorough && full {
			maxCP = 0x110000
		}
		tableOracle(k, 0x110000)
		switch {
		case k.bin:
			sweepCase(k, 0, 256)
		case full || a.Thorough:
			for lo := 0; lo < maxCP; lo += 256 {
				sweepCase(k, lo, lo+256)
			}
		default:
			// quick: Latin blocks and a random sample of the BMP for the other collations
			for lo := 0; lo < 0x300; lo += 256 {
				sweepCase(k, lo, lo+256)
			}
			for i := 0; i < 6; i++ {
				lo := r.Intn(0x1100) * 256
				sweepCase(k, lo, lo+256)
			}
		}
		longCases(k, full)
		for i := 0; i < nTrip; i++ {
			x := gen(k, nil)
			y := gen(k, x)
			z := gen(k, y)
			lawCase(k, x, y, z)
			switch r.Intn(6) {
			case 0:
				wsCase(k, x)
			case 1, 2:
				// pattern from y: sprinkle wildcards
				pat := append([]byte(nil), y...)
				if r.Chance(1, 2) && !k.bin {
					rs := k.runesOf(pat)
					pat = nil
					for _, c := range rs {
						switch r.Intn(6) {
						case 0:
							pat = append(pat, '%')
						case 1:
							pat = append(pat, '_')
						case 2:
							pat = append(pat, '\\')
							pat = utf8.AppendRune(pat, c)
						default:
							pat = utf8.AppendRune(pat, c)
						}
					}
					if r.Chance(1, 3) {
						pat = append(pat, '%')
					}
				}
				esc := '\\'
				if r.Chance(1, 8) {
					esc = '!'
				}
				likeCase(k, pat, x, esc)
			case 3:
				sqlCase(k, x, y)
			}
		}
	}
	_ = ctx
	return nil
}
