// c43probe — scratch probe for C43 (not part of the check): runs SQL lines from stdin in one session.
package main

import (
	"bufio"
	"fmt"
	"os"
	"strings"

	"github.com/dolthub/go-mysql-server/verifharness/hx/eng"
)

func main() {
	e := eng.New("d", "e2")
	if len(os.Args) > 1 && os.Args[1] == "acct" {
		e.E.Analyzer.Catalog.MySQLDb.AddRootAccount()
	}
	ctx := e.Ctx()
	sc := bufio.NewScanner(os.Stdin)
	sc.Buffer(make([]byte, 1<<20), 1<<20)
	for sc.Scan() {
		q := strings.TrimSpace(sc.Text())
		if q == "" || strings.HasPrefix(q, "#") {
			continue
		}
		r := e.Query(eng.SameSession(ctx), q)
		fmt.Printf("%s\n   => %s", q, r.Class())
		if r.Err != nil {
			fmt.Printf(" %v", r.Err)
		}
		if r.Panic != "" {
			fmt.Printf(" PANIC %s", r.Panic)
		}
		fmt.Println()
		for _, row := range r.Rows {
			fmt.Printf("      %s\n", strings.Join(row, " | "))
		}
	}
}
