// C24 — Stored procedures follow structured-program semantics.
//
// extract: semantic tables of sql/procedures (op codes, per-statement op shapes, goto placeholders,
//
//	the scan bounds and push/pop table of OpCode_Goto, error numbers) → lean/Gms/Generated/C24.lean
//
// run:     generated procedure bodies → (a) real procedures.Parse op list, (b) CREATE PROCEDURE + CALLs
//
//	on the real engine (OUT/INOUT user variables, trace table, error class); plus a model-free
//	oracle: a direct Go interpretation of the body (the property's own statement).
package main

import (
	"context"
	"fmt"
	"os"
	"strings"
	"time"

	"github.com/dolthub/go-mysql-server/memory"
	"github.com/dolthub/go-mysql-server/sql"
	"github.com/dolthub/go-mysql-server/sql/procedures"
	"github.com/dolthub/go-mysql-server/verifharness/hx"
	"github.com/dolthub/go-mysql-server/verifharness/hx/eng"
	ast "github.com/dolthub/vitess/go/vt/sqlparser"
)

func main() {
	if len(os.Args) > 1 && os.Args[1] == "probe" {
		probe()
		return
	}
	hx.Main(extract, run)
}

// ---------------------------------------------------------------------------------------------
// Program representation (mirrors lean/Gms/Model/ProcLang.lean through the s-expression syntax
// documented in lean/Drivers/C24.lean).

type Expr struct {
	Op   string // lit null var add sub mul eq lt le and or not
	N    int64
	X    int
	A, B *Expr
}

type Arm struct {
	C    *Expr
	Body []*Stmt
}

type Stmt struct {
	Kind    string // block decl set emit if case while repeat loop leave iterate signal handler
	Exit     bool  // handler: EXIT (else CONTINUE)
	NotFound bool  // handler: FOR NOT FOUND (else SQLEXCEPTION)
	Label   int    // -1 = none
	X       int
	Dflt    *int64
	E       *Expr
	Arms    []Arm
	Else    []*Stmt
	HasElse bool
	Body    []*Stmt
}

func lit(n int64) *Expr       { return &Expr{Op: "lit", N: n} }
func vr(x int) *Expr          { return &Expr{Op: "var", X: x} }
func bin(op string, a, b *Expr) *Expr { return &Expr{Op: op, A: a, B: b} }

func (e *Expr) Sexp() string {
	switch e.Op {
	case "lit":
		return fmt.Sprintf("(lit %d)", e.N)
	case "null":
		return "null"
	case "var":
		return fmt.Sprintf("(var %d)", e.X)
	case "not":
		return "(not " + e.A.Sexp() + ")"
	}
	return "(" + e.Op + " " + e.A.Sexp() + " " + e.B.Sexp() + ")"
}

var sqlOp = map[string]string{"add": "+", "sub": "-", "mul": "*", "eq": "=", "lt": "<", "le": "<=", "and": "AND", "or": "OR"}

func (e *Expr) SQL() string {
	switch e.Op {
	case "lit":
		return fmt.Sprintf("%d", e.N)
	case "null":
		return "NULL"
	case "var":
		return fmt.Sprintf("v%d", e.X)
	case "not":
		return "(NOT " + e.A.SQL() + ")"
	}
	return "(" + e.A.SQL() + " " + sqlOp[e.Op] + " " + e.B.SQL() + ")"
}

func labSexp(l int) string {
	if l < 0 {
		return "-"
	}
	return fmt.Sprintf("%d", l)
}
func labPrefix(l int) string {
	if l < 0 {
		return ""
	}
	return fmt.Sprintf("l%d: ", l)
}

func stmtsSexp(ss []*Stmt) string {
	parts := make([]string, len(ss))
	for i, s := range ss {
		parts[i] = s.Sexp()
	}
	return strings.Join(parts, " ")
}

func sp(s string) string {
	if s == "" {
		return ""
	}
	return " " + s
}

func (s *Stmt) Sexp() string {
	switch s.Kind {
	case "block":
		return "(block " + labSexp(s.Label) + sp(stmtsSexp(s.Body)) + ")"
	case "decl":
		if s.Dflt == nil {
			return fmt.Sprintf("(decl %d -)", s.X)
		}
		return fmt.Sprintf("(decl %d %d)", s.X, *s.Dflt)
	case "set":
		return fmt.Sprintf("(set %d %s)", s.X, s.E.Sexp())
	case "emit":
		return "(emit " + s.E.Sexp() + ")"
	case "if", "case":
		var b strings.Builder
		if s.Kind == "if" {
			b.WriteString("(if")
		} else if s.E != nil {
			b.WriteString("(case " + s.E.Sexp())
		} else {
			b.WriteString("(case -")
		}
		for _, a := range s.Arms {
			b.WriteString(" (arm " + a.C.Sexp() + sp(stmtsSexp(a.Body)) + ")")
		}
		if s.HasElse || s.Kind == "if" {
			b.WriteString(" (else" + sp(stmtsSexp(s.Else)) + ")")
		} else {
			b.WriteString(" (noelse)")
		}
		b.WriteString(")")
		return b.String()
	case "while":
		return "(while " + labSexp(s.Label) + " " + s.E.Sexp() + sp(stmtsSexp(s.Body)) + ")"
	case "repeat":
		return "(repeat " + labSexp(s.Label) + " " + s.E.Sexp() + sp(stmtsSexp(s.Body)) + ")"
	case "loop":
		return "(loop " + labSexp(s.Label) + sp(stmtsSexp(s.Body)) + ")"
	case "leave":
		return fmt.Sprintf("(leave %d)", s.Label)
	case "iterate":
		return fmt.Sprintf("(iterate %d)", s.Label)
	case "signal":
		return "(signal)"
	case "handler":
		return fmt.Sprintf("(handler %s %s %d %s)", handlerAct(s), strings.ReplaceAll(strings.ToLower(handlerCond(s)), " ", ""), s.X, s.E.Sexp())
	}
	panic("kind " + s.Kind)
}

func stmtsSQL(ss []*Stmt) string {
	var b strings.Builder
	for _, s := range ss {
		b.WriteString(s.SQL())
		b.WriteString("; ")
	}
	return b.String()
}

func (s *Stmt) SQL() string {
	switch s.Kind {
	case "block":
		return labPrefix(s.Label) + "BEGIN " + stmtsSQL(s.Body) + "END"
	case "decl":
		if s.Dflt == nil {
			return fmt.Sprintf("DECLARE v%d INT", s.X)
		}
		return fmt.Sprintf("DECLARE v%d INT DEFAULT %d", s.X, *s.Dflt)
	case "set":
		return fmt.Sprintf("SET v%d = %s", s.X, s.E.SQL())
	case "emit":
		return "INSERT INTO lg(v) VALUES (" + s.E.SQL() + ")"
	case "if":
		var b strings.Builder
		for i, a := range s.Arms {
			if i == 0 {
				b.WriteString("IF ")
			} else {
				b.WriteString("ELSEIF ")
			}
			b.WriteString(a.C.SQL() + " THEN " + stmtsSQL(a.Body))
		}
		if len(s.Else) > 0 {
			b.WriteString("ELSE " + stmtsSQL(s.Else))
		}
		b.WriteString("END IF")
		return b.String()
	case "case":
		var b strings.Builder
		b.WriteString("CASE ")
		if s.E != nil {
			b.WriteString(s.E.SQL() + " ")
		}
		for _, a := range s.Arms {
			b.WriteString("WHEN " + a.C.SQL() + " THEN " + stmtsSQL(a.Body))
		}
		if s.HasElse {
			b.WriteString("ELSE " + stmtsSQL(s.Else))
		}
		b.WriteString("END CASE")
		return b.String()
	case "while":
		return labPrefix(s.Label) + "WHILE " + s.E.SQL() + " DO " + stmtsSQL(s.Body) + "END WHILE"
	case "repeat":
		return labPrefix(s.Label) + "REPEAT " + stmtsSQL(s.Body) + "UNTIL " + s.E.SQL() + " END REPEAT"
	case "loop":
		return labPrefix(s.Label) + "LOOP " + stmtsSQL(s.Body) + "END LOOP"
	case "leave":
		return fmt.Sprintf("LEAVE l%d", s.Label)
	case "iterate":
		return fmt.Sprintf("ITERATE l%d", s.Label)
	case "signal":
		return "SIGNAL SQLSTATE '45000'"
	case "handler":
		return fmt.Sprintf("DECLARE %s HANDLER FOR %s SET v%d = %s", strings.ToUpper(handlerAct(s)), handlerCond(s), s.X, s.E.SQL())
	}
	panic("kind " + s.Kind)
}

type Param struct {
	Name int
	Mode string // in out inout
}

type Arg struct {
	IsU bool
	U   int
	Lit *int64 // nil = NULL
}

type Case struct {
	H      bool // handler case: label-free body with DECLARE … HANDLER, sent to the model of ProcHandler.lean (head hproc)
	Params []Param
	Body   *Stmt // outermost statement (a block)
	Uvars  []*int64
	Calls  [][]Arg
}

func valSexp(v *int64) string {
	if v == nil {
		return "N"
	}
	return fmt.Sprintf("%d", *v)
}

func (c *Case) Sexp() string {
	var ps, us, cs []string
	for _, p := range c.Params {
		ps = append(ps, fmt.Sprintf("(%s %d)", p.Mode, p.Name))
	}
	for i, u := range c.Uvars {
		us = append(us, fmt.Sprintf("(%d %s)", i, valSexp(u)))
	}
	for _, call := range c.Calls {
		var as []string
		for _, a := range call {
			if a.IsU {
				as = append(as, fmt.Sprintf("(u %d)", a.U))
			} else {
				as = append(as, "(lit "+valSexp(a.Lit)+")")
			}
		}
		cs = append(cs, "("+strings.Join(as, " ")+")")
	}
	flag := ""
	if staleIntoClosedBlock(c.Body) {
		flag = " (norun)"
	}
	head := "(proc"
	if c.H {
		head = "(hproc"
	}
	return head + " (params" + sp(strings.Join(ps, " ")) + ") (body " + c.Body.Sexp() + ") (uvars" + sp(strings.Join(us, " ")) +
		") (calls" + sp(strings.Join(cs, " ")) + ")" + flag + ")"
}

func (c *Case) CreateSQL(name string) string {
	var ps []string
	for _, p := range c.Params {
		ps = append(ps, fmt.Sprintf("%s v%d INT", strings.ToUpper(p.Mode), p.Name))
	}
	return "CREATE PROCEDURE " + name + "(" + strings.Join(ps, ", ") + ") " + c.Body.SQL()
}

func (c *Case) CallSQL(name string, call []Arg) string {
	var as []string
	for _, a := range call {
		switch {
		case a.IsU:
			as = append(as, fmt.Sprintf("@u%d", a.U))
		case a.Lit == nil:
			as = append(as, "NULL")
		default:
			as = append(as, fmt.Sprintf("%d", *a.Lit))
		}
	}
	return "CALL " + name + "(" + strings.Join(as, ", ") + ")"
}

// ---------------------------------------------------------------------------------------------
// Real code, compile level: procedures.Parse of the parsed CREATE PROCEDURE body.

var opNames = map[procedures.OpCode]string{
	procedures.OpCode_Select: "Select", procedures.OpCode_Declare: "Declare", procedures.OpCode_Signal: "Signal",
	procedures.OpCode_Open: "Open", procedures.OpCode_Fetch: "Fetch", procedures.OpCode_Close: "Close",
	procedures.OpCode_Set: "Set", procedures.OpCode_Call: "Call", procedures.OpCode_If: "If", procedures.OpCode_Goto: "Goto",
	procedures.OpCode_Execute: "Execute", procedures.OpCode_Exception: "Exception", procedures.OpCode_Return: "Return",
	procedures.OpCode_ScopeBegin: "ScopeBegin", procedures.OpCode_ScopeEnd: "ScopeEnd",
}

func realOps(createSQL string) (string, error) {
	stmt, err := ast.Parse(createSQL)
	if err != nil {
		return "", err
	}
	ddl, ok := stmt.(*ast.DDL)
	if !ok || ddl.ProcedureSpec == nil {
		return "", fmt.Errorf("not a CREATE PROCEDURE: %T", stmt)
	}
	ops, err := procedures.Parse(ddl.ProcedureSpec.Body)
	if err != nil {
		return "", err
	}
	parts := make([]string, len(ops))
	for i, op := range ops {
		t := op.Target
		if t == "" {
			t = "-"
		}
		parts[i] = fmt.Sprintf("%s/%d/%s", opNames[op.OpCode], op.Index, t)
	}
	return "ops=" + strings.Join(parts, " "), nil
}

// ---------------------------------------------------------------------------------------------
// Real code, run level.

type runner struct {
	e    *eng.Eng
	n    int
	conn uint32
}

func newRunner() *runner {
	e := eng.New("d")
	e.MustExec(e.Ctx(), "create table lg (id int primary key auto_increment, v bigint)")
	return &runner{e: e, conn: 5000}
}

func (r *runner) session() (sql.Session, func(context.Context) *sql.Context) {
	r.conn++
	bs := sql.NewBaseSessionWithClientServer("localhost:3306", sql.Client{Address: "localhost", User: "root"}, r.conn)
	sess := memory.NewSession(bs, r.e.Pro)
	return sess, func(c context.Context) *sql.Context {
		ctx := sql.NewContext(c, sql.WithSession(sess))
		ctx.SetCurrentDatabase("d")
		return ctx
	}
}

func cell(r *eng.Res, i, j int) string {
	if r.Null[i][j] {
		return "N"
	}
	return r.Rows[i][j]
}

// runCase executes the case on the real engine and returns the run-level observation.
func (r *runner) runCase(c *Case) string {
	r.n++
	name := fmt.Sprintf("p%d", r.n)
	_, mk := r.session()
	bg := context.Background()
	q := func(s string) *eng.Res { return r.e.Query(mk(bg), s) }
	for i, u := range c.Uvars {
		v := "NULL"
		if u != nil {
			v = fmt.Sprintf("%d", *u)
		}
		if res := q(fmt.Sprintf("SET @u%d = %s", i, v)); res.Class() != "ok" {
			return "setup-" + res.Class()
		}
	}
	if res := q(c.CreateSQL(name)); res.Class() != "ok" {
		return "create-" + res.Class()
	}
	defer q("DROP PROCEDURE " + name)
	var obs []string
	for _, call := range c.Calls {
		cctx, cancel := context.WithCancel(bg)
		res := r.e.QueryTimeout(mk(cctx), c.CallSQL(name, call), 10*time.Second)
		cancel()
		class := res.Class()
		var us []string
		if len(c.Uvars) > 0 {
			var sel []string
			for i := range c.Uvars {
				sel = append(sel, fmt.Sprintf("@u%d", i))
			}
			ur := q("SELECT " + strings.Join(sel, ", "))
			if ur.Class() != "ok" || len(ur.Rows) != 1 {
				us = append(us, "uvars-"+ur.Class())
			} else {
				for j := range c.Uvars {
					us = append(us, cell(ur, 0, j))
				}
			}
		}
		lr := q("SELECT v FROM lg ORDER BY id")
		var ls []string
		if lr.Class() != "ok" {
			ls = append(ls, "log-"+lr.Class())
		}
		for i := range lr.Rows {
			ls = append(ls, cell(lr, i, 0))
		}
		q("DELETE FROM lg")
		obs = append(obs, class+"|"+strings.Join(us, ",")+"|"+strings.Join(ls, ","))
	}
	return strings.Join(obs, " ; ")
}

// ---------------------------------------------------------------------------------------------

func run(a hx.RunArgs) error {
	out := hx.NewOut(a.OutDir)
	defer out.Close()
	out.Rule = "generated procedure bodies (nested BEGIN…END with DECLARE, SET, IF/ELSEIF/ELSE, CASE with and without ELSE, WHILE/REPEAT/LOOP with LEAVE/ITERATE (a third of the LOOP bodies are one BEGIN…END block), " +
		"SIGNAL, a trace INSERT) with 0-3 IN/OUT/INOUT parameters and 1-2 CALLs in one session; handler cases (a quarter of the stream): label-free bodies whose blocks declare EXIT/CONTINUE handlers for SQLEXCEPTION/NOT FOUND (statement: SET), conditions raised by SIGNAL and CASE without a matching arm in the handler's block, in nested blocks, IF arms and WHILE bodies, with statements behind the failing statement, the nested block and the handler's block; observation = real procedures.Parse op list + " +
		"CALL outcome class, user variables and trace rows; a case is non-trivial when the body has a loop or a LEAVE/ITERATE (handler cases: a condition raised under an SQLEXCEPTION handler) and at least one trace row or OUT value was produced"
	r := hx.NewRand(a.Seed)
	rn := newRunner()

	one := func(c *Case, tag string) {
		sexp := c.Sexp()
		opsObs, err := realOps(c.CreateSQL("p"))
		if err != nil {
			opsObs = "ops-error:" + err.Error()
		}
		runObs := ""
		if p := hx.Safe(func() { runObs = rn.runCase(c) }); p != "" {
			runObs = "crash:" + p
		}
		feat := features(c.Body)
		nontriv := (feat["loop"] || feat["jump"]) && strings.ContainsAny(runObs, "0123456789")
		if c.H {
			for k := range hfeatures(c.Body) {
				feat["h:"+k] = true
			}
			nontriv = (feat["h:raise-in-nested-block"] || feat["h:raise-in-handler-block"]) && strings.ContainsAny(runObs, "0123456789")
		}
		// see norun.go: run level outside the model ⇒ compile-level correspondence + oracle only
		norun := staleIntoClosedBlock(c.Body)
		sent := runObs
		if norun {
			sent = norunObs
			out.Stat("norun:stale-jump-into-closed-block")
		}
		id := out.Case(sexp, opsObs+" ;; "+sent, nontriv)
		out.Stat("gen:" + tag)
		for k := range feat {
			out.Stat("feature:" + k)
		}
		for _, part := range strings.Split(runObs, " ; ") {
			out.Stat("outcome:" + strings.SplitN(part, "|", 2)[0])
		}
		// model-free oracle: direct interpretation of the body
		want, determined := interpretCase(c)
		if determined && want != runObs {
			otag := "-" // inherits the region the model assigns to the case
			if norun {
				otag = "stale_label_iterate"
			}
			out.OracleFail(id, otag, fmt.Sprintf("CALL gives %q, direct interpretation of the body gives %q: %s", runObs, want, c.CreateSQL("p")))
		}
	}

	for _, c := range corpus() {
		one(c, "corpus")
	}
	for _, c := range hcorpus() {
		one(c, "hcorpus")
	}
	n := 1200
	if a.Thorough {
		n = 30000
	}
	// handler cases draw from their own stream so that the proc cases of a seed stay what they were
	hr := hx.NewRand(a.Seed*7919 + 17).Fork()
	for i := 0; i < n; i++ {
		g := &gen{r: r}
		one(g.genCase(), "random")
		if i%3 == 0 {
			hg := &hgen{gen: &gen{r: hr}}
			one(hg.genCase(), "hrandom")
		}
	}
	return nil
}
