package main

import "os"

func main() {
	if len(os.Args) > 1 && os.Args[1] == "probe" {
		probe()
		return
	}
}
