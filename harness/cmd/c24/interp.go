package main

import (
	"fmt"
	"strings"
)

// Model-free oracle: a direct interpretation of the procedure body (structured semantics as MySQL
// defines them: lexical scoping, DECLARE without DEFAULT is NULL, OUT parameters start as NULL,
// REPEAT runs until the condition is TRUE, ITERATE restarts the loop statement, LEAVE exits the
// labelled statement). Written independently of the Lean Spec; both are compared with the engine.

type val = *int64

type interp struct {
	scopes []map[int]*val // innermost last
	hscope [][]*Stmt      // handlers declared in each scope (parallel to scopes)
	params map[int]*val
	log    []val
	steps  int
}

type sigKind int

const (
	sNormal sigKind = iota
	sLeave
	sIterate
	sError
	sFuel
	sExit // an EXIT handler ran: leave the block whose scope has index `label` in in.scopes
)

type sig struct {
	k     sigKind
	label int
	code  int
}

func b2v(b bool) val {
	if b {
		return i64(1)
	}
	return i64(0)
}

func (in *interp) cell(x int) *val {
	for i := len(in.scopes) - 1; i >= 0; i-- {
		if c, ok := in.scopes[i][x]; ok {
			return c
		}
	}
	if c, ok := in.params[x]; ok {
		return c
	}
	return nil
}

func (in *interp) eval(e *Expr) (val, bool) {
	switch e.Op {
	case "lit":
		return i64(e.N), true
	case "null":
		return nil, true
	case "var":
		c := in.cell(e.X)
		if c == nil {
			return nil, false
		}
		return *c, true
	case "not":
		a, ok := in.eval(e.A)
		if !ok {
			return nil, false
		}
		if a == nil {
			return nil, true
		}
		return b2v(*a == 0), true
	}
	a, ok1 := in.eval(e.A)
	b, ok2 := in.eval(e.B)
	if !ok1 || !ok2 {
		return nil, false
	}
	switch e.Op {
	case "and":
		if (a != nil && *a == 0) || (b != nil && *b == 0) {
			return i64(0), true
		}
		if a == nil || b == nil {
			return nil, true
		}
		return i64(1), true
	case "or":
		if (a != nil && *a != 0) || (b != nil && *b != 0) {
			return i64(1), true
		}
		if a == nil || b == nil {
			return nil, true
		}
		return i64(0), true
	}
	if a == nil || b == nil {
		return nil, true
	}
	switch e.Op {
	case "add":
		return i64(*a + *b), true
	case "sub":
		return i64(*a - *b), true
	case "mul":
		return i64(*a * *b), true
	case "eq":
		return b2v(*a == *b), true
	case "lt":
		return b2v(*a < *b), true
	case "le":
		return b2v(*a <= *b), true
	}
	panic("op " + e.Op)
}

func truthy(v val) bool { return v != nil && *v != 0 }

func (in *interp) seq(ss []*Stmt) sig {
	for _, s := range ss {
		if r := in.stmt(s); r.k != sNormal {
			return r
		}
	}
	return sig{}
}

// stmt runs s; a condition it raises is given to the innermost enclosing SQLEXCEPTION handler: the
// handler's SET runs in the scope of the block that declared it, then CONTINUE completes s and EXIT
// completes the declaring block. (An error that found no handler finds none further out either: the
// enclosing statements see a subset of the scopes.)
func (in *interp) stmt(s *Stmt) sig {
	r := in.stmt0(s)
	if r.k != sError {
		return r
	}
	for d := len(in.hscope) - 1; d >= 0; d-- {
		for _, h := range in.hscope[d] {
			if h.NotFound {
				continue
			}
			saved, savedH := in.scopes, in.hscope
			in.scopes, in.hscope = in.scopes[:d+1], in.hscope[:d+1]
			hr := in.stmt0(&Stmt{Kind: "set", X: h.X, E: h.E})
			in.scopes, in.hscope = saved, savedH
			if hr.k != sNormal {
				return hr
			}
			if h.Exit {
				return sig{k: sExit, label: d}
			}
			return sig{}
		}
	}
	return r
}

func (in *interp) stmt0(s *Stmt) sig {
	in.steps++
	if in.steps > 100000 {
		return sig{k: sFuel}
	}
	unresolved := sig{k: sError, code: 1105}
	switch s.Kind {
	case "block":
		in.scopes = append(in.scopes, map[int]*val{})
		in.hscope = append(in.hscope, nil)
		r := in.seq(s.Body)
		in.scopes = in.scopes[:len(in.scopes)-1]
		in.hscope = in.hscope[:len(in.hscope)-1]
		if r.k == sLeave && r.label == s.Label {
			return sig{}
		}
		if r.k == sExit && r.label == len(in.scopes) {
			return sig{}
		}
		return r
	case "handler":
		in.hscope[len(in.hscope)-1] = append(in.hscope[len(in.hscope)-1], s)
	case "decl":
		var v val
		if s.Dflt != nil {
			v = i64(*s.Dflt)
		}
		in.scopes[len(in.scopes)-1][s.X] = &v
	case "set":
		v, ok := in.eval(s.E)
		if !ok {
			return unresolved
		}
		c := in.cell(s.X)
		if c == nil {
			return unresolved
		}
		*c = v
	case "emit":
		v, ok := in.eval(s.E)
		if !ok {
			return unresolved
		}
		in.log = append(in.log, v)
	case "if", "case":
		for _, a := range s.Arms {
			c := a.C
			if s.Kind == "case" && s.E != nil {
				c = bin("eq", s.E, a.C)
			}
			v, ok := in.eval(c)
			if !ok {
				return unresolved
			}
			if truthy(v) {
				return in.seq(a.Body)
			}
		}
		if s.Kind == "case" && !s.HasElse {
			return sig{k: sError, code: 1339}
		}
		return in.seq(s.Else)
	case "while", "repeat", "loop":
		for {
			in.steps++
			if in.steps > 100000 {
				return sig{k: sFuel}
			}
			if s.Kind == "while" {
				v, ok := in.eval(s.E)
				if !ok {
					return unresolved
				}
				if !truthy(v) {
					return sig{}
				}
			}
			r := in.seq(s.Body)
			switch {
			case r.k == sLeave && r.label == s.Label && s.Label >= 0:
				return sig{}
			case r.k == sIterate && r.label == s.Label && s.Label >= 0:
				continue
			case r.k != sNormal:
				return r
			}
			if s.Kind == "repeat" {
				v, ok := in.eval(s.E)
				if !ok {
					return unresolved
				}
				if truthy(v) {
					return sig{}
				}
			}
		}
	case "leave":
		return sig{k: sLeave, label: s.Label}
	case "iterate":
		return sig{k: sIterate, label: s.Label}
	case "signal":
		return sig{k: sError, code: 1644}
	}
	return sig{}
}

func showV(v val) string {
	if v == nil {
		return "N"
	}
	return fmt.Sprintf("%d", *v)
}

// interpretCase returns the expected run-level observation; determined=false if the step bound hit.
func interpretCase(c *Case) (string, bool) {
	uv := make([]val, len(c.Uvars))
	copy(uv, c.Uvars)
	var obs []string
	for _, call := range c.Calls {
		in := &interp{params: map[int]*val{}}
		for i, p := range c.Params {
			var v val
			if p.Mode != "out" {
				if call[i].IsU {
					v = uv[call[i].U]
				} else {
					v = call[i].Lit
				}
			}
			vv := v
			in.params[p.Name] = &vv
		}
		r := in.stmt(c.Body)
		class := "ok"
		switch r.k {
		case sFuel:
			return "", false
		case sError:
			class = fmt.Sprintf("err:%d", r.code)
		case sLeave, sIterate, sExit:
			class = "crash"
		default:
			for i, p := range c.Params {
				if p.Mode != "in" && call[i].IsU {
					uv[call[i].U] = *in.params[p.Name]
				}
			}
		}
		var us, ls []string
		for _, v := range uv {
			us = append(us, showV(v))
		}
		for _, v := range in.log {
			ls = append(ls, showV(v))
		}
		obs = append(obs, class+"|"+strings.Join(us, ",")+"|"+strings.Join(ls, ","))
	}
	return strings.Join(obs, " ; "), true
}
