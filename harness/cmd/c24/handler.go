package main

import (
	"github.com/dolthub/go-mysql-server/verifharness/hx"
)

// Handler cases (Lean model: lean/Gms/Model/ProcHandler.lean, payload head `hproc`).
//
// Envelope: label-free bodies (nested BEGIN…END, DECLARE with DEFAULT, SET, trace INSERT, IF, CASE with
// and without ELSE, guarded WHILE, SIGNAL SQLSTATE '45000') in which a block may declare, after its
// variables and before its statements, `DECLARE {EXIT|CONTINUE} HANDLER FOR {SQLEXCEPTION|NOT FOUND}
// SET v = e` — at most one handler per condition and block (MySQL rejects duplicates). Conditions are
// raised by SIGNAL and by CASE without a matching arm, at any block depth below the handler's block,
// inside IF/CASE arms and WHILE bodies, with observable statements behind the failing statement, behind
// the nested block, and behind the handler's block.
//
// Kept out, with the reason (each replayed on the engine with `c24 probe`):
//   - a handler statement that is an INSERT (any OpCode_Execute): handleError drains the statement's row
//     iterator in `for { _, err = rowIter.Next(ctx); if err != nil { return -1, err } }`, the io.EOF that
//     ends it is returned as (-1, io.EOF), Call takes that for an EXIT and restarts the procedure at op 0:
//     `DECLARE CONTINUE HANDLER FOR SQLEXCEPTION INSERT …; SIGNAL …` never returns (the CALL hits the
//     10 s limit and its goroutine keeps inserting). Not generated because every such case costs the time
//     limit; it is a defect of the unchanged tree (see the report of this change).
//   - a handler statement that is a BEGIN…END block or any multi-op statement: handleError compiles it
//     with the *run-time* stack as compile-time stack and executes only handlerOps[0].
//   - an error raised after a fired EXIT handler's block when no live outer SQLEXCEPTION handler exists:
//     the dead handler (its scope is never popped, region exit_handler_scope_leak) catches it and jumps
//     *back* to its block's ScopeEnd, the failing statement runs again: endless loop. The generator sets
//     noMoreFail behind such a block.
//   - OUT parameters with a non-NULL argument or a second CALL (region out_param_not_reset is exercised by
//     the proc cases; here OUT arguments start NULL and two-CALL cases use INOUT instead).

func handlerAct(s *Stmt) string {
	if s.Exit {
		return "exit"
	}
	return "continue"
}

func handlerCond(s *Stmt) string {
	if s.NotFound {
		return "NOT FOUND"
	}
	return "SQLEXCEPTION"
}

func hnd(exit, notFound bool, x int, e *Expr) *Stmt {
	return &Stmt{Kind: "handler", Exit: exit, NotFound: notFound, X: x, E: e, Label: -1}
}

type hctx struct {
	vars        []int
	depth       int
	underSqlexc bool // an enclosing block declares an SQLEXCEPTION handler
}

type hgen struct {
	*gen
	noMoreFail bool
}

func (g *hgen) raiseStmt(c *hctx) *Stmt {
	if g.noMoreFail {
		return &Stmt{Kind: "emit", E: g.intExpr(&gctx{vars: c.vars}, 1), Label: -1}
	}
	switch g.r.Intn(5) {
	case 0: // CASE without ELSE whose arms may or may not match
		s := &Stmt{Kind: "case", Label: -1, E: g.intExpr(&gctx{vars: c.vars}, 0)}
		s.Arms = append(s.Arms, Arm{C: lit(int64(g.r.Intn(3))), Body: []*Stmt{{Kind: "emit", E: lit(int64(40 + g.r.Intn(5))), Label: -1}}})
		return s
	case 1:
		return &Stmt{Kind: "if", Label: -1, Arms: []Arm{{C: g.boolExpr(&gctx{vars: c.vars}, 1), Body: []*Stmt{{Kind: "signal", Label: -1}}}}}
	default:
		return &Stmt{Kind: "signal", Label: -1}
	}
}

func (g *hgen) hsettable(c *hctx) []int {
	var out []int
	for _, v := range c.vars {
		if v != counterVar {
			out = append(out, v)
		}
	}
	return out
}

func (g *hgen) hblock(c *hctx, top bool) *Stmt {
	nc := &hctx{vars: append([]int{}, c.vars...), depth: c.depth + 1, underSqlexc: c.underSqlexc}
	b := &Stmt{Kind: "block", Label: -1}
	if top {
		b.Body = append(b.Body, &Stmt{Kind: "decl", X: counterVar, Dflt: i64(0), Label: -1})
		nc.vars = append(nc.vars, counterVar)
	}
	declared := map[int]bool{}
	for k := g.r.Intn(3); k > 0; k-- {
		x := 3 + g.r.Intn(3)
		if g.r.Chance(1, 6) {
			x = g.r.Intn(3)
		}
		if declared[x] {
			continue
		}
		declared[x] = true
		b.Body = append(b.Body, &Stmt{Kind: "decl", X: x, Dflt: i64(int64(g.r.Intn(6))), Label: -1})
		nc.vars = append(nc.vars, x)
	}
	// handlers: after the variables, before the statements
	leakRisk := false
	st := g.hsettable(nc)
	mk := func(notFound bool) {
		if len(st) == 0 {
			return
		}
		x := hx.Pick(g.r, st)
		var e *Expr
		switch g.r.Intn(4) {
		case 0:
			e = bin("add", vr(hx.Pick(g.r, st)), lit(int64(100*(1+g.r.Intn(3)))))
		case 1:
			e = vr(hx.Pick(g.r, st))
		default:
			e = lit(-int64(1 + g.r.Intn(9)))
		}
		h := hnd(g.r.Chance(3, 5), notFound, x, e)
		b.Body = append(b.Body, h)
		if !notFound {
			if h.Exit && !top && !nc.underSqlexc {
				leakRisk = true
			}
			nc.underSqlexc = true
		}
	}
	pS := 3
	if top {
		pS = 7
	}
	nfFirst := g.r.Chance(1, 12)
	if nfFirst {
		mk(true)
	}
	if g.r.Chance(pS, 10) {
		mk(false)
	}
	if !nfFirst && g.r.Chance(1, 12) {
		mk(true)
	}
	n := 2 + g.r.Intn(4)
	for i := 0; i < n && g.budget > 0; i++ {
		b.Body = append(b.Body, g.hstmt(nc))
	}
	if len(b.Body) == 0 || b.Body[len(b.Body)-1].Kind == "handler" || b.Body[len(b.Body)-1].Kind == "decl" {
		b.Body = append(b.Body, &Stmt{Kind: "emit", E: g.intExpr(&gctx{vars: nc.vars}, 1), Label: -1})
	}
	if leakRisk {
		g.noMoreFail = true
	}
	return b
}

func (g *hgen) hstmts(c *hctx, n int) []*Stmt {
	var out []*Stmt
	for i := 0; i < n && g.budget > 0; i++ {
		out = append(out, g.hstmt(c))
	}
	if len(out) == 0 {
		out = append(out, &Stmt{Kind: "emit", E: g.intExpr(&gctx{vars: c.vars}, 1), Label: -1})
	}
	return out
}

func (g *hgen) hstmt(c *hctx) *Stmt {
	g.budget--
	gc := &gctx{vars: c.vars}
	deep := c.depth >= 4
	k := g.r.Intn(100)
	switch {
	case k < 20:
		if st := g.hsettable(c); len(st) > 0 {
			return &Stmt{Kind: "set", X: hx.Pick(g.r, st), E: g.setRhs(gc), Label: -1}
		}
		return &Stmt{Kind: "emit", E: g.intExpr(gc, 2), Label: -1}
	case k < 38:
		return &Stmt{Kind: "emit", E: g.intExpr(gc, 2), Label: -1}
	case k < 60 && !deep:
		return g.hblock(c, false)
	case k < 70 && !deep:
		nc := &hctx{vars: c.vars, depth: c.depth + 1, underSqlexc: c.underSqlexc}
		s := &Stmt{Kind: "if", Label: -1}
		for a := 1 + g.r.Intn(2); a > 0; a-- {
			s.Arms = append(s.Arms, Arm{C: g.boolExpr(gc, 1), Body: g.hstmts(nc, 1+g.r.Intn(2))})
		}
		if g.r.Chance(1, 2) {
			s.Else = g.hstmts(nc, 1+g.r.Intn(2))
		}
		return s
	case k < 78 && !deep:
		nc := &hctx{vars: c.vars, depth: c.depth + 1, underSqlexc: c.underSqlexc}
		s := &Stmt{Kind: "while", Label: -1, E: bin("and", bin("lt", vr(counterVar), lit(loopCap)), g.boolExpr(gc, 1))}
		s.Body = append(guard(-1), g.hstmts(nc, 1+g.r.Intn(3))...)
		return s
	case k < 94:
		return g.raiseStmt(c)
	default:
		return &Stmt{Kind: "emit", E: g.boolExpr(gc, 1), Label: -1}
	}
}

func (g *hgen) genCase() *Case {
	g.budget = 10 + g.r.Intn(12)
	c := &Case{H: true}
	np := g.r.Intn(4)
	ctx := &hctx{}
	twoCalls := g.r.Chance(1, 4)
	for i := 0; i < np; i++ {
		m := hx.Pick(g.r, []string{"in", "out", "inout", "out"})
		if twoCalls && m == "out" {
			m = "inout"
		}
		c.Params = append(c.Params, Param{Name: i, Mode: m})
		ctx.vars = append(ctx.vars, i)
	}
	for i := 0; i < 3; i++ {
		if g.r.Bool() || (i < np && c.Params[i].Mode == "out") {
			c.Uvars = append(c.Uvars, nil)
		} else {
			c.Uvars = append(c.Uvars, i64(int64(g.r.Intn(10))))
		}
	}
	c.Body = g.hblock(ctx, true)
	calls := 1
	if twoCalls {
		calls = 2
	}
	for k := 0; k < calls; k++ {
		var call []Arg
		for i, p := range c.Params {
			if p.Mode == "in" && g.r.Bool() {
				call = append(call, Arg{Lit: i64(int64(g.r.Intn(6)))})
			} else {
				call = append(call, Arg{IsU: true, U: i})
			}
		}
		c.Calls = append(c.Calls, call)
	}
	return c
}

// hfeatures: distribution record of a handler case.
func hfeatures(body *Stmt) map[string]bool {
	f := map[string]bool{}
	// depth = block depth (body = 1); hd = depths of the enclosing blocks that declare an SQLEXCEPTION handler
	var walk func(ss []*Stmt, depth int, hd []int, exitAt []bool)
	walk = func(ss []*Stmt, depth int, hd []int, exitAt []bool) {
		for i, s := range ss {
			switch s.Kind {
			case "handler":
				f["handler-"+handlerAct(s)] = true
				if s.NotFound {
					f["handler-notfound"] = true
				}
			case "signal", "case":
				if s.Kind == "case" && s.HasElse {
					break
				}
				if len(hd) > 0 {
					inner := hd[len(hd)-1]
					switch {
					case inner == depth:
						f["raise-in-handler-block"] = true
					default:
						f["raise-in-nested-block"] = true
						if exitAt[len(exitAt)-1] {
							f["raise-nested-under-exit"] = true
						}
					}
				} else {
					f["raise-unhandled"] = true
				}
			case "block":
				nh, ne := hd, exitAt
				for _, d := range s.Body {
					if d.Kind == "handler" && !d.NotFound {
						nh = append(append([]int{}, hd...), depth+1)
						ne = append(append([]bool{}, exitAt...), d.Exit)
					}
				}
				if i+1 < len(ss) && len(hd) > 0 {
					f["stmts-behind-nested-block"] = true
				}
				walk(s.Body, depth+1, nh, ne)
				continue
			case "while":
				f["while"] = true
			case "if":
				f["if"] = true
			}
			walk(s.Body, depth, hd, exitAt)
			for _, a := range s.Arms {
				walk(a.Body, depth, hd, exitAt)
			}
			walk(s.Else, depth, hd, exitAt)
		}
	}
	walk([]*Stmt{body}, 0, nil, nil)
	return f
}

// hcorpus: the README shape of the class (outer EXIT handler, error in a nested block, statements behind
// it), CONTINUE through a nested block, a handler that must not match, and one witness per listed region.
func hcorpus() []*Case {
	out1 := []Param{{0, "out"}}
	nul3 := []*int64{nil, nil, nil}
	sig := func() *Stmt { return &Stmt{Kind: "signal", Label: -1} }
	mkc := func(body *Stmt) *Case {
		return &Case{H: true, Params: out1, Uvars: nul3, Calls: [][]Arg{{u(0)}}, Body: body}
	}
	var cs []*Case
	// EXIT handler of the outer block, error in a nested block: r = -1, trace 1 (statements behind the nested block do not run)
	cs = append(cs, mkc(blk(-1, hnd(true, false, 0, lit(-1)), set(0, lit(1)),
		blk(-1, emit(lit(1)), sig(), set(0, lit(2))), set(0, lit(3)), emit(lit(9)))))
	// two levels down, inside an IF, behind a WHILE round
	cs = append(cs, mkc(blk(-1, decl(9, 0), hnd(true, false, 0, lit(-1)), set(0, lit(1)),
		blk(-1, decl(3, 0), &Stmt{Kind: "while", Label: -1, E: bin("lt", vr(9), lit(3)), Body: []*Stmt{
			set(9, bin("add", vr(9), lit(1))), blk(-1, emit(vr(9)), ifs(bin("eq", vr(9), lit(2)), sig()), emit(lit(7)))}},
			emit(lit(8))), set(0, lit(3)), emit(lit(9)))))
	// the handler's block is itself nested and is the one that must be left; the enclosing block goes on (no shadowing: no leak visible)
	cs = append(cs, mkc(blk(-1, set(0, lit(1)), blk(-1, hnd(true, false, 0, lit(-1)), blk(-1, sig(), emit(lit(1))), emit(lit(2))),
		emit(lit(3)), set(0, bin("add", vr(0), lit(10))))))
	// CONTINUE: resumes behind the failing statement inside the nested block: r = 112
	cs = append(cs, mkc(blk(-1, hnd(false, false, 0, bin("add", vr(0), lit(100))), set(0, lit(1)),
		blk(-1, sig(), set(0, bin("add", vr(0), lit(1)))), set(0, bin("add", vr(0), lit(10))))))
	// CASE without a matching arm under a CONTINUE handler, twice
	cs = append(cs, &Case{H: true, Params: []Param{{0, "in"}, {1, "inout"}}, Uvars: []*int64{nil, i64(0), nil},
		Calls: [][]Arg{{{Lit: i64(1)}, u(1)}, {{Lit: i64(2)}, u(1)}},
		Body: blk(-1, hnd(false, false, 1, bin("add", vr(1), lit(100))),
			&Stmt{Kind: "case", Label: -1, E: vr(0), Arms: []Arm{{C: lit(1), Body: []*Stmt{set(1, bin("add", vr(1), lit(1)))}}}},
			emit(vr(1)))})
	// NOT FOUND handler does not catch SQLSTATE 45000: err 1644
	cs = append(cs, mkc(blk(-1, hnd(true, true, 0, lit(-1)), set(0, lit(1)), sig(), set(0, lit(2)))))
	// region nested_handler_outermost_wins: engine r = -1, no trace; structured r = 3, trace -2
	cs = append(cs, mkc(blk(-1, hnd(true, false, 0, lit(-1)), set(0, lit(1)),
		blk(-1, hnd(true, false, 0, lit(-2)), sig(), set(0, lit(2))), emit(vr(0)), set(0, lit(3)))))
	// region exit_handler_scope_leak: engine r = 2, trace 2; structured r = 1, trace 1
	cs = append(cs, mkc(blk(-1, decl(3, 1), blk(-1, decl(3, 2), hnd(true, false, 0, lit(-1)), sig(), set(0, lit(2))),
		emit(vr(3)), set(0, vr(3)))))
	// region handler_body_dynamic_scope: engine r = 1, trace 7,1; structured r = 7, trace 2,7
	cs = append(cs, mkc(blk(-1, decl(3, 1), hnd(false, false, 3, lit(7)), blk(-1, decl(3, 2), sig(), emit(vr(3))),
		emit(vr(3)), set(0, vr(3)))))
	return cs
}
