package main

// Cases the Impl model does not predict at run level (Go twin of `staleIntoClosedBlock` in
// lean/Gms/Model/ProcLang.lean; the driver recomputes the predicate on every case and rejects a
// case whose `(norun)` flag differs from it, so the two implementations cannot drift silently).
//
// The class: an ITERATE l compiled against a *stale* registration of l (region stale_label_iterate)
// whose registering LOOP/REPEAT lies inside a BEGIN…END block that does not enclose the ITERATE. The
// backward Goto enters a block that has been closed; its scan re-pushes an empty scope for the
// block's ScopeEnd, so the block's variables do not resolve any more. What the engine does then
// depends on a cache the model does not carry: replaceVariablesInExpr writes the substituted value
// into the ColName node of the op's AST (shared by the two copies of a REPEAT body) and returns the
// node unchanged when the name does not resolve — an unresolved name silently evaluates to the value
// it had at the previous evaluation of that node, and fails with errno 1105 only if the node was
// never evaluated. Replayed on the engine (probe):
//
//	BEGIN DECLARE k INT DEFAULT 0;
//	  BEGIN DECLARE y INT DEFAULT 10; l: REPEAT SET k=k+1; INSERT INTO lg(v) VALUES (y+k); UNTIL k >= 1 OR y < 0 END REPEAT; END;
//	  l: WHILE k < 4 DO SET k=k+1; IF k = 3 THEN ITERATE l; END IF; INSERT INTO lg(v) VALUES (k*100); END WHILE; END
//	→ CALL ok, trace 11,200,400 (the model: err 1105 at the ITERATE, "y" is gone); with the inner block
//	under an IF that is not taken → err 1105 column "y" could not be found.
//
// Such a case stays in the compile-level correspondence (op lists), its run-level observation is
// replaced by norunObs, and the property is evaluated on it by the direct-interpretation oracle alone
// (a difference is reported under the listed region stale_label_iterate, which the case is in by
// construction of the predicate).

const norunObs = "unmodelled:stale-jump-into-closed-block"

type regLabel struct {
	name int
	path []int // ids of the blocks enclosing the registering statement, innermost first
}

type envLabel struct {
	name  int
	fresh bool // the nearest enclosing construct of that name has registered the label afresh
}

type staleWalker struct {
	lb   []regLabel // registrations in compile order (GetLabel returns the most recent one)
	next int        // block ids in compile order
	hit  bool
}

func isSuffix(suf, l []int) bool {
	if len(suf) > len(l) {
		return false
	}
	off := len(l) - len(suf)
	for i := range suf {
		if suf[i] != l[off+i] {
			return false
		}
	}
	return true
}

func withLabel(env []envLabel, l int, fresh bool) []envLabel {
	if l < 0 {
		return env
	}
	return append(append([]envLabel{}, env...), envLabel{l, fresh})
}

func (w *staleWalker) stmts(ss []*Stmt, env []envLabel, path []int) {
	for _, s := range ss {
		w.stmt(s, env, path)
	}
}

func (w *staleWalker) stmt(s *Stmt, env []envLabel, path []int) {
	switch s.Kind {
	case "block":
		id := w.next
		w.next++
		w.stmts(s.Body, withLabel(env, s.Label, false), append([]int{id}, path...))
	case "if", "case":
		for _, a := range s.Arms {
			w.stmts(a.Body, env, path)
		}
		w.stmts(s.Else, env, path)
	case "while":
		w.stmts(s.Body, withLabel(env, s.Label, false), path)
	case "repeat":
		// first ("once") copy: the label is not registered yet; then registration; then the loop copy
		w.stmts(s.Body, withLabel(env, s.Label, false), path)
		if s.Label >= 0 {
			w.lb = append(w.lb, regLabel{s.Label, path})
		}
		w.stmts(s.Body, withLabel(env, s.Label, true), path)
	case "loop":
		if s.Label >= 0 {
			w.lb = append(w.lb, regLabel{s.Label, path})
		}
		w.stmts(s.Body, withLabel(env, s.Label, true), path)
	case "iterate":
		stale := false
		for i := len(env) - 1; i >= 0; i-- {
			if env[i].name == s.Label {
				stale = !env[i].fresh
				break
			}
		}
		if !stale {
			return
		}
		for i := len(w.lb) - 1; i >= 0; i-- {
			if w.lb[i].name == s.Label {
				if !isSuffix(w.lb[i].path, path) {
					w.hit = true
				}
				return
			}
		}
	}
}

func staleIntoClosedBlock(body *Stmt) bool {
	w := &staleWalker{}
	w.stmt(body, nil, nil)
	return w.hit
}
