package main

import (
	"fmt"
	"go/ast"
	"go/token"
	"strings"

	"github.com/dolthub/go-mysql-server/verifharness/hx"
)

// Facts regenerated from sql/procedures on every run (semantic tables, not token streams):
//   opCodes            the OpCode enumeration, in iota order
//   stmtOps            ConvertStmt: AST case ↦ the op codes it constructs, in source order
//   leaveIndex         the placeholder a LEAVE is compiled with
//   iterateIndexExpr   where an ITERATE's index comes from
//   getLabelMissing    GetLabel's result for an unknown label
//   resolveTable       resolveGoToIndexes: placeholder ↦ which bound is assigned
//   gotoFwd/gotoBwd    OpCode_Goto: direction test, scan loop bound, op ↦ stack action
//   ifJump             OpCode_If: the counter assignment on a false/NULL condition
//   errnos             CASE-not-found and SIGNAL default error numbers
//   callLoop           Call: initial counter, termination test
//   declareZero        DECLARE without DEFAULT goes through NewVariable → typ.Zero()
//   handlerSelect      handleError: condition case ↦ what the selection loop does for it
//   handlerRun         handleError: which op of the handler statement's code is executed
//   handlerActions     handleError: CONTINUE result; EXIT scan (start, bound, step, op ↦ counter action, result)
//   handlerCallBranch  Call: how the error branch turns handleError's result into the next counter
//   listHandlersLoop   ListHandlers: iteration order over the scope stack

func squash(s string) string { return strings.Join(strings.Fields(s), "") }

func leanStrList(xs []string) string {
	parts := make([]string, len(xs))
	for i, x := range xs {
		parts[i] = hx.LeanString(x)
	}
	return "[" + strings.Join(parts, ", ") + "]"
}

func caseTypeName(src *hx.Src, cc *ast.CaseClause) string {
	if cc.List == nil {
		return "default"
	}
	var names []string
	for _, e := range cc.List {
		names = append(names, squash(src.Text(e)))
	}
	return strings.Join(names, ",")
}

// opCodesIn lists the OpCode_* identifiers used as `OpCode:` field values below n, in source order.
func opCodesIn(n ast.Node) []string {
	var out []string
	ast.Inspect(n, func(x ast.Node) bool {
		kv, ok := x.(*ast.KeyValueExpr)
		if !ok {
			return true
		}
		if k, ok := kv.Key.(*ast.Ident); ok && k.Name == "OpCode" {
			if v, ok := kv.Value.(*ast.Ident); ok {
				out = append(out, strings.TrimPrefix(v.Name, "OpCode_"))
			}
		}
		return true
	})
	return out
}

func findCase(sw *ast.BlockStmt, src *hx.Src, name string) *ast.CaseClause {
	for _, st := range sw.List {
		if cc, ok := st.(*ast.CaseClause); ok && caseTypeName(src, cc) == name {
			return cc
		}
	}
	return nil
}

func extract(a hx.ExtractArgs) error {
	opSrc, err := hx.ParseSrc(a.Repo, "sql/procedures/interpreter_operation.go")
	if err != nil {
		return err
	}
	parseSrc, err := hx.ParseSrc(a.Repo, "sql/procedures/parse.go")
	if err != nil {
		return err
	}
	logicSrc, err := hx.ParseSrc(a.Repo, "sql/procedures/interpreter_logic.go")
	if err != nil {
		return err
	}
	stackSrc, err := hx.ParseSrc(a.Repo, "sql/procedures/interpreter_stack.go")
	if err != nil {
		return err
	}
	lf := hx.NewLeanFile("Gms.Generated.C24", opSrc.Path, parseSrc.Path, logicSrc.Path, stackSrc.Path)

	// 1. OpCode enumeration
	var opCodes []string
	for _, d := range opSrc.File.Decls {
		gd, ok := d.(*ast.GenDecl)
		if !ok || gd.Tok != token.CONST {
			continue
		}
		for _, sp := range gd.Specs {
			vs := sp.(*ast.ValueSpec)
			for _, n := range vs.Names {
				if strings.HasPrefix(n.Name, "OpCode_") {
					opCodes = append(opCodes, strings.TrimPrefix(n.Name, "OpCode_"))
				}
			}
		}
	}
	if len(opCodes) == 0 {
		return fmt.Errorf("no OpCode_ constants found")
	}
	lf.DefStringList("opCodes", opCodes)

	// 2. ConvertStmt: per AST case the op codes constructed
	conv, err := parseSrc.Func("", "ConvertStmt")
	if err != nil {
		return err
	}
	var tsw *ast.TypeSwitchStmt
	ast.Inspect(conv.Body, func(n ast.Node) bool {
		if t, ok := n.(*ast.TypeSwitchStmt); ok && tsw == nil {
			tsw = t
			return false
		}
		return true
	})
	if tsw == nil {
		return fmt.Errorf("ConvertStmt: type switch not found")
	}
	var rows []string
	for _, st := range tsw.Body.List {
		cc := st.(*ast.CaseClause)
		rows = append(rows, fmt.Sprintf("(%s, %s)", hx.LeanString(caseTypeName(parseSrc, cc)), leanStrList(opCodesIn(cc))))
	}
	lf.Raw("def stmtOps : List (String × List String) := [\n  " + strings.Join(rows, ",\n  ") + "]\n")

	// 3. LEAVE / ITERATE index
	indexOf := func(caseName string) (string, error) {
		cc := findCase(tsw.Body, parseSrc, caseName)
		if cc == nil {
			return "", fmt.Errorf("ConvertStmt: case %s not found", caseName)
		}
		res := ""
		ast.Inspect(cc, func(n ast.Node) bool {
			if kv, ok := n.(*ast.KeyValueExpr); ok {
				if k, ok := kv.Key.(*ast.Ident); ok && k.Name == "Index" {
					res = squash(parseSrc.Text(kv.Value))
				}
			}
			return true
		})
		if res == "" {
			return "", fmt.Errorf("ConvertStmt: case %s has no Index field", caseName)
		}
		return res, nil
	}
	li, err := indexOf("*ast.Leave")
	if err != nil {
		return err
	}
	lf.DefString("leaveIndex", li)
	ii, err := indexOf("*ast.Iterate")
	if err != nil {
		return err
	}
	lf.DefString("iterateIndexExpr", ii)

	// 4. GetLabel's fallback
	gl, err := stackSrc.Func("InterpreterStack", "GetLabel")
	if err != nil {
		return err
	}
	last, ok := gl.Body.List[len(gl.Body.List)-1].(*ast.ReturnStmt)
	if !ok || len(last.Results) != 1 {
		return fmt.Errorf("GetLabel: final return not found")
	}
	lf.DefString("getLabelMissing", squash(stackSrc.Text(last.Results[0])))

	// 5. resolveGoToIndexes: placeholder ↦ bound
	rg, err := parseSrc.Func("", "resolveGoToIndexes")
	if err != nil {
		return err
	}
	var resRows []string
	ast.Inspect(rg.Body, func(n ast.Node) bool {
		sw, ok := n.(*ast.SwitchStmt)
		if !ok || squash(parseSrc.Text(sw.Tag)) != "op.Index" {
			return true
		}
		for _, st := range sw.Body.List {
			cc := st.(*ast.CaseClause)
			if cc.List == nil {
				continue
			}
			rhs := "?"
			for _, b := range cc.Body {
				if as, ok := b.(*ast.AssignStmt); ok && len(as.Rhs) == 1 {
					rhs = squash(parseSrc.Text(as.Rhs[0]))
				}
			}
			resRows = append(resRows, fmt.Sprintf("(%s, %s)", hx.LeanString(caseTypeName(parseSrc, cc)), hx.LeanString(rhs)))
		}
		return false
	})
	if len(resRows) == 0 {
		return fmt.Errorf("resolveGoToIndexes: switch op.Index not found")
	}
	lf.Raw("def resolveTable : List (String × String) := [" + strings.Join(resRows, ", ") + "]\n")
	// the guard `if op.Target != label { continue }`
	guardFound := false
	ast.Inspect(rg.Body, func(n ast.Node) bool {
		if is, ok := n.(*ast.IfStmt); ok && squash(parseSrc.Text(is.Cond)) == "op.Target!=label" {
			guardFound = true
		}
		return true
	})
	lf.DefBool("resolveChecksTarget", guardFound)

	// 6./7. execOp: Goto scans and If jump
	ex, err := logicSrc.Func("", "execOp")
	if err != nil {
		return err
	}
	var opSw *ast.SwitchStmt
	ast.Inspect(ex.Body, func(n ast.Node) bool {
		if sw, ok := n.(*ast.SwitchStmt); ok && opSw == nil && squash(logicSrc.Text(sw.Tag)) == "operation.OpCode" {
			opSw = sw
			return false
		}
		return true
	})
	if opSw == nil {
		return fmt.Errorf("execOp: switch operation.OpCode not found")
	}
	gotoCase := findCase(opSw.Body, logicSrc, "OpCode_Goto")
	if gotoCase == nil {
		return fmt.Errorf("execOp: case OpCode_Goto not found")
	}
	var gotoIf *ast.IfStmt
	for _, st := range gotoCase.Body {
		if is, ok := st.(*ast.IfStmt); ok {
			gotoIf = is
		}
	}
	if gotoIf == nil || gotoIf.Else == nil {
		return fmt.Errorf("execOp: Goto if/else not found")
	}
	scanFacts := func(blk *ast.BlockStmt) (string, error) {
		var fs *ast.ForStmt
		for _, st := range blk.List {
			if f, ok := st.(*ast.ForStmt); ok {
				fs = f
			}
		}
		if fs == nil {
			return "", fmt.Errorf("execOp: Goto scan loop not found")
		}
		parts := []string{squash(logicSrc.Text(fs.Cond)), squash(logicSrc.Text(fs.Post))}
		ast.Inspect(fs.Body, func(n ast.Node) bool {
			cc, ok := n.(*ast.CaseClause)
			if !ok || cc.List == nil {
				return true
			}
			act := ""
			for _, b := range cc.Body {
				if es, ok := b.(*ast.ExprStmt); ok {
					if call, ok := es.X.(*ast.CallExpr); ok {
						if sel, ok := call.Fun.(*ast.SelectorExpr); ok {
							act = sel.Sel.Name
						}
					}
				}
			}
			if act != "" {
				parts = append(parts, caseTypeName(logicSrc, cc)+"→"+act)
			}
			return true
		})
		return strings.Join(parts, ";"), nil
	}
	fwd, err := scanFacts(gotoIf.Body)
	if err != nil {
		return err
	}
	eb, ok := gotoIf.Else.(*ast.BlockStmt)
	if !ok {
		return fmt.Errorf("execOp: Goto else block not found")
	}
	bwd, err := scanFacts(eb)
	if err != nil {
		return err
	}
	lf.DefString("gotoDirectionTest", squash(logicSrc.Text(gotoIf.Cond)))
	lf.DefString("gotoFwd", fwd)
	lf.DefString("gotoBwd", bwd)

	ifCase := findCase(opSw.Body, logicSrc, "OpCode_If")
	if ifCase == nil {
		return fmt.Errorf("execOp: case OpCode_If not found")
	}
	ifJump := ""
	ast.Inspect(ifCase, func(n ast.Node) bool {
		is, ok := n.(*ast.IfStmt)
		if !ok {
			return true
		}
		for _, b := range is.Body.List {
			if as, ok := b.(*ast.AssignStmt); ok && len(as.Lhs) == 1 && squash(logicSrc.Text(as.Lhs[0])) == "counter" {
				ifJump = squash(logicSrc.Text(is.Cond)) + "⇒counter=" + squash(logicSrc.Text(as.Rhs[0]))
			}
		}
		return true
	})
	if ifJump == "" {
		return fmt.Errorf("execOp: If counter assignment not found")
	}
	lf.DefString("ifJump", ifJump)

	// scope ops
	var scopeActs []string
	for _, name := range []string{"OpCode_ScopeBegin", "OpCode_ScopeEnd"} {
		cc := findCase(opSw.Body, logicSrc, name)
		if cc == nil || len(cc.Body) != 1 {
			return fmt.Errorf("execOp: case %s not of the expected shape", name)
		}
		scopeActs = append(scopeActs, name+"→"+squash(logicSrc.Text(cc.Body[0])))
	}
	lf.DefStringList("scopeOps", scopeActs)

	// 8. error numbers
	var errnos []string
	ast.Inspect(conv.Body, func(n ast.Node) bool {
		if call, ok := n.(*ast.CallExpr); ok && squash(parseSrc.Text(call.Fun)) == "mysql.NewSQLError" && len(call.Args) > 0 {
			errnos = append(errnos, "case:"+squash(parseSrc.Text(call.Args[0])))
		}
		return true
	})
	sigCase := findCase(opSw.Body, logicSrc, "OpCode_Signal")
	if sigCase == nil {
		return fmt.Errorf("execOp: case OpCode_Signal not found")
	}
	ast.Inspect(sigCase, func(n ast.Node) bool {
		sw, ok := n.(*ast.SwitchStmt)
		if !ok {
			return true
		}
		for _, st := range sw.Body.List {
			cc := st.(*ast.CaseClause)
			for _, b := range cc.Body {
				if as, ok := b.(*ast.AssignStmt); ok && squash(logicSrc.Text(as.Lhs[0])) == "mysqlErrNo" {
					errnos = append(errnos, "signal:"+caseTypeName(logicSrc, cc)+":"+squash(logicSrc.Text(as.Rhs[0])))
				}
			}
		}
		return true
	})
	lf.DefStringList("errnos", errnos)

	// 9. Call loop
	callFn, err := logicSrc.Func("", "Call")
	if err != nil {
		return err
	}
	var callFacts []string
	ast.Inspect(callFn.Body, func(n ast.Node) bool {
		switch x := n.(type) {
		case *ast.AssignStmt:
			if x.Tok == token.DEFINE && len(x.Lhs) == 1 && squash(logicSrc.Text(x.Lhs[0])) == "counter" {
				callFacts = append(callFacts, "init:"+squash(logicSrc.Text(x.Rhs[0])))
			}
		case *ast.IfStmt:
			c := squash(logicSrc.Text(x.Cond))
			if strings.HasPrefix(c, "counter") {
				for _, b := range x.Body.List {
					switch b.(type) {
					case *ast.BranchStmt:
						callFacts = append(callFacts, "break:"+c)
					}
				}
			}
		case *ast.IncDecStmt:
			if squash(logicSrc.Text(x.X)) == "counter" {
				callFacts = append(callFacts, "step:"+squash(logicSrc.Text(x)))
			}
		}
		return true
	})
	lf.DefStringList("callLoop", callFacts)

	// 10. DECLARE without DEFAULT
	nv, err := stackSrc.Func("InterpreterStack", "NewVariable")
	if err != nil {
		return err
	}
	lf.DefString("newVariableBody", squash(stackSrc.Text(nv.Body)))
	// 11. DECLARE … HANDLER: handleError, the error branch of Call, ListHandlers
	he, err := logicSrc.Func("", "handleError")
	if err != nil {
		return err
	}
	var selFacts, actFacts []string
	runFact := ""
	ast.Inspect(he.Body, func(n ast.Node) bool {
		switch x := n.(type) {
		case *ast.SwitchStmt:
			tag := squash(logicSrc.Text(x.Tag))
			for _, st := range x.Body.List {
				cc := st.(*ast.CaseClause)
				var body []string
				for _, b := range cc.Body {
					body = append(body, squash(logicSrc.Text(b)))
				}
				name := strings.TrimPrefix(caseTypeName(logicSrc, cc), "ast.")
				switch tag {
				case "handler.Condition":
					selFacts = append(selFacts, name+":"+strings.Join(body, ";"))
				case "matchingHandler.Action":
					if name != "DeclareHandlerAction_Exit" {
						actFacts = append(actFacts, name+":"+strings.Join(body, ";"))
						continue
					}
					for _, b := range cc.Body {
						switch y := b.(type) {
						case *ast.ForStmt:
							parts := []string{"init:" + squash(logicSrc.Text(y.Init)), "cond:" + squash(logicSrc.Text(y.Cond)), "post:" + squash(logicSrc.Text(y.Post))}
							ast.Inspect(y.Body, func(m ast.Node) bool {
								switch z := m.(type) {
								case *ast.IfStmt:
									parts = append(parts, "if:"+squash(logicSrc.Text(z.Cond))+"⇒"+squash(logicSrc.Text(z.Body.List[0])))
								case *ast.CaseClause:
									if z.List != nil && len(z.Body) > 0 {
										parts = append(parts, caseTypeName(logicSrc, z)+"→"+squash(logicSrc.Text(z.Body[0])))
									}
								}
								return true
							})
							actFacts = append(actFacts, name+":for:"+strings.Join(parts, ";"))
						case *ast.ReturnStmt:
							actFacts = append(actFacts, name+":"+squash(logicSrc.Text(y)))
						case *ast.AssignStmt:
							actFacts = append(actFacts, name+":"+squash(logicSrc.Text(y)))
						}
					}
				}
			}
		case *ast.CallExpr:
			if squash(logicSrc.Text(x.Fun)) == "execOp" && len(x.Args) == 7 {
				runFact = "op=" + squash(logicSrc.Text(x.Args[3])) + ";code=" + squash(logicSrc.Text(x.Args[4])) + ";counter=" + squash(logicSrc.Text(x.Args[6]))
			}
		}
		return true
	})
	if len(selFacts) == 0 || len(actFacts) == 0 || runFact == "" {
		return fmt.Errorf("handleError: expected shape not found (selection switch / action switch / execOp call)")
	}
	lf.DefStringList("handlerSelect", selFacts)
	lf.DefString("handlerRun", runFact)
	lf.DefStringList("handlerActions", actFacts)
	callBranch := ""
	ast.Inspect(callFn.Body, func(n ast.Node) bool {
		is, ok := n.(*ast.IfStmt)
		if ok && squash(logicSrc.Text(is.Cond)) == "hErr==io.EOF" && is.Else != nil {
			callBranch = squash(logicSrc.Text(is.Body)) + "else" + squash(logicSrc.Text(is.Else))
		}
		return true
	})
	if callBranch == "" {
		return fmt.Errorf("Call: error branch `if hErr == io.EOF {…} else {…}` not found")
	}
	lf.DefString("handlerCallBranch", callBranch)
	lh, err := stackSrc.Func("InterpreterStack", "ListHandlers")
	if err != nil {
		return err
	}
	lhLoop := ""
	ast.Inspect(lh.Body, func(n ast.Node) bool {
		if f, ok := n.(*ast.ForStmt); ok && lhLoop == "" {
			lhLoop = squash(stackSrc.Text(f.Init)) + ";" + squash(stackSrc.Text(f.Cond)) + ";" + squash(stackSrc.Text(f.Post))
			ast.Inspect(f.Body, func(m ast.Node) bool {
				if r, ok := m.(*ast.RangeStmt); ok {
					lhLoop += ";range:" + squash(stackSrc.Text(r.X))
				}
				return true
			})
		}
		return true
	})
	if lhLoop == "" {
		return fmt.Errorf("ListHandlers: loop not found")
	}
	lf.DefString("listHandlersLoop", lhLoop)
	return lf.Write(a.Out)
}
