package main

import (
	"github.com/dolthub/go-mysql-server/verifharness/hx"
)

// Generator. Feature envelope (grown one feature at a time against the unchanged tree):
// nested BEGIN…END (labelled or not) with leading DECLAREs (literal DEFAULT, rarely none), SET of
// locals/parameters (right-hand sides grow at most linearly), trace INSERT, IF/ELSEIF/ELSE, CASE
// (simple and searched, with and without ELSE), WHILE/REPEAT/LOOP (labelled or not) with
// LEAVE/ITERATE of any enclosing label, SIGNAL. Every loop is capped through the dedicated counter
// v9 (never shadowed, only touched by the guards), so every run terminates under both the
// structured semantics and the op machine. A third of the LOOPs have a single BEGIN…END block as
// their body (DECLAREs, guard, statements), so that backward Gotos onto a ScopeBegin occur.

const counterVar = 9
const loopCap = 6

type lab struct {
	name   int
	isLoop bool
}

type gctx struct {
	vars   []int
	labels []lab
	depth  int
}

type gen struct {
	r        *hx.Rand
	maxDepth int
	budget   int
}

func i64(n int64) *int64 { return &n }

func (g *gen) intExpr(c *gctx, d int) *Expr {
	if d <= 0 || g.r.Chance(2, 5) {
		switch {
		case len(c.vars) > 0 && g.r.Chance(3, 5):
			return vr(hx.Pick(g.r, c.vars))
		case g.r.Chance(1, 25):
			return &Expr{Op: "null"}
		default:
			return lit(int64(g.r.Intn(6)))
		}
	}
	return bin(hx.Pick(g.r, []string{"add", "sub", "mul", "add", "sub"}), g.intExpr(c, d-1), g.intExpr(c, d-1))
}

func (g *gen) boolExpr(c *gctx, d int) *Expr {
	switch {
	case d > 0 && g.r.Chance(1, 4):
		return bin(hx.Pick(g.r, []string{"and", "or"}), g.boolExpr(c, d-1), g.boolExpr(c, d-1))
	case d > 0 && g.r.Chance(1, 8):
		return &Expr{Op: "not", A: g.boolExpr(c, d-1)}
	case g.r.Chance(1, 20):
		return g.intExpr(c, 1)
	default:
		return bin(hx.Pick(g.r, []string{"eq", "lt", "le", "lt"}), g.intExpr(c, 1), g.intExpr(c, 1))
	}
}

// setRhs: values stored back into variables grow at most linearly in the number of executed SETs.
func (g *gen) setRhs(c *gctx) *Expr {
	var v *Expr
	if len(c.vars) > 0 {
		v = vr(hx.Pick(g.r, c.vars))
	} else {
		v = lit(int64(g.r.Intn(6)))
	}
	switch g.r.Intn(8) {
	case 0:
		return lit(int64(g.r.Intn(6)))
	case 1:
		return v
	case 2, 3:
		return bin("add", v, lit(int64(1+g.r.Intn(3))))
	case 4:
		return bin("sub", v, lit(int64(1+g.r.Intn(3))))
	case 5:
		return bin("sub", lit(int64(g.r.Intn(6))), v)
	case 6:
		return g.boolExpr(c, 1)
	default:
		if g.r.Chance(1, 4) {
			return &Expr{Op: "null"}
		}
		return bin("add", v, lit(1))
	}
}

func (g *gen) settable(c *gctx) []int {
	var out []int
	for _, v := range c.vars {
		if v != counterVar {
			out = append(out, v)
		}
	}
	return out
}

func (g *gen) freeLabel(c *gctx) int {
	for tries := 0; tries < 8; tries++ {
		l := g.r.Intn(4)
		used := false
		for _, e := range c.labels {
			if e.name == l {
				used = true
			}
		}
		if !used {
			return l
		}
	}
	return -1
}

func guard(label int) []*Stmt {
	inc := &Stmt{Kind: "set", X: counterVar, E: bin("add", vr(counterVar), lit(1))}
	if label < 0 {
		return []*Stmt{inc}
	}
	return []*Stmt{inc, {Kind: "if", Arms: []Arm{{C: bin("lt", lit(loopCap), vr(counterVar)), Body: []*Stmt{{Kind: "leave", Label: label}}}}}}
}

func (g *gen) stmts(c *gctx, n int) []*Stmt {
	var out []*Stmt
	for i := 0; i < n && g.budget > 0; i++ {
		out = append(out, g.stmt(c))
	}
	if len(out) == 0 {
		out = append(out, &Stmt{Kind: "emit", E: g.intExpr(c, 1)})
	}
	return out
}

func (g *gen) block(c *gctx, label int) *Stmt {
	nc := &gctx{vars: append([]int{}, c.vars...), labels: append([]lab{}, c.labels...), depth: c.depth + 1}
	if label >= 0 {
		nc.labels = append(nc.labels, lab{label, false})
	}
	b := &Stmt{Kind: "block", Label: label}
	declared := map[int]bool{}
	for k := g.r.Intn(3); k > 0; k-- {
		x := 3 + g.r.Intn(4)
		if g.r.Chance(1, 8) {
			x = g.r.Intn(3)
		}
		if declared[x] {
			continue
		}
		declared[x] = true
		d := &Stmt{Kind: "decl", X: x, Dflt: i64(int64(g.r.Intn(6)))}
		if g.r.Chance(1, 10) {
			d.Dflt = nil
		}
		b.Body = append(b.Body, d)
		nc.vars = append(nc.vars, x)
	}
	b.Body = append(b.Body, g.stmts(nc, 1+g.r.Intn(4))...)
	return b
}

func (g *gen) stmt(c *gctx) *Stmt {
	g.budget--
	deep := c.depth >= g.maxDepth
	k := g.r.Intn(100)
	switch {
	case k < 22:
		if st := g.settable(c); len(st) > 0 {
			return &Stmt{Kind: "set", X: hx.Pick(g.r, st), E: g.setRhs(c)}
		}
		return &Stmt{Kind: "emit", E: g.intExpr(c, 2)}
	case k < 40:
		return &Stmt{Kind: "emit", E: g.intExpr(c, 2)}
	case k < 52 && !deep:
		l := -1
		if g.r.Chance(1, 3) {
			l = g.freeLabel(c)
		}
		return g.block(c, l)
	case k < 66 && !deep:
		nc := &gctx{vars: c.vars, labels: c.labels, depth: c.depth + 1}
		s := &Stmt{Kind: "if"}
		for a := 1 + g.r.Intn(2); a > 0; a-- {
			s.Arms = append(s.Arms, Arm{C: g.boolExpr(c, 2), Body: g.stmts(nc, 1+g.r.Intn(2))})
		}
		if g.r.Chance(1, 2) {
			s.Else = g.stmts(nc, 1+g.r.Intn(2))
		}
		return s
	case k < 74 && !deep:
		nc := &gctx{vars: c.vars, labels: c.labels, depth: c.depth + 1}
		s := &Stmt{Kind: "case"}
		simple := g.r.Bool()
		if simple {
			s.E = g.intExpr(c, 1)
		}
		for a := 1 + g.r.Intn(2); a > 0; a-- {
			var cond *Expr
			if simple {
				cond = lit(int64(g.r.Intn(4)))
			} else {
				cond = g.boolExpr(c, 1)
			}
			s.Arms = append(s.Arms, Arm{C: cond, Body: g.stmts(nc, 1+g.r.Intn(2))})
		}
		if g.r.Chance(3, 5) {
			s.HasElse = true
			s.Else = g.stmts(nc, 1+g.r.Intn(2))
		}
		return s
	case k < 88 && !deep:
		kind := hx.Pick(g.r, []string{"while", "repeat", "loop"})
		l := g.freeLabel(c)
		if kind != "loop" && g.r.Chance(1, 4) {
			l = -1
		}
		if kind == "loop" && l < 0 {
			kind = "while"
		}
		nc := &gctx{vars: c.vars, labels: append([]lab{}, c.labels...), depth: c.depth + 1}
		if l >= 0 {
			nc.labels = append(nc.labels, lab{l, true})
		}
		s := &Stmt{Kind: kind, Label: l}
		cond := g.boolExpr(c, 1)
		switch kind {
		case "while":
			if l < 0 {
				cond = bin("and", bin("lt", vr(counterVar), lit(loopCap)), cond)
			}
			s.E = cond
		case "repeat":
			if l < 0 {
				cond = bin("or", bin("le", lit(loopCap), vr(counterVar)), cond)
			}
			s.E = cond
		}
		if kind == "loop" && g.r.Chance(1, 3) {
			// the whole LOOP body is one BEGIN…END block: DECLAREs, then the guard, then statements —
			// the loop's back edge and every ITERATE of it are backward Gotos whose target op is a
			// ScopeBegin (the guard stays the first thing executed on every round)
			b := g.block(nc, -1)
			nd := 0
			for nd < len(b.Body) && b.Body[nd].Kind == "decl" {
				nd++
			}
			body := append([]*Stmt{}, b.Body[:nd]...)
			body = append(body, guard(l)...)
			b.Body = append(body, b.Body[nd:]...)
			s.Body = []*Stmt{b}
			return s
		}
		s.Body = append(guard(l), g.stmts(nc, 1+g.r.Intn(3))...)
		return s
	case k < 94:
		if len(c.labels) > 0 {
			e := hx.Pick(g.r, c.labels)
			kind := "leave"
			if e.isLoop && g.r.Bool() {
				kind = "iterate"
			}
			j := &Stmt{Kind: kind, Label: e.name}
			if g.r.Chance(3, 4) { // mostly conditional, so that the code behind it is reachable
				return &Stmt{Kind: "if", Arms: []Arm{{C: g.boolExpr(c, 1), Body: []*Stmt{j}}}}
			}
			return j
		}
		return &Stmt{Kind: "emit", E: g.intExpr(c, 1)}
	case k < 96:
		return &Stmt{Kind: "if", Arms: []Arm{{C: g.boolExpr(c, 1), Body: []*Stmt{{Kind: "signal"}}}}}
	default:
		return &Stmt{Kind: "emit", E: g.boolExpr(c, 2)}
	}
}

func (g *gen) genCase() *Case {
	g.maxDepth = 4
	g.budget = 14 + g.r.Intn(14)
	c := &Case{}
	np := g.r.Intn(4)
	ctx := &gctx{}
	for i := 0; i < np; i++ {
		c.Params = append(c.Params, Param{Name: i, Mode: hx.Pick(g.r, []string{"in", "out", "inout", "out"})})
		ctx.vars = append(ctx.vars, i)
	}
	for i := 0; i < 3; i++ {
		if g.r.Bool() {
			c.Uvars = append(c.Uvars, nil)
		} else {
			c.Uvars = append(c.Uvars, i64(int64(g.r.Intn(10))))
		}
	}
	// outermost block: the counter first, then a generated block body
	outer := -1
	if g.r.Chance(1, 5) {
		outer = g.r.Intn(4)
	}
	octx := &gctx{vars: append(append([]int{}, ctx.vars...), counterVar), depth: 0}
	if outer >= 0 {
		octx.labels = append(octx.labels, lab{outer, false})
	}
	inner := g.block(octx, -1)
	// hoist: DECLARE v9 first, then the inner block's declarations and statements
	body := &Stmt{Kind: "block", Label: outer}
	body.Body = append(body.Body, &Stmt{Kind: "decl", X: counterVar, Dflt: i64(0)})
	body.Body = append(body.Body, inner.Body...)
	c.Body = body
	for k := 1 + g.r.Intn(2); k > 0; k-- {
		var call []Arg
		for i, p := range c.Params {
			if p.Mode == "in" && g.r.Bool() {
				if g.r.Chance(1, 10) {
					call = append(call, Arg{})
				} else {
					call = append(call, Arg{Lit: i64(int64(g.r.Intn(6)))})
				}
			} else {
				call = append(call, Arg{IsU: true, U: i})
			}
		}
		c.Calls = append(c.Calls, call)
	}
	return c
}

// features of a body, for the input-distribution record and the non-triviality rule.
func features(s *Stmt) map[string]bool {
	f := map[string]bool{}
	var walk func(ss []*Stmt)
	walk = func(ss []*Stmt) {
		for _, s := range ss {
			switch s.Kind {
			case "while", "repeat", "loop":
				f["loop"] = true
				f[s.Kind] = true
				if len(s.Body) == 1 && s.Body[0].Kind == "block" {
					f["loop-body-is-block"] = true
				}
			case "leave", "iterate":
				f["jump"] = true
				f[s.Kind] = true
			case "block":
				if s.Label >= 0 {
					f["labelled-block"] = true
				}
			case "case":
				if !s.HasElse {
					f["case-noelse"] = true
				} else {
					f["case"] = true
				}
			case "if", "signal":
				f[s.Kind] = true
			case "decl":
				if s.Dflt == nil {
					f["decl-nodefault"] = true
				}
			}
			walk(s.Body)
			for _, a := range s.Arms {
				walk(a.Body)
			}
			walk(s.Else)
		}
	}
	walk([]*Stmt{s})
	return f
}

// ---------------------------------------------------------------------------------------------
// Corpus: witnesses of the listed findings and regression cases, run first on every run.

func blk(label int, body ...*Stmt) *Stmt { return &Stmt{Kind: "block", Label: label, Body: body} }
func decl(x int, d int64) *Stmt        { return &Stmt{Kind: "decl", X: x, Dflt: i64(d)} }
func set(x int, e *Expr) *Stmt         { return &Stmt{Kind: "set", X: x, E: e} }
func emit(e *Expr) *Stmt               { return &Stmt{Kind: "emit", E: e} }
func ifs(c *Expr, body ...*Stmt) *Stmt { return &Stmt{Kind: "if", Arms: []Arm{{C: c, Body: body}}} }
func u(i int) Arg                      { return Arg{IsU: true, U: i} }

func corpus() []*Case {
	out1 := []Param{{0, "out"}}
	nul3 := []*int64{nil, nil, nil}
	var cs []*Case
	// F-C24-a: LEAVE of a labelled BEGIN…END keeps the block's scope
	cs = append(cs, &Case{Params: out1, Uvars: nul3, Calls: [][]Arg{{u(0)}},
		Body: blk(-1, decl(3, 1), blk(1, decl(3, 2), &Stmt{Kind: "leave", Label: 1}), set(0, vr(3)))})
	// IF whose ELSE branch ends with a block: the THEN path leaks a scope
	cs = append(cs, &Case{Params: out1, Uvars: nul3, Calls: [][]Arg{{u(0)}},
		Body: blk(-1, decl(3, 1), blk(1, decl(3, 2),
			&Stmt{Kind: "if", Arms: []Arm{{C: lit(1), Body: []*Stmt{set(0, lit(0))}}}, Else: []*Stmt{blk(-1, set(0, lit(5)))}}),
			set(0, vr(3)))})
	// DECLARE without DEFAULT
	cs = append(cs, &Case{Params: out1, Uvars: nul3, Calls: [][]Arg{{u(0)}},
		Body: blk(-1, &Stmt{Kind: "decl", X: 3}, set(0, vr(3)))})
	// ITERATE of a REPEAT label
	cs = append(cs, &Case{Params: out1, Uvars: nul3, Calls: [][]Arg{{u(0)}},
		Body: blk(-1, decl(3, 0), &Stmt{Kind: "repeat", Label: 0, E: bin("le", lit(3), vr(3)), Body: []*Stmt{
			set(3, bin("add", vr(3), lit(1))), ifs(bin("eq", vr(3), lit(3)), &Stmt{Kind: "iterate", Label: 0}), emit(vr(3))}},
			set(0, vr(3)))})
	// REPEAT … UNTIL NULL
	cs = append(cs, &Case{Params: out1, Uvars: nul3, Calls: [][]Arg{{u(0)}},
		Body: blk(-1, decl(3, 0), &Stmt{Kind: "repeat", Label: 0, E: bin("or", bin("le", lit(3), vr(3)), &Expr{Op: "null"}), Body: []*Stmt{
			set(3, bin("add", vr(3), lit(1))), emit(vr(3))}}, set(0, vr(3)))})
	// stale label: ITERATE in a WHILE whose label was used by an earlier LOOP
	cs = append(cs, &Case{Params: out1, Uvars: nul3, Calls: [][]Arg{{u(0)}},
		Body: blk(-1, decl(3, 0),
			&Stmt{Kind: "loop", Label: 0, Body: []*Stmt{set(3, bin("add", vr(3), lit(1))),
				ifs(bin("lt", lit(3), vr(3)), &Stmt{Kind: "leave", Label: 0}), emit(vr(3))}},
			&Stmt{Kind: "while", Label: 0, E: bin("lt", vr(3), lit(8)), Body: []*Stmt{set(3, bin("add", vr(3), lit(1))),
				ifs(bin("eq", vr(3), lit(6)), &Stmt{Kind: "iterate", Label: 0}), emit(bin("mul", vr(3), lit(10)))}},
			set(0, vr(3)))})
	// stale label, jump into a closed block (norun.go): the REPEAT l sits in a block that declares v4 and
	// is closed when the WHILE l's ITERATE jumps back to its UNTIL test. Engine: the unresolved v4 evaluates
	// to its cached value 10, CALL ok, trace 11,200,400 (model: err 1105). Second case: the block is under
	// an IF that is not taken, the UNTIL test was never evaluated: err 1105, trace 100,200.
	staleBlk := func() *Stmt {
		return blk(-1, decl(4, 10), &Stmt{Kind: "repeat", Label: 0,
			E:    bin("or", bin("le", lit(1), vr(3)), bin("lt", vr(4), lit(0))),
			Body: []*Stmt{set(3, bin("add", vr(3), lit(1))), emit(bin("add", vr(4), vr(3)))}})
	}
	staleWhile := func() *Stmt {
		return &Stmt{Kind: "while", Label: 0, E: bin("lt", vr(3), lit(4)), Body: []*Stmt{set(3, bin("add", vr(3), lit(1))),
			ifs(bin("eq", vr(3), lit(3)), &Stmt{Kind: "iterate", Label: 0}), emit(bin("mul", vr(3), lit(100)))}}
	}
	cs = append(cs, &Case{Uvars: nul3, Calls: [][]Arg{{}}, Body: blk(-1, decl(3, 0), staleBlk(), staleWhile())})
	cs = append(cs, &Case{Uvars: nul3, Calls: [][]Arg{{}}, Body: blk(-1, decl(3, 0), ifs(bin("eq", vr(3), lit(1)), staleBlk()), staleWhile())})
	// OUT parameter: read before set with a non-NULL argument; and stale HasBeenSet across two CALLs
	cs = append(cs, &Case{Params: out1, Uvars: []*int64{i64(5), nil, nil}, Calls: [][]Arg{{u(0)}},
		Body: blk(-1, emit(vr(0)))})
	cs = append(cs, &Case{Params: []Param{{0, "out"}, {1, "in"}}, Uvars: []*int64{i64(5), i64(1), nil}, Calls: [][]Arg{{u(0), u(1)}, {u(0), {Lit: i64(0)}}},
		Body: blk(-1, ifs(bin("eq", vr(1), lit(1)), set(0, lit(7))))})
	// ITERATE of a REPEAT label whose body ends with a BEGIN…END block (iterate_repeat_block_scope_leak):
	// from inside that block (its scope stays: r = 2, structured 1), from in front of it (an empty
	// scope stays and the enclosing block's ScopeEnd pops the wrong one: r = 3, structured 1), and the
	// control with one more statement behind the block (r = 1).
	rep := func(body ...*Stmt) *Stmt {
		return &Stmt{Kind: "repeat", Label: 0, E: bin("le", lit(1), vr(4)), Body: body}
	}
	incK := func() *Stmt { return set(4, bin("add", vr(4), lit(1))) }
	itK := func() *Stmt { return ifs(bin("eq", vr(4), lit(1)), &Stmt{Kind: "iterate", Label: 0}) }
	cs = append(cs, &Case{Params: out1, Uvars: nul3, Calls: [][]Arg{{u(0)}},
		Body: blk(-1, decl(3, 1), decl(4, 0), rep(incK(), blk(-1, decl(3, 2), itK())), set(0, vr(3)))})
	cs = append(cs, &Case{Params: out1, Uvars: nul3, Calls: [][]Arg{{u(0)}},
		Body: blk(-1, decl(3, 1), blk(-1, decl(3, 3), decl(4, 0), rep(incK(), itK(), blk(-1, set(4, vr(4))))), set(0, vr(3)))})
	cs = append(cs, &Case{Params: out1, Uvars: nul3, Calls: [][]Arg{{u(0)}},
		Body: blk(-1, decl(3, 1), decl(4, 0), rep(incK(), blk(-1, decl(3, 2), itK()), set(4, vr(4))), set(0, vr(3)))})
	// the sweep case that exposed it (thorough, seed 1 of the old seeding, id 15734): ITERATE l2 out of
	// two nested blocks, the outer one ending the REPEAT body; also DEFAULT-less DECLAREs and shadowing
	cs = append(cs, &Case{Params: []Param{{0, "inout"}, {1, "in"}}, Uvars: []*int64{i64(7), nil, nil}, Calls: [][]Arg{{u(0), u(1)}, {u(0), u(1)}},
		Body: blk(-1, decl(9, 0), &Stmt{Kind: "decl", X: 5}, set(1, lit(5)),
			&Stmt{Kind: "repeat", Label: 2, E: bin("lt", vr(5), bin("add", lit(1), vr(9))), Body: []*Stmt{
				set(9, bin("add", vr(9), lit(1))), ifs(bin("lt", lit(6), vr(9)), &Stmt{Kind: "leave", Label: 2}),
				blk(-1, decl(3, 1), decl(5, 4),
					blk(-1, decl(2, 1), &Stmt{Kind: "decl", X: 1},
						ifs(bin("lt", bin("sub", vr(0), lit(4)), lit(3)), &Stmt{Kind: "iterate", Label: 2}),
						emit(bin("add", vr(5), bin("sub", lit(1), vr(5)))),
						ifs(&Expr{Op: "not", A: bin("sub", vr(1), lit(0))}, &Stmt{Kind: "iterate", Label: 2}),
						emit(bin("add", bin("mul", vr(2), vr(5)), &Expr{Op: "null"}))),
					emit(bin("add", bin("add", vr(1), vr(1)), bin("mul", vr(9), vr(3)))),
					&Stmt{Kind: "loop", Label: 3, Body: []*Stmt{
						set(9, bin("add", vr(9), lit(1))), ifs(bin("lt", lit(6), vr(9)), &Stmt{Kind: "leave", Label: 3}),
						set(0, bin("sub", vr(0), lit(2))), set(3, lit(5))}})}})})
	// regression: loops with LEAVE/ITERATE through nested blocks, CASE without ELSE, SIGNAL after a trace row
	cs = append(cs, &Case{Params: out1, Uvars: nul3, Calls: [][]Arg{{u(0)}},
		Body: blk(-1, decl(3, 0), &Stmt{Kind: "loop", Label: 0, Body: []*Stmt{set(3, bin("add", vr(3), lit(1))),
			blk(-1, decl(4, 7), ifs(bin("lt", vr(3), lit(3)), &Stmt{Kind: "iterate", Label: 0}), &Stmt{Kind: "leave", Label: 0})}},
			set(0, vr(3)))})
	// regression: LOOP whose body *is* a block (the back edge and the ITERATE are backward Gotos whose
	// target op is the block's ScopeBegin: the backward scan must include the target) with a shadowing
	// DECLARE, ITERATE from inside the block, and the outer variable read after the loop (r = 1, trace 3)
	cs = append(cs, &Case{Params: out1, Uvars: nul3, Calls: [][]Arg{{u(0)}},
		Body: blk(-1, decl(3, 0), decl(4, 0), &Stmt{Kind: "loop", Label: 0, Body: []*Stmt{
			blk(-1, decl(3, 100), set(4, bin("add", vr(4), lit(1))), ifs(bin("lt", vr(4), lit(3)), &Stmt{Kind: "iterate", Label: 0}),
				&Stmt{Kind: "leave", Label: 0})}},
			set(3, bin("add", vr(3), lit(1))), set(0, vr(3)), emit(vr(4)))})
	cs = append(cs, &Case{Params: []Param{{0, "in"}, {1, "out"}}, Uvars: nul3, Calls: [][]Arg{{{Lit: i64(2)}, u(1)}, {{Lit: i64(3)}, u(1)}},
		Body: blk(-1, &Stmt{Kind: "case", E: vr(0), Arms: []Arm{{C: lit(1), Body: []*Stmt{set(1, lit(10))}}, {C: lit(2), Body: []*Stmt{set(1, lit(20))}}}},
			emit(vr(1)))})
	cs = append(cs, &Case{Params: []Param{{0, "inout"}}, Uvars: []*int64{i64(4), nil, nil}, Calls: [][]Arg{{u(0)}},
		Body: blk(-1, set(0, bin("add", vr(0), lit(1))), emit(vr(0)), &Stmt{Kind: "signal"})})
	cs = append(cs, &Case{Params: []Param{{0, "in"}, {1, "inout"}}, Uvars: []*int64{i64(1), i64(10), nil}, Calls: [][]Arg{{u(0), u(1)}},
		Body: blk(-1, set(0, bin("add", vr(0), lit(1))), set(1, bin("add", vr(1), vr(0))))})
	return cs
}
