package main

import (
	"bufio"
	"fmt"
	"os"
	"strings"

	"github.com/dolthub/go-mysql-server/verifharness/hx/eng"
)

// probe: development aid. Reads statements from stdin separated by lines holding only ";;".
// A line "--session" switches to a fresh session, "--engine" to a fresh engine.
func probe() {
	e := eng.New("d")
	ctx := e.Ctx()
	sc := bufio.NewScanner(os.Stdin)
	sc.Buffer(make([]byte, 1<<20), 1<<20)
	var cur []string
	flush := func() {
		q := strings.TrimSpace(strings.Join(cur, "\n"))
		cur = nil
		if q == "" {
			return
		}
		r := e.Query(eng.SameSession(ctx), q)
		msg := ""
		if r.Err != nil {
			msg = r.Err.Error()
		}
		fmt.Printf("%s\n  => %s %s %s\n", q, eng.Canon(r, true), msg, r.Panic)
		for _, row := range r.Rows {
			fmt.Printf("     %v\n", row)
		}
	}
	for sc.Scan() {
		l := sc.Text()
		switch strings.TrimSpace(l) {
		case ";;":
			flush()
		case "--session":
			flush()
			ctx = e.Ctx()
		case "--engine":
			flush()
			e = eng.New("d")
			ctx = e.Ctx()
		default:
			cur = append(cur, l)
		}
	}
	flush()
}
