// scratch probe for C42 (deleted before delivery)
package main

import (
	"bufio"
	"fmt"
	"os"
	"reflect"
	"strings"

	sqle "github.com/dolthub/go-mysql-server"
	"github.com/dolthub/go-mysql-server/memory"
	"github.com/dolthub/go-mysql-server/sql"
	"github.com/dolthub/go-mysql-server/sql/analyzer/analyzererrors"
	"github.com/dolthub/go-mysql-server/sql/types"
	"github.com/dolthub/go-mysql-server/verifharness/hx/eng"
)

func kindTree(n sql.Node) string {
	if n == nil {
		return "nil"
	}
	t := reflect.TypeOf(n).String()
	t = strings.TrimPrefix(t, "*")
	var cs []string
	for _, c := range n.Children() {
		cs = append(cs, kindTree(c))
	}
	if len(cs) == 0 {
		return t
	}
	return t + "(" + strings.Join(cs, ",") + ")"
}

func class(err error, p string) string {
	switch {
	case p != "":
		return "crash:" + p
	case err == nil:
		return "ok"
	case sql.ErrReadOnly.Is(err):
		return "err:ro"
	case sql.ErrDatabaseWriteLocked.Is(err):
		return "err:locked"
	case sql.ErrReadOnlyTransaction.Is(err):
		return "err:rotx"
	case analyzererrors.ErrReadOnlyDatabase.Is(err):
		return "err:rodb"
	}
	s := err.Error()
	if len(s) > 60 {
		s = s[:60]
	}
	return "err:other(" + s + ")"
}

func newEng() *eng.Eng {
	d := memory.NewDatabase("d")
	rod := memory.NewReadOnlyDatabase("rod")
	pro := memory.NewDBProvider(d, rod)
	e := &eng.Eng{E: sqle.NewDefault(pro), Pro: pro, DBs: []*memory.Database{d}}
	ctx := e.Ctx()
	e.MustExec(ctx,
		"CREATE TABLE t (a INT PRIMARY KEY, b INT)",
		"INSERT INTO t VALUES (1,10),(2,20)",
		"CREATE TABLE u (a INT PRIMARY KEY, b INT)",
		"INSERT INTO u VALUES (1,100)",
		"CREATE VIEW v AS SELECT a FROM t",
		"CREATE PROCEDURE pr() SELECT 1",
		"CREATE PROCEDURE pw() INSERT INTO t VALUES (77,77)",
		"CREATE TABLE trg (a INT PRIMARY KEY)",
		"CREATE TABLE lg (a INT)",
		"CREATE TABLE par (a INT PRIMARY KEY)",
		"INSERT INTO par VALUES (1),(2),(3)",
		"CREATE TABLE chi (a INT PRIMARY KEY, p INT, FOREIGN KEY (p) REFERENCES par(a))",
		"INSERT INTO chi VALUES (1,1)",
		"CREATE TRIGGER tr1 BEFORE INSERT ON trg FOR EACH ROW INSERT INTO lg VALUES (NEW.a)",
	)
	// read-only database
	sch := sql.NewPrimaryKeySchema(sql.Schema{{Name: "a", Type: types.Int64, Source: "rt", PrimaryKey: true}, {Name: "b", Type: types.Int64, Source: "rt", Nullable: true}})
	tbl := memory.NewTable(ctx, rod.HistoryDatabase.Database, "rt", sch, nil)
	rod.HistoryDatabase.AddTable("rt", tbl)
	return e
}

func main() {
	sc := bufio.NewScanner(os.Stdin)
	for sc.Scan() {
		q := strings.TrimSpace(sc.Text())
		if q == "" || strings.HasPrefix(q, "#") {
			continue
		}
		fmt.Println("== " + q)
		{
			e := newEng()
			ctx := e.Ctx()
			n, err := e.E.AnalyzeQuery(ctx, q)
			if err != nil {
				fmt.Println("   analyze err:", err)
			} else {
				ro := "?"
				func() {
					defer func() {
						if r := recover(); r != nil {
							ro = fmt.Sprint("panic:", r)
						}
					}()
					ro = fmt.Sprint(n.IsReadOnly())
				}()
				fmt.Println("   plan:", kindTree(n), " IsReadOnly=", ro)
			}
		}
		for _, mode := range []string{"rw", "ro", "locked", "rotx"} {
			e := newEng()
			ctx := e.Ctx()
			switch mode {
			case "ro":
				e.E.ReadOnly.Store(true)
			case "locked":
				e.E.IsServerLocked = true
			case "rotx":
				r := e.Query(ctx, "START TRANSACTION READ ONLY")
				if r.Err != nil {
					fmt.Println("   start tx failed", r.Err)
				}
			}
			r := e.Query(eng.SameSession(ctx), q)
			cnt := ""
			for _, tn := range []string{"t", "u", "chi", "par", "lg", "trg"} {
				rr := e.Query(e.Ctx(), "SELECT count(*), coalesce(sum(a),0) FROM "+tn)
				if rr.Err == nil && len(rr.Rows) == 1 {
					cnt += tn + "=" + rr.Rows[0][0] + "/" + rr.Rows[0][1] + " "
				} else {
					cnt += tn + "=? "
				}
			}
			fmt.Printf("   %-7s %s rows=%d   %s\n", mode, class(r.Err, r.Panic), len(r.Rows), cnt)
		}
	}
}
