package main

import (
	"context"
	"fmt"
	"os"
	"bufio"
	"strings"

	ast "github.com/dolthub/vitess/go/vt/sqlparser"

	"github.com/dolthub/go-mysql-server/memory"
	"github.com/dolthub/go-mysql-server/sql"
	"github.com/dolthub/go-mysql-server/sql/mysql_db"
	"github.com/dolthub/go-mysql-server/verifharness/hx/eng"
)

type recFactory struct{ inner sql.AuthorizationHandlerFactory }
type recHandler struct{ inner sql.AuthorizationHandler }

var log []string

func (f recFactory) CreateHandler(cat sql.Catalog) sql.AuthorizationHandler {
	return recHandler{f.inner.CreateHandler(cat)}
}
func (h recHandler) NewQueryState(ctx *sql.Context) sql.AuthorizationQueryState {
	return h.inner.NewQueryState(ctx)
}
func (h recHandler) HandleAuth(ctx *sql.Context, st sql.AuthorizationQueryState, auth ast.AuthInformation) error {
	err := h.inner.HandleAuth(ctx, st, auth)
	log = append(log, fmt.Sprintf("HandleAuth(%s,%s,%q,extra=%T) -> %v", auth.AuthType, auth.TargetType, auth.TargetNames, auth.Extra, err))
	return err
}
func (h recHandler) HandleAuthNode(ctx *sql.Context, st sql.AuthorizationQueryState, node sql.AuthorizationCheckerNode) error {
	err := h.inner.HandleAuthNode(ctx, st, node)
	log = append(log, fmt.Sprintf("HandleAuthNode(%T) -> %v", node, err))
	return err
}
func (h recHandler) CheckDatabase(ctx *sql.Context, st sql.AuthorizationQueryState, db string) error {
	err := h.inner.CheckDatabase(ctx, st, db)
	log = append(log, fmt.Sprintf("CheckDatabase(%q) -> %v", db, err))
	return err
}
func (h recHandler) CheckSchema(ctx *sql.Context, st sql.AuthorizationQueryState, db, sch string) error {
	err := h.inner.CheckSchema(ctx, st, db, sch)
	log = append(log, fmt.Sprintf("CheckSchema(%q,%q) -> %v", db, sch, err))
	return err
}
func (h recHandler) CheckTable(ctx *sql.Context, st sql.AuthorizationQueryState, db, sch, t string) error {
	err := h.inner.CheckTable(ctx, st, db, sch, t)
	log = append(log, fmt.Sprintf("CheckTable(%q,%q,%q) -> %v", db, sch, t, err))
	return err
}

func userCtx(e *eng.Eng, user, host, db string, id uint32) *sql.Context {
	bs := sql.NewBaseSessionWithClientServer("localhost:3306", sql.Client{Address: host, User: user}, id)
	sess := memory.NewSession(bs, e.Pro)
	ctx := sql.NewContext(context.Background(), sql.WithSession(sess))
	ctx.SetCurrentDatabase(db)
	return ctx
}

func main() {
	sql.SetAuthorizationHandlerFactory(recFactory{sql.GetAuthorizationHandlerFactory()})
	e := eng.New("d", "e")
	mdb := e.E.Analyzer.Catalog.MySQLDb
	mdb.SetPersister(&mysql_db.NoopPersister{})
	mdb.AddRootAccount()
	ctxs := map[string]*sql.Context{}
	var n uint32 = 10
	sc := bufio.NewScanner(os.Stdin)
	for sc.Scan() {
		line := strings.TrimSpace(sc.Text())
		if line == "" || strings.HasPrefix(line, "#") {
			continue
		}
		i := strings.Index(line, ":")
		who, q := line[:i], strings.TrimSpace(line[i+1:])
		ctx, ok := ctxs[who]
		if !ok {
			n++
			ctx = userCtx(e, who, "localhost", "d", n)
			ctxs[who] = ctx
		}
		log = nil
		r := e.Query(eng.SameSession(ctx), q)
		fmt.Printf("%s: %s\n   => %s", who, q, r.Class())
		if r.Err != nil {
			fmt.Printf(" %v", r.Err)
		}
		if r.Panic != "" {
			fmt.Printf(" PANIC %s", r.Panic)
		}
		fmt.Println()
		for _, row := range r.Rows {
			fmt.Printf("      %v\n", row)
		}
		for _, l := range log {
			fmt.Printf("      . %s\n", l)
		}
	}
}
