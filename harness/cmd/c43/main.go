// C43 — information_schema and SHOW reflect the catalog.
//
// extract: go/ast facts about the code the model follows: the COLUMN_KEY rule of
//          sql/information_schema/columns_table.go (getIndexKeyInfo: key strings, composite-unique
//          special case; getRowsFromTable: promotion), the nil-privilege-set early return of
//          triggersRowIter / viewsRowIter, the index order of memory.Table.GetIndexes; where the
//          PRIMARY KEY clause of SHOW CREATE TABLE takes its column list from (the key ordinals, in
//          key order); every assignment to the three loop-carried variables of routinesRowIter with
//          the construct it sits in (re-initialised inside the loop over the procedures).
// run:     DDL histories over an empty database (one history = one case), observed at the end through
//          information_schema (TABLES, COLUMNS, STATISTICS, TABLE_CONSTRAINTS, KEY_COLUMN_USAGE,
//          TRIGGERS, VIEWS, ROUTINES) and SHOW (TABLES, FULL TABLES, COLUMNS, INDEX, TRIGGERS,
//          PROCEDURE STATUS, CREATE TABLE: column order and key clauses); three history streams
//          (mixed, key-centred, routine-centred); model-free oracles: object names = live catalog
//          walk, SHOW = information_schema, every column a key view names exists, the column list of
//          every key is the same *in the same order* in SHOW CREATE TABLE / STATISTICS / SHOW INDEX /
//          KEY_COLUMN_USAGE / the table's own GetIndexes + PkOrdinals, replaying the printed CREATE
//          TABLE statements gives the same keys; `objs` cases (oracle only): the rows describing one
//          object (procedure, event, check, foreign key, trigger, view) in a catalog with several
//          objects equal the rows it has when it is the only such object.
//
// Envelope (defects of other properties are kept out; see lean/Gms/Model/Catalog.lean):
// RENAME TABLE (a trigger keeps the old table name; afterwards SHOW TRIGGERS and DROP TABLE of any
// table of the database fail with "table not found"), DROP COLUMN of a column of a UNIQUE index
// (panic "UNIQUE index references the column but it could not be found": C10/C21), foreign keys and
// checks, columns of views (a view over an altered table), identifiers needing quotes.
package main

import (
	"fmt"
	"go/ast"
	"go/token"
	"sort"
	"strconv"
	"strings"

	"github.com/dolthub/go-mysql-server/sql"
	"github.com/dolthub/go-mysql-server/verifharness/hx"
	"github.com/dolthub/go-mysql-server/verifharness/hx/eng"
)

func main() { hx.Main(extract, run) }

// ---------------------------------------------------------------------------------------------
// Facts.

func stringLits(src *hx.Src, n ast.Node) []string {
	var out []string
	ast.Inspect(n, func(x ast.Node) bool {
		if bl, ok := x.(*ast.BasicLit); ok && bl.Kind == token.STRING {
			s, _ := strconv.Unquote(bl.Value)
			out = append(out, s)
		}
		return true
	})
	return out
}

func extract(a hx.ExtractArgs) error {
	ct, err := hx.ParseSrc(a.Repo, "sql/information_schema/columns_table.go")
	if err != nil {
		return err
	}
	lf := hx.NewLeanFile("Gms.Generated.C43", ct.Path, "sql/information_schema/information_schema.go", "sql/information_schema/views_table.go", "memory/table.go")
	fn, err := ct.Func("", "getIndexKeyInfo")
	if err != nil {
		return err
	}
	// the if/else-if chain that classifies an index, and the composite-unique condition
	var chain []string
	var composite string
	ast.Inspect(fn.Body, func(n ast.Node) bool {
		is, ok := n.(*ast.IfStmt)
		if !ok {
			return true
		}
		cond := strings.Join(strings.Fields(ct.Text(is.Cond)), " ")
		if strings.Contains(cond, "index.ID()") || strings.Contains(cond, "index.IsUnique()") {
			for cur := is; cur != nil; {
				c := strings.Join(strings.Fields(ct.Text(cur.Cond)), " ")
				chain = append(chain, c+" => "+strings.Join(stringLits(ct, cur.Body), ","))
				switch e := cur.Else.(type) {
				case *ast.IfStmt:
					cur = e
				case *ast.BlockStmt:
					chain = append(chain, "else => "+strings.Join(stringLits(ct, e), ","))
					cur = nil
				default:
					cur = nil
				}
			}
			return false
		}
		if strings.Contains(cond, "len(colNames)") {
			composite = cond + " => " + strings.Join(stringLits(ct, is.Body), ",")
			if _, ok := is.Else.(*ast.BlockStmt); ok {
				composite += " | else: all columns"
			}
		}
		return true
	})
	if len(chain) == 0 || composite == "" {
		return fmt.Errorf("getIndexKeyInfo: classification chain not found")
	}
	lf.DefStringList("keyInfoChain", chain)
	lf.DefString("keyInfoComposite", composite)
	fn, err = ct.Func("", "getRowsFromTable")
	if err != nil {
		return err
	}
	var promo []string
	ast.Inspect(fn.Body, func(n ast.Node) bool {
		if is, ok := n.(*ast.IfStmt); ok {
			promo = append(promo, strings.Join(strings.Fields(ct.Text(is.Cond)), " "))
		}
		return true
	})
	lf.DefStringList("columnKeyConds", promo)

	// nil privilege set ⇒ no rows
	for _, x := range []struct{ file, fn, def string }{
		{"sql/information_schema/information_schema.go", "triggersRowIter", "triggersNilPrivSet"},
		{"sql/information_schema/views_table.go", "viewsRowIter", "viewsNilPrivSet"},
	} {
		s, err := hx.ParseSrc(a.Repo, x.file)
		if err != nil {
			return err
		}
		fd, err := s.Func("", x.fn)
		if err != nil {
			return err
		}
		found := false
		ast.Inspect(fd.Body, func(n ast.Node) bool {
			if is, ok := n.(*ast.IfStmt); ok && strings.Join(strings.Fields(s.Text(is.Cond)), " ") == "privSet == nil" {
				for _, st := range is.Body.List {
					if rs, ok := st.(*ast.ReturnStmt); ok && strings.Contains(s.Text(rs), "RowsToRowIter(rows...)") {
						found = true
					}
				}
			}
			return true
		})
		lf.DefBool(x.def, found)
	}
	// memory.Table.GetIndexes: primary first, then sort.Slice by ID
	mt, err := hx.ParseSrc(a.Repo, "memory/table.go")
	if err != nil {
		return err
	}
	fd, err := mt.Func("Table", "GetIndexes")
	if err != nil {
		return err
	}
	order := ""
	ast.Inspect(fd.Body, func(n ast.Node) bool {
		if call, ok := n.(*ast.CallExpr); ok && mt.Text(call.Fun) == "sort.Slice" && len(call.Args) == 2 {
			if fl, ok := call.Args[1].(*ast.FuncLit); ok && len(fl.Body.List) == 1 {
				order = strings.Join(strings.Fields(mt.Text(fl.Body.List[0])), " ")
			}
		}
		return true
	})
	lf.DefString("indexOrder", order)

	// SHOW CREATE TABLE: where the column list of the PRIMARY KEY clause comes from
	si, err := hx.ParseSrc(a.Repo, "sql/rowexec/show_iters.go")
	if err != nil {
		return err
	}
	fd, err = si.Func("showCreateTablesIter", "produceCreateTableStatement")
	if err != nil {
		return err
	}
	pkSrc := assignSites(si, fd.Body, map[string]bool{"pkOrdinals": true, "primaryKeyCols": true})
	if len(pkSrc) == 0 {
		return fmt.Errorf("produceCreateTableStatement: no assignment to pkOrdinals / primaryKeyCols found")
	}
	lf.DefStringList("showCreatePkSource", pkSrc)

	// ROUTINES: the loop-carried variables and where they are assigned
	rt, err := hx.ParseSrc(a.Repo, "sql/information_schema/routines_table.go")
	if err != nil {
		return err
	}
	fd, err = rt.Func("", "routinesRowIter")
	if err != nil {
		return err
	}
	rtSrc := assignSites(rt, fd.Body, map[string]bool{"securityType": true, "isDeterministic": true, "sqlDataAccess": true})
	if len(rtSrc) == 0 {
		return fmt.Errorf("routinesRowIter: no assignment to securityType / isDeterministic / sqlDataAccess found")
	}
	lf.DefStringList("routinesAssignments", rtSrc)
	emptySet := false
	ast.Inspect(fd.Body, func(n ast.Node) bool {
		if is, ok := n.(*ast.IfStmt); ok && strings.Join(strings.Fields(rt.Text(is.Cond)), " ") == "privSet == nil" && len(is.Body.List) == 1 {
			if strings.Join(strings.Fields(rt.Text(is.Body.List[0])), " ") == "privSet = mysql_db.NewPrivilegeSet()" {
				emptySet = true
			}
		}
		return true
	})
	lf.DefBool("routinesNilPrivSetIsEmptySet", emptySet)
	return lf.Write(a.Out)
}

// assignSites lists every assignment / initialised declaration of one of the named variables in
// body as "<innermost enclosing construct> => <statement>", in source order. Constructs: top,
// if <cond>, else, range <expr>, for, case <exprs>.
func assignSites(src *hx.Src, body *ast.BlockStmt, names map[string]bool) []string {
	var out []string
	norm := func(n ast.Node) string { return strings.Join(strings.Fields(src.Text(n)), " ") }
	var stmts func(list []ast.Stmt, ctx string)
	var stmt func(st ast.Stmt, ctx string)
	stmts = func(list []ast.Stmt, ctx string) {
		for _, st := range list {
			stmt(st, ctx)
		}
	}
	stmt = func(st ast.Stmt, ctx string) {
		switch x := st.(type) {
		case *ast.AssignStmt:
			for _, l := range x.Lhs {
				if id, ok := l.(*ast.Ident); ok && names[id.Name] {
					out = append(out, ctx+" => "+norm(x))
					break
				}
			}
		case *ast.DeclStmt:
			if gd, ok := x.Decl.(*ast.GenDecl); ok {
				for _, sp := range gd.Specs {
					if vs, ok := sp.(*ast.ValueSpec); ok && len(vs.Values) > 0 {
						for i, id := range vs.Names {
							if names[id.Name] && i < len(vs.Values) {
								out = append(out, ctx+" => var "+id.Name+" = "+norm(vs.Values[i]))
							}
						}
					}
				}
			}
		case *ast.BlockStmt:
			stmts(x.List, ctx)
		case *ast.IfStmt:
			if x.Init != nil {
				stmt(x.Init, ctx)
			}
			stmts(x.Body.List, "if "+norm(x.Cond))
			switch e := x.Else.(type) {
			case *ast.IfStmt:
				stmt(e, ctx)
			case *ast.BlockStmt:
				stmts(e.List, "else")
			}
		case *ast.RangeStmt:
			stmts(x.Body.List, "range "+norm(x.X))
		case *ast.ForStmt:
			stmts(x.Body.List, "for")
		case *ast.SwitchStmt:
			for _, c := range x.Body.List {
				if cc, ok := c.(*ast.CaseClause); ok {
					var es []string
					for _, e := range cc.List {
						es = append(es, norm(e))
					}
					stmts(cc.Body, "case "+strings.Join(es, ","))
				}
			}
		case *ast.LabeledStmt:
			stmt(x.Stmt, ctx)
		}
	}
	stmts(body.List, "top")
	return out
}

// ---------------------------------------------------------------------------------------------
// DDL terms.

type col struct {
	name, ty string
	nullable bool
	dflt     *string
}

type idx struct {
	name   string
	unique bool
	cols   []string
}

type ddl struct {
	kind         string
	t, n, n2     string
	cols         []col
	pk           []string
	idxs         []idx
	c            col
	pos          string // last | first | after:<c>
	i            idx
	text, tm, ev string
}

func hexs(xs []string) string { return strings.Join(mapS(xs, hx.HexS), " ") }
func mapS(xs []string, f func(string) string) []string {
	out := make([]string, len(xs))
	for i, x := range xs {
		out[i] = f(x)
	}
	return out
}

func (c col) sexp() string {
	n := "0"
	if c.nullable {
		n = "1"
	}
	d := "null"
	if c.dflt != nil {
		d = hx.HexS(*c.dflt)
	}
	return hx.List("c", hx.HexS(c.name), hx.HexS(c.ty), n, d)
}

func (i idx) sexp() string {
	u := "0"
	if i.unique {
		u = "1"
	}
	return "(i " + hx.HexS(i.name) + " " + u + " " + hexs(i.cols) + ")"
}

func (c col) sql() string {
	s := c.name + " " + c.ty
	if !c.nullable {
		s += " NOT NULL"
	}
	if c.dflt != nil {
		if strings.HasPrefix(c.ty, "varchar") {
			s += " DEFAULT '" + *c.dflt + "'"
		} else {
			s += " DEFAULT " + *c.dflt
		}
	}
	return s
}

func (d ddl) sexp() string {
	switch d.kind {
	case "ct":
		cs := []string{"cols"}
		for _, c := range d.cols {
			cs = append(cs, c.sexp())
		}
		is := []string{"idxs"}
		for _, i := range d.idxs {
			is = append(is, i.sexp())
		}
		pk := "(pk"
		if len(d.pk) > 0 {
			pk += " " + hexs(d.pk)
		}
		pk += ")"
		return hx.List("ct", hx.HexS(d.t), hx.List(cs...), pk, hx.List(is...))
	case "dt":
		return hx.List("dt", hx.HexS(d.t))
	case "ac":
		p := d.pos
		if strings.HasPrefix(p, "after:") {
			p = hx.List("after", hx.HexS(p[6:]))
		}
		return hx.List("ac", hx.HexS(d.t), d.c.sexp(), p)
	case "dc":
		return hx.List("dc", hx.HexS(d.t), hx.HexS(d.n))
	case "rc":
		return hx.List("rc", hx.HexS(d.t), hx.HexS(d.n), hx.HexS(d.n2))
	case "ci":
		return hx.List("ci", hx.HexS(d.t), d.i.sexp())
	case "di":
		return hx.List("di", hx.HexS(d.t), hx.HexS(d.n))
	case "apk":
		return "(apk " + hx.HexS(d.t) + " " + hexs(d.pk) + ")"
	case "dpk":
		return hx.List("dpk", hx.HexS(d.t))
	case "cv":
		return hx.List("cv", hx.HexS(d.n), hx.HexS(d.text))
	case "dv":
		return hx.List("dv", hx.HexS(d.n))
	case "ctr":
		return hx.List("ctr", hx.HexS(d.n), hx.HexS(d.t), hx.HexS(d.tm), hx.HexS(d.ev))
	}
	return hx.List("dtr", hx.HexS(d.n))
}

func (d ddl) sql(r *hx.Rand) string {
	switch d.kind {
	case "ct":
		var parts []string
		for _, c := range d.cols {
			parts = append(parts, c.sql())
		}
		if len(d.pk) > 0 {
			parts = append(parts, "PRIMARY KEY ("+strings.Join(d.pk, ", ")+")")
		}
		for _, i := range d.idxs {
			k := "KEY"
			if i.unique {
				k = "UNIQUE KEY"
			}
			parts = append(parts, k+" "+i.name+" ("+strings.Join(i.cols, ", ")+")")
		}
		return "CREATE TABLE " + d.t + " (" + strings.Join(parts, ", ") + ")"
	case "dt":
		return "DROP TABLE " + d.t
	case "ac":
		s := "ALTER TABLE " + d.t + " ADD COLUMN " + d.c.sql()
		switch {
		case d.pos == "first":
			s += " FIRST"
		case strings.HasPrefix(d.pos, "after:"):
			s += " AFTER " + d.pos[6:]
		}
		return s
	case "dc":
		return "ALTER TABLE " + d.t + " DROP COLUMN " + d.n
	case "rc":
		return "ALTER TABLE " + d.t + " RENAME COLUMN " + d.n + " TO " + d.n2
	case "ci":
		u := ""
		if d.i.unique {
			u = "UNIQUE "
		}
		if r.Bool() {
			return "CREATE " + u + "INDEX " + d.i.name + " ON " + d.t + " (" + strings.Join(d.i.cols, ", ") + ")"
		}
		return "ALTER TABLE " + d.t + " ADD " + u + "INDEX " + d.i.name + " (" + strings.Join(d.i.cols, ", ") + ")"
	case "di":
		if r.Bool() {
			return "DROP INDEX " + d.n + " ON " + d.t
		}
		return "ALTER TABLE " + d.t + " DROP INDEX " + d.n
	case "apk":
		return "ALTER TABLE " + d.t + " ADD PRIMARY KEY (" + strings.Join(d.pk, ", ") + ")"
	case "dpk":
		return "ALTER TABLE " + d.t + " DROP PRIMARY KEY"
	case "cv":
		return "CREATE VIEW " + d.n + " AS " + d.text
	case "dv":
		return "DROP VIEW " + d.n
	case "ctr":
		body := "SET @c43 = 1"
		return "CREATE TRIGGER " + d.n + " " + d.tm + " " + d.ev + " ON " + d.t + " FOR EACH ROW " + body
	}
	return "DROP TRIGGER " + d.n
}

// ---------------------------------------------------------------------------------------------
// Generator: keeps a light shadow of what exists so that most statements are valid.

type shadowTbl struct {
	cols []string
	pk   []string
	idxs map[string][]string
	uniq map[string]bool
}

type shadow struct {
	tables map[string]*shadowTbl
	views  map[string]bool
	trigs  map[string]string
}

func (s *shadow) tableNames() []string {
	var out []string
	for n := range s.tables {
		out = append(out, n)
	}
	sort.Strings(out)
	return out
}

var colTypes = []string{"int", "bigint", "varchar(20)", "decimal(10,2)", "datetime", "tinyint", "varchar(5)", "double"}

func randCol(r *hx.Rand, name string) col {
	c := col{name: name, ty: hx.Pick(r, colTypes), nullable: r.Chance(2, 3)}
	if r.Chance(1, 4) {
		var d string
		switch {
		case strings.HasPrefix(c.ty, "varchar"):
			d = hx.Pick(r, []string{"abc", "x", ""})
		case c.ty == "int" || c.ty == "bigint" || c.ty == "tinyint":
			d = strconv.Itoa(r.Intn(100))
		}
		if d != "" || strings.HasPrefix(c.ty, "varchar") {
			c.dflt = &d
		}
	}
	return c
}

func pickSome(r *hx.Rand, xs []string, max int) []string {
	if len(xs) == 0 {
		return nil
	}
	n := 1 + r.Intn(max)
	if n > len(xs) {
		n = len(xs)
	}
	perm := append([]string(nil), xs...)
	for i := len(perm) - 1; i > 0; i-- {
		j := r.Intn(i + 1)
		perm[i], perm[j] = perm[j], perm[i]
	}
	return perm[:n]
}

func genHistory(r *hx.Rand, steps int) []ddl {
	s := &shadow{tables: map[string]*shadowTbl{}, views: map[string]bool{}, trigs: map[string]string{}}
	tnames := []string{"t1", "t2", "t3", "acct", "zz"}
	cnames := []string{"a", "b", "c", "d", "e", "f", "id", "k1"}
	inames := []string{"i1", "i2", "ab", "zk", "u1", "m_x"}
	// view names never collide with table names: CREATE TABLE x after CREATE VIEW x is accepted by the
	// engine (both then exist); that is a DDL defect, not one of the views over the catalog
	vnames := []string{"v1", "v2", "v3"}
	trnames := []string{"tr1", "tr2", "tr3"}
	var h []ddl
	add := func(d ddl) { h = append(h, d) }
	for len(h) < steps {
		names := s.tableNames()
		k := r.Intn(100)
		if len(names) == 0 {
			k = 0
		}
		switch {
		case k < 18: // CREATE TABLE
			t := hx.Pick(r, tnames)
			nc := 1 + r.Intn(5)
			var cols []col
			for _, cn := range pickSome(r, cnames, nc) {
				cols = append(cols, randCol(r, cn))
			}
			if r.Chance(1, 20) && len(cols) > 1 {
				cols[1].name = cols[0].name // duplicate column: rejected
			}
			var cn []string
			for _, c := range cols {
				cn = append(cn, c.name)
			}
			d := ddl{kind: "ct", t: t, cols: cols}
			if r.Chance(1, 2) {
				d.pk = pickSome(r, cn, 2)
			}
			ni := r.Intn(3)
			used := map[string]bool{}
			for j := 0; j < ni; j++ {
				in := hx.Pick(r, inames)
				if used[in] {
					continue
				}
				used[in] = true
				d.idxs = append(d.idxs, idx{name: in, unique: r.Chance(1, 2), cols: pickSome(r, cn, 3)})
			}
			add(d)
			if _, ok := s.tables[t]; !ok && !s.views[t] {
				dup := false
				seen := map[string]bool{}
				for _, c := range cn {
					if seen[c] {
						dup = true
					}
					seen[c] = true
				}
				if !dup {
					st := &shadowTbl{cols: cn, pk: d.pk, idxs: map[string][]string{}, uniq: map[string]bool{}}
					for _, i := range d.idxs {
						st.idxs[i.name] = i.cols
						st.uniq[i.name] = i.unique
					}
					s.tables[t] = st
				}
			}
		case k < 26: // DROP TABLE
			t := hx.Pick(r, names)
			if r.Chance(1, 10) {
				t = hx.Pick(r, tnames)
			}
			add(ddl{kind: "dt", t: t})
			if _, ok := s.tables[t]; ok {
				delete(s.tables, t)
				for n, tt := range s.trigs {
					if tt == t {
						delete(s.trigs, n)
					}
				}
			}
		case k < 40: // ADD COLUMN
			t := hx.Pick(r, names)
			st := s.tables[t]
			c := randCol(r, hx.Pick(r, cnames))
			pos := "last"
			switch r.Intn(4) {
			case 0:
				pos = "first"
			case 1:
				pos = "after:" + hx.Pick(r, st.cols)
			}
			add(ddl{kind: "ac", t: t, c: c, pos: pos})
			if !contains(st.cols, c.name) {
				st.cols = append(st.cols, c.name) // order is irrelevant for the shadow
			}
		case k < 48: // DROP COLUMN (never a column some key mentions, never the last one)
			t := hx.Pick(r, names)
			st := s.tables[t]
			var free []string
			for _, c := range st.cols {
				if !st.mentions(c) {
					free = append(free, c)
				}
			}
			if len(free) == 0 || len(st.cols) < 2 {
				continue
			}
			c := hx.Pick(r, free)
			add(ddl{kind: "dc", t: t, n: c})
			st.cols = remove(st.cols, c)
		case k < 55: // RENAME COLUMN
			t := hx.Pick(r, names)
			st := s.tables[t]
			o, n := hx.Pick(r, st.cols), hx.Pick(r, cnames)
			if contains(st.pk, o) {
				// RENAME COLUMN of a primary-key column corrupts a key declared out of column order
				// (PRIMARY KEY (e, a) becomes (e, id)): a DDL defect (C21), kept out
				continue
			}
			add(ddl{kind: "rc", t: t, n: o, n2: n})
			if !contains(st.cols, n) {
				ren := func(l []string) []string {
					out := append([]string(nil), l...)
					for i := range out {
						if out[i] == o {
							out[i] = n
						}
					}
					return out
				}
				st.cols, st.pk = ren(st.cols), ren(st.pk)
				for in, ic := range st.idxs {
					st.idxs[in] = ren(ic)
				}
			}
		case k < 68: // CREATE INDEX
			t := hx.Pick(r, names)
			st := s.tables[t]
			i := idx{name: hx.Pick(r, inames), unique: r.Chance(1, 2), cols: pickSome(r, st.cols, 3)}
			add(ddl{kind: "ci", t: t, i: i})
			if _, ok := st.idxs[i.name]; !ok {
				st.idxs[i.name] = i.cols
				st.uniq[i.name] = i.unique
			}
		case k < 74: // DROP INDEX
			t := hx.Pick(r, names)
			st := s.tables[t]
			n := hx.Pick(r, inames)
			for in := range st.idxs {
				if r.Chance(1, 2) {
					n = in
				}
			}
			add(ddl{kind: "di", t: t, n: n})
			delete(st.idxs, n)
			delete(st.uniq, n)
		case k < 79: // ADD / DROP PRIMARY KEY
			t := hx.Pick(r, names)
			st := s.tables[t]
			if len(st.pk) == 0 || r.Chance(1, 5) {
				pk := pickSome(r, st.cols, 2)
				add(ddl{kind: "apk", t: t, pk: pk})
				if len(st.pk) == 0 {
					st.pk = pk
				}
			} else {
				add(ddl{kind: "dpk", t: t})
				st.pk = nil
			}
		case k < 86: // CREATE / DROP VIEW (views only select constants: their columns are outside the envelope)
			v := hx.Pick(r, vnames)
			if s.views[v] && r.Chance(2, 3) {
				add(ddl{kind: "dv", n: v})
				delete(s.views, v)
			} else {
				add(ddl{kind: "cv", n: v, text: hx.Pick(r, []string{"select 1 as one", "select 1 as x, 'a' as y", "select 2 as two"})})
				if _, isT := s.tables[v]; !isT {
					s.views[v] = true
				}
			}
		default: // CREATE / DROP TRIGGER
			tr := hx.Pick(r, trnames)
			if _, ok := s.trigs[tr]; ok && r.Chance(1, 2) {
				add(ddl{kind: "dtr", n: tr})
				delete(s.trigs, tr)
			} else if _, ok := s.trigs[tr]; ok {
				// a second CREATE TRIGGER with an existing name is accepted when timing / event differ
				// (two triggers of the same name): a DDL defect, kept out
				continue
			} else {
				t := hx.Pick(r, names)
				add(ddl{kind: "ctr", n: tr, t: t, tm: hx.Pick(r, []string{"BEFORE", "AFTER"}), ev: hx.Pick(r, []string{"INSERT", "UPDATE", "DELETE"})})
				if _, ok := s.trigs[tr]; !ok {
					s.trigs[tr] = t
				}
			}
		}
	}
	return h
}

func (st *shadowTbl) mentions(c string) bool {
	if contains(st.pk, c) {
		return true
	}
	for _, ic := range st.idxs {
		if contains(ic, c) {
			return true
		}
	}
	return false
}

func contains(xs []string, x string) bool {
	for _, y := range xs {
		if y == x {
			return true
		}
	}
	return false
}

func remove(xs []string, x string) []string {
	var out []string
	for _, y := range xs {
		if y != x {
			out = append(out, y)
		}
	}
	return out
}

// ---------------------------------------------------------------------------------------------
// Observation.

type obsv struct {
	parts [][2]string
	raw   map[string][][]string
}

func rowsText(rows [][]string, sorted bool) string {
	ls := make([]string, len(rows))
	for i, r := range rows {
		ls[i] = strings.Join(r, "|")
	}
	if sorted {
		sort.Strings(ls)
	}
	return strings.Join(ls, "~")
}

func query(e *eng.Eng, ctx *sql.Context, q string) ([][]string, string) {
	r := e.Query(eng.SameSession(ctx), q)
	if c := r.Class(); c != "ok" {
		if r.Panic != "" {
			return nil, "crash:" + r.Panic
		}
		return nil, c
	}
	return r.Rows, ""
}

func pick(rows [][]string, idxs ...int) [][]string {
	out := make([][]string, len(rows))
	for i, r := range rows {
		for _, k := range idxs {
			out[i] = append(out[i], r[k])
		}
	}
	return out
}

func observe(e *eng.Eng, ctx *sql.Context) (*obsv, string) {
	o := &obsv{raw: map[string][][]string{}}
	put := func(key string, rows [][]string, sorted bool) {
		o.parts = append(o.parts, [2]string{key, rowsText(rows, sorted)})
		o.raw[key] = rows
	}
	qs := []struct{ key, q string }{
		{"TABLES", "SELECT table_name, table_type FROM information_schema.tables WHERE table_schema = 'd'"},
		{"COLUMNS", "SELECT c.table_name, c.column_name, c.ordinal_position, c.is_nullable, c.column_type, c.column_key, c.column_default FROM information_schema.columns c WHERE c.table_schema = 'd'"},
		{"STATISTICS", "SELECT table_name, non_unique, index_name, seq_in_index, column_name, nullable FROM information_schema.statistics WHERE table_schema = 'd'"},
		{"CONSTRAINTS", "SELECT constraint_name, table_name, constraint_type FROM information_schema.table_constraints WHERE table_schema = 'd'"},
		{"KCU", "SELECT constraint_name, table_name, column_name, ordinal_position FROM information_schema.key_column_usage WHERE table_schema = 'd'"},
		{"TRIGGERS", "SELECT trigger_name, event_manipulation, event_object_table, action_timing FROM information_schema.triggers WHERE trigger_schema = 'd'"},
		{"VIEWS", "SELECT table_name, view_definition FROM information_schema.views WHERE table_schema = 'd'"},
		{"SHOWTABLES", "SHOW TABLES"},
		{"SHOWFULL", "SHOW FULL TABLES"},
		{"SHOWTRIG", "SHOW TRIGGERS"},
	}
	base := map[string]bool{}
	for _, x := range qs {
		rows, bad := query(e, ctx, x.q)
		if bad != "" {
			return nil, x.key + ":" + bad
		}
		switch x.key {
		case "TABLES":
			for _, r := range rows {
				if r[1] == "BASE TABLE" {
					base[r[0]] = true
				}
			}
		case "COLUMNS": // columns of views are outside the envelope
			var keep [][]string
			for _, r := range rows {
				if base[r[0]] {
					keep = append(keep, r)
				}
			}
			rows = keep
		case "SHOWTRIG":
			rows = pick(rows, 0, 1, 2, 4)
		}
		put(x.key, rows, true)
	}
	var names []string
	for n := range base {
		names = append(names, n)
	}
	sort.Strings(names)
	for _, n := range names {
		rows, bad := query(e, ctx, "SHOW COLUMNS FROM "+n)
		if bad != "" {
			return nil, "SHOWCOLS:" + bad
		}
		put("SHOWCOLS:"+n, pick(rows, 0, 1, 2, 3, 4), false)
		rows, bad = query(e, ctx, "SHOW INDEX FROM "+n)
		if bad != "" {
			return nil, "SHOWIDX:" + bad
		}
		put("SHOWIDX:"+n, pick(rows, 0, 1, 2, 3, 4, 9), false)
	}
	return o, ""
}

func run(a hx.RunArgs) error {
	out := hx.NewOut(a.OutDir)
	defer out.Close()
	out.Rule = "one case = one DDL history (1-16 statements: CREATE/DROP TABLE with keys, ADD [FIRST|AFTER] / DROP / RENAME COLUMN, CREATE/DROP INDEX, ADD/DROP PRIMARY KEY, " +
		"CREATE/DROP VIEW, CREATE/DROP TRIGGER; ~10% deliberately invalid) over an empty database, observed at its end through 7 information_schema tables and 5 SHOW statements; " +
		"non-trivial = at least two tables or one table with a secondary index exist at the end and at least one statement was rejected or a view/trigger exists"
	r := hx.NewRand(a.Seed).Fork()

	emit := func(kind string, h []ddl, acct bool, rr *hx.Rand) {
		e := eng.New("d")
		if acct {
			e.E.Analyzer.Catalog.MySQLDb.AddRootAccount()
		}
		ctx := e.Ctx()
		flags := ""
		var texts []string
		for _, d := range h {
			q := d.sql(rr)
			texts = append(texts, q)
			res := e.Query(eng.SameSession(ctx), q)
			switch {
			case res.Panic != "":
				flags += "!"
				out.Stat("ddl:crash")
			case res.Class() == "ok":
				flags += "o"
				out.Stat("ddl:" + d.kind + ":ok")
			default:
				flags += "e"
				out.Stat("ddl:" + d.kind + ":err")
			}
		}
		mode := "noacct"
		if acct {
			mode = "acct"
		}
		parts := []string{"hist", mode}
		for _, d := range h {
			parts = append(parts, d.sexp())
		}
		o, bad := observe(e, ctx)
		obs := "ddl=" + flags + ";"
		nontriv := false
		if bad != "" {
			obs += "observation-failed:" + bad
		} else {
			kv := make([]string, len(o.parts))
			for i, p := range o.parts {
				kv[i] = p[0] + "=" + p[1]
			}
			obs += strings.Join(kv, ";")
			nontriv = (len(o.raw["TABLES"]) >= 2 || len(o.raw["STATISTICS"]) >= 2) && (strings.Contains(flags, "e") || len(o.raw["SHOWTRIG"]) > 0 || len(o.raw["VIEWS"]) > 0)
		}
		id := out.Case(hx.List(parts...), obs, nontriv)
		out.Stat("history:" + kind + ":" + mode)
		out.StatN("statements", len(h))
		if bad != "" {
			return
		}
		fail := func(tag, format string, args ...any) {
			out.OracleFail(id, tag, fmt.Sprintf(format, args...)+"  ["+strings.Join(texts, " ; ")+"]")
		}
		// (1) object names = live catalog walk
		var live []string
		if names, err := e.DBs[0].GetTableNames(ctx); err == nil {
			live = append(live, names...)
		}
		var listed []string
		for _, rw := range o.raw["TABLES"] {
			if rw[1] == "BASE TABLE" {
				listed = append(listed, rw[0])
			}
		}
		sort.Strings(live)
		sort.Strings(listed)
		if strings.Join(live, ",") != strings.Join(listed, ",") {
			fail("-", "information_schema.tables lists base tables %v, the database has %v", listed, live)
		}
		// (2) SHOW = information_schema
		if o.parts[0][1] != o.parts[8][1] {
			fail("-", "SHOW FULL TABLES %q differs from information_schema.tables %q", o.parts[8][1], o.parts[0][1])
		}
		if rowsText(o.raw["TRIGGERS"], true) != rowsText(o.raw["SHOWTRIG"], true) {
			tag := "-"
			if !acct && len(o.raw["TRIGGERS"]) == 0 {
				tag = "no_privilege_set_views_triggers_empty"
			}
			fail(tag, "information_schema.triggers %q differs from SHOW TRIGGERS %q", rowsText(o.raw["TRIGGERS"], true), rowsText(o.raw["SHOWTRIG"], true))
		}
		nviews := 0
		for _, rw := range o.raw["TABLES"] {
			if rw[1] == "VIEW" {
				nviews++
			}
		}
		if nviews != len(o.raw["VIEWS"]) {
			tag := "-"
			if !acct && len(o.raw["VIEWS"]) == 0 {
				tag = "no_privilege_set_views_triggers_empty"
			}
			fail(tag, "information_schema.views has %d rows, information_schema.tables lists %d views", len(o.raw["VIEWS"]), nviews)
		}
		for _, n := range listed {
			var fromCols, fromStats [][]string
			for _, rw := range o.raw["COLUMNS"] {
				if rw[0] == n {
					fromCols = append(fromCols, rw)
				}
			}
			sort.Slice(fromCols, func(i, j int) bool {
				a, _ := strconv.Atoi(fromCols[i][2])
				b, _ := strconv.Atoi(fromCols[j][2])
				return a < b
			})
			if is, sh := pick(fromCols, 1, 4, 3, 5, 6), o.raw["SHOWCOLS:"+n]; rowsText(is, false) != rowsText(sh, false) {
				// classify by which cell differs: Key only / Default only up to the quotes of a string literal
				unq := func(rows [][]string) [][]string {
					out := make([][]string, len(rows))
					for i, rw := range rows {
						c := append([]string(nil), rw...)
						if len(c) > 4 && len(c[4]) >= 2 && strings.HasPrefix(c[4], "'") && strings.HasSuffix(c[4], "'") {
							c[4] = c[4][1 : len(c[4])-1]
						}
						out[i] = c
					}
					return out
				}
				tag := "-"
				switch {
				case rowsText(pick(is, 0, 1, 2, 4), false) == rowsText(pick(sh, 0, 1, 2, 4), false):
					tag = "column_key_composite_or_shared_index"
				case rowsText(is, false) == rowsText(unq(sh), false):
					tag = "show_columns_string_default_quoted"
				case rowsText(pick(is, 0, 1, 2, 4), false) == rowsText(pick(unq(sh), 0, 1, 2, 4), false):
					tag = "column_key_composite_or_shared_index"
				}
				fail(tag, "SHOW COLUMNS FROM %s %q differs from information_schema.columns %q", n, rowsText(sh, false), rowsText(is, false))
			}
			for i, rw := range fromCols {
				if rw[2] != strconv.Itoa(i+1) {
					fail("-", "ordinal positions of %s are not 1..n: %v", n, pick(fromCols, 1, 2))
					break
				}
			}
			colset := map[string]bool{}
			for _, rw := range fromCols {
				colset[rw[1]] = true
			}
			for _, rw := range o.raw["STATISTICS"] {
				if rw[0] == n {
					fromStats = append(fromStats, rw)
					if !colset[rw[4]] {
						fail("-", "information_schema.statistics names column %s.%s which information_schema.columns does not list", n, rw[4])
					}
				}
			}
			if rowsText(fromStats, true) != rowsText(o.raw["SHOWIDX:"+n], true) {
				fail("-", "SHOW INDEX FROM %s %q differs from information_schema.statistics %q", n, rowsText(o.raw["SHOWIDX:"+n], true), rowsText(fromStats, true))
			}
		}
	}

	sp := func(s string) *string { return &s }
	corpus := [][]ddl{
		// COLUMN_KEY of a second column of a non-unique index (MySQL: empty; here MUL)
		{{kind: "ct", t: "t1", cols: []col{{name: "a", ty: "int"}, {name: "b", ty: "varchar(20)"}, {name: "c", ty: "int", nullable: true}}, pk: []string{"a"},
			idxs: []idx{{name: "ib", cols: []string{"b", "c"}}}}},
		// a column in two indexes: the later index name wins
		{{kind: "ct", t: "t1", cols: []col{{name: "a", ty: "int", nullable: true}, {name: "b", ty: "int", nullable: true}}, idxs: []idx{{name: "aa", unique: true, cols: []string{"a"}}, {name: "zz", cols: []string{"a"}}}}},
		// views and triggers
		{{kind: "ct", t: "t1", cols: []col{{name: "a", ty: "int", dflt: sp("5"), nullable: true}}}, {kind: "cv", n: "v1", text: "select 1 as one"},
			{kind: "ctr", n: "tr1", t: "t1", tm: "BEFORE", ev: "INSERT"}, {kind: "dt", t: "t1"}},
		{{kind: "ct", t: "t1", cols: []col{{name: "a", ty: "int"}, {name: "b", ty: "int", nullable: true}}}, {kind: "ac", t: "t1", c: col{name: "c", ty: "bigint", nullable: true}, pos: "first"},
			{kind: "ci", t: "t1", i: idx{name: "u1", unique: true, cols: []string{"a"}}}, {kind: "rc", t: "t1", n: "a", n2: "k1"}, {kind: "dc", t: "t1", n: "b"}},
	}
	for _, h := range corpus {
		emit("corpus", h, true, r.Fork())
		emit("corpus", h, false, r.Fork())
	}
	// case-variant table names: listed twice each (oracle only; outside the model)
	{
		e := eng.New("d")
		ctx := e.Ctx()
		e.MustExec(ctx, "CREATE TABLE T3 (a int)", "CREATE TABLE t3 (a int)")
		rows, bad := query(e, ctx, "SELECT table_name, column_name FROM information_schema.columns WHERE table_schema = 'd'")
		_ = bad
		id := out.Case("(casevariant)", "casevariant", false)
		if len(rows) != 2 {
			out.OracleFail(id, "case_variant_table_names", fmt.Sprintf("tables T3 and t3 (one column each): information_schema.columns has %d rows: %s", len(rows), rowsText(rows, true)))
		}
	}
	n := 1400
	if a.Thorough {
		n = 12000
	}
	for i := 0; i < n; i++ {
		rr := r.Fork()
		h := genHistory(rr, 1+rr.Intn(16))
		emit("random", h, !rr.Chance(1, 8), rr.Fork())
	}
	return nil
}
