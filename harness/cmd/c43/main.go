// C43 — information_schema and SHOW reflect the catalog.
//
// extract: go/ast facts about the code the model follows: the COLUMN_KEY rule of
//          sql/information_schema/columns_table.go (getIndexKeyInfo: key strings, composite-unique
//          special case; getRowsFromTable: promotion), the nil-privilege-set early return of
//          triggersRowIter / viewsRowIter, the index order of memory.Table.GetIndexes; where the
//          PRIMARY KEY clause of SHOW CREATE TABLE takes its column list from (the key ordinals, in
//          key order); every assignment to the three loop-carried variables of routinesRowIter with
//          the construct it sits in (re-initialised inside the loop over the procedures).
// run:     DDL histories over an empty database (one history = one case), observed at the end through
//          information_schema (TABLES, COLUMNS, STATISTICS, TABLE_CONSTRAINTS, KEY_COLUMN_USAGE,
//          TRIGGERS, VIEWS, ROUTINES) and SHOW (TABLES, FULL TABLES, COLUMNS, INDEX, TRIGGERS,
//          PROCEDURE STATUS, CREATE TABLE: column order and key clauses); three history streams
//          (mixed, key-centred, routine-centred); model-free oracles: object names = live catalog
//          walk, SHOW = information_schema, every column a key view names exists, the column list of
//          every key is the same *in the same order* in SHOW CREATE TABLE / STATISTICS / SHOW INDEX /
//          KEY_COLUMN_USAGE / the table's own GetIndexes + PkOrdinals, replaying the printed CREATE
//          TABLE statements gives the same keys; `objs` cases (oracle only): the rows describing one
//          object (procedure, event, check, foreign key, trigger, view) in a catalog with several
//          objects equal the rows it has when it is the only such object.
//
// Envelope (defects of other properties are kept out; see lean/Gms/Model/Catalog.lean):
// RENAME TABLE (a trigger keeps the old table name; afterwards SHOW TRIGGERS and DROP TABLE of any
// table of the database fail with "table not found"), DROP COLUMN of a column of a UNIQUE index
// (panic "UNIQUE index references the column but it could not be found": C10/C21), foreign keys and
// checks, columns of views (a view over an altered table), identifiers needing quotes.
package main

import (
	"fmt"
	"go/ast"
	"go/token"
	"sort"
	"strconv"
	"strings"

	"github.com/dolthub/go-mysql-server/sql"
	"github.com/dolthub/go-mysql-server/verifharness/hx"
	"github.com/dolthub/go-mysql-server/verifharness/hx/eng"
)

func main() { hx.Main(extract, run) }

// ---------------------------------------------------------------------------------------------
// Facts.

func stringLits(src *hx.Src, n ast.Node) []string {
	var out []string
	ast.Inspect(n, func(x ast.Node) bool {
		if bl, ok := x.(*ast.BasicLit); ok && bl.Kind == token.STRING {
			s, _ := strconv.Unquote(bl.Value)
			out = append(out, s)
		}
		return true
	})
	return out
}

func extract(a hx.ExtractArgs) error {
	ct, err := hx.ParseSrc(a.Repo, "sql/information_schema/columns_table.go")
	if err != nil {
		return err
	}
	lf := hx.NewLeanFile("Gms.Generated.C43", ct.Path, "sql/information_schema/information_schema.go", "sql/information_schema/views_table.go", "memory/table.go", "sql/rowexec/show_iters.go", "sql/information_schema/routines_table.go")
	fn, err := ct.Func("", "getIndexKeyInfo")
	if err != nil {
		return err
	}
	// the if/else-if chain that classifies an index, and the composite-unique condition
	var chain []string
	var composite string
	ast.Inspect(fn.Body, func(n ast.Node) bool {
		is, ok := n.(*ast.IfStmt)
		if !ok {
			return true
		}
		cond := strings.Join(strings.Fields(ct.Text(is.Cond)), " ")
		if strings.Contains(cond, "index.ID()") || strings.Contains(cond, "index.IsUnique()") {
			for cur := is; cur != nil; {
				c := strings.Join(strings.Fields(ct.Text(cur.Cond)), " ")
				chain = append(chain, c+" => "+strings.Join(stringLits(ct, cur.Body), ","))
				switch e := cur.Else.(type) {
				case *ast.IfStmt:
					cur = e
				case *ast.BlockStmt:
					chain = append(chain, "else => "+strings.Join(stringLits(ct, e), ","))
					cur = nil
				default:
					cur = nil
				}
			}
			return false
		}
		if strings.Contains(cond, "len(colNames)") {
			composite = cond + " => " + strings.Join(stringLits(ct, is.Body), ",")
			if _, ok := is.Else.(*ast.BlockStmt); ok {
				composite += " | else: all columns"
			}
		}
		return true
	})
	if len(chain) == 0 || composite == "" {
		return fmt.Errorf("getIndexKeyInfo: classification chain not found")
	}
	lf.DefStringList("keyInfoChain", chain)
	lf.DefString("keyInfoComposite", composite)
	fn, err = ct.Func("", "getRowsFromTable")
	if err != nil {
		return err
	}
	var promo []string
	ast.Inspect(fn.Body, func(n ast.Node) bool {
		if is, ok := n.(*ast.IfStmt); ok {
			promo = append(promo, strings.Join(strings.Fields(ct.Text(is.Cond)), " "))
		}
		return true
	})
	lf.DefStringList("columnKeyConds", promo)

	// nil privilege set ⇒ no rows
	for _, x := range []struct{ file, fn, def string }{
		{"sql/information_schema/information_schema.go", "triggersRowIter", "triggersNilPrivSet"},
		{"sql/information_schema/views_table.go", "viewsRowIter", "viewsNilPrivSet"},
	} {
		s, err := hx.ParseSrc(a.Repo, x.file)
		if err != nil {
			return err
		}
		fd, err := s.Func("", x.fn)
		if err != nil {
			return err
		}
		found := false
		ast.Inspect(fd.Body, func(n ast.Node) bool {
			if is, ok := n.(*ast.IfStmt); ok && strings.Join(strings.Fields(s.Text(is.Cond)), " ") == "privSet == nil" {
				for _, st := range is.Body.List {
					if rs, ok := st.(*ast.ReturnStmt); ok && strings.Contains(s.Text(rs), "RowsToRowIter(rows...)") {
						found = true
					}
				}
			}
			return true
		})
		lf.DefBool(x.def, found)
	}
	// memory.Table.GetIndexes: primary first, then sort.Slice by ID
	mt, err := hx.ParseSrc(a.Repo, "memory/table.go")
	if err != nil {
		return err
	}
	fd, err := mt.Func("Table", "GetIndexes")
	if err != nil {
		return err
	}
	order := ""
	ast.Inspect(fd.Body, func(n ast.Node) bool {
		if call, ok := n.(*ast.CallExpr); ok && mt.Text(call.Fun) == "sort.Slice" && len(call.Args) == 2 {
			if fl, ok := call.Args[1].(*ast.FuncLit); ok && len(fl.Body.List) == 1 {
				order = strings.Join(strings.Fields(mt.Text(fl.Body.List[0])), " ")
			}
		}
		return true
	})
	lf.DefString("indexOrder", order)

	// SHOW CREATE TABLE: where the column list of the PRIMARY KEY clause comes from
	si, err := hx.ParseSrc(a.Repo, "sql/rowexec/show_iters.go")
	if err != nil {
		return err
	}
	fd, err = si.Func("showCreateTablesIter", "produceCreateTableStatement")
	if err != nil {
		return err
	}
	pkSrc := assignSites(si, fd.Body, map[string]bool{"pkOrdinals": true, "primaryKeyCols": true})
	if len(pkSrc) == 0 {
		return fmt.Errorf("produceCreateTableStatement: no assignment to pkOrdinals / primaryKeyCols found")
	}
	lf.DefStringList("showCreatePkSource", pkSrc)

	// ROUTINES: the loop-carried variables and where they are assigned
	rt, err := hx.ParseSrc(a.Repo, "sql/information_schema/routines_table.go")
	if err != nil {
		return err
	}
	fd, err = rt.Func("", "routinesRowIter")
	if err != nil {
		return err
	}
	rtSrc := assignSites(rt, fd.Body, map[string]bool{"securityType": true, "isDeterministic": true, "sqlDataAccess": true})
	if len(rtSrc) == 0 {
		return fmt.Errorf("routinesRowIter: no assignment to securityType / isDeterministic / sqlDataAccess found")
	}
	lf.DefStringList("routinesAssignments", rtSrc)
	emptySet := false
	ast.Inspect(fd.Body, func(n ast.Node) bool {
		if is, ok := n.(*ast.IfStmt); ok && strings.Join(strings.Fields(rt.Text(is.Cond)), " ") == "privSet == nil" && len(is.Body.List) == 1 {
			if strings.Join(strings.Fields(rt.Text(is.Body.List[0])), " ") == "privSet = mysql_db.NewPrivilegeSet()" {
				emptySet = true
			}
		}
		return true
	})
	lf.DefBool("routinesNilPrivSetIsEmptySet", emptySet)
	return lf.Write(a.Out)
}

// assignSites lists every assignment / initialised declaration of one of the named variables in
// body as "<innermost enclosing construct> => <statement>", in source order. Constructs: top,
// if <cond>, else, range <expr>, for, case <exprs>.
func assignSites(src *hx.Src, body *ast.BlockStmt, names map[string]bool) []string {
	var out []string
	norm := func(n ast.Node) string { return strings.Join(strings.Fields(src.Text(n)), " ") }
	var stmts func(list []ast.Stmt, ctx string)
	var stmt func(st ast.Stmt, ctx string)
	stmts = func(list []ast.Stmt, ctx string) {
		for _, st := range list {
			stmt(st, ctx)
		}
	}
	stmt = func(st ast.Stmt, ctx string) {
		switch x := st.(type) {
		case *ast.AssignStmt:
			for _, l := range x.Lhs {
				if id, ok := l.(*ast.Ident); ok && names[id.Name] {
					out = append(out, ctx+" => "+norm(x))
					break
				}
			}
		case *ast.DeclStmt:
			if gd, ok := x.Decl.(*ast.GenDecl); ok {
				for _, sp := range gd.Specs {
					if vs, ok := sp.(*ast.ValueSpec); ok && len(vs.Values) > 0 {
						for i, id := range vs.Names {
							if names[id.Name] && i < len(vs.Values) {
								out = append(out, ctx+" => var "+id.Name+" = "+norm(vs.Values[i]))
							}
						}
					}
				}
			}
		case *ast.BlockStmt:
			stmts(x.List, ctx)
		case *ast.IfStmt:
			if x.Init != nil {
				stmt(x.Init, ctx)
			}
			stmts(x.Body.List, "if "+norm(x.Cond))
			switch e := x.Else.(type) {
			case *ast.IfStmt:
				stmt(e, ctx)
			case *ast.BlockStmt:
				stmts(e.List, "else")
			}
		case *ast.RangeStmt:
			stmts(x.Body.List, "range "+norm(x.X))
		case *ast.ForStmt:
			stmts(x.Body.List, "for")
		case *ast.SwitchStmt:
			for _, c := range x.Body.List {
				if cc, ok := c.(*ast.CaseClause); ok {
					var es []string
					for _, e := range cc.List {
						es = append(es, norm(e))
					}
					stmts(cc.Body, "case "+strings.Join(es, ","))
				}
			}
		case *ast.LabeledStmt:
			stmt(x.Stmt, ctx)
		}
	}
	stmts(body.List, "top")
	return out
}

// ---------------------------------------------------------------------------------------------
// DDL terms.

type col struct {
	name, ty string
	nullable bool
	dflt     *string
}

type idx struct {
	name   string
	unique bool
	cols   []string
}

type ddl struct {
	kind         string
	t, n, n2     string
	cols         []col
	pk           []string
	idxs         []idx
	c            col
	pos          string // last | first | after:<c>
	i            idx
	text, tm, ev string
	chars        []string // cp: det | notdet | contains | nosql | reads | modifies, in the order written
	invoker      bool     // cp: SQL SECURITY INVOKER stated
}

var chrSQL = map[string]string{"det": "DETERMINISTIC", "notdet": "NOT DETERMINISTIC", "contains": "CONTAINS SQL", "nosql": "NO SQL",
	"reads": "READS SQL DATA", "modifies": "MODIFIES SQL DATA"}

func hexs(xs []string) string { return strings.Join(mapS(xs, hx.HexS), " ") }
func mapS(xs []string, f func(string) string) []string {
	out := make([]string, len(xs))
	for i, x := range xs {
		out[i] = f(x)
	}
	return out
}

func (c col) sexp() string {
	n := "0"
	if c.nullable {
		n = "1"
	}
	d := "null"
	if c.dflt != nil {
		d = hx.HexS(*c.dflt)
	}
	return hx.List("c", hx.HexS(c.name), hx.HexS(c.ty), n, d)
}

func (i idx) sexp() string {
	u := "0"
	if i.unique {
		u = "1"
	}
	return "(i " + hx.HexS(i.name) + " " + u + " " + hexs(i.cols) + ")"
}

func (c col) sql() string {
	s := c.name + " " + c.ty
	if !c.nullable {
		s += " NOT NULL"
	}
	if c.dflt != nil {
		if strings.HasPrefix(c.ty, "varchar") {
			s += " DEFAULT '" + *c.dflt + "'"
		} else {
			s += " DEFAULT " + *c.dflt
		}
	}
	return s
}

func (d ddl) sexp() string {
	switch d.kind {
	case "ct":
		cs := []string{"cols"}
		for _, c := range d.cols {
			cs = append(cs, c.sexp())
		}
		is := []string{"idxs"}
		for _, i := range d.idxs {
			is = append(is, i.sexp())
		}
		pk := "(pk"
		if len(d.pk) > 0 {
			pk += " " + hexs(d.pk)
		}
		pk += ")"
		return hx.List("ct", hx.HexS(d.t), hx.List(cs...), pk, hx.List(is...))
	case "dt":
		return hx.List("dt", hx.HexS(d.t))
	case "ac":
		p := d.pos
		if strings.HasPrefix(p, "after:") {
			p = hx.List("after", hx.HexS(p[6:]))
		}
		return hx.List("ac", hx.HexS(d.t), d.c.sexp(), p)
	case "dc":
		return hx.List("dc", hx.HexS(d.t), hx.HexS(d.n))
	case "rc":
		return hx.List("rc", hx.HexS(d.t), hx.HexS(d.n), hx.HexS(d.n2))
	case "ci":
		return hx.List("ci", hx.HexS(d.t), d.i.sexp())
	case "di":
		return hx.List("di", hx.HexS(d.t), hx.HexS(d.n))
	case "apk":
		return "(apk " + hx.HexS(d.t) + " " + hexs(d.pk) + ")"
	case "dpk":
		return hx.List("dpk", hx.HexS(d.t))
	case "cv":
		return hx.List("cv", hx.HexS(d.n), hx.HexS(d.text))
	case "dv":
		return hx.List("dv", hx.HexS(d.n))
	case "ctr":
		return hx.List("ctr", hx.HexS(d.n), hx.HexS(d.t), hx.HexS(d.tm), hx.HexS(d.ev))
	case "cp":
		inv := "0"
		if d.invoker {
			inv = "1"
		}
		return hx.List("cp", hx.HexS(d.n), hx.List(append([]string{"chr"}, d.chars...)...), inv)
	case "dp":
		return hx.List("dp", hx.HexS(d.n))
	}
	return hx.List("dtr", hx.HexS(d.n))
}

func (d ddl) sql(r *hx.Rand) string {
	switch d.kind {
	case "ct":
		var parts []string
		for _, c := range d.cols {
			parts = append(parts, c.sql())
		}
		if len(d.pk) > 0 {
			parts = append(parts, "PRIMARY KEY ("+strings.Join(d.pk, ", ")+")")
		}
		for _, i := range d.idxs {
			k := "KEY"
			if i.unique {
				k = "UNIQUE KEY"
			}
			parts = append(parts, k+" "+i.name+" ("+strings.Join(i.cols, ", ")+")")
		}
		return "CREATE TABLE " + d.t + " (" + strings.Join(parts, ", ") + ")"
	case "dt":
		return "DROP TABLE " + d.t
	case "ac":
		s := "ALTER TABLE " + d.t + " ADD COLUMN " + d.c.sql()
		switch {
		case d.pos == "first":
			s += " FIRST"
		case strings.HasPrefix(d.pos, "after:"):
			s += " AFTER " + d.pos[6:]
		}
		return s
	case "dc":
		return "ALTER TABLE " + d.t + " DROP COLUMN " + d.n
	case "rc":
		return "ALTER TABLE " + d.t + " RENAME COLUMN " + d.n + " TO " + d.n2
	case "ci":
		u := ""
		if d.i.unique {
			u = "UNIQUE "
		}
		if r.Bool() {
			return "CREATE " + u + "INDEX " + d.i.name + " ON " + d.t + " (" + strings.Join(d.i.cols, ", ") + ")"
		}
		return "ALTER TABLE " + d.t + " ADD " + u + "INDEX " + d.i.name + " (" + strings.Join(d.i.cols, ", ") + ")"
	case "di":
		if r.Bool() {
			return "DROP INDEX " + d.n + " ON " + d.t
		}
		return "ALTER TABLE " + d.t + " DROP INDEX " + d.n
	case "apk":
		return "ALTER TABLE " + d.t + " ADD PRIMARY KEY (" + strings.Join(d.pk, ", ") + ")"
	case "dpk":
		return "ALTER TABLE " + d.t + " DROP PRIMARY KEY"
	case "cv":
		return "CREATE VIEW " + d.n + " AS " + d.text
	case "dv":
		return "DROP VIEW " + d.n
	case "ctr":
		body := "SET @c43 = 1"
		return "CREATE TRIGGER " + d.n + " " + d.tm + " " + d.ev + " ON " + d.t + " FOR EACH ROW " + body
	case "cp":
		// the characteristics in the order written; SQL SECURITY INVOKER at a random place among them;
		// SQL SECURITY DEFINER / LANGUAGE SQL (no effect on the row) now and then
		parts := mapS(d.chars, func(c string) string { return chrSQL[c] })
		ins := func(x string) {
			k := r.Intn(len(parts) + 1)
			parts = append(parts[:k], append([]string{x}, parts[k:]...)...)
		}
		if d.invoker {
			ins("SQL SECURITY INVOKER")
		} else if r.Chance(1, 4) {
			ins("SQL SECURITY DEFINER")
		}
		if r.Chance(1, 5) {
			ins("LANGUAGE SQL")
		}
		return "CREATE PROCEDURE " + d.n + "() " + strings.Join(parts, " ") + " SELECT 1"
	case "dp":
		return "DROP PROCEDURE " + d.n
	}
	return "DROP TRIGGER " + d.n
}

// ---------------------------------------------------------------------------------------------
// Generator: keeps a light shadow of what exists so that most statements are valid.

type shadowTbl struct {
	cols []string
	pk   []string
	idxs map[string][]string
	uniq map[string]bool
}

type shadow struct {
	tables map[string]*shadowTbl
	views  map[string]bool
	trigs  map[string]string
	procs  map[string]bool
}

func (s *shadow) tableNames() []string {
	var out []string
	for n := range s.tables {
		out = append(out, n)
	}
	sort.Strings(out)
	return out
}

var colTypes = []string{"int", "bigint", "varchar(20)", "decimal(10,2)", "datetime", "tinyint", "varchar(5)", "double"}

func randCol(r *hx.Rand, name string) col {
	c := col{name: name, ty: hx.Pick(r, colTypes), nullable: r.Chance(2, 3)}
	if r.Chance(1, 4) {
		var d string
		switch {
		case strings.HasPrefix(c.ty, "varchar"):
			d = hx.Pick(r, []string{"abc", "x", ""})
		case c.ty == "int" || c.ty == "bigint" || c.ty == "tinyint":
			d = strconv.Itoa(r.Intn(100))
		}
		if d != "" || strings.HasPrefix(c.ty, "varchar") {
			c.dflt = &d
		}
	}
	return c
}

func pickSome(r *hx.Rand, xs []string, max int) []string {
	if len(xs) == 0 {
		return nil
	}
	n := 1 + r.Intn(max)
	if n > len(xs) {
		n = len(xs)
	}
	perm := append([]string(nil), xs...)
	for i := len(perm) - 1; i > 0; i-- {
		j := r.Intn(i + 1)
		perm[i], perm[j] = perm[j], perm[i]
	}
	return perm[:n]
}

// randProc: 0-3 characteristics (repetitions and contradicting pairs allowed: the last one decides).
func randProc(r *hx.Rand, name string) ddl {
	d := ddl{kind: "cp", n: name, invoker: r.Chance(1, 3)}
	for n := r.Intn(4); n > 0; n-- {
		d.chars = append(d.chars, hx.Pick(r, []string{"det", "notdet", "contains", "nosql", "reads", "modifies", "det", "reads"}))
	}
	return d
}

// statement kinds by weight, per stream: mixed (everything), keys (tables, columns, keys: composite
// keys declared out of column order, dropped and re-added), procs (routines with a table or two)
var kindWeights = map[string][]struct {
	k string
	w int
}{
	"mixed": {{"ct", 18}, {"dt", 8}, {"ac", 14}, {"dc", 8}, {"rc", 7}, {"ci", 13}, {"di", 6}, {"pk", 5}, {"view", 7}, {"trig", 14}, {"proc", 10}},
	"keys":  {{"ct", 14}, {"dt", 3}, {"ac", 16}, {"dc", 6}, {"rc", 5}, {"ci", 16}, {"di", 8}, {"pk", 32}},
	"procs": {{"ct", 6}, {"dt", 2}, {"ac", 4}, {"view", 3}, {"trig", 5}, {"proc", 80}},
}

func pickKind(r *hx.Rand, mode string) string {
	ws := kindWeights[mode]
	tot := 0
	for _, x := range ws {
		tot += x.w
	}
	k := r.Intn(tot)
	for _, x := range ws {
		if k < x.w {
			return x.k
		}
		k -= x.w
	}
	return "ct"
}

func genHistory(r *hx.Rand, steps int, mode string) []ddl {
	s := &shadow{tables: map[string]*shadowTbl{}, views: map[string]bool{}, trigs: map[string]string{}, procs: map[string]bool{}}
	maxKey := 2
	if mode == "keys" {
		maxKey = 3
	}
	tnames := []string{"t1", "t2", "t3", "acct", "zz"}
	cnames := []string{"a", "b", "c", "d", "e", "f", "id", "k1"}
	inames := []string{"i1", "i2", "ab", "zk", "u1", "m_x"}
	// view names never collide with table names: CREATE TABLE x after CREATE VIEW x is accepted by the
	// engine (both then exist); that is a DDL defect, not one of the views over the catalog
	vnames := []string{"v1", "v2", "v3"}
	trnames := []string{"tr1", "tr2", "tr3"}
	// a procedure may carry the name of a table (separate name spaces)
	pnames := []string{"p1", "p2", "p_a", "audit", "zz", "m1"}
	var h []ddl
	add := func(d ddl) { h = append(h, d) }
	for tries := 0; len(h) < steps && tries < 40*steps; tries++ {
		names := s.tableNames()
		k := pickKind(r, mode)
		if len(names) == 0 && k != "proc" {
			k = "ct"
		}
		switch k {
		case "ct": // CREATE TABLE
			t := hx.Pick(r, tnames)
			nc := 1 + r.Intn(5)
			var cols []col
			for _, cn := range pickSome(r, cnames, nc) {
				cols = append(cols, randCol(r, cn))
			}
			if r.Chance(1, 20) && len(cols) > 1 {
				cols[1].name = cols[0].name // duplicate column: rejected
			}
			var cn []string
			for _, c := range cols {
				cn = append(cn, c.name)
			}
			d := ddl{kind: "ct", t: t, cols: cols}
			if r.Chance(1, 2) || (mode == "keys" && r.Chance(2, 3)) {
				d.pk = pickSome(r, cn, maxKey)
			}
			ni := r.Intn(3)
			used := map[string]bool{}
			for j := 0; j < ni; j++ {
				in := hx.Pick(r, inames)
				if used[in] {
					continue
				}
				used[in] = true
				d.idxs = append(d.idxs, idx{name: in, unique: r.Chance(1, 2), cols: pickSome(r, cn, 3)})
			}
			add(d)
			if _, ok := s.tables[t]; !ok && !s.views[t] {
				dup := false
				seen := map[string]bool{}
				for _, c := range cn {
					if seen[c] {
						dup = true
					}
					seen[c] = true
				}
				if !dup {
					st := &shadowTbl{cols: cn, pk: d.pk, idxs: map[string][]string{}, uniq: map[string]bool{}}
					for _, i := range d.idxs {
						st.idxs[i.name] = i.cols
						st.uniq[i.name] = i.unique
					}
					s.tables[t] = st
				}
			}
		case "dt": // DROP TABLE
			t := hx.Pick(r, names)
			if r.Chance(1, 10) {
				t = hx.Pick(r, tnames)
			}
			add(ddl{kind: "dt", t: t})
			if _, ok := s.tables[t]; ok {
				delete(s.tables, t)
				for n, tt := range s.trigs {
					if tt == t {
						delete(s.trigs, n)
					}
				}
			}
		case "ac": // ADD COLUMN
			t := hx.Pick(r, names)
			st := s.tables[t]
			c := randCol(r, hx.Pick(r, cnames))
			pos := "last"
			switch r.Intn(4) {
			case 0:
				pos = "first"
			case 1:
				pos = "after:" + hx.Pick(r, st.cols)
			}
			add(ddl{kind: "ac", t: t, c: c, pos: pos})
			if !contains(st.cols, c.name) {
				st.cols = append(st.cols, c.name) // order is irrelevant for the shadow
			}
		case "dc": // DROP COLUMN (never a column some key mentions, never the last one)
			t := hx.Pick(r, names)
			st := s.tables[t]
			var free []string
			for _, c := range st.cols {
				if !st.mentions(c) {
					free = append(free, c)
				}
			}
			if len(free) == 0 || len(st.cols) < 2 {
				continue
			}
			c := hx.Pick(r, free)
			add(ddl{kind: "dc", t: t, n: c})
			st.cols = remove(st.cols, c)
		case "rc": // RENAME COLUMN
			t := hx.Pick(r, names)
			st := s.tables[t]
			o, n := hx.Pick(r, st.cols), hx.Pick(r, cnames)
			if contains(st.pk, o) {
				// RENAME COLUMN of a primary-key column corrupts a key declared out of column order
				// (PRIMARY KEY (e, a) becomes (e, id)): a DDL defect (C21), kept out
				continue
			}
			add(ddl{kind: "rc", t: t, n: o, n2: n})
			if !contains(st.cols, n) {
				ren := func(l []string) []string {
					out := append([]string(nil), l...)
					for i := range out {
						if out[i] == o {
							out[i] = n
						}
					}
					return out
				}
				st.cols, st.pk = ren(st.cols), ren(st.pk)
				for in, ic := range st.idxs {
					st.idxs[in] = ren(ic)
				}
			}
		case "ci": // CREATE INDEX
			t := hx.Pick(r, names)
			st := s.tables[t]
			i := idx{name: hx.Pick(r, inames), unique: r.Chance(1, 2), cols: pickSome(r, st.cols, 3)}
			add(ddl{kind: "ci", t: t, i: i})
			if _, ok := st.idxs[i.name]; !ok {
				st.idxs[i.name] = i.cols
				st.uniq[i.name] = i.unique
			}
		case "di": // DROP INDEX
			t := hx.Pick(r, names)
			st := s.tables[t]
			n := hx.Pick(r, inames)
			for in := range st.idxs {
				if r.Chance(1, 2) {
					n = in
				}
			}
			add(ddl{kind: "di", t: t, n: n})
			delete(st.idxs, n)
			delete(st.uniq, n)
		case "pk": // ADD / DROP PRIMARY KEY
			t := hx.Pick(r, names)
			st := s.tables[t]
			if len(st.pk) == 0 || r.Chance(1, 5) {
				pk := pickSome(r, st.cols, maxKey)
				add(ddl{kind: "apk", t: t, pk: pk})
				if len(st.pk) == 0 {
					st.pk = pk
				}
			} else {
				add(ddl{kind: "dpk", t: t})
				st.pk = nil
			}
		case "view": // CREATE / DROP VIEW (views only select constants: their columns are outside the envelope)
			v := hx.Pick(r, vnames)
			if s.views[v] && r.Chance(2, 3) {
				add(ddl{kind: "dv", n: v})
				delete(s.views, v)
			} else {
				add(ddl{kind: "cv", n: v, text: hx.Pick(r, []string{"select 1 as one", "select 1 as x, 'a' as y", "select 2 as two"})})
				if _, isT := s.tables[v]; !isT {
					s.views[v] = true
				}
			}
		case "proc": // CREATE / DROP PROCEDURE (now and then of a name that exists / does not exist: rejected)
			p := hx.Pick(r, pnames)
			if (s.procs[p] && r.Chance(2, 3)) || r.Chance(1, 15) {
				add(ddl{kind: "dp", n: p})
				delete(s.procs, p)
			} else {
				add(randProc(r, p))
				s.procs[p] = true
			}
		default: // CREATE / DROP TRIGGER
			tr := hx.Pick(r, trnames)
			if _, ok := s.trigs[tr]; ok && r.Chance(1, 2) {
				add(ddl{kind: "dtr", n: tr})
				delete(s.trigs, tr)
			} else if _, ok := s.trigs[tr]; ok {
				// a second CREATE TRIGGER with an existing name is accepted when timing / event differ
				// (two triggers of the same name): a DDL defect, kept out
				continue
			} else {
				t := hx.Pick(r, names)
				add(ddl{kind: "ctr", n: tr, t: t, tm: hx.Pick(r, []string{"BEFORE", "AFTER"}), ev: hx.Pick(r, []string{"INSERT", "UPDATE", "DELETE"})})
				if _, ok := s.trigs[tr]; !ok {
					s.trigs[tr] = t
				}
			}
		}
	}
	return h
}

// ---------------------------------------------------------------------------------------------
// objs cases (oracle only, no model): object kinds the catalog model does not have. The property
// evaluated on the engine alone: what the catalog views say about ONE object (its rows in
// information_schema, its line in the SHOW statement / in SHOW CREATE TABLE) is a function of that
// object — the same in a catalog with several objects of that kind as in a catalog where it is the
// only one. (Columns that legitimately depend on the other objects or on the clock are left out:
// ACTION_ORDER of triggers, CREATED / LAST_ALTERED / STARTS.)

type obj struct {
	kind, name, sql string
}

var objBase = []string{
	"CREATE TABLE par (id int NOT NULL PRIMARY KEY, x int, y int, UNIQUE KEY ux (x), UNIQUE KEY uy (y))",
	"CREATE TABLE ch (a int, b int, c int, KEY kb (b), KEY kc (c))",
}

func genObjs(r *hx.Rand) []obj {
	n := 2 + r.Intn(5)
	used := map[string]bool{}
	var out []obj
	kinds := []string{"proc", "proc", "proc", "proc", "event", "event", "check", "check", "fk", "fk", "trig", "trig", "view"}
	opt := func(num, den int, s string) string {
		if r.Chance(num, den) {
			return s
		}
		return ""
	}
	for tries := 0; len(out) < n && tries < 50; tries++ {
		kind := hx.Pick(r, kinds)
		if len(out) > 0 && r.Chance(1, 2) {
			kind = out[len(out)-1].kind // several objects of one kind: that is where a listing can mix them up
		}
		name := kind[:1] + "_" + hx.Pick(r, []string{"a", "b", "m", "n", "y", "z"})
		if used[name] {
			continue
		}
		used[name] = true
		var q string
		switch kind {
		case "proc":
			d := randProc(r, name)
			q = d.sql(r)
			if r.Chance(1, 3) {
				q = strings.Replace(q, " SELECT 1", " COMMENT '"+name+"' SELECT "+strconv.Itoa(r.Intn(9)), 1)
			}
		case "event":
			q = "CREATE EVENT " + name + " ON SCHEDULE EVERY " + strconv.Itoa(1+r.Intn(9)) + " " + hx.Pick(r, []string{"DAY", "HOUR", "MINUTE", "WEEK"}) +
				opt(1, 3, " ON COMPLETION PRESERVE") + opt(1, 3, " DISABLE") + opt(1, 3, " COMMENT '"+name+"'") + " DO SELECT " + strconv.Itoa(r.Intn(9))
		case "check":
			q = "ALTER TABLE ch ADD CONSTRAINT " + name + " CHECK (" + hx.Pick(r, []string{"a", "b", "c"}) + " " + hx.Pick(r, []string{">", "<", "<>"}) + " " + strconv.Itoa(r.Intn(50)) + ")" + opt(1, 3, " NOT ENFORCED")
		case "fk":
			acts := []string{"CASCADE", "SET NULL", "RESTRICT", "NO ACTION"}
			q = "ALTER TABLE ch ADD CONSTRAINT " + name + " FOREIGN KEY (" + hx.Pick(r, []string{"b", "c"}) + ") REFERENCES par (" + hx.Pick(r, []string{"id", "x", "y"}) + ")"
			if r.Chance(1, 2) {
				q += " ON DELETE " + hx.Pick(r, acts)
			}
			if r.Chance(1, 2) {
				q += " ON UPDATE " + hx.Pick(r, acts)
			}
		case "trig":
			q = "CREATE TRIGGER " + name + " " + hx.Pick(r, []string{"BEFORE", "AFTER"}) + " " + hx.Pick(r, []string{"INSERT", "UPDATE", "DELETE"}) + " ON " + hx.Pick(r, []string{"ch", "par"}) +
				" FOR EACH ROW SET @c43 = " + strconv.Itoa(r.Intn(9))
		case "view":
			q = "CREATE VIEW " + name + " AS SELECT " + strconv.Itoa(r.Intn(9)) + " AS " + hx.Pick(r, []string{"one", "x"})
		}
		out = append(out, obj{kind, name, q})
	}
	return out
}

// describeObj: everything the catalog views say about the object, as one canonical text; "" + error text
// when a query fails.
func describeObj(e *eng.Eng, ctx *sql.Context, o obj) (string, string) {
	var parts []string
	sel := func(label, q string) string {
		rows, bad := query(e, ctx, q)
		if bad != "" {
			return label + ":" + bad
		}
		parts = append(parts, label+"="+rowsText(rows, true))
		return ""
	}
	show := func(label, q string, nameCol int, cols ...int) string {
		rows, bad := query(e, ctx, q)
		if bad != "" {
			return label + ":" + bad
		}
		var keep [][]string
		for _, rw := range rows {
			if rw[nameCol] == o.name {
				keep = append(keep, rw)
			}
		}
		parts = append(parts, label+"="+rowsText(pick(keep, cols...), true))
		return ""
	}
	createLine := func(tbl string) string {
		rows, bad := query(e, ctx, "SHOW CREATE TABLE "+tbl)
		if bad != "" || len(rows) != 1 {
			return "SHOWCREATE:" + bad
		}
		ct, err := parseCreate(rows[0][1])
		if err != nil {
			return "SHOWCREATE:unparsed:" + err.Error()
		}
		var mine []string
		for _, ln := range ct.rest {
			if strings.HasPrefix(ln, "CONSTRAINT `"+o.name+"`") {
				mine = append(mine, ln)
			}
		}
		parts = append(parts, "SHOWCREATE="+strings.Join(mine, "~"))
		return ""
	}
	w := "'" + o.name + "'"
	var steps []func() string
	switch o.kind {
	case "proc":
		steps = []func() string{
			func() string {
				return sel("ROUTINES", "SELECT routine_name, routine_type, is_deterministic, sql_data_access, security_type, routine_comment, routine_definition FROM information_schema.routines WHERE routine_schema = 'd' AND routine_name = "+w)
			},
			func() string { return show("SHOWPROCS", "SHOW PROCEDURE STATUS", 1, 0, 1, 2, 6, 7) },
		}
	case "event":
		steps = []func() string{
			func() string {
				return sel("EVENTS", "SELECT event_name, event_type, interval_value, interval_field, status, on_completion, event_comment, event_definition FROM information_schema.events WHERE event_schema = 'd' AND event_name = "+w)
			},
			func() string { return show("SHOWEVENTS", "SHOW EVENTS", 1, 0, 1, 4, 6, 7, 10) },
		}
	case "check":
		steps = []func() string{
			func() string {
				return sel("CHECKS", "SELECT constraint_name, check_clause FROM information_schema.check_constraints WHERE constraint_schema = 'd' AND constraint_name = "+w)
			},
			func() string {
				return sel("CONSTRAINTS", "SELECT constraint_name, table_name, constraint_type, enforced FROM information_schema.table_constraints WHERE table_schema = 'd' AND constraint_name = "+w)
			},
			func() string { return createLine("ch") },
		}
	case "fk":
		steps = []func() string{
			func() string {
				return sel("REFERENTIAL", "SELECT constraint_name, unique_constraint_name, update_rule, delete_rule, table_name, referenced_table_name FROM information_schema.referential_constraints WHERE constraint_schema = 'd' AND constraint_name = "+w)
			},
			func() string {
				return sel("KCU", "SELECT constraint_name, table_name, column_name, ordinal_position, position_in_unique_constraint, referenced_table_name, referenced_column_name FROM information_schema.key_column_usage WHERE table_schema = 'd' AND constraint_name = "+w)
			},
			func() string {
				return sel("CONSTRAINTS", "SELECT constraint_name, table_name, constraint_type, enforced FROM information_schema.table_constraints WHERE table_schema = 'd' AND constraint_name = "+w)
			},
			func() string { return createLine("ch") },
		}
	case "trig":
		steps = []func() string{
			func() string {
				return sel("TRIGGERS", "SELECT trigger_name, event_manipulation, event_object_table, action_timing, action_statement FROM information_schema.triggers WHERE trigger_schema = 'd' AND trigger_name = "+w)
			},
			func() string { return show("SHOWTRIG", "SHOW TRIGGERS", 0, 0, 1, 2, 3, 4) },
		}
	case "view":
		steps = []func() string{
			func() string {
				return sel("VIEWS", "SELECT table_name, view_definition FROM information_schema.views WHERE table_schema = 'd' AND table_name = "+w)
			},
			func() string {
				return sel("TABLES", "SELECT table_name, table_type FROM information_schema.tables WHERE table_schema = 'd' AND table_name = "+w)
			},
		}
	}
	for _, st := range steps {
		if bad := st(); bad != "" {
			return "", bad
		}
	}
	return strings.Join(parts, ";"), ""
}

func objsCase(out *hx.Out, r *hx.Rand) {
	objs := genObjs(r)
	universe := func(os []obj) (*eng.Eng, *sql.Context, []bool) {
		e := eng.New("d")
		e.E.Analyzer.Catalog.MySQLDb.AddRootAccount()
		ctx := e.Ctx()
		e.MustExec(ctx, objBase...)
		ok := make([]bool, len(os))
		for i, o := range os {
			ok[i] = e.Query(eng.SameSession(ctx), o.sql).Class() == "ok"
		}
		return e, ctx, ok
	}
	parts := []string{"objs"}
	var texts []string
	for _, o := range objs {
		parts = append(parts, hx.List("o", o.kind, hx.HexS(o.name), hx.HexS(o.sql)))
		texts = append(texts, o.sql)
	}
	full, fctx, fok := universe(objs)
	perKind := map[string]int{}
	for i, o := range objs {
		if fok[i] {
			perKind[o.kind]++
		}
	}
	nontriv := false
	for _, c := range perKind {
		if c >= 2 {
			nontriv = true
		}
	}
	id := out.Case(hx.List(parts...), "objs", nontriv)
	out.Stat("objs:cases")
	for i, o := range objs {
		if !fok[i] {
			out.Stat("objs:" + o.kind + ":rejected")
			continue
		}
		one, octx, ook := universe([]obj{o})
		if !ook[0] {
			out.Stat("objs:" + o.kind + ":rejected-alone")
			continue
		}
		inFull, bad1 := describeObj(full, fctx, o)
		alone, bad2 := describeObj(one, octx, o)
		out.Stat("objs:" + o.kind + ":compared")
		switch {
		case bad1 != "" || bad2 != "":
			out.OracleFail(id, "object_listing_fails", fmt.Sprintf("%s %s cannot be described: %q (with the other objects) / %q (alone)  [%s]", o.kind, o.name, bad1, bad2, strings.Join(texts, " ; ")))
		case inFull != alone:
			out.OracleFail(id, "object_row_depends_on_other_objects", fmt.Sprintf("%s %s is listed as %q next to the other objects and as %q when it is the only object  [%s]", o.kind, o.name, inFull, alone, strings.Join(texts, " ; ")))
		case !strings.Contains(inFull, o.name):
			out.OracleFail(id, "object_not_listed", fmt.Sprintf("%s %s exists but no view lists it: %q  [%s]", o.kind, o.name, inFull, strings.Join(texts, " ; ")))
		}
	}
}

func (st *shadowTbl) mentions(c string) bool {
	if contains(st.pk, c) {
		return true
	}
	for _, ic := range st.idxs {
		if contains(ic, c) {
			return true
		}
	}
	return false
}

// inColumnOrder: the key columns appear in the relative order they have in the table.
func inColumnOrder(key, cols []string) bool {
	pos := map[string]int{}
	for i, c := range cols {
		pos[c] = i
	}
	for i := 1; i < len(key); i++ {
		if pos[key[i-1]] > pos[key[i]] {
			return false
		}
	}
	return true
}

func contains(xs []string, x string) bool {
	for _, y := range xs {
		if y == x {
			return true
		}
	}
	return false
}

func remove(xs []string, x string) []string {
	var out []string
	for _, y := range xs {
		if y != x {
			out = append(out, y)
		}
	}
	return out
}

// ---------------------------------------------------------------------------------------------
// Observation.

type obsv struct {
	parts  [][2]string
	raw    map[string][][]string
	create map[string]*createTbl // SHOW CREATE TABLE per base table
}

// createTbl is what SHOW CREATE TABLE says about the columns and keys of a table, in the order printed.
type createTbl struct {
	text string
	cols []string
	keys []keyDef
	rest []string // CONSTRAINT … clauses (foreign keys, checks)
}

type keyDef struct {
	name   string
	unique bool
	cols   []string
}

func (k keyDef) String() string {
	u := "0"
	if k.unique {
		u = "1"
	}
	return k.name + "|" + u + "|" + strings.Join(k.cols, ",")
}

func keysText(ks []keyDef) string {
	out := make([]string, len(ks))
	for i, k := range ks {
		out[i] = k.String()
	}
	return strings.Join(out, "~")
}

func (c *createTbl) obs() string { return "cols=" + strings.Join(c.cols, ",") + "/keys=" + keysText(c.keys) }

// identList parses "(`b`,`a`)…" (identifiers without back quotes inside: the envelope).
func identList(s string) ([]string, bool) {
	i := strings.Index(s, "(")
	j := strings.Index(s, ")")
	if i < 0 || j < i {
		return nil, false
	}
	var out []string
	for _, x := range strings.Split(s[i+1:j], ",") {
		x = strings.TrimSpace(x)
		if len(x) < 2 || x[0] != '`' || x[len(x)-1] != '`' {
			return nil, false
		}
		out = append(out, x[1:len(x)-1])
	}
	return out, true
}

// parseCreate reads the column names and the key clauses off a SHOW CREATE TABLE text. An
// unrecognised line is an error (the harness must not silently skip what it does not understand).
func parseCreate(text string) (*createTbl, error) {
	c := &createTbl{text: text}
	lines := strings.Split(text, "\n")
	if len(lines) < 2 || !strings.HasPrefix(lines[0], "CREATE TABLE `") {
		return nil, fmt.Errorf("not a CREATE TABLE statement: %q", text)
	}
	for _, ln := range lines[1:] {
		ln = strings.TrimSuffix(strings.TrimSpace(ln), ",")
		switch {
		case strings.HasPrefix(ln, ")"):
			return c, nil
		case strings.HasPrefix(ln, "`"):
			j := strings.Index(ln[1:], "`")
			if j < 0 {
				return nil, fmt.Errorf("column line %q", ln)
			}
			c.cols = append(c.cols, ln[1:1+j])
		case strings.HasPrefix(ln, "PRIMARY KEY "):
			cols, ok := identList(ln)
			if !ok {
				return nil, fmt.Errorf("key line %q", ln)
			}
			c.keys = append(c.keys, keyDef{"PRIMARY", true, cols})
		case strings.HasPrefix(ln, "UNIQUE KEY `"), strings.HasPrefix(ln, "KEY `"):
			u := strings.HasPrefix(ln, "UNIQUE ")
			rest := ln[strings.Index(ln, "`")+1:]
			j := strings.Index(rest, "`")
			cols, ok := identList(rest[j+1:])
			if j < 0 || !ok {
				return nil, fmt.Errorf("key line %q", ln)
			}
			c.keys = append(c.keys, keyDef{rest[:j], u, cols})
		case strings.HasPrefix(ln, "CONSTRAINT `"):
			c.rest = append(c.rest, ln)
		default:
			return nil, fmt.Errorf("unrecognised line %q", ln)
		}
	}
	return nil, fmt.Errorf("no closing parenthesis: %q", text)
}

func rowsText(rows [][]string, sorted bool) string {
	ls := make([]string, len(rows))
	for i, r := range rows {
		ls[i] = strings.Join(r, "|")
	}
	if sorted {
		sort.Strings(ls)
	}
	return strings.Join(ls, "~")
}

func query(e *eng.Eng, ctx *sql.Context, q string) ([][]string, string) {
	r := e.Query(eng.SameSession(ctx), q)
	if c := r.Class(); c != "ok" {
		if r.Panic != "" {
			return nil, "crash:" + r.Panic
		}
		return nil, c
	}
	return r.Rows, ""
}

func pick(rows [][]string, idxs ...int) [][]string {
	out := make([][]string, len(rows))
	for i, r := range rows {
		for _, k := range idxs {
			out[i] = append(out[i], r[k])
		}
	}
	return out
}

func observe(e *eng.Eng, ctx *sql.Context) (*obsv, string) {
	o := &obsv{raw: map[string][][]string{}, create: map[string]*createTbl{}}
	put := func(key string, rows [][]string, sorted bool) {
		o.parts = append(o.parts, [2]string{key, rowsText(rows, sorted)})
		o.raw[key] = rows
	}
	qs := []struct{ key, q string }{
		{"TABLES", "SELECT table_name, table_type FROM information_schema.tables WHERE table_schema = 'd'"},
		{"COLUMNS", "SELECT c.table_name, c.column_name, c.ordinal_position, c.is_nullable, c.column_type, c.column_key, c.column_default FROM information_schema.columns c WHERE c.table_schema = 'd'"},
		{"STATISTICS", "SELECT table_name, non_unique, index_name, seq_in_index, column_name, nullable FROM information_schema.statistics WHERE table_schema = 'd'"},
		{"CONSTRAINTS", "SELECT constraint_name, table_name, constraint_type FROM information_schema.table_constraints WHERE table_schema = 'd'"},
		{"KCU", "SELECT constraint_name, table_name, column_name, ordinal_position FROM information_schema.key_column_usage WHERE table_schema = 'd'"},
		{"TRIGGERS", "SELECT trigger_name, event_manipulation, event_object_table, action_timing FROM information_schema.triggers WHERE trigger_schema = 'd'"},
		{"VIEWS", "SELECT table_name, view_definition FROM information_schema.views WHERE table_schema = 'd'"},
		{"SHOWTABLES", "SHOW TABLES"},
		{"SHOWFULL", "SHOW FULL TABLES"},
		{"SHOWTRIG", "SHOW TRIGGERS"},
		{"ROUTINES", "SELECT routine_name, is_deterministic, sql_data_access, security_type FROM information_schema.routines WHERE routine_schema = 'd'"},
		{"SHOWPROCS", "SHOW PROCEDURE STATUS"},
	}
	base := map[string]bool{}
	for _, x := range qs {
		rows, bad := query(e, ctx, x.q)
		if bad != "" {
			return nil, x.key + ":" + bad
		}
		switch x.key {
		case "TABLES":
			for _, r := range rows {
				if r[1] == "BASE TABLE" {
					base[r[0]] = true
				}
			}
		case "COLUMNS": // columns of views are outside the envelope
			var keep [][]string
			for _, r := range rows {
				if base[r[0]] {
					keep = append(keep, r)
				}
			}
			rows = keep
		case "SHOWTRIG":
			rows = pick(rows, 0, 1, 2, 4)
		case "SHOWPROCS": // (Name, Security_type) of the procedures of d
			var keep [][]string
			for _, r := range rows {
				if r[0] == "d" {
					keep = append(keep, []string{r[1], r[6]})
				}
			}
			rows = keep
		}
		put(x.key, rows, true)
	}
	var names []string
	for n := range base {
		names = append(names, n)
	}
	sort.Strings(names)
	for _, n := range names {
		rows, bad := query(e, ctx, "SHOW COLUMNS FROM "+n)
		if bad != "" {
			return nil, "SHOWCOLS:" + bad
		}
		put("SHOWCOLS:"+n, pick(rows, 0, 1, 2, 3, 4), false)
		rows, bad = query(e, ctx, "SHOW INDEX FROM "+n)
		if bad != "" {
			return nil, "SHOWIDX:" + bad
		}
		put("SHOWIDX:"+n, pick(rows, 0, 1, 2, 3, 4, 9), false)
		rows, bad = query(e, ctx, "SHOW CREATE TABLE "+n)
		if bad != "" || len(rows) != 1 || len(rows[0]) < 2 {
			return nil, "SHOWCREATE:" + bad + fmt.Sprintf("(%d rows)", len(rows))
		}
		ct, err := parseCreate(rows[0][1])
		if err != nil {
			return nil, "SHOWCREATE:unparsed:" + err.Error()
		}
		o.create[n] = ct
		o.parts = append(o.parts, [2]string{"SHOWCREATE:" + n, ct.obs()})
	}
	return o, ""
}

// keysBy groups rows of a key view (already restricted to one table) by key name and orders the
// columns of each key by its sequence number: name → columns in key order.
func keysBy(rows [][]string, nameCol, seqCol, colCol int) map[string][]string {
	type ent struct {
		seq int
		col string
	}
	tmp := map[string][]ent{}
	for _, rw := range rows {
		k, _ := strconv.Atoi(rw[seqCol])
		tmp[rw[nameCol]] = append(tmp[rw[nameCol]], ent{k, rw[colCol]})
	}
	out := map[string][]string{}
	for n, es := range tmp {
		sort.SliceStable(es, func(i, j int) bool { return es[i].seq < es[j].seq })
		for i, x := range es {
			if x.seq != i+1 {
				out[n] = append(out[n], fmt.Sprintf("<seq %d at place %d>", x.seq, i+1))
			}
			out[n] = append(out[n], x.col)
		}
	}
	return out
}

func keyMapText(m map[string][]string) string {
	var ns []string
	for n := range m {
		ns = append(ns, n)
	}
	sort.Strings(ns)
	for i, n := range ns {
		ns[i] = n + "(" + strings.Join(m[n], ",") + ")"
	}
	return strings.Join(ns, " ")
}

// liveKeys walks the table object itself: GetIndexes (expressions "t.col") and, for the primary key,
// the ordinals of its primary-key schema.
func liveKeys(e *eng.Eng, ctx *sql.Context, name string) (all map[string][]string, pkByOrd []string, err error) {
	t, ok, err := e.DBs[0].GetTableInsensitive(ctx, name)
	if err != nil || !ok {
		return nil, nil, fmt.Errorf("table %s not found in the database: %v", name, err)
	}
	all = map[string][]string{}
	if ia, ok := t.(sql.IndexAddressable); ok {
		is, err := ia.GetIndexes(ctx)
		if err != nil {
			return nil, nil, err
		}
		for _, i := range is {
			var cols []string
			for _, ex := range i.Expressions() {
				cols = append(cols, ex[strings.LastIndex(ex, ".")+1:])
			}
			all[i.ID()] = cols
		}
	}
	if pt, ok := t.(sql.PrimaryKeyTable); ok {
		ps := pt.PrimaryKeySchema(ctx)
		for _, k := range ps.PkOrdinals {
			if k < 0 || k >= len(ps.Schema) {
				return nil, nil, fmt.Errorf("primary-key ordinal %d outside the schema of %s (%d columns)", k, name, len(ps.Schema))
			}
			pkByOrd = append(pkByOrd, ps.Schema[k].Name)
		}
	}
	return all, pkByOrd, nil
}


func run(a hx.RunArgs) error {
	out := hx.NewOut(a.OutDir)
	defer out.Close()
	out.Rule = "one case = one DDL history (1-16 statements: CREATE/DROP TABLE with keys, ADD [FIRST|AFTER] / DROP / RENAME COLUMN, CREATE/DROP INDEX, ADD/DROP PRIMARY KEY, " +
		"CREATE/DROP VIEW, CREATE/DROP TRIGGER, CREATE/DROP PROCEDURE with characteristics; ~10% deliberately invalid; streams: mixed, key-centred (composite keys out of column order, re-added keys), " +
		"routine-centred) over an empty database, observed at its end through 8 information_schema tables and 7 SHOW statements (SHOW CREATE TABLE: column order and key clauses); " +
		"objs cases (oracle only): 2-6 procedures / events / checks / foreign keys / triggers / views, each listed in the full catalog as when it is alone; " +
		"non-trivial = at least two tables or one table with a secondary index exist at the end and at least one statement was rejected or a view/trigger exists, " +
		"or two procedures exist, or a key is declared out of column order"
	r := hx.NewRand(a.Seed).Fork()

	emit := func(kind string, h []ddl, acct bool, rr *hx.Rand) {
		e := eng.New("d")
		if acct {
			e.E.Analyzer.Catalog.MySQLDb.AddRootAccount()
		}
		ctx := e.Ctx()
		flags := ""
		var texts []string
		for _, d := range h {
			q := d.sql(rr)
			texts = append(texts, q)
			res := e.Query(eng.SameSession(ctx), q)
			switch {
			case res.Panic != "":
				flags += "!"
				out.Stat("ddl:crash")
			case res.Class() == "ok":
				flags += "o"
				out.Stat("ddl:" + d.kind + ":ok")
			default:
				flags += "e"
				out.Stat("ddl:" + d.kind + ":err")
			}
		}
		mode := "noacct"
		if acct {
			mode = "acct"
		}
		parts := []string{"hist", mode}
		for _, d := range h {
			parts = append(parts, d.sexp())
		}
		o, bad := observe(e, ctx)
		obs := "ddl=" + flags + ";"
		nontriv := false
		if bad != "" {
			obs += "observation-failed:" + bad
		} else {
			kv := make([]string, len(o.parts))
			for i, p := range o.parts {
				kv[i] = p[0] + "=" + p[1]
			}
			obs += strings.Join(kv, ";")
			nontriv = (len(o.raw["TABLES"]) >= 2 || len(o.raw["STATISTICS"]) >= 2) && (strings.Contains(flags, "e") || len(o.raw["SHOWTRIG"]) > 0 || len(o.raw["VIEWS"]) > 0)
			if len(o.raw["ROUTINES"]) >= 2 {
				nontriv = true
			}
			for _, ct := range o.create {
				for _, k := range ct.keys {
					if len(k.cols) > 1 && !inColumnOrder(k.cols, ct.cols) {
						nontriv = true
					}
				}
			}
		}
		id := out.Case(hx.List(parts...), obs, nontriv)
		out.Stat("history:" + kind + ":" + mode)
		out.StatN("statements", len(h))
		if bad != "" {
			return
		}
		fail := func(tag, format string, args ...any) {
			out.OracleFail(id, tag, fmt.Sprintf(format, args...)+"  ["+strings.Join(texts, " ; ")+"]")
		}
		// (1) object names = live catalog walk
		var live []string
		if names, err := e.DBs[0].GetTableNames(ctx); err == nil {
			live = append(live, names...)
		}
		var listed []string
		for _, rw := range o.raw["TABLES"] {
			if rw[1] == "BASE TABLE" {
				listed = append(listed, rw[0])
			}
		}
		sort.Strings(live)
		sort.Strings(listed)
		if strings.Join(live, ",") != strings.Join(listed, ",") {
			fail("-", "information_schema.tables lists base tables %v, the database has %v", listed, live)
		}
		// (2) SHOW = information_schema
		if o.parts[0][1] != o.parts[8][1] {
			fail("-", "SHOW FULL TABLES %q differs from information_schema.tables %q", o.parts[8][1], o.parts[0][1])
		}
		if rowsText(o.raw["TRIGGERS"], true) != rowsText(o.raw["SHOWTRIG"], true) {
			tag := "-"
			if !acct && len(o.raw["TRIGGERS"]) == 0 {
				tag = "no_privilege_set_views_triggers_empty"
			}
			fail(tag, "information_schema.triggers %q differs from SHOW TRIGGERS %q", rowsText(o.raw["TRIGGERS"], true), rowsText(o.raw["SHOWTRIG"], true))
		}
		nviews := 0
		for _, rw := range o.raw["TABLES"] {
			if rw[1] == "VIEW" {
				nviews++
			}
		}
		if nviews != len(o.raw["VIEWS"]) {
			tag := "-"
			if !acct && len(o.raw["VIEWS"]) == 0 {
				tag = "no_privilege_set_views_triggers_empty"
			}
			fail(tag, "information_schema.views has %d rows, information_schema.tables lists %d views", len(o.raw["VIEWS"]), nviews)
		}
		for _, n := range listed {
			var fromCols, fromStats [][]string
			for _, rw := range o.raw["COLUMNS"] {
				if rw[0] == n {
					fromCols = append(fromCols, rw)
				}
			}
			sort.Slice(fromCols, func(i, j int) bool {
				a, _ := strconv.Atoi(fromCols[i][2])
				b, _ := strconv.Atoi(fromCols[j][2])
				return a < b
			})
			if is, sh := pick(fromCols, 1, 4, 3, 5, 6), o.raw["SHOWCOLS:"+n]; rowsText(is, false) != rowsText(sh, false) {
				// classify by which cell differs: Key only / Default only up to the quotes of a string literal
				unq := func(rows [][]string) [][]string {
					out := make([][]string, len(rows))
					for i, rw := range rows {
						c := append([]string(nil), rw...)
						if len(c) > 4 && len(c[4]) >= 2 && strings.HasPrefix(c[4], "'") && strings.HasSuffix(c[4], "'") {
							c[4] = c[4][1 : len(c[4])-1]
						}
						out[i] = c
					}
					return out
				}
				tag := "-"
				switch {
				case rowsText(pick(is, 0, 1, 2, 4), false) == rowsText(pick(sh, 0, 1, 2, 4), false):
					tag = "column_key_composite_or_shared_index"
				case rowsText(is, false) == rowsText(unq(sh), false):
					tag = "show_columns_string_default_quoted"
				case rowsText(pick(is, 0, 1, 2, 4), false) == rowsText(pick(unq(sh), 0, 1, 2, 4), false):
					tag = "column_key_composite_or_shared_index"
				}
				fail(tag, "SHOW COLUMNS FROM %s %q differs from information_schema.columns %q", n, rowsText(sh, false), rowsText(is, false))
			}
			for i, rw := range fromCols {
				if rw[2] != strconv.Itoa(i+1) {
					fail("-", "ordinal positions of %s are not 1..n: %v", n, pick(fromCols, 1, 2))
					break
				}
			}
			colset := map[string]bool{}
			for _, rw := range fromCols {
				colset[rw[1]] = true
			}
			for _, rw := range o.raw["STATISTICS"] {
				if rw[0] == n {
					fromStats = append(fromStats, rw)
					if !colset[rw[4]] {
						fail("-", "information_schema.statistics names column %s.%s which information_schema.columns does not list", n, rw[4])
					}
				}
			}
			if rowsText(fromStats, true) != rowsText(o.raw["SHOWIDX:"+n], true) {
				fail("-", "SHOW INDEX FROM %s %q differs from information_schema.statistics %q", n, rowsText(o.raw["SHOWIDX:"+n], true), rowsText(fromStats, true))
			}
			// (3) key order: every key has the same column list, in the same order, wherever it is shown.
			// None of the listed defects touches the order of key columns, so these failures carry their own
			// tag (they must not inherit the region of a COLUMN_KEY / default-quoting case).
			ct := o.create[n]
			fromCreate := map[string][]string{}
			for _, k := range ct.keys {
				fromCreate[k.name] = k.cols
			}
			var kcu [][]string
			for _, rw := range o.raw["KCU"] {
				if rw[1] == n {
					kcu = append(kcu, rw)
				}
			}
			byStats := keysBy(fromStats, 2, 3, 4)
			byShowIdx := keysBy(o.raw["SHOWIDX:"+n], 2, 3, 4)
			byKcu := keysBy(kcu, 0, 3, 2)
			live, pkByOrd, err := liveKeys(e, ctx, n)
			if err != nil {
				fail("key_column_order_disagrees", "%v", err)
				continue
			}
			want := keyMapText(live)
			if got := keyMapText(fromCreate); got != want {
				fail("key_column_order_disagrees", "SHOW CREATE TABLE %s has the keys %s, the table's own indexes are %s", n, got, want)
			}
			if got := keyMapText(byStats); got != want {
				fail("key_column_order_disagrees", "information_schema.statistics has the keys %s for %s, the table's own indexes are %s", got, n, want)
			}
			if got := keyMapText(byShowIdx); got != want {
				fail("key_column_order_disagrees", "SHOW INDEX FROM %s has the keys %s, the table's own indexes are %s", n, got, want)
			}
			uniqLive := map[string][]string{}
			for _, k := range ct.keys {
				if k.unique {
					uniqLive[k.name] = live[k.name]
				}
			}
			if got, w := keyMapText(byKcu), keyMapText(uniqLive); got != w {
				fail("key_column_order_disagrees", "information_schema.key_column_usage has the keys %s for %s, the table's own unique indexes are %s", got, n, w)
			}
			if strings.Join(pkByOrd, ",") != strings.Join(live["PRIMARY"], ",") {
				fail("key_column_order_disagrees", "the primary-key ordinals of %s read back to (%s), its PRIMARY index is (%s)", n, strings.Join(pkByOrd, ","), strings.Join(live["PRIMARY"], ","))
			}
			colNames := make([]string, len(fromCols))
			for i, rw := range fromCols {
				colNames[i] = rw[1]
			}
			if strings.Join(ct.cols, ",") != strings.Join(colNames, ",") {
				fail("key_column_order_disagrees", "SHOW CREATE TABLE %s lists the columns %v, information_schema.columns %v", n, ct.cols, colNames)
			}
			if len(live["PRIMARY"]) > 1 || len(ct.keys) > 1 {
				out.Stat("tables:composite-or-several-keys")
			}
			for _, k := range ct.keys {
				if len(k.cols) > 1 && !inColumnOrder(k.cols, ct.cols) {
					out.Stat("keys:declared-out-of-column-order")
					if k.name == "PRIMARY" {
						out.Stat("keys:primary-out-of-column-order")
					}
				}
			}
		}
		// (4) round trip: the printed CREATE TABLE statements, executed on an empty database, give tables
		// with the same keys (same views, same SHOW CREATE TABLE)
		if len(listed) > 0 {
			e2 := eng.New("d")
			if acct {
				e2.E.Analyzer.Catalog.MySQLDb.AddRootAccount()
			}
			ctx2 := e2.Ctx()
			ok := true
			for _, n := range listed {
				if res := e2.Query(eng.SameSession(ctx2), o.create[n].text); res.Class() != "ok" {
					fail("show_create_round_trip", "the statement SHOW CREATE TABLE %s printed is rejected (%s %v %s): %s", n, res.Class(), res.Err, res.Panic, hx.OneLine(o.create[n].text))
					ok = false
				}
			}
			if ok {
				for _, x := range []struct{ key, q string }{
					{"STATISTICS", "SELECT table_name, non_unique, index_name, seq_in_index, column_name, nullable FROM information_schema.statistics WHERE table_schema = 'd'"},
					{"KCU", "SELECT constraint_name, table_name, column_name, ordinal_position FROM information_schema.key_column_usage WHERE table_schema = 'd'"},
					{"CONSTRAINTS", "SELECT constraint_name, table_name, constraint_type FROM information_schema.table_constraints WHERE table_schema = 'd'"},
				} {
					rows, bad := query(e2, ctx2, x.q)
					if bad != "" || rowsText(rows, true) != rowsText(o.raw[x.key], true) {
						fail("show_create_round_trip", "after replaying the SHOW CREATE TABLE statements %s is %q (%s), it was %q", x.key, rowsText(rows, true), bad, rowsText(o.raw[x.key], true))
					}
				}
				for _, n := range listed {
					rows, bad := query(e2, ctx2, "SHOW CREATE TABLE "+n)
					if bad != "" || len(rows) != 1 || rows[0][1] != o.create[n].text {
						fail("show_create_round_trip", "SHOW CREATE TABLE %s is not a fixed point: %q replayed gives %q %s", n, hx.OneLine(o.create[n].text), hx.OneLine(fmt.Sprint(rows)), bad)
					}
				}
			}
			out.Stat("roundtrip:histories")
		}
		// (5) routines: the listed procedures are the stored ones, SHOW PROCEDURE STATUS = ROUTINES
		var stored, routines []string
		if sps, err := e.DBs[0].GetStoredProcedures(ctx); err == nil {
			for _, sp := range sps {
				stored = append(stored, sp.Name)
			}
		}
		for _, rw := range o.raw["ROUTINES"] {
			routines = append(routines, rw[0])
		}
		sort.Strings(stored)
		sort.Strings(routines)
		if strings.Join(stored, ",") != strings.Join(routines, ",") {
			tag := "routines_listing_disagrees"
			if !acct && len(routines) == 0 {
				tag = "no_privilege_set_routines_empty"
			}
			fail(tag, "information_schema.routines lists %v, the database stores the procedures %v", routines, stored)
		}
		if got, w := rowsText(o.raw["SHOWPROCS"], true), rowsText(pick(o.raw["ROUTINES"], 0, 3), true); got != w {
			fail("routines_listing_disagrees", "SHOW PROCEDURE STATUS (name, security type) %q differs from information_schema.routines %q", got, w)
		}
		if len(stored) >= 2 {
			out.Stat("histories:two-or-more-procedures")
		}
	}

	sp := func(s string) *string { return &s }
	corpus := [][]ddl{
		// COLUMN_KEY of a second column of a non-unique index (MySQL: empty; here MUL)
		{{kind: "ct", t: "t1", cols: []col{{name: "a", ty: "int"}, {name: "b", ty: "varchar(20)"}, {name: "c", ty: "int", nullable: true}}, pk: []string{"a"},
			idxs: []idx{{name: "ib", cols: []string{"b", "c"}}}}},
		// a column in two indexes: the later index name wins
		{{kind: "ct", t: "t1", cols: []col{{name: "a", ty: "int", nullable: true}, {name: "b", ty: "int", nullable: true}}, idxs: []idx{{name: "aa", unique: true, cols: []string{"a"}}, {name: "zz", cols: []string{"a"}}}}},
		// views and triggers
		{{kind: "ct", t: "t1", cols: []col{{name: "a", ty: "int", dflt: sp("5"), nullable: true}}}, {kind: "cv", n: "v1", text: "select 1 as one"},
			{kind: "ctr", n: "tr1", t: "t1", tm: "BEFORE", ev: "INSERT"}, {kind: "dt", t: "t1"}},
		{{kind: "ct", t: "t1", cols: []col{{name: "a", ty: "int"}, {name: "b", ty: "int", nullable: true}}}, {kind: "ac", t: "t1", c: col{name: "c", ty: "bigint", nullable: true}, pos: "first"},
			{kind: "ci", t: "t1", i: idx{name: "u1", unique: true, cols: []string{"a"}}}, {kind: "rc", t: "t1", n: "a", n2: "k1"}, {kind: "dc", t: "t1", n: "b"}},
	}
	corpus = append(corpus,
		// composite primary key declared out of column order, dropped and re-added in another order,
		// a column added in front of the key columns
		[]ddl{{kind: "ct", t: "t1", cols: []col{{name: "a", ty: "int"}, {name: "b", ty: "int"}, {name: "c", ty: "int", nullable: true}}, pk: []string{"b", "a"},
			idxs: []idx{{name: "u1", unique: true, cols: []string{"c", "a"}}, {name: "k2", cols: []string{"c", "b", "a"}}}},
			{kind: "dpk", t: "t1"}, {kind: "apk", t: "t1", pk: []string{"c", "a"}}, {kind: "ac", t: "t1", c: col{name: "z", ty: "int", nullable: true}, pos: "first"}},
		// procedures: the one that sorts first states every characteristic, the later ones none / some
		[]ddl{{kind: "cp", n: "audit", chars: []string{"det", "reads"}, invoker: true}, {kind: "cp", n: "p1"}, {kind: "cp", n: "p2", chars: []string{"nosql"}},
			{kind: "cp", n: "p1"}, {kind: "dp", n: "audit"}, {kind: "cp", n: "m1", chars: []string{"notdet", "det", "modifies", "contains"}}},
		[]ddl{{kind: "cp", n: "m1", chars: []string{"det", "modifies"}, invoker: true}, {kind: "cp", n: "zz"}, {kind: "ct", t: "zz", cols: []col{{name: "a", ty: "int", nullable: true}}}},
	)
	for _, h := range corpus {
		emit("corpus", h, true, r.Fork())
		emit("corpus", h, false, r.Fork())
	}
	// case-variant table names: listed twice each (oracle only; outside the model)
	{
		e := eng.New("d")
		ctx := e.Ctx()
		e.MustExec(ctx, "CREATE TABLE T3 (a int)", "CREATE TABLE t3 (a int)")
		rows, bad := query(e, ctx, "SELECT table_name, column_name FROM information_schema.columns WHERE table_schema = 'd'")
		_ = bad
		id := out.Case("(casevariant)", "casevariant", false)
		if len(rows) != 2 {
			out.OracleFail(id, "case_variant_table_names", fmt.Sprintf("tables T3 and t3 (one column each): information_schema.columns has %d rows: %s", len(rows), rowsText(rows, true)))
		}
	}
	n, nKeys, nProcs, nObjs := 1000, 150, 150, 120
	if a.Thorough {
		n, nKeys, nProcs, nObjs = 9000, 1500, 1500, 1200
	}
	// the streams are interleaved so that the smallest failing case of any class is found early
	for i := 0; i < n; i++ {
		rr := r.Fork()
		h := genHistory(rr, 1+rr.Intn(16), "mixed")
		emit("random", h, !rr.Chance(1, 8), rr.Fork())
		if i*nKeys/n != (i+1)*nKeys/n {
			rk := r.Fork()
			emit("keys", genHistory(rk, 1+rk.Intn(8), "keys"), !rk.Chance(1, 10), rk.Fork())
		}
		if i*nProcs/n != (i+1)*nProcs/n {
			rp := r.Fork()
			emit("procs", genHistory(rp, 2+rp.Intn(7), "procs"), !rp.Chance(1, 10), rp.Fork())
		}
		if i*nObjs/n != (i+1)*nObjs/n {
			objsCase(out, r.Fork())
		}
	}
	return nil
}
