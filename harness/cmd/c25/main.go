// C25 — Integer and decimal arithmetic is exact or reports out-of-range.
//
// extract: (a) go/ast: the type-switch matrices of plus/minus/mult, the UnaryMinus.Eval switch, the div constants;
//
//	(b) run time, freshly compiled code: declared result type of every operator on every pair of integer
//	    types (real expression nodes), type given to boundary integer literals (real planbuilder via SELECT).
//
// run: SELECT <operand> op <operand> on the real engine (columns of every integer type, literals, NULLs) —
//
//	observation = the text the client receives; oracle = math/big reference.
package main

import (
	"fmt"
	"go/ast"
	"math/big"
	"os"
	"sort"
	"strings"

	"github.com/dolthub/go-mysql-server/sql"
	"github.com/dolthub/go-mysql-server/sql/expression"
	"github.com/dolthub/go-mysql-server/sql/types"
	"github.com/dolthub/go-mysql-server/verifharness/hx"
	"github.com/dolthub/go-mysql-server/verifharness/hx/eng"
)

func main() { hx.Main(extract, run) }

// ---------------------------------------------------------------------------------------------

type ity struct {
	name     string // protocol / Lean constructor name
	decl     string // SQL column type
	bits     int
	unsigned bool
	t        sql.Type
}

var itys = []ity{
	{"i8", "tinyint", 8, false, types.Int8}, {"u8", "tinyint unsigned", 8, true, types.Uint8},
	{"i16", "smallint", 16, false, types.Int16}, {"u16", "smallint unsigned", 16, true, types.Uint16},
	{"i24", "mediumint", 24, false, types.Int24}, {"u24", "mediumint unsigned", 24, true, types.Uint24},
	{"i32", "int", 32, false, types.Int32}, {"u32", "int unsigned", 32, true, types.Uint32},
	{"i64", "bigint", 64, false, types.Int64}, {"u64", "bigint unsigned", 64, true, types.Uint64},
}

func (t ity) lo() *big.Int {
	if t.unsigned {
		return big.NewInt(0)
	}
	return new(big.Int).Neg(new(big.Int).Lsh(big.NewInt(1), uint(t.bits-1)))
}
func (t ity) hi() *big.Int {
	if t.unsigned {
		return new(big.Int).Sub(new(big.Int).Lsh(big.NewInt(1), uint(t.bits)), big.NewInt(1))
	}
	return new(big.Int).Sub(new(big.Int).Lsh(big.NewInt(1), uint(t.bits-1)), big.NewInt(1))
}
func (t ity) clampTo(v *big.Int) *big.Int {
	if v.Cmp(t.lo()) < 0 {
		return t.lo()
	}
	if v.Cmp(t.hi()) > 0 {
		return t.hi()
	}
	return v
}

var ops = []struct{ name, sql string }{{"add", "+"}, {"sub", "-"}, {"mul", "*"}, {"idiv", "div"}, {"mod", "%"}, {"div", "/"}}

func bi(s string) *big.Int {
	v, ok := new(big.Int).SetString(s, 10)
	if !ok {
		panic("bad int " + s)
	}
	return v
}

var (
	minI64 = bi("-9223372036854775808")
	maxI64 = bi("9223372036854775807")
	maxU64 = bi("18446744073709551615")
)

// ---------------------------------------------------------------------------------------------
// Facts

func leanStr(s string) string { return hx.LeanString(s) }

// switchMatrix reads `switch l := lval.(type) { case T: switch r := rval.(type) { case T: return <expr>, nil } }`.
func switchMatrix(src *hx.Src, fn string) ([][3]string, error) {
	fd, err := src.Func("", fn)
	if err != nil {
		return nil, err
	}
	var out [][3]string
	var outer *ast.TypeSwitchStmt
	for _, st := range fd.Body.List {
		if ts, ok := st.(*ast.TypeSwitchStmt); ok {
			outer = ts
		}
	}
	if outer == nil {
		return nil, fmt.Errorf("%s: no outer type switch", fn)
	}
	for _, cc := range outer.Body.List {
		c := cc.(*ast.CaseClause)
		for _, lt := range c.List {
			for _, st := range c.Body {
				inner, ok := st.(*ast.TypeSwitchStmt)
				if !ok {
					continue
				}
				for _, icc := range inner.Body.List {
					ic := icc.(*ast.CaseClause)
					for _, rt := range ic.List {
						expr := "<complex>"
						if len(ic.Body) == 1 {
							if ret, ok := ic.Body[0].(*ast.ReturnStmt); ok && len(ret.Results) == 2 {
								expr = src.Text(ret.Results[0])
							}
						}
						out = append(out, [3]string{src.Text(lt), src.Text(rt), expr})
					}
				}
			}
		}
	}
	if len(out) == 0 {
		return nil, fmt.Errorf("%s: empty switch matrix", fn)
	}
	return out, nil
}

func isGoInt(s string) bool {
	switch s {
	case "int8", "int16", "int32", "int64", "uint8", "uint16", "uint32", "uint64":
		return true
	}
	return false
}

func resTyLean(s string) string {
	switch s {
	case "bigint":
		return "ResTy.i64"
	case "bigint unsigned":
		return "ResTy.u64"
	case "tinyint unsigned":
		return "ResTy.u8"
	case "smallint unsigned":
		return "ResTy.u16"
	case "mediumint unsigned":
		return "ResTy.u24"
	case "mediumint":
		return "ResTy.i24"
	case "int":
		return "ResTy.i32"
	}
	if strings.HasPrefix(s, "decimal(") {
		var p, sc int
		if _, err := fmt.Sscanf(s, "decimal(%d,%d)", &p, &sc); err == nil {
			return fmt.Sprintf("(ResTy.dec %d)", sc)
		}
	}
	return "ResTy.other"
}

func extract(a hx.ExtractArgs) error {
	var b strings.Builder
	b.WriteString("/- GENERATED on every run by harness/cmd/c25 (extract) from the repository's working tree. Do not edit.\n")
	b.WriteString("   Sources: sql/expression/arithmetic.go, sql/expression/div.go (go/ast); Arithmetic/IntDiv/Mod/Div/UnaryMinus.Type()\n")
	b.WriteString("   and the planbuilder's literal typing (dumped from the freshly compiled code). -/\n")
	b.WriteString("import Gms.Model.Num\nnamespace Gms.Generated.C25\nopen Gms.Num\n\n")

	src, err := hx.ParseSrc(a.Repo, "sql/expression/arithmetic.go")
	if err != nil {
		return err
	}
	for _, fn := range []string{"plus", "minus", "mult"} {
		m, err := switchMatrix(src, fn)
		if err != nil {
			return err
		}
		var parts []string
		for _, e := range m {
			if isGoInt(e[0]) || isGoInt(e[1]) {
				parts = append(parts, fmt.Sprintf("(%s, %s, %s)", leanStr(e[0]), leanStr(e[1]), leanStr(e[2])))
			}
		}
		fmt.Fprintf(&b, "/-- integer rows of the type-switch matrix of `%s` (arithmetic.go:%d): (Go type of l, Go type of r, returned expression) -/\n", fn, src.Line(mustFunc(src, fn)))
		fmt.Fprintf(&b, "def %sCases : List (String × String × String) := [\n  %s]\n\n", fn, strings.Join(parts, ",\n  "))
	}

	// UnaryMinus.Eval: `switch n := child.(type)`
	fd, err := src.Func("UnaryMinus", "Eval")
	if err != nil {
		return err
	}
	var negParts []string
	guard := ""
	guardErr := ""
	ast.Inspect(fd.Body, func(n ast.Node) bool {
		ts, ok := n.(*ast.TypeSwitchStmt)
		if !ok {
			return true
		}
		if as, ok := ts.Assign.(*ast.AssignStmt); !ok || src.Text(as.Lhs[0]) != "n" {
			return true
		}
		for _, cc := range ts.Body.List {
			c := cc.(*ast.CaseClause)
			for _, t := range c.List {
				tn := src.Text(t)
				if !isGoInt(tn) {
					continue
				}
				last, ok := c.Body[len(c.Body)-1].(*ast.ReturnStmt)
				expr := "<complex>"
				if ok && len(last.Results) == 2 {
					expr = src.Text(last.Results[0])
				}
				negParts = append(negParts, fmt.Sprintf("(%s, %s)", leanStr(tn), leanStr(expr)))
				if tn == "int64" {
					for _, st := range c.Body {
						if is, ok := st.(*ast.IfStmt); ok {
							guard = src.Text(is.Cond)
							if r, ok := is.Body.List[len(is.Body.List)-1].(*ast.ReturnStmt); ok && len(r.Results) == 2 {
								guardErr = src.Text(r.Results[1])
								if i := strings.Index(guardErr, "("); i > 0 {
									guardErr = guardErr[:i]
								}
							}
						}
					}
				}
			}
		}
		return false
	})
	if len(negParts) == 0 {
		return fmt.Errorf("UnaryMinus.Eval: type switch over `n` not found")
	}
	fmt.Fprintf(&b, "/-- integer rows of `UnaryMinus.Eval`'s type switch: (Go type of the child value, returned expression) -/\n")
	fmt.Fprintf(&b, "def negCases : List (String × String) := [\n  %s]\n", strings.Join(negParts, ",\n  "))
	fmt.Fprintf(&b, "def negInt64Guard : String := %s\ndef negInt64GuardError : String := %s\n\n", leanStr(guard), leanStr(guardErr))

	// div constants
	dsrc, err := hx.ParseSrc(a.Repo, "sql/expression/div.go")
	if err != nil {
		return err
	}
	for _, c := range []string{"divPrecInc", "divIntPrecInc"} {
		e, err := dsrc.PkgVarInit(c)
		if err != nil {
			return err
		}
		lit, ok := e.(*ast.BasicLit)
		if !ok {
			return fmt.Errorf("%s is not a literal", c)
		}
		fmt.Fprintf(&b, "def %s : Nat := %s\n", c, lit.Value)
	}
	// the Go operators of intDiv on int64/uint64
	im, err := switchMatrix(dsrc, "intDiv")
	if err == nil {
		var parts []string
		for _, e := range im {
			if isGoInt(e[0]) {
				parts = append(parts, fmt.Sprintf("(%s, %s)", leanStr(e[0]), leanStr(e[1])))
			}
		}
		fmt.Fprintf(&b, "def intDivIntCases : List (String × String) := [%s]\n", strings.Join(parts, ", "))
	} else {
		return err
	}
	b.WriteString("\n")

	// run time: declared result types
	ctx := sql.NewEmptyContext()
	gf := func(i int, t ity) sql.Expression { return expression.NewGetField(i, t.t, "c"+t.name, true) }
	var rows []string
	for _, op := range ops {
		for _, lt := range itys {
			for _, rt := range itys {
				var e sql.Expression
				l, r := gf(0, lt), gf(1, rt)
				switch op.name {
				case "add":
					e = expression.NewPlus(l, r)
				case "sub":
					e = expression.NewMinus(l, r)
				case "mul":
					e = expression.NewMult(l, r)
				case "idiv":
					e = expression.NewIntDiv(l, r)
				case "mod":
					e = expression.NewMod(l, r)
				case "div":
					e = expression.NewDiv(l, r)
				}
				ty := ""
				if p := hx.Safe(func() { ty = e.Type(ctx).String() }); p != "" {
					ty = "panic"
				}
				rows = append(rows, fmt.Sprintf("(BOp.%s, ITy.%s, ITy.%s, %s)", op.name, lt.name, rt.name, resTyLean(ty)))
			}
		}
	}
	fmt.Fprintf(&b, "/-- declared result type (`Type()`) of `<col lt> op <col rt>` for the real expression nodes -/\n")
	fmt.Fprintf(&b, "def binTypeTable : List (BOp × ITy × ITy × ResTy) := [\n  %s]\n\n", strings.Join(rows, ",\n  "))
	rows = nil
	for _, t := range itys {
		ty := expression.NewUnaryMinus(gf(0, t)).Type(ctx).String()
		rows = append(rows, fmt.Sprintf("(ITy.%s, %s)", t.name, resTyLean(ty)))
	}
	fmt.Fprintf(&b, "def negTypeTable : List (ITy × ResTy) := [%s]\n\n", strings.Join(rows, ", "))

	// run time: literal typing by the real planbuilder
	e := eng.New("d")
	ectx := e.Ctx()
	rows = nil
	for _, l := range literalBoundaries() {
		r := e.Query(ectx, "select "+l.String())
		ty := "error"
		if r.Class() == "ok" && len(r.Types) == 1 {
			ty = r.Types[0]
		}
		lt := "none"
		for _, t := range itys {
			if t.decl == ty {
				lt = "some ITy." + t.name
			}
		}
		if lt == "none" && !strings.HasPrefix(ty, "decimal") {
			return fmt.Errorf("literal %s has unexpected type %q", l, ty)
		}
		rows = append(rows, fmt.Sprintf("(%s, %s)", leanInt(l), lt))
	}
	fmt.Fprintf(&b, "/-- type the planbuilder gives to an integer literal (`none`: decimal) -/\n")
	fmt.Fprintf(&b, "def litTypeTable : List (Int × Option ITy) := [\n  %s]\n", strings.Join(rows, ",\n  "))

	b.WriteString("\nend Gms.Generated.C25\n")
	return os.WriteFile(a.Out, []byte(b.String()), 0o644)
}

func mustFunc(src *hx.Src, fn string) *ast.FuncDecl {
	fd, err := src.Func("", fn)
	if err != nil {
		panic(err)
	}
	return fd
}

func leanInt(v *big.Int) string {
	if v.Sign() < 0 {
		return "(" + v.String() + ")"
	}
	return v.String()
}

func literalBoundaries() []*big.Int {
	var out []*big.Int
	seen := map[string]bool{}
	add := func(v *big.Int) {
		if !seen[v.String()] {
			seen[v.String()] = true
			out = append(out, v)
		}
	}
	for _, k := range []uint{0, 7, 8, 15, 16, 23, 24, 31, 32, 48, 63, 64} {
		p := new(big.Int).Lsh(big.NewInt(1), k)
		for _, d := range []int64{-1, 0, 1} {
			v := new(big.Int).Add(p, big.NewInt(d))
			add(v)
			add(new(big.Int).Neg(v))
		}
	}
	sort.Slice(out, func(i, j int) bool { return out[i].Cmp(out[j]) < 0 })
	return out
}

// ---------------------------------------------------------------------------------------------
// Run

// oty is an operand type: one of the ten integer types or a DECIMAL(24,scale) column type.
type oty struct {
	name     string
	decl     string
	isDec    bool
	scale    int
	unsigned bool
	it       ity
}

func otys() []oty {
	var out []oty
	for _, t := range itys {
		out = append(out, oty{name: t.name, decl: t.decl, unsigned: t.unsigned, it: t})
	}
	for _, sc := range []int{0, 2, 5} {
		out = append(out, oty{name: fmt.Sprintf("d%d", sc), decl: fmt.Sprintf("decimal(24,%d)", sc), isDec: true, scale: sc})
	}
	return out
}

type operand struct {
	kind string   // "col" | "lit"
	t    oty      // col: column type; lit: literal type as the engine reports it (integers) or a decimal literal
	v    *big.Int // integer value, or the coefficient of a decimal
	null bool
}

func pow10(n int) *big.Int { return new(big.Int).Exp(big.NewInt(10), big.NewInt(int64(n)), nil) }

// decText renders coefficient/scale as fixed-point text (canonical: no negative zero).
func decText(c *big.Int, scale int) string {
	s := new(big.Int).Abs(c).String()
	if scale > 0 {
		for len(s) <= scale {
			s = "0" + s
		}
		s = s[:len(s)-scale] + "." + s[len(s)-scale:]
	}
	if c.Sign() < 0 {
		s = "-" + s
	}
	return s
}

func (o operand) sqlText() string {
	if o.null {
		return "NULL"
	}
	if o.t.isDec {
		return decText(o.v, o.t.scale)
	}
	return o.v.String()
}

func (o operand) payload() string {
	if o.kind == "lit" {
		if o.t.isDec {
			return hx.List("dlit", o.v.String(), fmt.Sprint(o.t.scale))
		}
		return hx.List("lit", o.v.String())
	}
	if o.null {
		return hx.List("col", o.t.name, "null")
	}
	return hx.List("col", o.t.name, o.v.String())
}

func litIsInt(v *big.Int) bool { return v.Cmp(minI64) >= 0 && v.Cmp(maxU64) <= 0 }

func genValues(r *hx.Rand, ot oty, n int) []*big.Int {
	var vs []*big.Int
	seen := map[string]bool{}
	if ot.isDec {
		add := func(v *big.Int) {
			if !seen[v.String()] && len(vs) < n {
				seen[v.String()] = true
				vs = append(vs, v)
			}
		}
		add(big.NewInt(0))
		add(pow10(ot.scale))                                  // 1
		add(new(big.Int).Neg(big.NewInt(1)))                  // -10^-scale
		add(new(big.Int).Mul(big.NewInt(2), pow10(ot.scale))) // 2
		for len(vs) < n {
			digits := 1 + r.Intn(19)
			x := new(big.Int).SetUint64(r.U64())
			x.Mod(x, pow10(digits))
			if r.Chance(1, 4) { // whole numbers
				x.Mod(x, pow10(3))
				x.Mul(x, pow10(ot.scale))
			}
			if r.Bool() {
				x.Neg(x)
			}
			add(x)
		}
		return vs
	}
	t := ot.it
	add := func(v *big.Int) {
		v = t.clampTo(v)
		if !seen[v.String()] && len(vs) < n {
			seen[v.String()] = true
			vs = append(vs, v)
		}
	}
	lo, hi := t.lo(), t.hi()
	add(hi)
	add(lo)
	add(big.NewInt(0))
	add(big.NewInt(1))
	add(big.NewInt(-1))
	add(new(big.Int).Sub(hi, big.NewInt(1)))
	add(new(big.Int).Add(lo, big.NewInt(1)))
	add(big.NewInt(2))
	span := new(big.Int).Sub(hi, lo)
	span.Add(span, big.NewInt(1))
	for len(vs) < n {
		switch r.Intn(6) {
		case 0: // uniform over the type's range
			x := new(big.Int).SetUint64(r.U64())
			x.Mod(x, span)
			add(x.Add(x, lo))
		case 1: // small magnitude
			add(big.NewInt(int64(r.Intn(41) - 20)))
		case 2: // near a power of two (overflow frontiers of the 64-bit operators)
			k := uint(r.Intn(65))
			x := new(big.Int).Lsh(big.NewInt(1), k)
			x.Add(x, big.NewInt(int64(r.Intn(5)-2)))
			if r.Bool() {
				x.Neg(x)
			}
			add(x)
		case 3: // near the bounds
			if r.Bool() {
				add(new(big.Int).Sub(hi, big.NewInt(int64(r.Intn(300)))))
			} else {
				add(new(big.Int).Add(lo, big.NewInt(int64(r.Intn(300)))))
			}
		case 4: // around sqrt of the 64-bit bounds (products at the frontier)
			base := []string{"3037000499", "3037000500", "4294967296", "4294967295", "2147483648", "6074000999", "1000000000", "100000"}
			x := bi(hx.Pick(r, base))
			x.Add(x, big.NewInt(int64(r.Intn(7)-3)))
			if r.Bool() {
				x.Neg(x)
			}
			add(x)
		case 5: // random bit length
			k := uint(r.Intn(t.bits) + 1)
			x := new(big.Int).SetUint64(r.U64())
			x.Rsh(x, 64-k)
			if !t.unsigned && r.Bool() {
				x.Neg(x)
			}
			add(x)
		}
	}
	return vs
}

// canonical text of a numeric cell: "-0", "-0.000" ↦ without sign
func canonNum(s string) string {
	if strings.HasPrefix(s, "-") && strings.Trim(s[1:], "0.") == "" {
		return s[1:]
	}
	return s
}

func errClass(r *eng.Res) string {
	c := r.Class()
	if r.Err != nil && strings.Contains(r.Err.Error(), "out of range") {
		return "err:range"
	}
	return c
}

func fitsRes(v *big.Int, unsignedRes bool) bool {
	if v.Cmp(minI64) < 0 || v.Cmp(maxI64) > 0 {
		return false
	}
	if unsignedRes && v.Sign() < 0 {
		return false
	}
	return true
}

// reference computes the exact result with math/big: the acceptable text and whether an out-of-range error
// is acceptable as well.
func reference(op string, l, r operand) (exact string, errOK bool) {
	if l.null || r.null {
		return "null", false
	}
	lt, rt := l.t, r.t
	if !lt.isDec && !rt.isDec {
		a, b := l.v, r.v
		bothU := lt.unsigned && rt.unsigned
		anyU := lt.unsigned || rt.unsigned
		switch op {
		case "add", "sub", "mul":
			v := new(big.Int)
			switch op {
			case "add":
				v.Add(a, b)
			case "sub":
				v.Sub(a, b)
			case "mul":
				v.Mul(a, b)
			}
			return v.String(), !fitsRes(v, bothU)
		case "idiv":
			if b.Sign() == 0 {
				return "null", false
			}
			v := new(big.Int).Quo(a, b)
			return v.String(), !fitsRes(v, anyU)
		}
	}
	// decimal semantics (also `%` and `/` on integers): scaled integers
	ls, rs := lt.scale, rt.scale
	s := ls
	if rs > s {
		s = rs
	}
	a := new(big.Int).Mul(l.v, pow10(s-ls))
	b := new(big.Int).Mul(r.v, pow10(s-rs))
	switch op {
	case "add":
		return decText(new(big.Int).Add(a, b), s), false
	case "sub":
		return decText(new(big.Int).Sub(a, b), s), false
	case "mul":
		return decText(new(big.Int).Mul(l.v, r.v), ls+rs), false
	case "idiv":
		if b.Sign() == 0 {
			return "null", false
		}
		v := new(big.Int).Quo(a, b)
		return v.String(), !fitsRes(v, (!lt.isDec && lt.unsigned) || (!rt.isDec && rt.unsigned))
	case "mod":
		if b.Sign() == 0 {
			return "null", false
		}
		return decText(new(big.Int).Rem(a, b), s), false
	case "div":
		if b.Sign() == 0 {
			return "null", false
		}
		f := ls + 4
		if f > 30 {
			f = 30
		}
		// |l|/|r| * 10^f rounded half away from zero: n = |cl| 10^(f+rs), d = |cr| 10^ls
		n := new(big.Int).Mul(new(big.Int).Abs(l.v), pow10(f+rs))
		d := new(big.Int).Mul(new(big.Int).Abs(r.v), pow10(ls))
		num := new(big.Int).Add(new(big.Int).Mul(n, big.NewInt(2)), d)
		q := num.Quo(num, new(big.Int).Mul(d, big.NewInt(2)))
		if (l.v.Sign() < 0) != (r.v.Sign() < 0) {
			q.Neg(q)
		}
		return decText(q, f), false
	}
	panic("op")
}

func run(a hx.RunArgs) error {
	out := hx.NewOut(a.OutDir)
	defer out.Close()
	out.Rule = "SELECT <x> op <y> on the real engine with x,y columns of each of the 10 integer types and DECIMAL(24,0/2/5) (all 169 type pairs, " +
		"integer boundary values {min,min+1,-1,0,1,2,max-1,max}, values near powers of two / square roots of the 64-bit bounds, random values, NULL), " +
		"integer literals (the planbuilder's literal typing boundaries) and decimal literals of scale 1-6, op in + - * DIV % /, plus unary minus on every " +
		"integer column type; a case is non-trivial when no operand is NULL or 0"
	r := hx.NewRand(a.Seed).Fork() // Fork: hx.NewRand(seed+1) is hx.NewRand(seed) shifted by one draw
	e := eng.New("d")
	ctx := e.Ctx()
	tys := otys()

	record := func(kind string, opName string, l, rr operand, obs string) {
		var payload string
		nontrivial := false
		if kind == "neg" {
			payload = hx.List("neg", l.payload())
			nontrivial = !l.null && l.v.Sign() != 0
		} else {
			payload = hx.List("bin", opName, l.payload(), rr.payload())
			nontrivial = !l.null && !rr.null && l.v.Sign() != 0 && rr.v.Sign() != 0
		}
		id := out.Case(payload, obs, nontrivial)
		out.Stat(kind + ":" + opName)
		if kind == "bin" && (l.t.isDec || rr.t.isDec) {
			out.Stat("operands:decimal")
		}
		if strings.HasPrefix(obs, "err") {
			out.Stat("obs:" + obs)
		} else if obs == "null" {
			out.Stat("obs:null")
		}
		// model-free oracle
		var exact string
		var errOK bool
		if kind == "neg" {
			if l.null {
				exact = "null"
			} else {
				v := new(big.Int).Neg(l.v)
				exact = v.String()
				errOK = v.Cmp(minI64) < 0 || v.Cmp(maxI64) > 0
			}
		} else {
			exact, errOK = reference(opName, l, rr)
		}
		if obs != exact && !(errOK && obs == "err:range") {
			out.OracleFail(id, "-", fmt.Sprintf("%s: engine returned %s, exact result is %s%s", payload, obs, exact, map[bool]string{true: " (an out-of-range error would also be acceptable)", false: ""}[errOK]))
		}
	}

	cell := func(res *eng.Res, i int, col int) string {
		if res.Null[i][col] {
			return "null"
		}
		return canonNum(res.Rows[i][col])
	}
	one := func(q string) string { // single-row statement: observation of column `col`
		res := e.Query(ctx, q)
		obs := errClass(res)
		if obs == "ok" {
			if len(res.Rows) != 1 {
				return fmt.Sprintf("rows:%d", len(res.Rows))
			}
			return cell(res, 0, len(res.Rows[0])-1)
		}
		return obs
	}

	rounds := 1
	n := 10
	if a.Thorough {
		rounds, n = 4, 28
	}
	litType := func(v *big.Int) (oty, bool) { // the type the engine reports for the literal (gives the oracle its signedness)
		if !litIsInt(v) {
			return oty{}, false
		}
		q := e.Query(ctx, "select "+v.String())
		if q.Class() != "ok" {
			return oty{}, false
		}
		for _, t := range tys {
			if !t.isDec && t.decl == q.Types[0] {
				return t, true
			}
		}
		return oty{}, false
	}
	opSQL := map[string]string{}
	for _, o := range ops {
		opSQL[o.name] = o.sql
	}

	for round := 0; round < rounds; round++ {
		// value lists: index n-1 is NULL
		vals := map[string][]*big.Int{}
		for _, t := range tys {
			vals[t.name] = genValues(r, t, n-1)
		}
		colOp := func(t oty, i int) operand {
			if i == n-1 {
				return operand{kind: "col", t: t, null: true}
			}
			return operand{kind: "col", t: t, v: vals[t.name][i]}
		}
		// pair table p: row (i,j) -> a_T = V_T[i], b_T = V_T[j]; single table q: row i -> c_T = V_T[i]
		e.Query(ctx, "drop table if exists p")
		e.Query(ctx, "drop table if exists q")
		var colsP, colsQ []string
		for _, t := range tys {
			colsP = append(colsP, "a_"+t.name+" "+t.decl, "b_"+t.name+" "+t.decl)
			colsQ = append(colsQ, "c_"+t.name+" "+t.decl)
		}
		e.MustExec(ctx, "create table p (id int primary key, "+strings.Join(colsP, ", ")+")",
			"create table q (id int primary key, "+strings.Join(colsQ, ", ")+")")
		for i := 0; i < n; i++ {
			var rowsSQL []string
			for j := 0; j < n; j++ {
				parts := []string{fmt.Sprint(i*n + j)}
				for _, t := range tys {
					parts = append(parts, colOp(t, i).sqlText(), colOp(t, j).sqlText())
				}
				rowsSQL = append(rowsSQL, "("+strings.Join(parts, ",")+")")
			}
			e.MustExec(ctx, "insert into p values "+strings.Join(rowsSQL, ","))
			parts := []string{fmt.Sprint(i)}
			for _, t := range tys {
				parts = append(parts, colOp(t, i).sqlText())
			}
			e.MustExec(ctx, "insert into q values ("+strings.Join(parts, ",")+")")
		}

		// corpus first (witnesses of the listed findings and regression cases), as literal-only statements
		if round == 0 {
			corpus := [][3]string{
				{"9223372036854775807", "add", "1"}, {"9223372036854775807", "mul", "2"}, {"-9223372036854775808", "sub", "1"},
				{"18446744073709551615", "add", "1"}, {"18446744073709551615", "sub", "1"}, {"18446744073709551615", "add", "-9223372036854775808"},
				{"200", "sub", "201"}, {"-9223372036854775808", "idiv", "-1"}, {"-5", "idiv", "200"}, {"-500", "idiv", "200"}, {"18446744073709551615", "idiv", "1"},
				{"7", "idiv", "2"}, {"-7", "idiv", "2"}, {"7", "idiv", "-2"}, {"-7", "mod", "2"}, {"7", "mod", "-2"}, {"1", "div", "3"}, {"2", "div", "3"},
				{"-2", "div", "3"}, {"1", "div", "0"}, {"1", "idiv", "0"}, {"1", "mod", "0"}, {"3000001", "div", "20000006667"},
				{"2.00000", "div", "3"}, {"2.0000", "div", "3"}, {"2.00000", "div", "3.0"}, {"1.5", "add", "2.25"}, {"1.5", "mul", "2.25"}, {"0.30", "sub", "0.3"},
				{"7.5", "mod", "-2.25"}, {"-7.5", "idiv", "2"}, {"-7.5", "idiv", "200"}, {"1.5", "div", "0"}, {"-0.5", "mul", "0"},
			}
			mk := func(s string) (operand, bool) {
				if i := strings.Index(s, "."); i >= 0 {
					sc := len(s) - i - 1
					return operand{kind: "lit", t: oty{name: "dlit", isDec: true, scale: sc}, v: bi(strings.Replace(s, ".", "", 1))}, true
				}
				t, ok := litType(bi(s))
				return operand{kind: "lit", t: t, v: bi(s)}, ok
			}
			for _, c := range corpus {
				l, ok1 := mk(c[0])
				rr, ok2 := mk(c[2])
				if !ok1 || !ok2 {
					continue
				}
				record("bin", c[1], l, rr, one(fmt.Sprintf("select %s %s %s", c[0], opSQL[c[1]], c[2])))
				out.Stat("stream:corpus")
			}
		}

		// binary operators, column × column
		for _, op := range ops {
			for _, lt := range tys {
				for _, rt := range tys {
					q := fmt.Sprintf("select id, a_%s %s b_%s from p order by id", lt.name, op.sql, rt.name)
					res := e.Query(ctx, q)
					if res.Class() == "ok" && len(res.Rows) == n*n {
						for k := 0; k < n*n; k++ {
							record("bin", op.name, colOp(lt, k/n), colOp(rt, k%n), cell(res, k, 1))
						}
						out.Stat("stream:col-col")
						continue
					}
					// some row raised an error: evaluate row by row
					out.Stat("stream:col-col-rowwise")
					for k := 0; k < n*n; k++ {
						record("bin", op.name, colOp(lt, k/n), colOp(rt, k%n),
							one(fmt.Sprintf("select id, a_%s %s b_%s from p where id = %d", lt.name, op.sql, rt.name, k)))
					}
				}
			}
		}

		// unary minus on integer columns
		for _, t := range tys {
			if t.isDec {
				continue
			}
			res := e.Query(ctx, fmt.Sprintf("select id, -c_%s from q order by id", t.name))
			if res.Class() == "ok" && len(res.Rows) == n {
				for k := 0; k < n; k++ {
					record("neg", "neg", colOp(t, k), operand{}, cell(res, k, 1))
				}
				continue
			}
			for k := 0; k < n; k++ {
				record("neg", "neg", colOp(t, k), operand{}, one(fmt.Sprintf("select id, -c_%s from q where id = %d", t.name, k)))
			}
		}

		// literals: column op literal, literal op column, literal op literal
		lits := literalBoundaries()
		nl := 6
		if a.Thorough {
			nl = 14
		}
		var chosen []operand
		for i := 0; i < nl; i++ {
			if r.Chance(1, 3) { // decimal literal of scale 1..6
				sc := 1 + r.Intn(6)
				digits := 1 + r.Intn(12)
				x := new(big.Int).SetUint64(r.U64())
				x.Mod(x, pow10(digits))
				if r.Chance(1, 3) {
					x.Mod(x, big.NewInt(10))
					x.Mul(x, pow10(sc))
				}
				if r.Chance(1, 3) {
					x.Neg(x)
				}
				chosen = append(chosen, operand{kind: "lit", t: oty{name: "dlit", isDec: true, scale: sc}, v: x})
				continue
			}
			v := hx.Pick(r, lits)
			if r.Chance(1, 3) {
				v = hx.Pick(r, vals[hx.Pick(r, itys).name])
			}
			if t, ok := litType(v); ok {
				chosen = append(chosen, operand{kind: "lit", t: t, v: v})
			}
		}
		for _, lop := range chosen {
			for _, op := range ops {
				for _, t := range tys {
					for _, left := range []bool{true, false} {
						var q string
						if left {
							q = fmt.Sprintf("select id, %s %s c_%s from q order by id", lop.sqlText(), op.sql, t.name)
						} else {
							q = fmt.Sprintf("select id, c_%s %s %s from q order by id", t.name, op.sql, lop.sqlText())
						}
						res := e.Query(ctx, q)
						rowwise := !(res.Class() == "ok" && len(res.Rows) == n)
						for k := 0; k < n; k++ {
							var obs string
							if rowwise {
								obs = one(strings.Replace(q, " order by id", fmt.Sprintf(" where id = %d", k), 1))
							} else {
								obs = cell(res, k, 1)
							}
							if left {
								record("bin", op.name, lop, colOp(t, k), obs)
							} else {
								record("bin", op.name, colOp(t, k), lop, obs)
							}
						}
						out.Stat("stream:col-lit")
					}
				}
				for _, lop2 := range chosen {
					record("bin", op.name, lop, lop2, one(fmt.Sprintf("select %s %s %s", lop.sqlText(), op.sql, lop2.sqlText())))
					out.Stat("stream:lit-lit")
				}
			}
		}
	}
	return nil
}
