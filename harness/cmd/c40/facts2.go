// C40 — regenerated facts for the host-pattern matcher and for "a login reads the current account table".
package main

import (
	"fmt"
	"go/ast"
	"sort"
	"strings"

	"github.com/dolthub/go-mysql-server/sql/mysql_db"
	"github.com/dolthub/go-mysql-server/verifharness/hx"
)

// leanChars renders an ASCII string over {a,b,%} as a Lean `List Char` literal.
func leanChars(s string) string {
	var cs []string
	for i := 0; i < len(s); i++ {
		cs = append(cs, "'"+string(s[i])+"'")
	}
	return "[" + strings.Join(cs, ", ") + "]"
}

func normText(s *hx.Src, n ast.Node) string { return strings.Join(strings.Fields(s.Text(n)), " ") }

// extractMore adds to the fact file:
//
//	hostPatternSkeleton   the statements of matchesHostPattern in order (the regular expression the model's
//	                      Spec `Matches` is the language of: QuoteMeta, "%" ↦ ".*", anchors, MatchString)
//	hostPatternTable      (pattern, host, result) of the compiled matcher on a complete small domain
//	authAccountLookups    every statement of sql/mysql_db/auth.go that resolves the connecting (user, host) to an
//	                      account, per function: all of them are direct `GetUser(rd, user, host, false)` calls on
//	                      the reader opened for this attempt — nothing is remembered between attempts
//	authStructFields      the fields of every struct type of auth.go (the auth server and its storage / validator
//	                      objects hold the database handle and the method list, no per-client state)
//	authPackageVars       package-level variables of auth.go (none may hold state)
//	readerGetUserConds    Reader.GetUser (the panic on two entries under one primary key)
//	createUserLocked      the value buildCreateUser stores in User.Locked (finding create_user_account_lock_ignored)
//	imtUpdateSkeleton     in_mem_table.Update: how the old entry is removed (finding dml_update_keeps_old_row_of_scoped_account)
//	userFromRowPrivs      what UserFromRow puts into PrivilegeSet (rebuilt from the row: global privileges only)
func extractMore(a hx.ExtractArgs, lf *hx.LeanFile) error {
	msrc, err := hx.ParseSrc(a.Repo, "sql/mysql_db/mysql_db.go")
	if err != nil {
		return err
	}
	fd, err := msrc.Func("", "matchesHostPattern")
	if err != nil {
		return err
	}
	var skel []string
	for _, st := range fd.Body.List {
		skel = append(skel, normText(msrc, st))
	}
	lf.DefStringList("hostPatternSkeleton", skel)
	// the freshly compiled matcher on a complete small domain: every pattern of length <= 3 over {a,b,%}
	// against every host of length <= 3 over {a,b} (600 entries; re-proved equal to the model by `decide`)
	var tbl []string
	for _, p := range allStrings("ab%", 3) {
		for _, h := range allStrings("ab", 3) {
			tbl = append(tbl, fmt.Sprintf("(%s, %s, %v)", leanChars(p), leanChars(h), mysql_db.VerifMatchesHostPattern(h, p)))
		}
	}
	// (character lists, not string literals: `decide` over 600 string literals takes half a minute)
	lf.Raw("def hostPatternTable : List (List Char × List Char × Bool) := [\n  " + strings.Join(tbl, ",\n  ") + "]\n")

	fd, err = msrc.Func("Reader", "GetUser")
	if err != nil {
		return err
	}
	var rc []string
	ast.Inspect(fd.Body, func(n ast.Node) bool {
		if is, ok := n.(*ast.IfStmt); ok {
			rc = append(rc, normText(msrc, is.Cond)+" "+normText(msrc, is.Body))
		}
		return true
	})
	lf.DefStringList("readerGetUserConds", rc)

	src, err := hx.ParseSrc(a.Repo, "sql/mysql_db/auth.go")
	if err != nil {
		return err
	}
	var lookups, fields, vars []string
	for _, d := range src.File.Decls {
		switch d := d.(type) {
		case *ast.FuncDecl:
			if d.Body == nil {
				continue
			}
			name := d.Name.Name
			if d.Recv != nil && len(d.Recv.List) == 1 {
				name = hx.RecvName(d.Recv.List[0].Type) + "." + name
			}
			// every statement that mentions an account lookup of any kind
			ast.Inspect(d.Body, func(n ast.Node) bool {
				switch s := n.(type) {
				case *ast.AssignStmt:
					t := normText(src, s)
					if strings.Contains(t, "GetUser") || strings.Contains(strings.ToLower(t), "lookup") || strings.Contains(strings.ToLower(t), "cache") {
						lookups = append(lookups, name+": "+t)
					}
					return false
				}
				return true
			})
		case *ast.GenDecl:
			for _, sp := range d.Specs {
				switch sp := sp.(type) {
				case *ast.TypeSpec:
					if st, ok := sp.Type.(*ast.StructType); ok {
						var fs []string
						for _, f := range st.Fields.List {
							var ns []string
							for _, n := range f.Names {
								ns = append(ns, n.Name)
							}
							fs = append(fs, strings.Join(ns, ",")+" "+normText(src, f.Type))
						}
						fields = append(fields, sp.Name.Name+"{"+strings.Join(fs, "; ")+"}")
					}
				case *ast.ValueSpec:
					if d.Tok.String() == "var" {
						for _, n := range sp.Names {
							if n.Name != "_" {
								vars = append(vars, n.Name)
							}
						}
					}
				}
			}
		}
	}
	sort.Strings(fields)
	lf.DefStringList("authAccountLookups", lookups)
	lf.DefStringList("authStructFields", fields)
	lf.DefStringList("authPackageVars", vars)

	// buildCreateUser: the Locked field of the stored User
	dsrc, err := hx.ParseSrc(a.Repo, "sql/rowexec/ddl.go")
	if err != nil {
		return err
	}
	fd, err = dsrc.Func("BaseBuilder", "buildCreateUser")
	if err != nil {
		return err
	}
	var locked []string
	ast.Inspect(fd.Body, func(n ast.Node) bool {
		if kv, ok := n.(*ast.KeyValueExpr); ok {
			if id, ok := kv.Key.(*ast.Ident); ok && id.Name == "Locked" {
				locked = append(locked, normText(dsrc, kv.Value))
			}
		}
		return true
	})
	if len(locked) == 0 {
		return fmt.Errorf("buildCreateUser: no Locked field in the stored User")
	}
	lf.DefStringList("createUserLocked", locked)

	// in_mem_table.Update
	isrc, err := hx.ParseSrc(a.Repo, "sql/in_mem_table/multimapeditors.go")
	if err != nil {
		return err
	}
	fd, err = isrc.Func("", "Update")
	if err != nil {
		return err
	}
	var upd []string
	ast.Inspect(fd.Body, func(n ast.Node) bool {
		switch s := n.(type) {
		case *ast.IfStmt:
			upd = append(upd, "if "+normText(isrc, s.Cond))
		case *ast.ExprStmt:
			upd = append(upd, normText(isrc, s))
		case *ast.AssignStmt:
			upd = append(upd, normText(isrc, s))
		case *ast.RangeStmt:
			upd = append(upd, "for range "+normText(isrc, s.X))
		}
		return true
	})
	lf.DefStringList("imtUpdateSkeleton", upd)

	usrc, err := hx.ParseSrc(a.Repo, "sql/mysql_db/user.go")
	if err != nil {
		return err
	}
	fd, err = usrc.Func("", "UserFromRow")
	if err != nil {
		return err
	}
	var privs []string
	ast.Inspect(fd.Body, func(n ast.Node) bool {
		if kv, ok := n.(*ast.KeyValueExpr); ok {
			if id, ok := kv.Key.(*ast.Ident); ok && id.Name == "PrivilegeSet" {
				privs = append(privs, normText(usrc, kv.Value))
			}
		}
		return true
	})
	lf.DefStringList("userFromRowPrivs", privs)
	return nil
}
