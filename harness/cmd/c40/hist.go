// C40 — histories: login decisions must reflect the CURRENT account table.
//
//	(hist (ACCT…) (EV…))   one engine per history; EV =
//	   (cu xN xH xPLUGIN xAUTH LOCK)   CREATE USER 'n'@'h' IDENTIFIED WITH mysql_native_password BY 'pw' [ACCOUNT LOCK]
//	   (cr xN)                          CREATE ROLE n
//	   (au xN xH xPLUGIN xAUTH)         ALTER USER 'n'@'h' IDENTIFIED WITH mysql_native_password BY 'pw'
//	   (du xN xH)                       DROP USER 'n'@'h'
//	   (gg xN xH) / (gd xN xH)          GRANT SELECT ON *.* / ON d.* TO 'n'@'h'
//	   (fl)                             FLUSH PRIVILEGES
//	   (ul xN xH B) (ua xN xH xAUTH) (up xN xH xPLUGIN)   UPDATE mysql.user SET account_locked / authentication_string / plugin
//	   (dd xN xH)                       DELETE FROM mysql.user WHERE User = n AND Host = h
//	   (in xN xH xPLUGIN xAUTH LOCK)    INSERT INTO mysql.user (Host, User, plugin, authentication_string, account_locked)
//	   (lg xUSER xHOST xPASSWORD)       a native-password login attempt of an honest client knowing that password
//
// Every path that edits accounts is used (account-management statements = the Editor path, and DML on the grant
// table = the in_mem_table editors), interleaved with logins that come again and again from the same few
// (user, client host) pairs: before a change, right after it, after an unrelated change. A login goes through
// the mysql.AuthServer interface of the engine's MySQLDb exactly as the listener does: negotiation
// (AuthMethods → HandleUser) and then HandleAuthPluginData with a properly scrambled response.
//
// Observation: the outcome of every login in order (accept:<user>@<host> | deny | nomethod | crash), then the
// account table as the engine reports it at the end (sorted), then — per login — what the OTHER entry points
// say about the same client at that moment: the caching_sha2 fast path with an empty response, HandleUser
// for caching_sha2_password, and MySQLDb.ValidateHash with the same salt and response (every entry point must
// read the current table, not only the native handshake). The Lean driver replays the history on its model
// of the table (Gms/Model/AuthHist.lean: stepI / loginI, Spec stepS / loginS).
//
// Model-free oracle: the harness keeps its own record of what every statement said (password, lock flag,
// existence) and checks each login against it.
//
// Known defects of the unchanged tree met by this stream (regions, see known_findings/C40.jsonl):
//   - create_user_account_lock_ignored: CREATE USER … ACCOUNT LOCK stores an unlocked account;
//   - dml_update_keeps_old_row_of_scoped_account: UPDATE mysql.user on an account that holds a database-level
//     grant leaves the old row in place next to the new one.
//
// Kept out of the envelope (defects that belong to other properties or cannot be predicted):
//   - DROP USER of an account that does not exist: buildDropUser resolves the name with GetUser (pattern
//     matching + loopback normalisation) and drops whatever that finds (C41);
//   - any statement other than DELETE on an account whose row has been duplicated by the defect above
//     (Reader.GetUser panics with "too many matching users"; a second UPDATE rewrites the duplicates in map
//     iteration order);
//   - UPDATE of the key columns User / Host of mysql.user; RENAME USER (not implemented), SET PASSWORD FOR and
//     ALTER USER … ACCOUNT LOCK (syntax errors at the pin);
//   - accounts of one name whose host patterns overlap (the order finding match_order_by_insertion is the
//     business of the login streams; here every client host matches at most one account of a name).
package main

import (
	"fmt"
	"io"
	"net"
	"sort"
	"strings"
	"time"

	"github.com/dolthub/go-mysql-server/sql/mysql_db"
	"github.com/dolthub/go-mysql-server/verifharness/hx"
	"github.com/dolthub/go-mysql-server/verifharness/hx/eng"
	"github.com/dolthub/vitess/go/mysql"
)

type fakeConn struct{ remote net.Addr }

func (c fakeConn) Read([]byte) (int, error)         { return 0, io.EOF }
func (c fakeConn) Write(b []byte) (int, error)      { return len(b), nil }
func (c fakeConn) Close() error                     { return nil }
func (c fakeConn) LocalAddr() net.Addr              { return addr{"tcp", "127.0.0.1:3306"} }
func (c fakeConn) RemoteAddr() net.Addr             { return c.remote }
func (c fakeConn) SetDeadline(time.Time) error      { return nil }
func (c fakeConn) SetReadDeadline(time.Time) error  { return nil }
func (c fakeConn) SetWriteDeadline(time.Time) error { return nil }

// apiLogin: what the listener does for a client that asks for mysql_native_password.
func apiLogin(as mysql.AuthServer, user, host string, salt, resp []byte) string {
	var obs string
	p := hx.Safe(func() {
		ra := tcpAddr(host)
		conn := &mysql.Conn{Conn: fakeConn{remote: ra}}
		var method mysql.AuthMethod
		for _, m := range as.AuthMethods() {
			if m.Name() == mysql.MysqlNativePassword && m.HandleUser(conn, user) {
				method = m
				break
			}
		}
		if method == nil {
			obs = "nomethod"
			return
		}
		g, err := method.HandleAuthPluginData(conn, user, append(append([]byte{}, salt...), 0), resp, ra)
		obs = getterObs(g, err, "")
	})
	if p != "" {
		return "crash"
	}
	return obs
}

// otherEntryPoints: the same client seen by the caching_sha2 fast path, by the caching_sha2 validator and by
// MySQLDb.ValidateHash.
func otherEntryPoints(db *mysql_db.MySQLDb, user, host string, salt, resp []byte) string {
	fast, _ := sha2FastObs(db, user, nil, host)
	var ok bool
	m := "crash"
	if p := hx.Safe(func() { ok = mysql_db.VerifHandleUser(db, "caching_sha2_password", user, tcpAddr(host)) }); p == "" {
		m = b01(ok)
	}
	var g mysql.Getter
	var err error
	p := hx.Safe(func() { g, err = db.ValidateHash(salt, user, resp, tcpAddr(host)) })
	return fast + "," + m + "," + getterObs(g, err, p)
}

type hAcct struct {
	name, host, plugin, pw string
	auth                   string
	locked                 bool     // what the statements said
	storedLocked           bool     // what the code stores (CREATE USER … ACCOUNT LOCK stores N)
	sub                    bool     // holds a database-level grant
	dup                    bool     // the row has been duplicated (region dml_update_keeps_old_row_of_scoped_account)
	oldPws                 []string // passwords this account had before
}

// lockIgnored: region create_user_account_lock_ignored.
func (a *hAcct) lockIgnored() bool { return a.locked != a.storedLocked }

type histGen struct {
	r     *hx.Rand
	accts map[string]*hAcct // key name\x00host: what the statements said
	gone  map[string][]string
}

func hkey(n, h string) string { return n + "\x00" + h }

var histHosts = map[string][]string{
	"u1": {"10.1.%", "%.corp", "localhost"},
	"u2": {"%"},
	"":   {"hx1"},
}
var histNames = []string{"u1", "u1", "u1", "u2", ""}
var histClients = []string{"10.1.2.3", "a.corp", "localhost", "127.0.0.1", "hx1", "172.16.0.9"}
var histPws = []string{"pw", "secret", "pw2", ""}

func sqlStr(s string) string { return "'" + strings.ReplaceAll(s, "'", "''") + "'" }

func (g *histGen) pickKey(existing bool) (string, string, bool) {
	if existing && len(g.accts) > 0 {
		var ks []string
		for k := range g.accts {
			ks = append(ks, k)
		}
		sort.Strings(ks)
		a := g.accts[hx.Pick(g.r, ks)]
		return a.name, a.host, true
	}
	n := hx.Pick(g.r, histNames)
	h := hx.Pick(g.r, histHosts[n])
	_, ok := g.accts[hkey(n, h)]
	return n, h, ok
}

// matching: the account a login (user, host) is checked against according to the statements so far.
func (g *histGen) matching(user, host string) []*hAcct {
	var as []acct
	idx := map[string]*hAcct{}
	var ks []string
	for k := range g.accts {
		ks = append(ks, k)
	}
	sort.Strings(ks)
	for _, k := range ks {
		a := g.accts[k]
		as = append(as, acct{Name: a.name, Host: a.host})
		idx[hkey(a.name, a.host)] = a
	}
	var out []*hAcct
	for _, c := range candidates(as, user, host) {
		out = append(out, idx[hkey(c.Name, c.Host)])
	}
	return out
}

// create records a CREATE USER statement (no effect on the record when the account exists).
func (g *histGen) create(n, h, pw string, lock bool) histStep {
	if _, exists := g.accts[hkey(n, h)]; !exists {
		g.accts[hkey(n, h)] = &hAcct{name: n, host: h, plugin: "mysql_native_password", pw: pw, auth: nativeHash(pw), locked: lock, storedLocked: false}
	}
	return stCreateUser(n, h, pw, lock)
}

// next appends one statement (and returns its SQL) chosen according to the current record.
func (g *histGen) stmt() (ev string, q string) {
	r := g.r
	for {
		switch x := r.Intn(40); {
		case x < 7: // CREATE USER
			n, h, exists := g.pickKey(r.Chance(1, 6))
			if exists && g.accts[hkey(n, h)].dup {
				continue
			}
			st := g.create(n, h, hx.Pick(r, histPws), r.Chance(1, 7))
			return st.ev, st.sql
		case x < 8: // CREATE ROLE
			n := hx.Pick(r, []string{"r1", "r2"})
			if a, ok := g.accts[hkey(n, "%")]; ok && a.dup {
				continue
			}
			if _, ok := g.accts[hkey(n, "%")]; !ok {
				g.accts[hkey(n, "%")] = &hAcct{name: n, host: "%", plugin: "mysql_native_password", locked: true, storedLocked: true}
			}
			return hx.List("cr", hx.HexS(n)), "CREATE ROLE " + n
		case x < 13: // ALTER USER … IDENTIFIED
			n, h, exists := g.pickKey(!r.Chance(1, 8))
			if exists && g.accts[hkey(n, h)].dup {
				continue
			}
			pw := hx.Pick(r, []string{"pw", "secret", "pw2", "new"})
			if exists {
				a := g.accts[hkey(n, h)]
				a.oldPws = append(a.oldPws, a.pw)
				a.pw, a.auth, a.plugin = pw, nativeHash(pw), "mysql_native_password"
			}
			return hx.List("au", hx.HexS(n), hx.HexS(h), hx.HexS("mysql_native_password"), hx.HexS(nativeHash(pw))),
				fmt.Sprintf("ALTER USER %s@%s IDENTIFIED WITH mysql_native_password BY %s", sqlStr(n), sqlStr(h), sqlStr(pw))
		case x < 16: // DROP USER (existing accounts only, see the header)
			n, h, exists := g.pickKey(true)
			if !exists || g.accts[hkey(n, h)].dup || n == "root" {
				continue
			}
			delete(g.accts, hkey(n, h))
			return hx.List("du", hx.HexS(n), hx.HexS(h)), fmt.Sprintf("DROP USER %s@%s", sqlStr(n), sqlStr(h))
		case x < 18: // GRANT (global)
			n, h, exists := g.pickKey(true)
			if !exists || g.accts[hkey(n, h)].dup {
				continue
			}
			return hx.List("gg", hx.HexS(n), hx.HexS(h)), fmt.Sprintf("GRANT SELECT ON *.* TO %s@%s", sqlStr(n), sqlStr(h))
		case x < 20: // GRANT (database level)
			n, h, exists := g.pickKey(true)
			if !exists || g.accts[hkey(n, h)].dup || n == "root" { // (a duplicated root row makes every later statement panic)
				continue
			}
			g.accts[hkey(n, h)].sub = true
			return hx.List("gd", hx.HexS(n), hx.HexS(h)), fmt.Sprintf("GRANT SELECT ON d.* TO %s@%s", sqlStr(n), sqlStr(h))
		case x < 21:
			return hx.List("fl"), "FLUSH PRIVILEGES"
		case x < 33: // UPDATE mysql.user
			n, h, exists := g.pickKey(!r.Chance(1, 10))
			if exists && g.accts[hkey(n, h)].dup {
				continue
			}
			where := fmt.Sprintf(" WHERE User = %s AND Host = %s", sqlStr(n), sqlStr(h))
			var a *hAcct
			if exists {
				a = g.accts[hkey(n, h)]
			}
			changed := false
			switch r.Intn(5) {
			case 0, 1:
				b := r.Chance(2, 3)
				if a != nil {
					changed = a.storedLocked != b // unchanged rows are not written
					a.locked, a.storedLocked = b, b
				}
				ev, q = hx.List("ul", hx.HexS(n), hx.HexS(h), b01(b)), "UPDATE mysql.user SET account_locked = '"+map[bool]string{true: "Y", false: "N"}[b]+"'"+where
			case 2, 3:
				pw := hx.Pick(r, []string{"pw", "secret", "pw2", "dml"})
				if a != nil {
					changed = a.auth != nativeHash(pw)
					if changed {
						a.oldPws = append(a.oldPws, a.pw)
					}
					a.pw, a.auth = pw, nativeHash(pw)
				}
				ev, q = hx.List("ua", hx.HexS(n), hx.HexS(h), hx.HexS(nativeHash(pw))), "UPDATE mysql.user SET authentication_string = "+sqlStr(nativeHash(pw))+where
			default:
				pl := hx.Pick(r, []string{"caching_sha2_password", "mysql_native_password", "mysql_native_password"})
				if a != nil {
					changed = a.plugin != pl
					a.plugin = pl
				}
				ev, q = hx.List("up", hx.HexS(n), hx.HexS(h), hx.HexS(pl)), "UPDATE mysql.user SET plugin = "+sqlStr(pl)+where
			}
			if a != nil && changed {
				if a.sub {
					a.dup = true
				}
				a.sub = false // the rewritten row carries global privileges only
			}
			return ev, q
		case x < 36: // DELETE FROM mysql.user
			n, h, exists := g.pickKey(!r.Chance(1, 10))
			if n == "root" {
				continue
			}
			if exists {
				delete(g.accts, hkey(n, h))
			}
			return hx.List("dd", hx.HexS(n), hx.HexS(h)), fmt.Sprintf("DELETE FROM mysql.user WHERE User = %s AND Host = %s", sqlStr(n), sqlStr(h))
		default: // INSERT INTO mysql.user
			n, h, exists := g.pickKey(r.Chance(1, 8))
			if exists && g.accts[hkey(n, h)].dup {
				continue
			}
			pw := hx.Pick(r, histPws)
			lock := r.Chance(1, 5)
			if !exists {
				g.accts[hkey(n, h)] = &hAcct{name: n, host: h, plugin: "mysql_native_password", pw: pw, auth: nativeHash(pw), locked: lock, storedLocked: lock}
			}
			return hx.List("in", hx.HexS(n), hx.HexS(h), hx.HexS("mysql_native_password"), hx.HexS(nativeHash(pw)), b01(lock)),
				fmt.Sprintf("INSERT INTO mysql.user (Host, User, plugin, authentication_string, account_locked) VALUES (%s, %s, 'mysql_native_password', %s, '%s')",
					sqlStr(h), sqlStr(n), sqlStr(nativeHash(pw)), map[bool]string{true: "Y", false: "N"}[lock])
		}
	}
}

type histLogin struct {
	user, host, pw string
}

// loginFor picks the password of a login attempt from (user, host): mostly the current or a former password
// of the account the statements say it resolves to.
func (g *histGen) loginFor(user, host string) histLogin {
	ms := g.matching(user, host)
	pw := hx.Pick(g.r, []string{"pw", "secret", "nope", ""})
	if len(ms) > 0 {
		a := ms[0]
		switch x := g.r.Intn(10); {
		case x < 6:
			pw = a.pw
		case x < 8 && len(a.oldPws) > 0:
			pw = hx.Pick(g.r, a.oldPws)
		}
	} else if olds := g.gone[user]; len(olds) > 0 && g.r.Chance(2, 3) {
		pw = hx.Pick(g.r, olds)
	}
	return histLogin{user, host, pw}
}

func tableObs(db *mysql_db.MySQLDb) string {
	rd := db.Reader()
	defer rd.Close()
	var rows []string
	rd.VisitUsers(func(u *mysql_db.User) {
		rows = append(rows, hx.HexS(u.User)+"@"+hx.HexS(u.Host)+":"+hx.HexS(u.Plugin)+":"+hx.HexS(u.AuthString)+":"+b01(u.Locked))
	})
	sort.Strings(rows)
	return strings.Join(rows, ",")
}

type histStep struct {
	ev, sql string
	login   *histLogin
}

// statement constructors: the protocol event and its SQL text
func yn(b bool) string {
	if b {
		return "Y"
	}
	return "N"
}
func stCreateUser(n, h, pw string, lock bool) histStep {
	q := fmt.Sprintf("CREATE USER %s@%s", sqlStr(n), sqlStr(h))
	if pw != "" {
		q += " IDENTIFIED WITH mysql_native_password BY " + sqlStr(pw)
	}
	if lock {
		q += " ACCOUNT LOCK"
	}
	return histStep{ev: hx.List("cu", hx.HexS(n), hx.HexS(h), hx.HexS("mysql_native_password"), hx.HexS(nativeHash(pw)), b01(lock)), sql: q}
}
func stCreateRole(n string) histStep {
	return histStep{ev: hx.List("cr", hx.HexS(n)), sql: "CREATE ROLE " + n}
}
func stAlterUser(n, h, pw string) histStep {
	return histStep{ev: hx.List("au", hx.HexS(n), hx.HexS(h), hx.HexS("mysql_native_password"), hx.HexS(nativeHash(pw))),
		sql: fmt.Sprintf("ALTER USER %s@%s IDENTIFIED WITH mysql_native_password BY %s", sqlStr(n), sqlStr(h), sqlStr(pw))}
}
func stDropUser(n, h string) histStep {
	return histStep{ev: hx.List("du", hx.HexS(n), hx.HexS(h)), sql: fmt.Sprintf("DROP USER %s@%s", sqlStr(n), sqlStr(h))}
}
func stGrantGlobal(n, h string) histStep {
	return histStep{ev: hx.List("gg", hx.HexS(n), hx.HexS(h)), sql: fmt.Sprintf("GRANT SELECT ON *.* TO %s@%s", sqlStr(n), sqlStr(h))}
}
func stGrantDb(n, h string) histStep {
	return histStep{ev: hx.List("gd", hx.HexS(n), hx.HexS(h)), sql: fmt.Sprintf("GRANT SELECT ON d.* TO %s@%s", sqlStr(n), sqlStr(h))}
}
func stFlush() histStep { return histStep{ev: hx.List("fl"), sql: "FLUSH PRIVILEGES"} }
func whereKey(n, h string) string {
	return fmt.Sprintf(" WHERE User = %s AND Host = %s", sqlStr(n), sqlStr(h))
}
func stDmlLock(n, h string, b bool) histStep {
	return histStep{ev: hx.List("ul", hx.HexS(n), hx.HexS(h), b01(b)), sql: "UPDATE mysql.user SET account_locked = '" + yn(b) + "'" + whereKey(n, h)}
}
func stDmlAuth(n, h, pw string) histStep {
	return histStep{ev: hx.List("ua", hx.HexS(n), hx.HexS(h), hx.HexS(nativeHash(pw))), sql: "UPDATE mysql.user SET authentication_string = " + sqlStr(nativeHash(pw)) + whereKey(n, h)}
}
func stDmlPlugin(n, h, pl string) histStep {
	return histStep{ev: hx.List("up", hx.HexS(n), hx.HexS(h), hx.HexS(pl)), sql: "UPDATE mysql.user SET plugin = " + sqlStr(pl) + whereKey(n, h)}
}
func stDmlDelete(n, h string) histStep {
	return histStep{ev: hx.List("dd", hx.HexS(n), hx.HexS(h)), sql: "DELETE FROM mysql.user" + whereKey(n, h)}
}
func stDmlInsert(n, h, pw string, lock bool) histStep {
	return histStep{ev: hx.List("in", hx.HexS(n), hx.HexS(h), hx.HexS("mysql_native_password"), hx.HexS(nativeHash(pw)), b01(lock)),
		sql: fmt.Sprintf("INSERT INTO mysql.user (Host, User, plugin, authentication_string, account_locked) VALUES (%s, %s, 'mysql_native_password', %s, '%s')",
			sqlStr(h), sqlStr(n), sqlStr(nativeHash(pw)), yn(lock))}
}
func stLogin(u, h, pw string) histStep {
	return histStep{ev: hx.List("lg", hx.HexS(u), hx.HexS(h), hx.HexS(pw)), login: &histLogin{u, h, pw}}
}

// histCorpus: fixed histories — ordinary account management between logins, the same changes made with DML on
// mysql.user right after successful logins of the same client (lock, password, plugin, delete, re-insert), and
// the witnesses of the two listed findings.
func histCorpus(out *hx.Out) {
	hs := [][]histStep{
		{ // account-management statements between logins
			stCreateUser("bob", "%", "oldpass", false), stCreateUser("carol", "10.%", "carolpass", false), stCreateUser("dave", "%", "davepass", false),
			stLogin("bob", "192.168.1.20", "oldpass"), stLogin("bob", "192.168.1.20", "nope"), stLogin("carol", "10.1.2.3", "carolpass"),
			stLogin("carol", "11.1.2.3", "carolpass"), stLogin("dave", "172.16.0.9", "davepass"), stLogin("erin", "172.16.0.9", "davepass"),
			stAlterUser("bob", "%", "midpass"), stLogin("bob", "192.168.1.20", "oldpass"), stLogin("bob", "192.168.1.20", "midpass"),
			stDropUser("dave", "%"), stLogin("dave", "172.16.0.9", "davepass"),
			stCreateUser("dave", "%", "davepass2", false), stLogin("dave", "172.16.0.9", "davepass"), stLogin("dave", "172.16.0.9", "davepass2"),
			stGrantGlobal("carol", "10.%"), stLogin("carol", "10.1.2.3", "carolpass"), stFlush(), stLogin("bob", "192.168.1.20", "midpass"),
		},
		{ // DML on the grant table right after a successful login of the same client
			stCreateUser("carol", "10.%", "carolpass", false), stLogin("carol", "10.1.2.3", "carolpass"),
			stDmlLock("carol", "10.%", true), stLogin("carol", "10.1.2.3", "carolpass"),
			stDmlLock("carol", "10.%", false), stLogin("carol", "10.1.2.3", "carolpass"),
		},
		{
			stCreateUser("bob", "%", "midpass", false), stLogin("bob", "192.168.1.20", "midpass"),
			stDmlAuth("bob", "%", "newpass"), stLogin("bob", "192.168.1.20", "midpass"), stLogin("bob", "192.168.1.20", "newpass"),
			stDmlPlugin("bob", "%", "caching_sha2_password"), stLogin("bob", "192.168.1.20", "newpass"),
			stDmlPlugin("bob", "%", "mysql_native_password"), stLogin("bob", "192.168.1.20", "newpass"),
		},
		{
			stCreateUser("dave", "%", "davepass2", false), stLogin("dave", "172.16.0.9", "davepass2"),
			stDmlDelete("dave", "%"), stLogin("dave", "172.16.0.9", "davepass2"),
			stDmlInsert("dave", "%", "third", false), stLogin("dave", "172.16.0.9", "davepass2"), stLogin("dave", "172.16.0.9", "third"),
		},
		{ // a failed attempt is enough to have resolved the account; localhost spelled as an address
			stCreateUser("u1", "localhost", "pw", false), stLogin("u1", "127.0.0.1", "nope"), stDmlLock("u1", "localhost", true),
			stLogin("u1", "127.0.0.1", "pw"), stLogin("u1", "localhost", "pw"), stDmlDelete("u1", "localhost"), stLogin("u1", "localhost", "pw"),
		},
		{ // a role is a locked account without a password; unlocking it by DML makes it a login
			stCreateRole("r1"), stLogin("r1", "10.1.2.3", ""), stDmlLock("r1", "%", false), stLogin("r1", "10.1.2.3", ""),
			stDmlLock("r1", "%", true), stLogin("r1", "10.1.2.3", ""),
		},
		{ // finding create_user_account_lock_ignored
			stCreateUser("u1", "%.corp", "", true), stLogin("u1", "a.corp", ""), stDmlLock("u1", "%.corp", true), stLogin("u1", "a.corp", ""),
		},
		{ // finding dml_update_keeps_old_row_of_scoped_account: through the pattern …
			stCreateUser("a", "%.corp", "pw2", false), stGrantDb("a", "%.corp"), stLogin("a", "x.corp", "pw2"),
			stDmlAuth("a", "%.corp", "pw"), stLogin("a", "x.corp", "pw2"), stLogin("a", "x.corp", "pw"),
		},
		{ // … and through the key itself
			stCreateUser("a", "localhost", "pw2", false), stGrantDb("a", "localhost"), stDmlLock("a", "localhost", true), stLogin("a", "localhost", "pw2"),
		},
	}
	for _, h := range hs {
		runHistory(out, h, nil)
		out.Stat("hist:corpus")
	}
}

// runHistory executes the steps on a fresh engine and reports the case.
func runHistory(out *hx.Out, steps []histStep, expect func(i int, obs string) (string, string)) {
	e := eng.New("d")
	db := e.E.Analyzer.Catalog.MySQLDb
	db.SetPersister(&mysql_db.NoopPersister{})
	db.AddRootAccount()
	initial := searchOrder(db, -1)
	ctx := e.Ctx()
	salt := []byte{7, 7, 7, 7, 7, 7, 7, 7, 7, 7, 7, 7, 7, 7, 7, 7, 7, 7, 7, 7}
	var evs, obs, others []string
	type fail struct{ tag, desc string }
	var fails []fail
	nLogins, nAfterChange := 0, 0
	changed := false
	for i, st := range steps {
		evs = append(evs, st.ev)
		if st.login == nil {
			res := e.Query(eng.SameSession(ctx), st.sql)
			if c := res.Class(); c == "crash" || c == "timeout" {
				panic(fmt.Sprintf("harness: history statement %q: %s %s (the generator left its envelope)", st.sql, c, res.Panic))
			}
			out.Stat("hist:stmt:" + strings.SplitN(st.ev, " ", 2)[0][1:])
			changed = true
			continue
		}
		l := st.login
		var resp []byte
		if l.pw != "" {
			resp = mysql.ScrambleMysqlNativePassword(salt, []byte(l.pw))
		}
		o := apiLogin(db, l.user, l.host, salt, resp)
		obs = append(obs, o)
		others = append(others, otherEntryPoints(db, l.user, l.host, salt, resp))
		nLogins++
		if changed {
			nAfterChange++
		}
		out.Stat("hist:login:" + strings.SplitN(o, ":", 2)[0])
		if expect != nil {
			if tag, desc := expect(i, o); desc != "" {
				fails = append(fails, fail{tag, desc})
			}
		}
	}
	payload := hx.List("hist", acctsPayload(initial), "("+strings.Join(evs, " ")+")")
	id := out.Case(payload, strings.Join(obs, ";")+"|"+tableObs(db)+"|"+strings.Join(others, ";"), nLogins >= 2 && nAfterChange >= 1)
	out.Stat("hist")
	for _, f := range fails {
		out.OracleFail(id, f.tag, f.desc)
	}
}

func historyStream(out *hx.Out, a hx.RunArgs) {
	r := hx.NewRand(a.Seed*1000003 + 4003).Fork()
	n := 400
	if a.Thorough {
		n = 8000
	}
	histCorpus(out)
	for i := 0; i < n; i++ {
		g := &histGen{r: r.Fork(), accts: map[string]*hAcct{}, gone: map[string][]string{}}
		g.accts[hkey("root", "localhost")] = &hAcct{name: "root", host: "localhost", plugin: "mysql_native_password"}
		// the clients that keep coming back
		type pair struct{ user, host string }
		var focus []pair
		for k, nf := 0, 1+g.r.Intn(2); k < nf; k++ {
			focus = append(focus, pair{hx.Pick(g.r, []string{"u1", "u1", "u1", "u2", "u2", "u3", "root"}), hx.Pick(g.r, histClients)})
		}
		var steps []histStep
		type exp struct {
			tag, want string
			strict    bool
		}
		expects := map[int]exp{}
		addLogin := func() {
			p := hx.Pick(g.r, focus)
			if g.r.Chance(1, 6) {
				p = pair{hx.Pick(g.r, []string{"u1", "u2", "u3", "", "r1"}), hx.Pick(g.r, histClients)}
			}
			l := g.loginFor(p.user, p.host)
			// the harness's own expectation
			ms := g.matching(l.user, l.host)
			e := exp{tag: "-", strict: true}
			switch {
			case len(ms) == 0:
				e.want = "deny"
			case len(ms) > 1:
				e.strict = false
			default:
				m := ms[0]
				if m.dup {
					e.tag = "dml_update_keeps_old_row_of_scoped_account"
				} else if m.lockIgnored() {
					e.tag = "create_user_account_lock_ignored"
				}
				switch {
				case m.plugin != "mysql_native_password":
					e.want = "nomethod"
				case m.locked || m.pw != l.pw:
					e.want = "deny"
				default:
					e.want = "accept:" + hx.HexS(m.name) + "@" + hx.HexS(m.host)
				}
			}
			expects[len(steps)] = e
			ll := l
			steps = append(steps, histStep{ev: hx.List("lg", hx.HexS(l.user), hx.HexS(l.host), hx.HexS(l.pw)), login: &ll})
		}
		nst := 3 + g.r.Intn(7)
		// usually start with the accounts the returning clients resolve to, and with a first visit
		for _, f := range focus {
			for _, h := range histHosts[f.user] {
				if hostMatches(map[bool]string{true: "localhost", false: f.host}[f.host == "127.0.0.1"], f.host, h) && g.r.Chance(5, 6) {
					steps = append(steps, g.create(f.user, h, hx.Pick(g.r, []string{"pw", "secret", "pw2", "pw", ""}), g.r.Chance(1, 12)))
				}
			}
		}
		if len(steps) > 0 {
			addLogin()
		}
		for k := 0; k < nst; k++ {
			before := map[string]*hAcct{}
			for k2, a := range g.accts {
				before[k2] = a
			}
			ev, q := g.stmt()
			for k2, a := range before {
				if _, ok := g.accts[k2]; !ok {
					g.gone[a.name] = append(g.gone[a.name], a.pw) // passwords of accounts that no longer exist
				}
			}
			steps = append(steps, histStep{ev: ev, sql: q})
			for j, nl := 0, g.r.Intn(3); j < nl; j++ {
				addLogin()
			}
		}
		addLogin()
		runHistory(out, steps, func(i int, obs string) (string, string) {
			e, ok := expects[i]
			if !ok || !e.strict || e.want == obs {
				return "", ""
			}
			l := steps[i].login
			var sb strings.Builder
			for _, s := range steps[:i] {
				if s.login == nil {
					sb.WriteString(s.sql + "; ")
				}
			}
			return e.tag, fmt.Sprintf("login %q from %s with password %q gives %s, the statements so far say %s: %s", l.user, l.host, l.pw, obs, e.want, sb.String())
		})
	}
}
