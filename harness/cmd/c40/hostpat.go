// C40 — host patterns: the matcher itself (`hp` cases) and logins against pattern-rich account lists.
//
//	(hp xHOST xPATTERN)     matchesHostPattern(host, pattern): 1 | 0 | crash
//
// The matcher is compared with the Lean model (Gms/Model/HostPattern.lean: Spec = the language of the regular
// expression the code builds, `%` = a newline-free gap, every other character literal) and, model-free, with
// a dynamic-programming matcher written here (refMatch). Streams:
//
//   - exhaustive small alphabets: every pattern of length ≤ 5 over {a,b,%} against every host of length ≤ 5
//     over {a,b} (literals on both sides of wildcards, hosts short enough for the literals to overlap), and
//     every pattern of length ≤ 4 over {1,.,%,_} against every host of length ≤ 3 over {1,.,_,x} (`.` and `_`
//     are literals: `.` must be quoted in the regular expression);
//   - structured: IP / host-name shaped patterns with literal text before, between and after wildcards;
//     hosts are instantiations of the pattern (gaps: empty, one character, a copy of the next segment, …),
//     OVERLAP MERGES of its segments (consecutive segments glued so that they share characters — the
//     smallest strings in which every segment still occurs in order), and single-character mutations of both;
//   - regular-expression metacharacters in patterns and hosts.
//
// Hosts never contain a newline (a client address or a resolved name cannot): `.` of Go's regexp does not
// match '\n', the model has that rule (gapOk), the streams do not go there.
//
// The login stream `plogin` runs the same generator through the whole login decision (loginCase): accounts of
// one name with such host patterns, clients connecting from instantiations / overlap merges.
package main

import (
	"fmt"
	"strings"

	"github.com/dolthub/go-mysql-server/sql/mysql_db"
	"github.com/dolthub/go-mysql-server/verifharness/hx"
	"github.com/dolthub/vitess/go/mysql"
)

// refMatch: dynamic programming over (pattern position, host position); `%` absorbs any run of
// characters other than '\n'. Independent of the recursive globMatch in main.go.
func refMatch(host, pat string) bool {
	if !strings.Contains(pat, "%") {
		return false
	}
	n, m := len(pat), len(host)
	cur := make([]bool, m+1) // cur[j]: pat[:i] matches host[:j]
	cur[0] = true
	for i := 1; i <= n; i++ {
		next := make([]bool, m+1)
		if pat[i-1] == '%' {
			for j := 0; j <= m; j++ {
				if cur[j] {
					next[j] = true
				} else if j > 0 && next[j-1] && host[j-1] != '\n' {
					next[j] = true
				}
			}
		} else {
			for j := 1; j <= m; j++ {
				next[j] = cur[j-1] && host[j-1] == pat[i-1]
			}
		}
		cur = next
	}
	return cur[m]
}

func hpCase(out *hx.Out, host, pat, kind string) {
	var ok bool
	p := hx.Safe(func() { ok = mysql_db.VerifMatchesHostPattern(host, pat) })
	obs := b01(ok)
	if p != "" {
		obs = "crash"
	}
	segs := strings.Split(pat, "%")
	nonEmpty := 0
	for _, s := range segs {
		if s != "" {
			nonEmpty++
		}
	}
	id := out.Case(hx.List("hp", hx.HexS(host), hx.HexS(pat)), obs, len(segs) > 1 && nonEmpty >= 2)
	out.Stat("hp")
	out.Stat("hp:" + kind)
	out.Stat("hp:result:" + obs)
	if p != "" {
		out.OracleFail(id, "-", "matchesHostPattern panics: "+p)
		return
	}
	if want := refMatch(host, pat); want != ok {
		lit := len(pat) - strings.Count(pat, "%")
		out.OracleFail(id, "-", fmt.Sprintf("matchesHostPattern(%q, %q) = %v, the pattern's language says %v (literal characters: %d, host length: %d)", host, pat, ok, want, lit, len(host)))
	}
}

func allStrings(alpha string, maxLen int) []string {
	out := []string{""}
	prev := []string{""}
	for l := 1; l <= maxLen; l++ {
		var cur []string
		for _, p := range prev {
			for i := 0; i < len(alpha); i++ {
				cur = append(cur, p+string(alpha[i]))
			}
		}
		out = append(out, cur...)
		prev = cur
	}
	return out
}

// overlapMerges: the segments of a pattern glued together with every possible overlap between consecutive
// pieces (including none), i.e. hosts in which all literals occur in order but are not disjoint.
func overlapMerges(segs []string, limit int) []string {
	acc := []string{segs[0]}
	for _, s := range segs[1:] {
		var next []string
		for _, a := range acc {
			for k := 0; k <= len(s) && k <= len(a); k++ {
				if strings.HasSuffix(a, s[:k]) {
					next = append(next, a+s[k:])
				}
			}
			if len(next) > limit {
				break
			}
		}
		acc = next
	}
	return acc
}

var hpOctets = []string{"1", "10", "0", "5", "10.1", "1.0.5", ".10", "10.", ".0.1", "0.1", "127.0", "192.168", ".7", "9"}
var hpNames = []string{"db", "a", "corp", ".corp", "example.com", ".example", "x1", "gw", "-", "h"}

// genPattern: literal text before, between and after 1-3 wildcards; segments repeat on purpose (a segment
// that is a prefix/suffix/copy of its neighbour is what makes overlaps possible).
func genPattern(r *hx.Rand) string {
	pool := hpOctets
	if r.Chance(1, 3) {
		pool = hpNames
	}
	nw := 1 + r.Intn(3)
	seg := func() string {
		switch r.Intn(6) {
		case 0:
			return ""
		case 1:
			return hx.Pick(r, pool) + "." + hx.Pick(r, pool)
		}
		return hx.Pick(r, pool)
	}
	var parts []string
	last := ""
	for i := 0; i <= nw; i++ {
		s := seg()
		if last != "" && r.Chance(1, 3) { // related to the previous segment
			switch r.Intn(3) {
			case 0:
				s = last
			case 1:
				s = last[len(last)/2:] + s
			default:
				s = last[len(last)-1:] + s
			}
		}
		if s != "" {
			last = s
		}
		parts = append(parts, s)
	}
	return strings.Join(parts, "%")
}

func genHosts(r *hx.Rand, pat string) []string {
	segs := strings.Split(pat, "%")
	var hosts []string
	// instantiations
	for k := 0; k < 3; k++ {
		var b strings.Builder
		for i, s := range segs {
			b.WriteString(s)
			if i+1 < len(segs) {
				switch r.Intn(7) {
				case 0, 1:
				case 2:
					b.WriteString(hx.Pick(r, []string{"1", "0", ".", "a"}))
				case 3:
					b.WriteString(segs[i+1])
				case 4:
					b.WriteString(hx.Pick(r, hpOctets))
				case 5:
					if n := len(segs[i+1]); n > 0 {
						b.WriteString(segs[i+1][:1+r.Intn(n)])
					}
				default:
					b.WriteString(hx.Pick(r, hpNames))
				}
			}
		}
		hosts = append(hosts, b.String())
	}
	// overlap merges
	ms := overlapMerges(segs, 40)
	for k := 0; k < 4 && len(ms) > 0; k++ {
		hosts = append(hosts, hx.Pick(r, ms))
	}
	if len(ms) > 0 {
		// the shortest one: maximal overlaps
		sh := ms[0]
		for _, m := range ms {
			if len(m) < len(sh) {
				sh = m
			}
		}
		hosts = append(hosts, sh)
	}
	// mutations
	base := hx.Pick(r, hosts)
	if len(base) > 0 {
		i := r.Intn(len(base))
		hosts = append(hosts, base[:i]+base[i+1:])                                        // one character less
		hosts = append(hosts, base[:i]+hx.Pick(r, []string{"1", ".", "x", "%"})+base[i:]) // one more
		hosts = append(hosts, base[:i]+hx.Pick(r, []string{"2", "x", "."})+base[i+1:])    // one changed
	}
	hosts = append(hosts, strings.ReplaceAll(pat, "%", ""), pat)
	return hosts
}

const hpMeta = `a.%_*+?()[]{}|^$\-1 `

func hostPatternStream(out *hx.Out, a hx.RunArgs) {
	r := hx.NewRand(a.Seed*1000003 + 4001).Fork()
	// corpus: the documented behaviour and the overlap shapes
	for _, c := range [][2]string{
		{"10.0.0.5", "10.0.%"}, {"10.1.0.5", "10.0.%"}, {"a.corp", "%.corp"}, {"corp", "%.corp"}, {".corp", "%.corp"},
		{"anything", "%"}, {"", "%"}, {"localhost", "localhost"}, {"10.0.0.5", "10.0.0.5"},
		{"1.2.10.10", "%.10.%.10"}, {"1.2.10.9.10", "%.10.%.10"}, {"10.1.0.5", "10.1%1.0.5"}, {"10.11.0.5", "10.1%1.0.5"},
		{"10.0.0.1", "10.0.%.0.1"}, {"10.0.9.0.1", "10.0.%.0.1"}, {"ab", "a%ab"}, {"aab", "a%ab"}, {"aba", "ab%ba"}, {"abba", "ab%ba"},
		{"10x0y0z5", "10.0.%"}, {"10.0.0.5", "10.0.0._"}, {"10.0.0._", "10.0.0._%"}, {"ab", "a%%b"}, {"a", "a%"}, {"a", "%a"},
		{"a+b", "a+%"}, {"aab", "a+%"}, {"(x)", "(%)"}, {"a\\b", "a\\%"}, {"%", "%"}, {"a%b", "a%b"},
	} {
		hpCase(out, c[0], c[1], "corpus")
	}
	// exhaustive small alphabets
	pl, hl := 5, 5
	if a.Thorough {
		pl, hl = 6, 6
	}
	hostsAB := allStrings("ab", hl)
	for _, p := range allStrings("ab%", pl) {
		if !strings.Contains(p, "%") {
			continue // never a pattern: one representative below
		}
		for _, h := range hostsAB {
			hpCase(out, h, p, "exhaustive-ab")
		}
	}
	for _, p := range []string{"", "a", "ab", "aba"} {
		for _, h := range []string{"", "a", "ab", "aba"} {
			hpCase(out, h, p, "no-wildcard")
		}
	}
	hostsD := allStrings("1._x", 3)
	if a.Thorough {
		hostsD = allStrings("1._x", 4)
	}
	for _, p := range allStrings("1.%_", 4) {
		if !strings.Contains(p, "%") {
			continue
		}
		for _, h := range hostsD {
			hpCase(out, h, p, "exhaustive-dots")
		}
	}
	// structured
	n := 1500
	if a.Thorough {
		n = 40000
	}
	for i := 0; i < n; i++ {
		rr := r.Fork()
		pat := genPattern(rr)
		for _, h := range genHosts(rr, pat) {
			hpCase(out, h, pat, "structured")
		}
	}
	// metacharacters
	for i := 0; i < n/3; i++ {
		rr := r.Fork()
		var b strings.Builder
		for k, l := 0, 1+rr.Intn(7); k < l; k++ {
			if rr.Chance(1, 3) {
				b.WriteByte('%')
			} else {
				b.WriteByte(hpMeta[rr.Intn(len(hpMeta))])
			}
		}
		pat := b.String()
		for _, h := range genHosts(rr, pat) {
			hpCase(out, h, pat, "metachars")
		}
	}
}

// patternLoginStream: whole login decisions over accounts whose hosts are such patterns.
func patternLoginStream(out *hx.Out, a hx.RunArgs) {
	r := hx.NewRand(a.Seed*1000003 + 4002).Fork()
	salt0 := []byte("01234567890123456789")
	acct1 := func(name, host, pw string) acct {
		return acct{Name: name, Host: host, Plugin: "mysql_native_password", Auth: nativeHash(pw), pw: pw, pwKnown: true}
	}
	tok := func(salt []byte, pw string) attempt {
		return attempt{"token-of-an-account-password", mysql.ScrambleMysqlNativePassword(salt, []byte(pw))}
	}
	// corpus: one account, a client that must and one that must not be matched (the literals overlap)
	for _, c := range [][3]string{
		{"%.10.%.10", "1.2.10.9.10", "1.2.10.10"}, {"10.1%1.0.5", "10.11.0.5", "10.1.0.5"}, {"10.0.%.0.1", "10.0.7.0.1", "10.0.0.1"},
		{"%.corp.%.corp", "a.corp.b.corp", "a.corp"}, {"db%b.example", "dbb.example", "db.example"},
	} {
		loginCase(out, []acct{acct1("u1", c[0], "pw")}, true, "u1", c[1], salt0, tok(salt0, "pw"))
		loginCase(out, []acct{acct1("u1", c[0], "pw")}, true, "u1", c[2], salt0, tok(salt0, "pw"))
	}
	n := 1200
	if a.Thorough {
		n = 30000
	}
	for i := 0; i < n; i++ {
		rr := r.Fork()
		na := 1 + rr.Intn(3)
		var accts []acct
		seen := map[string]bool{}
		var hosts []string
		for len(accts) < na {
			name := hx.Pick(rr, []string{"u1", "u1", "u1", "u2", ""})
			pat := genPattern(rr)
			if seen[name+"\x00"+pat] {
				na--
				continue
			}
			seen[name+"\x00"+pat] = true
			ac := acct1(name, pat, hx.Pick(rr, []string{"pw", "secret", "pw2", ""}))
			ac.Locked = rr.Chance(1, 10)
			accts = append(accts, ac)
			hosts = append(hosts, genHosts(rr, pat)...)
		}
		for k := 0; k < 4; k++ {
			host := hx.Pick(rr, hosts)
			if strings.ContainsAny(host, "\n") {
				continue
			}
			user := hx.Pick(rr, []string{"u1", "u1", "u1", "u2", "u3"})
			salt := randBytes(rr, 20)
			loginCase(out, accts, true, user, host, salt, genAttempt(rr, accts, user, salt))
			out.Stat("plogin")
		}
	}
}
