// C40 — Authentication accepts exactly the valid credentials.
//
// run: four streams of cases against the real authentication code of sql/mysql_db (reached through the
// exported MySQLDb.ValidateHash and the overlay wrappers of the entry points vitess calls during the
// handshake), each compared with the Lean model (lean/Gms/Model/Auth.lean) by the driver:
//
//	(sha1 xMSG)                                    crypto/sha1 vs the driver's interpretation of H
//	(vn xRESP xSALT xSTORED)                       validateMysqlNativePassword: 1 | 0 | crash
//	(login ENABLED (ACCT…) xUSER xHOST xSALT xRESP) nativePasswordHashStorage.UserEntryWithHash and MySQLDb.ValidateHash
//	(method ENABLED (ACCT…) xMETHOD xUSER xHOST)   userValidator.HandleUser
//	(fast ENABLED (ACCT…) xUSER xHOST xRESP)       noopCachingStorage.UserEntryWithCacheHash
//
// ACCT = (a xNAME xHOST xPLUGIN xAUTH LOCKED) in the order MySQLDb.GetUser searches them.
//
// A fifth stream logs in over TCP (server.Server + go-sql-driver) with right, wrong and missing passwords
// and compares the outcome and CURRENT_USER() with the same model (`wire` cases).
//
// Further streams (own files, own random streams):
//
//	(hp xHOST xPATTERN)        hostpat.go: matchesHostPattern itself (exhaustive small alphabets, overlap-prone
//	                           patterns) and `plogin`: login cases over accounts with such host patterns
//	(hist (ACCT…) (EV…))       hist.go: one engine per history of account-changing statements (both paths:
//	                           account-management statements and DML on mysql.user) interleaved with logins of
//	                           returning clients through MySQLDb's mysql.AuthServer interface; whist.go: the same
//	                           with the logins made over TCP
//
// Model-free oracle (real code alone): a token computed by vitess' client-side ScrambleMysqlNativePassword
// from the right password is accepted when exactly one account can match; tokens for another password or
// another salt, random tokens, and any response for a locked account are rejected; an account without a
// password accepts exactly the empty response; no input makes the code panic; a response whose length is
// not 20 (in particular 1-19 bytes, and a valid token followed by extra bytes) is rejected; ValidateHash
// and UserEntryWithHash agree.
//
// The two former findings of the scramble check (native_short_response_oob: panic on a 1-19-byte response;
// native_long_response_accepted: valid token + trailing bytes accepted) were repaired by the length guard
// `if len(authResponse) != len(scramble) { return false }`; their witnesses stay in the corpus below and
// must now pass, a recurrence is reported with region "-" (a violation, not a known finding).
package main

import (
	"crypto/sha1"
	dsql "database/sql"
	"encoding/hex"
	"fmt"
	"go/ast"
	"net"
	"sort"
	"strings"
	"time"

	gomysql "github.com/go-sql-driver/mysql"

	"github.com/dolthub/go-mysql-server/memory"
	"github.com/dolthub/go-mysql-server/server"
	"github.com/dolthub/go-mysql-server/sql"
	"github.com/dolthub/go-mysql-server/sql/mysql_db"
	"github.com/dolthub/go-mysql-server/verifharness/hx"
	"github.com/dolthub/go-mysql-server/verifharness/hx/eng"
	"github.com/dolthub/vitess/go/mysql"
)

func main() { hx.Main(extract, run) }

// ---------------------------------------------------------------------------------------------

type addr struct{ network, s string }

func (a addr) Network() string { return a.network }
func (a addr) String() string  { return a.s }

// tcpAddr renders host as a TCP peer address (what net.Conn.RemoteAddr().String() looks like).
func tcpAddr(host string) net.Addr {
	if strings.Contains(host, ":") {
		return addr{"tcp", "[" + host + "]:51234"}
	}
	return addr{"tcp", host + ":51234"}
}

type acct struct {
	Name, Host, Plugin, Auth string
	Locked                   bool
	pw                       string // harness knowledge: the password the auth string was derived from ("" = none / unknown)
	pwKnown                  bool
}

func (a acct) payload() string {
	return hx.List("a", hx.HexS(a.Name), hx.HexS(a.Host), hx.HexS(a.Plugin), hx.HexS(a.Auth), b01(a.Locked))
}

func b01(b bool) string {
	if b {
		return "1"
	}
	return "0"
}

func nativeHash(pw string) string {
	if pw == "" {
		return ""
	}
	s1 := sha1.Sum([]byte(pw))
	s2 := sha1.Sum(s1[:])
	return "*" + strings.ToUpper(hex.EncodeToString(s2[:]))
}

// newDb builds a MySQLDb holding the accounts, inserted in the given order.
func newDb(accts []acct, enabled bool) *mysql_db.MySQLDb {
	db := mysql_db.CreateEmptyMySQLDb()
	ed := db.Editor()
	for _, a := range accts {
		ed.PutUser(&mysql_db.User{User: a.Name, Host: a.Host, Plugin: a.Plugin, AuthString: a.Auth, Locked: a.Locked,
			PrivilegeSet: mysql_db.NewPrivilegeSet(), PasswordLastChanged: time.Unix(1, 0)})
	}
	ed.Close()
	db.SetEnabled(enabled)
	return db
}

// searchOrder lists the accounts of db in the order GetUser searches them (grouped by name, inside a
// group in index order) and checks that nothing got lost.
func searchOrder(db *mysql_db.MySQLDb, want int) []acct {
	rd := db.Reader()
	defer rd.Close()
	nameSet := map[string]bool{}
	total := 0
	rd.VisitUsers(func(u *mysql_db.User) { nameSet[u.User] = true; total++ })
	var names []string
	for n := range nameSet {
		names = append(names, n)
	}
	sort.Strings(names)
	var out []acct
	for _, n := range names {
		for _, u := range rd.GetUsersByUsername(n) {
			out = append(out, acct{Name: u.User, Host: u.Host, Plugin: u.Plugin, Auth: u.AuthString, Locked: u.Locked})
		}
	}
	if len(out) != total || (want >= 0 && total != want) {
		panic(fmt.Sprintf("harness: %d accounts listed, %d in the set, %d expected", len(out), total, want))
	}
	return out
}

func acctsPayload(as []acct) string { return hx.ListOf(as, acct.payload) }

func getterObs(g mysql.Getter, err error, p string) string {
	switch {
	case p != "":
		return "crash"
	case err != nil:
		if se, ok := err.(*mysql.SQLError); ok && se.Num == mysql.ERAccessDeniedError {
			return "deny"
		}
		return "err:" + err.Error()
	case g == nil:
		return "nil"
	}
	u, ok := g.(sql.MysqlConnectionUser)
	if !ok {
		return fmt.Sprintf("getter:%T", g)
	}
	return "accept:" + hx.HexS(u.User) + "@" + hx.HexS(u.Host)
}

// ---------------------------------------------------------------------------------------------
// generators

var userPool = []string{"u1", "u1", "u2", ""}
var acctHosts = []string{"localhost", "%", "10.0.%", "h%", "127.0.0.1", "10.0.0.5", "%.corp", "hx1"}
var clientHosts = []string{"localhost", "127.0.0.1", "::1", "10.0.0.5", "10.0.1.9", "hx1", "hy2", "a.corp", "elsewhere"}
var pwPool = []string{"", "pw", "secret", "pw2"}
var pluginPool = []string{"mysql_native_password", "mysql_native_password", "caching_sha2_password", "", "custom_plugin"}

func randBytes(r *hx.Rand, n int) []byte {
	b := make([]byte, n)
	for i := range b {
		b[i] = byte(r.Intn(256))
	}
	return b
}

// oddAuth: auth strings the scramble check must cope with.
func oddAuth(r *hx.Rand, pw string) string {
	if pw == "" {
		pw = "pw"
	}
	h := nativeHash(pw)
	switch r.Intn(8) {
	case 0:
		return strings.TrimPrefix(h, "*") // without the star
	case 1:
		return strings.ToLower(h)
	case 2:
		return "*" + "ZZ" + h[3:] // not hex
	case 3:
		return h[:len(h)-1] // odd length
	case 4:
		return "*"
	case 5:
		return "*ABCD" // short hash
	case 6:
		return "$A$005$notnative"
	}
	return h
}

func genAccts(r *hx.Rand) []acct {
	n := 1 + r.Intn(5)
	var out []acct
	seen := map[string]bool{}
	for len(out) < n {
		a := acct{Name: hx.Pick(r, userPool), Host: hx.Pick(r, acctHosts), Plugin: hx.Pick(r, pluginPool)}
		if seen[a.Name+"\x00"+a.Host] {
			n--
			continue
		}
		seen[a.Name+"\x00"+a.Host] = true
		a.pw, a.pwKnown = hx.Pick(r, pwPool), true
		a.Auth = nativeHash(a.pw)
		if r.Chance(1, 8) {
			a.Auth, a.pwKnown = oddAuth(r, a.pw), false
		}
		a.Locked = r.Chance(1, 6)
		out = append(out, a)
	}
	return out
}

type attempt struct {
	kind string
	resp []byte
}

// genAttempt builds the client's response for a login as user from host against accts.
func genAttempt(r *hx.Rand, accts []acct, user string, salt []byte) attempt {
	pws := []string{"pw", "secret", "pw2", "nope"}
	var own []string
	for _, a := range accts {
		if a.Name == user && a.pwKnown {
			own = append(own, a.pw)
		}
	}
	switch x := r.Intn(20); {
	case x < 7 && len(own) > 0:
		pw := hx.Pick(r, own)
		return attempt{"token-of-an-account-password", mysql.ScrambleMysqlNativePassword(salt, []byte(pw))}
	case x < 10:
		return attempt{"token-of-some-password", mysql.ScrambleMysqlNativePassword(salt, []byte(hx.Pick(r, pws)))}
	case x < 12:
		return attempt{"empty", nil}
	case x < 13:
		return attempt{"random-20", randBytes(r, 20)}
	case x < 14 && len(own) > 0:
		other := append([]byte{}, salt...)
		other[r.Intn(len(other))] ^= 0x40
		return attempt{"token-for-another-salt", mysql.ScrambleMysqlNativePassword(other, []byte(hx.Pick(r, own)))}
	case x < 16:
		return attempt{"short", randBytes(r, 1+r.Intn(19))}
	case x < 17 && len(own) > 0:
		t := mysql.ScrambleMysqlNativePassword(salt, []byte(hx.Pick(r, own)))
		if len(t) == 0 {
			return attempt{"empty", nil}
		}
		return attempt{"token-plus-trailing-bytes", append(append([]byte{}, t...), randBytes(r, 1+r.Intn(4))...)}
	case x < 18 && len(own) > 0:
		t := mysql.ScrambleMysqlNativePassword(salt, []byte(hx.Pick(r, own)))
		if len(t) == 0 {
			return attempt{"empty", nil}
		}
		t = append([]byte{}, t...)
		t[r.Intn(len(t))] ^= byte(1 << r.Intn(8))
		return attempt{"token-with-one-bit-flipped", t}
	case x < 19:
		return attempt{"long-random", randBytes(r, 21+r.Intn(12))}
	}
	return attempt{"zero-byte", []byte{0}}
}

// resp0: the response from which the server recovers stage1 for this stored hash.
func resp0(stage1, salt, stored []byte) []byte {
	scr := sha1.Sum(append(append([]byte{}, salt...), stored...))
	resp := make([]byte, 20)
	for k := range resp {
		resp[k] = stage1[k] ^ scr[k]
	}
	return resp
}

// ---------------------------------------------------------------------------------------------
// one login case against the real code

func hostMatches(host, orig, uHost string) bool {
	pat := func(h string) bool {
		if !strings.Contains(uHost, "%") {
			return false
		}
		i := 0
		_ = i
		return globMatch(uHost, h)
	}
	return host == uHost || (host == "localhost" && (uHost == "::1" || uHost == "127.0.0.1")) || uHost == "%" || pat(host) || (orig != host && pat(orig))
}

// globMatch: the harness's own matcher for host patterns (% = any run of characters), used only to decide
// whether a login is unambiguous for the model-free oracle.
func globMatch(p, s string) bool {
	if p == "" {
		return s == ""
	}
	if p[0] == '%' {
		for i := 0; i <= len(s); i++ {
			if globMatch(p[1:], s[i:]) {
				return true
			}
		}
		return false
	}
	return s != "" && p[0] == s[0] && globMatch(p[1:], s[1:])
}

// candidates: the accounts that can be chosen for this login (named ones; anonymous ones when no named).
func candidates(accts []acct, user, host string) []acct {
	h := host
	if h == "127.0.0.1" || h == "::1" {
		h = "localhost"
	}
	var named, anon []acct
	for _, a := range accts {
		if hostMatches(h, host, a.Host) {
			if a.Name == user {
				named = append(named, a)
			} else if a.Name == "" {
				anon = append(anon, a)
			}
		}
	}
	if len(named) > 0 {
		return named
	}
	return anon
}

func loginCase(out *hx.Out, accts []acct, enabled bool, user, host string, salt []byte, at attempt) {
	db := newDb(accts, enabled)
	ordered := searchOrder(db, len(accts))
	var g1, g2 mysql.Getter
	var e1, e2 error
	p1 := hx.Safe(func() { g1, e1 = mysql_db.VerifNativeUserEntryWithHash(db, salt, user, at.resp, tcpAddr(host)) })
	p2 := hx.Safe(func() { g2, e2 = db.ValidateHash(salt, user, at.resp, tcpAddr(host)) })
	o1, o2 := getterObs(g1, e1, p1), getterObs(g2, e2, p2)
	payload := hx.List("login", b01(enabled), acctsPayload(ordered), hx.HexS(user), hx.HexS(host), hx.Hex(salt), hx.Hex(at.resp))
	cands := candidates(accts, user, host)
	id := out.Case(payload, o1, enabled && len(cands) > 0 && len(at.resp) > 0)
	out.Stat("login")
	out.Stat("login:attempt:" + at.kind)
	out.Stat("login:" + strings.SplitN(o1, ":", 2)[0])
	if o1 != o2 {
		out.OracleFail(id, "-", fmt.Sprintf("UserEntryWithHash gives %s, ValidateHash gives %s", o1, o2))
	}
	if p1 != "" {
		out.OracleFail(id, "-", fmt.Sprintf("authentication panics on a %d-byte response: %s", len(at.resp), p1))
		return
	}
	if !enabled {
		return
	}
	accepted := strings.HasPrefix(o1, "accept:")
	// expectations that need no model: only when exactly one account can be chosen and its password is known
	if len(cands) == 1 && cands[0].pwKnown {
		a := cands[0]
		want := "accept:" + hx.HexS(a.Name) + "@" + hx.HexS(a.Host)
		switch {
		case a.Locked:
			if accepted {
				out.OracleFail(id, "-", "a locked account was accepted")
			}
		case a.pw == "":
			if (len(at.resp) == 0) != accepted {
				out.OracleFail(id, "-", fmt.Sprintf("account without password: response of %d bytes, outcome %s", len(at.resp), o1))
			}
		case at.kind == "token-of-an-account-password" || at.kind == "token-of-some-password":
			right := string(mysql.ScrambleMysqlNativePassword(salt, []byte(a.pw))) == string(at.resp)
			if right && o1 != want {
				out.OracleFail(id, "-", "the token of the right password gives "+o1+", expected "+want)
			}
			if !right && accepted {
				out.OracleFail(id, "-", "the token of a wrong password was accepted")
			}
		case at.kind == "token-plus-trailing-bytes":
			if accepted {
				out.OracleFail(id, "-", fmt.Sprintf("a %d-byte response (valid token followed by extra bytes) was accepted", len(at.resp)))
			}
		default:
			if accepted {
				out.OracleFail(id, "-", "a response of kind "+at.kind+" was accepted")
			}
		}
	}
	if len(cands) == 0 && accepted {
		out.OracleFail(id, "-", "accepted although no account matches")
	}
	// a mysql_native_password response is empty (no password) or one SHA-1 digest long
	if n := len(at.resp); n != 0 && n != 20 && accepted {
		out.OracleFail(id, "-", fmt.Sprintf("a %d-byte response was accepted: %s", n, o1))
	}
}

// sha2FastObs: noopCachingStorage.UserEntryWithCacheHash as accept:… | deny | needmore | crash (+ the panic text).
func sha2FastObs(db *mysql_db.MySQLDb, user string, resp []byte, host string) (string, string) {
	var g mysql.Getter
	var st mysql.CacheState
	var err error
	p := hx.Safe(func() { g, st, err = mysql_db.VerifSha2Fast(db, user, resp, tcpAddr(host)) })
	obs := getterObs(g, err, p)
	if p == "" {
		switch st {
		case mysql.AuthNeedMoreData:
			obs = "needmore"
		case mysql.AuthRejected:
			obs = "deny"
		case mysql.AuthAccepted:
		default:
			obs = fmt.Sprintf("state:%d", st)
		}
	}
	return obs, p
}

// ---------------------------------------------------------------------------------------------
// wire level

type wireEnv struct {
	e    *eng.Eng
	db   *mysql_db.MySQLDb
	srv  *server.Server
	port int
}

func startWire() (*wireEnv, error) {
	e := eng.New("d")
	db := e.E.Analyzer.Catalog.MySQLDb
	db.SetPersister(&mysql_db.NoopPersister{})
	db.AddRootAccount()
	l, err := net.Listen("tcp", "127.0.0.1:0")
	if err != nil {
		return nil, err
	}
	port := l.Addr().(*net.TCPAddr).Port
	l.Close()
	cfg := server.Config{Protocol: "tcp", Address: fmt.Sprintf("127.0.0.1:%d", port)}
	srv, err := server.NewServer(cfg, e.E, sql.NewContext, memory.NewSessionBuilder(e.Pro), nil)
	if err != nil {
		return nil, err
	}
	go srv.Start()
	w := &wireEnv{e: e, db: db, srv: srv, port: port}
	var last error
	for i := 0; i < 100; i++ {
		c, err := dsql.Open("mysql", fmt.Sprintf("root@tcp(127.0.0.1:%d)/", port))
		if err == nil {
			if last = c.Ping(); last == nil {
				c.Close()
				return w, nil
			}
			c.Close()
		}
		time.Sleep(50 * time.Millisecond)
	}
	return nil, fmt.Errorf("cannot connect to the test server: %v", last)
}

// wireLogin connects as user with password pw; observation: accept:<CURRENT_USER()> | deny | err.
func (w *wireEnv) wireLogin(user, pw string) string {
	cfg := gomysql.NewConfig()
	cfg.User, cfg.Passwd, cfg.Net, cfg.Addr = user, pw, "tcp", fmt.Sprintf("127.0.0.1:%d", w.port)
	cfg.AllowNativePasswords = true
	cfg.Timeout, cfg.ReadTimeout = 5*time.Second, 5*time.Second
	conn, err := gomysql.NewConnector(cfg)
	if err != nil {
		return "err:config:" + err.Error()
	}
	c := dsql.OpenDB(conn)
	defer c.Close()
	var cu string
	err = c.QueryRow("SELECT CURRENT_USER()").Scan(&cu)
	if err != nil {
		if me, ok := err.(*gomysql.MySQLError); ok && me.Number == 1045 {
			return "deny"
		}
		return "err:" + err.Error()
	}
	return "accept:" + cu
}

// ---------------------------------------------------------------------------------------------

func run(a hx.RunArgs) error {
	out := hx.NewOut(a.OutDir)
	defer out.Close()
	out.Rule = "sha1: random messages of 0-200 bytes; vn: scramble check on (response, salt, stored hash) incl. every response length 0-40, tokens of the right/wrong password, bit flips, stored hashes without star / lower-case / non-hex / odd / short; " +
		"login: 1-5 accounts (names u1/u2/anonymous, hosts localhost/%/10.0.%/h%/127.0.0.1/…, native/sha2/other plugin, locked flag, passwords incl. none, malformed auth strings) in random insertion order, " +
		"a login from 9 client hosts with 11 kinds of response; method: HandleUser for 4 method names; fast: caching_sha2 fast path with empty/zero/other responses; wire: TCP logins through server.Server + go-sql-driver (incl. accounts whose host pattern surrounds the client address 127.0.0.1); " +
		"hp: matchesHostPattern on every pattern of length <= 5 over {a,b,%} x every host of length <= 5 over {a,b}, every pattern of length <= 4 over {1,.,%,_} x hosts of length <= 3 over {1,.,_,x}, IP/host-name shaped patterns with literal text on both sides of 1-3 wildcards against instantiations, overlap merges of the segments (hosts too short for the literals to be disjoint) and one-character mutations, patterns of regexp metacharacters (non-trivial: a wildcard and >= 2 non-empty literal segments); " +
		"plogin: logins over 1-3 accounts with such host patterns from such client hosts; " +
		"hist: one engine per history of 3-9 account-changing statements through both paths (CREATE USER [ACCOUNT LOCK] / CREATE ROLE / ALTER USER / DROP USER / GRANT global and database level / FLUSH PRIVILEGES, and INSERT / UPDATE account_locked, authentication_string, plugin / DELETE on mysql.user) interleaved with native-password logins through MySQLDb's mysql.AuthServer interface that keep coming from the same 1-2 (user, client host) pairs with the current / a former / another password, plus a fixed corpus (non-trivial: >= 2 logins, one of them after a change); " +
		"a login case is non-trivial when accounts are enabled, some account can match and the response is not empty"
	r := hx.NewRand(a.Seed*7919 + 40)
	nSha, nVn, nLogin, nMeth, nWire := 150, 3000, 8000, 2000, 80
	if a.Thorough {
		nSha, nVn, nLogin, nMeth, nWire = 2000, 60000, 150000, 30000, 600
	}

	// --- sha1
	rs := r.Fork()
	for i := 0; i < nSha; i++ {
		n := rs.Intn(201)
		if i < 70 {
			n = i + 30 // every length around the padding boundaries 55/56/63/64
		}
		msg := randBytes(rs, n)
		d := sha1.Sum(msg)
		out.Case(hx.List("sha1", hx.Hex(msg)), hex.EncodeToString(d[:]), n > 0)
		out.Stat("sha1")
	}

	// --- validateMysqlNativePassword
	rv := r.Fork()
	vn := func(resp, salt []byte, stored, kind string) {
		var ok bool
		p := hx.Safe(func() { ok = mysql_db.VerifValidateNative(resp, salt, stored) })
		obs := b01(ok)
		if p != "" {
			obs = "crash"
		}
		id := out.Case(hx.List("vn", hx.Hex(resp), hx.Hex(salt), hx.HexS(stored)), obs, len(resp) > 0 && stored != "")
		out.Stat("vn")
		out.Stat("vn:" + kind)
		out.Stat("vn:result:" + obs)
		if p != "" {
			out.OracleFail(id, "-", fmt.Sprintf("validateMysqlNativePassword panics on a %d-byte response: %s", len(resp), p))
		}
		if len(resp) != 20 && obs == "1" {
			out.OracleFail(id, "-", fmt.Sprintf("a %d-byte response is accepted", len(resp)))
		}
		switch kind {
		case "right-token":
			if obs != "1" {
				out.OracleFail(id, "-", "the token of the right password is not accepted: "+obs)
			}
		case "wrong-token", "bit-flip", "other-salt", "random-20":
			if obs == "1" {
				out.OracleFail(id, "-", "a "+kind+" response is accepted")
			}
		case "right-token-plus-extra":
			if obs != "0" {
				out.OracleFail(id, "-", fmt.Sprintf("a %d-byte response (valid token followed by extra bytes) is not rejected: %s", len(resp), obs))
			}
		case "short":
			if obs != "0" {
				out.OracleFail(id, "-", fmt.Sprintf("a %d-byte response is not rejected: %s", len(resp), obs))
			}
		}
	}
	salt0 := []byte("01234567890123456789")
	// corpus: the witnesses of the repaired findings F-C40-a (1..19 zero bytes panicked) and F-C40-b (valid
	// token + one byte was accepted) and the boundary lengths: all of them must be rejected now
	for n := 0; n <= 40; n++ {
		vn(make([]byte, n), salt0, nativeHash("pw"), fmt.Sprintf("zeros-len-%02d", n))
	}
	vn(mysql.ScrambleMysqlNativePassword(salt0, []byte("pw")), salt0, nativeHash("pw"), "right-token")
	vn(append(mysql.ScrambleMysqlNativePassword(salt0, []byte("pw")), 7), salt0, nativeHash("pw"), "right-token-plus-extra")
	for i := 0; i < nVn; i++ {
		salt := randBytes(rv, 20)
		if rv.Chance(1, 10) {
			salt = randBytes(rv, rv.Intn(30))
		}
		pw := hx.Pick(rv, []string{"pw", "secret", "pw2", "a", "long password with spaces"})
		stored := nativeHash(pw)
		tok := mysql.ScrambleMysqlNativePassword(salt, []byte(pw))
		switch x := rv.Intn(16); {
		case x < 4:
			vn(tok, salt, stored, "right-token")
		case x < 6:
			vn(mysql.ScrambleMysqlNativePassword(salt, []byte(pw+"x")), salt, stored, "wrong-token")
		case x < 7:
			t := append([]byte{}, tok...)
			t[rv.Intn(20)] ^= byte(1 << rv.Intn(8))
			vn(t, salt, stored, "bit-flip")
		case x < 8:
			vn(randBytes(rv, 20), salt, stored, "random-20")
		case x < 9 && len(salt) > 0:
			s2 := append([]byte{}, salt...)
			s2[rv.Intn(len(s2))] ^= 1
			vn(mysql.ScrambleMysqlNativePassword(s2, []byte(pw)), salt, stored, "other-salt")
		case x < 11:
			vn(randBytes(rv, rv.Intn(20)), salt, stored, "short")
		case x < 12:
			vn(append(append([]byte{}, tok...), randBytes(rv, 1+rv.Intn(5))...), salt, stored, "right-token-plus-extra")
		case x < 13:
			vn(randBytes(rv, 21+rv.Intn(20)), salt, stored, "long-random")
		default:
			st := oddAuth(rv, pw)
			resp := tok
			if rv.Chance(1, 3) {
				resp = randBytes(rv, rv.Intn(25))
			}
			vn(resp, salt, st, "odd-stored-hash")
		}
	}

	// near misses: the stored hash differs from SHA1(stage1) in exactly one byte (any 20 bytes are a legal
	// stored value), the response is built so that the server recovers that stage1 — a check that compares
	// only part of the hash accepts these
	for i := 0; i < nVn/10; i++ {
		salt := randBytes(rv, 20)
		stage1 := randBytes(rv, 20)
		c := sha1.Sum(stage1)
		stored := append([]byte{}, c[:]...)
		pos := []int{0, 19, rv.Intn(20)}[rv.Intn(3)]
		stored[pos] ^= byte(1 << rv.Intn(8))
		scr := sha1.Sum(append(append([]byte{}, salt...), stored...))
		resp := make([]byte, 20)
		for k := range resp {
			resp[k] = stage1[k] ^ scr[k]
		}
		vn(resp, salt, "*"+strings.ToUpper(hex.EncodeToString(stored)), "wrong-token")
		if i%4 == 0 { // and the exact hit, for contrast
			vn(resp0(stage1, salt, c[:]), salt, "*"+strings.ToUpper(hex.EncodeToString(c[:])), "right-token")
		}
	}

	// --- logins
	rl := r.Fork()
	u1 := func(host, pw string, locked bool) acct {
		return acct{Name: "u1", Host: host, Plugin: "mysql_native_password", Auth: nativeHash(pw), Locked: locked, pw: pw, pwKnown: true}
	}
	tok := func(pw string) []byte { return mysql.ScrambleMysqlNativePassword(salt0, []byte(pw)) }
	// corpus
	loginCase(out, []acct{u1("localhost", "pw", false)}, true, "u1", "localhost", salt0, attempt{"token-of-an-account-password", tok("pw")})
	loginCase(out, []acct{u1("localhost", "pw", false)}, true, "u1", "localhost", salt0, attempt{"short", make([]byte, 19)}) // F-C40-a (repaired): denied, no panic
	loginCase(out, []acct{u1("localhost", "pw", true)}, true, "u1", "localhost", salt0, attempt{"token-of-an-account-password", tok("pw")})
	loginCase(out, []acct{u1("localhost", "", false)}, true, "u1", "localhost", salt0, attempt{"empty", nil})
	loginCase(out, []acct{u1("localhost", "", false)}, true, "u1", "localhost", salt0, attempt{"token-of-some-password", tok("pw")})
	loginCase(out, []acct{u1("%", "pw", false), u1("10.0.%", "secret", false)}, true, "u1", "10.0.0.5", salt0, attempt{"token-of-an-account-password", tok("secret")}) // F-C40-c
	loginCase(out, []acct{u1("10.0.%", "secret", false), u1("%", "pw", false)}, true, "u1", "10.0.0.5", salt0, attempt{"token-of-an-account-password", tok("secret")})
	loginCase(out, []acct{u1("%", "pw", false), u1("localhost", "secret", false)}, true, "u1", "127.0.0.1", salt0, attempt{"token-of-an-account-password", tok("secret")})
	loginCase(out, []acct{u1("localhost", "pw", false)}, false, "nobody", "elsewhere", salt0, attempt{"empty", nil})
	loginCase(out, []acct{u1("localhost", "pw", false)}, true, "u1", "localhost", salt0, attempt{"token-plus-trailing-bytes", append(append([]byte{}, tok("pw")...), 7)}) // F-C40-b (repaired): denied
	for i := 0; i < nLogin; i++ {
		rr := rl.Fork()
		accts := genAccts(rr)
		user := hx.Pick(rr, []string{"u1", "u1", "u2", "u3", ""})
		host := hx.Pick(rr, clientHosts)
		salt := randBytes(rr, 20)
		loginCase(out, accts, !rr.Chance(1, 25), user, host, salt, genAttempt(rr, accts, user, salt))
	}

	// --- method negotiation and the caching_sha2 fast path
	rm := r.Fork()
	for i := 0; i < nMeth; i++ {
		rr := rm.Fork()
		accts := genAccts(rr)
		enabled := !rr.Chance(1, 25)
		db := newDb(accts, enabled)
		ordered := searchOrder(db, len(accts))
		user := hx.Pick(rr, []string{"u1", "u1", "u2", "u3", ""})
		host := hx.Pick(rr, clientHosts)
		if rr.Bool() {
			method := hx.Pick(rr, []string{"mysql_native_password", "caching_sha2_password", "mysql_clear_password", "custom_plugin"})
			var ok bool
			p := hx.Safe(func() { ok = mysql_db.VerifHandleUser(db, method, user, tcpAddr(host)) })
			obs := b01(ok)
			if p != "" {
				obs = "crash"
			}
			id := out.Case(hx.List("method", b01(enabled), acctsPayload(ordered), hx.HexS(method), hx.HexS(user), hx.HexS(host)), obs, enabled && len(candidates(accts, user, host)) > 0)
			out.Stat("method")
			if p != "" {
				out.OracleFail(id, "-", "HandleUser panics: "+p)
			}
			// unknown users must be offered exactly the default method (decoy)
			if enabled && len(candidates(accts, user, host)) == 0 && ok != (method == mysql_db.VerifDefaultAuthMethod) {
				out.OracleFail(id, "-", "unknown user: method "+method+" eligible = "+obs)
			}
		} else {
			resp := [][]byte{nil, {0}, {0, 0}, randBytes(rr, 32), {1}}[rr.Intn(5)]
			obs, p := sha2FastObs(db, user, resp, host)
			id := out.Case(hx.List("fast", b01(enabled), acctsPayload(ordered), hx.HexS(user), hx.HexS(host), hx.Hex(resp)), obs, enabled && len(candidates(accts, user, host)) > 0)
			out.Stat("fast")
			out.Stat("fast:" + strings.SplitN(obs, ":", 2)[0])
			if p != "" {
				out.OracleFail(id, "-", "UserEntryWithCacheHash panics: "+p)
			}
		}
	}

	// --- the host-pattern matcher, logins over pattern-rich account lists, histories of account changes
	// (own random streams: the streams above stay the same sample)
	hostPatternStream(out, a)
	patternLoginStream(out, a)
	historyStream(out, a)

	// --- wire
	w, err := startWire()
	if err != nil {
		return err
	}
	defer w.srv.Close()
	rw := r.Fork()
	root := w.e.Ctx()
	wusers := []struct{ name, host, pw string }{
		{"w1", "localhost", "pw"}, {"w2", "%", "secret"}, {"w3", "localhost", ""}, {"w4", "127.0.0.1", "pw2"}, {"w5", "10.9.%", "pw"},
		// host patterns around the client's address 127.0.0.1: w8 contains every literal piece of its pattern in
		// order but not disjointly ("127.0." + gap + ".0.1" needs 10 characters) and must not match; w9 matches
		{"w8", "127.0.%.0.1", "pw"}, {"w9", "127.%.0.1", "pw"},
	}
	for _, u := range wusers {
		q := fmt.Sprintf("CREATE USER '%s'@'%s'", u.name, u.host)
		if u.pw != "" {
			q += " IDENTIFIED WITH mysql_native_password BY '" + u.pw + "'"
		}
		if res := w.e.Query(root, q); res.Class() != "ok" {
			return fmt.Errorf("harness: %s: class %s err %v panic %s", q, res.Class(), res.Err, res.Panic)
		}
	}
	if res := w.e.Query(root, "CREATE USER 'w6'@'localhost' IDENTIFIED WITH mysql_native_password BY 'pw' ACCOUNT LOCK"); res.Class() != "ok" {
		// ACCOUNT LOCK may be unsupported by the parser: lock through the editor
		w.e.Query(root, "CREATE USER 'w6'@'localhost' IDENTIFIED WITH mysql_native_password BY 'pw'")
	}
	ed := w.db.Editor()
	if u := w.db.GetUser(ed, "w6", "localhost", false); u != nil {
		u.Locked = true
		ed.PutUser(u)
	}
	ed.Close()
	ordered := searchOrder(w.db, -1)
	for i := 0; i < nWire; i++ {
		name := hx.Pick(rw, []string{"w1", "w2", "w3", "w4", "w5", "w6", "w7", "w8", "w9"})
		pw := hx.Pick(rw, []string{"", "pw", "secret", "pw2", "nope"})
		obs := w.wireLogin(name, pw)
		id := out.Case(hx.List("wire", acctsPayload(ordered), hx.HexS(name), hx.HexS("127.0.0.1"), hx.HexS(pw)), obs, pw != "")
		out.Stat("wire")
		out.Stat("wire:" + strings.SplitN(obs, ":", 2)[0])
		for _, u := range wusers {
			if u.name == name && name != "w5" && name != "w8" {
				if (u.pw == pw) != strings.HasPrefix(obs, "accept:") {
					out.OracleFail(id, "-", fmt.Sprintf("login %s with password %q (account password %q): %s", name, pw, u.pw, obs))
				}
			}
		}
		if (name == "w5" || name == "w6" || name == "w7" || name == "w8") && obs != "deny" {
			out.OracleFail(id, "-", fmt.Sprintf("login %s (no matching / locked / unknown account) with password %q: %s", name, pw, obs))
		}
	}
	// histories of account changes with the logins made over TCP
	wireHistoryStream(out, w, a)
	return nil
}

// ---------------------------------------------------------------------------------------------
// Facts.

func extract(a hx.ExtractArgs) error {
	lf := hx.NewLeanFile("Gms.Generated.C40", "sql/mysql_db/auth.go", "sql/mysql_db/mysql_db.go")
	src, err := hx.ParseSrc(a.Repo, "sql/mysql_db/auth.go")
	if err != nil {
		return err
	}
	// const DefaultAuthMethod = mysql.<X>
	def := ""
	for _, d := range src.File.Decls {
		gd, ok := d.(*ast.GenDecl)
		if !ok {
			continue
		}
		for _, sp := range gd.Specs {
			vs, ok := sp.(*ast.ValueSpec)
			if !ok || len(vs.Names) != 1 || vs.Names[0].Name != "DefaultAuthMethod" || len(vs.Values) != 1 {
				continue
			}
			def = src.Text(vs.Values[0])
		}
	}
	if def == "" {
		return fmt.Errorf("auth.go: const DefaultAuthMethod not found")
	}
	lf.DefString("defaultAuthMethodExpr", def)
	lf.DefString("defaultAuthMethod", mysql_db.VerifDefaultAuthMethod) // value in the freshly compiled code

	// the guards of validateMysqlNativePassword before the XOR loop, and the loop header
	fd, err := src.Func("", "validateMysqlNativePassword")
	if err != nil {
		return err
	}
	var guards []string
	loop := ""
	for _, st := range fd.Body.List {
		switch s := st.(type) {
		case *ast.IfStmt:
			if loop == "" {
				guards = append(guards, strings.Join(strings.Fields(src.Text(s.Cond)), " "))
			}
		case *ast.RangeStmt:
			loop = strings.Join(strings.Fields(src.Text(s.X)), " ") + ":" + strings.Join(strings.Fields(src.Text(s.Body)), " ")
		}
	}
	if loop == "" {
		return fmt.Errorf("validateMysqlNativePassword: the range loop over the scramble is gone")
	}
	lf.DefStringList("nativeGuards", guards)
	lf.DefString("nativeXorLoop", loop)
	// every call/assignment/return of the function body in order (hash inputs, their order, the final comparison)
	var steps []string
	for _, st := range fd.Body.List {
		switch s := st.(type) {
		case *ast.ExprStmt, *ast.AssignStmt, *ast.ReturnStmt:
			steps = append(steps, strings.Join(strings.Fields(src.Text(s)), " "))
		}
	}
	lf.DefStringList("nativeSteps", steps)
	// the whole top-level statement sequence in order, guards with their bodies: where the response-length
	// check sits (after the scramble is computed, before the loop) and what it returns
	norm := func(n ast.Node) string { return strings.Join(strings.Fields(src.Text(n)), " ") }
	var skel []string
	for _, st := range fd.Body.List {
		switch s := st.(type) {
		case *ast.IfStmt:
			if s.Init != nil || s.Else != nil {
				return fmt.Errorf("validateMysqlNativePassword: unexpected if statement shape: %s", norm(s))
			}
			skel = append(skel, "if "+norm(s.Cond)+" "+norm(s.Body))
		case *ast.RangeStmt:
			if s.Key == nil || s.Value != nil {
				return fmt.Errorf("validateMysqlNativePassword: unexpected range statement shape: %s", norm(s))
			}
			skel = append(skel, "for "+norm(s.Key)+" := range "+norm(s.X)+" "+norm(s.Body))
		default:
			skel = append(skel, norm(s))
		}
	}
	lf.DefStringList("nativeSkeleton", skel)

	// the accept/deny skeleton shared by UserEntryWithHash and ValidateHash: conditions of their if statements
	conds := func(fd *ast.FuncDecl, s *hx.Src) []string {
		var out []string
		ast.Inspect(fd.Body, func(n ast.Node) bool {
			if is, ok := n.(*ast.IfStmt); ok {
				out = append(out, strings.Join(strings.Fields(s.Text(is.Cond)), " "))
			}
			return true
		})
		return out
	}
	fd, err = src.Func("nativePasswordHashStorage", "UserEntryWithHash")
	if err != nil {
		return err
	}
	lf.DefStringList("userEntryWithHashConds", conds(fd, src))
	msrc, err := hx.ParseSrc(a.Repo, "sql/mysql_db/mysql_db.go")
	if err != nil {
		return err
	}
	fd, err = msrc.Func("MySQLDb", "ValidateHash")
	if err != nil {
		return err
	}
	lf.DefStringList("validateHashConds", conds(fd, msrc))
	fd, err = src.Func("userValidator", "HandleUser")
	if err != nil {
		return err
	}
	lf.DefStringList("handleUserConds", conds(fd, src))
	fd, err = src.Func("noopCachingStorage", "UserEntryWithCacheHash")
	if err != nil {
		return err
	}
	lf.DefStringList("sha2FastConds", conds(fd, src))
	// the disjunction inside GetUser's loop
	fd, err = msrc.Func("MySQLDb", "GetUser")
	if err != nil {
		return err
	}
	var gu []string
	ast.Inspect(fd.Body, func(n ast.Node) bool {
		if is, ok := n.(*ast.IfStmt); ok {
			gu = append(gu, strings.Join(strings.Fields(msrc.Text(is.Cond)), " "))
		}
		return true
	})
	lf.DefStringList("getUserConds", gu)
	if err := extractMore(a, lf); err != nil {
		return err
	}
	return lf.Write(a.Out)
}
