// C40 — histories against the TCP listener: the same events as hist.go (`hist` cases, same Lean model), the
// logins made by go-sql-driver through server.Server from 127.0.0.1.
package main

import (
	"fmt"
	"strings"

	"github.com/dolthub/go-mysql-server/verifharness/hx"
	"github.com/dolthub/go-mysql-server/verifharness/hx/eng"
	"github.com/dolthub/vitess/go/mysql"
)

// wireObs turns accept:<CURRENT_USER()> into the observation format of the in-process logins.
func wireObs(o string) string {
	if !strings.HasPrefix(o, "accept:") {
		return o
	}
	cu := strings.TrimPrefix(o, "accept:")
	i := strings.LastIndex(cu, "@")
	if i < 0 {
		return o
	}
	return "accept:" + hx.HexS(cu[:i]) + "@" + hx.HexS(cu[i+1:])
}

func wireHistoryStream(out *hx.Out, w *wireEnv, a hx.RunArgs) {
	r := hx.NewRand(a.Seed*1000003 + 4004).Fork()
	n := 4
	if a.Thorough {
		n = 40
	}
	root := w.e.Ctx()
	for i := 0; i < n; i++ {
		rr := r.Fork()
		name := fmt.Sprintf("h%d", i)
		host := hx.Pick(rr, []string{"localhost", "%", "127.0.0.%", "127.%.1"})
		if i == 0 {
			host = "%"
		}
		pw, old := "pw", []string{}
		exists, locked := true, false
		steps := []histStep{stCreateUser(name, host, pw, false), stLogin(name, "127.0.0.1", pw)}
		change := func(npw string) { old = append(old, pw); pw = npw }
		for k, nk := 0, 3+rr.Intn(4); k < nk; k++ {
			switch x := rr.Intn(8); {
			case x < 2 && exists:
				locked = !locked
				steps = append(steps, stDmlLock(name, host, locked))
			case x < 4 && exists:
				change(hx.Pick(rr, []string{"secret", "pw2", "dml", "pw"}))
				steps = append(steps, stDmlAuth(name, host, pw))
			case x < 5 && exists:
				change(hx.Pick(rr, []string{"secret", "pw2", "new"}))
				steps = append(steps, stAlterUser(name, host, pw))
			case x < 6 && exists:
				steps = append(steps, stDmlDelete(name, host))
				exists = false
			case x < 7 && !exists:
				change(hx.Pick(rr, []string{"third", "pw"}))
				locked = false
				steps = append(steps, stDmlInsert(name, host, pw, false))
				exists = true
			case exists:
				steps = append(steps, stGrantGlobal(name, host))
			default:
				continue
			}
			steps = append(steps, stLogin(name, "127.0.0.1", pw))
			if len(old) > 0 && rr.Bool() {
				steps = append(steps, stLogin(name, "127.0.0.1", hx.Pick(rr, old)))
			}
		}
		steps = append(steps, stDmlDelete(name, host), stLogin(name, "127.0.0.1", pw))

		initial := searchOrder(w.db, -1)
		var evs, obs, others []string
		salt := []byte{7, 7, 7, 7, 7, 7, 7, 7, 7, 7, 7, 7, 7, 7, 7, 7, 7, 7, 7, 7}
		for _, st := range steps {
			evs = append(evs, st.ev)
			if st.login == nil {
				if res := w.e.Query(eng.SameSession(root), st.sql); res.Class() == "crash" || res.Class() == "timeout" {
					panic(fmt.Sprintf("harness: wire history statement %q: %s %s", st.sql, res.Class(), res.Panic))
				}
				continue
			}
			obs = append(obs, wireObs(w.wireLogin(st.login.user, st.login.pw)))
			var resp []byte
			if st.login.pw != "" {
				resp = mysql.ScrambleMysqlNativePassword(salt, []byte(st.login.pw))
			}
			others = append(others, otherEntryPoints(w.db, st.login.user, "127.0.0.1", salt, resp))
		}
		out.Case(hx.List("hist", acctsPayload(initial), "("+strings.Join(evs, " ")+")"), strings.Join(obs, ";")+"|"+tableObs(w.db)+"|"+strings.Join(others, ";"), true)
		out.Stat("whist")
	}
}
