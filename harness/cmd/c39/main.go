// C39 — Privilege checks allow exactly what the grants permit.
//
// run: histories of account-management statements (CREATE/DROP USER/ROLE, GRANT/REVOKE at every level,
// GRANT/REVOKE role) executed through the real engine by root or by ordinary accounts, interleaved
// with probes of ordinary sessions: SQL statements of every privilege class (their calls into the
// authorization handler are recorded by a wrapper around the real handler) and direct calls of
// HandleAuth with generated AuthInformation. The Lean driver replays the history on the Impl model
// (privilege_set.go, mysql_db.go, auth_default.go, plan/grant.go, plan/revoke.go, rowexec/priv.go) and on
// the Spec (grants are a set; GRANT adds, REVOKE removes exactly the named grants).
//
// Before the random histories a split-level stream (splitHistory) covers the statements that require
// SEVERAL privileges in one operation — REPLACE, LOCK TABLES, RENAME TABLE, GRANT/REVOKE by an ordinary
// account — with each required privilege granted separately at an independently chosen level (global,
// database, table) and holder (the account, role r1, role r2): the only inputs on which the way the
// per-privilege decisions are combined is visible (Gms.C39.multi_priv_decomposes, oneLevel_eq_of_single).
//
// Model-free oracle: (1) a statement that was refused leaves accounts, grants, role edges and table
// data unchanged; (2) a SQL probe is allowed exactly when the grants made so far to the session's
// account and to the roles granted to it include the privilege that class of statement needs at the
// global, database, table or routine level (reference bookkeeping in Go, requirement table below); a
// statement that needs several privileges (multiNeeds) is allowed exactly when each of them is included,
// each one at any level.
package main

import (
	"fmt"
	"go/ast"
	"sort"
	"strings"

	vast "github.com/dolthub/vitess/go/vt/sqlparser"

	"github.com/dolthub/go-mysql-server/sql"
	"github.com/dolthub/go-mysql-server/sql/plan"
	"github.com/dolthub/go-mysql-server/verifharness/aclx"
	"github.com/dolthub/go-mysql-server/verifharness/hx"
)

func main() { hx.Main(extract, run) }

// ---------------------------------------------------------------------------------------------
// Reference bookkeeping for the oracle (independent of the Lean model).

type refAcct struct {
	name, host string
	g          map[string]bool
	isRole     bool
}

type refState struct {
	accts     []*refAcct
	edges     map[[4]string]bool // from name, from host, to name, to host
	failed    bool               // an account-management statement failed with an error (it may have had a partial effect)
	region    bool               // a db-level REVOKE hit an account holding table/routine grants in that db
}

func (r *refState) find(name, host string) *refAcct {
	for _, a := range r.accts {
		if a.name == name && a.host == host {
			return a
		}
	}
	return nil
}

func lc(s string) string { return strings.ToLower(s) }

func (r *refState) apply(s aclx.Stmt, cur string) {
	db := s.LvDb
	if db == "" {
		db = cur
	}
	db = lc(db)
	switch s.Kind {
	case "cu":
		for _, u := range s.Users {
			if r.find(u.Name, u.Host) == nil {
				r.accts = append(r.accts, &refAcct{u.Name, u.Host, map[string]bool{}, false})
			}
		}
	case "cr":
		for _, u := range s.Roles {
			if r.find(u.Name, u.Host) == nil {
				r.accts = append(r.accts, &refAcct{u.Name, u.Host, map[string]bool{}, true})
			}
		}
	case "du", "dr":
		for _, u := range append(append([]aclx.Acct{}, s.Users...), s.Roles...) {
			for i, a := range r.accts {
				if a.name == u.Name && a.host == u.Host {
					r.accts = append(r.accts[:i:i], r.accts[i+1:]...)
					break
				}
			}
			for k := range r.edges {
				if (k[0] == u.Name && k[1] == u.Host) || (k[2] == u.Name && k[3] == u.Host) {
					delete(r.edges, k)
				}
			}
		}
	case "grant", "revoke":
		add := s.Kind == "grant"
		for _, u := range s.Users {
			a := r.find(u.Name, u.Host)
			if a == nil {
				continue
			}
			prefix := ""
			var all []int
			switch {
			case s.LvDb == "*":
				prefix = "G:"
				for p := 0; p <= 30; p++ {
					if p != 10 {
						all = append(all, p)
					}
				}
			case s.LvTbl == "*":
				prefix = "D:" + db + ":"
				all = []int{13, 24, 4, 23, 16, 21, 3, 5, 26, 18, 12, 1, 17, 11, 0, 22, 27, 2}
			case s.ObjTyp == 3 || s.ObjTyp == 2:
				prefix = fmt.Sprintf("R:%s:%s:%d:", db, lc(s.LvTbl), s.ObjTyp)
			default:
				prefix = "T:" + db + ":" + lc(s.LvTbl) + ":"
				all = []int{13, 4, 21, 3, 5, 12, 1, 11, 0, 22, 27, 2}
			}
			if !add && s.LvDb != "*" && s.LvTbl == "*" {
				for k := range a.g {
					if strings.HasPrefix(k, "T:"+db+":") || strings.HasPrefix(k, "R:"+db+":") {
						r.region = true
					}
				}
			}
			for _, p := range s.Privs {
				switch {
				case p.Type == 0:
					if add {
						for _, q := range all {
							a.g[prefix+fmt.Sprint(q)] = true
						}
					} else {
						for k := range a.g {
							if strings.HasPrefix(k, prefix) || (prefix == "G:" && strings.HasPrefix(k, "Y:")) {
								delete(a.g, k)
							}
						}
					}
				case p.Type == 33:
					if add {
						a.g["Y:"+p.Dyn] = true
					} else {
						delete(a.g, "Y:"+p.Dyn)
					}
				case aclx.PlanToSQLPriv[p.Type] >= 0:
					k := prefix + fmt.Sprint(aclx.PlanToSQLPriv[p.Type])
					if add {
						a.g[k] = true
					} else {
						delete(a.g, k)
					}
				}
			}
			if add && s.WGO {
				a.g[prefix+"10"] = true
			}
		}
	case "gr":
		for _, u := range s.Users {
			for _, ro := range s.Roles {
				if r.find(u.Name, u.Host) != nil && r.find(ro.Name, ro.Host) != nil {
					r.edges[[4]string{ro.Name, ro.Host, u.Name, u.Host}] = true
				}
			}
		}
	case "rr":
		for _, u := range s.Users {
			for _, ro := range s.Roles {
				delete(r.edges, [4]string{ro.Name, ro.Host, u.Name, u.Host})
			}
		}
	}
}

// effective returns the grants of the account and of the roles granted to it directly.
func (r *refState) effective(a *refAcct) map[string]bool {
	out := map[string]bool{}
	for k := range a.g {
		out[k] = true
	}
	for e := range r.edges {
		if e[2] == a.name && e[3] == a.host {
			if ro := r.find(e[0], e[1]); ro != nil {
				for k := range ro.g {
					out[k] = true
				}
			}
		}
	}
	return out
}

// A SQL probe class: the statement, what it needs, how to undo it when it was allowed.
type probe struct {
	class string
	sql   func(db, tbl string, n int) string
	priv  int    // sql.PrivilegeType needed
	level string // "table" (global|db|table), "db" (global|db), "global", "routine" (global|db|routine d.p), "visible"
	undo  func(db, tbl string) []string
}

// need is one privilege a statement requires on one subject; it may be held at the global level, at the
// level of the subject's database or (if tbl != "") at the level of the subject's table — every
// requirement of a statement independently of the others.
type need struct {
	priv    int
	db, tbl string
}

var probes = []probe{
	{"select", func(d, t string, n int) string { return "SELECT * FROM " + d + t }, 0, "table", nil},
	{"insert", func(d, t string, n int) string { return fmt.Sprintf("INSERT INTO %s%s (a) VALUES (%d)", d, t, 1000+n) }, 1, "table", nil},
	{"update", func(d, t string, n int) string { return fmt.Sprintf("UPDATE %s%s SET a = a + 100000 WHERE a >= 1000", d, t) }, 2, "table", nil},
	{"delete", func(d, t string, n int) string { return fmt.Sprintf("DELETE FROM %s%s WHERE a >= 1000", d, t) }, 3, "table", nil},
	{"alter", func(d, t string, n int) string { return fmt.Sprintf("ALTER TABLE %s%s ADD COLUMN zz int", d, t) }, 13, "table",
		func(d, t string) []string { return []string{"ALTER TABLE " + d + t + " DROP COLUMN zz"} }},
	{"index", func(d, t string, n int) string { return fmt.Sprintf("CREATE INDEX zi ON %s%s (a)", d, t) }, 12, "table",
		func(d, t string) []string { return []string{"DROP INDEX zi ON " + d + t} }},
	{"droptable", func(d, t string, n int) string { return "DROP TABLE " + d + t }, 5, "table",
		func(d, t string) []string { return []string{"CREATE TABLE " + d + t + " (a int primary key, b int)"} }},
	{"createtable", func(d, t string, n int) string { return "CREATE TABLE " + d + "zn (a int primary key)" }, 4, "db",
		func(d, t string) []string { return []string{"DROP TABLE " + d + "zn"} }},
	{"processlist", func(d, t string, n int) string { return "SHOW PROCESSLIST" }, 8, "global", nil},
	{"call", func(d, t string, n int) string { return "CALL d.p()" }, 18, "routine", nil},
	{"use", func(d, t string, n int) string { return "USE " + strings.TrimSuffix(d, ".") }, -1, "visible", nil},
}

// multiProbes: statements whose authorization asks for SEVERAL privileges in one operation (and RENAME
// for two operations on two subjects). Each required privilege may come from any level and from the
// account itself or any of its roles.
var multiProbes = []probe{
	{class: "replace", sql: func(d, t string, n int) string { return fmt.Sprintf("REPLACE INTO %s%s (a) VALUES (%d)", d, t, 1000+n%3) }, level: "multi"},
	{class: "locktables", sql: func(d, t string, n int) string { return "LOCK TABLES " + d + t + " " + []string{"READ", "WRITE"}[n%2] }, level: "multi",
		undo: func(d, t string) []string { return []string{"UNLOCK TABLES"} }},
	{class: "rename", sql: func(d, t string, n int) string { return "RENAME TABLE " + d + t + " TO " + d + "zr" }, level: "multi",
		undo: func(d, t string) []string { return []string{"RENAME TABLE " + d + "zr TO " + d + t} }},
}

// multiNeeds: what each multi-privilege statement class requires (level "multi" of a probe).
var multiNeeds = map[string]func(db, tbl string) []need{
	"replace":    func(db, tbl string) []need { return []need{{1, db, tbl}, {3, db, tbl}} },                               // INSERT + DELETE
	"locktables": func(db, tbl string) []need { return []need{{0, db, tbl}, {17, db, tbl}} },                              // SELECT + LOCK TABLES
	"rename":     func(db, tbl string) []need { return []need{{13, db, tbl}, {5, db, tbl}, {4, db, "zr"}, {1, db, "zr"}} }, // ALTER + DROP on the source, CREATE + INSERT on the target
}

func (p probe) allowed(eff map[string]bool, db, tbl string) bool {
	has := func(k string) bool { return eff[k] }
	ps := fmt.Sprint(p.priv)
	if has("G:15") { // the engine's documented rule: a global SUPER holder may do everything
		return true
	}
	switch p.level {
	case "multi":
		for _, n := range multiNeeds[p.class](db, tbl) {
			q := fmt.Sprint(n.priv)
			if !(has("G:"+q) || has("D:"+n.db+":"+q) || has("T:"+n.db+":"+n.tbl+":"+q)) {
				return false
			}
		}
		return true
	case "table":
		return has("G:"+ps) || has("D:"+db+":"+ps) || has("T:"+db+":"+tbl+":"+ps)
	case "db":
		return has("G:"+ps) || has("D:"+db+":"+ps)
	case "global":
		return has("G:" + ps)
	case "routine":
		return has("G:"+ps) || has("D:d:"+ps) || has("R:d:p:3:"+ps)
	case "visible":
		for k := range eff {
			if strings.HasPrefix(k, "G:") || strings.HasPrefix(k, "D:"+db+":") || strings.HasPrefix(k, "T:"+db+":") || strings.HasPrefix(k, "R:"+db+":") {
				return true
			}
		}
		return false
	}
	return false
}

// ---------------------------------------------------------------------------------------------
// Generators.

var userNames = []string{"u1", "u2", "u3"}
var userHosts = []string{"localhost", "localhost", "%", "10.0.%", "h%"}
var roleNames = []string{"r1", "r2"}
var sessAddrs = []string{"localhost", "localhost", "127.0.0.1", "10.0.0.5", "hx1", "elsewhere"}
var dbNames = []string{"d", "d", "e", "D"}
var tblNames = []string{"t", "t", "s", "T"}

var globalOnly = []int{4, 6, 8, 12, 15, 20, 22, 23, 24, 26, 28, 29}
var dbLevel = []int{1, 2, 3, 5, 7, 9, 10, 11, 13, 14, 16, 17, 18, 19, 21, 25, 27, 30, 31}
var tblLevel = []int{1, 3, 9, 10, 11, 16, 17, 18, 21, 25, 27, 30, 31}
var dynNames = []string{"replication_slave_admin", "clone_admin"}

type gen struct {
	r   *hx.Rand
	ref *refState
}

func (g *gen) existing(roles bool) (aclx.Acct, bool) {
	var c []aclx.Acct
	for _, a := range g.ref.accts {
		if a.isRole == roles {
			c = append(c, aclx.Acct{Name: a.name, Host: a.host})
		}
	}
	if len(c) == 0 {
		return aclx.Acct{}, false
	}
	return hx.Pick(g.r, c), true
}

func (g *gen) acct() aclx.Acct {
	if a, ok := g.existing(false); ok && g.r.Chance(5, 6) {
		return a
	}
	return aclx.Acct{Name: hx.Pick(g.r, userNames), Host: hx.Pick(g.r, userHosts)}
}
func (g *gen) newAcct() aclx.Acct {
	return aclx.Acct{Name: hx.Pick(g.r, userNames), Host: hx.Pick(g.r, userHosts)}
}
func (g *gen) role() aclx.Acct {
	if a, ok := g.existing(true); ok && g.r.Chance(5, 6) {
		return a
	}
	return aclx.Acct{Name: hx.Pick(g.r, roleNames), Host: "%"}
}

// grantee is an account or a role (privileges are granted to both).
func (g *gen) grantee() aclx.Acct {
	if g.r.Chance(1, 3) {
		return g.role()
	}
	return g.acct()
}

// session picks (user, address): mostly one that some existing account matches.
func (g *gen) session() (string, string) {
	if a, ok := g.existing(false); ok && g.r.Chance(7, 8) {
		switch a.Host {
		case "localhost":
			return a.Name, hx.Pick(g.r, []string{"localhost", "localhost", "127.0.0.1", "::1"})
		case "%":
			return a.Name, hx.Pick(g.r, sessAddrs)
		case "10.0.%":
			return a.Name, "10.0.0.5"
		case "h%":
			return a.Name, "hx1"
		}
	}
	return hx.Pick(g.r, userNames), hx.Pick(g.r, sessAddrs)
}

func (g *gen) privs(level string, wide bool) []aclx.PPriv {
	if g.r.Chance(1, 8) {
		return []aclx.PPriv{{Type: 0}}
	}
	pool := tblLevel
	switch level {
	case "global":
		pool = append(append([]int{}, dbLevel...), globalOnly...)
	case "db":
		pool = dbLevel
	case "routine":
		pool = []int{14, 2, 16}
	}
	if wide && g.r.Chance(1, 6) { // privileges that are not legal at this level
		pool = append(append([]int{}, dbLevel...), globalOnly...)
	}
	n := 1 + g.r.Intn(3)
	var out []aclx.PPriv
	for i := 0; i < n; i++ {
		if g.r.Chance(1, 12) {
			out = append(out, aclx.PPriv{Type: 32})
			continue
		}
		if level == "global" && g.r.Chance(1, 8) {
			out = append(out, aclx.PPriv{Type: 33, Dyn: hx.Pick(g.r, dynNames)})
			continue
		}
		// weight the privileges the probes look at
		if g.r.Chance(1, 2) {
			cand := []int{25, 18, 31, 10, 1, 17, 11, 3, 14, 20, 25, 18}
			p := hx.Pick(g.r, cand)
			ok := false
			for _, q := range pool {
				if q == p {
					ok = true
				}
			}
			if ok {
				out = append(out, aclx.PPriv{Type: p})
				continue
			}
		}
		out = append(out, aclx.PPriv{Type: hx.Pick(g.r, pool)})
	}
	return out
}

func (g *gen) grantOrRevoke(kind string, wide bool) aclx.Stmt {
	s := aclx.Stmt{Kind: kind}
	level := "table"
	switch g.r.Intn(10) {
	case 0, 1:
		s.LvDb, s.LvTbl, level = "*", "*", "global"
	case 2, 3, 4:
		s.LvDb, s.LvTbl, level = hx.Pick(g.r, dbNames), "*", "db"
	case 5:
		if wide {
			s.LvDb, s.LvTbl, level = "", "*", "db"
		} else {
			s.LvDb, s.LvTbl, level = "d", "*", "db"
		}
	case 6:
		s.LvDb, s.LvTbl, s.ObjTyp, level = "d", hx.Pick(g.r, []string{"p", "p", "P"}), 3, "routine"
	default:
		s.LvDb, s.LvTbl = hx.Pick(g.r, dbNames), hx.Pick(g.r, tblNames)
		if wide && g.r.Chance(1, 6) {
			s.LvDb = ""
		}
	}
	s.Privs = g.privs(level, wide)
	s.Users = []aclx.Acct{g.grantee()}
	if g.r.Chance(1, 6) {
		s.Users = append(s.Users, g.grantee())
	}
	if kind == "grant" && level != "routine" {
		s.WGO = g.r.Chance(1, 6)
	}
	return s
}

func (g *gen) admin(wide bool) aclx.Stmt {
	switch x := g.r.Intn(100); {
	case x < 7:
		s := aclx.Stmt{Kind: "cu", Flag: g.r.Chance(1, 4), Users: []aclx.Acct{g.newAcct()}}
		if g.r.Chance(1, 5) {
			s.Users = append(s.Users, g.newAcct())
		}
		return s
	case x < 10:
		return aclx.Stmt{Kind: "cr", Flag: g.r.Chance(1, 4), Roles: []aclx.Acct{{Name: hx.Pick(g.r, roleNames), Host: "%"}}}
	case x < 14:
		return aclx.Stmt{Kind: "du", Flag: g.r.Chance(1, 3), Users: []aclx.Acct{g.acct()}}
	case x < 17:
		return aclx.Stmt{Kind: "dr", Flag: g.r.Chance(1, 3), Roles: []aclx.Acct{g.role()}}
	case x < 29:
		s := aclx.Stmt{Kind: "gr", Flag: g.r.Chance(1, 4), Roles: []aclx.Acct{g.role()}, Users: []aclx.Acct{g.grantee()}}
		if g.r.Chance(1, 5) {
			s.Roles = append(s.Roles, g.role())
		}
		return s
	case x < 33:
		return aclx.Stmt{Kind: "rr", Roles: []aclx.Acct{g.role()}, Users: []aclx.Acct{g.grantee()}}
	case x < 52:
		return g.grantOrRevoke("revoke", wide)
	default:
		return g.grantOrRevoke("grant", wide)
	}
}

var authTypes = []string{"IGNORE", "ALTER", "ALTER_ROUTINE", "ALTER_USER", "BINLOG", "CALL", "CREATE", "CREATE_ROLE", "CREATE_ROUTINE",
	"CREATE_TEMP", "CREATE_USER", "CREATE_VIEW", "DELETE", "DROP", "DROP_ROLE", "EVENT", "FILE", "FOREIGN_KEY", "GRANT_PRIVILEGE",
	"GRANT_PROXY", "GRANT_ROLE", "INDEX", "INSERT", "LOCK", "PROCESS", "RELOAD", "RENAME", "REPLACE", "REPLICATION", "REPLICATION_CLIENT",
	"REVOKE_ALL", "REVOKE_PRIVILEGE", "REVOKE_PROXY", "REVOKE_ROLE", "SELECT", "SHOW", "SHOW_CREATE_PROCEDURE", "SUPER", "TRIGGER", "UPDATE",
	"VISIBLE", "", "BOGUS"}
var targetTypes = []string{"IGNORE", "DB_IDENTS", "GLOBAL", "DB_TABLE_IDENTS", "DB_TABLE_IDENT", "DB_TABLE_COLUMN_IDENT", "TODO", "", "BOGUS"}
var synDbs = []string{"d", "d", "e", "D", "", "information_schema", "INFORMATION_SCHEMA", "mysql", "d/rev", "nodb"}
var synTbls = []string{"t", "t", "s", "T", "zz", ""}

func (g *gen) synthetic() vast.AuthInformation {
	a := vast.AuthInformation{AuthType: hx.Pick(g.r, authTypes), TargetType: hx.Pick(g.r, targetTypes)}
	if g.r.Chance(2, 3) { // the combinations the parser really emits are centred on these
		a.AuthType = hx.Pick(g.r, []string{"SELECT", "INSERT", "UPDATE", "DELETE", "CREATE", "DROP", "ALTER", "INDEX", "LOCK", "REPLACE", "SHOW", "VISIBLE", "CALL", "RENAME", "ALTER_USER", "SHOW_CREATE_PROCEDURE", "TRIGGER", "CREATE_VIEW"})
		a.TargetType = hx.Pick(g.r, []string{"DB_IDENTS", "GLOBAL", "DB_TABLE_IDENTS", "DB_TABLE_IDENT", "DB_TABLE_COLUMN_IDENT", "IGNORE", "TODO"})
	}
	n := 0
	switch a.TargetType {
	case "DB_IDENTS":
		n = 1 + g.r.Intn(2)
		for i := 0; i < n; i++ {
			a.TargetNames = append(a.TargetNames, hx.Pick(g.r, synDbs))
		}
	case "DB_TABLE_IDENTS":
		n = 1 + g.r.Intn(2)
		for i := 0; i < n; i++ {
			a.TargetNames = append(a.TargetNames, hx.Pick(g.r, synDbs), hx.Pick(g.r, synTbls))
		}
	case "DB_TABLE_IDENT":
		a.TargetNames = []string{hx.Pick(g.r, synDbs), hx.Pick(g.r, synTbls)}
	case "DB_TABLE_COLUMN_IDENT":
		a.TargetNames = []string{hx.Pick(g.r, synDbs), hx.Pick(g.r, synTbls), "a"}
	}
	switch a.AuthType {
	case "CALL":
		a.TargetNames = []string{hx.Pick(g.r, synDbs), hx.Pick(g.r, []string{"p", "P", "q"}), hx.Pick(g.r, []string{"0", "1", "x", "0"})}
		if g.r.Chance(1, 10) {
			a.TargetNames = a.TargetNames[:2]
		}
	case "RENAME":
		a.TargetNames = []string{hx.Pick(g.r, synDbs), hx.Pick(g.r, synTbls), hx.Pick(g.r, synDbs), "zz"}
		if g.r.Chance(1, 10) {
			a.TargetNames = a.TargetNames[:3]
		}
	case "ALTER_USER":
		a.TargetNames = append([]string{hx.Pick(g.r, userNames)}, a.TargetNames...)
	case "SHOW_CREATE_PROCEDURE":
		if len(a.TargetNames) == 0 {
			a.TargetNames = []string{hx.Pick(g.r, synDbs)}
		}
	}
	if g.r.Chance(1, 25) && len(a.TargetNames) > 0 { // malformed arity
		a.TargetNames = a.TargetNames[:len(a.TargetNames)-1]
	}
	return a
}

// ---------------------------------------------------------------------------------------------

type stepRec struct {
	payload string
	obs     string
}

type history struct {
	env   *aclx.Env
	ref   *refState
	steps []stepRec
	out   *hx.Out
	notes []string // oracle failures: tag \t desc
	n     int
	feat  map[string]bool

	accessDump string // cache of the access-control dump ("" = stale)
	dataDump   string
}

func newHistory(out *hx.Out) *history {
	return &history{env: aclx.NewEnv(true), ref: &refState{edges: map[[4]string]bool{}}, out: out, feat: map[string]bool{}}
}

func (h *history) dumps() (string, string) {
	if h.accessDump == "" {
		h.accessDump = aclx.DumpAccess(h.env.Db, true)
		h.dataDump = h.env.DumpData()
	}
	return h.accessDump, h.dataDump
}

func (h *history) record(user, addr, cur string, calls []aclx.Call, stmt aclx.Stmt, obs string) {
	var cs []string
	for _, c := range calls {
		if c.Kind == "han" {
			continue
		}
		cs = append(cs, c.Payload())
	}
	h.steps = append(h.steps, stepRec{
		payload: hx.List("s", hx.HexS(user), hx.HexS(addr), hx.HexS(cur), "("+strings.Join(cs, " ")+")", stmt.Payload()),
		obs:     obs,
	})
}

func refused(obs string) bool {
	return obs == "denied" || obs == "dbdenied" || obs == "tbldenied" || obs == "noaccount"
}

// sqlStep runs a statement through the engine as user@addr.
func (h *history) sqlStep(user, addr, cur string, stmt aclx.Stmt) string {
	mutating := stmt.Kind != "none" || !strings.HasPrefix(stmt.Text, "SELECT")
	var a0, d0 string
	if mutating && user != "root" {
		a0, d0 = h.dumps()
	}
	r := h.env.Run(h.env.Session(user, addr), cur, stmt.SQL())
	calls := append([]aclx.Call(nil), aclx.Log...)
	obs := aclx.Classify(r.Err, r.Panic)
	if r.Timeout {
		obs = "timeout"
	}
	h.record(user, addr, cur, calls, stmt, obs)
	h.out.Stat("step:" + stmt.Kind + ":" + obs)
	if mutating && user != "root" && refused(obs) {
		h.accessDump = ""
		a1, d1 := h.dumps()
		if a0 != a1 || d0 != d1 {
			h.notes = append(h.notes, fmt.Sprintf("-\tstatement %q by %s@%s was refused (%s) but changed the state", stmt.SQL(), user, addr, obs))
		}
	} else if mutating {
		h.accessDump = ""
	}
	return obs
}

func (h *history) adminStep(g *gen, wide bool) {
	stmt := g.admin(wide)
	user, addr := "root", "localhost"
	if g.r.Chance(1, 6) { // an ordinary account tries it: exercises the CheckAuth methods
		user, addr = g.session()
	}
	cur := "d"
	if wide && g.r.Chance(1, 10) {
		cur = hx.Pick(g.r, []string{"e", ""})
	}
	obs := h.sqlStep(user, addr, cur, stmt)
	h.feat[stmt.Kind] = true
	if obs == "ok" {
		h.ref.apply(stmt, cur)
	} else if strings.HasPrefix(obs, "err:") {
		h.ref.failed = true
	}
}

func (h *history) probeStep(g *gen) {
	p := hx.Pick(g.r, probes)
	user, addr := g.session()
	db, tbl := hx.Pick(g.r, []string{"d", "d", "e"}), "t"
	if db == "d" && g.r.Chance(1, 3) {
		tbl = "s"
	}
	if p.class == "droptable" || p.class == "alter" || p.class == "index" {
		db, tbl = "d", "s"
	}
	if p.class == "call" {
		db = "d"
	}
	cur := "d"
	qual := db + "."
	if g.r.Chance(1, 4) && p.class != "use" && p.class != "call" { // unqualified name, resolved through the current database
		cur, qual = db, ""
	}
	h.probeExec(p, user, addr, db, tbl, cur, qual)
}

// probeExec runs one SQL probe as user@addr, undoes its effect when it was allowed and evaluates oracle (2).
func (h *history) probeExec(p probe, user, addr, db, tbl, cur, qual string) string {
	h.n++
	text := p.sql(qual, tbl, h.n)
	if p.class == "use" {
		text = "USE " + db
	}
	obs := h.sqlStep(user, addr, cur, aclx.Stmt{Kind: "none", Text: text})
	h.feat["probe"] = true
	h.out.Stat("probe:" + p.class + ":" + obs)
	if obs == "ok" && p.class == "locktables" {
		h.env.Run(h.env.Session(user, addr), cur, "UNLOCK TABLES") // same session; not a step of the history
		aclx.Log = aclx.Log[:0]
	} else if obs == "ok" && p.undo != nil {
		for _, q := range p.undo(db+".", tbl) {
			if r := h.env.Run(h.env.Root, "d", q); r.Class() != "ok" {
				panic(fmt.Sprintf("undo %q failed: %v %s", q, r.Err, r.Panic))
			}
		}
		if p.class == "droptable" {
			h.env.Run(h.env.Root, "d", "INSERT INTO d.s (a) VALUES (1)")
		}
		h.accessDump = ""
	}
	// oracle (2): only for sessions that name an account exactly
	host := addr
	if host == "127.0.0.1" || host == "::1" {
		host = "localhost"
	}
	if a := h.ref.find(user, host); a != nil && obs != "noaccount" {
		want := p.allowed(h.ref.effective(a), db, tbl)
		if want != (obs == "ok") {
			h.notes = append(h.notes, fmt.Sprintf("%s\t%s by %s@%s: engine says %s, the grants made so far say allowed=%v", h.tag(), text, user, addr, obs, want))
		}
		if want {
			h.feat["probe-allowed"] = true
			if p.level == "multi" {
				h.feat["multi-allowed"] = true
			}
		}
	}
	return obs
}

// tag names the known-defect region the history is in (decided on the history, not on the failure).
func (h *history) tag() string {
	switch {
	case h.ref.region:
		return "db_revoke_drops_lower_grants"
	case h.ref.failed:
		return "failed_statement_partial_effect"
	}
	return "-"
}

func (h *history) syntheticStep(g *gen) {
	auth := g.synthetic()
	user, addr := g.session()
	if g.r.Chance(1, 12) {
		user = "root"
		addr = "localhost"
	}
	cur := hx.Pick(g.r, []string{"d", "d", "e", ""})
	h.syntheticExec(auth, user, addr, cur)
}

// syntheticExec calls the real handler's HandleAuth directly for the session user@addr.
func (h *history) syntheticExec(auth vast.AuthInformation, user, addr, cur string) {
	sess := h.env.Session(user, addr)
	sess.SetCurrentDatabase(cur)
	var err error
	names := append([]string(nil), auth.TargetNames...)
	tt := auth.TargetType
	p := hx.Safe(func() { err = h.env.Handler().HandleAuth(sess, nil, auth) })
	obs := aclx.Classify(err, p)
	aclx.Log = aclx.Log[:0]
	h.record(user, addr, cur, []aclx.Call{{Kind: "ha", Auth: auth.AuthType, Tgt: tt, Names: names}}, aclx.Stmt{Kind: "none"}, obs)
	h.out.Stat("synthetic:" + obs)
	h.feat["synthetic"] = true
}

func (h *history) finish() {
	var ps, os []string
	for _, s := range h.steps {
		ps = append(ps, s.payload)
		os = append(os, s.obs)
	}
	nontrivial := h.feat["grant"] && h.feat["probe-allowed"]
	id := h.out.Case("(hist "+strings.Join(ps, " ")+")", strings.Join(os, " "), nontrivial)
	for _, n := range h.notes {
		parts := strings.SplitN(n, "\t", 2)
		h.out.OracleFail(id, parts[0], parts[1])
	}
	if h.ref.region {
		h.out.Stat("history:in-region-db-revoke")
	}
	if h.ref.failed {
		h.out.Stat("history:in-region-failed-statement")
	}
	h.out.Stat("history")
}

// corpus: witnesses and regressions, always first.
func corpus(out *hx.Out) {
	u := aclx.Acct{Name: "u1", Host: "localhost"}
	sel := []aclx.PPriv{{Type: 25}}
	ins := []aclx.PPriv{{Type: 18}}
	// F-C39-a: a database-level REVOKE wipes the table-level grant
	for _, rev := range [][]aclx.PPriv{ins, {{Type: 0}}} {
		h := newHistory(out)
		for _, s := range []aclx.Stmt{
			{Kind: "cu", Users: []aclx.Acct{u}},
			{Kind: "grant", LvDb: "d", LvTbl: "t", Privs: sel, Users: []aclx.Acct{u}},
		} {
			if h.sqlStep("root", "localhost", "d", s) == "ok" {
				h.ref.apply(s, "d")
			}
		}
		h.probeFixed("u1", "localhost", "d", "t", probes[0])
		s := aclx.Stmt{Kind: "revoke", LvDb: "d", LvTbl: "*", Privs: rev, Users: []aclx.Acct{u}}
		if h.sqlStep("root", "localhost", "d", s) == "ok" {
			h.ref.apply(s, "d")
		}
		h.probeFixed("u1", "localhost", "d", "t", probes[0])
		h.feat["grant"] = true
		h.finish()
	}
	// F-C39-b: a GRANT that fails on its second privilege keeps the first
	{
		h := newHistory(out)
		for _, s := range []aclx.Stmt{
			{Kind: "cu", Users: []aclx.Acct{u}},
			{Kind: "grant", LvDb: "d", LvTbl: "*", Privs: []aclx.PPriv{{Type: 25}, {Type: 29}}, Users: []aclx.Acct{u}},
		} {
			if obs := h.sqlStep("root", "localhost", "d", s); obs == "ok" {
				h.ref.apply(s, "d")
			} else if strings.HasPrefix(obs, "err:") {
				h.ref.failed = true
			}
		}
		h.probeFixed("u1", "localhost", "d", "t", probes[0])
		h.feat["grant"] = true
		h.finish()
	}
	// roles, grant option, drop
	{
		h := newHistory(out)
		r1 := aclx.Acct{Name: "r1", Host: "%"}
		u2 := aclx.Acct{Name: "u2", Host: "localhost"}
		for _, s := range []aclx.Stmt{
			{Kind: "cu", Users: []aclx.Acct{u, u2}},
			{Kind: "cr", Roles: []aclx.Acct{r1}},
			{Kind: "grant", LvDb: "d", LvTbl: "*", Privs: []aclx.PPriv{{Type: 31}, {Type: 25}}, Users: []aclx.Acct{r1}},
			{Kind: "gr", Roles: []aclx.Acct{r1}, Users: []aclx.Acct{u}},
			{Kind: "grant", LvDb: "*", LvTbl: "*", Privs: []aclx.PPriv{{Type: 18}}, Users: []aclx.Acct{u2}, WGO: true},
		} {
			if h.sqlStep("root", "localhost", "d", s) == "ok" {
				h.ref.apply(s, "d")
			}
		}
		h.probeFixed("u1", "localhost", "d", "t", probes[2])
		h.probeFixed("u1", "localhost", "e", "t", probes[0])
		h.probeFixed("u2", "localhost", "d", "t", probes[1])
		g2 := aclx.Stmt{Kind: "grant", LvDb: "*", LvTbl: "*", Privs: []aclx.PPriv{{Type: 18}}, Users: []aclx.Acct{u}}
		if h.sqlStep("u2", "localhost", "d", g2) == "ok" {
			h.ref.apply(g2, "d")
		}
		g3 := aclx.Stmt{Kind: "grant", LvDb: "*", LvTbl: "*", Privs: []aclx.PPriv{{Type: 25}}, Users: []aclx.Acct{u}}
		if h.sqlStep("u2", "localhost", "d", g3) == "ok" {
			h.ref.apply(g3, "d")
		}
		s := aclx.Stmt{Kind: "dr", Roles: []aclx.Acct{r1}}
		if h.sqlStep("root", "localhost", "d", s) == "ok" {
			h.ref.apply(s, "d")
		}
		h.probeFixed("u1", "localhost", "d", "t", probes[2])
		h.probeFixed("u1", "localhost", "d", "t", probes[1])
		h.feat["grant"] = true
		h.finish()
	}
}

func (h *history) probeFixed(user, addr, db, tbl string, p probe) {
	h.n++
	text := p.sql(db+".", tbl, h.n)
	obs := h.sqlStep(user, addr, "d", aclx.Stmt{Kind: "none", Text: text})
	if a := h.ref.find(user, addr); a != nil {
		want := p.allowed(h.ref.effective(a), db, tbl)
		if want != (obs == "ok") {
			h.notes = append(h.notes, fmt.Sprintf("%s\t%s by %s@%s: engine says %s, the grants made so far say allowed=%v", h.tag(), text, user, addr, obs, want))
		}
		if want {
			h.feat["probe-allowed"] = true
		}
	}
}

// ---------------------------------------------------------------------------------------------
// Split-level stream: statements that require SEVERAL privileges, held at DIFFERENT levels.
//
// Every single-privilege statement is decided by one lookup per level, so the way the per-privilege
// decisions are combined ("each required privilege at some level" — Gms.C39.allow_iff,
// multi_priv_decomposes) is only visible to statements that need two or more privileges: REPLACE
// (INSERT+DELETE), LOCK TABLES (SELECT+LOCK TABLES), RENAME TABLE (ALTER+DROP on the source, CREATE+INSERT
// on the target), GRANT/REVOKE by an account that is not a super user (the named privileges + GRANT
// OPTION). A history of this stream takes one such requirement and places each required privilege
// independently at the global, database or table level, on the account itself or on one of two roles
// granted to it (controls: one privilege left out; everything at one level), then asks the question through
// the SQL statement, through direct HandleAuth calls, after an exact-level REVOKE of one of the
// privileges and after re-granting it at another level.

type placement struct {
	plan  int    // plan.PrivilegeType
	level string // "global" | "db" | "table"
	via   int    // 0 the account itself, 1/2 role r1/r2
	db    string
	tbl   string
}

// tableGrantable: plan privileges that are legal at table level (the others are placed at global|db level only).
var tableGrantable = map[int]bool{1: true, 3: true, 10: true, 11: true, 16: true, 17: true, 18: true, 25: true, 31: true}

func (pl placement) stmt(kind string, u aclx.Acct, roles []aclx.Acct) aclx.Stmt {
	s := aclx.Stmt{Kind: kind, Privs: []aclx.PPriv{{Type: pl.plan}}, Users: []aclx.Acct{u}}
	if pl.via > 0 {
		s.Users = []aclx.Acct{roles[pl.via-1]}
	}
	switch pl.level {
	case "global":
		s.LvDb, s.LvTbl = "*", "*"
	case "db":
		s.LvDb, s.LvTbl = pl.db, "*"
	default:
		s.LvDb, s.LvTbl = pl.db, pl.tbl
	}
	return s
}

func (h *history) rootStep(s aclx.Stmt) {
	obs := h.sqlStep("root", "localhost", "d", s)
	h.feat[s.Kind] = true
	if obs == "ok" {
		h.ref.apply(s, "d")
	} else if strings.HasPrefix(obs, "err:") {
		h.ref.failed = true
	}
}

// sql privilege number -> plan privilege number, for the privileges the multi-privilege statements need
var sqlToPlan = map[int]int{0: 25, 1: 18, 2: 31, 3: 10, 4: 3, 5: 11, 10: 16, 12: 17, 13: 1, 17: 19}

func splitHistory(out *hx.Out, r *hx.Rand) {
	h := newHistory(out)
	g := &gen{r: r, ref: h.ref}
	u := aclx.Acct{Name: "u1", Host: hx.Pick(r, []string{"localhost", "localhost", "%"})}
	u2 := aclx.Acct{Name: "u2", Host: "localhost"}
	roles := []aclx.Acct{{Name: "r1", Host: "%"}, {Name: "r2", Host: "%"}}
	addr := "localhost"
	if u.Host == "%" {
		addr = hx.Pick(r, sessAddrs)
	}
	h.rootStep(aclx.Stmt{Kind: "cu", Users: []aclx.Acct{u, u2}})
	h.rootStep(aclx.Stmt{Kind: "cr", Roles: roles})
	h.rootStep(aclx.Stmt{Kind: "gr", Roles: []aclx.Acct{roles[0]}, Users: []aclx.Acct{u}})
	h.rootStep(aclx.Stmt{Kind: "gr", Roles: []aclx.Acct{roles[1]}, Users: []aclx.Acct{u}})

	// the requirement
	scen := hx.Pick(r, []string{"replace", "replace", "locktables", "rename", "grant", "grant", "revoke"})
	db, tbl := "d", hx.Pick(r, []string{"t", "s"})
	if scen == "rename" {
		tbl = "s"
	}
	var needs []need
	var adm aclx.Stmt // the GRANT/REVOKE the account tries (scenarios grant, revoke)
	switch scen {
	case "grant", "revoke":
		adm = aclx.Stmt{Kind: scen, LvDb: db, LvTbl: hx.Pick(r, []string{"*", tbl}), Users: []aclx.Acct{u2}}
		pool := []int{25, 18, 31, 10}
		k := 1 + r.Intn(2)
		first := r.Intn(len(pool))
		for j := 0; j < k; j++ {
			i := (first + j) % len(pool)
			adm.Privs = append(adm.Privs, aclx.PPriv{Type: pool[i]})
			needs = append(needs, need{aclx.PlanToSQLPriv[pool[i]], db, tbl})
		}
		needs = append(needs, need{10, db, tbl}) // GRANT OPTION
		if adm.LvTbl == "*" {
			for i := range needs {
				needs[i].tbl = ""
			}
		}
	default:
		needs = multiNeeds[scen](db, tbl)
	}
	// placements: each required privilege at its own level and holder
	mode := r.Intn(10) // 0: one privilege missing, 1: all at one level on the account, else independent
	skip := -1
	if mode == 0 {
		skip = r.Intn(len(needs))
	}
	oneLevel := hx.Pick(r, []string{"global", "db", "table"})
	var placed []placement
	for i, n := range needs {
		if i == skip {
			continue
		}
		pl := placement{plan: sqlToPlan[n.priv], db: n.db, tbl: n.tbl, via: r.Intn(3)}
		levels := []string{"global", "db"}
		if n.tbl != "" && tableGrantable[pl.plan] {
			levels = append(levels, "table", "table")
		}
		pl.level = hx.Pick(r, levels)
		if mode == 1 {
			pl.via = 0
			pl.level = oneLevel
			if oneLevel == "table" && !(n.tbl != "" && tableGrantable[pl.plan]) {
				pl.level = "db"
			}
		}
		if r.Chance(1, 8) { // the level is named in another letter case
			pl.db = strings.ToUpper(pl.db)
		}
		placed = append(placed, pl)
		h.rootStep(pl.stmt("grant", u, roles))
	}
	distinct := map[string]bool{}
	for _, pl := range placed {
		distinct[fmt.Sprintf("%s/%d", pl.level, pl.via)] = true
	}
	if len(distinct) > 1 && skip < 0 {
		h.out.Stat("split:privileges-held-at-different-levels")
	}
	h.out.Stat("split:" + scen)

	var mp probe
	for _, p := range multiProbes {
		if p.class == scen {
			mp = p
		}
	}
	ask := func() {
		cur, qual := "d", db+"."
		if r.Chance(1, 4) {
			qual = ""
		}
		switch scen {
		case "grant", "revoke":
			obs := h.sqlStep(u.Name, addr, "d", adm)
			h.feat[adm.Kind] = true
			h.out.Stat("split:" + scen + ":" + obs)
			if obs == "ok" {
				h.ref.apply(adm, "d")
				h.feat["multi-allowed"] = true
			} else if strings.HasPrefix(obs, "err:") {
				h.ref.failed = true
			}
		default:
			h.probeExec(mp, u.Name, addr, db, tbl, cur, qual)
			// the same question asked of the handler directly, in the forms the parser emits
			auth := vast.AuthInformation{AuthType: map[string]string{"replace": "REPLACE", "locktables": "LOCK", "rename": "RENAME"}[scen]}
			switch scen {
			case "replace":
				auth.TargetType, auth.TargetNames = hx.Pick(r, []string{"DB_TABLE_IDENT", "DB_TABLE_IDENTS"}), []string{db, tbl}
			case "locktables":
				auth.TargetType, auth.TargetNames = "DB_TABLE_IDENTS", []string{db, tbl}
				if r.Chance(1, 2) {
					auth.TargetNames = append(auth.TargetNames, "d", "t")
				}
			case "rename":
				auth.TargetType, auth.TargetNames = "IGNORE", []string{db, tbl, db, "zr"}
			}
			h.syntheticExec(auth, u.Name, addr, "d")
		}
	}
	ask()
	// neighbours: the single-privilege statements on the same subject, another multi-privilege statement
	for k := r.Intn(3); k > 0; k-- {
		h.probeExec(hx.Pick(r, probes[:4]), u.Name, addr, db, tbl, "d", db+".")
	}
	if r.Chance(1, 2) {
		op := hx.Pick(r, multiProbes)
		t2 := tbl
		if op.class == "rename" {
			t2 = "s"
		}
		h.probeExec(op, u.Name, addr, db, t2, "d", db+".")
	}
	// take one of the privileges away again at exactly the level it was granted (global and table
	// level only: a database-level REVOKE is the region of finding db_revoke_drops_lower_grants), ask again,
	// then give it back at another level and ask a third time
	var cand []int
	for i, pl := range placed {
		if pl.level != "db" {
			cand = append(cand, i)
		}
	}
	if len(cand) > 0 && r.Chance(2, 3) {
		i := hx.Pick(r, cand)
		pl := placed[i]
		h.rootStep(pl.stmt("revoke", u, roles))
		ask()
		if pl.level == "global" {
			pl.level = "db"
		} else {
			pl.level = "global"
		}
		pl.via = r.Intn(3)
		h.rootStep(pl.stmt("grant", u, roles))
		ask()
	}
	// a tail of ordinary random steps (1 history in 4)
	if r.Chance(1, 4) {
		for k := 3 + r.Intn(8); k > 0; k-- {
			switch x := r.Intn(10); {
			case x < 4:
				h.adminStep(g, false)
			case x < 7:
				h.probeStep(g)
			default:
				ask()
			}
		}
	}
	if h.feat["multi-allowed"] {
		h.out.Stat("split:history-with-allowed-multi-privilege-statement")
	}
	h.finish()
}

func run(a hx.RunArgs) error {
	out := hx.NewOut(a.OutDir)
	defer out.Close()
	out.Rule = "one case = one history on a fresh engine with accounts enabled: 10-40 steps mixing CREATE/DROP USER/ROLE, GRANT/REVOKE at global/database/table/routine level " +
		"(ALL, single privileges, dynamic privileges, illegal-at-level privileges, WITH GRANT OPTION, names in mixed case, unqualified levels), GRANT/REVOKE role, " +
		"run by root or by ordinary accounts, with probes by sessions user@address (exact, loopback, pattern and unknown hosts): SQL statements of 11 privilege classes and direct HandleAuth calls over " +
		"all AuthType x TargetType combinations incl. malformed ones; before them a split-level stream: one multi-privilege requirement (REPLACE, LOCK TABLES, RENAME TABLE, " +
		"GRANT/REVOKE by an ordinary account) whose privileges are granted one by one at independently chosen levels (global/database/table) and holders (account, role r1, role r2), " +
		"asked through the SQL statement and through HandleAuth, again after an exact-level REVOKE and after re-granting at another level; " +
		"a history is non-trivial when it contains a GRANT and a probe the grants allow"
	corpus(out)
	nHist, maxSteps := 500, 30
	if a.Thorough {
		nHist, maxSteps = 40000, 40
	}
	// split-level stream (its own random source: the histories below are the same as before it existed)
	nSplit := 150
	if a.Thorough {
		nSplit = 6000
	}
	rs := hx.NewRand(aclx.Scramble(a.Seed ^ 0x5b1e7c39))
	for i := 0; i < nSplit; i++ {
		splitHistory(out, rs.Fork())
	}
	r := hx.NewRand(aclx.Scramble(a.Seed))
	for i := 0; i < nHist; i++ {
		h := newHistory(out)
		g := &gen{r: r.Fork(), ref: h.ref}
		wide := g.r.Chance(1, 2)
		n := 10 + g.r.Intn(maxSteps-9)
		// a history starts with a few accounts so that grants have someone to land on
		for k := 0; k < 4; k++ {
			s := aclx.Stmt{Kind: "cu", Users: []aclx.Acct{g.newAcct()}}
			if k >= 2 {
				s = aclx.Stmt{Kind: "cr", Roles: []aclx.Acct{{Name: roleNames[k-2], Host: "%"}}}
			}
			if h.sqlStep("root", "localhost", "d", s) == "ok" {
				h.ref.apply(s, "d")
			}
		}
		for k := 0; k < n; k++ {
			switch x := g.r.Intn(100); {
			case x < 42:
				h.adminStep(g, wide)
			case x < 80:
				h.probeStep(g)
			default:
				h.syntheticStep(g)
			}
		}
		h.finish()
	}
	return nil
}

// ---------------------------------------------------------------------------------------------
// Facts.

func constNames(src *hx.Src, typeName string) ([]string, error) {
	var names []string
	for _, d := range src.File.Decls {
		gd, ok := d.(*ast.GenDecl)
		if !ok {
			continue
		}
		hit := false
		for i, sp := range gd.Specs {
			vs, ok := sp.(*ast.ValueSpec)
			if !ok {
				continue
			}
			if i == 0 {
				if id, ok := vs.Type.(*ast.Ident); ok && id.Name == typeName && len(vs.Values) == 1 && src.Text(vs.Values[0]) == "iota" {
					hit = true
				}
			}
			if hit {
				if i > 0 && (vs.Type != nil || len(vs.Values) > 0) {
					return nil, fmt.Errorf("%s: const block of %s is not a plain iota enumeration", src.Path, typeName)
				}
				for _, n := range vs.Names {
					names = append(names, n.Name)
				}
			}
		}
		if hit {
			return names, nil
		}
	}
	return nil, fmt.Errorf("%s: iota enumeration of %s not found", src.Path, typeName)
}

func selName(e ast.Expr) string {
	switch t := e.(type) {
	case *ast.SelectorExpr:
		return t.Sel.Name
	case *ast.Ident:
		return t.Name
	case *ast.BasicLit:
		return strings.Trim(t.Value, "\"")
	}
	return "?"
}

// privArgs collects the sql.PrivilegeType_* arguments of every call of a method named `method` in fd.
func privArgs(fd *ast.FuncDecl, method string, skip int) [][]string {
	var res [][]string
	ast.Inspect(fd.Body, func(n ast.Node) bool {
		ce, ok := n.(*ast.CallExpr)
		if !ok {
			return true
		}
		if se, ok := ce.Fun.(*ast.SelectorExpr); ok && se.Sel.Name == method {
			var ps []string
			for _, a := range ce.Args[skip:] {
				ps = append(ps, selName(a))
			}
			res = append(res, ps)
		}
		return true
	})
	return res
}

// switchTable renders `switch priv.Type { case X: recv.Method(args…, sql.P) … }` as
// (case label, method, privilege) triples; other case bodies are rendered as (label, "-", "-").
func switchTable(src *hx.Src, fd *ast.FuncDecl, tag string) ([][3]string, error) {
	var sw *ast.SwitchStmt
	ast.Inspect(fd.Body, func(n ast.Node) bool {
		if s, ok := n.(*ast.SwitchStmt); ok && sw == nil && s.Tag != nil && src.Text(s.Tag) == tag {
			sw = s
		}
		return true
	})
	if sw == nil {
		return nil, fmt.Errorf("%s: switch %s not found in %s", src.Path, tag, fd.Name.Name)
	}
	var rows [][3]string
	for _, st := range sw.Body.List {
		cc := st.(*ast.CaseClause)
		label := "default"
		if len(cc.List) > 0 {
			var ls []string
			for _, e := range cc.List {
				ls = append(ls, selName(e))
			}
			label = strings.Join(ls, "|")
		}
		row := [3]string{label, "-", "-"}
		if len(cc.Body) == 1 {
			if es, ok := cc.Body[0].(*ast.ExprStmt); ok {
				if ce, ok := es.X.(*ast.CallExpr); ok {
					if se, ok := ce.Fun.(*ast.SelectorExpr); ok && len(ce.Args) > 0 {
						row = [3]string{label, se.Sel.Name, selName(ce.Args[len(ce.Args)-1])}
					}
				}
			}
			if as, ok := cc.Body[0].(*ast.AssignStmt); ok && len(as.Lhs) == 1 && len(as.Rhs) == 1 {
				if ce, ok := as.Rhs[0].(*ast.CallExpr); ok && src.Text(ce.Fun) == "append" && len(ce.Args) == 2 {
					row = [3]string{label, "append", selName(ce.Args[1])}
				}
				if cl, ok := as.Rhs[0].(*ast.CompositeLit); ok && src.Text(as.Lhs[0]) == "privilegeTypes" {
					var ps []string
					for _, e := range cl.Elts {
						ps = append(ps, selName(e))
					}
					row = [3]string{label, "privilegeTypes", strings.Join(ps, ",")}
				}
			}
		}
		rows = append(rows, row)
	}
	return rows, nil
}

func leanTriples(name string, rows [][3]string) string {
	var b strings.Builder
	fmt.Fprintf(&b, "def %s : List (String × String × String) := [\n", name)
	for i, r := range rows {
		sep := ","
		if i == len(rows)-1 {
			sep = ""
		}
		fmt.Fprintf(&b, "  (%s, %s, %s)%s\n", hx.LeanString(r[0]), hx.LeanString(r[1]), hx.LeanString(r[2]), sep)
	}
	b.WriteString("]\n")
	return b.String()
}

func indexOf(names []string, n string) int {
	for i, x := range names {
		if x == n {
			return i
		}
	}
	return -1
}

// privTable translates a `switch priv.Type` table into numbers: the cases that call one and the same
// method with a privilege constant become (plan privilege, sql privilege) pairs; all other case labels
// are listed as specials (plan privilege number, 99 for `default`).
func privTable(lf *hx.LeanFile, name string, rows [][3]string, planNames, sqlNames []string) error {
	method := ""
	var pairs, specials []string
	for _, r := range rows {
		pi := indexOf(planNames, r[0])
		if r[0] == "default" {
			pi = 99
		}
		if pi < 0 {
			return fmt.Errorf("%s: unknown case label %s", name, r[0])
		}
		if r[1] == "-" {
			specials = append(specials, fmt.Sprint(pi))
			continue
		}
		if method == "" {
			method = r[1]
		}
		si := indexOf(sqlNames, r[2])
		if r[1] != method || si < 0 {
			return fmt.Errorf("%s: case %s calls %s(%s), expected %s(<privilege constant>)", name, r[0], r[1], r[2], method)
		}
		pairs = append(pairs, fmt.Sprintf("(%d, %d)", pi, si))
	}
	lf.DefString(name+"Method", method)
	lf.Raw(fmt.Sprintf("def %sCases : List (Nat × Nat) := [%s]\n", name, strings.Join(pairs, ", ")))
	lf.Raw(fmt.Sprintf("def %sSpecials : List Nat := [%s]\n", name, strings.Join(specials, ", ")))
	return nil
}

func privIdxList(lf *hx.LeanFile, name string, consts, sqlNames []string) error {
	var out []uint64
	for _, c := range consts {
		i := indexOf(sqlNames, c)
		if i < 0 {
			return fmt.Errorf("%s: unknown privilege constant %s", name, c)
		}
		out = append(out, uint64(i))
	}
	lf.DefNatList(name, out)
	return nil
}

func extract(a hx.ExtractArgs) error {
	lf := hx.NewLeanFile("Gms.Generated.C39", "sql/privileges.go", "sql/plan/grant_data.go", "sql/plan/grant.go", "sql/plan/revoke.go",
		"sql/planbuilder/auth_default.go", "sql/mysql_db/mysql_db.go", "sql/mysql_db/privilege_set.go")
	priv, err := hx.ParseSrc(a.Repo, "sql/privileges.go")
	if err != nil {
		return err
	}
	names, err := constNames(priv, "PrivilegeType")
	if err != nil {
		return err
	}
	lf.DefStringList("sqlPrivNames", names)
	// run-time cross-check of the enumeration against the compiled constants
	if int(sql.PrivilegeType_DropRole) != len(names)-1 || int(sql.PrivilegeType_Super) != 15 || int(plan.PrivilegeType_Dynamic) != 33 {
		lf.Comment("run-time constants disagree with the source enumeration")
		lf.DefBool("enumsAgreeAtRuntime", false)
	} else {
		lf.DefBool("enumsAgreeAtRuntime", true)
	}
	gd, err := hx.ParseSrc(a.Repo, "sql/plan/grant_data.go")
	if err != nil {
		return err
	}
	pnames, err := constNames(gd, "PrivilegeType")
	if err != nil {
		return err
	}
	lf.DefStringList("planPrivNames", pnames)
	fd, err := gd.Func("", "convertToSqlPrivilegeType")
	if err != nil {
		return err
	}
	rows, err := switchTable(gd, fd, "priv.Type")
	if err != nil {
		return err
	}
	if err := privTable(lf, "convert", rows, pnames, names); err != nil {
		return err
	}
	fd, err = gd.Func("Privilege", "IsValidDynamic")
	if err != nil {
		return err
	}
	var dyn []string
	ast.Inspect(fd.Body, func(n ast.Node) bool {
		if cc, ok := n.(*ast.CaseClause); ok {
			for _, e := range cc.List {
				dyn = append(dyn, selName(e))
			}
		}
		return true
	})
	lf.DefStringList("validDynamicConsts", dyn)

	for _, f := range []struct{ file, recv string }{{"sql/plan/grant.go", "Grant"}, {"sql/plan/revoke.go", "Revoke"}} {
		src, err := hx.ParseSrc(a.Repo, f.file)
		if err != nil {
			return err
		}
		for _, m := range []string{"HandleGlobalPrivileges", "HandleDatabasePrivileges", "HandleTablePrivileges", "HandleRoutinePrivileges"} {
			fd, err := src.Func(f.recv, m)
			if err != nil {
				return err
			}
			rows, err := switchTable(src, fd, "priv.Type")
			if err != nil {
				return err
			}
			if err := privTable(lf, strings.ToLower(f.recv[:1])+f.recv[1:]+m, rows, pnames, names); err != nil {
				return err
			}
		}
		fd, err := src.Func(f.recv, "CheckAuth")
		if err != nil {
			return err
		}
		var lists [][]string
		for _, l := range privArgs(fd, "NewPrivilegedOperation", 1) {
			if len(l) > 3 {
				lists = append(lists, l)
			}
		}
		if len(lists) != 3 {
			return fmt.Errorf("%s.CheckAuth: expected 3 explicit ALL lists, found %d", f.recv, len(lists))
		}
		for i, lvl := range []string{"Global", "Db", "Tbl"} {
			if err := privIdxList(lf, strings.ToLower(f.recv)+"CheckAll"+lvl, lists[i], names); err != nil {
				return err
			}
		}
		if f.recv == "Grant" {
			for _, m := range []struct{ fn, method, out string }{
				{"grantAllGlobalPrivileges", "AddGlobalStatic", "grantAllGlobal"},
				{"grantAllDatabasePrivileges", "AddDatabase", "grantAllDb"},
				{"grantAllTablePrivileges", "AddTable", "grantAllTbl"}} {
				fd, err := src.Func("Grant", m.fn)
				if err != nil {
					return err
				}
				skip := map[string]int{"AddGlobalStatic": 0, "AddDatabase": 1, "AddTable": 2}[m.method]
				ls := privArgs(fd, m.method, skip)
				if len(ls) != 1 {
					return fmt.Errorf("%s: expected one %s call", m.fn, m.method)
				}
				if err := privIdxList(lf, m.out, ls[0], names); err != nil {
					return err
				}
			}
		}
	}

	ad, err := hx.ParseSrc(a.Repo, "sql/planbuilder/auth_default.go")
	if err != nil {
		return err
	}
	fd, err = ad.Func("defaultAuthorizationHandler", "HandleAuth")
	if err != nil {
		return err
	}
	rows, err = switchTable(ad, fd, "auth.AuthType")
	if err != nil {
		return err
	}
	{
		var simple, special []string
		for _, r := range rows {
			if r[1] == "privilegeTypes" {
				var idx []string
				for _, c := range strings.Split(r[2], ",") {
					i := indexOf(names, c)
					if i < 0 {
						return fmt.Errorf("HandleAuth: case %s: unknown privilege constant %q", r[0], c)
					}
					idx = append(idx, fmt.Sprint(i))
				}
				simple = append(simple, fmt.Sprintf("(%s, [%s])", hx.LeanString(strings.TrimPrefix(r[0], "AuthType_")), strings.Join(idx, ", ")))
			} else {
				special = append(special, strings.TrimPrefix(r[0], "AuthType_"))
			}
		}
		lf.Raw(fmt.Sprintf("def handleAuthSimple : List (String × List Nat) := [%s]\n", strings.Join(simple, ", ")))
		lf.DefStringList("handleAuthSpecial", special)
	}
	rows, err = switchTable(ad, fd, "auth.TargetType")
	if err != nil {
		return err
	}
	var tts []string
	for _, r := range rows {
		tts = append(tts, r[0])
	}
	lf.DefStringList("handleAuthTargetTypes", tts)
	// the AuthType/TargetType string constants of the parser, at run time
	lf.Raw(leanTriples("parserAuthConsts", [][3]string{
		{"AuthType_SELECT", vast.AuthType_SELECT, ""}, {"AuthType_IGNORE", vast.AuthType_IGNORE, ""}, {"AuthType_LOCK", vast.AuthType_LOCK, ""},
		{"AuthType_REPLACE", vast.AuthType_REPLACE, ""}, {"AuthType_FOREIGN_KEY", vast.AuthType_FOREIGN_KEY, ""}, {"AuthType_VISIBLE", vast.AuthType_VISIBLE, ""},
		{"AuthTargetType_Ignore", vast.AuthTargetType_Ignore, ""}, {"AuthTargetType_DatabaseIdentifiers", vast.AuthTargetType_DatabaseIdentifiers, ""},
		{"AuthTargetType_Global", vast.AuthTargetType_Global, ""}, {"AuthTargetType_MultipleTableIdentifiers", vast.AuthTargetType_MultipleTableIdentifiers, ""},
		{"AuthTargetType_SingleTableIdentifier", vast.AuthTargetType_SingleTableIdentifier, ""}, {"AuthTargetType_TableColumn", vast.AuthTargetType_TableColumn, ""},
		{"AuthTargetType_TODO", vast.AuthTargetType_TODO, ""},
	}))

	// UserHasPrivileges: the order of the level checks inside the static-privilege loop
	md, err := hx.ParseSrc(a.Repo, "sql/mysql_db/mysql_db.go")
	if err != nil {
		return err
	}
	fd, err = md.Func("MySQLDb", "UserHasPrivileges")
	if err != nil {
		return err
	}
	var conds []string
	ast.Inspect(fd.Body, func(n ast.Node) bool {
		if is, ok := n.(*ast.IfStmt); ok {
			conds = append(conds, strings.Join(strings.Fields(md.Text(is.Cond)), " "))
		}
		return true
	})
	sort.Strings(conds)
	lf.DefStringList("userHasPrivilegesConditions", conds)
	// … and the shape of every privilege lookup: (innermost enclosing `range` expression, receiver.method,
	// arguments). Each level is asked about ONE privilege of the operation at a time — the loop variable of
	// `range operation.StaticPrivileges` —, never about the whole list (variadic call), which would couple
	// the levels at which different privileges of one operation are found.
	var ranges []*ast.RangeStmt
	var lookups []*ast.CallExpr
	ast.Inspect(fd.Body, func(n ast.Node) bool {
		switch t := n.(type) {
		case *ast.RangeStmt:
			ranges = append(ranges, t)
		case *ast.CallExpr:
			if se, ok := t.Fun.(*ast.SelectorExpr); ok && (se.Sel.Name == "Has" || se.Sel.Name == "HasDynamic") {
				lookups = append(lookups, t)
			}
		}
		return true
	})
	var lrows [][3]string
	for _, ce := range lookups {
		var in *ast.RangeStmt
		for _, rs := range ranges {
			if rs.Body.Pos() <= ce.Pos() && ce.End() <= rs.Body.End() && (in == nil || rs.Pos() > in.Pos()) {
				in = rs
			}
		}
		row := [3]string{"", md.Text(ce.Fun), ""}
		if in != nil {
			row[0] = md.Text(in.Value) + " := range " + md.Text(in.X)
		}
		var as []string
		for _, e := range ce.Args {
			as = append(as, md.Text(e))
		}
		row[2] = strings.Join(as, ", ")
		if ce.Ellipsis.IsValid() {
			row[2] += "..."
		}
		lrows = append(lrows, row)
	}
	lf.Raw(leanTriples("userHasPrivilegesLookups", lrows))
	return lf.Write(a.Out)
}
