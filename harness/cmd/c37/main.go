// C37 — Process list and KILL track and cancel exactly the targeted work (processlist.go, package sqle).
package main

import (
	"context"
	"fmt"
	"go/ast"
	"go/token"
	"io"
	"sort"
	"strconv"
	"strings"
	"sync"
	"time"

	"github.com/sirupsen/logrus"

	sqle "github.com/dolthub/go-mysql-server"
	"github.com/dolthub/go-mysql-server/memory"
	"github.com/dolthub/go-mysql-server/sql"
	"github.com/dolthub/go-mysql-server/sql/types"
	"github.com/dolthub/go-mysql-server/sql/variables"
	"github.com/dolthub/go-mysql-server/verifharness/hx"
)

func main() { hx.Main(extract, run) }

// ---------------------------------------------------------------------------------------------
// Facts.

var eventMethods = map[string]bool{"AddConnection": true, "ConnectionReady": true, "RemoveConnection": true,
	"BeginQuery": true, "EndQuery": true, "BeginOperation": true, "EndOperation": true, "Kill": true, "Processes": true}

func selText(e ast.Expr) string {
	switch t := e.(type) {
	case *ast.Ident:
		return t.Name
	case *ast.SelectorExpr:
		return selText(t.X) + "." + t.Sel.Name
	case *ast.CallExpr:
		return selText(t.Fun) + "()"
	}
	return "?"
}

func extract(a hx.ExtractArgs) error {
	src, err := hx.ParseSrc(a.Repo, "processlist.go")
	if err != nil {
		return err
	}
	lf := hx.NewLeanFile("Gms.Generated.C37", src.Path, "sql/processlist.go")

	type eff struct {
		m, v string
		d    int64
	}
	var effects []eff
	var locked []string
	type guard struct {
		m string
		g bool
	}
	var guards []guard
	incBefore, errReturns, errAfterInc, sawBegin := false, 0, 0, false
	for _, d := range src.File.Decls {
		fd, ok := d.(*ast.FuncDecl)
		if !ok || fd.Recv == nil || len(fd.Recv.List) != 1 || hx.RecvName(fd.Recv.List[0].Type) != "ProcessList" {
			continue
		}
		name := fd.Name.Name
		var incPos, firstErrPos token.Pos
		var errPos []token.Pos
		hasLock, hasDeferUnlock := false, false
		// which `p.Kill()` calls sit under an `if … p.Kill != nil`
		var walk func(n ast.Node, guarded bool)
		walk = func(n ast.Node, guarded bool) {
			if n == nil {
				return
			}
			switch t := n.(type) {
			case *ast.IfStmt:
				g := guarded || strings.Contains(src.Text(t.Cond), "p.Kill != nil")
				walk(t.Init, guarded)
				walk(t.Body, g)
				walk(t.Else, guarded)
				return
			case *ast.BlockStmt:
				for _, s := range t.List {
					walk(s, guarded)
				}
				return
			case *ast.ExprStmt:
				if ce, ok := t.X.(*ast.CallExpr); ok && selText(ce.Fun) == "p.Kill" {
					guards = append(guards, guard{name, guarded})
				}
			}
		}
		walk(fd.Body, false)
		var inspectErr error
		ast.Inspect(fd.Body, func(n ast.Node) bool {
			switch t := n.(type) {
			case *ast.CallExpr:
				fn := selText(t.Fun)
				switch fn {
				case "sql.StatusVariables.IncrementGlobal":
					if len(t.Args) != 2 {
						inspectErr = fmt.Errorf("%s: IncrementGlobal with %d args", name, len(t.Args))
						return false
					}
					nm, ok := t.Args[0].(*ast.BasicLit)
					if !ok || nm.Kind != token.STRING {
						inspectErr = fmt.Errorf("%s: IncrementGlobal name is not a literal", name)
						return false
					}
					v, err := strconv.ParseInt(strings.ReplaceAll(src.Text(t.Args[1]), " ", ""), 10, 64)
					if err != nil {
						inspectErr = fmt.Errorf("%s: IncrementGlobal delta %q is not an integer literal", name, src.Text(t.Args[1]))
						return false
					}
					s, _ := strconv.Unquote(nm.Value)
					effects = append(effects, eff{name, s, v})
					if incPos == 0 {
						incPos = t.Pos()
					}
				case "pl.mu.Lock", "pl.mu.RLock":
					hasLock = true
				}
			case *ast.DeferStmt:
				if fn := selText(t.Call.Fun); fn == "pl.mu.Unlock" || fn == "pl.mu.RUnlock" {
					hasDeferUnlock = true
				}
			case *ast.ReturnStmt:
				if name == "BeginQuery" && len(t.Results) == 2 {
					if id, ok := t.Results[1].(*ast.Ident); !ok || id.Name != "nil" {
						errReturns++
						errPos = append(errPos, t.Pos())
						if firstErrPos == 0 {
							firstErrPos = t.Pos()
						}
					}
				}
			}
			return true
		})
		if inspectErr != nil {
			return inspectErr
		}
		if eventMethods[name] && hasLock && hasDeferUnlock {
			locked = append(locked, name)
		}
		if name == "BeginQuery" {
			sawBegin = true
			if incPos == 0 {
				return fmt.Errorf("BeginQuery no longer increments a status variable")
			}
			incBefore = firstErrPos != 0 && incPos < firstErrPos
			// the repaired shape (F-C37-a): no error return may follow the increment
			for _, ep := range errPos {
				if ep > incPos {
					errAfterInc++
				}
			}
		}
	}
	if !sawBegin {
		return fmt.Errorf("method ProcessList.BeginQuery not found")
	}
	var b strings.Builder
	b.WriteString("def counterEffects : List (String × String × Int) := [")
	for i, e := range effects {
		if i > 0 {
			b.WriteString(", ")
		}
		fmt.Fprintf(&b, "(%s, %s, %s)", hx.LeanString(e.m), hx.LeanString(e.v), hx.LeanInt(e.d))
	}
	b.WriteString("]\n")
	lf.Raw(b.String())
	lf.DefBool("beginQueryIncrementBeforeErrorReturns", incBefore)
	lf.DefNat("beginQueryErrorReturns", uint64(errReturns))
	lf.DefNat("beginQueryErrorReturnsAfterIncrement", uint64(errAfterInc))
	sort.Strings(locked)
	lf.DefStringList("methodsUnderMutex", locked)
	sort.Slice(guards, func(i, j int) bool { return guards[i].m < guards[j].m })
	b.Reset()
	b.WriteString("def killNilGuards : List (String × Bool) := [")
	for i, g := range guards {
		if i > 0 {
			b.WriteString(", ")
		}
		fmt.Fprintf(&b, "(%s, %v)", hx.LeanString(g.m), g.g)
	}
	b.WriteString("]\n")
	lf.Raw(b.String())

	// command names
	s2, err := hx.ParseSrc(a.Repo, "sql/processlist.go")
	if err != nil {
		return err
	}
	type kv struct{ k, v string }
	var cmds []kv
	for _, d := range s2.File.Decls {
		gd, ok := d.(*ast.GenDecl)
		if !ok || gd.Tok != token.CONST {
			continue
		}
		for _, sp := range gd.Specs {
			vs := sp.(*ast.ValueSpec)
			if id, ok := vs.Type.(*ast.Ident); !ok || id.Name != "ProcessCommand" {
				continue
			}
			for i, n := range vs.Names {
				if i < len(vs.Values) {
					if l, ok := vs.Values[i].(*ast.BasicLit); ok && l.Kind == token.STRING {
						s, _ := strconv.Unquote(l.Value)
						cmds = append(cmds, kv{n.Name, s})
					}
				}
			}
		}
	}
	if len(cmds) == 0 {
		return fmt.Errorf("no ProcessCommand constants found in sql/processlist.go")
	}
	sort.Slice(cmds, func(i, j int) bool { return cmds[i].k < cmds[j].k })
	b.Reset()
	b.WriteString("def commandNames : List (String × String) := [")
	for i, c := range cmds {
		if i > 0 {
			b.WriteString(", ")
		}
		fmt.Fprintf(&b, "(%s, %s)", hx.LeanString(c.k), hx.LeanString(c.v))
	}
	b.WriteString("]\n")
	lf.Raw(b.String())

	// the SQL layer: which calls a KILL statement of each type makes, what the planbuilder turns the
	// parser's Kill.Connection flag into, and what the engine's tracked iterator does when it is closed
	if err := extractSQLLayer(a, lf); err != nil {
		return err
	}
	return lf.Write(a.Out)
}

// killStmtEval walks the statements executed by the body of rowexec's buildKill iterator for one
// concrete kill type and records, in order, the calls of ctx.ProcessList.<M> and ctx.KillConnection.
// Understood shapes: call statements, `if n.Kt ==/!= plan.KillType_X {…} else {…}`,
// `switch n.Kt { case plan.KillType_X: … default: … }`, `if err := <call>; err != nil { return … }`,
// `return`. Anything else that contains one of the calls is an error (the shape the model
// transliterates is gone).
type killStmtEval struct {
	src   *hx.Src
	kt    string // "Query" | "Connection"
	calls []string
}

func relevantCall(e ast.Expr) (string, bool) {
	ce, ok := e.(*ast.CallExpr)
	if !ok {
		return "", false
	}
	fn := selText(ce.Fun)
	switch {
	case strings.HasPrefix(fn, "ctx.ProcessList."):
		return "ProcessList." + strings.TrimPrefix(fn, "ctx.ProcessList."), true
	case fn == "ctx.KillConnection":
		return "KillConnection", true
	}
	return "", false
}

func containsRelevantCall(n ast.Node) bool {
	found := false
	if n == nil {
		return false
	}
	ast.Inspect(n, func(x ast.Node) bool {
		if e, ok := x.(ast.Expr); ok {
			if _, ok := relevantCall(e); ok {
				found = true
			}
		}
		return !found
	})
	return found
}

// ktCond evaluates `n.Kt == plan.KillType_X` / `n.Kt != plan.KillType_X` for the evaluator's type.
func (k *killStmtEval) ktCond(e ast.Expr) (val bool, ok bool) {
	be, isBin := e.(*ast.BinaryExpr)
	if !isBin || (be.Op != token.EQL && be.Op != token.NEQ) {
		return false, false
	}
	l, r := selText(be.X), selText(be.Y)
	if r == "n.Kt" {
		l, r = r, l
	}
	if l != "n.Kt" || !strings.HasPrefix(r, "plan.KillType_") {
		return false, false
	}
	eq := strings.TrimPrefix(r, "plan.KillType_") == k.kt
	if be.Op == token.NEQ {
		eq = !eq
	}
	return eq, true
}

// stmts returns true when a return statement was executed.
func (k *killStmtEval) stmts(list []ast.Stmt) (bool, error) {
	for _, st := range list {
		switch t := st.(type) {
		case *ast.ExprStmt:
			if name, ok := relevantCall(t.X); ok {
				k.calls = append(k.calls, name)
			} else if containsRelevantCall(t) {
				return false, fmt.Errorf("buildKill: call nested in %q", k.src.Text(t))
			}
		case *ast.AssignStmt:
			if len(t.Rhs) == 1 {
				if name, ok := relevantCall(t.Rhs[0]); ok {
					k.calls = append(k.calls, name)
					continue
				}
			}
			if containsRelevantCall(t) {
				return false, fmt.Errorf("buildKill: call nested in %q", k.src.Text(t))
			}
		case *ast.ReturnStmt:
			if containsRelevantCall(t) {
				return false, fmt.Errorf("buildKill: call nested in %q", k.src.Text(t))
			}
			return true, nil
		case *ast.BlockStmt:
			if ret, err := k.stmts(t.List); err != nil || ret {
				return ret, err
			}
		case *ast.IfStmt:
			if t.Init != nil {
				if ret, err := k.stmts([]ast.Stmt{t.Init}); err != nil || ret {
					return ret, err
				}
			}
			if v, ok := k.ktCond(t.Cond); ok {
				var br ast.Stmt = t.Body
				if !v {
					br = t.Else
				}
				if br != nil {
					if ret, err := k.stmts([]ast.Stmt{br}); err != nil || ret {
						return ret, err
					}
				}
				continue
			}
			// a condition that is not about the kill type (error check): its branches must not make the calls
			if containsRelevantCall(t.Cond) || containsRelevantCall(t.Body) || containsRelevantCall(t.Else) {
				return false, fmt.Errorf("buildKill: a ProcessList/KillConnection call depends on %q", k.src.Text(t.Cond))
			}
		case *ast.SwitchStmt:
			if t.Init != nil || t.Tag == nil || selText(t.Tag) != "n.Kt" {
				if containsRelevantCall(t) {
					return false, fmt.Errorf("buildKill: a ProcessList/KillConnection call inside a switch that is not on n.Kt")
				}
				continue
			}
			var chosen, def *ast.CaseClause
			for _, cs := range t.Body.List {
				cc := cs.(*ast.CaseClause)
				if cc.List == nil {
					def = cc
					continue
				}
				for _, x := range cc.List {
					name := selText(x)
					if !strings.HasPrefix(name, "plan.KillType_") {
						return false, fmt.Errorf("buildKill: switch case %q", k.src.Text(x))
					}
					if strings.TrimPrefix(name, "plan.KillType_") == k.kt && chosen == nil {
						chosen = cc
					}
				}
			}
			if chosen == nil {
				chosen = def
			}
			if chosen != nil {
				for _, b := range chosen.Body {
					if bs, ok := b.(*ast.BranchStmt); ok && bs.Tok == token.FALLTHROUGH {
						return false, fmt.Errorf("buildKill: fallthrough")
					}
				}
				if ret, err := k.stmts(chosen.Body); err != nil || ret {
					return ret, err
				}
			}
		default:
			if containsRelevantCall(st) {
				return false, fmt.Errorf("buildKill: a ProcessList/KillConnection call inside %T", st)
			}
		}
	}
	return false, nil
}

func leanStrList(xs []string) string {
	q := make([]string, len(xs))
	for i, x := range xs {
		q[i] = hx.LeanString(x)
	}
	return "[" + strings.Join(q, ", ") + "]"
}

func extractSQLLayer(a hx.ExtractArgs, lf *hx.LeanFile) error {
	// kill types
	ks, err := hx.ParseSrc(a.Repo, "sql/plan/kill.go")
	if err != nil {
		return err
	}
	var kts []string
	for _, d := range ks.File.Decls {
		gd, ok := d.(*ast.GenDecl)
		if !ok || gd.Tok != token.CONST {
			continue
		}
		for _, sp := range gd.Specs {
			for _, n := range sp.(*ast.ValueSpec).Names {
				if strings.HasPrefix(n.Name, "KillType_") {
					kts = append(kts, strings.TrimPrefix(n.Name, "KillType_"))
				}
			}
		}
	}
	sort.Strings(kts)
	if len(kts) == 0 {
		return fmt.Errorf("no KillType_ constants in sql/plan/kill.go")
	}
	// rowexec: buildKill
	ts, err := hx.ParseSrc(a.Repo, "sql/rowexec/transaction.go")
	if err != nil {
		return err
	}
	fd, err := ts.Func("BaseBuilder", "buildKill")
	if err != nil {
		return err
	}
	var lits []*ast.FuncLit
	ast.Inspect(fd.Body, func(n ast.Node) bool {
		if fl, ok := n.(*ast.FuncLit); ok {
			lits = append(lits, fl)
			return false
		}
		return true
	})
	if len(lits) != 1 {
		return fmt.Errorf("rowexec buildKill: expected one function literal (the lazy iterator body), found %d", len(lits))
	}
	// nothing outside the literal may make the calls
	outside := false
	ast.Inspect(fd.Body, func(n ast.Node) bool {
		if n == lits[0] {
			return false
		}
		if e, ok := n.(ast.Expr); ok {
			if _, ok := relevantCall(e); ok {
				outside = true
			}
		}
		return true
	})
	if outside {
		return fmt.Errorf("rowexec buildKill: ProcessList/KillConnection call outside the iterator body")
	}
	var b strings.Builder
	b.WriteString("def killStmtCalls : List (String × List String) := [")
	for i, kt := range kts {
		ev := &killStmtEval{src: ts, kt: kt}
		if _, err := ev.stmts(lits[0].Body.List); err != nil {
			return err
		}
		if i > 0 {
			b.WriteString(", ")
		}
		fmt.Fprintf(&b, "(%s, %s)", hx.LeanString(kt), leanStrList(ev.calls))
	}
	b.WriteString("]\n")
	lf.Raw(b.String())

	// planbuilder: Kill.Connection -> kill type
	ps, err := hx.ParseSrc(a.Repo, "sql/planbuilder/process.go")
	if err != nil {
		return err
	}
	pf, err := ps.Func("Builder", "buildKill")
	if err != nil {
		return err
	}
	onTrue, onFalse := "", ""
	newKillType := func(n ast.Node) string {
		res := ""
		if n == nil {
			return res
		}
		ast.Inspect(n, func(x ast.Node) bool {
			if ce, ok := x.(*ast.CallExpr); ok && selText(ce.Fun) == "plan.NewKill" && len(ce.Args) == 2 {
				res = strings.TrimPrefix(selText(ce.Args[0]), "plan.KillType_")
			}
			return true
		})
		return res
	}
	nIf := 0
	ast.Inspect(pf.Body, func(n ast.Node) bool {
		if is, ok := n.(*ast.IfStmt); ok && selText(is.Cond) == "kill.Connection" {
			nIf++
			onTrue, onFalse = newKillType(is.Body), newKillType(is.Else)
		}
		return true
	})
	if nIf != 1 || onTrue == "" || onFalse == "" {
		return fmt.Errorf("planbuilder buildKill: expected `if kill.Connection { …plan.NewKill(plan.KillType_X, …) } else { … }`")
	}
	lf.Raw(fmt.Sprintf("def killPlanTypes : List (Bool × String) := [(true, %s), (false, %s)]\n", hx.LeanString(onTrue), hx.LeanString(onFalse)))

	// plan.AddTrackedRowIter: the ProcessList calls of the iterator's onDone func
	qs, err := hx.ParseSrc(a.Repo, "sql/plan/process.go")
	if err != nil {
		return err
	}
	af, err := qs.Func("", "AddTrackedRowIter")
	if err != nil {
		return err
	}
	var done []string
	ast.Inspect(af.Body, func(n ast.Node) bool {
		if e, ok := n.(ast.Expr); ok {
			if name, ok := relevantCall(e); ok {
				done = append(done, name)
			}
		}
		return true
	})
	lf.Raw("def trackedIterDoneCalls : List String := " + leanStrList(done) + "\n")
	// rowexec.FinalizeIters still wraps every statement's iterator with it
	bs, err := hx.ParseSrc(a.Repo, "sql/rowexec/builder.go")
	if err != nil {
		return err
	}
	ff, err := bs.Func("", "FinalizeIters")
	if err != nil {
		return err
	}
	lf.DefBool("finalizeItersAddsTrackedIter", strings.Contains(bs.Text(ff.Body), "plan.AddTrackedRowIter(ctx, analyzed, iter)"))
	return nil
}

// ---------------------------------------------------------------------------------------------
// Events and the real code.

// ev is one call. The first eight kinds are methods of ProcessList called directly. The SQL kinds are
// statements executed through the real engine (parser, planbuilder, analyzer, rowexec) by connection c
// as its query number pid, with ctx.ProcessList = the world's ProcessList and a recording
// Services.KillConnection:
//
//	kq  KILL QUERY t        kc  KILL CONNECTION t        kd  KILL t        show  SHOW PROCESSLIST
//
// Draining and closing the statement's iterator makes the engine call EndQuery(ctx) itself
// (plan.TrackedRowIter), which is part of the modelled effect.
type ev struct {
	k   string // add ready rm bq eq bo eo kill | kq kc kd show
	c   uint32
	pid uint64
	t   uint32 // target of a KILL statement
}

func (e ev) isSQL() bool { return e.k == "kq" || e.k == "kc" || e.k == "kd" || e.k == "show" }

func (e ev) String() string {
	switch e.k {
	case "bq", "eq", "show":
		return fmt.Sprintf("(%s %d %d)", e.k, e.c, e.pid)
	case "kq", "kc", "kd":
		return fmt.Sprintf("(%s %d %d %d)", e.k, e.c, e.pid, e.t)
	}
	return fmt.Sprintf("(%s %d)", e.k, e.c)
}

// touches: the connections a call may legitimately cancel work of.
func (e ev) touches(c uint32) bool {
	if e.c == c {
		return true
	}
	return (e.k == "kq" || e.k == "kc" || e.k == "kd") && e.t == c
}

// lowered is the sequence of direct ProcessList calls the Spec equates an SQL statement with
// (Lean: Gms.ProcList.lower): KILL [QUERY|CONNECTION] t = Kill(t) and then the engine's EndQuery of the
// statement itself; SHOW PROCESSLIST = that EndQuery only.
func lowered(es []ev) (out []ev, closed []uint32) {
	for _, e := range es {
		switch e.k {
		case "kq", "kc", "kd":
			out = append(out, ev{k: "kill", c: e.t}, ev{k: "eq", c: e.c, pid: e.pid})
			if e.k != "kq" {
				closed = append(closed, e.t)
			}
		case "show":
			out = append(out, ev{k: "eq", c: e.c, pid: e.pid})
		default:
			out = append(out, e)
		}
	}
	return out, closed
}

func histPayload(kind string, es []ev) string {
	parts := make([]string, len(es))
	for i, e := range es {
		parts[i] = e.String()
	}
	return "(" + kind + " " + strings.Join(parts, " ") + ")"
}

func counter(name string) uint64 {
	_, v, ok := sql.StatusVariables.GetGlobal(name)
	if !ok {
		panic("status variable " + name + " missing")
	}
	u, ok := v.(uint64)
	if !ok {
		panic(fmt.Sprintf("status variable %s has type %T", name, v))
	}
	return u
}

// world drives one real ProcessList.
type world struct {
	pl       *sqle.ProcessList
	mu       sync.Mutex
	sess     map[uint32]sql.Session
	toks     []*sql.Context // contexts handed out by BeginQuery/BeginOperation, in order of creation
	tokConn  []uint32
	c0, r0   uint64
	closed   []uint32 // connection ids handed to Services.KillConnection, in order
	services sql.Services
}

func newWorld() *world {
	w := &world{pl: sqle.NewProcessList(), sess: map[uint32]sql.Session{}, c0: counter("Threads_connected"), r0: counter("Threads_running")}
	// what the server's SessionManager.KillConnection does is close the network connection; the
	// process-list entry goes away later, when the connection's handler loop unwinds (RemoveConnection
	// is a separate call of the history). Here the request is only recorded.
	w.services = sql.Services{KillConnection: func(id uint32) error {
		w.mu.Lock()
		defer w.mu.Unlock()
		w.closed = append(w.closed, id)
		return nil
	}}
	return w
}

// ctxFor builds the context of a call made by connection c (as query pid), the way the server's
// SessionManager.NewContext does: ProcessList and Services travel with the context.
func (w *world) ctxFor(c uint32, pid uint64) *sql.Context {
	return sql.NewContext(context.Background(), sql.WithSession(w.session(c)), sql.WithPid(pid),
		sql.WithProcessList(w.pl), sql.WithServices(w.services))
}

// the engine SQL statements run on; its own ProcessList is not used (the context carries the world's).
var (
	sqlEngineOnce sync.Once
	sqlEngine     *sqle.Engine
)

func engine() *sqle.Engine {
	sqlEngineOnce.Do(func() {
		sqlEngine = sqle.NewDefault(memory.NewDBProvider(memory.NewDatabase("d")))
	})
	return sqlEngine
}

// runSQL executes one statement through the engine on ctx, drains and closes the iterator.
// Result alphabet: "d" = one OkResult row; "w[rows]" = result set of SHOW PROCESSLIST reduced to
// Id:Command:State:Info; "E…" = error.
func (w *world) runSQL(ctx *sql.Context, q string, show bool) string {
	_, iter, _, err := engine().Query(ctx, q)
	if err != nil {
		return "E:" + hx.OneLine(err.Error())
	}
	var rows []sql.Row
	for {
		r, err := iter.Next(ctx)
		if err == io.EOF {
			break
		}
		if err != nil {
			iter.Close(ctx)
			return "E:" + hx.OneLine(err.Error())
		}
		rows = append(rows, r)
	}
	if err := iter.Close(ctx); err != nil {
		return "E:close:" + hx.OneLine(err.Error())
	}
	if !show {
		if len(rows) == 1 && len(rows[0]) == 1 {
			if _, ok := rows[0][0].(types.OkResult); ok {
				return "d"
			}
		}
		return fmt.Sprintf("E:rows:%v", rows)
	}
	type prow struct {
		id int64
		s  string
	}
	var ps []prow
	for _, r := range rows {
		if len(r) != 8 {
			return fmt.Sprintf("E:row:%v", r)
		}
		id, _ := r[0].(int64)
		cmd := fmt.Sprint(r[4])
		switch cmd {
		case "Connect":
			cmd = "C"
		case "Sleep":
			cmd = "S"
		case "Query":
			cmd = "Q"
		default:
			cmd = "?" + cmd
		}
		st := fmt.Sprint(r[6])
		switch st {
		case "":
			st = "-"
		case "running":
			st = "r"
		default:
			st = "?" + hx.OneLine(st)
		}
		info := fmt.Sprint(r[7])
		if info == "" {
			info = "-"
		} else {
			info = strings.TrimPrefix(info, "q")
		}
		ps = append(ps, prow{id, fmt.Sprintf("%d:%s:%s:%s", id, cmd, st, info)})
	}
	sort.Slice(ps, func(i, j int) bool { return ps[i].id < ps[j].id })
	parts := make([]string, len(ps))
	for i, p := range ps {
		parts[i] = p.s
	}
	return "w[" + strings.Join(parts, ",") + "]"
}

func (w *world) session(c uint32) sql.Session {
	w.mu.Lock()
	defer w.mu.Unlock()
	s, ok := w.sess[c]
	if !ok {
		s = sql.NewBaseSessionWithClientServer("srv:3306", sql.Client{Address: "client", User: "u"}, c)
		w.sess[c] = s
	}
	return s
}

func (w *world) addTok(ctx *sql.Context, c uint32) int {
	w.mu.Lock()
	defer w.mu.Unlock()
	w.toks = append(w.toks, ctx)
	w.tokConn = append(w.tokConn, c)
	return len(w.toks) - 1
}

func errClass(err error) string {
	switch {
	case sql.ErrPidAlreadyUsed.Is(err):
		return "eP"
	case strings.Contains(err.Error(), "not registered"):
		return "eN"
	case strings.Contains(err.Error(), "already running"):
		return "eB"
	}
	return "e?" + err.Error()
}

// apply calls the real method; the result string uses the driver's alphabet. seqTok says whether
// the token number is part of the result (single goroutine only).
func (w *world) apply(e ev, seqTok bool) string {
	res := "d"
	p := hx.Safe(func() {
		switch e.k {
		case "add":
			w.pl.AddConnection(e.c, "client")
		case "ready":
			w.pl.ConnectionReady(w.session(e.c))
		case "rm":
			w.pl.RemoveConnection(e.c)
		case "bq":
			ctx := w.ctxFor(e.c, e.pid)
			n, err := w.pl.BeginQuery(ctx, fmt.Sprintf("q%d", e.pid))
			if err != nil {
				res = errClass(err)
			} else {
				t := w.addTok(n, e.c)
				res = "o"
				if seqTok {
					res = fmt.Sprintf("o%d", t)
				}
			}
		case "eq":
			w.pl.EndQuery(w.ctxFor(e.c, e.pid))
		case "bo":
			n, err := w.pl.BeginOperation(w.ctxFor(e.c, 0))
			if err != nil {
				res = errClass(err)
			} else {
				t := w.addTok(n, e.c)
				res = "o"
				if seqTok {
					res = fmt.Sprintf("o%d", t)
				}
			}
		case "eo":
			w.pl.EndOperation(w.ctxFor(e.c, 0))
		case "kill":
			w.pl.Kill(e.c)
		case "kq":
			res = w.runSQL(w.ctxFor(e.c, e.pid), fmt.Sprintf("KILL QUERY %d", e.t), false)
		case "kc":
			res = w.runSQL(w.ctxFor(e.c, e.pid), fmt.Sprintf("KILL CONNECTION %d", e.t), false)
		case "kd":
			res = w.runSQL(w.ctxFor(e.c, e.pid), fmt.Sprintf("KILL %d", e.t), false)
		case "show":
			res = w.runSQL(w.ctxFor(e.c, e.pid), "SHOW PROCESSLIST", true)
		default:
			panic("harness: unknown event " + e.k)
		}
	})
	if p != "" {
		if strings.HasPrefix(p, "harness:") {
			panic(p)
		}
		return "X"
	}
	return res
}

type snap struct {
	connected, running int64
	procs              []sql.Process
	byPid              map[uint64]uint32
	cancelled          []int
	closed             []uint32
}

func (w *world) snapshot() snap {
	s := snap{connected: int64(counter("Threads_connected") - w.c0), running: int64(counter("Threads_running") - w.r0)}
	s.procs = w.pl.Processes()
	sort.Slice(s.procs, func(i, j int) bool { return s.procs[i].Connection < s.procs[j].Connection })
	s.byPid = w.pl.VerifByQueryPid()
	for i, t := range w.toks {
		if t.Err() != nil {
			s.cancelled = append(s.cancelled, i)
		}
	}
	w.mu.Lock()
	s.closed = append([]uint32(nil), w.closed...)
	w.mu.Unlock()
	return s
}

func (s snap) quiet() string {
	var v []string
	for _, p := range s.procs {
		k := "?" + string(p.Command)
		switch p.Command {
		case sql.ProcessCommandConnect:
			k = "C"
		case sql.ProcessCommandSleep:
			k = "S"
		case sql.ProcessCommandQuery:
			k = "Q"
		}
		kill := 0
		if p.Kill != nil {
			kill = 1
		}
		q := "-"
		if p.Query != "" {
			q = strings.TrimPrefix(p.Query, "q")
		}
		v = append(v, fmt.Sprintf("%d:%s:%d:%d:%s", p.Connection, k, p.QueryPid, kill, q))
	}
	pids := make([]uint64, 0, len(s.byPid))
	for k := range s.byPid {
		pids = append(pids, k)
	}
	sort.Slice(pids, func(i, j int) bool { return pids[i] < pids[j] })
	var bp []string
	for _, k := range pids {
		bp = append(bp, fmt.Sprintf("%d>%d", k, s.byPid[k]))
	}
	return fmt.Sprintf("%d,%d|%s|%s", s.connected, s.running, strings.Join(v, ","), strings.Join(bp, ","))
}

func (s snap) full() string {
	cs := make([]string, len(s.cancelled))
	for i, c := range s.cancelled {
		cs[i] = strconv.Itoa(c)
	}
	ks := make([]string, len(s.closed))
	for i, c := range s.closed {
		ks[i] = strconv.FormatUint(uint64(c), 10)
	}
	return s.quiet() + "|" + strings.Join(cs, ",") + "|" + strings.Join(ks, ",")
}

// consistent is the property's state part evaluated on the real code alone: counters = counts,
// byQueryPid = the processes in command Query.
func (s snap) consistent() string { m, _ := s.consistentTag(); return m }

// consistentTag also names the defect class as far as the harness can tell it model-free: a wrong
// Threads_running alone is left to the model's region of the case ("-"); a wrong index, a wrong
// Threads_connected or a Query process without Kill is never a listed class.
func (s snap) consistentTag() (string, string) {
	nq := 0
	for _, p := range s.procs {
		if p.Command == sql.ProcessCommandQuery {
			nq++
			if c, ok := s.byPid[p.QueryPid]; !ok || c != p.Connection {
				return fmt.Sprintf("connection %d runs query pid %d but byQueryPid[%d] = %v (present %v)", p.Connection, p.QueryPid, p.QueryPid, c, ok), "pid_index_wrong"
			}
			if p.Kill == nil {
				return fmt.Sprintf("connection %d in command Query has no Kill func", p.Connection), "query_without_kill"
			}
		}
	}
	if len(s.byPid) != nq {
		return fmt.Sprintf("byQueryPid has %d entries, %d processes are in command Query", len(s.byPid), nq), "pid_index_wrong"
	}
	if s.connected != int64(len(s.procs)) {
		return fmt.Sprintf("Threads_connected = %d, the process list has %d sessions", s.connected, len(s.procs)), "threads_connected_wrong"
	}
	if s.running != int64(nq) {
		return fmt.Sprintf("Threads_running = %d, %d sessions are in command Query", s.running, nq), "-"
	}
	return "", ""
}

// seqResult is what one sequential run yields: the observation and the model-free oracles.
type seqResult struct {
	obs          string
	inconsistent string // first failure of the state part (counters = counts, pid index = owners)
	incTag       string
	badCancel    string // first cancellation of a context the call had no business with
	final        snap
	anyCancelled bool
}

// runSeq: one goroutine, observation after every call.
func runSeq(es []ev) seqResult {
	w := newWorld()
	var res seqResult
	var parts []string
	prevCancelled := map[int]bool{}
	for i, e := range es {
		nTok := len(w.toks)
		r := w.apply(e, true)
		s := w.snapshot()
		res.final = s
		parts = append(parts, r+"|"+s.full())
		if res.inconsistent == "" && r != "X" {
			if m, tag := s.consistentTag(); m != "" {
				res.inconsistent, res.incTag = fmt.Sprintf("after call %d %s: %s", i+1, e, m), tag
			}
		}
		for _, t := range s.cancelled {
			if !prevCancelled[t] {
				prevCancelled[t] = true
				res.anyCancelled = true
				if res.badCancel == "" {
					if t >= nTok {
						res.badCancel = fmt.Sprintf("call %d %s returned context #%d already cancelled", i+1, e, t)
					} else if !e.touches(w.tokConn[t]) {
						res.badCancel = fmt.Sprintf("call %d %s cancelled context #%d which belongs to connection %d", i+1, e, t, w.tokConn[t])
					}
				}
			}
		}
	}
	res.obs = strings.Join(parts, ";")
	return res
}

// sqlOracle is the model-free oracle of the SQL layer: a history with KILL / SHOW PROCESSLIST
// statements must leave the ProcessList, the counters and every handed-out context exactly as the
// same history with each statement replaced by the direct calls it stands for (lowered), and the
// connections it asked the server to close must be exactly the targets of its KILL CONNECTION / KILL
// statements, in order. Both worlds run the real code, so a listed defect of ProcessList shows up on
// both sides and cancels out.
func sqlOracle(es []ev, got snap) string {
	low, wantClosed := lowered(es)
	ref := runSeq(low).final
	gs, rs := got.quiet()+"|"+cancStr(got.cancelled), ref.quiet()+"|"+cancStr(ref.cancelled)
	if gs != rs {
		return fmt.Sprintf("with the statements executed through the engine the final state is %s, with the direct calls %s it is %s",
			gs, histPayload("seq", low), rs)
	}
	if fmt.Sprint(got.closed) != fmt.Sprint(wantClosed) {
		return fmt.Sprintf("Services.KillConnection was called for %v, the KILL CONNECTION statements name %v", got.closed, wantClosed)
	}
	return ""
}

func cancStr(c []int) string {
	cs := make([]string, len(c))
	for i, t := range c {
		cs[i] = strconv.Itoa(t)
	}
	return strings.Join(cs, ",")
}

// runConc: one goroutine per stream plus a killer and a reader; observation at quiescence.
func runConc(streams [][]ev, kills []uint32) (obs string, inconsistent string, notCancelled string) {
	w := newWorld()
	var wg sync.WaitGroup
	start := make(chan struct{})
	for _, st := range streams {
		wg.Add(1)
		go func(st []ev) {
			defer wg.Done()
			<-start
			for _, e := range st {
				w.apply(e, false)
			}
		}(st)
	}
	wg.Add(2)
	go func() {
		defer wg.Done()
		<-start
		// the killer is an administrative connection that is not in the list: direct Kill, KILL QUERY and
		// KILL CONNECTION through the engine in turn
		for j, c := range kills {
			switch j % 3 {
			case 0:
				w.pl.Kill(c)
			case 1:
				hx.Safe(func() { w.runSQL(w.ctxFor(4000000000, 0), fmt.Sprintf("KILL QUERY %d", c), false) })
			case 2:
				hx.Safe(func() { w.runSQL(w.ctxFor(4000000000, 0), fmt.Sprintf("KILL CONNECTION %d", c), false) })
			}
		}
	}()
	go func() {
		defer wg.Done()
		<-start
		for i := 0; i < len(kills)+4; i++ {
			for _, p := range w.pl.Processes() {
				_ = p.Progress
			}
		}
	}()
	close(start)
	wg.Wait()
	s := w.snapshot()
	return s.quiet(), s.consistent(), ""
}

// ---------------------------------------------------------------------------------------------
// Generators.

// gstate is the generator's own bookkeeping of the calling protocol (what the server's handler does).
type gconn struct {
	present bool
	ready   bool
	work    int // 0 idle, 1 query, 2 operation
	pid     uint64
	lastPid uint64
}

type gen struct {
	r       *hx.Rand
	conns   map[uint32]*gconn
	ids     []uint32
	nextPid uint64
	used    map[uint64]uint32 // running pids
}

func newGen(r *hx.Rand, nconn int) *gen {
	g := &gen{r: r, conns: map[uint32]*gconn{}, used: map[uint64]uint32{}}
	base := uint32(1)
	if r.Chance(1, 5) {
		base = uint32(r.Range(2, 4000000000))
	}
	for i := 0; i < nconn; i++ {
		id := base + uint32(i)
		g.ids = append(g.ids, id)
		g.conns[id] = &gconn{}
	}
	g.nextPid = 1
	if r.Chance(1, 5) {
		g.nextPid = uint64(r.Range(2, 1<<40))
	}
	return g
}

// next returns a protocol-conformant call. region: 0 = none; otherwise one call of the named
// defect class is produced when possible.
func (g *gen) next() ev {
	for {
		c := hx.Pick(g.r, g.ids)
		st := g.conns[c]
		switch g.r.Intn(14) {
		case 0, 1:
			if !st.present {
				st.present, st.ready, st.work = true, false, 0
				return ev{k: "add", c: c}
			}
		case 2:
			if st.present && st.work == 0 {
				st.ready = true
				return ev{k: "ready", c: c}
			}
		case 3, 4, 5:
			if st.present && st.ready && st.work == 0 {
				pid := g.nextPid
				g.nextPid++
				st.work, st.pid = 1, pid
				g.used[pid] = c
				return ev{k: "bq", c: c, pid: pid}
			}
			if g.r.Chance(1, 3) { // error returns of BeginQuery: unregistered / pid in use (no effect since the repair of F-C37-a)
				if e, ok := g.beginQueryErrorCall(c); ok {
					return e
				}
			}
		case 6, 7:
			if st.present && st.work == 1 {
				pid := st.pid
				st.work, st.lastPid, st.pid = 0, pid, 0
				delete(g.used, pid)
				return ev{k: "eq", c: c, pid: pid}
			}
			if st.lastPid != 0 && g.r.Chance(1, 2) { // the handler's second EndQuery (tracked iterator + defer)
				return ev{k: "eq", c: c, pid: st.lastPid}
			}
		case 8:
			if st.present && st.work == 0 {
				st.work = 2
				return ev{k: "bo", c: c}
			}
			if g.r.Chance(1, 3) { // error returns of BeginOperation: unregistered / busy (no effect)
				return ev{k: "bo", c: c}
			}
		case 9:
			if st.present && st.work == 2 {
				st.work = 0
				return ev{k: "eo", c: c}
			}
			if st.work == 0 && g.r.Chance(1, 4) {
				return ev{k: "eo", c: c}
			}
		case 10, 11:
			if g.r.Chance(1, 6) {
				return ev{k: "kill", c: c + 100} // KILL of an unknown id
			}
			return ev{k: "kill", c: c}
		case 12:
			if st.present && st.work != 1 {
				*st = gconn{lastPid: st.lastPid}
				return ev{k: "rm", c: c}
			}
			if !st.present && g.r.Chance(1, 4) {
				return ev{k: "rm", c: c}
			}
		case 13:
			// the connection's running query is a KILL / SHOW PROCESSLIST statement executed through the
			// engine; closing its iterator is the handler's first EndQuery (the deferred second one may follow)
			if st.present && st.work == 1 {
				pid := st.pid
				st.work, st.lastPid, st.pid = 0, pid, 0
				delete(g.used, pid)
				return g.sqlStmt(c, pid)
			}
		}
	}
}

// sqlStmt: a statement issued by connection c as its query pid. Targets: any connection of the
// history (itself included), sometimes an unknown id.
func (g *gen) sqlStmt(c uint32, pid uint64) ev {
	k := hx.Pick(g.r, []string{"kq", "kq", "kq", "kc", "kc", "kc", "kd", "kd", "show", "show"})
	if k == "show" {
		return ev{k: k, c: c, pid: pid}
	}
	t := hx.Pick(g.r, g.ids)
	if g.r.Chance(1, 8) {
		t += 100
	}
	return ev{k: k, c: c, pid: pid, t: t}
}

// busyTargetKill: connection c (running query pid) kills a connection that has work registered, if
// there is one: the case in which a KILL statement has something to cancel.
func (g *gen) busyTargetKill() (ev, bool) {
	for try := 0; try < 20; try++ {
		c := hx.Pick(g.r, g.ids)
		st := g.conns[c]
		if !(st.present && st.work == 1) {
			continue
		}
		var busy []uint32
		for _, t := range g.ids {
			if t != c && g.conns[t].present && g.conns[t].work != 0 {
				busy = append(busy, t)
			}
		}
		if len(busy) == 0 {
			continue
		}
		pid := st.pid
		st.work, st.lastPid, st.pid = 0, pid, 0
		delete(g.used, pid)
		return ev{k: hx.Pick(g.r, []string{"kq", "kc", "kd"}), c: c, pid: pid, t: hx.Pick(g.r, busy)}, true
	}
	return ev{}, false
}

// beginQueryErrorCall returns a BeginQuery on connection c that takes one of its two error returns
// (the call class of the repaired defect begin_query_error_path), if the state allows it. The
// generator's bookkeeping does not change: the call has no effect.
func (g *gen) beginQueryErrorCall(c uint32) (ev, bool) {
	st := g.conns[c]
	if !st.present { // connection not registered
		pid := g.nextPid
		g.nextPid++
		return ev{k: "bq", c: c, pid: pid}, true
	}
	if st.ready && st.work == 0 && len(g.used) > 0 { // pid in use (smallest running pid: deterministic)
		var best uint64
		for pid := range g.used {
			if best == 0 || pid < best {
				best = pid
			}
		}
		return ev{k: "bq", c: c, pid: best}, true
	}
	return ev{}, false
}

// errorCall: one failed BeginQuery somewhere, if the state allows it.
func (g *gen) errorCall() (ev, bool) {
	for try := 0; try < 20; try++ {
		if e, ok := g.beginQueryErrorCall(hx.Pick(g.r, g.ids)); ok {
			return e, true
		}
	}
	return ev{}, false
}

// regionCall returns one call of a listed defect class, if the state allows it.
func (g *gen) regionCall() (ev, bool) {
	for try := 0; try < 20; try++ {
		c := hx.Pick(g.r, g.ids)
		st := g.conns[c]
		switch 2 + g.r.Intn(2) {
		case 2: // RemoveConnection during a query
			if st.present && st.work == 1 {
				delete(g.used, st.pid)
				*st = gconn{lastPid: st.pid}
				return ev{k: "rm", c: c}, true
			}
		case 3: // ConnectionReady inside an operation (SetDB)
			if st.present && st.work == 2 {
				st.ready = true
				return ev{k: "ready", c: c}, true
			}
		}
	}
	return ev{}, false
}

func randomCall(r *hx.Rand, nconn int, npid int) ev {
	c := uint32(r.Range(1, nconn))
	pid := uint64(r.Intn(npid + 1))
	e := ev{k: hx.Pick(r, []string{"add", "ready", "rm", "bq", "bq", "eq", "eq", "bo", "eo", "kill", "kq", "kc", "kd", "show"}), c: c, pid: pid}
	if e.isSQL() && e.k != "show" {
		e.t = uint32(r.Range(1, nconn))
	}
	return e
}

// ---------------------------------------------------------------------------------------------

func run(a hx.RunArgs) error {
	logrus.SetOutput(io.Discard)
	logrus.SetLevel(logrus.PanicLevel)
	variables.InitStatusVariables()
	variables.InitSystemVariables()
	engine() // built before the first world: creating an engine re-initialises the global status variables

	out := hx.NewOut(a.OutDir)
	defer out.Close()
	out.Rule = "call histories on a fresh sqle.ProcessList: (1) witness corpus, (2) every history up to a length bound over 2 connections x pids {0,1}, " +
		"(3) random histories following the server's calling protocol on 1-4 connections (double EndQuery, error returns of BeginQuery and BeginOperation, KILL of any id), " +
		"(4) the same with one forced failing BeginQuery (the call class of the repaired defect begin_query_error_path), one call of a listed defect class, or one KILL statement aimed at a connection that has work registered, (5) unconstrained random calls, (6) concurrent goroutines, one per connection, plus a killer and a reader. " +
		"Calls are the eight ProcessList methods and, since the SQL layer is covered, the statements KILL QUERY n / KILL CONNECTION n / KILL n / SHOW PROCESSLIST executed through the real engine by a connection as its running query " +
		"(context with this ProcessList and a recording Services.KillConnection; (2b) every history of up to 2 (thorough: 3) direct calls followed by one statement); the list of close requests is part of every observation, " +
		"and every history with a statement is also compared, on the real code alone, with the history in which each statement is replaced by the direct calls it stands for. " +
		"A history is non-trivial when a query was registered and a context was cancelled in it"
	r := hx.NewRand(a.Seed)
	t0 := time.Now()

	seqCase := func(kind string, es []ev, conformant bool) {
		sr := runSeq(es)
		obs, inc, incTag, bad := sr.obs, sr.inconsistent, sr.incTag, sr.badCancel
		nontriv := strings.Contains(obs, ":Q:") && sr.anyCancelled
		id := out.Case(histPayload("seq", es), obs, nontriv)
		out.Stat(kind)
		out.StatN("calls", len(es))
		if strings.Contains(obs, "X|") {
			out.Stat("histories-with-crash")
		}
		nSQL := 0
		for _, e := range es {
			if e.isSQL() {
				nSQL++
				out.Stat("sql-statement-" + e.k)
			}
		}
		if nSQL > 0 {
			out.Stat("histories-with-sql-statement")
			if len(sr.final.closed) > 0 {
				out.Stat("histories-with-close-request")
			}
			if m := sqlOracle(es, sr.final); m != "" {
				out.OracleFail(id, "sql_statement_differs_from_direct_calls", m)
			}
		}
		// model-free oracles: the state part only where the harness knows the history follows the
		// protocol (the region of a listed defect is taken from the model's answer for the case)
		if conformant && inc != "" {
			out.OracleFail(id, incTag, inc)
		}
		if bad != "" {
			out.OracleFail(id, "cancelled_foreign_or_fresh_context", bad)
		}
	}

	// (1) corpus: witnesses first. 0 and 1 are the witnesses of the repaired defect
	// begin_query_error_path (they must pass now, model-free counter oracle included); 2 and 3 are the
	// witnesses of the two listed findings.
	corpus := [][]ev{
		{{k: "bq", c: 1, pid: 1}},
		{{k: "add", c: 1}, {k: "ready", c: 1}, {k: "add", c: 2}, {k: "ready", c: 2}, {k: "bq", c: 1, pid: 1}, {k: "bq", c: 2, pid: 1}},
		{{k: "add", c: 1}, {k: "ready", c: 1}, {k: "bq", c: 1, pid: 1}, {k: "rm", c: 1}, {k: "eq", c: 1, pid: 1}},
		{{k: "add", c: 1}, {k: "bo", c: 1}, {k: "ready", c: 1}, {k: "kill", c: 1}, {k: "eo", c: 1}},
		{{k: "add", c: 1}, {k: "ready", c: 1}, {k: "add", c: 2}, {k: "ready", c: 2}, {k: "bq", c: 1, pid: 1}, {k: "kill", c: 1}, {k: "bo", c: 1},
			{k: "eq", c: 1, pid: 1}, {k: "eq", c: 1, pid: 1}, {k: "bo", c: 2}, {k: "kill", c: 7}, {k: "eo", c: 2}, {k: "bq", c: 2, pid: 2}, {k: "bq", c: 1, pid: 3},
			{k: "kill", c: 2}, {k: "eq", c: 2, pid: 2}, {k: "rm", c: 2}, {k: "eq", c: 1, pid: 3}, {k: "rm", c: 1}},
		// outside the protocol: EndQuery with pid 0 on an idle connection calls a nil Kill
		{{k: "add", c: 1}, {k: "ready", c: 1}, {k: "eq", c: 1, pid: 0}},
		{{k: "add", c: 1}, {k: "ready", c: 1}, {k: "bq", c: 1, pid: 4}, {k: "eo", c: 1}, {k: "eq", c: 1, pid: 4}},
		// Gms.C37.sampleHistoryErr: every error return of BeginQuery, interleaved with successful ones
		{{k: "bq", c: 1, pid: 1}, {k: "add", c: 1}, {k: "ready", c: 1}, {k: "add", c: 2}, {k: "ready", c: 2}, {k: "bq", c: 1, pid: 1}, {k: "bq", c: 2, pid: 1},
			{k: "bq", c: 3, pid: 2}, {k: "eq", c: 1, pid: 1}, {k: "bq", c: 2, pid: 1}, {k: "bq", c: 2, pid: 1}, {k: "eq", c: 2, pid: 1}, {k: "rm", c: 1},
			{k: "bq", c: 1, pid: 4}, {k: "rm", c: 2}},
		// 8..: the SQL layer. 8 = Gms.C37.sampleSqlKillConn: KILL CONNECTION of a connection that is running a
		// query must cancel that query (and ask the server to close exactly that connection)
		{{k: "add", c: 1}, {k: "ready", c: 1}, {k: "add", c: 2}, {k: "ready", c: 2}, {k: "bq", c: 1, pid: 1}, {k: "bq", c: 2, pid: 2},
			{k: "kc", c: 1, pid: 1, t: 2}, {k: "eq", c: 1, pid: 1}},
		// 9 = Gms.C37.sampleSqlHistory: KILL QUERY 2, KILL CONNECTION 3 (busy), KILL 2 (idle by then), SHOW PROCESSLIST, KILL of an unknown id
		{{k: "add", c: 1}, {k: "ready", c: 1}, {k: "add", c: 2}, {k: "ready", c: 2}, {k: "add", c: 3}, {k: "ready", c: 3}, {k: "add", c: 4}, {k: "ready", c: 4},
			{k: "bq", c: 2, pid: 1}, {k: "bq", c: 3, pid: 2}, {k: "bq", c: 4, pid: 3},
			{k: "bq", c: 1, pid: 4}, {k: "kq", c: 1, pid: 4, t: 2}, {k: "eq", c: 1, pid: 4},
			{k: "bq", c: 1, pid: 5}, {k: "kc", c: 1, pid: 5, t: 3}, {k: "eq", c: 1, pid: 5},
			{k: "eq", c: 2, pid: 1},
			{k: "bq", c: 1, pid: 6}, {k: "kd", c: 1, pid: 6, t: 2}, {k: "eq", c: 1, pid: 6},
			{k: "bq", c: 1, pid: 7}, {k: "show", c: 1, pid: 7}, {k: "eq", c: 1, pid: 7},
			{k: "bq", c: 1, pid: 8}, {k: "kc", c: 1, pid: 8, t: 77}, {k: "eq", c: 1, pid: 8},
			{k: "eq", c: 3, pid: 2}, {k: "rm", c: 3}, {k: "eq", c: 4, pid: 3}},
		// 10: KILL (= KILL CONNECTION) reaches a registered operation; 11: a connection kills itself
		{{k: "add", c: 1}, {k: "bo", c: 1}, {k: "add", c: 2}, {k: "ready", c: 2}, {k: "bq", c: 2, pid: 5}, {k: "kd", c: 2, pid: 5, t: 1}, {k: "eq", c: 2, pid: 5}, {k: "eo", c: 1}},
		{{k: "add", c: 1}, {k: "ready", c: 1}, {k: "bq", c: 1, pid: 1}, {k: "kc", c: 1, pid: 1, t: 1}, {k: "eq", c: 1, pid: 1}, {k: "rm", c: 1}},
		// 12: outside the protocol: a statement run with pid 0 on an idle connection (the engine's EndQuery calls a nil Kill)
		{{k: "add", c: 1}, {k: "ready", c: 1}, {k: "kc", c: 1, pid: 0, t: 1}},
	}
	for i, h := range corpus {
		seqCase("corpus", h, i == 0 || i == 1 || i == 4 || i == 7 || (i >= 8 && i <= 11))
	}

	// (2) exhaustive short histories
	var alphabet []ev
	for c := uint32(1); c <= 2; c++ {
		for _, k := range []string{"add", "ready", "rm", "bo", "eo", "kill"} {
			alphabet = append(alphabet, ev{k: k, c: c})
		}
		for pid := uint64(0); pid <= 1; pid++ {
			alphabet = append(alphabet, ev{k: "bq", c: c, pid: pid}, ev{k: "eq", c: c, pid: pid})
		}
	}
	maxLen := 3
	if a.Thorough {
		maxLen = 4
	}
	var enum func(prefix []ev, depth int)
	enum = func(prefix []ev, depth int) {
		if len(prefix) > 0 {
			seqCase("exhaustive", append([]ev(nil), prefix...), false)
		}
		if depth == 0 {
			return
		}
		for _, e := range alphabet {
			enum(append(prefix, e), depth-1)
		}
	}
	enum(nil, maxLen)

	// (2b) every short history of direct calls followed by one SQL statement
	var sqlAlphabet []ev
	for c := uint32(1); c <= 2; c++ {
		for _, pid := range []uint64{1, 0} { // 1 = a query id inside the protocol, 0 = outside (no query id)
			for t := uint32(1); t <= 2; t++ {
				sqlAlphabet = append(sqlAlphabet, ev{k: "kq", c: c, pid: pid, t: t}, ev{k: "kc", c: c, pid: pid, t: t})
			}
			sqlAlphabet = append(sqlAlphabet, ev{k: "show", c: c, pid: pid})
		}
		sqlAlphabet = append(sqlAlphabet, ev{k: "kd", c: c, pid: 1, t: 3 - c})
	}
	var enumSQL func(prefix []ev, depth int)
	enumSQL = func(prefix []ev, depth int) {
		for _, q := range sqlAlphabet {
			seqCase("exhaustive+sql-statement", append(append([]ev(nil), prefix...), q), false)
		}
		if depth == 0 {
			return
		}
		for _, e := range alphabet {
			enumSQL(append(prefix, e), depth-1)
		}
	}
	enumSQL(nil, maxLen-1)

	nProto, nRegion, nMisuse, nConc := 2500, 500, 1500, 150
	if a.Thorough {
		nProto, nRegion, nMisuse, nConc = 60000, 10000, 30000, 4000
	}
	// (3) protocol histories
	for i := 0; i < nProto; i++ {
		g := newGen(r, r.Range(1, 4))
		n := r.Range(4, 40)
		es := make([]ev, 0, n)
		for j := 0; j < n; j++ {
			es = append(es, g.next())
		}
		seqCase("protocol", es, true)
	}
	// (4) protocol histories with one forced failing BeginQuery (the repaired class: must agree with
	// the Spec) or one call in a listed defect class
	for i := 0; i < nRegion; i++ {
		g := newGen(r, r.Range(1, 4))
		n := r.Range(4, 30)
		at := r.Intn(n)
		es := make([]ev, 0, n)
		done := false
		special, kind := g.regionCall, "protocol+defect-class-call"
		switch i % 3 {
		case 0:
			special, kind = g.errorCall, "protocol+failing-begin-query"
		case 1:
			special, kind = g.busyTargetKill, "protocol+kill-statement-on-busy-connection"
		}
		for j := 0; j < n; j++ {
			if j >= at && !done {
				if e, ok := special(); ok {
					es = append(es, e)
					done = true
					continue
				}
			}
			es = append(es, g.next())
		}
		seqCase(kind, es, true)
	}
	// (5) unconstrained calls (correspondence only; the Spec leaves most of them open)
	for i := 0; i < nMisuse; i++ {
		n := r.Range(3, 25)
		nc, np := r.Range(1, 3), r.Range(1, 4)
		es := make([]ev, n)
		for j := range es {
			es[j] = randomCall(r, nc, np)
		}
		seqCase("unconstrained", es, false)
	}
	// (6) concurrent
	for i := 0; i < nConc; i++ {
		ng := r.Range(2, 6)
		streams := make([][]ev, ng)
		var kills []uint32
		for gi := 0; gi < ng; gi++ {
			c := uint32(gi + 1)
			pid := uint64(gi+1) * 1000
			st := []ev{{k: "add", c: c}, {k: "ready", c: c}}
			for j, n := 0, r.Range(1, 12); j < n; j++ {
				switch r.Intn(4) {
				case 0, 1:
					pid++
					st = append(st, ev{k: "bq", c: c, pid: pid})
					if r.Chance(1, 3) {
						st = append(st, ev{k: "kill", c: c})
					}
					st = append(st, ev{k: "eq", c: c, pid: pid})
					if r.Chance(1, 2) {
						st = append(st, ev{k: "eq", c: c, pid: pid})
					}
				case 2:
					st = append(st, ev{k: "bo", c: c}, ev{k: "eo", c: c})
				case 3:
					st = append(st, ev{k: "ready", c: c})
				}
			}
			switch r.Intn(3) {
			case 0:
				st = append(st, ev{k: "rm", c: c})
			case 1:
				pid++
				st = append(st, ev{k: "bq", c: c, pid: pid}) // left running at quiescence
			}
			streams[gi] = st
			for k := r.Intn(6); k > 0; k-- {
				kills = append(kills, uint32(r.Range(1, ng+1)))
			}
		}
		obs, inc, _ := runConc(streams, kills)
		parts := make([]string, len(streams))
		for i, st := range streams {
			ps := make([]string, len(st))
			for j, e := range st {
				ps[j] = e.String()
			}
			parts[i] = "(" + strings.Join(ps, " ") + ")"
		}
		id := out.Case("(conc "+strings.Join(parts, " ")+")", obs, strings.Contains(obs, ":Q:"))
		out.Stat("concurrent")
		if inc != "" {
			out.OracleFail(id, "-", "at quiescence: "+inc)
		}
	}
	out.Extra["wall_s"] = time.Since(t0).Seconds()
	return nil
}
