package main

import (
	"fmt"
	"go/ast"
	"go/token"
	"regexp"
	"strings"

	"github.com/dolthub/go-mysql-server/sql"
	"github.com/dolthub/go-mysql-server/verifharness/hx"
)

// Facts for C18: the action dispatch of ForeignKeyEditor.Update/Delete, the order of their
// phases, the depth tests, the entry depth, the restrict-equivalence table (dumped from the
// compiled code) and three analyzer shapes the model relies on.

var ws = regexp.MustCompile(`\s+`)

func flat(s string) string { return strings.TrimSpace(ws.ReplaceAllString(s, " ")) }

// switchTable renders `switch x.OnDelete { case A: call() … }` as [(label, method called)].
func switchTable(src *hx.Src, sw *ast.SwitchStmt) ([][2]string, error) {
	var out [][2]string
	for _, st := range sw.Body.List {
		cc, ok := st.(*ast.CaseClause)
		if !ok {
			return nil, fmt.Errorf("unexpected switch body")
		}
		callee := ""
		ast.Inspect(cc, func(n ast.Node) bool {
			if ce, ok := n.(*ast.CallExpr); ok && callee == "" {
				if se, ok := ce.Fun.(*ast.SelectorExpr); ok {
					if id, ok := se.X.(*ast.Ident); ok && id.Name == "fkEditor" {
						callee = se.Sel.Name
					}
				}
			}
			return true
		})
		if cc.List == nil {
			out = append(out, [2]string{"default", callee})
			continue
		}
		for _, e := range cc.List {
			out = append(out, [2]string{strings.TrimPrefix(src.Text(e), "sql.ForeignKeyReferentialAction_"), callee})
		}
	}
	return out, nil
}

// phases lists the top-level statements of Update/Delete by kind, and collects the action switches.
func phases(src *hx.Src, fd *ast.FuncDecl, field string) (kinds []string, tables [][][2]string, err error) {
	for _, st := range fd.Body.List {
		switch s := st.(type) {
		case *ast.RangeStmt:
			x := src.Text(s.X)
			k := "range:" + x
			var sw *ast.SwitchStmt
			for _, b := range s.Body.List {
				if w, ok := b.(*ast.SwitchStmt); ok {
					sw = w
				}
			}
			if sw != nil {
				if flat(src.Text(sw.Tag)) != "refActionData.ForeignKey."+field {
					return nil, nil, fmt.Errorf("%s: switch on %s", fd.Name.Name, src.Text(sw.Tag))
				}
				tab, e := switchTable(src, sw)
				if e != nil {
					return nil, nil, e
				}
				tables = append(tables, tab)
				k = "actions"
			}
			kinds = append(kinds, k)
		case *ast.IfStmt:
			t := flat(src.Text(s.Init))
			if strings.Contains(t, "fkEditor.Editor.") {
				kinds = append(kinds, "editor:"+t[strings.Index(t, "fkEditor.Editor.")+len("fkEditor.Editor."):strings.Index(t, "(")])
			} else {
				kinds = append(kinds, "if")
			}
		case *ast.ReturnStmt:
			kinds = append(kinds, "return")
		default:
			kinds = append(kinds, "other")
		}
	}
	return
}

// depthTests returns every comparison `depth <op> <int literal>` of a function, in source order.
func depthTests(fd *ast.FuncDecl) []string {
	var out []string
	ast.Inspect(fd, func(n ast.Node) bool {
		if be, ok := n.(*ast.BinaryExpr); ok {
			if id, ok := be.X.(*ast.Ident); ok && id.Name == "depth" {
				if lit, ok := be.Y.(*ast.BasicLit); ok && lit.Kind == token.INT {
					out = append(out, be.Op.String()+lit.Value)
				}
			}
		}
		return true
	})
	return out
}

func leanPairs(ps [][2]string) string {
	parts := make([]string, len(ps))
	for i, p := range ps {
		parts[i] = fmt.Sprintf("(%s, %s)", hx.LeanString(p[0]), hx.LeanString(p[1]))
	}
	return "[" + strings.Join(parts, ", ") + "]"
}

func extract(a hx.ExtractArgs) error {
	ed, err := hx.ParseSrc(a.Repo, "sql/plan/foreign_key_editor.go")
	if err != nil {
		return err
	}
	hd, err := hx.ParseSrc(a.Repo, "sql/plan/foreign_key_handler.go")
	if err != nil {
		return err
	}
	an, err := hx.ParseSrc(a.Repo, "sql/analyzer/apply_foreign_keys.go")
	if err != nil {
		return err
	}
	lf := hx.NewLeanFile("Gms.Generated.C18", ed.Path, hd.Path, an.Path, "sql/constraints.go (run)")

	for _, spec := range []struct{ fn, field, name string }{{"Delete", "OnDelete", "delete"}, {"Update", "OnUpdate", "update"}} {
		fd, err := ed.Func("ForeignKeyEditor", spec.fn)
		if err != nil {
			return err
		}
		kinds, tabs, err := phases(ed, fd, spec.field)
		if err != nil {
			return err
		}
		if len(tabs) != 2 {
			return fmt.Errorf("ForeignKeyEditor.%s: expected two action switches, found %d", spec.fn, len(tabs))
		}
		lf.DefStringList(spec.name+"Phases", kinds)
		lf.Raw(fmt.Sprintf("def %sBefore : List (String × String) := %s\n", spec.name, leanPairs(tabs[0])))
		lf.Raw(fmt.Sprintf("def %sAfter : List (String × String) := %s\n", spec.name, leanPairs(tabs[1])))
	}
	for _, fn := range []string{"OnDeleteCascade", "OnDeleteSetNull", "OnUpdateCascade", "OnUpdateSetNull"} {
		fd, err := ed.Func("ForeignKeyEditor", fn)
		if err != nil {
			return err
		}
		name := strings.ToLower(fn[:1]) + fn[1:] + "Depth"
		lf.DefStringList(name, depthTests(fd))
		body := flat(ed.Text(fd.Body))
		if strings.HasPrefix(fn, "OnDelete") {
			lf.DefBool(name+"Shape", strings.Contains(body, "if depth >= 15 { if fkEditor.Cyclical { return sql.ErrForeignKeyDepthLimit.New() } else if depth > 15 { return sql.ErrForeignKeyDepthLimit.New() } }"))
		} else {
			lf.DefBool(name+"Shape", strings.Contains(body, "if depth > 15 { return sql.ErrForeignKeyDepthLimit.New() }"))
		}
	}
	// numeric form of the depth tests (both delete actions and both update actions must agree)
	{
		get := func(fn string) []string {
			fd, _ := ed.Func("ForeignKeyEditor", fn)
			return depthTests(fd)
		}
		dc, dn, uc, un := get("OnDeleteCascade"), get("OnDeleteSetNull"), get("OnUpdateCascade"), get("OnUpdateSetNull")
		if len(dc) != 2 || len(uc) != 1 || strings.Join(dc, " ") != strings.Join(dn, " ") || strings.Join(uc, " ") != strings.Join(un, " ") ||
			!strings.HasPrefix(dc[0], ">=") || !strings.HasPrefix(dc[1], ">") || !strings.HasPrefix(uc[0], ">") || strings.HasPrefix(uc[0], ">=") {
			return fmt.Errorf("depth tests changed shape: %v %v %v %v", dc, dn, uc, un)
		}
		var ge, gt, ugt uint64
		fmt.Sscan(dc[0][2:], &ge)
		fmt.Sscan(dc[1][1:], &gt)
		fmt.Sscan(uc[0][1:], &ugt)
		lf.DefNat("delDepthGe", ge)
		lf.DefNat("delDepthGt", gt)
		lf.DefNat("updDepthGt", ugt)
	}
	// entry depth of the handler
	for _, fn := range []string{"Update", "Delete"} {
		fd, err := hd.Func("ForeignKeyHandler", fn)
		if err != nil {
			return err
		}
		m := regexp.MustCompile(`return n\.Editor\.` + fn + `\(ctx, .*, (\d+)\)`).FindStringSubmatch(flat(hd.Text(fd.Body)))
		if m == nil {
			return fmt.Errorf("ForeignKeyHandler.%s: entry call not found", fn)
		}
		var d uint64
		fmt.Sscan(m[1], &d)
		lf.DefNat("handler"+fn+"Depth", d)
	}
	fd, err := hd.Func("ForeignKeyHandler", "Insert")
	if err != nil {
		return err
	}
	lf.DefBool("insertChecksEveryReference", strings.Contains(flat(hd.Text(fd.Body)),
		"for _, reference := range n.Editor.References { if err := reference.CheckReference(ctx, row); err != nil { return err } } return n.Editor.Editor.Insert(ctx, row)"))

	// CheckReference: MATCH SIMPLE — any NULL exempts; self-referential escape
	fd, err = ed.Func("ForeignKeyReferenceHandler", "CheckReference")
	if err != nil {
		return err
	}
	cr := flat(ed.Text(fd.Body))
	lf.DefBool("checkReferenceNullExempts", strings.Contains(cr, "if row[pos] == nil { if matchFull { nullCount++ } else { return nil } }"))
	lf.DefBool("checkReferenceSelfEscape", strings.Contains(cr, "if reference.ForeignKey.IsSelfReferential() { allMatch := true"))
	fd, err = ed.Func("ForeignKeyRowMapper", "GetIter")
	if err != nil {
		return err
	}
	lf.DefBool("getIterNullIsEmpty", strings.Contains(flat(ed.Text(fd.Body)), "if rowVal == nil { return sql.RowsToRowIter(), nil }"))

	// analyzer shapes
	fd, err = an.Func("", "getForeignKeyRefActions")
	if err != nil {
		return err
	}
	ra := flat(an.Text(fd.Body))
	lf.DefBool("revisitedTableUpdateIsRestrict", strings.Contains(ra, "if fkChain.HasTable(fk.Database, fk.SchemaName, fk.Table) { fk.OnUpdate = sql.ForeignKeyReferentialAction_Restrict }"))
	lf.DefBool("cachedEditorMarkedCyclical", strings.Contains(ra, "if cachedFkEditor != nil { cachedFkEditor.Cyclical = true return cachedFkEditor, nil }"))
	lf.DefBool("refActionsCoverEveryReferencingKey", strings.Contains(ra, "fks, err := tbl.GetReferencedForeignKeys(ctx)") &&
		strings.Contains(ra, "RefActions: make([]plan.ForeignKeyRefActionData, len(fks))") &&
		strings.Contains(ra, "fkEditor.RefActions = make([]plan.ForeignKeyRefActionData, len(fks))") &&
		strings.Contains(ra, "for i, fk := range fks {") && strings.Contains(ra, "fkEditor.RefActions[i] = plan.ForeignKeyRefActionData{"))
	fd, err = an.Func("foreignKeyCache", "GetEditor")
	if err != nil {
		return err
	}
	ge := flat(an.Text(fd.Body))
	lf.DefBool("getEditorMatchesByRefCount", strings.Contains(ge, "if len(fkEditor.References) != len(cachedEditor.References) { continue } for i := range fkEditor.References { if fkEditor.References[i].ForeignKey.Name != cachedEditor.References[i].ForeignKey.Name { continue } } return cachedEditor"))
	fd, err = an.Func("", "applyForeignKeys")
	if err != nil {
		return err
	}
	lf.DefBool("checksOffSkipsRule", strings.Contains(flat(an.Text(fd.Body)), "if fkChecks.(int8) == 0 { return n, transform.SameTree, nil }"))
	fd, err = an.Func("", "getForeignKeyReferences")
	if err != nil {
		return err
	}
	lf.DefBool("chainKeysSkippedInReferences", strings.Contains(flat(an.Text(fd.Body)), "if !fkChain.HasForeignKey(fk.Name) { newFks = append(newFks, fk) }"))

	// run time: which actions the compiled code treats as RESTRICT
	var eq [][2]string
	for _, act := range []sql.ForeignKeyReferentialAction{sql.ForeignKeyReferentialAction_DefaultAction, sql.ForeignKeyReferentialAction_Restrict,
		sql.ForeignKeyReferentialAction_NoAction, sql.ForeignKeyReferentialAction_Cascade, sql.ForeignKeyReferentialAction_SetNull, sql.ForeignKeyReferentialAction_SetDefault} {
		eq = append(eq, [2]string{string(act), fmt.Sprint(act.IsEquivalentToRestrict())})
	}
	lf.Raw(fmt.Sprintf("def restrictEquivalent : List (String × String) := %s\n", leanPairs(eq)))
	return lf.Write(a.Out)
}
