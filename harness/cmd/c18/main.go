// C18 — Foreign keys keep referential integrity (sql/plan/foreign_key_editor.go,
// foreign_key_handler.go, sql/analyzer/apply_foreign_keys.go, memory backend).
package main

import (
	"fmt"
	"sort"
	"strings"

	"github.com/dolthub/go-mysql-server/sql"
	"github.com/dolthub/go-mysql-server/verifharness/hx"
	"github.com/dolthub/go-mysql-server/verifharness/hx/eng"
)

func main() { hx.Main(extract, run) }

// ---------------------------------------------------------------------------------------------
// Case description (mirrors Gms.Fk.Schema / Stmt).

type fk struct {
	child, parent int
	ccols, pcols  []int
	onDel, onUpd  byte   // 'r' restrict-like, 'c' cascade, 'n' set null
	delSQL, updSQL string // SQL spelling actually used
}

type schema struct {
	ncols   []int
	notNull [][]int
	fks     []fk
}

type val struct {
	null bool
	v    int
}

func (v val) String() string {
	if v.null {
		return "null"
	}
	return fmt.Sprint(v.v)
}
func (v val) SQL() string {
	if v.null {
		return "NULL"
	}
	return fmt.Sprint(v.v)
}

type pred struct {
	kind string // all eq nul lt
	c, v int
}

type setExpr struct {
	c    int
	kind string // k (constant) | a (col + k)
	v    val
	c2   int
	k    int
}

type stmt struct {
	kind string // ins upd del
	t    int
	rows [][]val
	sets []setExpr
	w    pred
	ord  []int // scan order of the matching rows as the engine reports it (primary keys)
}

func ints(xs []int) string {
	p := make([]string, len(xs))
	for i, x := range xs {
		p[i] = fmt.Sprint(x)
	}
	return "(" + strings.Join(p, " ") + ")"
}

func (s *schema) payload() string {
	var b strings.Builder
	b.WriteString("(tabs")
	for i, n := range s.ncols {
		fmt.Fprintf(&b, " (%d %s)", n, ints(s.notNull[i]))
	}
	b.WriteString(") (fks")
	for _, f := range s.fks {
		fmt.Fprintf(&b, " (%d %s %d %s %c %c)", f.child, ints(f.ccols), f.parent, ints(f.pcols), f.onDel, f.onUpd)
	}
	b.WriteString(")")
	return b.String()
}

func (p pred) payload() string {
	switch p.kind {
	case "eq":
		return fmt.Sprintf("(eq %d %d)", p.c, p.v)
	case "nul":
		return fmt.Sprintf("(nul %d)", p.c)
	case "lt":
		return fmt.Sprintf("(lt %d %d)", p.c, p.v)
	}
	return "(all)"
}

func (p pred) eval(r []val) bool {
	switch p.kind {
	case "eq":
		return !r[p.c].null && r[p.c].v == p.v
	case "nul":
		return r[p.c].null
	case "lt":
		return !r[p.c].null && r[p.c].v < p.v
	}
	return true
}

func (p pred) SQL() string {
	switch p.kind {
	case "eq":
		return fmt.Sprintf(" WHERE c%d = %d", p.c, p.v)
	case "nul":
		return fmt.Sprintf(" WHERE c%d IS NULL", p.c)
	case "lt":
		return fmt.Sprintf(" WHERE c%d < %d", p.c, p.v)
	}
	return ""
}

func (st stmt) payload() string {
	switch st.kind {
	case "ins":
		rows := make([]string, len(st.rows))
		for i, r := range st.rows {
			vs := make([]string, len(r))
			for j, v := range r {
				vs[j] = v.String()
			}
			rows[i] = "(" + strings.Join(vs, " ") + ")"
		}
		return fmt.Sprintf("(ins %d %s)", st.t, strings.Join(rows, " "))
	case "upd":
		sets := make([]string, len(st.sets))
		for i, s := range st.sets {
			if s.kind == "k" {
				sets[i] = fmt.Sprintf("(%d k %s)", s.c, s.v)
			} else {
				sets[i] = fmt.Sprintf("(%d a %d %d)", s.c, s.c2, s.k)
			}
		}
		return fmt.Sprintf("(upd %d (%s) %s (ord %s))", st.t, strings.Join(sets, " "), st.w.payload(), ints(st.ord))
	default:
		return fmt.Sprintf("(del %d %s (ord %s))", st.t, st.w.payload(), ints(st.ord))
	}
}

func (st stmt) SQL() string {
	switch st.kind {
	case "ins":
		rows := make([]string, len(st.rows))
		for i, r := range st.rows {
			vs := make([]string, len(r))
			for j, v := range r {
				vs[j] = v.SQL()
			}
			rows[i] = "(" + strings.Join(vs, ",") + ")"
		}
		return fmt.Sprintf("INSERT INTO t%d VALUES %s", st.t, strings.Join(rows, ","))
	case "upd":
		sets := make([]string, len(st.sets))
		for i, s := range st.sets {
			if s.kind == "k" {
				sets[i] = fmt.Sprintf("c%d = %s", s.c, s.v.SQL())
			} else {
				sets[i] = fmt.Sprintf("c%d = c%d + %d", s.c, s.c2, s.k)
			}
		}
		return fmt.Sprintf("UPDATE t%d SET %s%s", st.t, strings.Join(sets, ", "), st.w.SQL())
	default:
		return fmt.Sprintf("DELETE FROM t%d%s", st.t, st.w.SQL())
	}
}

// ---------------------------------------------------------------------------------------------
// Real engine.

func actSQL(kw string, spelling string) string {
	if spelling == "" {
		return ""
	}
	return " ON " + kw + " " + spelling
}

func colList(cs []int) string {
	p := make([]string, len(cs))
	for i, c := range cs {
		p[i] = fmt.Sprintf("c%d", c)
	}
	return strings.Join(p, ",")
}

type realDb struct {
	e   *eng.Eng
	ctx *sql.Context
	s   *schema
}

// setup creates the tables and tries every constraint; constraints the engine rejects are
// dropped from the schema (the case describes what was really created).
func setup(s *schema, want []fk) *realDb {
	e := eng.New("d")
	ctx := e.Ctx()
	q := func(sqlText string) *eng.Res { return e.Query(eng.SameSession(ctx), sqlText) }
	for t, n := range s.ncols {
		cols := []string{"c0 INT PRIMARY KEY"}
		for c := 1; c < n; c++ {
			nn := ""
			for _, x := range s.notNull[t] {
				if x == c {
					nn = " NOT NULL"
				}
			}
			cols = append(cols, fmt.Sprintf("c%d INT%s", c, nn))
		}
		e.MustExec(eng.SameSession(ctx), fmt.Sprintf("CREATE TABLE t%d (%s)", t, strings.Join(cols, ", ")))
	}
	haveIdx := map[string]bool{}
	mkIdx := func(t int, cs []int) {
		if len(cs) == 1 && cs[0] == 0 {
			return
		}
		k := fmt.Sprintf("%d:%v", t, cs)
		if haveIdx[k] {
			return
		}
		haveIdx[k] = true
		e.MustExec(eng.SameSession(ctx), fmt.Sprintf("CREATE INDEX i%d ON t%d (%s)", len(haveIdx), t, colList(cs)))
	}
	for _, f := range want {
		mkIdx(f.child, f.ccols)
		mkIdx(f.parent, f.pcols)
		r := q(fmt.Sprintf("ALTER TABLE t%d ADD CONSTRAINT f%d FOREIGN KEY (%s) REFERENCES t%d (%s)%s%s",
			f.child, len(s.fks), colList(f.ccols), f.parent, colList(f.pcols), actSQL("DELETE", f.delSQL), actSQL("UPDATE", f.updSQL)))
		if r.Class() == "ok" {
			s.fks = append(s.fks, f)
		}
	}
	return &realDb{e: e, ctx: ctx, s: s}
}

func class(r *eng.Res) string {
	if r.Err != nil && sql.ErrForeignKeyDepthLimit.Is(r.Err) {
		return "err:depth"
	}
	return r.Class()
}

// dump reads every table back (rows sorted) as [][]val per table.
func (d *realDb) dump() [][][]val {
	out := make([][][]val, len(d.s.ncols))
	for t := range d.s.ncols {
		r := d.e.Query(eng.SameSession(d.ctx), fmt.Sprintf("SELECT * FROM t%d ORDER BY c0", t))
		if r.Class() != "ok" {
			out[t] = [][]val{{{v: -999}}}
			continue
		}
		for i, row := range r.Rows {
			vs := make([]val, len(row))
			for j, c := range row {
				if r.Null[i][j] {
					vs[j] = val{null: true}
				} else {
					fmt.Sscan(c, &vs[j].v)
				}
			}
			out[t] = append(out[t], vs)
		}
	}
	return out
}

func fmtDump(d [][][]val) string {
	parts := make([]string, len(d))
	for t, rows := range d {
		rs := make([]string, len(rows))
		for i, r := range rows {
			vs := make([]string, len(r))
			for j, v := range r {
				vs[j] = v.String()
			}
			rs[i] = "[" + strings.Join(vs, ",") + "]"
		}
		sort.Strings(rs)
		parts[t] = fmt.Sprintf("t%d=%s", t, strings.Join(rs, ""))
	}
	return strings.Join(parts, "/")
}

// riHolds evaluates the property itself on a dump, without any model: every child row whose
// key has no NULL must have a parent row with that key.
func riHolds(s *schema, d [][][]val) (bool, string) {
	for i, f := range s.fks {
		for _, c := range d[f.child] {
			null := false
			for _, cc := range f.ccols {
				if c[cc].null {
					null = true
				}
			}
			if null {
				continue
			}
			found := false
			for _, p := range d[f.parent] {
				eq := true
				for j := range f.ccols {
					if p[f.pcols[j]].null || p[f.pcols[j]].v != c[f.ccols[j]].v {
						eq = false
					}
				}
				if eq {
					found = true
					break
				}
			}
			if !found {
				return false, fmt.Sprintf("f%d: row %v of t%d has no parent in t%d", i, c, f.child, f.parent)
			}
		}
	}
	return true, ""
}

// ---------------------------------------------------------------------------------------------
// Generators.

var restrictSpellings = []string{"", "RESTRICT", "NO ACTION"}

func genAct(r *hx.Rand, allowSetNull bool) (byte, string) {
	switch x := r.Intn(10); {
	case x < 4:
		return 'r', hx.Pick(r, restrictSpellings)
	case x < 7 || !allowSetNull:
		return 'c', "CASCADE"
	default:
		return 'n', "SET NULL"
	}
}

func contains(xs []int, x int) bool {
	for _, y := range xs {
		if y == x {
			return true
		}
	}
	return false
}

// genSchema draws tables and wanted constraints. shape: 0 random graph, 1 chain, 2 self-reference,
// 3 diamond, 4 two-table cycle. noOverlap: no column takes part in two constraint roles.
func genSchema(r *hx.Rand, shape int, noOverlap bool) (*schema, []fk) {
	nt := 1 + r.Intn(4)
	switch shape {
	case 1:
		nt = 2 + r.Intn(3)
	case 2:
		nt = 1 + r.Intn(2)
	case 3:
		nt = 4
	case 4:
		nt = 2 + r.Intn(2)
	}
	s := &schema{}
	for t := 0; t < nt; t++ {
		s.ncols = append(s.ncols, 2+r.Intn(3))
		s.notNull = append(s.notNull, nil)
	}
	used := map[[2]int]bool{} // (table, col) already in some role
	free := func(t, c int) bool { return !noOverlap || !used[[2]int{t, c}] }
	var want []fk
	add := func(child, parent int) {
		ar := 1
		if r.Chance(1, 5) && s.ncols[child] >= 3 && s.ncols[parent] >= 3 {
			ar = 2
		}
		var cc, pc []int
		// parent columns: mostly the primary key
		if ar == 1 {
			if r.Chance(3, 4) {
				pc = []int{0}
			} else {
				pc = []int{1 + r.Intn(s.ncols[parent]-1)}
			}
		} else {
			a := r.Intn(s.ncols[parent])
			b := (a + 1 + r.Intn(s.ncols[parent]-1)) % s.ncols[parent]
			pc = []int{a, b}
		}
		for i := 0; i < ar; i++ {
			for try := 0; try < 8; try++ {
				c := 1 + r.Intn(s.ncols[child]-1)
				if r.Chance(1, 12) {
					c = 0
				}
				if !contains(cc, c) && free(child, c) && !(child == parent && contains(pc, c)) {
					cc = append(cc, c)
					break
				}
			}
		}
		if len(cc) != ar {
			return
		}
		for _, c := range pc {
			if !free(parent, c) && !(len(pc) == 1 && c == 0) {
				return
			}
		}
		setNullOK := !contains(cc, 0)
		for _, c := range cc {
			if contains(s.notNull[child], c) {
				setNullOK = false
			}
		}
		f := fk{child: child, parent: parent, ccols: cc, pcols: pc}
		f.onDel, f.delSQL = genAct(r, setNullOK)
		f.onUpd, f.updSQL = genAct(r, setNullOK)
		for _, c := range cc {
			used[[2]int{child, c}] = true
		}
		for _, c := range pc {
			if c != 0 {
				used[[2]int{parent, c}] = true
			}
		}
		want = append(want, f)
	}
	switch shape {
	case 1:
		for t := 1; t < nt; t++ {
			add(t, t-1)
		}
	case 2:
		add(0, 0)
		if nt > 1 {
			add(1, 0)
		}
	case 3:
		add(1, 0)
		add(2, 0)
		add(3, 1)
		add(3, 2)
	case 4:
		add(1, 0)
		add(0, 1)
		if nt > 2 {
			add(2, 1)
		}
	default:
		n := 1 + r.Intn(5)
		for i := 0; i < n; i++ {
			add(r.Intn(nt), r.Intn(nt))
		}
	}
	// NOT NULL on some columns that no SET NULL constraint writes
	for t := 0; t < nt; t++ {
		for c := 1; c < s.ncols[t]; c++ {
			if !r.Chance(1, 6) {
				continue
			}
			ok := true
			for _, f := range want {
				if f.child == t && contains(f.ccols, c) && (f.onDel == 'n' || f.onUpd == 'n') {
					ok = false
				}
			}
			if ok {
				s.notNull[t] = append(s.notNull[t], c)
			}
		}
	}
	return s, want
}

func genVal(r *hx.Rand, dom int, nullable bool) val {
	if nullable && r.Chance(1, 6) {
		return val{null: true}
	}
	return val{v: 1 + r.Intn(dom)}
}

func genPred(r *hx.Rand, s *schema, t, dom int) pred {
	c := r.Intn(s.ncols[t])
	switch x := r.Intn(10); {
	case x < 6:
		return pred{kind: "eq", c: c, v: 1 + r.Intn(dom)}
	case x < 7:
		return pred{kind: "nul", c: c}
	case x < 8:
		return pred{kind: "lt", c: c, v: 1 + r.Intn(dom+1)}
	}
	return pred{kind: "all"}
}

// genStmt draws the next statement knowing the current contents (cur), so that most child rows
// reference existing parents and most predicates hit existing rows.
func genStmt(r *hx.Rand, s *schema, dom int, phase int, cur [][][]val) stmt {
	// tables that take part in some constraint get most of the statements
	var involved []int
	for t := range s.ncols {
		for _, f := range s.fks {
			if f.child == t || f.parent == t {
				involved = append(involved, t)
				break
			}
		}
	}
	t := r.Intn(len(s.ncols))
	if len(involved) > 0 && r.Chance(9, 10) {
		t = hx.Pick(r, involved)
	}
	x := r.Intn(100)
	if phase == 0 {
		// population phase: inserts, into the table with the fewest still-empty parents first
		x = 0
		best, bestScore := t, 1<<30
		cands := involved
		if len(cands) == 0 {
			cands = []int{t}
		}
		for _, c := range cands {
			score := 3 * len(cur[c])
			for _, f := range s.fks {
				if f.child == c && f.parent != c && len(cur[f.parent]) == 0 {
					score += 10
				}
			}
			score += r.Intn(3)
			if score < bestScore {
				best, bestScore = c, score
			}
		}
		t = best
	}
	pickRow := func(t int) []val {
		if len(cur[t]) == 0 {
			return nil
		}
		return cur[t][r.Intn(len(cur[t]))]
	}
	hitPred := func(t int) pred {
		if row := pickRow(t); row != nil && r.Chance(3, 4) {
			c := r.Intn(s.ncols[t])
			if r.Chance(1, 2) {
				c = 0
			}
			if row[c].null {
				return pred{kind: "nul", c: c}
			}
			return pred{kind: "eq", c: c, v: row[c].v}
		}
		return genPred(r, s, t, dom)
	}
	switch {
	case x < 35:
		n := 1 + r.Intn(3)
		st := stmt{kind: "ins", t: t}
		for i := 0; i < n; i++ {
			row := make([]val, s.ncols[t])
			row[0] = val{v: 1 + r.Intn(dom+3)}
			if r.Chance(5, 6) { // mostly a fresh key
				usedPk := map[int]bool{}
				for _, x := range cur[t] {
					usedPk[x[0].v] = true
				}
				for _, x := range st.rows {
					usedPk[x[0].v] = true
				}
				for try := 0; try < 6 && usedPk[row[0].v]; try++ {
					row[0] = val{v: 1 + r.Intn(dom+5)}
				}
			}
			for c := 1; c < len(row); c++ {
				row[c] = genVal(r, dom, !contains(s.notNull[t], c) || r.Chance(1, 20))
			}
			// point most child keys at an existing parent row (or at an earlier row of this statement)
			for _, f := range s.fks {
				if f.child != t || !r.Chance(4, 5) {
					continue
				}
				var p []val
				if f.parent == t && len(st.rows) > 0 && r.Chance(1, 2) {
					p = st.rows[r.Intn(len(st.rows))]
				} else if f.parent == t && r.Chance(1, 6) {
					p = row
				} else {
					p = pickRow(f.parent)
				}
				if p == nil {
					// no parent yet: NULL where the column allows it
					for _, cc := range f.ccols {
						if cc != 0 && !contains(s.notNull[t], cc) {
							row[cc] = val{null: true}
						}
					}
					continue
				}
				for j, cc := range f.ccols {
					if cc != 0 || r.Chance(1, 2) {
						row[cc] = p[f.pcols[j]]
					}
				}
			}
			if row[0].null {
				row[0] = val{v: 1 + r.Intn(dom+3)}
			}
			st.rows = append(st.rows, row)
		}
		return st
	case x < 70:
		st := stmt{kind: "upd", t: t, w: hitPred(t)}
		n := 1 + r.Intn(2)
		for i := 0; i < n; i++ {
			c := r.Intn(s.ncols[t])
			// prefer columns that play a role in some constraint
			for try := 0; try < 3; try++ {
				role := false
				for _, f := range s.fks {
					if (f.child == t && contains(f.ccols, c)) || (f.parent == t && contains(f.pcols, c)) {
						role = true
					}
				}
				if role {
					break
				}
				c = r.Intn(s.ncols[t])
			}
			switch y := r.Intn(8); {
			case y < 2:
				st.sets = append(st.sets, setExpr{c: c, kind: "a", c2: r.Intn(s.ncols[t]), k: r.Intn(3)})
			case y < 5:
				// an existing parent key for a child column, if there is one
				v := genVal(r, dom+2, c != 0)
				for _, f := range s.fks {
					if f.child == t && contains(f.ccols, c) {
						if p := pickRow(f.parent); p != nil {
							for j, cc := range f.ccols {
								if cc == c {
									v = p[f.pcols[j]]
								}
							}
						}
					}
				}
				if c == 0 && v.null {
					v = val{v: 1 + r.Intn(dom+3)}
				}
				st.sets = append(st.sets, setExpr{c: c, kind: "k", v: v})
			default:
				st.sets = append(st.sets, setExpr{c: c, kind: "k", v: genVal(r, dom+3, c != 0)})
			}
		}
		return st
	default:
		return stmt{kind: "del", t: t, w: hitPred(t)}
	}
}

// ---------------------------------------------------------------------------------------------

type failure struct{ tag, desc string }

type caseOut struct {
	obs      string
	nontriv  bool
	failures []failure
}

// cyclicTables: tables that lie on a cycle of the constraint graph (self references included). A
// statement on such a table makes the engine look the table up through its own editor while the
// statement is still scanning it.
func cyclicTables(s *schema) []bool {
	n := len(s.ncols)
	reach := make([][]bool, n)
	for i := range reach {
		reach[i] = make([]bool, n)
	}
	for _, f := range s.fks {
		reach[f.child][f.parent] = true
	}
	for k := 0; k < n; k++ {
		for i := 0; i < n; i++ {
			for j := 0; j < n; j++ {
				if reach[i][k] && reach[k][j] {
					reach[i][j] = true
				}
			}
		}
	}
	out := make([]bool, n)
	for i := range out {
		out[i] = reach[i][i]
	}
	return out
}

// staleIterationHazard is the region predicate of finding cyclic_cascade_iterates_stale_index,
// decided on the statement, the schema and the contents before it: the statement is a DELETE or
// UPDATE, some table C reachable from its target through constraints with a CASCADE / SET NULL
// action lies on a cycle of such constraints (a self reference is a cycle), and two rows of C
// carry the same NULL-free key of such a constraint — so the engine iterates over several child
// rows of C (through an index copy whose entries are shared with the live table) while nested
// actions edit C.
func staleIterationHazard(s *schema, st stmt, cur [][][]val) bool {
	if st.kind == "ins" {
		return false
	}
	n := len(s.ncols)
	active := func(f fk) bool { return f.onDel != 'r' || f.onUpd != 'r' }
	reach := make([][]bool, n) // parent -> child along active constraints
	for i := range reach {
		reach[i] = make([]bool, n)
	}
	for _, f := range s.fks {
		if active(f) {
			reach[f.parent][f.child] = true
		}
	}
	for k := 0; k < n; k++ {
		for i := 0; i < n; i++ {
			for j := 0; j < n; j++ {
				if reach[i][k] && reach[k][j] {
					reach[i][j] = true
				}
			}
		}
	}
	for c := 0; c < n; c++ {
		if !(c == st.t || reach[st.t][c]) || !reach[c][c] {
			continue
		}
		for _, f := range s.fks {
			if f.child != c || !active(f) {
				continue
			}
			seen := map[string]bool{}
			for _, row := range cur[c] {
				null := false
				k := ""
				for _, cc := range f.ccols {
					if row[cc].null {
						null = true
					}
					k += row[cc].String() + ","
				}
				if null {
					continue
				}
				if seen[k] {
					return true
				}
				seen[k] = true
			}
		}
	}
	return false
}

// indexProbe compares index-driven reads with the table contents: for every constraint column
// list and every value combination present (and IS NULL for single columns) the rows returned by
// `SELECT … WHERE cols = vals` must be the rows of the dump with these values.
func (d *realDb) indexProbe(cur [][][]val) (int, string) {
	seen := map[string]bool{}
	probe := func(t int, cols []int) string {
		k := fmt.Sprintf("%d:%v", t, cols)
		if seen[k] {
			return ""
		}
		seen[k] = true
		combos := map[string][]val{}
		for _, r := range cur[t] {
			vs := make([]val, len(cols))
			for i, c := range cols {
				vs[i] = r[c]
			}
			combos[fmt.Sprint(vs)] = vs
		}
		if len(cols) == 1 {
			combos["null"] = []val{{null: true}}
		}
		keys := make([]string, 0, len(combos))
		for k := range combos {
			keys = append(keys, k)
		}
		sort.Strings(keys)
		for _, k := range keys {
			vs := combos[k]
			conds := make([]string, len(cols))
			for i, c := range cols {
				if vs[i].null {
					conds[i] = fmt.Sprintf("c%d IS NULL", c)
				} else {
					conds[i] = fmt.Sprintf("c%d = %d", c, vs[i].v)
				}
			}
			q := fmt.Sprintf("SELECT * FROM t%d WHERE %s", t, strings.Join(conds, " AND "))
			r := d.e.Query(eng.SameSession(d.ctx), q)
			var got []string
			for i, row := range r.Rows {
				cells := make([]string, len(row))
				for j, c := range row {
					if r.Null[i][j] {
						cells[j] = "null"
					} else {
						cells[j] = c
					}
				}
				got = append(got, "["+strings.Join(cells, ",")+"]")
			}
			var want []string
			for _, row := range cur[t] {
				ok := true
				for i, c := range cols {
					if row[c].null != vs[i].null || (!vs[i].null && row[c].v != vs[i].v) {
						ok = false
					}
				}
				if ok {
					cells := make([]string, len(row))
					for j, v := range row {
						cells[j] = v.String()
					}
					want = append(want, "["+strings.Join(cells, ",")+"]")
				}
			}
			sort.Strings(got)
			sort.Strings(want)
			if r.Class() != "ok" || strings.Join(got, "") != strings.Join(want, "") {
				return fmt.Sprintf("%s returns %s %v, the table holds %v", q, r.Class(), got, want)
			}
		}
		return ""
	}
	for _, f := range d.s.fks {
		if m := probe(f.child, f.ccols); m != "" {
			return f.child, m
		}
		if m := probe(f.parent, f.pcols); m != "" {
			return f.parent, m
		}
	}
	return -1, ""
}

// activeReach[i][j]: table j is reachable from table i through constraints (parent -> child) that
// carry a CASCADE / SET NULL action.
func activeReach(s *schema) [][]bool {
	n := len(s.ncols)
	reach := make([][]bool, n)
	for i := range reach {
		reach[i] = make([]bool, n)
	}
	for _, f := range s.fks {
		if f.onDel != 'r' || f.onUpd != 'r' {
			reach[f.parent][f.child] = true
		}
	}
	for k := 0; k < n; k++ {
		for i := 0; i < n; i++ {
			for j := 0; j < n; j++ {
				if reach[i][k] && reach[k][j] {
					reach[i][j] = true
				}
			}
		}
	}
	return reach
}

func runCase(s *schema, want []fk, nst int, next func(i int, cur [][][]val) stmt, out *hx.Out) (payload string, co caseOut) {
	d := setup(s, want)
	var sb strings.Builder
	before := d.dump()
	cascaded, rejected := false, false
	var parts []string
	cyc := cyclicTables(s)
	for i := 0; i < nst; i++ {
		st := next(i, before)
		if st.kind != "ins" {
			// rows the statement will visit, evaluated on the dump
			var hit [][]val
			for _, row := range before[st.t] {
				if st.w.eval(row) {
					hit = append(hit, row)
				}
			}
			if len(hit) >= 2 && cyc[st.t] && !(st.kind == "del" && st.w.kind == "all") {
				// envelope: the engine scans the table while its own referential lookups apply the pending
				// edits to it; which rows a multi-row statement then visits depends on iterator internals
				// (rows are skipped or visited stale). One row at a time on cyclic tables.
				st.w = pred{kind: "eq", c: 0, v: hit[0][0].v}
				hit = hit[:1]
				out.Stat("narrowed-to-one-row")
			}
			if len(hit) >= 2 && st.w.kind != "all" {
				r := d.e.Query(eng.SameSession(d.ctx), fmt.Sprintf("SELECT * FROM t%d%s", st.t, st.w.SQL()))
				for _, row := range r.Rows {
					var k int
					fmt.Sscan(row[0], &k)
					st.ord = append(st.ord, k)
				}
			}
			if len(hit) >= 2 {
				out.Stat("multi-row-" + st.kind)
			}
		}
		if staleIterationHazard(s, st, before) {
			// outside what the model can predict (finding cyclic_cascade_iterates_stale_index): the
			// statement is run and judged by the model-free oracle only, and ends the case.
			out.Stat("hazard-stmt")
			r := d.e.Query(eng.SameSession(d.ctx), st.SQL())
			after := d.dump()
			if ok, why := riHolds(s, after); !ok {
				co.failures = append(co.failures, failure{"cyclic_cascade_iterates_stale_index",
					fmt.Sprintf("after the case's statements, %s -> %s on %s leaves %s: %s", st.SQL(), class(r), fmtDump(before), fmtDump(after), why)})
				out.Stat("hazard-stmt-broke-ri")
			}
			break
		}
		parts = append(parts, st.payload())
		r := d.e.Query(eng.SameSession(d.ctx), st.SQL())
		cl := class(r)
		after := d.dump()
		ri, why := riHolds(s, after)
		riS := "1"
		if !ri {
			riS = "0"
			co.failures = append(co.failures, failure{"-", fmt.Sprintf("stmt %d (%s): %s", i, st.SQL(), why)})
		}
		if cl != "ok" && fmtDump(before) != fmtDump(after) {
			co.failures = append(co.failures, failure{"-", fmt.Sprintf("stmt %d (%s) failed with %s but changed the data: %s -> %s", i, st.SQL(), cl, fmtDump(before), fmtDump(after))})
		}
		stop := false
		if cl != "ok" {
			// a failed statement must have no effect, also not on index-driven reads
			if tc, m := d.indexProbe(after); m != "" {
				// region predicate: the damaged table is the statement's own table and lies on a constraint
				// cycle (its editor is looked up while it holds pending edits), or it receives the statement's
				// referential actions (its pending edits are applied by the next visited row's lookup)
				tag := "-"
				if (tc == st.t && cyc[st.t]) || activeReach(s)[st.t][tc] {
					tag = "failed_stmt_corrupts_index"
				}
				co.failures = append(co.failures, failure{tag, fmt.Sprintf("stmt %d (%s) failed with %s and left an index inconsistent: %s", i, st.SQL(), cl, m)})
				out.Stat("index-corrupted-after-failed-stmt")
				stop = true // the rest of the history would run on a corrupted table
			}
		}
		// non-trivial: a referential action changed another table, or a key check rejected a statement
		if cl == "ok" {
			for t := range after {
				if t != st.t && fmtDump(after[t:t+1]) != fmtDump(before[t:t+1]) {
					cascaded = true
				}
			}
			if st.kind == "del" && len(after[st.t])+1 < len(before[st.t]) {
				cascaded = true
			}
		}
		if cl == "err:1451" || cl == "err:1452" || cl == "err:depth" {
			rejected = true
		}
		out.Stat("stmt:" + st.kind)
		out.Stat("class:" + cl)
		fmt.Fprintf(&sb, "%s;%s;ri=%s|", cl, fmtDump(after), riS)
		before = after
		if stop {
			break
		}
	}
	if cascaded {
		out.Stat("case:cascaded")
	}
	if rejected {
		out.Stat("case:rejected")
	}
	out.StatN("fks", len(s.fks))
	co.obs = sb.String()
	co.nontriv = cascaded || rejected
	return s.payload() + " (stmts " + strings.Join(parts, " ") + ")", co
}

func iv(v int) val  { return val{v: v} }
func nv() val       { return val{null: true} }
func row(vs ...val) []val { return vs }

func run(a hx.RunArgs) error {
	out := hx.NewOut(a.OutDir)
	defer out.Close()
	out.Rule = "DML histories (INSERT multi-row / UPDATE with constant or col+k assignments / DELETE, WHERE = | IS NULL | < | none) over generated " +
		"foreign-key graphs (1-4 tables with integer primary key, 1-5 single- or two-column constraints, chains, diamonds, self references, cycles, " +
		"actions none/RESTRICT/NO ACTION/CASCADE/SET NULL) run through Engine.Query on a fresh in-memory database; after every statement the " +
		"outcome class, all tables and the model-free referential-integrity check are observed; non-trivial = a referential action changed " +
		"another table (or several rows of a self-referencing one) or a key check rejected a statement"
	// hx.NewRand(seed) streams are shifts of one another (state = seed*γ + k, step = γ): derive the
	// generator from an output of the seed's stream so that different seeds explore different cases
	r := hx.NewRand(hx.NewRand(a.Seed).U64())
	emitGen := func(s *schema, want []fk, nst int, next func(i int, cur [][][]val) stmt) {
		payload, co := runCase(s, want, nst, next, out)
		id := out.Case(payload, co.obs, co.nontriv)
		for _, f := range co.failures {
			out.OracleFail(id, f.tag, f.desc)
		}
	}
	emit := func(s *schema, want []fk, stmts []stmt) {
		payload, co := runCase(s, want, len(stmts), func(i int, _ [][][]val) stmt { return stmts[i] }, out)
		id := out.Case(payload, co.obs, co.nontriv)
		for _, f := range co.failures {
			out.OracleFail(id, f.tag, f.desc)
		}
	}

	// corpus ------------------------------------------------------------------------------------
	selfRef := func() (*schema, []fk) {
		return &schema{ncols: []int{2}, notNull: [][]int{nil}}, []fk{{child: 0, parent: 0, ccols: []int{1}, pcols: []int{0}, onDel: 'r', onUpd: 'r'}}
	}
	{ // witness of finding selfref_update_moves_key: UPDATE u SET id = 2, p = 1 WHERE id = 1 on (1,NULL)
		s, w := selfRef()
		emit(s, w, []stmt{
			{kind: "ins", t: 0, rows: [][]val{row(iv(1), nv())}},
			{kind: "upd", t: 0, sets: []setExpr{{c: 0, kind: "k", v: iv(2)}, {c: 1, kind: "k", v: iv(1)}}, w: pred{kind: "eq", c: 0, v: 1}},
		})
	}
	{ // witness of finding failed_stmt_on_cyclic_table_corrupts_index
		s, w := selfRef()
		emit(s, w, []stmt{
			{kind: "ins", t: 0, rows: [][]val{row(iv(1), nv()), row(iv(3), nv()), row(iv(4), iv(1))}},
			{kind: "ins", t: 0, rows: [][]val{row(iv(0), iv(1)), row(iv(6), iv(99))}},
		})
	}
	{ // witness of finding cyclic_cascade_iterates_stale_index
		s := &schema{ncols: []int{2}, notNull: [][]int{nil}}
		w := []fk{{child: 0, parent: 0, ccols: []int{1}, pcols: []int{0}, onDel: 'c', onUpd: 'r', delSQL: "CASCADE"}}
		emit(s, w, []stmt{
			{kind: "ins", t: 0, rows: [][]val{row(iv(4), nv()), row(iv(5), iv(4)), row(iv(7), iv(4)), row(iv(2), iv(5)), row(iv(6), iv(2))}},
			{kind: "del", t: 0, w: pred{kind: "eq", c: 0, v: 4}},
		})
	}
	{ // witness of finding shared_child_column_update_cascade
		s := &schema{ncols: []int{2, 2, 2}, notNull: [][]int{nil, nil, nil}}
		w := []fk{
			{child: 0, parent: 1, ccols: []int{1}, pcols: []int{1}, onDel: 'r', onUpd: 'c', updSQL: "CASCADE"},
			{child: 2, parent: 0, ccols: []int{1}, pcols: []int{1}, onDel: 'r', onUpd: 'r'},
			{child: 0, parent: 1, ccols: []int{1}, pcols: []int{0}, onDel: 'r', onUpd: 'c', updSQL: "CASCADE"},
		}
		emit(s, w, []stmt{
			{kind: "ins", t: 1, rows: [][]val{row(iv(1), iv(1))}},
			{kind: "ins", t: 0, rows: [][]val{row(iv(1), iv(1))}},
			{kind: "upd", t: 1, sets: []setExpr{{c: 0, kind: "k", v: iv(3)}}, w: pred{kind: "eq", c: 0, v: 1}},
		})
	}
	{ // self-referencing row: insert allowed, delete/update of the key blocked
		s, w := selfRef()
		emit(s, w, []stmt{
			{kind: "ins", t: 0, rows: [][]val{row(iv(7), iv(7))}},
			{kind: "del", t: 0, w: pred{kind: "eq", c: 0, v: 7}},
			{kind: "upd", t: 0, sets: []setExpr{{c: 0, kind: "k", v: iv(8)}, {c: 1, kind: "k", v: iv(8)}}, w: pred{kind: "all"}},
			{kind: "ins", t: 0, rows: [][]val{row(iv(1), iv(5))}},
			{kind: "ins", t: 0, rows: [][]val{row(iv(1), nv()), row(iv(5), iv(1))}},
		})
	}
	// depth limit: a self-referencing chain of n rows deleted from its head by ON DELETE CASCADE / SET NULL
	for _, n := range []int{13, 14, 15, 16, 17} {
		for _, act := range []byte{'c', 'n'} {
			spelling := map[byte]string{'c': "CASCADE", 'n': "SET NULL"}[act]
			s := &schema{ncols: []int{2}, notNull: [][]int{nil}}
			w := []fk{{child: 0, parent: 0, ccols: []int{1}, pcols: []int{0}, onDel: act, onUpd: 'r', delSQL: spelling}}
			var rows [][]val
			rows = append(rows, row(iv(1), nv()))
			for i := 2; i <= n; i++ {
				rows = append(rows, row(iv(i), iv(i-1)))
			}
			emit(s, w, []stmt{{kind: "ins", t: 0, rows: rows}, {kind: "del", t: 0, w: pred{kind: "eq", c: 0, v: 1}}})
		}
	}
	// depth limit on a non-cyclical chain of tables is not reachable with ≤ 4 tables; update cascades through
	// a chain on the same column:
	{
		s := &schema{ncols: []int{2, 2, 2}, notNull: [][]int{nil, nil, nil}}
		w := []fk{
			{child: 1, parent: 0, ccols: []int{1}, pcols: []int{0}, onDel: 'c', onUpd: 'c', delSQL: "CASCADE", updSQL: "CASCADE"},
			{child: 2, parent: 1, ccols: []int{1}, pcols: []int{1}, onDel: 'n', onUpd: 'c', delSQL: "SET NULL", updSQL: "CASCADE"},
		}
		emit(s, w, []stmt{
			{kind: "ins", t: 0, rows: [][]val{row(iv(1), iv(0)), row(iv(2), iv(0))}},
			{kind: "ins", t: 1, rows: [][]val{row(iv(1), iv(1)), row(iv(2), iv(1)), row(iv(3), iv(2))}},
			{kind: "ins", t: 2, rows: [][]val{row(iv(1), iv(1)), row(iv(2), iv(2)), row(iv(3), nv())}},
			{kind: "upd", t: 0, sets: []setExpr{{c: 0, kind: "k", v: iv(5)}}, w: pred{kind: "eq", c: 0, v: 1}},
			{kind: "del", t: 0, w: pred{kind: "eq", c: 0, v: 5}},
			{kind: "del", t: 0, w: pred{kind: "all"}},
		})
	}

	// random ------------------------------------------------------------------------------------
	n := 700
	if a.Thorough {
		n = 22000
	}
	for i := 0; i < n; i++ {
		shape := r.Intn(7)
		if shape > 4 {
			shape = 0
		}
		noOverlap := r.Chance(1, 2)
		s, want := genSchema(r, shape, noOverlap)
		dom := 2 + r.Intn(3)
		nst := 8 + r.Intn(9)
		out.Stat(fmt.Sprintf("shape:%d", shape))
		if noOverlap {
			out.Stat("noOverlap")
		}
		emitGen(s, want, nst, func(j int, cur [][][]val) stmt {
			ph := 1
			if j < 2+nst/4 {
				ph = 0
			}
			return genStmt(r, s, dom, ph, cur)
		})
	}
	return nil
}
