package main

import (
	"fmt"
	"os"

	"github.com/dolthub/go-mysql-server/verifharness/hx/eng"
)

func main() {
	e := eng.New("d")
	ctx := e.Ctx()
	e.MustExec(ctx, "CREATE TABLE t0 (pk INT PRIMARY KEY, a TINYINT, b TINYINT, KEY ia (a))", "CREATE TABLE u0 (pk INT, a TINYINT, b TINYINT)",
		"INSERT INTO t0 VALUES (1,-128,1),(2,126,2),(3,-2,3),(4,1,4),(5,NULL,5),(6,127,6)", "INSERT INTO u0 VALUES (1,-128,1),(2,126,2),(3,-2,3),(4,1,4),(5,NULL,5),(6,127,6)")
	for _, q := range os.Args[1:] {
		for _, t := range []string{"t0", "u0"} {
			r := e.Query(e.Ctx(), fmt.Sprintf(q, t))
			fmt.Printf("%s\n   => %s panic=%q err=%v\n", fmt.Sprintf(q, t), eng.Canon(r, false), r.Panic, r.Err)
		}
	}
}
