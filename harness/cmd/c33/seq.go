// C33 — per-node state across the rows of one statement.
//
// The Regexp* expression nodes keep a compiled regex (and, when every argument is a constant, the
// result) between the Eval calls of one statement. A case of this file is a *sequence*: ONE node,
// built by the registry constructor over column references (GetField) and/or literals, evaluated on
// successive rows whose pattern / match_type / subject values change from row to row; consecutive
// rows share the pattern but not the flags, the flags but not the pattern, both, or neither. The
// Lean driver runs the same rows through its model of the node (Gms.RegexFn.runRows); the
// model-free oracle is row independence: every row must get the result it gets on a node of its
// own (same shape, and the all-literal call). The same sequences are also run as SQL statements
// over a table t(id, s, p, f): ascending and descending order, and behind WHERE filters.
package main

import (
	"fmt"
	"strconv"
	"strings"
	"unicode"

	"github.com/dolthub/go-mysql-server/sql"
	"github.com/dolthub/go-mysql-server/sql/expression"
	"github.com/dolthub/go-mysql-server/sql/types"
	"github.com/dolthub/go-mysql-server/verifharness/hx"
	"github.com/dolthub/go-mysql-server/verifharness/hx/eng"
)

type seqRow struct {
	text  sarg
	pat   sarg
	flags *sarg // nil: the call has no match_type argument (all rows alike)
	rep   sarg
	ints  []iarg
}

type seqSpec struct {
	fn             string
	tc, pc, fc, rc bool // which arguments are literals (constants of the statement): text, pattern, flags, rest
	rows           []seqRow
}

func (r seqRow) call(fn string) call {
	return call{fn: fn, text: r.text, pat: r.pat, rep: r.rep, ints: r.ints, flags: r.flags}
}

func b01(b bool) string {
	if b {
		return "1"
	}
	return "0"
}

func sargKey(a sarg) string {
	if a.null {
		return "N"
	}
	return "S" + a.s
}

// payload renders the sequence for the driver: per row the classes, the identities of the pattern
// and flags values, and the matcher table of (pattern, flags, text).
func (w *world) seqPayload(head string, sp seqSpec) string {
	pid, fid := map[string]int{}, map[string]int{}
	idOf := func(m map[string]int, k string) int {
		if v, ok := m[k]; ok {
			return v
		}
		m[k] = len(m)
		return m[k]
	}
	rows := make([]string, len(sp.rows))
	for i, r := range sp.rows {
		c := r.call(sp.fn)
		patCls, flagCls, tbl := w.classes(c)
		f := 0
		if r.flags != nil {
			f = idOf(fid, sargKey(*r.flags))
		}
		rep := "null"
		if sp.fn == "replace" {
			rep = r.rep.sexp()
		}
		ints := make([]string, len(r.ints))
		for j, a := range r.ints {
			ints[j] = a.sexp()
		}
		rows[i] = hx.List(r.text.sexp(), patCls, strconv.Itoa(idOf(pid, sargKey(r.pat))), flagCls, strconv.Itoa(f), rep, "("+strings.Join(ints, " ")+")", tblSexp(tbl))
	}
	return hx.List(head, sp.fn, hx.List(b01(sp.tc), b01(sp.pc), b01(sp.fc), b01(sp.rc)), "("+strings.Join(rows, " ")+")")
}

// column layout of the rows handed to the node
const (
	colText = iota
	colPat
	colFlags
	colRep
	colInt0
)

func (a sarg) val() interface{} {
	if a.null {
		return nil
	}
	return a.s
}

func (a iarg) val() interface{} {
	if a.null {
		return nil
	}
	return a.i
}

// node builds the expression: literals for constant arguments (value of the first row), column
// references otherwise.
func (w *world) seqNode(sp seqSpec) (sql.Expression, error) {
	r0 := sp.rows[0]
	str := func(isConst bool, a sarg, col int, name string) sql.Expression {
		if isConst {
			return a.lit()
		}
		return expression.NewGetField(col, types.LongText, name, true)
	}
	args := []sql.Expression{str(sp.tc, r0.text, colText, "s"), str(sp.pc, r0.pat, colPat, "p")}
	if sp.fn == "replace" {
		args = append(args, str(sp.rc, r0.rep, colRep, "r"))
	}
	for j, a := range r0.ints {
		if sp.rc {
			args = append(args, a.lit())
		} else {
			args = append(args, expression.NewGetField(colInt0+j, types.Int64, "i"+strconv.Itoa(j), true))
		}
	}
	if r0.flags != nil {
		args = append(args, str(sp.fc, *r0.flags, colFlags, "f"))
	}
	f, ok := w.reg["regexp_"+sp.fn]
	if !ok {
		return nil, fmt.Errorf("regexp_%s is not registered", sp.fn)
	}
	return f.NewInstance(w.ctx, args)
}

func (r seqRow) sqlRow() sql.Row {
	row := sql.Row{r.text.val(), r.pat.val(), nil, r.rep.val()}
	if r.flags != nil {
		row[colFlags] = r.flags.val()
	}
	for _, a := range r.ints {
		row = append(row, a.val())
	}
	return row
}

// runNode evaluates the rows, in order, through one node.
func (w *world) runNode(sp seqSpec, rows []seqRow) []res {
	out := make([]res, len(rows))
	for i := range out {
		out[i] = res{obs: "err:construct"}
	}
	p := hx.Safe(func() {
		e, err := w.seqNode(sp)
		if err != nil {
			return
		}
		if d, ok := e.(sql.Disposable); ok {
			defer d.Dispose(w.ctx)
		}
		for i, r := range rows {
			i, r := i, r
			if q := hx.Safe(func() {
				v, err := e.Eval(w.ctx, r.sqlRow())
				out[i] = mkRes(v, err)
			}); q != "" {
				out[i] = res{obs: "crash"}
			}
		}
	})
	if p != "" {
		for i := range out {
			out[i] = res{obs: "crash"}
		}
	}
	return out
}

func obsList(rs []res) string {
	o := make([]string, len(rs))
	for i, r := range rs {
		o[i] = r.obs
	}
	return "[" + strings.Join(o, " ") + "]"
}

func (r seqRow) show(fn string) string {
	q := func(a sarg) string {
		if a.null {
			return "NULL"
		}
		return strconv.Quote(a.s)
	}
	parts := []string{q(r.text), q(r.pat)}
	if fn == "replace" {
		parts = append(parts, q(r.rep))
	}
	for _, a := range r.ints {
		parts = append(parts, a.sexp())
	}
	if r.flags != nil {
		parts = append(parts, q(*r.flags))
	}
	return "REGEXP_" + strings.ToUpper(fn) + "(" + strings.Join(parts, ", ") + ")"
}

// shares classifies the step from row a to row b.
func shares(a, b seqRow) string {
	sameP := sargKey(a.pat) == sargKey(b.pat)
	sameF := (a.flags == nil && b.flags == nil) || (a.flags != nil && b.flags != nil && sargKey(*a.flags) == sargKey(*b.flags))
	switch {
	case sameP && sameF:
		return "same-pattern-same-flags"
	case sameP:
		return "same-pattern-other-flags"
	case sameF:
		return "other-pattern-same-flags"
	}
	return "other-pattern-other-flags"
}

// sequence runs one sequence: correspondence case + the row-independence oracle.
func (w *world) sequence(sp seqSpec) {
	for _, r := range sp.rows {
		if len(r.ints) > 0 && !r.ints[0].null && !r.text.null && splitsPair(r.text.s, r.ints[0].i) {
			w.out.Stat("envelope:position-splits-surrogate-pair")
			return
		}
	}
	got := w.runNode(sp, sp.rows)
	for _, r := range got {
		if strings.HasPrefix(r.obs, "other:") || strings.HasPrefix(r.obs, "err:other") || r.obs == "err:construct" {
			if harnessErr == nil {
				harnessErr = fmt.Errorf("unexpected observation %q in sequence %s", r.obs, w.seqPayload("seq", sp))
			}
			return
		}
	}
	nontrivial := false
	for i := 1; i < len(sp.rows); i++ {
		st := shares(sp.rows[i-1], sp.rows[i])
		w.out.Stat("seq-step:" + st)
		if (st == "same-pattern-other-flags" || st == "other-pattern-same-flags") && got[i-1].obs != got[i].obs && (got[i].isI || got[i].isS || got[i-1].isI || got[i-1].isS) {
			nontrivial = true
		}
	}
	id := w.out.Case(w.seqPayload("seq", sp), obsList(got), nontrivial)
	w.out.Stat("seq:" + sp.fn)
	w.out.Stat("seq-modes:text=" + b01(sp.tc) + ",pattern=" + b01(sp.pc) + ",flags=" + b01(sp.fc) + ",rest=" + b01(sp.rc))
	if nontrivial {
		w.out.Stat("seq:nontrivial")
	}
	// row independence: the node of its own (same shape), and the all-literal call
	for i, r := range sp.rows {
		alone := w.runNode(sp, []seqRow{r})[0]
		lit := w.evalReal(r.call(sp.fn))
		if got[i].obs != alone.obs || got[i].obs != lit.obs {
			prev := "(first row)"
			if i > 0 {
				prev = "after " + sp.rows[i-1].show(sp.fn) + " = " + got[i-1].obs
			}
			w.fail(id, "-", "row %d of a statement, evaluated through one node %s: %s = %s, but on a node of its own = %s, with literal arguments = %s (constant arguments: text=%v pattern=%v flags=%v rest=%v)",
				i+1, prev, r.show(sp.fn), got[i].obs, alone.obs, lit.obs, sp.tc, sp.pc, sp.fc, sp.rc)
			return
		}
	}
}

// ---------------------------------------------------------------------------------------------
// Generator of sequences

var seqAlpha = []string{"a", "b", "c", "A", "B", "C", "a", "b", " ", "\n", "é", "€", "\U0001F600"}

func swapCase(s string) string {
	return strings.Map(func(r rune) rune {
		switch {
		case unicode.IsUpper(r):
			return unicode.ToLower(r)
		case unicode.IsLower(r):
			return unicode.ToUpper(r)
		}
		return r
	}, s)
}

func (g *gen) seqText() string {
	n := g.r.Range(1, 6)
	var b strings.Builder
	for i := 0; i < n; i++ {
		b.WriteString(hx.Pick(g.r, seqAlpha))
	}
	return b.String()
}

var seqFlagPool = []string{"", "i", "c", "i", "c", "ic", "ci", "m", "n", "u", "im", "in"}
var seqPatExtra = []string{"^b", "b$", "a.b", "^a.*c$", "[a-c]+", "b+", "(a|b)c", "\\w+", ".", "a", "B"}

// seqPools draws the small pools of values the rows of one sequence are built from.
func (g *gen) seqPools(errs bool) (texts, pats []sarg, flags []*sarg) {
	for i := g.r.Range(1, 2); i > 0; i-- {
		t := g.seqText()
		texts = append(texts, sarg{s: t}, sarg{s: swapCase(t)})
	}
	if errs && g.r.Chance(1, 8) {
		texts = append(texts, sarg{null: true})
	}
	for i := g.r.Range(2, 3); i > 0; i-- {
		switch k := g.r.Intn(12); {
		case k < 6:
			p, _ := g.pattern(2)
			pats = append(pats, sarg{s: p})
		case k < 9:
			pats = append(pats, sarg{s: hx.Pick(g.r, seqPatExtra)})
		case k < 10:
			pats = append(pats, sarg{s: hx.Pick(g.r, exotic)})
		case errs && k < 11:
			pats = append(pats, hx.Pick(g.r, []sarg{{null: true}, {s: ""}, {s: "("}, {s: "[a"}}))
		default:
			pats = append(pats, sarg{s: swapCase(g.seqText())})
		}
	}
	for i := g.r.Range(2, 3); i > 0; i-- {
		switch {
		case errs && g.r.Chance(1, 8):
			flags = append(flags, hx.Pick(g.r, []*sarg{{null: true}, {s: "x"}, {s: "iz"}}))
		default:
			flags = append(flags, &sarg{s: hx.Pick(g.r, seqFlagPool)})
		}
	}
	return
}

func (g *gen) sequence() seqSpec {
	fn := hx.Pick(g.r, []string{"like", "like", "instr", "substr", "replace"})
	sp := seqSpec{fn: fn, rc: g.r.Chance(1, 2)}
	switch k := g.r.Intn(20); {
	case k < 7: // everything per row
	case k < 10: // constant pattern, per-row flags
		sp.pc = true
	case k < 13: // per-row pattern, constant flags
		sp.fc = true
	case k < 17: // constant pattern and flags (regex compiled once), per-row subject
		sp.pc, sp.fc = true, true
	case k < 18: // only position / occurrence / replacement per row
		sp.pc, sp.fc, sp.tc, sp.rc = true, true, true, false
	case k < 19: // all constant (result cached)
		sp.pc, sp.fc, sp.tc, sp.rc = true, true, true, true
	default:
		sp.tc, sp.pc, sp.fc = g.r.Chance(1, 2), g.r.Chance(1, 2), g.r.Chance(1, 2)
	}
	texts, pats, flags := g.seqPools(true)
	withFlags := g.r.Chance(5, 6)
	nInts := maxInts[fn]
	if !withFlags {
		nInts = g.r.Intn(maxInts[fn] + 1)
		sp.fc = true
	}
	n := g.r.Range(2, 6)
	var prev seqRow
	for i := 0; i < n; i++ {
		r := seqRow{text: hx.Pick(g.r, texts), pat: hx.Pick(g.r, pats), rep: sarg{s: g.rep()}}
		if withFlags {
			r.flags = hx.Pick(g.r, flags)
		}
		if i > 0 {
			// consecutive rows often share the pattern or the flags (or the subject)
			switch g.r.Intn(6) {
			case 0, 1:
				r.pat = prev.pat
			case 2, 3:
				r.flags = prev.flags
			case 4:
				r.pat, r.flags = prev.pat, prev.flags
			}
			if g.r.Chance(1, 2) {
				r.text = prev.text
			}
		}
		nu := 0
		if !r.text.null {
			nu = len(units(r.text.s))
		}
		for j := 0; j < nInts; j++ {
			switch j {
			case 0:
				p := iarg{i: 1}
				if g.r.Chance(1, 3) {
					p = iarg{i: int64(g.r.Range(1, nu+1))}
				}
				if !r.text.null && splitsPair(r.text.s, p.i) {
					p = iarg{i: 1}
				}
				r.ints = append(r.ints, p)
			case 1:
				r.ints = append(r.ints, iarg{i: int64(g.r.Range(0, 2))})
			default:
				r.ints = append(r.ints, iarg{i: int64(g.r.Range(0, 1))})
			}
		}
		if i > 0 {
			if sp.tc {
				r.text = sp.rows[0].text
			}
			if sp.pc {
				r.pat = sp.rows[0].pat
			}
			if sp.fc {
				r.flags = sp.rows[0].flags
			}
			if sp.rc {
				r.rep, r.ints = sp.rows[0].rep, sp.rows[0].ints
			}
		}
		if i > 0 && len(r.ints) > 0 && !r.text.null && (splitsPair(r.text.s, r.ints[0].i) || r.ints[0].i > int64(len(units(r.text.s))+1)) {
			// a constant position meets another subject: keep the sequence inside the envelope
			r.text = sp.rows[0].text
		}
		sp.rows = append(sp.rows, r)
		prev = r
	}
	return sp
}

// ---------------------------------------------------------------------------------------------
// The same through SQL statements over a table

func sqlQuote(s string) string {
	r := strings.NewReplacer("\\", "\\\\", "'", "''", "\n", "\\n", "\r", "\\r")
	return "'" + r.Replace(s) + "'"
}

func sqlStr(a sarg) string {
	if a.null {
		return "NULL"
	}
	return sqlQuote(a.s)
}

var stmtFns = []string{"like", "instr", "substr", "replace"}

func stmtExpr(fn, s, p, f string) string {
	switch fn {
	case "like":
		return "REGEXP_LIKE(" + s + ", " + p + ", " + f + ")"
	case "instr":
		return "REGEXP_INSTR(" + s + ", " + p + ", 1, 1, 0, " + f + ")"
	case "substr":
		return "REGEXP_SUBSTR(" + s + ", " + p + ", 1, 1, " + f + ")"
	}
	return "REGEXP_REPLACE(" + s + ", " + p + ", 'X', 1, 0, " + f + ")"
}

func stmtRow(fn string, r seqRow) seqRow {
	I := func(i int64) iarg { return iarg{i: i} }
	q := seqRow{text: r.text, pat: r.pat, flags: r.flags}
	switch fn {
	case "instr":
		q.ints = []iarg{I(1), I(1), I(0)}
	case "substr":
		q.ints = []iarg{I(1), I(1)}
	case "replace":
		q.ints = []iarg{I(1), I(0)}
		q.rep = sarg{s: "X"}
	}
	return q
}

// statements: rows (s, p, f) in a table, the four functions over the columns in ascending and in
// descending order, and WHERE filters with a literal pattern / with all columns.
func (w *world) statements(e *eng.Eng, g *gen, serial int) {
	texts, pats, flags := g.seqPools(false)
	flags = append(flags, &sarg{null: true})
	n := g.r.Range(3, 8)
	var rows []seqRow
	for i := 0; i < n; i++ {
		r := seqRow{text: hx.Pick(g.r, texts), pat: hx.Pick(g.r, pats), flags: hx.Pick(g.r, flags)}
		if i > 0 {
			switch g.r.Intn(6) {
			case 0, 1, 2:
				r.pat = rows[i-1].pat
			case 3, 4:
				r.flags = rows[i-1].flags
			}
			if g.r.Chance(1, 2) {
				r.text = rows[i-1].text
			}
		}
		if _, _, tbl := w.classes(r.call("like")); tbl == nil && !r.pat.null {
			r.pat = sarg{s: "b"} // statements stay free of errors (an error hides every row)
		}
		rows = append(rows, r)
	}
	ctx := e.Ctx()
	t := "t" + strconv.Itoa(serial)
	e.MustExec(ctx, "CREATE TABLE "+t+" (id INT PRIMARY KEY, s TEXT, p TEXT, f TEXT)")
	defer e.Query(ctx, "DROP TABLE "+t)
	for i, r := range rows {
		e.MustExec(ctx, fmt.Sprintf("INSERT INTO %s VALUES (%d, %s, %s, %s)", t, i+1, sqlStr(r.text), sqlStr(r.pat), sqlStr(*r.flags)))
	}
	// 1. projection of the four functions, ascending and descending
	project := func(q string, rows []seqRow, pc, fc bool) {
		r := e.Query(ctx, q)
		w.out.Stat("stmt:projection")
		for k, fn := range stmtFns {
			sp := seqSpec{fn: fn, rc: true, pc: pc, fc: fc}
			obs := make([]res, 0, n)
			ok := r.Class() == "ok" && len(r.Raw) == n
			for j := 0; j < n && ok; j++ {
				raw := r.Raw[j]
				idv, isInt := toInt(raw[0])
				if !isInt || idv < 1 || idv > int64(n) || len(raw) != 1+len(stmtFns) {
					ok = false
					break
				}
				sp.rows = append(sp.rows, stmtRow(fn, rows[idv-1]))
				obs = append(obs, mkRes(normVal(raw[1+k]), nil))
			}
			if !ok {
				sp.rows = nil
				for _, x := range rows {
					sp.rows = append(sp.rows, stmtRow(fn, x))
				}
				id := w.out.Case(w.seqPayload("seq", sp), "stmt:"+r.Class()+":"+strconv.Itoa(len(r.Raw))+"rows", false)
				w.fail(id, "-", "%s: %s, %d row(s) — expected the %d rows of the table", q, r.Class(), len(r.Raw), n)
				continue
			}
			some := false
			for _, o := range obs {
				some = some || (o.isI && o.i > 0) || o.isS
			}
			id := w.out.Case(w.seqPayload("seq", sp), obsList(obs), some)
			for j, x := range sp.rows {
				if lit := w.evalReal(x.call(fn)); lit.obs != obs[j].obs {
					w.fail(id, "-", "%s: the row (s,p,f) = (%s, %s, %s) gets %s, the same call with literal arguments = %s",
						q, sqlStr(x.text), sqlStr(x.pat), sqlStr(*x.flags), obs[j].obs, lit.obs)
					break
				}
			}
		}
	}
	for _, desc := range []bool{false, true} {
		cols := make([]string, len(stmtFns))
		for i, fn := range stmtFns {
			cols[i] = stmtExpr(fn, "s", "p", "f")
		}
		q := "SELECT id, " + strings.Join(cols, ", ") + " FROM " + t + " ORDER BY id"
		if desc {
			q += " DESC"
		}
		project(q, rows, false, false)
	}
	// 2. WHERE filters: literal pattern + per-row flags behind a range condition; all columns
	lp := hx.Pick(g.r, pats)
	for lp.null {
		lp = sarg{s: "b"}
	}
	// 1b. literal pattern and flags (regex compiled once for the statement) over the subject column
	{
		lf := hx.Pick(g.r, flags)
		var sub []seqRow
		for _, r := range rows {
			sub = append(sub, seqRow{text: r.text, pat: lp, flags: lf})
		}
		cols := make([]string, len(stmtFns))
		for i, fn := range stmtFns {
			cols[i] = stmtExpr(fn, "s", sqlStr(lp), sqlStr(*lf))
		}
		project("SELECT id, "+strings.Join(cols, ", ")+" FROM "+t+" ORDER BY id", sub, true, true)
	}
	k := g.r.Range(2, n)
	type where struct {
		q    string
		fn   string
		rows []seqRow
		pc   bool
	}
	var ws []where
	var sub []seqRow
	for _, r := range rows[:k] {
		sub = append(sub, seqRow{text: r.text, pat: lp, flags: r.flags})
	}
	ws = append(ws, where{q: fmt.Sprintf("SELECT id FROM %s WHERE id <= %d AND %s ORDER BY id", t, k, stmtExpr("like", "s", sqlStr(lp), "f")), fn: "like", rows: sub, pc: true})
	ws = append(ws, where{q: fmt.Sprintf("SELECT id FROM %s WHERE %s ORDER BY id", t, stmtExpr("like", "s", "p", "f")), fn: "like", rows: rows})
	ws = append(ws, where{q: fmt.Sprintf("SELECT id FROM %s WHERE %s > 0 ORDER BY id DESC", t, stmtExpr("instr", "s", "p", "f")), fn: "instr", rows: rows})
	for _, x := range ws {
		r := e.Query(ctx, x.q)
		w.out.Stat("stmt:where")
		sp := seqSpec{fn: x.fn, rc: true, pc: x.pc}
		for _, y := range x.rows {
			sp.rows = append(sp.rows, stmtRow(x.fn, y))
		}
		sel := make([]bool, len(x.rows))
		ok := r.Class() == "ok"
		for _, raw := range r.Raw {
			idv, isInt := toInt(raw[0])
			if !isInt || idv < 1 || idv > int64(len(sel)) || sel[idv-1] {
				ok = false
				break
			}
			sel[idv-1] = true
		}
		if !ok {
			id := w.out.Case(w.seqPayload("where", sp), "stmt:"+r.Class(), false)
			w.fail(id, "-", "%s: %s / unexpected ids %v", x.q, r.Class(), r.Rows)
			continue
		}
		o := make([]string, len(sel))
		some := false
		for i, b := range sel {
			o[i] = b01(b)
			some = some || b
		}
		id := w.out.Case(w.seqPayload("where", sp), "["+strings.Join(o, " ")+"]", some)
		for i, y := range sp.rows {
			lit := w.evalReal(y.call(x.fn))
			if want := lit.isI && lit.i > 0; want != sel[i] {
				w.fail(id, "-", "%s: id %d (s,p,f) = (%s, %s, %s) selected=%v, but the call with literal arguments = %s",
					x.q, i+1, sqlStr(y.text), sqlStr(y.pat), sqlStr(*y.flags), sel[i], lit.obs)
				break
			}
		}
	}
}

func toInt(v interface{}) (int64, bool) {
	switch x := v.(type) {
	case int8:
		return int64(x), true
	case int16:
		return int64(x), true
	case int32:
		return int64(x), true
	case int64:
		return x, true
	case int:
		return int64(x), true
	case uint32:
		return int64(x), true
	case uint64:
		return int64(x), true
	}
	return 0, false
}

// normVal brings a raw result cell of a statement to the types the Eval of the node returns.
func normVal(v interface{}) interface{} {
	switch x := v.(type) {
	case bool:
		if x {
			return int8(1)
		}
		return int8(0)
	case int64:
		return int32(x)
	case int:
		return int32(x)
	case []byte:
		return string(x)
	}
	return v
}

// runSequences is the sequence part of `run`.
func (w *world) runSequences(e *eng.Eng, g *gen, nSeq, nStmt int) {
	S := func(s string) sarg { return sarg{s: s} }
	F := func(s string) *sarg { return &sarg{s: s} }
	I := func(i int64) iarg { return iarg{i: i} }
	// corpus: same pattern / other flags, other pattern / same flags, NULL and bad flags in between,
	// constant pattern with per-row flags, constant pattern and flags with per-row text, all constant
	w.sequence(seqSpec{fn: "like", rc: true, rows: []seqRow{
		{text: S("alpha BETA"), pat: S("beta"), flags: F("i")}, {text: S("alpha BETA"), pat: S("beta"), flags: F("c")},
		{text: S("alpha BETA"), pat: S("BETA"), flags: F("c")}, {text: S("alpha BETA"), pat: S("beta"), flags: F("c")}}})
	w.sequence(seqSpec{fn: "like", rc: true, rows: []seqRow{
		{text: S("a\nb"), pat: S("^b"), flags: F("m")}, {text: S("a\nb"), pat: S("^b"), flags: F("")},
		{text: S("a\nb"), pat: S("a.b"), flags: F("")}, {text: S("a\nb"), pat: S("a.b"), flags: F("n")},
		{text: S("a\nb"), pat: S("a.b"), flags: &sarg{null: true}}, {text: S("a\nb"), pat: S("a.b"), flags: F("x")},
		{text: S("a\nb"), pat: S("a.b"), flags: F("n")}}})
	for _, fn := range []string{"instr", "substr", "replace"} {
		ints := []iarg{I(1), I(1), I(0)}[:maxInts[fn]]
		w.sequence(seqSpec{fn: fn, rc: true, rows: []seqRow{
			{text: S("xxABCxx"), pat: S("b+c"), flags: F("i"), rep: S("X"), ints: ints}, {text: S("xxABCxx"), pat: S("b+c"), flags: F("c"), rep: S("X"), ints: ints},
			{text: S("xxABCxx"), pat: S("B+C"), flags: F("c"), rep: S("X"), ints: ints}, {text: S("xxabcxx"), pat: S("B+C"), flags: F("c"), rep: S("X"), ints: ints},
			{text: S("xxabcxx"), pat: S("("), flags: F("c"), rep: S("X"), ints: ints}, {text: S("xxabcxx"), pat: S("b"), flags: F("c"), rep: S("X"), ints: ints},
			{text: S("xxabcxx"), pat: sarg{null: true}, flags: F("c"), rep: S("X"), ints: ints}, {text: S("xxabcxx"), pat: S("B"), flags: F("i"), rep: S("X"), ints: ints}}})
	}
	w.sequence(seqSpec{fn: "like", pc: true, rc: true, rows: []seqRow{
		{text: S("BETA"), pat: S("beta"), flags: F("i")}, {text: S("BETA"), pat: S("beta"), flags: F("c")}, {text: S("beta"), pat: S("beta"), flags: F("c")}}})
	w.sequence(seqSpec{fn: "like", pc: true, fc: true, rc: true, rows: []seqRow{
		{text: S("BETA"), pat: S("beta"), flags: F("i")}, {text: S("gamma"), pat: S("beta"), flags: F("i")}, {text: S("xbetax"), pat: S("beta"), flags: F("i")}}})
	w.sequence(seqSpec{fn: "substr", tc: true, pc: true, fc: true, rc: true, rows: []seqRow{
		{text: S("BETA"), pat: S("e."), flags: F("i"), ints: []iarg{I(1), I(1)}}, {text: S("BETA"), pat: S("e."), flags: F("i"), ints: []iarg{I(1), I(1)}}}})
	w.sequence(seqSpec{fn: "instr", fc: true, rc: true, rows: []seqRow{
		{text: S("abc"), pat: S("c")}, {text: S("abc"), pat: S("b")}, {text: S("abc"), pat: S("b")}, {text: S("cab"), pat: S("b")}}})
	if harnessErr != nil {
		return
	}
	for i := 0; i < nSeq && harnessErr == nil; i++ {
		w.sequence(g.sequence())
	}
	for i := 0; i < nStmt && harnessErr == nil; i++ {
		w.statements(e, g, i)
	}
}
