// C33 — Regular expression functions agree with each other and with the pattern.
//
// extract: registry entries, the constructors' arity defaults, compileRegex's flag switch,
// consolidateRegexpFlags' accepted characters, the Regex-interface call each Eval makes and
// REGEXP_REPLACE's position checks (go/ast over sql/expression/function/regexp_*.go).
//
// run: for a (pattern, flags, text) the harness first tabulates the real matcher: for every start
// index 0..len (UTF-16 units) the successive matches delivered by internal/regex (ICU through
// go-icu-regex). A case is one SQL call REGEXP_LIKE/INSTR/SUBSTR/REPLACE on literals, built with
// the registry's constructor and evaluated; the Lean driver gets the call and the table and
// predicts the result through its model of the SQL layer and the wrapper layer. Model-free
// oracles: mutual agreement of the four functions, REPLACE = splice of the reported matches,
// Go's regexp as reference engine on the common subset, invalid patterns must error.
// Sequences (seq.go): ONE node over column references / literals evaluated on successive rows, and
// the same as SQL statements over a table — the per-node compiled-regex / cached-value state;
// facts_node.go pins the state fields, the cache keys and the per-row recompile shape.
package main

import (
	"fmt"
	"go/ast"
	"go/token"
	"os"
	"os/exec"
	"regexp"
	"sort"
	"strconv"
	"strings"
	"unicode/utf16"
	"unicode/utf8"

	"github.com/dolthub/go-mysql-server/internal/regex"
	"github.com/dolthub/go-mysql-server/sql"
	"github.com/dolthub/go-mysql-server/sql/expression"
	"github.com/dolthub/go-mysql-server/sql/expression/function"
	"github.com/dolthub/go-mysql-server/sql/types"
	"github.com/dolthub/go-mysql-server/verifharness/hx"
	"github.com/dolthub/go-mysql-server/verifharness/hx/eng"
)

func main() {
	if len(os.Args) >= 3 && os.Args[1] == "probe" {
		// child-process mode for inputs that can kill the process: run one SQL statement
		e := eng.New("d")
		r := e.Query(e.Ctx(), os.Args[2])
		fmt.Printf("%s %q\n", r.Class(), r.Rows)
		return
	}
	hx.Main(extract, run)
}

// ---------------------------------------------------------------------------------------------
// Arguments

type sarg struct { // string argument
	null bool
	s    string // may be ill-formed UTF-8
}

type iarg struct {
	null bool
	i    int64
}

func (a sarg) lit() sql.Expression {
	if a.null {
		return expression.NewLiteral(nil, types.Null)
	}
	if !utf8.ValidString(a.s) {
		return expression.NewLiteral([]byte(a.s), types.LongBlob)
	}
	return expression.NewLiteral(a.s, types.LongText)
}

func (a iarg) lit() sql.Expression {
	if a.null {
		return expression.NewLiteral(nil, types.Null)
	}
	return expression.NewLiteral(a.i, types.Int64)
}

func runesSexp(tag string, s string, withLen bool) string {
	var b strings.Builder
	b.WriteString("(" + tag)
	if withLen {
		b.WriteString(" " + strconv.Itoa(len(s)))
	}
	for _, r := range s {
		b.WriteString(" " + strconv.Itoa(int(r)))
	}
	b.WriteString(")")
	return b.String()
}

func (a sarg) sexp() string {
	switch {
	case a.null:
		return "null"
	case !utf8.ValidString(a.s):
		return "bad"
	}
	return runesSexp("s", a.s, true)
}

func (a iarg) sexp() string {
	if a.null {
		return "null"
	}
	return strconv.FormatInt(a.i, 10)
}

type call struct {
	fn      string // like | instr | substr | replace
	text    sarg
	pat     sarg
	rep     sarg   // replace only
	ints    []iarg // position, occurrence, return_option as written
	flags   *sarg  // nil = absent
	exprArg []sql.Expression
}

func units(s string) []uint16 { return utf16.Encode([]rune(s)) }

// ---------------------------------------------------------------------------------------------
// The real matcher, tabulated

type match struct{ s, e int }

// flagBits mirrors compileRegex/consolidateRegexpFlags for a *valid* flag string (harness-side
// transliteration, cross-checked by the facts and by the case-insensitivity oracle).
func flagBits(f string) (regex.RegexFlags, bool) {
	set := map[rune]bool{}
	for _, c := range f {
		switch c {
		case 'c':
			delete(set, 'i')
		case 'i', 'm', 'n', 'u':
			set[c] = true
		default:
			return 0, false
		}
	}
	fl := regex.RegexFlags_None
	if set['i'] {
		fl |= regex.RegexFlags_Case_Insensitive
	}
	if set['m'] {
		fl |= regex.RegexFlags_Multiline
	}
	if set['n'] {
		fl |= regex.RegexFlags_Dot_All
	}
	if set['u'] {
		fl |= regex.RegexFlags_Unix_Lines
	}
	return fl, true
}

type world struct {
	ctx *sql.Context
	reg map[string]sql.Function
	out *hx.Out
	tbl map[string][][]match
}

// table returns, for start = 0..len(units), the matches ICU delivers from that start index;
// ok=false when the pattern does not compile.
func (w *world) table(pat string, fl regex.RegexFlags, text string) (tbl [][]match, ok bool) {
	key := fmt.Sprintf("%d\x00%s\x00%s", fl, pat, text)
	if t, hit := w.tbl[key]; hit {
		return t, t != nil
	}
	if os.Getenv("C33_TRACE") != "" {
		fmt.Fprintf(os.Stderr, "table pat=%q flags=%d text=%q\n", pat, fl, text)
	}
	re := regex.CreateRegex(1024)
	defer re.Close()
	if err := re.SetRegexString(w.ctx, pat, fl); err != nil {
		w.tbl[key] = nil
		return nil, false
	}
	if err := re.SetMatchString(w.ctx, text); err != nil {
		panic("SetMatchString: " + err.Error())
	}
	n := len(units(text))
	tbl = make([][]match, n+1)
	for start := 0; start <= n; start++ {
		if splitsPair(text, int64(start+1)) {
			continue // never consulted: such calls are outside the envelope
		}
		for occ := 1; occ <= n+2; occ++ {
			s, err := re.IndexOf(w.ctx, start+1, occ, false)
			if err != nil {
				panic("IndexOf: " + err.Error())
			}
			if s == 0 {
				break
			}
			e, err := re.IndexOf(w.ctx, start+1, occ, true)
			if err != nil {
				panic("IndexOf: " + err.Error())
			}
			tbl[start] = append(tbl[start], match{s - 1, e - 1})
		}
	}
	if len(w.tbl) < 200000 {
		w.tbl[key] = tbl
	}
	return tbl, true
}

// splitsPair reports whether the 1-based position pos points at the low half of a surrogate pair
// of t's UTF-16 form. ICU's behaviour for such a start index is undefined (wrong matches,
// out-of-bounds reads, SIGSEGV): region pos_splits_surrogate_pair, kept out of the in-process stream.
func splitsPair(t string, pos int64) bool {
	u := units(t)
	if pos > 1<<31-1 {
		pos = 1<<31 - 1
	}
	idx := pos - 1
	return idx >= 1 && idx < int64(len(u)) && utf16.IsSurrogate(rune(u[idx])) && u[idx] >= 0xDC00 && u[idx-1] >= 0xD800 && u[idx-1] < 0xDC00
}

func tblSexp(tbl [][]match) string {
	var b strings.Builder
	b.WriteString("(")
	for i, row := range tbl {
		if i > 0 {
			b.WriteString(" ")
		}
		b.WriteString("(")
		for j, m := range row {
			if j > 0 {
				b.WriteString(" ")
			}
			fmt.Fprintf(&b, "(%d %d)", m.s, m.e)
		}
		b.WriteString(")")
	}
	b.WriteString(")")
	return b.String()
}

// ---------------------------------------------------------------------------------------------
// One call on the real code

type res struct {
	skipped bool
	obs  string
	null bool
	isI  bool
	i    int64
	isS  bool
	s    string
}

func classify(err error) string {
	msg := err.Error()
	switch {
	case types.ErrBadCharsetString.Is(err):
		return "err:charset"
	case regex.ErrInvalidRegex.Is(err):
		return "err:invalidregex"
	case sql.ErrInvalidArgumentDetails.Is(err):
		return "err:invalidargdetails"
	case sql.ErrInvalidArgument.Is(err):
		return "err:invalidarg"
	case strings.HasPrefix(msg, "Illegal argument to regular expression"):
		return "err:illegal"
	case strings.HasPrefix(msg, "Index out of bounds for regular expression search"):
		return "err:oob"
	}
	return "err:other:" + hx.OneLine(msg)
}

func (c call) args() []sql.Expression {
	a := []sql.Expression{c.text.lit(), c.pat.lit()}
	if c.fn == "replace" {
		a = append(a, c.rep.lit())
	}
	for _, i := range c.ints {
		a = append(a, i.lit())
	}
	if c.flags != nil {
		a = append(a, c.flags.lit())
	}
	return a
}

func (w *world) evalReal(c call) res {
	var r res
	p := hx.Safe(func() {
		f, ok := w.reg["regexp_"+c.fn]
		if !ok {
			r = res{obs: "err:unregistered"}
			return
		}
		e, err := f.NewInstance(w.ctx, c.args())
		if err != nil {
			r = res{obs: "err:construct"}
			return
		}
		if d, ok := e.(sql.Disposable); ok {
			defer d.Dispose(w.ctx)
		}
		v, err := e.Eval(w.ctx, nil)
		r = mkRes(v, err)
	})
	if p != "" {
		return res{obs: "crash"}
	}
	return r
}

// mkRes canonicalises the outcome of one Eval.
func mkRes(v interface{}, err error) (r res) {
	if err != nil {
		return res{obs: classify(err)}
	}
	switch x := v.(type) {
	case nil:
		r = res{obs: "null", null: true}
	case int8:
		r = res{isI: true, i: int64(x)}
	case int32:
		r = res{isI: true, i: int64(x)}
	case string:
		r = res{isS: true, s: x}
	default:
		r = res{obs: fmt.Sprintf("other:%T", v)}
	}
	if r.isI {
		r.obs = fmt.Sprintf("(i %d)", r.i)
	}
	if r.isS {
		r.obs = runesSexp("s", r.s, false)
	}
	return r
}

var harnessErr error

// maxFull is the arity (number of int arguments) at which a flags argument may follow.
var maxInts = map[string]int{"like": 0, "instr": 3, "substr": 2, "replace": 2}

// classes returns the classes of pattern and flags of a call and the matcher table for
// (pattern, flags, text).
func (w *world) classes(c call) (patCls, flagCls string, tbl [][]match) {
	patCls, flagCls = "ok", "absent"
	var fl regex.RegexFlags
	if c.flags != nil {
		switch {
		case c.flags.null:
			flagCls = "null"
		case !utf8.ValidString(c.flags.s):
			flagCls = "bad"
		default:
			var ok bool
			fl, ok = flagBits(c.flags.s)
			flagCls = "ok"
			if !ok {
				flagCls = "badchar"
			}
		}
	}
	switch {
	case c.pat.null:
		patCls = "null"
	case !utf8.ValidString(c.pat.s):
		patCls = "bad"
	case c.pat.s == "":
		patCls = "empty"
	default:
		text := ""
		if !c.text.null && utf8.ValidString(c.text.s) {
			text = c.text.s
		}
		var ok bool
		tbl, ok = w.table(c.pat.s, fl, text)
		if !ok {
			patCls = "invalid"
		}
	}
	return patCls, flagCls, tbl
}

// ev evaluates the call, records it as a correspondence case (with the matcher table) and
// returns the observation.
func (w *world) ev(c call) (string, res) {
	if c.flags != nil && len(c.ints) != maxInts[c.fn] {
		if harnessErr == nil {
			harnessErr = fmt.Errorf("flags need all %d integer arguments of regexp_%s", maxInts[c.fn], c.fn)
		}
		return "0", res{obs: "harness-error"}
	}
	if !c.rep.null && strings.ContainsAny(c.rep.s, "$\\") {
		if harnessErr == nil {
			harnessErr = fmt.Errorf("replacement %q uses ICU replacement syntax (outside the model)", c.rep.s)
		}
		return "0", res{obs: "harness-error"}
	}
	if c.fn != "like" && len(c.ints) > 0 && !c.ints[0].null && !c.text.null && utf8.ValidString(c.text.s) && splitsPair(c.text.s, c.ints[0].i) {
		w.out.Stat("envelope:position-splits-surrogate-pair")
		return "0", res{obs: "skipped", skipped: true}
	}
	patCls, flagCls, tbl := w.classes(c)
	rep := "null"
	if c.fn == "replace" {
		rep = c.rep.sexp()
	}
	ints := make([]string, len(c.ints))
	for i, a := range c.ints {
		ints[i] = a.sexp()
	}
	payload := hx.List("re", c.fn, c.text.sexp(), patCls, flagCls, rep, "("+strings.Join(ints, " ")+")", tblSexp(tbl))
	r := w.evalReal(c)
	if strings.HasPrefix(r.obs, "other:") || strings.HasPrefix(r.obs, "err:other") || r.obs == "err:construct" || r.obs == "err:unregistered" {
		if harnessErr == nil {
			harnessErr = fmt.Errorf("unexpected observation %q for %s", r.obs, payload)
		}
	}
	nontrivial := (r.isI && r.i != 0) || (r.isS && c.fn == "substr") || (r.isS && c.fn == "replace" && r.s != c.text.s)
	id := w.out.Case(payload, r.obs, nontrivial)
	w.out.Stat("fn:" + c.fn)
	switch {
	case r.obs == "crash":
		w.out.Stat("obs:crash")
		w.fail(id, "-", "regexp_%s panics: %s", c.fn, payload)
	case strings.HasPrefix(r.obs, "err:"):
		w.out.Stat("obs:" + r.obs)
	case r.null:
		w.out.Stat("obs:null")
	default:
		w.out.Stat("obs:value")
	}
	for _, row := range tbl {
		if len(row) > 1 {
			w.out.Stat("table:multi-match")
			break
		}
	}
	// the theorems about occurrence order and REPLACE assume a well-formed matcher: validated here
	nu := len(tbl) - 1
	for start, row := range tbl {
		lo := start
		for _, m := range row {
			if !(lo <= m.s && m.s <= m.e && m.e <= nu) {
				w.fail(id, "-", "matcher not well-formed from start %d: %v (text of %d units)", start, row, nu)
				break
			}
			lo = m.e
			if m.s+1 > lo {
				lo = m.s + 1
			}
		}
	}
	return id, r
}

func (w *world) fail(id, tag, format string, a ...interface{}) {
	w.out.OracleFail(id, tag, fmt.Sprintf(format, a...))
	w.out.Stat("oracle-fail:" + tag)
}

// ---------------------------------------------------------------------------------------------
// Generators

var alpha = []string{"a", "b", "c", "A", "B", " ", "a", "b", "é", "€", "中", "\U0001F600", "�"}

type gen struct{ r *hx.Rand }

func (g *gen) text() string {
	n := g.r.Intn(8)
	var b strings.Builder
	mb := g.r.Chance(1, 2)
	for i := 0; i < n; i++ {
		if mb {
			b.WriteString(hx.Pick(g.r, alpha))
		} else {
			b.WriteString(hx.Pick(g.r, alpha[:8]))
		}
	}
	return b.String()
}

// common-subset pattern: returns the pattern text and whether it can match the empty string.
func (g *gen) pattern(depth int) (string, bool) {
	switch k := g.r.Intn(10); {
	case depth <= 0 || k < 3:
		switch g.r.Intn(7) {
		case 0:
			return ".", false
		case 1:
			return "[ab]", false
		case 2:
			return "[^a]", false
		case 3:
			return "[a-c]", false
		case 4:
			return hx.Pick(g.r, []string{"€", "\U0001F600", "é"}), false
		default:
			return hx.Pick(g.r, []string{"a", "b", "c", "A", " "}), false
		}
	case k < 5: // concatenation
		a, na := g.pattern(depth - 1)
		b, nb := g.pattern(depth - 1)
		return a + b, na && nb
	case k < 6: // alternation
		a, na := g.pattern(depth - 1)
		b, nb := g.pattern(depth - 1)
		return "(" + a + "|" + b + ")", na || nb
	case k < 9: // quantifier over a non-nullable body
		a, na := g.pattern(depth - 1)
		if na {
			return a, na
		}
		body := "(" + a + ")"
		if utf8.RuneCountInString(a) == 1 || (strings.HasPrefix(a, "[") && strings.HasSuffix(a, "]") && strings.Count(a, "[") == 1) {
			body = a
		}
		switch g.r.Intn(5) {
		case 0:
			return body + "*", true
		case 1:
			return body + "+", false
		case 2:
			return body + "?", true
		case 3:
			return body + "{2}", false
		default:
			return body + "{1,2}", false
		}
	default: // anchors
		a, na := g.pattern(depth - 1)
		if g.r.Bool() {
			return "^" + a, na
		}
		return a + "$", na
	}
}

var exotic = []string{"a*", "x*", "^", "$", "\\b", "(?=b)", "a*?", "a+?", "..", "(a)|b", "\\w+", "[[:alpha:]]+", "(?i)a", "\\s", "a|", "(a|ab)(c|bcd)?", "\\x{1F600}", "[^ ]*"}
var invalidPats = []string{"(", ")", "[a", "a{2,1}", "*", "+a", "?", "(a", "a)"}

func (g *gen) rep() string {
	n := g.r.Intn(3)
	var b strings.Builder
	for i := 0; i < n; i++ {
		b.WriteString(hx.Pick(g.r, []string{"X", "y", "€", "\U0001F600", "-"}))
	}
	return b.String()
}

func (g *gen) posArg(n int) iarg {
	switch g.r.Intn(12) {
	case 0:
		return iarg{null: true}
	case 1:
		return iarg{i: hx.Pick(g.r, []int64{-1, -2, 0, 1 << 31, -(1 << 31) - 5, 1 << 40})}
	}
	return iarg{i: int64(g.r.Range(0, n+3))}
}

func (g *gen) occArg() iarg {
	switch g.r.Intn(12) {
	case 0:
		return iarg{null: true}
	case 1:
		return iarg{i: hx.Pick(g.r, []int64{-1, -5, 1 << 33})}
	}
	return iarg{i: int64(g.r.Range(0, 4))}
}

func (g *gen) flagsArg() *sarg {
	switch g.r.Intn(10) {
	case 0:
		return &sarg{null: true}
	case 1:
		return &sarg{s: hx.Pick(g.r, []string{"x", "iz", "I", " "})}
	case 2:
		return &sarg{s: "\xc3"}
	}
	return &sarg{s: hx.Pick(g.r, []string{"", "i", "c", "ic", "ci", "m", "n", "u", "imnu", "ii"})}
}

// ---------------------------------------------------------------------------------------------
// Oracles

func u16slice(t string, s, e int) string {
	u := units(t)
	if s < 0 || e > len(u) || s > e {
		return "<out of range>"
	}
	return string(utf16.Decode(u[s:e]))
}

// agreement checks the mutual consistency of the four functions on (text, pattern, flags, pos, occ).
func (w *world) agreement(t, p string, fl *sarg, pos, occ int64, rep string) {
	T, P := sarg{s: t}, sarg{s: p}
	I := func(i int64) iarg { return iarg{i: i} }
	n := len(units(t))
	// like ⇔ instr > 0 ⇔ substr non-NULL (position 1, occurrence 1)
	idl, lk := w.ev(call{fn: "like", text: T, pat: P, flags: fl})
	var in1, sb1 res
	if fl == nil {
		_, in1 = w.ev(call{fn: "instr", text: T, pat: P})
		_, sb1 = w.ev(call{fn: "substr", text: T, pat: P})
	} else {
		_, in1 = w.ev(call{fn: "instr", text: T, pat: P, ints: []iarg{I(1), I(1), I(0)}, flags: fl})
		_, sb1 = w.ev(call{fn: "substr", text: T, pat: P, ints: []iarg{I(1), I(1)}, flags: fl})
	}
	if !lk.isI {
		if !(lk.obs == in1.obs && lk.obs == sb1.obs) {
			w.fail(idl, "-", "REGEXP_LIKE(%q,%q) = %s but INSTR = %s, SUBSTR = %s", t, p, lk.obs, in1.obs, sb1.obs)
		}
		return
	}
	if !in1.isI || (lk.i == 1) != (in1.i > 0) || (lk.i == 1) != sb1.isS || (lk.i == 0 && !sb1.null) {
		w.fail(idl, "-", "REGEXP_LIKE(%q,%q) = %s, INSTR = %s, SUBSTR = %s disagree", t, p, lk.obs, in1.obs, sb1.obs)
	}
	// substring at the reported position, for (pos, occ)
	mk := func(fn string, ints ...iarg) call { return call{fn: fn, text: T, pat: P, ints: ints, flags: fl} }
	ids, st := w.ev(mk("instr", I(pos), I(occ), I(0)))
	_, en := w.ev(mk("instr", I(pos), I(occ), I(1)))
	_, sb := w.ev(mk("substr", I(pos), I(occ)))
	if st.skipped || en.skipped || sb.skipped {
		return
	}
	if !st.isI || !en.isI {
		w.fail(ids, "-", "REGEXP_INSTR(%q,%q,%d,%d) = %s / %s", t, p, pos, occ, st.obs, en.obs)
		return
	}
	if (st.i == 0) != sb.null || (st.i == 0) != (en.i == 0) {
		w.fail(ids, "-", "REGEXP_INSTR(%q,%q,%d,%d) = %d/%d but SUBSTR = %s", t, p, pos, occ, st.i, en.i, sb.obs)
	}
	if st.i > 0 {
		if en.i < st.i || !sb.isS || u16slice(t, int(st.i-1), int(en.i-1)) != sb.s {
			w.fail(ids, "-", "REGEXP_SUBSTR(%q,%q,%d,%d) = %s is not the text at [%d,%d)", t, p, pos, occ, sb.obs, st.i, en.i)
		}
		if pos >= 1 && st.i < pos {
			w.fail(ids, "-", "REGEXP_INSTR(%q,%q,%d,%d) = %d lies before the start position", t, p, pos, occ, st.i)
		}
		// the next occurrence lies further right
		if occ >= 1 {
			_, nx := w.ev(mk("instr", I(pos), I(occ+1), I(0)))
			if nx.isI && nx.i != 0 && nx.i <= st.i {
				w.fail(ids, "-", "occurrence %d at %d, occurrence %d at %d", occ, st.i, occ+1, nx.i)
			}
		}
	}
	// REPLACE substitutes exactly the reported match(es)
	if pos < 1 {
		return
	}
	tag := "-"
	if t != "" && pos <= int64(len(t)) && pos-1 > int64(n) {
		tag = "replace_pos_beyond_text_empties"
	}
	if t == "" && pos == 1 {
		tag = "replace_empty_text_drops_replacement"
	}
	if t == "" && pos > 1 {
		tag = "replace_pos_beyond_text_empties"
	}
	idr, rp := w.ev(call{fn: "replace", text: T, pat: P, rep: sarg{s: rep}, ints: []iarg{I(pos), I(occ)}, flags: fl})
	if t != "" && pos > int64(len(t)) {
		if rp.obs != "err:oob" {
			w.fail(idr, "-", "REGEXP_REPLACE(%q,…,%d,…) = %s, expected the index error", t, pos, rp.obs)
		}
		return
	}
	if !rp.isS {
		w.fail(idr, tag, "REGEXP_REPLACE(%q,%q,%q,%d,%d) = %s", t, p, rep, pos, occ, rp.obs)
		return
	}
	want := t
	u := units(t)
	inRange := func(a, b int64) bool { return 0 <= a && a <= b && b <= int64(len(u)) }
	if occ != 0 {
		if st.i > 0 {
			if !inRange(st.i-1, en.i-1) {
				w.fail(idr, "-", "REGEXP_INSTR(%q,%q,%d,%d) = %d..%d is not an interval of the text", t, p, pos, occ, st.i, en.i)
				return
			}
			want = string(utf16.Decode(u[:st.i-1])) + rep + string(utf16.Decode(u[en.i-1:]))
		}
	} else {
		var b strings.Builder
		last := int64(0)
		for k := int64(1); k <= int64(n)+2; k++ {
			_, s := w.ev(mk("instr", I(pos), I(k), I(0)))
			_, e := w.ev(mk("instr", I(pos), I(k), I(1)))
			if !s.isI || s.i == 0 {
				break
			}
			if !e.isI || !inRange(s.i-1, e.i-1) || s.i-1 < last {
				w.fail(idr, "-", "occurrence %d of %q in %q from %d: REGEXP_INSTR = %s..%s is not an interval after the previous match", k, p, t, pos, s.obs, e.obs)
				return
			}
			b.WriteString(string(utf16.Decode(u[last:s.i-1])) + rep)
			last = e.i - 1
		}
		b.WriteString(string(utf16.Decode(u[last:])))
		want = b.String()
	}
	if rp.s != want {
		w.fail(idr, tag, "REGEXP_REPLACE(%q,%q,%q,%d,%d) = %q, splice of the reported matches is %q", t, p, rep, pos, occ, rp.s, want)
	}
}

// byteToUnit converts a byte offset of valid UTF-8 text into a UTF-16 unit offset.
func byteToUnit(t string, off int) int { return len(units(t[:off])) }

// reference compares ICU's matches from index 0 with Go's regexp (common subset; patterns that
// cannot match the empty string so that the iteration rules coincide).
func (w *world) reference(t, p string, ci bool, nullable bool) {
	gp := p
	var fl *sarg
	if ci {
		gp = "(?i)" + p
		fl = &sarg{s: "i"}
	}
	re, err := regexp.Compile(gp)
	id, lk := w.ev(call{fn: "like", text: sarg{s: t}, pat: sarg{s: p}, flags: fl})
	if err != nil {
		harnessErr = fmt.Errorf("common-subset pattern %q rejected by Go regexp: %v", gp, err)
		return
	}
	locs := re.FindAllStringIndex(t, -1)
	if !lk.isI || (lk.i == 1) != (len(locs) > 0) {
		w.fail(id, "-", "REGEXP_LIKE(%q,%q,ci=%v) = %s, reference engine finds %d match(es)", t, p, ci, lk.obs, len(locs))
		return
	}
	I := func(i int64) iarg { return iarg{i: i} }
	lim := len(locs)
	if nullable && lim > 1 {
		lim = 1 // only the first match: iteration over empty matches differs between engines
	}
	for k := 0; k < lim; k++ {
		_, s := w.ev(call{fn: "instr", text: sarg{s: t}, pat: sarg{s: p}, ints: []iarg{I(1), I(int64(k + 1)), I(0)}, flags: fl})
		_, e := w.ev(call{fn: "instr", text: sarg{s: t}, pat: sarg{s: p}, ints: []iarg{I(1), I(int64(k + 1)), I(1)}, flags: fl})
		ws, we := byteToUnit(t, locs[k][0])+1, byteToUnit(t, locs[k][1])+1
		if !(s.isI && e.isI && int(s.i) == ws && int(e.i) == we) {
			w.fail(id, "-", "occurrence %d of %q in %q (ci=%v): REGEXP_INSTR = %s..%s, reference engine %d..%d", k+1, p, t, ci, s.obs, e.obs, ws, we)
			return
		}
	}
	if !nullable {
		_, s := w.ev(call{fn: "instr", text: sarg{s: t}, pat: sarg{s: p}, ints: []iarg{I(1), I(int64(len(locs) + 1)), I(0)}, flags: fl})
		if !(s.isI && s.i == 0) {
			w.fail(id, "-", "%q in %q: REGEXP_INSTR finds occurrence %d (%s), reference engine only %d", p, t, len(locs)+1, s.obs, len(locs))
		}
	}
}

// ---------------------------------------------------------------------------------------------

func run(a hx.RunArgs) error {
	out := hx.NewOut(a.OutDir)
	defer out.Close()
	out.Rule = "one case = one call REGEXP_LIKE/INSTR/SUBSTR/REPLACE on literal arguments together with the table of matches the real matcher delivers from every start index; " +
		"patterns from a common-subset grammar, a list of ICU-specific and a list of invalid patterns; subjects over ASCII, 2/3-byte and supplementary characters; " +
		"positions -2..len+3, occurrences -1..4, NULLs, bad flags, ill-formed UTF-8; a case is non-trivial when a match is reported (non-zero position, non-NULL substring, changed text). " +
		"Sequences: ONE node over column references and/or literals evaluated on 2..8 successive rows drawn from small pools of subjects (with their case-swapped twins), patterns and match types, " +
		"consecutive rows sharing the pattern but not the flags, the flags but not the pattern, both or neither, NULL / invalid values in between; the same as SQL statements over a table t(id,s,p,f) " +
		"in ascending and descending order and behind WHERE filters; a sequence is non-trivial when two consecutive rows share exactly one of pattern / flags and get different results"
	e := eng.New("d")
	w := &world{ctx: e.Ctx(), reg: map[string]sql.Function{}, out: out, tbl: map[string][][]match{}}
	for _, f := range function.BuiltIns {
		w.reg[strings.ToLower(f.FunctionName())] = f
	}
	root := hx.NewRand(a.Seed)
	g := &gen{r: root.Fork()}
	I := func(i int64) iarg { return iarg{i: i} }
	S := func(s string) sarg { return sarg{s: s} }

	// corpus
	w.agreement("abc def ghi", "[a-z]+", nil, 1, 3, "X")
	w.agreement("abc def ghi", "[a-z]+", nil, 5, 0, "X")
	w.agreement("abc def ghi", "[a-z]+", nil, 6, 2, "X")
	w.agreement("aaa", "a*", nil, 1, 0, "X")
	w.agreement("abc", "x*", nil, 1, 0, "X")
	w.agreement("\U0001F600abc", "b", nil, 2, 1, "X")
	w.agreement("\U0001F600abc", ".", nil, 2, 1, "X")
	w.agreement("中", "x", nil, 3, 1, "y") // position beyond the UTF-16 text: result ''
	w.agreement("中中", "中", nil, 4, 0, "y")
	w.agreement("abc", "B", &sarg{s: "i"}, 1, 1, "X")
	w.agreement("abc", "B", &sarg{s: "ic"}, 1, 1, "X")
	w.ev(call{fn: "like", text: sarg{null: true}, pat: S("(")})
	w.ev(call{fn: "like", text: S("abc"), pat: S("")})
	w.ev(call{fn: "like", text: S("abc"), pat: S("b"), flags: &sarg{s: "x"}})
	w.ev(call{fn: "instr", text: S("abc"), pat: S("b"), ints: []iarg{I(0)}})
	w.ev(call{fn: "instr", text: S("abc"), pat: S("b"), ints: []iarg{I(-1)}})
	w.ev(call{fn: "replace", text: S("abc"), pat: S("b"), rep: S("X"), ints: []iarg{I(0)}})
	w.ev(call{fn: "replace", text: S("abc"), pat: S("b"), rep: S("X"), ints: []iarg{I(4)}})
	if harnessErr != nil {
		return harnessErr
	}
	w.splitWitness()

	nAgree, nRef, nRand := 700, 700, 2500
	if a.Thorough {
		nAgree, nRef, nRand = 40000, 40000, 150000
	}
	// invalid patterns must produce errors (whatever the other arguments are)
	for _, p := range invalidPats {
		if _, err := regexp.Compile(p); err == nil {
			return fmt.Errorf("invalid-pattern list: Go regexp accepts %q", p)
		}
		for _, fn := range []string{"like", "instr", "substr", "replace"} {
			id, r := w.ev(call{fn: fn, text: S(g.text()), pat: S(p), rep: S("X")})
			if r.obs != "err:invalidregex" {
				w.fail(id, "-", "regexp_%s with the invalid pattern %q = %s", fn, p, r.obs)
			}
		}
	}
	for i := 0; i < nAgree; i++ {
		t := g.text()
		var p string
		if g.r.Chance(1, 4) {
			p = hx.Pick(g.r, exotic)
		} else {
			p, _ = g.pattern(3)
		}
		var fl *sarg
		if g.r.Chance(1, 4) {
			fl = &sarg{s: hx.Pick(g.r, []string{"i", "c", "ic", "ci", "m", "n", "u", ""})}
		}
		n := len(units(t))
		w.agreement(t, p, fl, int64(g.r.Range(0, n+2)), int64(g.r.Range(-1, 3)), g.rep())
	}
	for i := 0; i < nRef; i++ {
		p, nullable := g.pattern(3)
		w.reference(g.text(), p, g.r.Chance(1, 4), nullable)
	}
	// random single calls with NULLs, bad flags, ill-formed strings, all arities
	gr := &gen{r: root.Fork()}
	for i := 0; i < nRand; i++ {
		fn := hx.Pick(gr.r, []string{"like", "instr", "substr", "replace"})
		t := gr.text()
		c := call{fn: fn, text: S(t), rep: S(gr.rep())}
		switch gr.r.Intn(14) {
		case 0:
			c.text = sarg{null: true}
		case 1:
			c.text = S("a\xc3")
		}
		switch gr.r.Intn(14) {
		case 0:
			c.pat = sarg{null: true}
		case 1:
			c.pat = S("\xff")
		case 2:
			c.pat = S("")
		case 3:
			c.pat = S(hx.Pick(gr.r, invalidPats))
		case 4, 5:
			c.pat = S(hx.Pick(gr.r, exotic))
		default:
			p, _ := gr.pattern(3)
			c.pat = S(p)
		}
		if fn == "replace" {
			switch gr.r.Intn(14) {
			case 0:
				c.rep = sarg{null: true}
			case 1:
				c.rep = S("\xc3")
			}
		}
		n := len(units(t))
		k := gr.r.Intn(maxInts[fn] + 1)
		withFlags := gr.r.Chance(1, 3)
		if withFlags {
			k = maxInts[fn]
		}
		for j := 0; j < k; j++ {
			switch j {
			case 0:
				c.ints = append(c.ints, gr.posArg(n))
			case 1:
				c.ints = append(c.ints, gr.occArg())
			default:
				switch gr.r.Intn(8) {
				case 0:
					c.ints = append(c.ints, iarg{null: true})
				default:
					c.ints = append(c.ints, I(int64(gr.r.Range(-1, 2))))
				}
			}
		}
		if withFlags {
			c.flags = gr.flagsArg()
		}
		id, r := w.ev(c)
		if r.skipped {
			continue
		}
		// NULL propagation: a NULL argument never yields a value
		hasNull := c.text.null || c.pat.null || (fn == "replace" && c.rep.null) || (c.flags != nil && c.flags.null)
		for _, ia := range c.ints {
			hasNull = hasNull || ia.null
		}
		if hasNull && (r.isI || r.isS) {
			w.fail(id, "-", "regexp_%s with a NULL argument returns %s", fn, r.obs)
		}
	}
	// ONE node over the successive rows of a statement (per-node compiled-regex / result state)
	nSeq, nStmt := 500, 40
	if a.Thorough {
		nSeq, nStmt = 30000, 1500
	}
	w.runSequences(e, &gen{r: root.Fork()}, nSeq, nStmt)
	// UTF-16 conversion of the wrapper, compared with unicode/utf16
	for i := 0; i < 300; i++ {
		t := g.text()
		u := units(t)
		us := make([]string, len(u))
		for k, x := range u {
			us[k] = strconv.Itoa(int(x))
		}
		out.Case("(utf16 "+runeList(t)+")", "(s"+prefixed(us)+") "+runesSexp("s", t, false), t != "")
		// lone surrogates decode to U+FFFD
		if len(u) > 0 {
			cut := u[g.r.Intn(len(u)):]
			cs := make([]string, len(cut))
			for k, x := range cut {
				cs[k] = strconv.Itoa(int(x))
			}
			out.Case("(utf16dec ("+strings.Join(cs, " ")+"))", runesSexp("s", string(utf16.Decode(cut)), false), true)
		}
	}
	if harnessErr != nil {
		return harnessErr
	}
	return nil
}

// splitWitness: the region predicate itself is a correspondence case; the witnesses are replayed
// in a child process because they can kill the process (SIGSEGV inside ICU, not a Go panic).
func (w *world) splitWitness() {
	var firstID string
	for _, c := range []struct {
		t   string
		pos int64
	}{{"\U0001F600", 2}, {"\U0001F600c", 2}, {"a\U0001F600", 3}, {"a\U0001F600", 2}, {"ab", 2}, {"\U0001F600\U0001F600", 4}, {"\U0001F600\U0001F600", 3}, {"\U0001F600", 1}, {"\U0001F600", 3}, {"\U0001F600", -1}} {
		obs := "nosplit"
		if splitsPair(c.t, c.pos) {
			obs = "split"
		}
		id := w.out.Case("(splitpos "+runeList(c.t)+" "+strconv.FormatInt(c.pos, 10)+")", obs, obs == "split")
		if firstID == "" {
			firstID = id
		}
	}
	probe := func(q string) (string, error) {
		cmd := exec.Command(os.Args[0], "probe", q)
		cmd.Env = append(os.Environ(), "GOTRACEBACK=none")
		o, err := cmd.Output()
		return strings.TrimSpace(string(o)), err
	}
	q1 := "SELECT REGEXP_INSTR('\U0001F600', '.*^a', 2)"
	if o, err := probe(q1); err != nil {
		w.fail(firstID, "pos_splits_surrogate_pair", "%s kills the process: %v", q1, err)
	} else {
		w.out.Stat("split-witness-survived:" + o)
	}
	q2 := "SELECT REGEXP_INSTR('\U0001F600c', '.*a', 2), REGEXP_LIKE('\U0001F600c', 'a')"
	if o, err := probe(q2); err == nil && !strings.Contains(o, `["0" "0"]`) {
		w.fail(firstID, "pos_splits_surrogate_pair", "%s = %s: a match of '.*a' is reported in a text without 'a'", q2, o)
	}
}

func runeList(t string) string {
	var parts []string
	for _, r := range t {
		parts = append(parts, strconv.Itoa(int(r)))
	}
	return "(" + strings.Join(parts, " ") + ")"
}

func prefixed(xs []string) string {
	var b strings.Builder
	for _, x := range xs {
		b.WriteString(" " + x)
	}
	return b.String()
}

// ---------------------------------------------------------------------------------------------
// Facts

func extract(a hx.ExtractArgs) error {
	lf := hx.NewLeanFile("Gms.Generated.C33", "sql/expression/function/registry.go", "regexp_like.go", "regexp_instr.go", "regexp_substr.go", "regexp_replace.go")
	dir := "sql/expression/function/"

	// 1. registry entries
	src, err := hx.ParseSrc(a.Repo, dir+"registry.go")
	if err != nil {
		return err
	}
	init, err := src.PkgVarInit("BuiltIns")
	if err != nil {
		return err
	}
	cl, ok := init.(*ast.CompositeLit)
	if !ok {
		return fmt.Errorf("BuiltIns is not a composite literal")
	}
	var rows []string
	for _, el := range cl.Elts {
		c, ok := el.(*ast.CompositeLit)
		if !ok {
			continue
		}
		sel, _ := c.Type.(*ast.SelectorExpr)
		name, ctor := "", ""
		for _, kv := range c.Elts {
			if kve, ok := kv.(*ast.KeyValueExpr); ok {
				switch src.Text(kve.Key) {
				case "Name":
					if bl, ok := kve.Value.(*ast.BasicLit); ok {
						name, _ = strconv.Unquote(bl.Value)
					}
				case "Fn":
					ctor = src.Text(kve.Value)
				}
			}
		}
		if strings.HasPrefix(name, "regexp_") && sel != nil {
			rows = append(rows, fmt.Sprintf("(%s, %s, %s)", hx.LeanString(name), hx.LeanString(sel.Sel.Name), hx.LeanString(ctor)))
		}
	}
	sort.Strings(rows)
	lf.Comment("registry.go: the regexp_* entries (SQL name, arity class, constructor)")
	lf.Raw("def registry : List (String × String × String) := [" + strings.Join(rows, ", ") + "]\n")

	// 2. constructors: per arity, the fields filled with a literal default
	var defRows, argRows, otherRows []string
	for _, fc := range []struct{ file, ctor string }{{"regexp_like.go", "NewRegexpLike"}, {"regexp_instr.go", "NewRegexpInstr"}, {"regexp_substr.go", "NewRegexpSubstr"}, {"regexp_replace.go", "NewRegexpReplace"}} {
		s, err := hx.ParseSrc(a.Repo, dir+fc.file)
		if err != nil {
			return err
		}
		fd, err := s.Func("", fc.ctor)
		if err != nil {
			return err
		}
		found := 0
		ast.Inspect(fd.Body, func(n ast.Node) bool {
			cc, ok := n.(*ast.CaseClause)
			if !ok || len(cc.List) != 1 {
				return true
			}
			bl, ok := cc.List[0].(*ast.BasicLit)
			if !ok || bl.Kind != token.INT {
				return true
			}
			found++
			ast.Inspect(cc, func(m ast.Node) bool {
				kv, ok := m.(*ast.KeyValueExpr)
				if !ok {
					return true
				}
				val := s.Text(kv.Value)
				if ix, ok := kv.Value.(*ast.IndexExpr); ok && s.Text(ix.X) == "args" {
					argRows = append(argRows, fmt.Sprintf("(%s, %s, %s, %s)", hx.LeanString(fc.ctor), bl.Value, hx.LeanString(s.Text(kv.Key)), s.Text(ix.Index)))
				} else if ce, ok := kv.Value.(*ast.CallExpr); ok && s.Text(ce.Fun) == "expression.NewLiteral" && len(ce.Args) == 2 {
					if lit, ok := ce.Args[0].(*ast.BasicLit); ok && lit.Kind == token.INT && s.Text(ce.Args[1]) == "types.Int32" {
						defRows = append(defRows, fmt.Sprintf("(%s, %s, %s, %s)", hx.LeanString(fc.ctor), bl.Value, hx.LeanString(s.Text(kv.Key)), lit.Value))
					} else {
						otherRows = append(otherRows, hx.LeanString(fc.ctor+"/"+bl.Value+"/"+s.Text(kv.Key)+"="+val))
					}
				} else {
					otherRows = append(otherRows, hx.LeanString(fc.ctor+"/"+bl.Value+"/"+s.Text(kv.Key)+"="+val))
				}
				return true
			})
			return false
		})
		if found == 0 {
			return fmt.Errorf("%s: no `case <arity>:` clauses found", fc.ctor)
		}
	}
	lf.Comment("constructors: fields filled from args[i]: (constructor, arity, field, i)")
	lf.Raw("def ctorArgFields : List (String × Nat × String × Nat) := [\n  " + strings.Join(argRows, ",\n  ") + "]\n")
	lf.Comment("constructors: fields filled with an Int32 literal default: (constructor, arity, field, value)")
	lf.Raw("def ctorLitFields : List (String × Nat × String × Nat) := [\n  " + strings.Join(defRows, ",\n  ") + "]\n")
	lf.Comment("constructors: fields filled in any other way")
	lf.DefStringList("ctorOtherFields", nil)
	if len(otherRows) > 0 {
		return fmt.Errorf("constructor fields of unexpected shape: %v", otherRows)
	}

	// 3. compileRegex: flag character → RegexFlags constant; consolidateRegexpFlags: accepted characters
	ls, err := hx.ParseSrc(a.Repo, dir+"regexp_like.go")
	if err != nil {
		return err
	}
	switchCases := func(fn string) ([]string, error) {
		fd, err := ls.Func("", fn)
		if err != nil {
			return nil, err
		}
		var out []string
		ast.Inspect(fd.Body, func(n ast.Node) bool {
			cc, ok := n.(*ast.CaseClause)
			if !ok {
				return true
			}
			keys := make([]string, len(cc.List))
			for i, k := range cc.List {
				keys[i] = ls.Text(k)
			}
			body := make([]string, len(cc.Body))
			for i, st := range cc.Body {
				body[i] = strings.Join(strings.Fields(ls.Text(st)), " ")
			}
			key := strings.Join(keys, ",")
			if cc.List == nil {
				key = "default"
			}
			out = append(out, key+" => "+strings.Join(body, "; "))
			return true
		})
		if len(out) == 0 {
			return nil, fmt.Errorf("%s: no switch cases", fn)
		}
		return out, nil
	}
	cr, err := switchCases("compileRegex")
	if err != nil {
		return err
	}
	lf.Comment("compileRegex: the flag switch")
	lf.DefStringList("compileFlagSwitch", cr)
	cf, err := switchCases("consolidateRegexpFlags")
	if err != nil {
		return err
	}
	lf.Comment("consolidateRegexpFlags: the switch")
	lf.DefStringList("consolidateSwitch", cf)

	// 4. the Regex-interface call of each Eval and REPLACE's position checks
	var calls []string
	for _, fr := range []struct{ file, recv string }{{"regexp_like.go", "RegexpLike"}, {"regexp_instr.go", "RegexpInstr"}, {"regexp_substr.go", "RegexpSubstr"}, {"regexp_replace.go", "RegexpReplace"}} {
		s, err := hx.ParseSrc(a.Repo, dir+fr.file)
		if err != nil {
			return err
		}
		fd, err := s.Func(fr.recv, "Eval")
		if err != nil {
			return err
		}
		ast.Inspect(fd.Body, func(n ast.Node) bool {
			ce, ok := n.(*ast.CallExpr)
			if !ok {
				return true
			}
			if se, ok := ce.Fun.(*ast.SelectorExpr); ok && s.Text(se.X) == "r.re" && se.Sel.Name != "SetMatchString" {
				calls = append(calls, fr.recv+": "+strings.Join(strings.Fields(s.Text(ce)), " "))
			}
			return true
		})
		if fr.recv == "RegexpReplace" {
			var conds []string
			ast.Inspect(fd.Body, func(n ast.Node) bool {
				if is, ok := n.(*ast.IfStmt); ok {
					c := s.Text(is.Cond)
					if strings.Contains(c, "pos.(int32)") {
						conds = append(conds, strings.Join(strings.Fields(c), " "))
					}
				}
				return true
			})
			lf.Comment("RegexpReplace.Eval: the conditions on the position")
			lf.DefStringList("replacePosChecks", conds)
		}
	}
	lf.Comment("the Regex-interface call of each Eval")
	lf.DefStringList("wrapperCalls", calls)
	// 5. per-node state across rows
	if err := extractNodeFacts(a, lf); err != nil {
		return err
	}
	return lf.Write(a.Out)
}
