// C33 — regenerated facts about the per-node state of the Regexp* expressions: which fields
// survive from row to row, what the cached regex / cached value are keyed on, and who writes them.
package main

import (
	"fmt"
	"go/ast"
	"sort"
	"strings"

	"github.com/dolthub/go-mysql-server/verifharness/hx"
)

func oneLine(s string) string { return strings.Join(strings.Fields(s), " ") }

// fieldArgs returns the field names X of the arguments `r.X` of a call (skipping `ctx`).
func fieldArgs(s *hx.Src, ce *ast.CallExpr) ([]string, error) {
	var out []string
	for _, a := range ce.Args {
		if id, ok := a.(*ast.Ident); ok && id.Name == "ctx" {
			continue
		}
		se, ok := a.(*ast.SelectorExpr)
		if !ok || s.Text(se.X) != "r" {
			return nil, fmt.Errorf("argument %s of %s is not a field of the receiver", s.Text(a), s.Text(ce.Fun))
		}
		out = append(out, se.Sel.Name)
	}
	return out, nil
}

func leanStrList(xs []string) string {
	q := make([]string, len(xs))
	for i, x := range xs {
		q[i] = hx.LeanString(x)
	}
	return "[" + strings.Join(q, ", ") + "]"
}

func extractNodeFacts(a hx.ExtractArgs, lf *hx.LeanFile) error {
	dir := "sql/expression/function/"
	var stateRows, regexKeyRows, valKeyRows, branchRows, onceRows, writeRows, headRows, guardRows []string
	for _, fr := range []struct{ file, recv string }{{"regexp_like.go", "RegexpLike"}, {"regexp_instr.go", "RegexpInstr"}, {"regexp_substr.go", "RegexpSubstr"}, {"regexp_replace.go", "RegexpReplace"}} {
		s, err := hx.ParseSrc(a.Repo, dir+fr.file)
		if err != nil {
			return err
		}
		// 1. the struct: unexported fields = state that survives between Eval calls
		var state []string
		found := false
		for _, d := range s.File.Decls {
			gd, ok := d.(*ast.GenDecl)
			if !ok {
				continue
			}
			for _, sp := range gd.Specs {
				ts, ok := sp.(*ast.TypeSpec)
				if !ok || ts.Name.Name != fr.recv {
					continue
				}
				st, ok := ts.Type.(*ast.StructType)
				if !ok {
					return fmt.Errorf("%s is not a struct", fr.recv)
				}
				found = true
				for _, f := range st.Fields.List {
					if len(f.Names) == 0 {
						state = append(state, "embedded:"+s.Text(f.Type))
					}
					for _, n := range f.Names {
						if !n.IsExported() {
							state = append(state, n.Name+" "+oneLine(s.Text(f.Type)))
						}
					}
				}
			}
		}
		if !found {
			return fmt.Errorf("%s: struct %s not found", fr.file, fr.recv)
		}
		sort.Strings(state)
		stateRows = append(stateRows, fmt.Sprintf("(%s, %s)", hx.LeanString(fr.recv), leanStrList(state)))
		isState := map[string]bool{}
		for _, f := range state {
			isState[strings.Fields(f)[0]] = true
		}

		// 2. compile(): once-block and per-row branch
		fd, err := s.Func(fr.recv, "compile")
		if err != nil {
			return err
		}
		if len(fd.Body.List) != 2 {
			return fmt.Errorf("%s.compile: expected `r.compileOnce.Do(...)` followed by `if !r.cacheRegex {...}`, found %d statements", fr.recv, len(fd.Body.List))
		}
		es, ok := fd.Body.List[0].(*ast.ExprStmt)
		var once *ast.FuncLit
		if ok {
			if ce, ok := es.X.(*ast.CallExpr); ok && s.Text(ce.Fun) == "r.compileOnce.Do" && len(ce.Args) == 1 {
				once, _ = ce.Args[0].(*ast.FuncLit)
			}
		}
		if once == nil {
			return fmt.Errorf("%s.compile: first statement is not r.compileOnce.Do(func() {...})", fr.recv)
		}
		var onceKinds []string
		for _, st := range once.Body.List {
			kind := "other: " + oneLine(s.Text(st))
			switch x := st.(type) {
			case *ast.AssignStmt:
				if len(x.Lhs) == 1 && len(x.Rhs) == 1 {
					switch s.Text(x.Lhs[0]) {
					case "r.cacheRegex":
						if ce, ok := x.Rhs[0].(*ast.CallExpr); ok && s.Text(ce.Fun) == "canBeCached" {
							fs, err := fieldArgs(s, ce)
							if err != nil {
								return err
							}
							regexKeyRows = append(regexKeyRows, fmt.Sprintf("(%s, %s)", hx.LeanString(fr.recv), leanStrList(fs)))
							kind = "cacheRegex := canBeCached"
						}
					case "r.cacheVal":
						if be, ok := x.Rhs[0].(*ast.BinaryExpr); ok && be.Op.String() == "&&" && s.Text(be.X) == "r.cacheRegex" {
							if ce, ok := be.Y.(*ast.CallExpr); ok && s.Text(ce.Fun) == "canBeCached" {
								fs, err := fieldArgs(s, ce)
								if err != nil {
									return err
								}
								valKeyRows = append(valKeyRows, fmt.Sprintf("(%s, %s)", hx.LeanString(fr.recv), leanStrList(fs)))
								kind = "cacheVal := cacheRegex && canBeCached"
							}
						}
					}
				}
			case *ast.IfStmt:
				if x.Init == nil && x.Else == nil && s.Text(x.Cond) == "r.cacheRegex" && len(x.Body.List) == 1 {
					if k, ok := compileAssign(s, x.Body.List[0]); ok {
						kind = "if cacheRegex: " + k
					}
				}
			}
			onceKinds = append(onceKinds, kind)
		}
		onceRows = append(onceRows, fmt.Sprintf("(%s, %s)", hx.LeanString(fr.recv), leanStrList(onceKinds)))
		is, ok := fd.Body.List[1].(*ast.IfStmt)
		if !ok || is.Init != nil || is.Else != nil || s.Text(is.Cond) != "!r.cacheRegex" {
			return fmt.Errorf("%s.compile: second statement is not `if !r.cacheRegex {...}`", fr.recv)
		}
		var branch []string
		for _, st := range is.Body.List {
			kind := "other: " + oneLine(s.Text(st))
			if k, ok := compileAssign(s, st); ok {
				kind = k
			} else if oneLine(s.Text(st)) == "if r.re != nil { if r.compileErr = r.re.Close(); r.compileErr != nil { return } }" {
				kind = "close the previous regex"
			}
			branch = append(branch, kind)
		}
		branchRows = append(branchRows, fmt.Sprintf("(%s, %s)", hx.LeanString(fr.recv), leanStrList(branch)))

		// 3. every write of a state field, in any method of the file
		for _, d := range s.File.Decls {
			md, ok := d.(*ast.FuncDecl)
			if !ok || md.Body == nil {
				continue
			}
			ast.Inspect(md.Body, func(n ast.Node) bool {
				as, ok := n.(*ast.AssignStmt)
				if !ok {
					return true
				}
				var fields []string
				for _, l := range as.Lhs {
					if se, ok := l.(*ast.SelectorExpr); ok && isState[se.Sel.Name] {
						fields = append(fields, se.Sel.Name)
					}
				}
				if len(fields) > 0 {
					writeRows = append(writeRows, fmt.Sprintf("(%s, %s, %s)", hx.LeanString(fr.recv), hx.LeanString(md.Name.Name), hx.LeanString(strings.Join(fields, ","))))
				}
				return true
			})
		}

		// 4. Eval: the cached-value short cut in front of compile, and the guard of the cached-value write
		ev, err := s.Func(fr.recv, "Eval")
		if err != nil {
			return err
		}
		var head []string
		for _, st := range ev.Body.List {
			t := oneLine(s.Text(st))
			if strings.HasPrefix(t, "span, ctx :=") || strings.HasPrefix(t, "defer span.End()") {
				continue
			}
			head = append(head, t)
			if t == "r.compile(ctx, row)" || len(head) == 3 {
				break
			}
		}
		// the condition under which each `r.cachedVal = …` of Eval is executed
		var guards []string
		var walk func(n ast.Node, guard string)
		walk = func(n ast.Node, guard string) {
			ast.Inspect(n, func(m ast.Node) bool {
				switch x := m.(type) {
				case *ast.IfStmt:
					if x != n {
						g := oneLine(s.Text(x.Cond))
						if x.Init != nil {
							g = oneLine(s.Text(x.Init)) + "; " + g
						}
						if guard != "" {
							g = guard + " && " + g
						}
						walk(x.Body, g)
						if x.Else != nil {
							walk(x.Else, "else of "+g)
						}
						return false
					}
				case *ast.AssignStmt:
					for _, l := range x.Lhs {
						if s.Text(l) == "r.cachedVal" {
							guards = append(guards, guard)
						}
					}
				}
				return true
			})
		}
		walk(ev.Body, "")
		headRows = append(headRows, fmt.Sprintf("(%s, %s)", hx.LeanString(fr.recv), leanStrList(head)))
		guardRows = append(guardRows, fmt.Sprintf("(%s, %s)", hx.LeanString(fr.recv), leanStrList(guards)))
	}
	lf.Comment("the Regexp* structs: unexported fields (name and type) = the state a node keeps between the rows of a statement")
	lf.Raw("def nodeState : List (String × List String) := [\n  " + strings.Join(stateRows, ",\n  ") + "]\n")
	lf.Comment("compile(): r.cacheRegex = canBeCached(ctx, <these fields>) — what the cached regex is keyed on")
	lf.Raw("def cacheRegexKey : List (String × List String) := [\n  " + strings.Join(regexKeyRows, ",\n  ") + "]\n")
	lf.Comment("compile(): r.cacheVal = r.cacheRegex && canBeCached(ctx, <these fields>)")
	lf.Raw("def cacheValKey : List (String × List String) := [\n  " + strings.Join(valKeyRows, ",\n  ") + "]\n")
	lf.Comment("compile(): the statements of the compileOnce block")
	lf.Raw("def onceBlock : List (String × List String) := [\n  " + strings.Join(onceRows, ",\n  ") + "]\n")
	lf.Comment("compile(): the statements of the per-row branch `if !r.cacheRegex {…}` (no condition under which the old regex is kept)")
	lf.Raw("def perRowBranch : List (String × List String) := [\n  " + strings.Join(branchRows, ",\n  ") + "]\n")
	lf.Comment("every assignment to state fields: (struct, method, fields written)")
	lf.Raw("def stateWrites : List (String × String × String) := [\n  " + strings.Join(writeRows, ",\n  ") + "]\n")
	lf.Comment("Eval: the statements up to r.compile(ctx, row)")
	lf.Raw("def evalHead : List (String × List String) := [\n  " + strings.Join(headRows, ",\n  ") + "]\n")
	lf.Comment("Eval: the condition guarding each write of r.cachedVal")
	lf.Raw("def cachedValGuards : List (String × List String) := [\n  " + strings.Join(guardRows, ",\n  ") + "]\n")
	return nil
}

// compileAssign recognises `r.re, r.compileErr = compileRegex(ctx, r.A, r.B, r.C, r.FunctionName(), row)`.
func compileAssign(s *hx.Src, st ast.Stmt) (string, bool) {
	as, ok := st.(*ast.AssignStmt)
	if !ok || len(as.Lhs) != 2 || len(as.Rhs) != 1 || s.Text(as.Lhs[0]) != "r.re" || s.Text(as.Lhs[1]) != "r.compileErr" {
		return "", false
	}
	ce, ok := as.Rhs[0].(*ast.CallExpr)
	if !ok || s.Text(ce.Fun) != "compileRegex" || len(ce.Args) != 6 {
		return "", false
	}
	var fs []string
	for _, a := range ce.Args[1:4] {
		se, ok := a.(*ast.SelectorExpr)
		if !ok || s.Text(se.X) != "r" {
			return "", false
		}
		fs = append(fs, se.Sel.Name)
	}
	if s.Text(ce.Args[0]) != "ctx" || s.Text(ce.Args[4]) != "r.FunctionName()" || s.Text(ce.Args[5]) != "row" {
		return "", false
	}
	return "re, compileErr := compileRegex(pattern=" + fs[0] + ", text=" + fs[1] + ", flags=" + fs[2] + ", row)", true
}
