package main

import (
	"fmt"
	"os"
	"time"

	"github.com/dolthub/go-mysql-server/sql/expression"
	"github.com/dolthub/go-mysql-server/sql/expression/function"
	"github.com/dolthub/go-mysql-server/sql/planbuilder/dateparse"
	"github.com/dolthub/go-mysql-server/verifharness/hx/eng"
)

func main() {
	e := eng.New("d")
	ctx := e.Ctx()
	qs := os.Args[1:]
	if len(qs) == 0 {
		qs = []string{
			"SELECT STR_TO_DATE('2023-02-29','%Y-%m-%d')",
			"SHOW WARNINGS",
			"SELECT CAST('2023-02-30' AS DATE)",
			"SHOW WARNINGS",
			"SELECT DATE('2023-02-29')",
			"SELECT DATEDIFF('2400-01-01','2000-01-01')",
			"SELECT DATEDIFF('9999-12-31','1000-01-01')",
			"SELECT TIMESTAMPDIFF(SECOND,'1000-01-01','9999-12-31')",
			"SELECT STR_TO_DATE('03:04:05 PM','%r')",
			"SELECT STR_TO_DATE('2023-01-01 03:04:05 PM','%Y-%m-%d %h:%i:%s %p')",
			"SELECT DATE_FORMAT('2023-01-01 15:04:05','%Y-%m-%d %h:%i:%s %p')",
			"SELECT STR_TO_DATE('2023-13-01','%Y-%c-%d')",
			"SELECT STR_TO_DATE('2023-01-01 25:61:61','%Y-%m-%d %H:%i:%s')",
			"SELECT DATE_ADD('2024-02-29', INTERVAL 1 YEAR)",
			"SELECT DATE_ADD('2024-01-31', INTERVAL 1 MONTH)",
			"SELECT DATE_SUB(DATE_ADD('2024-01-31', INTERVAL 1 MONTH), INTERVAL 1 MONTH)",
			"SELECT DATE_FORMAT('2023-01-05 15:04:05.123456','%a %b %c %D %d %e %f %H %h %I %i %j %k %l %M %m %p %r %S %s %T %U %u %V %v %W %w %X %x %Y %y %% %q')",
			"SELECT DATE_FORMAT('0005-01-05','%Y|%y')",
			"SELECT STR_TO_DATE('5','%f')",
			"SELECT STR_TO_DATE('2023-060','%Y-%j')",
			"SELECT STR_TO_DATE('9999-12-31 23:59:59','%Y-%m-%d %H:%i:%s')",
			"SELECT STR_TO_DATE('9999-12-32','%Y-%m-%e')",
		}
	}
	for _, q := range qs {
		r := e.Query(eng.SameSession(ctx), q)
		fmt.Printf("%-90s => %s %v %v\n", q, r.Class(), r.Rows, r.Err)
	}
	t0 := time.Now()
	n := 0
	for i := 0; i < 2000; i++ {
		r := e.Query(eng.SameSession(ctx), fmt.Sprintf("SELECT DATEDIFF('2400-01-01','2000-01-%02d')", i%28+1))
		if r.Err == nil {
			n++
		}
	}
	fmt.Println("2000 queries", time.Since(t0), n)
	v, err := dateparse.ParseDateWithFormat("2023-02-29", "%Y-%m-%d")
	fmt.Println(v, err)
	s, err := function.VerifFormatDate("%Y-%m-%d %H:%i:%s.%f", time.Date(5, 1, 2, 3, 4, 5, 6000, time.UTC))
	fmt.Println(s, err)
	fmt.Println(expression.TimeDelta{Months: 1}.Add(time.Date(2024, 1, 31, 0, 0, 0, 0, time.UTC)))
	fmt.Println(time.Local, time.Date(2024, 1, 31, 0, 0, 0, 0, time.UTC).Sub(time.Date(1000, 1, 31, 0, 0, 0, 0, time.UTC)))
}
