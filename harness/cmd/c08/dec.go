// C08 — `dec` stream: aggregates over a DECIMAL column, i.e. over values that are *shared mutable objects*
// (`*apd.Decimal`: the row evaluation hands the buffer the very object the table stores).
//
// A case is a table t(id, p, d DECIMAL(10,2)) and a *script* of read-only statements
//
//	SELECT [p,] F1(d), …, Fk(d) FROM t [GROUP BY p]      F ∈ COUNT SUM AVG MIN MAX ANY_VALUE, k = 1..4
//
// executed one after the other on the same table (statements repeat inside a script), each followed by
// `SELECT id, d FROM t ORDER BY id`. The observation is the sequence of results and dumps; the Lean Impl model
// (Gms/Model/DecAgg.lean: heap of stored objects, buffers that hold `own`/`cell` objects, row-major
// execution) must reproduce it and the Spec says: every result is the definition on the table's values and
// every dump is the initial table. Two oracles evaluated on the engine alone: a read-only statement leaves
// the stored column unchanged, and a statement that occurs twice in a script returns the same result.
//
// The run-time fact `aggAlias` (extract) drives every buffer directly with three distinct *apd.Decimal
// objects and records whether the inputs were changed and which object Eval returns.
package main

import (
	"fmt"
	"math"
	"sort"
	"strconv"
	"strings"

	"github.com/cockroachdb/apd/v3"

	"github.com/dolthub/go-mysql-server/sql"
	"github.com/dolthub/go-mysql-server/sql/expression"
	"github.com/dolthub/go-mysql-server/sql/expression/function/aggregation"
	"github.com/dolthub/go-mysql-server/sql/types"
	"github.com/dolthub/go-mysql-server/verifharness/hx"
	"github.com/dolthub/go-mysql-server/verifharness/hx/eng"
)

// ---- run-time fact

type aggBuffer interface {
	Update(ctx *sql.Context, row sql.Row) error
	Eval(ctx *sql.Context) (interface{}, error)
}

// aliasProbe: Lean text of `aggAlias : List (String × Bool × String × Int)`:
// (buffer, inputs changed, origin of the Eval result, value: count as is / decimals in micro-units)
func aliasProbe() (string, error) {
	ctx := sql.NewEmptyContext()
	child := expression.NewGetField(0, types.MustCreateDecimalType(10, 2), "d", true)
	mk := map[string]func() aggBuffer{
		"anyv":  func() aggBuffer { return aggregation.NewAnyValueBuffer(child) },
		"avg":   func() aggBuffer { return aggregation.NewAvgBuffer(child) },
		"count": func() aggBuffer { return aggregation.NewCountBuffer(child) },
		"max":   func() aggBuffer { return aggregation.NewMaxBuffer(child) },
		"min":   func() aggBuffer { return aggregation.NewMinBuffer(child) },
		"sum":   func() aggBuffer { return aggregation.NewSumBuffer(child) },
	}
	names := make([]string, 0, len(mk))
	for n := range mk {
		names = append(names, n)
	}
	sort.Strings(names)
	var ents []string
	for _, n := range names {
		in := []*apd.Decimal{apd.New(150, -2), apd.New(225, -2), apd.New(1000, -2)}
		before := make([]string, len(in))
		for i, d := range in {
			before[i] = d.String()
		}
		b := mk[n]()
		var res interface{}
		var err error
		msg := hx.Safe(func() {
			for _, d := range in {
				if err = b.Update(ctx, sql.Row{d}); err != nil {
					return
				}
			}
			res, err = b.Eval(ctx)
		})
		if msg != "" || err != nil {
			return "", fmt.Errorf("alias probe of %s buffer: panic=%q err=%v", n, msg, err)
		}
		mut := false
		for i, d := range in {
			if d.String() != before[i] {
				mut = true
			}
		}
		origin, val := "scalar", int64(0)
		switch v := res.(type) {
		case nil:
			origin = "nil"
		case *apd.Decimal:
			origin = "fresh"
			for i, d := range in {
				if v == d {
					origin = "input" + strconv.Itoa(i)
				}
			}
			m := microOf(v.Text('f'))
			val, err = strconv.ParseInt(strings.TrimPrefix(m, "m"), 10, 64)
			if err != nil {
				return "", fmt.Errorf("alias probe of %s buffer: result %q", n, v.String())
			}
		case int64:
			val = v
		default:
			return "", fmt.Errorf("alias probe of %s buffer: result of type %T", n, res)
		}
		ents = append(ents, fmt.Sprintf("  (%s, %v, %s, %s)", hx.LeanString(n), mut, hx.LeanString(origin), hx.LeanInt(val)))
	}
	return "def aggAlias : List (String × Bool × String × Int) := [\n" + strings.Join(ents, ",\n") + "\n]\n", nil
}

// ---- cases

type decRow struct {
	id   int
	p, d *int // d in hundredths
}

type decStmt struct {
	by  bool
	fns []string
}

var decFns = []string{"count", "sum", "avg", "min", "max", "anyv"}

func decFnSQL(fn string) string {
	switch fn {
	case "count":
		return "COUNT(d)"
	case "sum":
		return "SUM(d)"
	case "avg":
		return "AVG(d)"
	case "min":
		return "MIN(d)"
	case "max":
		return "MAX(d)"
	case "anyv":
		return "ANY_VALUE(d)"
	}
	panic("harness: unknown dec function " + fn)
}

func (s decStmt) sql() string {
	var cols []string
	for _, f := range s.fns {
		cols = append(cols, decFnSQL(f))
	}
	if s.by {
		return "SELECT p, " + strings.Join(cols, ", ") + " FROM t GROUP BY p"
	}
	return "SELECT " + strings.Join(cols, ", ") + " FROM t"
}

func (s decStmt) sexp() string {
	b := 0
	if s.by {
		b = 1
	}
	return fmt.Sprintf("(g %d %s)", b, strings.Join(s.fns, " "))
}

func hundredthsSQL(v *int) string {
	if v == nil {
		return "NULL"
	}
	n := *v
	sign := ""
	if n < 0 {
		sign, n = "-", -n
	}
	return fmt.Sprintf("%s%d.%02d", sign, n/100, n%100)
}

func decRowsSexp(rows []decRow) string {
	parts := []string{"rows"}
	for _, r := range rows {
		parts = append(parts, fmt.Sprintf("(%d %s %s)", r.id, optS(r.p), optS(r.d)))
	}
	return "(" + strings.Join(parts, " ") + ")"
}

func allDigits(s string) bool {
	for _, c := range s {
		if c < '0' || c > '9' {
			return false
		}
	}
	return true
}

// microOf renders a decimal/float text in micro-units ("m<int>"): exact for up to six fraction digits,
// rounded half up through float64 otherwise.
func microOf(txt string) string {
	s, neg := txt, false
	if strings.HasPrefix(s, "-") {
		neg, s = true, s[1:]
	}
	ip, fp := s, ""
	if i := strings.IndexByte(s, '.'); i >= 0 {
		ip, fp = s[:i], s[i+1:]
	}
	if ip == "" || !allDigits(ip) || !allDigits(fp) || len(fp) > 6 || len(ip) > 12 {
		f, err := strconv.ParseFloat(txt, 64)
		if err != nil {
			return "?" + txt
		}
		if math.IsNaN(f) {
			return "nan"
		}
		return "m" + strconv.FormatInt(int64(math.Floor(f*1e6+0.5)), 10)
	}
	for len(fp) < 6 {
		fp += "0"
	}
	v, err := strconv.ParseInt(ip+fp, 10, 64)
	if err != nil {
		return "?" + txt
	}
	if neg {
		v = -v
	}
	return "m" + strconv.FormatInt(v, 10)
}

func decCell(fn, txt string, isNull bool) string {
	if isNull {
		return "null"
	}
	if fn == "count" {
		if _, err := strconv.ParseInt(txt, 10, 64); err == nil {
			return "c" + txt
		}
		return "?" + txt
	}
	return microOf(txt)
}

type decData struct {
	e    *eng.Eng
	ctx  *sql.Context
	rows []decRow
}

func newDecData(rows []decRow) *decData {
	e := eng.New("d")
	ctx := e.Ctx()
	e.MustExec(ctx, "CREATE TABLE t (id INT PRIMARY KEY, p INT, d DECIMAL(10,2))")
	if len(rows) > 0 {
		var vs []string
		for _, r := range rows {
			vs = append(vs, fmt.Sprintf("(%d,%s,%s)", r.id, optSQL(r.p), hundredthsSQL(r.d)))
		}
		e.MustExec(ctx, "INSERT INTO t VALUES "+strings.Join(vs, ","))
	}
	return &decData{e: e, ctx: ctx, rows: rows}
}

func (d *decData) dump() string {
	r := d.e.Query(d.ctx, "SELECT id, d FROM t ORDER BY id")
	if c := r.Class(); c != "ok" {
		return "T[" + c + "]"
	}
	parts := make([]string, len(r.Rows))
	for i, row := range r.Rows {
		parts[i] = row[0] + "=" + decCell("d", row[1], r.Null[i][1])
	}
	return "T[" + strings.Join(parts, " ") + "]"
}

func (d *decData) runStmt(s decStmt) string {
	r := d.e.Query(d.ctx, s.sql())
	if c := r.Class(); c != "ok" {
		return "R[" + c + "]"
	}
	var items []string
	for i, row := range r.Rows {
		k, first := "null", 0
		if s.by {
			if !r.Null[i][0] {
				k = row[0]
			}
			first = 1
		}
		if len(row) != first+len(s.fns) {
			return "R[shape]"
		}
		cells := make([]string, len(s.fns))
		for j, f := range s.fns {
			cells[j] = decCell(f, row[first+j], r.Null[i][first+j])
		}
		items = append(items, k+"="+strings.Join(cells, "/"))
	}
	sort.Strings(items)
	return "R[" + strings.Join(items, " ") + "]"
}

// decCase runs the script; returns the observation and the oracle failures (engine alone).
func decCase(out *hx.Out, rows []decRow, script []decStmt) {
	d := newDecData(rows)
	initial := d.dump()
	var obs, ss []string
	var fails []string
	seen := map[string]string{}
	for i, s := range script {
		res := d.runStmt(s)
		after := d.dump()
		obs = append(obs, res+" "+after)
		ss = append(ss, s.sexp())
		if after != initial {
			fails = append(fails, fmt.Sprintf("statement %d `%s` is read-only but the stored column changed: %s -> %s", i+1, s.sql(), initial, after))
		}
		if prev, ok := seen[s.sexp()]; ok && prev != res {
			fails = append(fails, fmt.Sprintf("statement %d `%s` repeats an earlier statement of the script but returns %s instead of %s", i+1, s.sql(), res, prev))
		} else if !ok {
			seen[s.sexp()] = res
		}
	}
	// non-trivial: some group has two non-NULL values and the script has >= 2 statements
	cnt := map[string]int{}
	nt := false
	for _, r := range rows {
		if r.d != nil {
			cnt[optS(r.p)]++
			if cnt[optS(r.p)] >= 2 {
				nt = true
			}
		}
	}
	id := out.Case(fmt.Sprintf("(dec %s (script %s))", decRowsSexp(rows), strings.Join(ss, " ")), strings.Join(obs, " ; "), nt && len(script) >= 2)
	out.Stat("dec")
	out.Stat(fmt.Sprintf("dec.stmts.%d", len(script)))
	for _, f := range fails {
		out.OracleFail(id, "-", f)
		out.Stat("dec.oraclefail")
	}
}

var decVals = []int{150, 225, 1000, -500, 500, 10, 0, 1, 99, 700, 25, 333, -1, 1234}

func genDecRows(r *hx.Rand) []decRow {
	n := r.Intn(10)
	rows := make([]decRow, n)
	id := 0
	for i := range rows {
		id += 1 + r.Intn(2)
		rows[i].id = id
		if !r.Chance(1, 10) {
			rows[i].p = ip(1 + r.Intn(3))
		}
		if !r.Chance(1, 5) {
			if r.Chance(2, 3) {
				rows[i].d = ip(hx.Pick(r, decVals))
			} else {
				rows[i].d = ip(r.Intn(2001) - 500)
			}
		}
	}
	return rows
}

func genDecStmt(r *hx.Rand) decStmt {
	s := decStmt{by: r.Chance(2, 3)}
	k := 1 + r.Intn(4)
	perm := make([]int, len(decFns))
	for i := range perm {
		perm[i] = i
	}
	for i := len(perm) - 1; i > 0; i-- {
		j := r.Intn(i + 1)
		perm[i], perm[j] = perm[j], perm[i]
	}
	for _, i := range perm[:k] {
		s.fns = append(s.fns, decFns[i])
	}
	// envelope: `SELECT ANY_VALUE(d) FROM t` without GROUP BY and without another aggregate is not planned as an
	// aggregation at all (one output row per table row) — a planner defect outside the buffers; keep ANY_VALUE
	// next to a second aggregate when there is no GROUP BY
	if !s.by && len(s.fns) == 1 && s.fns[0] == "anyv" {
		s.fns = append(s.fns, "count")
	}
	return s
}

func genDecScript(r *hx.Rand) []decStmt {
	n := 2 + r.Intn(3)
	script := make([]decStmt, 0, n+1)
	for i := 0; i < n; i++ {
		if i > 0 && r.Chance(1, 3) {
			script = append(script, script[r.Intn(len(script))]) // the same statement again
			continue
		}
		script = append(script, genDecStmt(r))
	}
	return script
}

func runDec(a hx.RunArgs, out *hx.Out) {
	// corpus: SUM next to MIN/MAX/AVG; SUM alone twice; whole-table aggregates; NULLs, an all-NULL group, a
	// single-row group, negatives and duplicates
	base := []decRow{{1, ip(1), ip(150)}, {2, ip(1), ip(225)}, {3, ip(1), ip(1000)}, {4, ip(2), ip(700)}, {5, ip(2), nil},
		{6, ip(2), ip(25)}, {7, ip(3), nil}, {8, ip(4), ip(333)}, {9, ip(5), ip(-500)}, {10, ip(5), ip(500)}, {11, ip(5), ip(500)}, {12, nil, ip(10)}}
	all := decStmt{by: true, fns: []string{"sum", "min", "max", "avg"}}
	sumOnly := decStmt{by: true, fns: []string{"sum"}}
	decCase(out, base, []decStmt{all, all})
	decCase(out, base, []decStmt{sumOnly, sumOnly, {by: false, fns: []string{"sum", "count"}}})
	decCase(out, base, []decStmt{{by: true, fns: []string{"avg"}}, {by: true, fns: []string{"anyv", "min", "max"}}, {by: false, fns: []string{"avg", "anyv"}}})
	decCase(out, base, []decStmt{{by: true, fns: []string{"min", "max", "sum"}}, {by: true, fns: []string{"count", "avg", "sum"}}})
	decCase(out, nil, []decStmt{all, {by: false, fns: []string{"sum", "avg", "count", "min"}}})

	r := hx.NewRand(a.Seed*1000003 + 8)
	n := 150
	if a.Thorough {
		n = 3000
	}
	for i := 0; i < n; i++ {
		decCase(out, genDecRows(r), genDecScript(r))
	}
}
