// C08 — Aggregate and window functions compute their defined values.
//
//	c08 extract   facts regenerated from the source / the freshly compiled code:
//	              * which bound fields every generated framer constructor sets (window_framer.og.go, go/ast)
//	              * the offset formulas of rowFramerBase.Next / NewFramer (window_framer.go, go/ast)
//	              * the NULL comparison table of the number type used by the RANGE framer (run time)
//	              * the default framer of every window function with and without ORDER BY (run time, %T)
//	              * aliasing of the aggregation buffers on shared *apd.Decimal inputs (run time, dec.go)
//	c08 run       four streams, all compared with the Lean Impl model and the Lean Spec (drv_c08):
//	              rowsf   the real ROWS framers driven directly (NewFramer/Next), exhaustive small table
//	              rangef  the real RANGE framers driven directly over sorted key columns, exhaustive
//	              win     SELECT id, F OVER (…) FROM t on the engine (random tables and window specs)
//	              grp     SELECT [p,] F(x) FROM t [GROUP BY p] on the engine (aggregation buffers)
//	              dec     scripts of SELECT [p,] F1(d),…,Fk(d) FROM t [GROUP BY p] over a DECIMAL column, each
//	                      followed by a dump of the stored column (dec.go)
//	c08 sql       run the statements on stdin on a fresh engine (manual replay of witnesses)
package main

import (
	"bufio"
	"fmt"
	"go/ast"
	"io"
	"math"
	"os"
	"reflect"
	"sort"
	"strconv"
	"strings"

	"github.com/dolthub/go-mysql-server/sql"
	"github.com/dolthub/go-mysql-server/sql/expression"
	"github.com/dolthub/go-mysql-server/sql/expression/function/aggregation"
	"github.com/dolthub/go-mysql-server/sql/plan"
	"github.com/dolthub/go-mysql-server/sql/types"
	"github.com/dolthub/go-mysql-server/verifharness/hx"
	"github.com/dolthub/go-mysql-server/verifharness/hx/eng"
)

func main() {
	if len(os.Args) > 1 && os.Args[1] == "sql" {
		sqlMode()
		return
	}
	hx.Main(extract, run)
}

func sqlMode() {
	e := eng.New("d")
	ctx := e.Ctx()
	sc := bufio.NewScanner(os.Stdin)
	sc.Buffer(make([]byte, 1<<20), 1<<24)
	for sc.Scan() {
		q := strings.TrimSpace(sc.Text())
		if q == "" || strings.HasPrefix(q, "--") {
			continue
		}
		r := e.Query(ctx, q)
		fmt.Printf("%s\n  => %s", q, r.Class())
		if r.Err != nil {
			fmt.Printf(" err=%v", r.Err)
		}
		if r.Panic != "" {
			fmt.Printf(" panic=%v", r.Panic)
		}
		var txt []string
		for _, row := range r.Rows {
			txt = append(txt, "["+strings.Join(row, ",")+"]")
		}
		fmt.Printf("\n  rows: %s\n", strings.Join(txt, " "))
	}
}

// ---------------------------------------------------------------------------------------------
// Bounds and frames

type bound struct {
	kind string // up | p | cur | f | uf
	n    int
}

func (b bound) sexp() string {
	switch b.kind {
	case "p", "f":
		return fmt.Sprintf("(%s %d)", b.kind, b.n)
	}
	return b.kind
}

func (b bound) sql() string {
	switch b.kind {
	case "up":
		return "UNBOUNDED PRECEDING"
	case "p":
		return fmt.Sprintf("%d PRECEDING", b.n)
	case "cur":
		return "CURRENT ROW"
	case "f":
		return fmt.Sprintf("%d FOLLOWING", b.n)
	}
	return "UNBOUNDED FOLLOWING"
}

func (b bound) goName() string {
	switch b.kind {
	case "up":
		return "UnboundedPreceding"
	case "p":
		return "NPreceding"
	case "cur":
		return "CurrentRow"
	case "f":
		return "NFollowing"
	}
	return "UnboundedFollowing"
}

// the 32 plan-level frame constructors, by generated name
var frameCtors = map[string]interface{}{
	"RowsUnboundedPrecedingToNPreceding":          plan.NewRowsUnboundedPrecedingToNPrecedingFrame,
	"RowsUnboundedPrecedingToCurrentRow":          plan.NewRowsUnboundedPrecedingToCurrentRowFrame,
	"RowsUnboundedPrecedingToNFollowing":          plan.NewRowsUnboundedPrecedingToNFollowingFrame,
	"RowsUnboundedPrecedingToUnboundedFollowing":  plan.NewRowsUnboundedPrecedingToUnboundedFollowingFrame,
	"RowsNPrecedingToNPreceding":                  plan.NewRowsNPrecedingToNPrecedingFrame,
	"RowsNPrecedingToCurrentRow":                  plan.NewRowsNPrecedingToCurrentRowFrame,
	"RowsNPrecedingToNFollowing":                  plan.NewRowsNPrecedingToNFollowingFrame,
	"RowsNPrecedingToUnboundedFollowing":          plan.NewRowsNPrecedingToUnboundedFollowingFrame,
	"RowsCurrentRowToNPreceding":                  plan.NewRowsCurrentRowToNPrecedingFrame,
	"RowsCurrentRowToCurrentRow":                  plan.NewRowsCurrentRowToCurrentRowFrame,
	"RowsCurrentRowToNFollowing":                  plan.NewRowsCurrentRowToNFollowingFrame,
	"RowsCurrentRowToUnboundedFollowing":          plan.NewRowsCurrentRowToUnboundedFollowingFrame,
	"RowsNFollowingToNPreceding":                  plan.NewRowsNFollowingToNPrecedingFrame,
	"RowsNFollowingToCurrentRow":                  plan.NewRowsNFollowingToCurrentRowFrame,
	"RowsNFollowingToNFollowing":                  plan.NewRowsNFollowingToNFollowingFrame,
	"RowsNFollowingToUnboundedFollowing":          plan.NewRowsNFollowingToUnboundedFollowingFrame,
	"RangeUnboundedPrecedingToNPreceding":         plan.NewRangeUnboundedPrecedingToNPrecedingFrame,
	"RangeUnboundedPrecedingToCurrentRow":         plan.NewRangeUnboundedPrecedingToCurrentRowFrame,
	"RangeUnboundedPrecedingToNFollowing":         plan.NewRangeUnboundedPrecedingToNFollowingFrame,
	"RangeUnboundedPrecedingToUnboundedFollowing": plan.NewRangeUnboundedPrecedingToUnboundedFollowingFrame,
	"RangeNPrecedingToNPreceding":                 plan.NewRangeNPrecedingToNPrecedingFrame,
	"RangeNPrecedingToCurrentRow":                 plan.NewRangeNPrecedingToCurrentRowFrame,
	"RangeNPrecedingToNFollowing":                 plan.NewRangeNPrecedingToNFollowingFrame,
	"RangeNPrecedingToUnboundedFollowing":         plan.NewRangeNPrecedingToUnboundedFollowingFrame,
	"RangeCurrentRowToNPreceding":                 plan.NewRangeCurrentRowToNPrecedingFrame,
	"RangeCurrentRowToCurrentRow":                 plan.NewRangeCurrentRowToCurrentRowFrame,
	"RangeCurrentRowToNFollowing":                 plan.NewRangeCurrentRowToNFollowingFrame,
	"RangeCurrentRowToUnboundedFollowing":         plan.NewRangeCurrentRowToUnboundedFollowingFrame,
	"RangeNFollowingToNPreceding":                 plan.NewRangeNFollowingToNPrecedingFrame,
	"RangeNFollowingToCurrentRow":                 plan.NewRangeNFollowingToCurrentRowFrame,
	"RangeNFollowingToNFollowing":                 plan.NewRangeNFollowingToNFollowingFrame,
	"RangeNFollowingToUnboundedFollowing":         plan.NewRangeNFollowingToUnboundedFollowingFrame,
}

// mkFrame builds the plan-level frame node for (unit, lo, hi) through its generated constructor.
func mkFrame(unit string, lo, hi bound) (sql.WindowFrame, error) {
	name := unit + lo.goName() + "To" + hi.goName()
	ctor, ok := frameCtors[name]
	if !ok {
		return nil, fmt.Errorf("no frame constructor %s", name)
	}
	var args []reflect.Value
	exprT := reflect.TypeOf((*sql.Expression)(nil)).Elem()
	for _, b := range []bound{lo, hi} {
		if b.kind == "p" || b.kind == "f" {
			v := reflect.New(exprT).Elem()
			v.Set(reflect.ValueOf(expression.NewLiteral(int8(b.n), types.Int8)))
			args = append(args, v)
		}
	}
	fv := reflect.ValueOf(ctor)
	if fv.Type().NumIn() != len(args) {
		return nil, fmt.Errorf("constructor %s takes %d arguments, have %d", name, fv.Type().NumIn(), len(args))
	}
	out := fv.Call(args)
	fr, ok := out[0].Interface().(sql.WindowFrame)
	if !ok {
		return nil, fmt.Errorf("constructor %s does not return a sql.WindowFrame", name)
	}
	return fr, nil
}

// driveFramer instantiates the framer for the partition [ps,pe) and pulls intervals until io.EOF.
// Returns the rendered stream (same rendering as the Lean driver's showIv).
func driveFramer(proto sql.WindowFramer, buf sql.WindowBuffer, ps, pe int) string {
	var parts []string
	msg := hx.Safe(func() {
		f, err := proto.NewFramer(sql.WindowInterval{Start: ps, End: pe})
		if err != nil {
			parts = append(parts, "err:newframer")
			return
		}
		ctx := sql.NewEmptyContext()
		for i := 0; i < pe-ps+2; i++ {
			iv, err := f.Next(ctx, buf)
			if err == io.EOF {
				return
			}
			if err != nil {
				parts = append(parts, "err:"+err.Error())
				return
			}
			parts = append(parts, showIv(ps, pe, iv.Start, iv.End))
		}
	})
	if msg != "" {
		return "crash"
	}
	return strings.Join(parts, " ")
}

func showIv(ps, pe, s, e int) string {
	switch {
	case s < e:
		return fmt.Sprintf("%d:%d", s, e)
	case s == e && ps <= s && s <= pe:
		return "E"
	}
	return fmt.Sprintf("E!%d:%d", s, e)
}

// ---------------------------------------------------------------------------------------------
// Facts

func extract(a hx.ExtractArgs) error {
	lf := hx.NewLeanFile("Gms.Generated.C08",
		"sql/expression/function/aggregation/window_framer.og.go", "sql/expression/function/aggregation/window_framer.go",
		"run-time: types.Int64.Compare, WindowFunction.DefaultFramer()")

	// (1) fields set by every generated framer constructor
	og, err := hx.ParseSrc(a.Repo, "sql/expression/function/aggregation/window_framer.og.go")
	if err != nil {
		return err
	}
	type ent struct {
		name   string
		fields []string
	}
	var ents []ent
	for _, d := range og.File.Decls {
		fd, ok := d.(*ast.FuncDecl)
		if !ok || fd.Recv != nil || !strings.HasPrefix(fd.Name.Name, "New") || !strings.HasSuffix(fd.Name.Name, "Framer") {
			continue
		}
		name := strings.TrimSuffix(strings.TrimPrefix(fd.Name.Name, "New"), "Framer")
		var fields []string
		found := false
		ast.Inspect(fd.Body, func(n ast.Node) bool {
			cl, ok := n.(*ast.CompositeLit)
			if !ok {
				return true
			}
			id, ok := cl.Type.(*ast.Ident)
			if !ok || (id.Name != "rowFramerBase" && id.Name != "rangeFramerBase") {
				return true
			}
			found = true
			for _, el := range cl.Elts {
				kv, ok := el.(*ast.KeyValueExpr)
				if !ok {
					fields = append(fields, "?positional")
					continue
				}
				k, _ := kv.Key.(*ast.Ident)
				v, _ := kv.Value.(*ast.Ident)
				if k == nil || v == nil || k.Name != v.Name {
					fields = append(fields, "?"+og.Text(kv))
					continue
				}
				fields = append(fields, k.Name)
			}
			return false
		})
		if !found {
			return fmt.Errorf("%s: no rowFramerBase/rangeFramerBase literal", fd.Name.Name)
		}
		// the value bound to a field must be the matching accessor of the frame (or the literal true)
		vals := map[string]string{}
		ast.Inspect(fd.Body, func(n ast.Node) bool {
			as, ok := n.(*ast.AssignStmt)
			if !ok || len(as.Lhs) < 1 || len(as.Rhs) != 1 {
				return true
			}
			l, _ := as.Lhs[0].(*ast.Ident)
			if l != nil {
				vals[l.Name] = og.Text(as.Rhs[0])
			}
			return true
		})
		for i, f := range fields {
			if f == "orderBy" {
				continue
			}
			v := vals[f]
			up := strings.ToUpper(f[:1]) + f[1:]
			switch v {
			case "true":
			case "expression.LiteralToInt(frame." + up + "())", "frame." + up + "()":
			default:
				fields[i] = f + "=?" + v
			}
		}
		sort.Strings(fields)
		ents = append(ents, ent{name, fields})
	}
	if len(ents) != 32 {
		return fmt.Errorf("expected 32 generated framer constructors, found %d", len(ents))
	}
	sort.Slice(ents, func(i, j int) bool { return ents[i].name < ents[j].name })
	var sb strings.Builder
	sb.WriteString("def framerFields : List (String × List String) := [\n")
	for i, e := range ents {
		parts := make([]string, len(e.fields))
		for j, f := range e.fields {
			parts[j] = hx.LeanString(f)
		}
		fmt.Fprintf(&sb, "  (%s, [%s])", hx.LeanString(e.name), strings.Join(parts, ", "))
		if i < len(ents)-1 {
			sb.WriteString(",")
		}
		sb.WriteString("\n")
	}
	sb.WriteString("]\n")
	lf.Raw(sb.String())

	// (2) offset formulas of rowFramerBase
	src, err := hx.ParseSrc(a.Repo, "sql/expression/function/aggregation/window_framer.go")
	if err != nil {
		return err
	}
	next, err := src.Func("rowFramerBase", "Next")
	if err != nil {
		return err
	}
	defs := map[string]string{}
	var conds []string
	ast.Inspect(next.Body, func(n ast.Node) bool {
		switch s := n.(type) {
		case *ast.AssignStmt:
			if len(s.Lhs) == 1 && len(s.Rhs) == 1 {
				if l, ok := s.Lhs[0].(*ast.Ident); ok && s.Tok.String() == ":=" {
					defs[l.Name] = src.Text(s.Rhs[0])
				}
			}
		case *ast.IfStmt:
			conds = append(conds, src.Text(s.Cond))
		}
		return true
	})
	if defs["newStart"] == "" || defs["newEnd"] == "" {
		return fmt.Errorf("rowFramerBase.Next: newStart/newEnd definitions not found")
	}
	lf.DefString("rowsNewStart", defs["newStart"])
	lf.DefString("rowsNewEnd", defs["newEnd"])
	lf.DefStringList("rowsNextConds", conds)
	nf, err := src.Func("rowFramerBase", "NewFramer")
	if err != nil {
		return err
	}
	var offs []string
	ast.Inspect(nf.Body, func(n ast.Node) bool {
		cc, ok := n.(*ast.CaseClause)
		if !ok || len(cc.List) != 1 || len(cc.Body) != 1 {
			return true
		}
		offs = append(offs, src.Text(cc.List[0])+" => "+src.Text(cc.Body[0]))
		return true
	})
	lf.DefStringList("rowsOffsetCases", offs)
	// range framer: inclusion arithmetic and stop conditions
	rnf, err := src.Func("rangeFramerBase", "NewFramer")
	if err != nil {
		return err
	}
	var incl []string
	ast.Inspect(rnf.Body, func(n ast.Node) bool {
		cc, ok := n.(*ast.CaseClause)
		if !ok || len(cc.List) != 1 || len(cc.Body) != 1 {
			return true
		}
		incl = append(incl, src.Text(cc.List[0])+" => "+src.Text(cc.Body[0]))
		return true
	})
	lf.DefStringList("rangeInclusionCases", incl)
	rnext, err := src.Func("rangeFramerBase", "Next")
	if err != nil {
		return err
	}
	var calls []string
	ast.Inspect(rnext.Body, func(n ast.Node) bool {
		ce, ok := n.(*ast.CallExpr)
		if !ok {
			return true
		}
		if id, ok := ce.Fun.(*ast.Ident); ok && id.Name == "findInclusionBoundary" {
			calls = append(calls, src.Text(ce))
		}
		return true
	})
	lf.DefStringList("rangeBoundaryCalls", calls)
	for _, c := range []string{"greaterThan", "greaterThanOrEqual", "unknown"} {
		found := false
		for _, d := range src.File.Decls {
			gd, ok := d.(*ast.GenDecl)
			if !ok {
				continue
			}
			for _, sp := range gd.Specs {
				vs, ok := sp.(*ast.ValueSpec)
				if !ok {
					continue
				}
				for i, nm := range vs.Names {
					if nm.Name == c && i < len(vs.Values) {
						v, err := strconv.ParseInt(strings.ReplaceAll(src.Text(vs.Values[i]), " ", ""), 10, 64)
						if err != nil {
							return fmt.Errorf("constant %s is not an integer literal: %s", c, src.Text(vs.Values[i]))
						}
						lf.DefInt("stop_"+c, v)
						found = true
					}
				}
			}
		}
		if !found {
			return fmt.Errorf("constant %s not found", c)
		}
	}

	// (3) NULL comparison of the compare type the RANGE framer uses for an INT key
	ctx := sql.NewEmptyContext()
	ct := types.GetCompareType(types.Int32, types.Int64)
	var cmps []string
	for _, pr := range [][2]interface{}{{nil, nil}, {nil, int64(1)}, {int64(1), nil}, {int64(1), int64(2)}, {int64(2), int64(2)}, {int64(3), int64(2)}} {
		c, err := ct.Compare(ctx, pr[0], pr[1])
		if err != nil {
			return fmt.Errorf("compare: %v", err)
		}
		cmps = append(cmps, hx.LeanInt(int64(c)))
	}
	lf.Raw("def nullCompareTable : List Int := [" + strings.Join(cmps, ", ") + "]\n")

	// (4) default framers
	kcol := expression.NewGetField(2, types.Int32, "k", true)
	xcol := expression.NewGetField(3, types.Int32, "x", true)
	ord := sql.SortConditions{{Expr: kcol, Order: sql.Ascending}}
	mk := map[string]func(w *sql.WindowDefinition) (sql.WindowFunction, error){
		"sum":   func(w *sql.WindowDefinition) (sql.WindowFunction, error) { return aggregation.NewSumAgg(xcol).WithWindow(ctx, w) },
		"avg":   func(w *sql.WindowDefinition) (sql.WindowFunction, error) { return aggregation.NewAvgAgg(xcol).WithWindow(ctx, w) },
		"count": func(w *sql.WindowDefinition) (sql.WindowFunction, error) { return aggregation.NewCountAgg(xcol).WithWindow(ctx, w) },
		"min":   func(w *sql.WindowDefinition) (sql.WindowFunction, error) { return aggregation.NewMinAgg(xcol).WithWindow(ctx, w) },
		"max":   func(w *sql.WindowDefinition) (sql.WindowFunction, error) { return aggregation.NewMaxAgg(xcol).WithWindow(ctx, w) },
		"first": func(w *sql.WindowDefinition) (sql.WindowFunction, error) { return aggregation.NewFirstAgg(xcol).WithWindow(ctx, w) },
		"last":  func(w *sql.WindowDefinition) (sql.WindowFunction, error) { return aggregation.NewLastAgg(xcol).WithWindow(ctx, w) },
		"rownum": func(w *sql.WindowDefinition) (sql.WindowFunction, error) {
			return aggregation.NewRowNumber().WithWindow(ctx, w)
		},
		"rank": func(w *sql.WindowDefinition) (sql.WindowFunction, error) {
			return aggregation.NewRank(w.OrderBy.ToExpressions()), nil
		},
		"dense": func(w *sql.WindowDefinition) (sql.WindowFunction, error) {
			return aggregation.NewDenseRank(w.OrderBy.ToExpressions()), nil
		},
		"prank": func(w *sql.WindowDefinition) (sql.WindowFunction, error) {
			return aggregation.NewPercentRank(w.OrderBy.ToExpressions()), nil
		},
		"ntile": func(w *sql.WindowDefinition) (sql.WindowFunction, error) {
			return aggregation.NewNTile(expression.NewLiteral(int8(2), types.Int8)), nil
		},
		"lag":  func(w *sql.WindowDefinition) (sql.WindowFunction, error) { return aggregation.NewLag(xcol, nil, 1), nil },
		"lead": func(w *sql.WindowDefinition) (sql.WindowFunction, error) { return aggregation.NewLead(xcol, nil, 1), nil },
	}
	names := make([]string, 0, len(mk))
	for n := range mk {
		names = append(names, n)
	}
	sort.Strings(names)
	var rows []string
	for _, n := range names {
		var tn [2]string
		for i, o := range []sql.SortConditions{ord, nil} {
			w := sql.NewWindowDefinition(nil, o, nil, "", "")
			fn, err := mk[n](w)
			if err != nil {
				return fmt.Errorf("default framer of %s: %v", n, err)
			}
			tn[i] = strings.TrimPrefix(fmt.Sprintf("%T", fn.DefaultFramer()), "*aggregation.")
		}
		rows = append(rows, fmt.Sprintf("  (%s, %s, %s)", hx.LeanString(n), hx.LeanString(tn[0]), hx.LeanString(tn[1])))
	}
	lf.Raw("def defaultFramers : List (String × String × String) := [\n" + strings.Join(rows, ",\n") + "\n]\n")

	// (5) aliasing behaviour of the aggregation buffers on shared *apd.Decimal objects (dec.go)
	alias, err := aliasProbe()
	if err != nil {
		return err
	}
	lf.Raw(alias)
	return lf.Write(a.Out)
}

// ---------------------------------------------------------------------------------------------
// SQL-level cases

type trow struct {
	id      int
	p, k, x *int
}

func optS(v *int) string {
	if v == nil {
		return "null"
	}
	return strconv.Itoa(*v)
}
func optSQL(v *int) string {
	if v == nil {
		return "NULL"
	}
	return strconv.Itoa(*v)
}

type ordKey struct {
	col  string
	desc bool
}

type winQ struct {
	part  bool
	ord   []ordKey
	frame string // none | rows | range
	lo    bound
	hi    bound
	fn    string // count_star count sum avg min max first last rownum rank dense prank ntile lag lead
	n     int    // ntile buckets / lag-lead offset
	def   *int   // lag/lead default
}

func rowsSexp(rows []trow) string {
	parts := []string{"rows"}
	for _, r := range rows {
		parts = append(parts, fmt.Sprintf("(%d %s %s %s)", r.id, optS(r.p), optS(r.k), optS(r.x)))
	}
	return "(" + strings.Join(parts, " ") + ")"
}

func (q winQ) sexp(rows []trow) string {
	ord := []string{"ord"}
	for _, o := range q.ord {
		d := "asc"
		if o.desc {
			d = "desc"
		}
		ord = append(ord, fmt.Sprintf("(%s %s)", o.col, d))
	}
	fr := "none"
	if q.frame != "none" {
		fr = fmt.Sprintf("(%s %s %s)", q.frame, q.lo.sexp(), q.hi.sexp())
	}
	fn := "(" + q.fn + ")"
	switch q.fn {
	case "ntile":
		fn = fmt.Sprintf("(ntile %d)", q.n)
	case "lag", "lead":
		d := "nodef"
		if q.def != nil {
			d = strconv.Itoa(*q.def)
		}
		fn = fmt.Sprintf("(%s %d %s)", q.fn, q.n, d)
	}
	pb := 0
	if q.part {
		pb = 1
	}
	return fmt.Sprintf("(win %s (part %d) (%s) (frame %s) (fn %s))", rowsSexp(rows), pb, strings.Join(ord, " "), fr, fn)
}

func (q winQ) fnSQL() string {
	switch q.fn {
	case "count_star":
		return "COUNT(*)"
	case "count":
		return "COUNT(x)"
	case "sum":
		return "SUM(x)"
	case "avg":
		return "AVG(x)"
	case "min":
		return "MIN(x)"
	case "max":
		return "MAX(x)"
	case "first":
		return "FIRST_VALUE(x)"
	case "last":
		return "LAST_VALUE(x)"
	case "rownum":
		return "ROW_NUMBER()"
	case "rank":
		return "RANK()"
	case "dense":
		return "DENSE_RANK()"
	case "prank":
		return "PERCENT_RANK()"
	case "ntile":
		return fmt.Sprintf("NTILE(%d)", q.n)
	case "lag", "lead":
		name := "LAG"
		if q.fn == "lead" {
			name = "LEAD"
		}
		if q.def != nil {
			return fmt.Sprintf("%s(x, %d, %d)", name, q.n, *q.def)
		}
		return fmt.Sprintf("%s(x, %d)", name, q.n)
	}
	panic("harness: unknown function " + q.fn)
}

func (q winQ) sql() string {
	var parts []string
	if q.part {
		parts = append(parts, "PARTITION BY p")
	}
	if len(q.ord) > 0 {
		var os []string
		for _, o := range q.ord {
			s := o.col
			if o.desc {
				s += " DESC"
			}
			os = append(os, s)
		}
		parts = append(parts, "ORDER BY "+strings.Join(os, ", "))
	}
	if q.frame != "none" {
		parts = append(parts, fmt.Sprintf("%s BETWEEN %s AND %s", strings.ToUpper(q.frame), q.lo.sql(), q.hi.sql()))
	}
	return fmt.Sprintf("SELECT id, %s OVER (%s) FROM t ORDER BY id", q.fnSQL(), strings.Join(parts, " "))
}

// validFrame: what the parser and the framer constructors accept.
func validFrame(q winQ) bool {
	if q.frame == "none" {
		return true
	}
	lo, hi := q.lo.kind, q.hi.kind
	if lo == "uf" || hi == "up" {
		return false
	}
	if lo == "cur" && hi == "p" {
		return false
	}
	if lo == "f" && (hi == "p" || hi == "cur") {
		return false
	}
	if q.frame == "range" && (lo == "p" || lo == "f" || hi == "p" || hi == "f") && len(q.ord) != 1 {
		return false
	}
	return true
}

func isRatio(fn string) bool { return fn == "avg" || fn == "prank" }

// canonValue renders one result cell the way the Lean driver renders a Res.
func canonValue(fn string, txt string, isNull bool) string {
	if isNull {
		return "null"
	}
	if isRatio(fn) {
		f, err := strconv.ParseFloat(txt, 64)
		if err != nil {
			return "?" + txt
		}
		if math.IsNaN(f) {
			return "nan"
		}
		return "r" + strconv.FormatInt(int64(math.Floor(f*1e6+0.5)), 10)
	}
	if _, err := strconv.ParseInt(txt, 10, 64); err == nil {
		return txt
	}
	if u, err := strconv.ParseUint(txt, 10, 64); err == nil {
		return strconv.FormatUint(u, 10)
	}
	f, err := strconv.ParseFloat(txt, 64)
	if err != nil {
		return "?" + txt
	}
	if math.IsNaN(f) {
		return "nan"
	}
	if f == math.Trunc(f) && math.Abs(f) < 1e15 {
		return strconv.FormatInt(int64(f), 10)
	}
	return "?" + txt
}

type dataset struct {
	e    *eng.Eng
	ctx  *sql.Context
	rows []trow
}

func newDataset(rows []trow) *dataset {
	e := eng.New("d")
	ctx := e.Ctx()
	e.MustExec(ctx, "CREATE TABLE t (id INT PRIMARY KEY, p INT, k INT, x INT)")
	if len(rows) > 0 {
		var vs []string
		for _, r := range rows {
			vs = append(vs, fmt.Sprintf("(%d,%s,%s,%s)", r.id, optSQL(r.p), optSQL(r.k), optSQL(r.x)))
		}
		e.MustExec(ctx, "INSERT INTO t VALUES "+strings.Join(vs, ","))
	}
	// self-validation: the table scan returns the rows in id order (the model's input order)
	r := e.Query(ctx, "SELECT id FROM t")
	if r.Class() != "ok" || len(r.Rows) != len(rows) {
		panic("harness: table scan failed")
	}
	for i, row := range r.Rows {
		if row[0] != strconv.Itoa(rows[i].id) {
			panic("harness: table scan is not in id order")
		}
	}
	return &dataset{e: e, ctx: ctx, rows: rows}
}

func (d *dataset) runWin(q winQ) string {
	r := d.e.Query(d.ctx, q.sql())
	if c := r.Class(); c != "ok" {
		return c
	}
	if len(r.Rows) != len(d.rows) {
		return fmt.Sprintf("rowcount:%d", len(r.Rows))
	}
	parts := make([]string, len(r.Rows))
	for i, row := range r.Rows {
		if len(row) != 2 || row[0] != strconv.Itoa(d.rows[i].id) {
			return "shape"
		}
		parts[i] = row[0] + "=" + canonValue(q.fn, row[1], r.Null[i][1])
	}
	return strings.Join(parts, " ")
}

// ---- GROUP BY stream

var grpFns = []string{"count_star", "count", "sum", "avg", "min", "max", "bit_and", "bit_or", "bit_xor", "gc_id", "gc_desc", "gc_distinct", "json_arrayagg", "count_distinct"}

func grpSQL(fn string) string {
	switch fn {
	case "count_star":
		return "COUNT(*)"
	case "count":
		return "COUNT(x)"
	case "sum":
		return "SUM(x)"
	case "avg":
		return "AVG(x)"
	case "min":
		return "MIN(x)"
	case "max":
		return "MAX(x)"
	case "bit_and":
		return "BIT_AND(x)"
	case "bit_or":
		return "BIT_OR(x)"
	case "bit_xor":
		return "BIT_XOR(x)"
	case "gc_id":
		return "GROUP_CONCAT(x ORDER BY id)"
	case "gc_desc":
		return "GROUP_CONCAT(x ORDER BY x DESC SEPARATOR '|')"
	case "gc_distinct":
		return "GROUP_CONCAT(DISTINCT x ORDER BY x)"
	case "json_arrayagg":
		return "JSON_ARRAYAGG(x)"
	case "count_distinct":
		return "COUNT(DISTINCT x)"
	}
	panic("harness: unknown group function " + fn)
}

func canonGrp(fn, txt string, isNull bool) string {
	if isNull {
		return "null"
	}
	switch fn {
	case "avg":
		return canonValue("avg", txt, false)
	case "gc_id", "gc_desc", "gc_distinct":
		return "t:" + txt
	case "json_arrayagg":
		return "j:" + strings.ReplaceAll(txt, " ", "")
	}
	return canonValue(fn, txt, false)
}

func (d *dataset) runGrp(fn string, by bool, minID int) string {
	var q string
	if by {
		q = fmt.Sprintf("SELECT p, %s FROM t WHERE id >= %d GROUP BY p", grpSQL(fn), minID)
	} else {
		q = fmt.Sprintf("SELECT %s FROM t WHERE id >= %d", grpSQL(fn), minID)
	}
	r := d.e.Query(d.ctx, q)
	if c := r.Class(); c != "ok" {
		return c
	}
	var items []string
	for i, row := range r.Rows {
		if by {
			k := "null"
			if !r.Null[i][0] {
				k = row[0]
			}
			items = append(items, k+"="+canonGrp(fn, row[1], r.Null[i][1]))
		} else {
			items = append(items, "null="+canonGrp(fn, row[0], r.Null[i][0]))
		}
	}
	sort.Strings(items)
	return strings.Join(items, " ")
}

// ---------------------------------------------------------------------------------------------
// Generators

func ip(v int) *int { return &v }

func genRows(r *hx.Rand, maxN int, nonNeg bool) []trow {
	n := r.Intn(maxN + 1)
	rows := make([]trow, n)
	id := 0
	for i := range rows {
		id += 1 + r.Intn(2)
		rows[i].id = id
		if !r.Chance(1, 10) {
			rows[i].p = ip(1 + r.Intn(3))
		}
		if !r.Chance(3, 20) {
			rows[i].k = ip(r.Intn(6))
		}
		if !r.Chance(1, 4) {
			if nonNeg {
				rows[i].x = ip(r.Intn(13))
			} else {
				rows[i].x = ip(r.Intn(16) - 3)
			}
		}
	}
	return rows
}

func genBound(r *hx.Rand, lo bool) bound {
	kinds := []string{"up", "p", "p", "cur", "f", "f"}
	if !lo {
		kinds = []string{"p", "p", "cur", "f", "f", "uf"}
	}
	b := bound{kind: hx.Pick(r, kinds)}
	if b.kind == "p" || b.kind == "f" {
		b.n = r.Intn(4)
	}
	return b
}

var ordChoices = [][]ordKey{
	{}, {{"k", false}}, {{"k", true}}, {{"k", false}, {"id", false}}, {{"k", true}, {"id", false}},
	{{"k", false}, {"id", true}}, {{"id", false}}, {{"id", true}},
}

var winFns = []string{"count_star", "count", "sum", "avg", "min", "max", "first", "last", "rownum", "rank", "dense", "prank", "ntile", "lag", "lead"}

func genWin(r *hx.Rand) winQ {
	for {
		q := winQ{part: r.Chance(2, 3), ord: hx.Pick(r, ordChoices), frame: "none", fn: hx.Pick(r, winFns)}
		switch r.Intn(5) {
		case 0, 1:
			q.frame = "rows"
		case 2:
			q.frame = "range"
		}
		if q.frame != "none" {
			q.lo, q.hi = genBound(r, true), genBound(r, false)
		}
		switch q.fn {
		case "ntile":
			q.n = 1 + r.Intn(5)
			if r.Chance(1, 8) {
				q.n = 12
			}
		case "lag", "lead":
			q.n = r.Intn(4)
			switch r.Intn(3) {
			case 0:
				q.def = ip(-1)
			case 1:
				q.def = ip(99)
			}
		}
		if validFrame(q) {
			return q
		}
	}
}

// a case is non-trivial when the table has at least two rows in some partition and the
// function result is not the same for all rows
func nontrivialObs(obs string) bool {
	items := strings.Fields(obs)
	if len(items) < 2 {
		return false
	}
	first := items[0][strings.Index(items[0], "=")+1:]
	for _, it := range items[1:] {
		if it[strings.Index(it, "=")+1:] != first {
			return true
		}
	}
	return false
}

func sortedKeyLists(vals []*int, maxLen int) [][]*int {
	// all non-decreasing sequences (NULL first) over vals (already in ascending order, NULL first)
	var out [][]*int
	var rec func(start int, cur []*int)
	rec = func(start int, cur []*int) {
		cp := append([]*int(nil), cur...)
		out = append(out, cp)
		if len(cur) == maxLen {
			return
		}
		for i := start; i < len(vals); i++ {
			rec(i, append(cur, vals[i]))
		}
	}
	rec(0, nil)
	return out
}

func run(a hx.RunArgs) error {
	out := hx.NewOut(a.OutDir)
	defer out.Close()
	out.Rule = "rowsf/rangef: every frame (bounds with offsets 0..3 resp. 0..2) x every partition layout of size 0..6 resp. every sorted key column " +
		"(NULLs, ties) of length <= 4, driven through the real framers (exhaustive); win/grp: random tables (0..9 rows, NULLs, ties, duplicate values, " +
		"NULL partition keys) x random window specifications / all aggregate functions on the engine; a case is non-trivial when the framer " +
		"stream has >= 2 intervals that are not all equal, resp. the result has >= 2 rows with different values"
	r := hx.NewRand(a.Seed)

	// ---- corpus: witnesses of the listed findings first
	corpusRows := []trow{{1, ip(1), ip(1), ip(10)}, {2, ip(1), ip(2), nil}, {3, ip(1), ip(2), ip(30)}, {4, ip(1), ip(4), ip(40)},
		{5, ip(2), nil, nil}, {6, ip(2), nil, nil}, {7, ip(2), ip(3), ip(7)}}
	ds := newDataset(corpusRows)
	kasc := []ordKey{{"k", false}}
	corpus := []winQ{
		{part: true, ord: []ordKey{{"id", false}}, frame: "rows", lo: bound{"p", 5}, hi: bound{"p", 3}, fn: "min"},
		{part: true, ord: []ordKey{{"k", true}}, frame: "none", fn: "sum"},
		{part: true, ord: kasc, frame: "none", fn: "sum"},
		{part: true, ord: []ordKey{{"k", false}, {"id", false}}, frame: "none", fn: "sum"},
		{part: true, ord: kasc, frame: "none", fn: "last"},
		{part: true, ord: []ordKey{{"id", false}}, frame: "rows", lo: bound{"p", 1}, hi: bound{"cur", 0}, fn: "sum"},
		{part: true, ord: []ordKey{{"id", false}}, frame: "rows", lo: bound{"p", 2}, hi: bound{"p", 1}, fn: "avg"},
		{part: true, ord: kasc, frame: "range", lo: bound{"f", 1}, hi: bound{"f", 2}, fn: "sum"},
		{part: true, ord: []ordKey{{"k", true}}, frame: "range", lo: bound{"p", 1}, hi: bound{"cur", 0}, fn: "sum"},
	}
	winCase := func(d *dataset, q winQ) {
		obs := d.runWin(q)
		out.Case(q.sexp(d.rows), obs, nontrivialObs(obs))
		out.Stat("win")
		out.Stat("win.fn." + q.fn)
		out.Stat("win.frame." + q.frame)
		if strings.HasPrefix(obs, "err:") || obs == "crash" || obs == "timeout" {
			out.Stat("win.outcome." + obs)
		}
	}
	for _, q := range corpus {
		winCase(ds, q)
	}
	grpCase := func(d *dataset, fn string, by bool, minID int) {
		var rows []trow
		for _, rw := range d.rows {
			if rw.id >= minID {
				rows = append(rows, rw)
			}
		}
		obs := d.runGrp(fn, by, minID)
		b := 0
		if by {
			b = 1
		}
		out.Case(fmt.Sprintf("(grp %s (by %d) (fn %s))", rowsSexp(rows), b, fn), obs, len(rows) >= 2)
		out.Stat("grp")
		out.Stat("grp.fn." + fn)
	}
	ds2 := newDataset(corpusRows[:4]) // no NULL keys: isolates the first-key-only peer defect
	winCase(ds2, winQ{part: true, ord: []ordKey{{"k", false}, {"id", false}}, frame: "none", fn: "sum"})
	grpCase(ds, "json_arrayagg", false, 1000) // empty input
	// two NTILEs over one window: the second column repeats the first (finding ntile_shared_window_dedup)
	ntile2Case := func(d *dataset, part bool, n1, n2 int) {
		w := "ORDER BY id"
		pb := 0
		if part {
			w = "PARTITION BY p ORDER BY id"
			pb = 1
		}
		r := d.e.Query(d.ctx, fmt.Sprintf("SELECT id, NTILE(%d) OVER (%s), NTILE(%d) OVER (%s) FROM t ORDER BY id", n1, w, n2, w))
		obs := r.Class()
		if obs == "ok" {
			if len(r.Rows) != len(d.rows) {
				obs = fmt.Sprintf("rowcount:%d", len(r.Rows))
			} else {
				parts := make([]string, len(r.Rows))
				for i, row := range r.Rows {
					parts[i] = row[0] + "=" + canonValue("ntile", row[1], r.Null[i][1]) + "/" + canonValue("ntile", row[2], r.Null[i][2])
				}
				obs = strings.Join(parts, " ")
			}
		}
		out.Case(fmt.Sprintf("(ntile2 %s (part %d) %d %d)", rowsSexp(d.rows), pb, n1, n2), obs, n1 != n2 && len(d.rows) >= 2)
		out.Stat("ntile2")
	}
	ntile2Case(ds, false, 4, 2)
	ntile2Case(ds, true, 2, 3)

	// ---- dec: scripts of read-only aggregate statements over a DECIMAL column (own random stream)
	runDec(a, out)

	// ---- rowsf: exhaustive
	var los, his []bound
	los = append(los, bound{"up", 0}, bound{"cur", 0})
	his = append(his, bound{"uf", 0}, bound{"cur", 0})
	for n := 0; n <= 3; n++ {
		los = append(los, bound{"p", n}, bound{"f", n})
		his = append(his, bound{"p", n}, bound{"f", n})
	}
	buf8 := make(sql.WindowBuffer, 12)
	for i := range buf8 {
		buf8[i] = sql.Row{int64(i)}
	}
	for _, lo := range los {
		for _, hi := range his {
			fr, err := mkFrame("Rows", lo, hi)
			if err != nil {
				return err
			}
			proto, err := fr.NewFramer(sql.NewWindowDefinition(nil, nil, fr, "", ""))
			if err != nil {
				return fmt.Errorf("NewFramer(%s,%s): %v", lo.sexp(), hi.sexp(), err)
			}
			for _, ps := range []int{0, 2} {
				for size := 0; size <= 6; size++ {
					pe := ps + size
					obs := driveFramer(proto, buf8, ps, pe)
					out.Case(fmt.Sprintf("(rowsf %s %s %d %d)", lo.sexp(), hi.sexp(), ps, pe), obs, size >= 2 && len(uniq(strings.Fields(obs))) >= 2)
					out.Stat("rowsf")
				}
			}
		}
	}

	// ---- rangef: exhaustive over sorted key columns
	var rlos, rhis []bound
	rlos = append(rlos, bound{"up", 0}, bound{"cur", 0})
	rhis = append(rhis, bound{"uf", 0}, bound{"cur", 0})
	for n := 0; n <= 2; n++ {
		rlos = append(rlos, bound{"p", n}, bound{"f", n})
		rhis = append(rhis, bound{"p", n}, bound{"f", n})
	}
	vals := []*int{nil, ip(0), ip(1), ip(2), ip(4)}
	maxLen := 3
	if a.Thorough {
		maxLen = 5
	}
	keyLists := sortedKeyLists(vals, maxLen)
	kfield := expression.NewGetField(0, types.Int32, "k", true)
	for _, lo := range rlos {
		for _, hi := range rhis {
			fr, err := mkFrame("Range", lo, hi)
			if err != nil {
				return err
			}
			for _, desc := range []bool{false, true} {
				order := sql.Ascending
				if desc {
					order = sql.Descending
				}
				w := sql.NewWindowDefinition(nil, sql.SortConditions{{Expr: kfield, Order: order}}, fr, "", "")
				proto, err := fr.NewFramer(w)
				if err != nil {
					return fmt.Errorf("range NewFramer(%s,%s): %v", lo.sexp(), hi.sexp(), err)
				}
				for _, kl := range keyLists {
					if len(kl) == 0 {
						continue
					}
					keys := append([]*int(nil), kl...)
					if desc { // descending, NULL last
						for i, j := 0, len(keys)-1; i < j; i, j = i+1, j-1 {
							keys[i], keys[j] = keys[j], keys[i]
						}
					}
					// one layout with the partition at the start of the buffer, one after a two-row partition
					for _, ps := range []int{0, 2} {
						if ps == 2 && !(a.Thorough || len(keys) == 3) {
							continue
						}
						var full []*int
						if ps == 2 {
							full = append(full, ip(3), ip(3))
						}
						full = append(full, keys...)
						buf := make(sql.WindowBuffer, len(full))
						ks := make([]string, len(full))
						for i, k := range full {
							if k == nil {
								buf[i] = sql.Row{nil}
							} else {
								buf[i] = sql.Row{int32(*k)}
							}
							ks[i] = optS(k)
						}
						pe := len(full)
						obs := driveFramer(proto, buf, ps, pe)
						d := 0
						if desc {
							d = 1
						}
						out.Case(fmt.Sprintf("(rangef %s %s %d (%s) %d %d)", lo.sexp(), hi.sexp(), d, strings.Join(ks, " "), ps, pe), obs,
							len(keys) >= 2 && len(uniq(strings.Fields(obs))) >= 2)
						out.Stat("rangef")
					}
				}
			}
		}
	}

	// ---- win + grp: random
	nData := 60
	perData := 25
	if a.Thorough {
		nData = 1500
		perData = 30
	}
	rw := r.Fork()
	for i := 0; i < nData; i++ {
		rows := genRows(rw, 9, false)
		d := newDataset(rows)
		for j := 0; j < perData; j++ {
			winCase(d, genWin(rw))
		}
		ntile2Case(d, rw.Bool(), 1+rw.Intn(4), 1+rw.Intn(4))
		// aggregation buffers: every function, grouped and global, and over an empty input
		nonNeg := true
		for _, rr := range rows {
			if rr.x != nil && *rr.x < 0 {
				nonNeg = false
			}
		}
		for _, fn := range grpFns {
			if strings.HasPrefix(fn, "bit_") && !nonNeg {
				continue
			}
			grpCase(d, fn, true, 0)
			grpCase(d, fn, false, 0)
			if i%5 == 0 {
				grpCase(d, fn, false, 1000)
				grpCase(d, fn, true, 1000)
			}
		}
	}
	return nil
}

func uniq(xs []string) []string {
	m := map[string]bool{}
	var out []string
	for _, x := range xs {
		if !m[x] {
			m[x] = true
			out = append(out, x)
		}
	}
	return out
}
