// C47 — In-memory indexed sets behave like sets (sql/in_mem_table).
package main

import (
	"fmt"
	"regexp"
	"strings"

	"github.com/dolthub/go-mysql-server/sql"
	imt "github.com/dolthub/go-mysql-server/sql/in_mem_table"
	"github.com/dolthub/go-mysql-server/verifharness/hx"
)

func main() { hx.Main(extract, run) }

// ---------------------------------------------------------------------------------------------
// Facts: the loop/lookup shape of the container, read from the source text.

func extract(a hx.ExtractArgs) error {
	mm, err := hx.ParseSrc(a.Repo, "sql/in_mem_table/multimap.go")
	if err != nil {
		return err
	}
	ed, err := hx.ParseSrc(a.Repo, "sql/in_mem_table/multimapeditors.go")
	if err != nil {
		return err
	}
	body := func(s *hx.Src, recv, name string) (string, error) {
		fd, err := s.Func(recv, name)
		if err != nil {
			return "", err
		}
		return regexp.MustCompile(`\s+`).ReplaceAllString(s.Text(fd.Body), " "), nil
	}
	lf := hx.NewLeanFile("Gms.Generated.C47", mm.Path, ed.Path)
	put, err := body(mm, "IndexedSet", "Put")
	if err != nil {
		return err
	}
	lf.DefBool("putLoopsOverKeyers", regexp.MustCompile(`^\{ for i, keyer := range is\.Keyers \{ k := keyer\.GetKey\(v\) is\.Indexes\[i\]\.Put\(k, v\) \} \}$`).MatchString(put))
	rem, err := body(mm, "IndexedSet", "Remove")
	if err != nil {
		return err
	}
	lf.DefBool("removeLoopsOverKeyers", regexp.MustCompile(`^\{ for i, keyer := range is\.Keyers \{ k := keyer\.GetKey\(v\) if fv, ok := is\.Indexes\[i\]\.Remove\(k, v\); ok \{ res = fv found = true \} \} return \}$`).MatchString(rem))
	gm, err := body(mm, "MultiMap", "GetMany")
	if err != nil {
		return err
	}
	lf.DefBool("getManyCopies", strings.Contains(gm, "vscopy := make([]V, len(vs)) copy(vscopy, vs) return vscopy"))
	rm, err := body(mm, "IndexedSet", "RemoveMany")
	if err != nil {
		return err
	}
	lf.DefBool("removeManyUsesGetMany", regexp.MustCompile(`vs := is\.Indexes\[i\]\.GetMany\(k\) for _, v := range vs \{ is\.Remove\(v\) \}`).MatchString(rm))
	ins, err := body(ed, "", "Insert")
	if err != nil {
		return err
	}
	lf.DefBool("insertChecksFirstKeyer", strings.Contains(ins, "ek := is.Keyers[0].GetKey(e) if es := is.GetMany(is.Keyers[0], ek); len(es) != 0 { return sql.ErrPrimaryKeyViolation.New() } is.Put(e) return nil"))
	lf.Comment("bodies (for the evidence trail)")
	lf.DefString("putBody", put)
	lf.DefString("removeBody", rem)
	return lf.Write(a.Out)
}

// ---------------------------------------------------------------------------------------------
// The real container, instantiated on triples.

type elem struct{ a, b, c int }

type keyer struct{ kind int }

func (k keyer) GetKey(e elem) any {
	switch k.kind {
	case 0:
		return e.a
	case 1:
		return e.b
	case 2:
		return e.a*4 + e.b
	default:
		return e.c
	}
}

type config struct {
	keyers []int // keyer kinds
	eq     int   // 0: a,b equal   1: full equality   2: a equal
}

var configs = []config{
	{[]int{0, 1}, 0},
	{[]int{0, 1, 2}, 1},
	{[]int{0}, 2},
	{[]int{0, 3}, 0}, // Equals ignores c but the second keyer is c: violates the API precondition (EqCompat)
	{[]int{2, 1}, 1},
}

func eqFn(kind int) func(x, y elem) bool {
	switch kind {
	case 0:
		return func(x, y elem) bool { return x.a == y.a && x.b == y.b }
	case 1:
		return func(x, y elem) bool { return x == y }
	default:
		return func(x, y elem) bool { return x.a == y.a }
	}
}

type op struct {
	kind string
	e, e2 elem
	i, k  int
}

func (o op) String() string {
	es := func(e elem) string { return fmt.Sprintf("%d %d %d", e.a, e.b, e.c) }
	switch o.kind {
	case "removemany":
		return fmt.Sprintf("(removemany %d %d)", o.i, o.k)
	case "clear":
		return "(clear)"
	case "edupdate":
		return fmt.Sprintf("(edupdate %s %s)", es(o.e), es(o.e2))
	default:
		return fmt.Sprintf("(%s %s)", o.kind, es(o.e))
	}
}

func fmtElems(es []elem) string {
	parts := make([]string, len(es))
	for i, e := range es {
		parts[i] = fmt.Sprintf("%d.%d.%d", e.a, e.b, e.c)
	}
	return "[" + strings.Join(parts, ",") + "]"
}

func runCase(cfgIdx int, ops []op) string {
	cfg := configs[cfgIdx]
	keyers := make([]imt.Keyer[elem], len(cfg.keyers))
	for i, k := range cfg.keyers {
		keyers[i] = keyer{k}
	}
	set := imt.NewIndexedSet[elem](eqFn(cfg.eq), keyers)
	vops := &imt.ValueOps[elem]{
		ToRow:   func(_ *sql.Context, e elem) (sql.Row, error) { return sql.Row{e.a, e.b, e.c}, nil },
		FromRow: func(_ *sql.Context, r sql.Row) (elem, error) { return elem{r[0].(int), r[1].(int), r[2].(int)}, nil },
		UpdateWithRow: func(_ *sql.Context, r sql.Row, e elem) (elem, error) {
			return elem{r[0].(int), r[1].(int), e.c}, nil
		},
	}
	row := func(e elem) sql.Row { return sql.Row{e.a, e.b, e.c} }
	var sb strings.Builder
	for _, o := range ops {
		res := "-"
		p := hx.Safe(func() {
			switch o.kind {
			case "put":
				set.Put(o.e)
			case "remove":
				r, found := set.Remove(o.e)
				if found {
					res = fmt.Sprintf("found:%d.%d.%d", r.a, r.b, r.c)
				} else {
					res = "notfound"
				}
			case "removemany":
				if o.i < len(keyers) {
					set.RemoveMany(keyers[o.i], o.k)
				} else {
					set.RemoveMany(keyer{99}, o.k)
				}
			case "clear":
				set.Clear()
			case "get":
				r, found := set.Get(o.e)
				if found {
					res = fmt.Sprintf("found:%d.%d.%d", r.a, r.b, r.c)
				} else {
					res = "notfound"
				}
			case "edinsert":
				if err := imt.Insert[elem](nil, vops, set, row(o.e)); err != nil {
					if sql.ErrPrimaryKeyViolation.Is(err) {
						res = "err:pk"
					} else {
						res = "err:other"
					}
				} else {
					res = "ok"
				}
			case "eddelete":
				if err := imt.Delete[elem](nil, vops, set, row(o.e)); err != nil {
					res = "err:other"
				} else {
					res = "ok"
				}
			case "edupdate":
				if err := imt.Update[elem](nil, vops, set, row(o.e), row(o.e2)); err != nil {
					res = "err:other"
				} else {
					res = "ok"
				}
			}
		})
		if p != "" {
			res = "crash"
		}
		fmt.Fprintf(&sb, "r=%s;c=%d;", res, set.Count())
		for i, kr := range keyers {
			for k := 0; k < 16; k++ {
				if vs := set.GetMany(kr, k); len(vs) > 0 {
					fmt.Fprintf(&sb, "%d.%d=%s;", i, k, fmtElems(vs))
				}
			}
		}
		sb.WriteString("|")
	}
	return sb.String()
}

func randElem(r *hx.Rand, dom int) elem { return elem{r.Intn(dom), r.Intn(dom), r.Intn(3)} }

func genOps(r *hx.Rand, n int, dom int, editors bool) []op {
	ops := make([]op, n)
	for i := range ops {
		x := r.Intn(100)
		switch {
		case x < 38:
			ops[i] = op{kind: "put", e: randElem(r, dom)}
		case x < 55:
			ops[i] = op{kind: "remove", e: randElem(r, dom)}
		case x < 68:
			ops[i] = op{kind: "removemany", i: r.Intn(3), k: r.Intn(dom + 1)}
		case x < 71:
			ops[i] = op{kind: "clear"}
		case x < 80 || !editors:
			ops[i] = op{kind: "get", e: randElem(r, dom)}
		case x < 88:
			ops[i] = op{kind: "edinsert", e: randElem(r, dom)}
		case x < 94:
			ops[i] = op{kind: "eddelete", e: randElem(r, dom)}
		default:
			ops[i] = op{kind: "edupdate", e: randElem(r, dom), e2: randElem(r, dom)}
		}
	}
	return ops
}

func run(a hx.RunArgs) error {
	out := hx.NewOut(a.OutDir)
	defer out.Close()
	out.Rule = "operation sequences (Put/Remove/RemoveMany/Clear/Get + editor Insert/Delete/Update) on IndexedSet[triple] under 5 keyer/Equals configurations; " +
		"exhaustive: every sequence of ≤3 (quick) / ≤4 (thorough) core ops over a 2x2 key space for config 0; random: length ≤ 25 over a 4x4 key space; " +
		"after every op the full state is observed (Count, GetMany for every keyer and key); non-trivial = at least one removal hit a non-empty bucket"
	r := hx.NewRand(a.Seed)
	emit := func(cfg int, ops []op) {
		obs := runCase(cfg, ops)
		parts := make([]string, len(ops))
		for i, o := range ops {
			parts[i] = o.String()
		}
		nontriv := strings.Contains(obs, "r=found") || strings.Contains(obs, "err:pk")
		out.Case(fmt.Sprintf("(cfg %d) (ops %s)", cfg, strings.Join(parts, " ")), obs, nontriv)
		out.Stat(fmt.Sprintf("cfg%d", cfg))
		out.StatN("ops", len(ops))
		for _, o := range ops {
			out.Stat("op:" + o.kind)
		}
	}
	// corpus
	emit(0, []op{{kind: "put", e: elem{1, 2, 0}}, {kind: "put", e: elem{1, 2, 1}}, {kind: "remove", e: elem{1, 2, 2}}, {kind: "get", e: elem{1, 2, 0}}})
	emit(1, []op{{kind: "put", e: elem{1, 2, 0}}, {kind: "put", e: elem{1, 3, 0}}, {kind: "removemany", i: 0, k: 1}})
	emit(3, []op{{kind: "put", e: elem{1, 2, 0}}, {kind: "put", e: elem{1, 2, 1}}, {kind: "remove", e: elem{1, 2, 0}}})
	emit(0, []op{{kind: "edinsert", e: elem{1, 2, 0}}, {kind: "edinsert", e: elem{1, 3, 0}}, {kind: "edupdate", e: elem{1, 0, 0}, e2: elem{2, 2, 2}}, {kind: "eddelete", e: elem{2, 0, 0}}})

	// exhaustive small sequences, config 0, 2x2 key space, c ∈ {0,1}
	var alphabet []op
	for x := 0; x < 2; x++ {
		for y := 0; y < 2; y++ {
			for c := 0; c < 2; c++ {
				alphabet = append(alphabet, op{kind: "put", e: elem{x, y, c}})
			}
			alphabet = append(alphabet, op{kind: "remove", e: elem{x, y, 0}})
		}
		alphabet = append(alphabet, op{kind: "removemany", i: 0, k: x}, op{kind: "removemany", i: 1, k: x})
	}
	depth := 3
	if a.Thorough {
		depth = 4
	}
	var rec func(prefix []op, d int)
	rec = func(prefix []op, d int) {
		if len(prefix) > 0 {
			emit(0, append([]op(nil), prefix...))
		}
		if d == 0 {
			return
		}
		for _, o := range alphabet {
			rec(append(prefix, o), d-1)
		}
	}
	rec(nil, depth)

	n := 6000
	if a.Thorough {
		n = 400000
	}
	for i := 0; i < n; i++ {
		cfg := r.Intn(len(configs))
		dom := 2 + r.Intn(3)
		emit(cfg, genOps(r, 1+r.Intn(25), dom, r.Chance(1, 2)))
	}
	return nil
}
