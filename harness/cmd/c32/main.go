// C32 — JSON values round-trip and path functions obey their laws.
// Part 1: internal/strings Quote/Unquote (byte level). Part 2: JSON document mutation / lookup.
package main

import (
	"context"
	"fmt"
	"go/ast"
	"sort"
	"strconv"
	"strings"
	"unicode/utf8"

	istrings "github.com/dolthub/go-mysql-server/internal/strings"
	"github.com/dolthub/go-mysql-server/sql"
	"github.com/dolthub/go-mysql-server/sql/types"
	"github.com/dolthub/go-mysql-server/verifharness/hx"
	"github.com/dolthub/go-mysql-server/verifharness/hx/eng"
)

func main() { hx.Main(extract, run) }

// ---------------------------------------------------------------------------------------------
// Facts.

func extract(a hx.ExtractArgs) error {
	src, err := hx.ParseSrc(a.Repo, "internal/strings/unquote.go")
	if err != nil {
		return err
	}
	tsrc, err := hx.ParseSrc(a.Repo, "sql/types/json_value.go")
	if err != nil {
		return err
	}
	esrc, err := hx.ParseSrc(a.Repo, "sql/types/json_encode.go")
	if err != nil {
		return err
	}
	lf := hx.NewLeanFile("Gms.Generated.C32", src.Path, tsrc.Path, esrc.Path, a.Repo+"/sql/types/json.go")

	// quoteEscape: the 256-entry table of the compiled package
	tbl := istrings.VerifQuoteEscape()
	rows := make([]string, 256)
	for i, e := range tbl {
		bs := make([]string, len(e))
		for k := 0; k < len(e); k++ {
			bs[k] = strconv.Itoa(int(e[k]))
		}
		rows[i] = "[" + strings.Join(bs, ", ") + "]"
	}
	lf.Comment("quoteEscape[b] as byte lists, b = 0..255 (dumped from the compiled package)")
	lf.Raw("def quoteEscape : List (List Nat) := [\n  " + strings.Join(rows, ", ") + "]\n")

	// Unquote: the escape switch (case byte ↦ written byte / special)
	fd, err := src.Func("", "Unquote")
	if err != nil {
		return err
	}
	var sw *ast.SwitchStmt
	ast.Inspect(fd.Body, func(n ast.Node) bool {
		if s, ok := n.(*ast.SwitchStmt); ok && sw == nil && src.Text(s.Tag) == "s[i]" {
			sw = s
		}
		return true
	})
	if sw == nil {
		return fmt.Errorf("Unquote: `switch s[i]` not found")
	}
	charVal := func(e ast.Expr) (int, error) {
		l, ok := e.(*ast.BasicLit)
		if !ok {
			return 0, fmt.Errorf("not a char literal: %s", src.Text(e))
		}
		c, _, _, err := strconv.UnquoteChar(l.Value[1:len(l.Value)-1], '\'')
		return int(c), err
	}
	var arms []string
	for _, c := range sw.Body.List {
		cc := c.(*ast.CaseClause)
		if len(cc.List) == 0 {
			arms = append(arms, fmt.Sprintf("(256, %s)", hx.LeanString(strings.Join(strings.Fields(src.Text(cc.Body[len(cc.Body)-1])), " "))))
			continue
		}
		from, err := charVal(cc.List[0])
		if err != nil {
			return err
		}
		var body []string
		for _, st := range cc.Body {
			body = append(body, strings.Join(strings.Fields(src.Text(st)), " "))
		}
		arms = append(arms, fmt.Sprintf("(%d, %s)", from, hx.LeanString(strings.Join(body, "; "))))
	}
	lf.Comment("Unquote: escape switch, (byte after the backslash, statements of the arm); 256 = default")
	lf.Raw("def unquoteSwitch : List (Nat × String) := [\n  " + strings.Join(arms, ",\n  ") + "]\n")
	// the tail of Unquote (quote stripping) and the trailing-backslash guard
	var ifs []string
	ast.Inspect(fd.Body, func(n ast.Node) bool {
		if s, ok := n.(*ast.IfStmt); ok {
			ifs = append(ifs, src.Text(s.Cond))
		}
		return true
	})
	lf.DefStringList("unquoteConds", ifs)

	// Quote: conditions of the loop
	qd, err := src.Func("", "Quote")
	if err != nil {
		return err
	}
	ifs = nil
	ast.Inspect(qd.Body, func(n ast.Node) bool {
		if s, ok := n.(*ast.IfStmt); ok {
			c := src.Text(s.Cond)
			if s.Init != nil {
				c = src.Text(s.Init) + "; " + c
			}
			ifs = append(ifs, c)
		}
		if l, ok := n.(*ast.BasicLit); ok && strings.Contains(l.Value, "ufffd") {
			ifs = append(ifs, "lit:"+l.Value)
		}
		return true
	})
	lf.DefStringList("quoteConds", ifs)

	// mutation modes and the conditions of walkPathAndUpdate / updateObject / updateArray / treat-as-array
	for _, fn := range []string{"walkPathAndUpdate", "updateObject", "updateArray", "updateObjectTreatAsArray", "parseIndex"} {
		f, err := tsrc.Func("", fn)
		if err != nil {
			return err
		}
		var conds []string
		ast.Inspect(f.Body, func(n ast.Node) bool {
			switch s := n.(type) {
			case *ast.IfStmt:
				c := tsrc.Text(s.Cond)
				if s.Init != nil {
					c = tsrc.Text(s.Init) + "; " + c
				}
				conds = append(conds, "if "+strings.Join(strings.Fields(c), " "))
			case *ast.CaseClause:
				var ls []string
				for _, e := range s.List {
					ls = append(ls, tsrc.Text(e))
				}
				conds = append(conds, "case "+strings.Join(ls, ","))
			case *ast.ReturnStmt:
				conds = append(conds, "ret "+strings.Join(strings.Fields(strings.TrimPrefix(tsrc.Text(s), "return")), " "))
			}
			return true
		})
		lf.DefStringList("shape_"+fn, conds)
	}
	// sortKeys comparison
	sk, err := esrc.Func("", "sortKeys")
	if err != nil {
		return err
	}
	var cmp []string
	ast.Inspect(sk.Body, func(n ast.Node) bool {
		if fl, ok := n.(*ast.FuncLit); ok {
			for _, st := range fl.Body.List {
				cmp = append(cmp, strings.Join(strings.Fields(esrc.Text(st)), " "))
			}
			return false
		}
		return true
	})
	lf.DefStringList("sortKeysLess", cmp)
	if err := extractNum(a, lf); err != nil {
		return err
	}
	return lf.Write(a.Out)
}

// ---------------------------------------------------------------------------------------------
// JSON values of the generator.

type jv struct {
	kind byte // n t f i s a o
	i    int
	s    string
	arr  []*jv
	keys []string
	vals []*jv
}

func (v *jv) sexp() string {
	switch v.kind {
	case 'n', 't', 'f':
		return string(v.kind)
	case 'i':
		return hx.List("i", strconv.Itoa(v.i))
	case 's':
		return hx.List("s", hx.HexS(v.s))
	case 'a':
		p := []string{"a"}
		for _, e := range v.arr {
			p = append(p, e.sexp())
		}
		return hx.List(p...)
	default:
		p := []string{"o"}
		for i, k := range v.keys {
			p = append(p, hx.List(hx.HexS(k), v.vals[i].sexp()))
		}
		return hx.List(p...)
	}
}

func (v *jv) toGo() interface{} {
	switch v.kind {
	case 'n':
		return nil
	case 't':
		return true
	case 'f':
		return false
	case 'i':
		return float64(v.i)
	case 's':
		return v.s
	case 'a':
		out := make([]interface{}, len(v.arr))
		for i, e := range v.arr {
			out[i] = e.toGo()
		}
		return out
	default:
		out := map[string]interface{}{}
		for i, k := range v.keys {
			out[k] = v.vals[i].toGo()
		}
		return out
	}
}

func (v *jv) text() string { // plain JSON text (insertion order, no blanks)
	switch v.kind {
	case 'n':
		return "null"
	case 't':
		return "true"
	case 'f':
		return "false"
	case 'i':
		return strconv.Itoa(v.i)
	case 's':
		return "\"" + v.s + "\""
	case 'a':
		p := make([]string, len(v.arr))
		for i, e := range v.arr {
			p[i] = e.text()
		}
		return "[" + strings.Join(p, ",") + "]"
	default:
		p := make([]string, len(v.keys))
		for i, k := range v.keys {
			p[i] = "\"" + k + "\":" + v.vals[i].text()
		}
		return "{" + strings.Join(p, ",") + "}"
	}
}

var keyPool = []string{"a", "b", "c", "ab", "bb", "a b", "k1", "B"}

func genVal(r *hx.Rand, depth int) *jv {
	x := r.Intn(10)
	if depth <= 0 && x >= 6 {
		x = r.Intn(6)
	}
	switch {
	case x == 0:
		return &jv{kind: 'n'}
	case x == 1:
		return &jv{kind: hx.Pick(r, []byte{'t', 'f'})}
	case x <= 3:
		return &jv{kind: 'i', i: r.Intn(20) - 3}
	case x <= 5:
		return &jv{kind: 's', s: hx.Pick(r, []string{"", "x", "y", "xy", "last", "0"})}
	case x <= 7:
		v := &jv{kind: 'a'}
		for n := r.Intn(4); n > 0; n-- {
			v.arr = append(v.arr, genVal(r, depth-1))
		}
		return v
	default:
		v := &jv{kind: 'o'}
		used := map[string]bool{}
		for n := r.Intn(4); n > 0; n-- {
			k := hx.Pick(r, keyPool)
			if used[k] {
				continue
			}
			used[k] = true
			v.keys = append(v.keys, k)
			v.vals = append(v.vals, genVal(r, depth-1))
		}
		return v
	}
}

type leg struct {
	kind byte // k n l m
	key  string
	n    int
}

func legsSexp(p []leg) string {
	parts := make([]string, len(p))
	for i, l := range p {
		switch l.kind {
		case 'k':
			parts[i] = hx.List("k", hx.HexS(l.key))
		case 'n':
			parts[i] = hx.List("n", strconv.Itoa(l.n))
		case 'l':
			parts[i] = "(l)"
		default:
			parts[i] = hx.List("m", strconv.Itoa(l.n))
		}
	}
	return "(" + strings.Join(parts, " ") + ")"
}

func legsText(r *hx.Rand, p []leg) string {
	var b strings.Builder
	b.WriteByte('$')
	for _, l := range p {
		switch l.kind {
		case 'k':
			plain := true
			for _, c := range l.key {
				if !(c >= 'a' && c <= 'z' || c >= 'A' && c <= 'Z' || c >= '0' && c <= '9' || c == '_') {
					plain = false
				}
			}
			if plain && (r == nil || r.Chance(3, 4)) {
				b.WriteString("." + l.key)
			} else {
				b.WriteString(".\"" + l.key + "\"")
			}
		case 'n':
			b.WriteString("[" + strconv.Itoa(l.n) + "]")
		case 'l':
			b.WriteString("[last]")
		default:
			b.WriteString("[last-" + strconv.Itoa(l.n) + "]")
		}
	}
	return b.String()
}

// genPath mostly follows the structure of d, sometimes strays.
func genPath(r *hx.Rand, d *jv, allowLast bool) []leg {
	var p []leg
	cur := d
	for n := r.Intn(4); n > 0 || (len(p) == 0 && r.Chance(9, 10)); n-- {
		follow := r.Chance(4, 5)
		switch {
		case cur != nil && cur.kind == 'o' && follow:
			if len(cur.keys) > 0 && r.Chance(3, 4) {
				i := r.Intn(len(cur.keys))
				p = append(p, leg{kind: 'k', key: cur.keys[i]})
				cur = cur.vals[i]
			} else {
				p = append(p, leg{kind: 'k', key: hx.Pick(r, keyPool)})
				cur = nil
			}
		case cur != nil && cur.kind == 'a' && follow:
			x := r.Intn(10)
			switch {
			case allowLast && x == 0:
				p = append(p, leg{kind: 'l'})
				if len(cur.arr) > 0 {
					cur = cur.arr[len(cur.arr)-1]
				} else {
					cur = nil
				}
			case allowLast && x == 1:
				k := r.Intn(3)
				p = append(p, leg{kind: 'm', n: k})
				if len(cur.arr)-1-k >= 0 {
					cur = cur.arr[len(cur.arr)-1-k]
				} else {
					cur = nil
				}
			default:
				i := r.Intn(len(cur.arr) + 2)
				p = append(p, leg{kind: 'n', n: i})
				if i < len(cur.arr) {
					cur = cur.arr[i]
				} else {
					cur = nil
				}
			}
		default:
			if r.Bool() {
				p = append(p, leg{kind: 'k', key: hx.Pick(r, keyPool)})
			} else if allowLast && r.Chance(1, 6) {
				p = append(p, leg{kind: 'l'})
			} else {
				p = append(p, leg{kind: 'n', n: r.Intn(3)})
			}
			cur = nil
		}
		if len(p) >= 4 {
			break
		}
	}
	return p
}

// ---------------------------------------------------------------------------------------------
// Observations of the real code.

var bg = context.Background()

func docText(w sql.JSONWrapper) string {
	s, err := types.JsonToMySqlString(bg, w)
	if err != nil {
		return "?marshal:" + err.Error()
	}
	return s
}

var modeNames = []string{"set", "insert", "replace", "remove", "arrayAppend", "arrayInsert"}

func realUpdate(mode string, d *jv, path string, v *jv) (res types.MutableJSON, obs string) {
	doc := types.JSONDocument{Val: d.toGo()}
	val := types.JSONDocument{Val: v.toGo()}
	var out types.MutableJSON
	var changed bool
	var err error
	p := hx.Safe(func() {
		switch mode {
		case "set":
			out, changed, err = doc.Set(bg, path, val)
		case "insert":
			out, changed, err = doc.Insert(bg, path, val)
		case "replace":
			out, changed, err = doc.Replace(bg, path, val)
		case "remove":
			out, changed, err = doc.Remove(bg, path)
		case "arrayAppend":
			out, changed, err = doc.ArrayAppend(bg, path, val)
		case "arrayInsert":
			out, changed, err = doc.ArrayInsert(bg, path, val)
		}
	})
	switch {
	case p != "":
		return nil, "crash:" + p
	case err != nil:
		return nil, "err"
	}
	c := "0"
	if changed {
		c = "1"
	}
	return out, "ok:" + hx.HexS(docText(out)) + ":" + c
}

func realLookup(w sql.JSONWrapper, path string) string {
	var r sql.JSONWrapper
	var err error
	p := hx.Safe(func() { r, err = types.LookupJSONValue(bg, w, path) })
	switch {
	case p != "":
		return "crash"
	case err != nil:
		return "err"
	case r == nil:
		return "missing"
	}
	return "found:" + hx.HexS(docText(r))
}

func unquoteObs(s string) string {
	var r string
	var err error
	p := hx.Safe(func() { r, err = istrings.Unquote(s) })
	switch {
	case p != "":
		return "crash"
	case err != nil && strings.HasPrefix(err.Error(), "Invalid unicode"):
		return "errU"
	case err != nil && strings.HasPrefix(err.Error(), "encoding/hex"):
		return "errH"
	case err != nil:
		return "err?" + err.Error()
	}
	return "ok:" + hx.HexS(r)
}

// lands: the MySQL-valid domain of the law extract(set(d,p,v),p) = v: every leg but the last exists,
// indices are plain numbers, the last leg names an existing member/cell, a new member, or the cell
// just past the end.
func lands(d *jv, p []leg) bool {
	cur := d
	for i, l := range p {
		lastLeg := i == len(p)-1
		switch l.kind {
		case 'k':
			if cur.kind != 'o' {
				return false
			}
			found := -1
			for j, k := range cur.keys {
				if k == l.key {
					found = j
				}
			}
			if found < 0 {
				return lastLeg
			}
			cur = cur.vals[found]
		case 'n':
			if cur.kind != 'a' {
				return false
			}
			if l.n == len(cur.arr) {
				return lastLeg
			}
			if l.n > len(cur.arr) {
				return false
			}
			cur = cur.arr[l.n]
		default:
			return false
		}
	}
	return true
}

// ---------------------------------------------------------------------------------------------

func run(a hx.RunArgs) error {
	out := hx.NewOut(a.OutDir)
	defer out.Close()
	out.Rule = "quote/unquote: every 1- and 2-byte string, every 3-byte string around escapes, random byte strings biased to " +
		"escapes, UTF-8 fragments and \\u sequences; documents: random JSON values (depth ≤ 3, objects with keys of different " +
		"lengths and a blank, arrays, scalars) with paths that mostly follow the document (members, indices, last, last-N, " +
		"past-the-end, strays) under the six mutation modes, lookup, the extract∘set law, SQL-level JSON functions; " +
		"number literals with integral values around 2^53, 2^63, 2^64, beyond uint64, short decimals × 10^e (e ≤ 300), long digit " +
		"strings, -0, in plain and . e E spellings (parse → print → parse against the model), fractional literals and documents with " +
		"number leaves (round trip on the real code, API and SQL); " +
		"non-trivial = the string needs an escape or is ill-formed / the number is ≥ 2^53 in magnitude or spelled with . e E / the mutation changed the document or the lookup found a value"
	r := hx.NewRand(a.Seed).Fork()

	quoteCase := func(s string) {
		var q string
		p := hx.Safe(func() { q = istrings.Quote(s) })
		obs := hx.HexS(q)
		if p != "" {
			obs = "crash:" + p
		}
		id := out.Case(hx.List("q", hx.HexS(s)), obs, q != "\""+s+"\"")
		out.Stat("quote")
		// round trip on the real code (model free)
		rt := unquoteObs(q)
		if utf8.ValidString(s) && rt != "ok:"+hx.HexS(s) {
			out.OracleFail(id, "-", fmt.Sprintf("Unquote(Quote(%q)) = %s", s, rt))
		}
		if !utf8.ValidString(s) && !strings.HasPrefix(rt, "ok:") {
			out.OracleFail(id, "-", fmt.Sprintf("Unquote(Quote(%q)) = %s (ill-formed input must still unquote)", s, rt))
		}
	}
	unquoteCase := func(s string) {
		obs := unquoteObs(s)
		id := out.Case(hx.List("uq", hx.HexS(s)), obs, strings.Contains(s, "\\"))
		out.Stat("unquote")
		if obs == "crash" {
			out.Stat("unquote:crash")
			out.OracleFail(id, "", fmt.Sprintf("Unquote(%q) panics", s))
		}
	}
	decCase := func(s string) {
		if s == "" || s[0] < 0x80 {
			return // the model's decodeSize is only consulted for a head byte ≥ 0x80
		}
		_, size := utf8.DecodeRuneInString(s)
		c, _ := utf8.DecodeRuneInString(s)
		obs := strconv.Itoa(size)
		if c == utf8.RuneError && size == 1 {
			obs = "0"
		}
		out.Case(hx.List("dec", hx.HexS(s)), obs, obs != "0")
		out.Stat("decodeRune")
	}

	// --- corpus ----------------------------------------------------------------------------------
	for _, s := range []string{`\u123`, `"\ud800"`, `\udfff`, `퟿`, ``, `\u12`, `\u`, `\uzzzz`, `a\`, `"a\"b"`, `""`, `"`, `\"`, `"é€"`, `\/\x\0`} {
		unquoteCase(s)
	}
	for _, s := range []string{"", "a", "\"", "\\", "\x00\x1f\x7f", "é€😀", "\xff", "\xed\xa0\x80", "\xc0\x80", "\xf4\x90\x80\x80", "\xe2\x82", "a\xffb", "�"} {
		quoteCase(s)
	}

	// --- exhaustive small strings ---------------------------------------------------------------
	for b := 0; b < 256; b++ {
		quoteCase(string([]byte{byte(b)}))
		unquoteCase(string([]byte{byte(b)}))
		unquoteCase("\\" + string([]byte{byte(b)}))
	}
	step := 1
	if !a.Thorough {
		step = 1 // all 65 536 two-byte strings are cheap
	}
	for b0 := 0; b0 < 256; b0 += step {
		for b1 := 0; b1 < 256; b1++ {
			s := string([]byte{byte(b0), byte(b1)})
			quoteCase(s)
			if b0 >= 0x80 {
				decCase(s)
			}
			if b0 == '\\' || b1 == '\\' || b0 == '"' || b1 == '"' {
				unquoteCase(s)
			}
		}
	}
	hexish := []byte("0123456789abcdefABCDEFgG\\\"u")
	nU := 20000
	if a.Thorough {
		nU = 400000
	}
	for i := 0; i < nU; i++ { // \u escapes: 0-5 following bytes from a hex-ish alphabet
		n := r.Intn(7)
		b := []byte("\\u")
		for k := 0; k < n; k++ {
			b = append(b, hexish[r.Intn(len(hexish))])
		}
		if r.Chance(1, 3) {
			b = append([]byte("\""), append(b, '"')...)
		}
		unquoteCase(string(b))
	}
	frag := []string{"\\", "\"", "\\u", "\\u00", "d8", "00e9", "\n", "\t", "\x01", "a", "é", "€", "😀", "\xff", "\xc3", "\xe2\x82", "\xed\xa0\x80", "\xf0\x9f", "b", "f", "/", "u", " "}
	nR := 30000
	if a.Thorough {
		nR = 1500000
	}
	for i := 0; i < nR; i++ {
		var b strings.Builder
		for n := r.Intn(7); n > 0; n-- {
			b.WriteString(frag[r.Intn(len(frag))])
		}
		s := b.String()
		if i%2 == 0 {
			quoteCase(s)
			decCase(s + "\x80\x80\x80")
		} else {
			unquoteCase(s)
		}
	}
	for i := 0; i < nR/10; i++ { // 3- and 4-byte candidates for DecodeRune
		s := string([]byte{byte(0xe0 + r.Intn(0x18)), byte(0x70 + r.Intn(0x60)), byte(0x70 + r.Intn(0x60)), byte(0x70 + r.Intn(0x60))})
		decCase(s[:3+r.Intn(2)])
	}

	// --- SQL level: JSON_QUOTE / JSON_UNQUOTE ----------------------------------------------------
	e := eng.New("d")
	sqlStr := func(s string) string { // SQL string literal for an arbitrary ASCII string
		return "'" + strings.ReplaceAll(strings.ReplaceAll(s, "\\", "\\\\"), "'", "''") + "'"
	}
	nSQL := 300
	if a.Thorough {
		nSQL = 20000
	}
	asciiFrag := []string{"\\", "\"", "\\u", "\\u00", "d8", "00e9", "a", "b", "/", "u", " ", "n", "t", "0041"}
	for i := 0; i < nSQL; i++ {
		var b strings.Builder
		for n := r.Intn(6); n > 0; n-- {
			b.WriteString(asciiFrag[r.Intn(len(asciiFrag))])
		}
		s := b.String()
		if i == 0 {
			s = `\u123`
		}
		res := e.Query(e.Ctx(), "SELECT JSON_UNQUOTE("+sqlStr(s)+")")
		obs := res.Class()
		if obs == "ok" && len(res.Rows) == 1 {
			obs = "ok:" + hx.HexS(res.Rows[0][0])
		} else if obs == "crash" {
			obs = "crash"
		} else if strings.HasPrefix(obs, "err") {
			if res.Err != nil && strings.Contains(res.Err.Error(), "Invalid unicode") {
				obs = "errU"
			} else {
				obs = "errH"
			}
		}
		id := out.Case(hx.List("uq", hx.HexS(s)), obs, strings.Contains(s, "\\"))
		out.Stat("sql:json_unquote")
		if obs == "crash" {
			out.OracleFail(id, "", fmt.Sprintf("SELECT JSON_UNQUOTE(%s) panics out of Engine.Query: %s", sqlStr(s), res.Panic))
		}
		res = e.Query(e.Ctx(), "SELECT JSON_UNQUOTE(JSON_QUOTE("+sqlStr(s)+")), JSON_QUOTE("+sqlStr(s)+")")
		if res.Class() == "ok" {
			id := out.Case(hx.List("q", hx.HexS(s)), hx.HexS(res.Rows[0][1]), true)
			out.Stat("sql:json_quote")
			if res.Rows[0][0] != s {
				out.OracleFail(id, "-", fmt.Sprintf("JSON_UNQUOTE(JSON_QUOTE(%s)) = %q", sqlStr(s), res.Rows[0][0]))
			}
		} else {
			id := out.Case(hx.List("q", hx.HexS(s)), res.Class(), true)
			out.OracleFail(id, "-", "JSON_QUOTE failed: "+res.Class())
		}
	}

	// --- JSON numbers: literal → held number → printed text → held number (num.go) -----------------
	runNumbers(a, out, hx.NewRand(a.Seed+7777).Fork(), e, sqlStr)

	// --- documents ---------------------------------------------------------------------------------
	nDoc := 6000
	if a.Thorough {
		nDoc = 300000
	}
	for i := 0; i < nDoc; i++ {
		d := genVal(r, 3)
		if i%5 != 0 && d.kind != 'a' && d.kind != 'o' {
			d = genVal(r, 3)
		}
		v := genVal(r, 1)
		mode := modeNames[r.Intn(len(modeNames))]
		p := genPath(r, d, true)
		if mode == "remove" && len(p) == 0 || mode == "arrayInsert" && len(p) == 0 {
			p = []leg{{kind: 'k', key: "a"}}
		}
		ptxt := legsText(r, p)

		// printing (canonical key order) and text round trip
		dtxt := docText(types.JSONDocument{Val: d.toGo()})
		idp := out.Case(hx.List("print", d.sexp()), hx.HexS(dtxt), d.kind == 'o' || d.kind == 'a')
		out.Stat("print")
		if i%4 == 0 {
			res := e.Query(e.Ctx(), "SELECT CAST("+sqlStr(d.text())+" AS JSON), CAST("+sqlStr(dtxt)+" AS JSON) = CAST("+sqlStr(d.text())+" AS JSON)")
			if res.Class() != "ok" || res.Rows[0][0] != dtxt || res.Rows[0][1] != "1" {
				out.OracleFail(idp, "-", fmt.Sprintf("text round trip of %s: class %s rows %v, printed form %s", d.text(), res.Class(), res.Rows, dtxt))
			}
			out.Stat("sql:roundtrip")
		}

		// mutation
		res, obs := realUpdate(mode, d, ptxt, v)
		id := out.Case(hx.List("upd", mode, d.sexp(), legsSexp(p), v.sexp()), obs, strings.HasSuffix(obs, ":1"))
		out.Stat("upd:" + mode)
		if res != nil {
			switch {
			case mode == "remove" && len(p) > 0 && p[len(p)-1].kind == 'k' && !hasLast(p):
				if l := realLookup(res, ptxt); l == "crash" {
					out.OracleFail(id, "extract_index_into_null_panics", fmt.Sprintf("after JSON_REMOVE(%s, %s) looking the path up panics", d.text(), ptxt))
				} else if l != "missing" {
					out.OracleFail(id, "-", fmt.Sprintf("after JSON_REMOVE(%s, %s) the path still resolves: %s", d.text(), ptxt, l))
				}
			case mode == "arrayAppend" && strings.HasSuffix(obs, ":1") && !hasLast(p):
				before := realLookup(types.JSONDocument{Val: d.toGo()}, ptxt)
				after := realLookup(res, ptxt)
				if !strings.HasPrefix(before, "found:") {
					break // the path resolves only through MySQL's auto-wrapping, which lookup here lacks (listed)
				}
				out.Stat("law:arrayAppend")
				if !appendedOne(before, after, v) {
					out.OracleFail(id, "-", fmt.Sprintf("JSON_ARRAY_APPEND(%s, %s, %s): before %s after %s", d.text(), ptxt, v.text(), before, after))
				}
			}
		}

		// lookup
		lobs := realLookup(types.JSONDocument{Val: d.toGo()}, ptxt)
		out.Case(hx.List("look", d.sexp(), legsSexp(p)), lobs, strings.HasPrefix(lobs, "found"))
		out.Stat("look")

		// law: extract ∘ set
		if setRes, sobs := realUpdate("set", d, ptxt, v); setRes != nil {
			l := realLookup(setRes, ptxt)
			id := out.Case(hx.List("es", d.sexp(), legsSexp(p), v.sexp()), l, strings.HasSuffix(sobs, ":1"))
			out.Stat("law:extract-set")
			if lands(d, p) {
				out.Stat("law:extract-set:lands")
				want := "found:" + hx.HexS(docText(types.JSONDocument{Val: v.toGo()}))
				if l != want {
					out.OracleFail(id, "-", fmt.Sprintf("JSON_EXTRACT(JSON_SET(%s, %s, %s), %s) = %s", d.text(), ptxt, v.text(), ptxt, l))
				}
			}
		}

		// SQL level (a sample): the six functions and JSON_EXTRACT against the same model cases
		if i%6 == 0 && len(p) > 0 {
			fn := map[string]string{"set": "JSON_SET", "insert": "JSON_INSERT", "replace": "JSON_REPLACE", "remove": "JSON_REMOVE",
				"arrayAppend": "JSON_ARRAY_APPEND", "arrayInsert": "JSON_ARRAY_INSERT"}[mode]
			q := "SELECT " + fn + "(CAST(" + sqlStr(d.text()) + " AS JSON), " + sqlStr(ptxt)
			if mode != "remove" {
				q += ", CAST(" + sqlStr(v.text()) + " AS JSON)"
			}
			q += ")"
			rs := e.Query(e.Ctx(), q)
			sobs := rs.Class()
			if sobs == "ok" {
				sobs = "ok:" + hx.HexS(rs.Rows[0][0])
			} else if strings.HasPrefix(sobs, "err") {
				sobs = "err"
			}
			out.Case(hx.List("sqlupd", mode, d.sexp(), legsSexp(p), v.sexp()), sobs, true)
			out.Stat("sql:" + fn)
			rs = e.Query(e.Ctx(), "SELECT JSON_EXTRACT(CAST("+sqlStr(d.text())+" AS JSON), "+sqlStr(ptxt)+")")
			sobs = rs.Class()
			if sobs == "ok" {
				if rs.Null[0][0] {
					sobs = "missing"
				} else {
					sobs = "found:" + hx.HexS(rs.Rows[0][0])
				}
			} else if strings.HasPrefix(sobs, "err") {
				sobs = "err"
			}
			out.Case(hx.List("look", d.sexp(), legsSexp(p)), sobs, strings.HasPrefix(sobs, "found"))
			out.Stat("sql:JSON_EXTRACT")
		}

		// comparison: a total order consistent with equality (model free, sampled triples)
		if i%3 == 0 {
			x, y, z := d, genVal(r, 2), genVal(r, 2)
			if r.Chance(1, 4) {
				y = x
			}
			cmp := func(a, b *jv) int {
				c, err := types.CompareJSON(bg, a.toGo(), b.toGo())
				if err != nil {
					return 99
				}
				return c
			}
			xy, yx, yz, xz := cmp(x, y), cmp(y, x), cmp(y, z), cmp(x, z)
			idc := out.Case(hx.List("cmp", x.sexp(), y.sexp(), z.sexp()), "-", true)
			out.Stat("cmp")
			same := docText(types.JSONDocument{Val: x.toGo()}) == docText(types.JSONDocument{Val: y.toGo()})
			switch {
			case xy == 99 || yx == 99 || yz == 99 || xz == 99:
				out.OracleFail(idc, "-", "CompareJSON returned an error")
			case xy != -yx:
				out.OracleFail(idc, "-", fmt.Sprintf("compare(%s,%s)=%d but reversed=%d", x.text(), y.text(), xy, yx))
			case same != (xy == 0):
				out.OracleFail(idc, "-", fmt.Sprintf("compare(%s,%s)=%d but equal-as-documents=%v", x.text(), y.text(), xy, same))
			case xy <= 0 && yz <= 0 && xz > 0:
				out.OracleFail(idc, "-", fmt.Sprintf("not transitive: %s ≤ %s ≤ %s but compare(x,z)=%d", x.text(), y.text(), z.text(), xz))
			}
		}
	}
	return nil
}

func hasLast(p []leg) bool {
	for _, l := range p {
		if l.kind == 'l' || l.kind == 'm' {
			return true
		}
	}
	return false
}

// appendedOne: the value at the path gained exactly one element (an array grew by one at the
// end; anything else was wrapped into a two-element array).
func appendedOne(before, after string, v *jv) bool {
	if !strings.HasPrefix(before, "found:") || !strings.HasPrefix(after, "found:") {
		return false
	}
	dec := func(s string) string {
		var b []byte
		fmt.Sscanf(strings.TrimPrefix(s, "found:x"), "%x", &b)
		return string(b)
	}
	b, a := dec(before), dec(after)
	vt := docText(types.JSONDocument{Val: v.toGo()})
	if strings.HasPrefix(b, "[") {
		if b == "[]" {
			return a == "["+vt+"]"
		}
		return a == strings.TrimSuffix(b, "]")+", "+vt+"]"
	}
	return a == "["+b+", "+vt+"]"
}

var _ = sort.Strings
