// C32 part 3 — JSON numbers: literal → held number (convertJsonNumbers) → printed text
// (writeMarshalledValue float64/int64/uint64) → held number again. See lean/Gms/Model/JsonNum.lean.
package main

import (
	"fmt"
	"go/ast"
	"math"
	"math/big"
	"os"
	"strconv"
	"strings"

	"github.com/dolthub/go-mysql-server/sql/types"
	"github.com/dolthub/go-mysql-server/verifharness/hx"
	"github.com/dolthub/go-mysql-server/verifharness/hx/eng"
)

// ---------------------------------------------------------------------------------------------
// Facts: the statements of the number cases of the printer and the number case of the parser.

func squash(s string) string { return strings.Join(strings.Fields(s), " ") }

func extractNum(a hx.ExtractArgs, lf *hx.LeanFile) error {
	esrc, err := hx.ParseSrc(a.Repo, "sql/types/json_encode.go")
	if err != nil {
		return err
	}
	wm, err := esrc.Func("", "writeMarshalledValue")
	if err != nil {
		return err
	}
	want := map[string]bool{"float64": true, "int64": true, "uint64": true}
	var arms []string
	ast.Inspect(wm.Body, func(n ast.Node) bool {
		cc, ok := n.(*ast.CaseClause)
		if !ok || len(cc.List) != 1 || !want[esrc.Text(cc.List[0])] {
			return true
		}
		var conds []string
		for _, st := range cc.Body {
			ast.Inspect(st, func(m ast.Node) bool {
				switch s := m.(type) {
				case *ast.IfStmt:
					conds = append(conds, "if "+squash(esrc.Text(s.Cond)))
				case *ast.CallExpr:
					if f := esrc.Text(s.Fun); strings.HasPrefix(f, "strconv.") || strings.HasPrefix(f, "math.") {
						conds = append(conds, "call "+squash(esrc.Text(s)))
					}
				}
				return true
			})
		}
		arms = append(arms, esrc.Text(cc.List[0])+": "+strings.Join(conds, "; "))
		return false
	})
	if len(arms) != 3 {
		return fmt.Errorf("writeMarshalledValue: expected the cases float64, int64, uint64, found %v", arms)
	}
	lf.Comment("writeMarshalledValue: the conditions and strconv/math calls of the cases float64, int64, uint64")
	lf.DefStringList("shape_printNumber", arms)

	jsrc, err := hx.ParseSrc(a.Repo, "sql/types/json.go")
	if err != nil {
		return err
	}
	cj, err := jsrc.Func("", "convertJsonNumbers")
	if err != nil {
		return err
	}
	var shape []string
	found := false
	ast.Inspect(cj.Body, func(n ast.Node) bool {
		cc, ok := n.(*ast.CaseClause)
		if !ok || len(cc.List) != 1 || jsrc.Text(cc.List[0]) != "json.Number" {
			return true
		}
		found = true
		for _, st := range cc.Body {
			ast.Inspect(st, func(m ast.Node) bool {
				switch s := m.(type) {
				case *ast.IfStmt:
					c := jsrc.Text(s.Cond)
					if s.Init != nil {
						c = jsrc.Text(s.Init) + "; " + c
					}
					shape = append(shape, "if "+squash(c))
				case *ast.ReturnStmt:
					shape = append(shape, "ret "+squash(strings.TrimPrefix(jsrc.Text(s), "return")))
				case *ast.AssignStmt:
					shape = append(shape, "set "+squash(jsrc.Text(s)))
				}
				return true
			})
		}
		return false
	})
	if !found {
		return fmt.Errorf("convertJsonNumbers: case json.Number not found")
	}
	lf.Comment("convertJsonNumbers, case json.Number: assignments, conditions and returns in order")
	lf.DefStringList("shape_convertNumber", shape)
	return nil
}

// ---------------------------------------------------------------------------------------------
// Structured literals with an integral value ±mant·10^exp10.

type lit struct {
	neg    bool
	mant   *big.Int
	exp10  int
	floaty bool
}

func b2i(b bool) string {
	if b {
		return "1"
	}
	return "0"
}

func (l lit) sexp() string {
	return hx.List("num", b2i(l.neg), l.mant.String(), strconv.Itoa(l.exp10), b2i(l.floaty))
}

func (l lit) value() *big.Int {
	v := new(big.Int).Exp(big.NewInt(10), big.NewInt(int64(l.exp10)), nil)
	return v.Mul(v, l.mant)
}

// text renders the literal; every rendering of a floaty literal denotes the same value.
func (l lit) text(r *hx.Rand) string {
	sign := ""
	if l.neg {
		sign = "-"
	}
	if !l.floaty {
		return sign + l.value().String()
	}
	m := l.mant.String()
	style := 0
	if r != nil {
		style = r.Intn(5)
	}
	switch {
	case style == 1:
		return sign + m + hx.Pick(r, []string{"E", "E+", "e+"}) + strconv.Itoa(l.exp10)
	case style == 2 && len(m) > 1: // d.ddd e(exp+len-1)
		return sign + m[:1] + "." + m[1:] + "e" + strconv.Itoa(l.exp10+len(m)-1)
	case style == 3 && l.exp10+len(m) <= 40: // written out, with a zero fraction
		return sign + l.value().String() + hx.Pick(r, []string{".0", ".000", ".0e0"})
	case style == 4 && len(m) > 2 && l.mant.Sign() != 0: // dd.dd e(exp+len-2)
		return sign + m[:2] + "." + m[2:] + "e" + strconv.Itoa(l.exp10+len(m)-2)
	}
	return sign + m + "e" + strconv.Itoa(l.exp10)
}

func bigS(s string) *big.Int {
	v, ok := new(big.Int).SetString(s, 10)
	if !ok {
		panic("bad corpus number " + s)
	}
	return v
}

func pow2(k int) *big.Int { return new(big.Int).Lsh(big.NewInt(1), uint(k)) }

var numCorpus = []lit{
	{false, bigS("1"), 19, true}, {true, bigS("1"), 19, true}, {false, bigS("602214076"), 15, true}, {false, bigS("1"), 300, true},
	{false, bigS("18446744073709551616"), 0, false}, {false, bigS("18446744073709551615"), 0, false},
	{false, bigS("9223372036854775807"), 0, false}, {false, bigS("9223372036854775808"), 0, false},
	{true, bigS("9223372036854775808"), 0, false}, {true, bigS("9223372036854775809"), 0, false},
	{false, bigS("9223372036854775808"), 0, true}, {true, bigS("9223372036854775808"), 0, true},
	{false, bigS("9223372036854775807"), 0, true}, {false, bigS("18446744073709551615"), 0, true},
	{false, bigS("18446744073709551616"), 0, true}, {true, bigS("18446744073709551616"), 0, false},
	{false, bigS("9007199254740991"), 0, false}, {false, bigS("9007199254740992"), 0, false}, {false, bigS("9007199254740993"), 0, false},
	{false, bigS("9007199254740991"), 0, true}, {false, bigS("9007199254740992"), 0, true}, {false, bigS("9007199254740993"), 0, true},
	{true, bigS("9007199254740993"), 0, false}, {true, bigS("9007199254740993"), 0, true},
	{true, bigS("0"), 0, false}, {true, bigS("0"), 0, true}, {false, bigS("0"), 0, false}, {false, bigS("0"), 5, true},
	{false, bigS("15"), 2, true}, {false, bigS("12"), 0, true}, {false, bigS("1"), 2, true}, {false, bigS("7"), 0, false},
	{false, bigS("12345678901234567"), 3, true}, {false, bigS("12345678901234567"), 3, false},
	{false, bigS("9223372036854776000"), 0, false}, {false, bigS("18446744073709552"), 3, true},
	{false, bigS("123456789012345678901234567890"), 0, false}, {true, bigS("123456789012345678901234567890"), 0, false},
	{false, bigS("17976931348623157"), 292, true}, {true, bigS("1"), 300, true}, {false, bigS("1"), 22, true}, {false, bigS("1"), 23, true},
}

// genLit: magnitudes around 2^53, 2^63, 2^64 and beyond, short decimals times powers of ten, long
// digit strings; both spellings (plain digits / with . e E), both signs.
func genLit(r *hx.Rand) lit {
	l := lit{neg: r.Chance(1, 3), floaty: r.Bool()}
	switch r.Intn(8) {
	case 0: // 2^k + small delta, k around the boundaries
		k := hx.Pick(r, []int{52, 53, 54, 62, 63, 63, 64, 64, 65, 70, 100})
		v := pow2(k)
		d := int64(r.Intn(9) - 4)
		if r.Chance(1, 3) {
			d = int64(r.Intn(4097) - 2048)
		}
		v.Add(v, big.NewInt(d))
		l.mant = v
	case 1: // a double in [2^62, 2^66): 53 random bits shifted
		m := new(big.Int).SetUint64(uint64(1)<<52 | uint64(r.Intn(1<<30))<<22 | uint64(r.Intn(1<<22)))
		l.mant = m.Lsh(m, uint(10+r.Intn(4)))
	case 2, 3: // short mantissa × 10^e
		l.mant = big.NewInt(int64(r.Intn(100000)))
		if r.Chance(1, 4) {
			l.mant = big.NewInt(int64(r.Intn(10)))
		}
		l.exp10 = r.Intn(40)
		if r.Chance(1, 5) {
			l.exp10 = r.Intn(300)
		}
		if !l.floaty && l.exp10 > 60 {
			l.exp10 = r.Intn(60)
		}
	case 4: // 15-20 digit mantissa × 10^(0..6)
		n := 15 + r.Intn(6)
		l.mant = randDigits(r, n)
		l.exp10 = r.Intn(7)
	case 5: // long digit strings
		l.mant = randDigits(r, 1+r.Intn(45))
	case 6: // small integers
		l.mant = big.NewInt(int64(r.Intn(3000)))
	default: // uint64 / int64 neighbourhood in decimal
		base := hx.Pick(r, []string{"9223372036854775807", "18446744073709551615", "9007199254740992", "10000000000000000000", "9223372036854776000"})
		v := bigS(base)
		l.mant = v.Add(v, big.NewInt(int64(r.Intn(5)-2)))
	}
	return l
}

func randDigits(r *hx.Rand, n int) *big.Int {
	b := make([]byte, n)
	for i := range b {
		b[i] = byte('0' + r.Intn(10))
	}
	if b[0] == '0' {
		b[0] = '1'
	}
	return bigS(string(b))
}

// ---------------------------------------------------------------------------------------------
// Exact values of held documents.

func numKind(v interface{}) string {
	switch v.(type) {
	case float64:
		return "f"
	case int64:
		return "i"
	case uint64:
		return "u"
	}
	return fmt.Sprintf("?%T", v)
}

// exactNum: the exact value of a held number (nil if v is not a number or not finite).
func exactNum(v interface{}) *big.Rat {
	switch x := v.(type) {
	case float64:
		if math.IsInf(x, 0) || math.IsNaN(x) {
			return nil
		}
		return new(big.Rat).SetFloat64(x)
	case int64:
		return new(big.Rat).SetInt64(x)
	case uint64:
		return new(big.Rat).SetInt(new(big.Int).SetUint64(x))
	}
	return nil
}

func ratText(q *big.Rat) string {
	if q == nil {
		return "nan"
	}
	if q.IsInt() {
		return q.Num().String()
	}
	return q.RatString()
}

// sameDoc: the two held documents are the same tree with exactly equal numbers.
func sameDoc(a, b interface{}) bool {
	switch x := a.(type) {
	case []interface{}:
		y, ok := b.([]interface{})
		if !ok || len(x) != len(y) {
			return false
		}
		for i := range x {
			if !sameDoc(x[i], y[i]) {
				return false
			}
		}
		return true
	case map[string]interface{}:
		y, ok := b.(map[string]interface{})
		if !ok || len(x) != len(y) {
			return false
		}
		for k, v := range x {
			w, ok := y[k]
			if !ok || !sameDoc(v, w) {
				return false
			}
		}
		return true
	case float64, int64, uint64:
		p, q := exactNum(a), exactNum(b)
		return p != nil && q != nil && p.Cmp(q) == 0
	default:
		return a == b
	}
}

// inBigFloatRegion: the document holds a double outside the int64 range whose shortest digits are not
// its exact value and read back as an integer (region big_float_reparsed_as_integer; decided with
// the standard library only).
func inBigFloatRegion(v interface{}) bool {
	switch x := v.(type) {
	case []interface{}:
		for _, e := range x {
			if inBigFloatRegion(e) {
				return true
			}
		}
	case map[string]interface{}:
		for _, e := range x {
			if inBigFloatRegion(e) {
				return true
			}
		}
	case float64:
		if x != math.Trunc(x) || math.IsInf(x, 0) || (x >= -9223372036854775808.0 && x < 9223372036854775808.0) {
			return false
		}
		short := strconv.FormatFloat(math.Abs(x), 'f', -1, 64)
		if short == ratText(exactNum(math.Abs(x))) {
			return false
		}
		sv := bigS(short)
		if x < 0 {
			return sv.Cmp(pow2(63)) <= 0
		}
		return sv.Cmp(pow2(64)) < 0
	}
	return false
}

func parseDoc(text string) (doc interface{}, obs string) {
	var err error
	p := hx.Safe(func() { err = types.JsonUnmarshal([]byte(text), &doc) })
	switch {
	case p != "":
		return nil, "crash"
	case err != nil:
		return nil, "err"
	}
	return doc, ""
}

// roundTrip: parse → print → parse on the sql/types API.
func roundTrip(text string) (d1 interface{}, printed string, d2 interface{}, fail string) {
	d1, obs := parseDoc(text)
	if obs != "" {
		return nil, "", nil, "parse:" + obs
	}
	p := hx.Safe(func() { printed = docText(types.JSONDocument{Val: d1}) })
	if p != "" {
		return d1, "", nil, "print:crash"
	}
	d2, obs = parseDoc(printed)
	if obs != "" {
		return d1, printed, nil, "reparse:" + obs
	}
	return d1, printed, d2, ""
}

// ---------------------------------------------------------------------------------------------

var fracCorpus = []string{"0.5", "-0.5", "0.1", "1.5", "-2.5e-3", "1e-7", "123.456e5", "123.456e1", "5e-324", "1.7976931348623157e308",
	"2.2250738585072014e-308", "9007199254740992.5", "9007199254740993.5", "0.000001", "1e-300", "3.141592653589793", "1.0000000000000002",
	"4.35", "0.3", "1e23", "8.41e21", "9.5367431640625e-7", "-1.5e18", "9223372036854775807.5", "0.1e1", "100e-2", "-0.0e-5"}

func genFrac(r *hx.Rand) string {
	n := 1 + r.Intn(18)
	m := randDigits(r, n).String()
	if r.Chance(1, 4) {
		m = strconv.Itoa(r.Intn(1000))
	}
	dot := r.Intn(len(m) + 1)
	s := m
	switch {
	case dot == 0:
		s = "0." + m
	case dot < len(m):
		s = m[:dot] + "." + m[dot:]
	}
	if r.Chance(2, 3) {
		s += hx.Pick(r, []string{"e", "E", "e-", "e+"}) + strconv.Itoa(hx.Pick(r, []int{0, 1, 2, 3, 5, 10, 17, 19, 22, 30, 100, 250}))
	}
	if r.Chance(1, 3) {
		s = "-" + s
	}
	return s
}

// genNumDoc: a document text whose leaves are mostly number literals.
func genNumDoc(r *hx.Rand, depth int) string {
	x := r.Intn(10)
	if depth <= 0 && x >= 7 {
		x = r.Intn(7)
	}
	switch {
	case x <= 3:
		return genLit(r).text(r)
	case x == 4:
		return genFrac(r)
	case x == 5:
		return hx.Pick(r, numCorpus).text(r)
	case x == 6:
		return hx.Pick(r, []string{"null", "true", `"1e19"`, `"x"`, "false"})
	case x <= 8:
		var p []string
		for n := r.Intn(4); n > 0; n-- {
			p = append(p, genNumDoc(r, depth-1))
		}
		return "[" + strings.Join(p, hx.Pick(r, []string{",", ", "})) + "]"
	default:
		var p []string
		used := map[string]bool{}
		for n := r.Intn(4); n > 0; n-- {
			k := hx.Pick(r, keyPool)
			if used[k] {
				continue
			}
			used[k] = true
			p = append(p, `"`+k+`":`+genNumDoc(r, depth-1))
		}
		return "{" + strings.Join(p, ",") + "}"
	}
}

// Kept OUT of the envelope (defects of the unchanged tree that the streams below do not send):
//   - literals that overflow float64: `1e400` is accepted by JsonUnmarshal (the error of json.Number.Float64 is
//     dropped), held as +Inf and printed as `+Inf`, which is not JSON (generators keep values below 10^308);
//   - CompareJSON between an int64/uint64 number and a double outside that integer range (compareIntToFloat /
//     compareUintToFloat convert the double with int64(f) / uint64(f)): the comparison oracle of main.go keeps
//     small numbers, and here CompareJSON is only consulted on documents that are exactly equal.
// VERIF_C32_PROBE=1 prints what the real code does on them to stderr (not part of the check).
func probeNumbers() {
	if os.Getenv("VERIF_C32_PROBE") == "" {
		return
	}
	d1, printed, _, fail := roundTrip("1e400")
	fmt.Fprintf(os.Stderr, "probe 1e400: held %v printed %q fail %q\n", d1, printed, fail)
	for _, p := range [][2]string{{"9007199254740993", "1e19"}, {"18446744073709551615", "1e30"}, {"9007199254740993", "-1e19"}, {"5", "1e19"}} {
		a, _ := parseDoc(p[0])
		b, _ := parseDoc(p[1])
		c, err := types.CompareJSON(bg, a, b)
		c2, _ := types.CompareJSON(bg, b, a)
		fmt.Fprintf(os.Stderr, "probe CompareJSON(%s [%T], %s [%T]) = %d, reversed %d (%v)\n", p[0], a, p[1], b, c, c2, err)
	}
}

func runNumbers(a hx.RunArgs, out *hx.Out, r *hx.Rand, e *eng.Eng, sqlStr func(string) string) {
	probeNumbers()
	const region = "big_float_reparsed_as_integer"
	// 1. model stream: one structured integral literal per case
	litCase := func(l lit, rr *hx.Rand) {
		text := l.text(rr)
		d1, printed, d2, fail := roundTrip(text)
		var obs string
		switch {
		case fail != "" && d1 == nil:
			obs = fail
		case fail != "":
			obs = numKind(d1) + ":" + printed + ":" + fail
		default:
			obs = numKind(d1) + ":" + printed + ":" + numKind(d2) + ":" + ratText(exactNum(d2))
		}
		isBig := new(big.Int).Abs(l.value()).Cmp(pow2(53)) >= 0
		id := out.Case(l.sexp(), obs, isBig || l.floaty)
		out.Stat("num")
		if isBig {
			out.Stat("num:≥2^53")
		}
		if new(big.Int).Abs(l.value()).Cmp(pow2(63)) >= 0 {
			out.Stat("num:≥2^63:" + numKind(d1))
		}
		// the property on the real code alone
		if fail != "" || !sameDoc(d1, d2) {
			tag := "-"
			if fail == "" && inBigFloatRegion(d1) {
				tag = region
				out.Stat("num:" + region)
			}
			out.OracleFail(id, tag, fmt.Sprintf("JSON number %s is held as %s %s, printed as %s, which parses to %s %s (%s)",
				text, numKind(d1), ratText(exactNum(d1)), printed, numKind(d2), ratText(exactNum(d2)), fail))
		} else if c, err := types.CompareJSON(bg, d1, d2); err != nil || c != 0 {
			out.OracleFail(id, "-", fmt.Sprintf("JSON number %s: the reparsed printed form %s has the same value but CompareJSON = %d (%v)", text, printed, c, err))
		}
	}
	for _, l := range numCorpus {
		litCase(l, nil)
		if l.floaty {
			litCase(l, r)
		}
	}
	nLit := 4000
	if a.Thorough {
		nLit = 300000
	}
	for i := 0; i < nLit; i++ {
		litCase(genLit(r), r)
	}

	// 2. model-free stream: documents with number leaves (integral and fractional), API and SQL
	docCase := func(text string, viaSQL bool) {
		d1, printed, d2, fail := roundTrip(text)
		id := out.Case(hx.List("numrt", hx.HexS(text)), "-", strings.ContainsAny(text, "eE."))
		out.Stat("numrt")
		tag := "-"
		if d1 != nil && inBigFloatRegion(d1) {
			tag = region
		}
		if fail != "" || !sameDoc(d1, d2) {
			out.OracleFail(id, tag, fmt.Sprintf("document %s printed as %s, which parses to a different document (%s)", text, printed, fail))
		} else if c, err := types.CompareJSON(bg, d1, d2); err != nil || c != 0 {
			out.OracleFail(id, tag, fmt.Sprintf("document %s printed as %s: reparsed document compares %d (%v)", text, printed, c, err))
		}
		if viaSQL {
			out.Stat("sql:numrt")
			q := "SELECT CAST(CAST(CAST(" + sqlStr(text) + " AS JSON) AS CHAR) AS JSON) = CAST(" + sqlStr(text) + " AS JSON), CAST(CAST(" + sqlStr(text) + " AS JSON) AS CHAR)"
			res := e.Query(e.Ctx(), q)
			if res.Class() != "ok" || len(res.Rows) != 1 || res.Rows[0][0] != "1" || res.Rows[0][1] != printed {
				out.OracleFail(id, tag, fmt.Sprintf("SQL round trip of %s: class %s rows %v (API printed form %s)", text, res.Class(), res.Rows, printed))
			}
		}
	}
	for i, t := range fracCorpus {
		docCase(t, i%3 == 0)
	}
	for i, t := range []string{`9223372036854775808.0`, `[1, {"x": -1e19}]`, `{"avogadro": 6.02214076e23}`, `[18446744073709551616, 1e300]`, `[1e19]`, `{"a": [9223372036854775807, 9223372036854775808, -9223372036854775808]}`} {
		docCase(t, i < 4)
	}
	nDoc := 1500
	if a.Thorough {
		nDoc = 100000
	}
	for i := 0; i < nDoc; i++ {
		switch {
		case i%3 == 0:
			docCase(genFrac(r), i%30 == 0)
		default:
			docCase(genNumDoc(r, 2), i%20 == 1)
		}
	}
}
