// C49 — Name suggestions pick a closest candidate (internal/similartext).
package main

import (
	"fmt"
	"go/ast"
	"go/token"
	"sort"
	"strconv"
	"strings"

	"github.com/dolthub/go-mysql-server/internal/similartext"
	"github.com/dolthub/go-mysql-server/verifharness/hx"
)

func main() { hx.Main(extract, run) }

// ---------------------------------------------------------------------------------------------
// Facts: the constants the Lean model is instantiated with, read from the source text.

func extract(a hx.ExtractArgs) error {
	src, err := hx.ParseSrc(a.Repo, "internal/similartext/similartext.go")
	if err != nil {
		return err
	}
	lf := hx.NewLeanFile("Gms.Generated.C49", src.Path)

	// var DistanceSkipped = 3
	init, err := src.PkgVarInit("DistanceSkipped")
	if err != nil {
		return err
	}
	lit, ok := init.(*ast.BasicLit)
	if !ok || lit.Kind != token.INT {
		return fmt.Errorf("DistanceSkipped is not an integer literal: %s", src.Text(init))
	}
	skip, _ := strconv.ParseUint(lit.Value, 10, 64)
	lf.DefNat("distanceSkipped", skip)

	fd, err := src.Func("", "distanceForStrings")
	if err != nil {
		return err
	}
	var subCost []uint64
	var indel []uint64
	ast.Inspect(fd.Body, func(n ast.Node) bool {
		as, ok := n.(*ast.AssignStmt)
		if !ok || len(as.Lhs) != 1 || len(as.Rhs) != 1 {
			return true
		}
		lhs, _ := as.Lhs[0].(*ast.Ident)
		if lhs == nil {
			return true
		}
		switch {
		case lhs.Name == "matchSubCost" && as.Tok == token.ADD_ASSIGN:
			if l, ok := as.Rhs[0].(*ast.BasicLit); ok {
				v, _ := strconv.ParseUint(l.Value, 10, 64)
				subCost = append(subCost, v)
			} else {
				subCost = append(subCost, 999999)
			}
		case (lhs.Name == "delCost" || lhs.Name == "insCost") && as.Tok == token.DEFINE:
			if be, ok := as.Rhs[0].(*ast.BinaryExpr); ok && be.Op == token.ADD {
				if l, ok := be.Y.(*ast.BasicLit); ok {
					v, _ := strconv.ParseUint(l.Value, 10, 64)
					indel = append(indel, v)
					return true
				}
			}
			indel = append(indel, 999999)
		}
		return true
	})
	if len(subCost) != 1 {
		return fmt.Errorf("expected exactly one `matchSubCost += <lit>`, found %d", len(subCost))
	}
	lf.DefNat("substitutionCost", subCost[0])
	lf.DefNatList("insertDeleteCosts", indel)

	// if dist >= DistanceSkipped { continue }
	ff, err := src.Func("", "Find")
	if err != nil {
		return err
	}
	cmp := ""
	ast.Inspect(ff.Body, func(n ast.Node) bool {
		is, ok := n.(*ast.IfStmt)
		if !ok {
			return true
		}
		be, ok := is.Cond.(*ast.BinaryExpr)
		if !ok {
			return true
		}
		if id, ok := be.Y.(*ast.Ident); ok && id.Name == "DistanceSkipped" {
			if x, ok := be.X.(*ast.Ident); ok && x.Name == "dist" {
				cmp = be.Op.String()
			}
		}
		return true
	})
	if cmp == "" {
		return fmt.Errorf("comparison `dist <op> DistanceSkipped` not found in Find")
	}
	lf.DefString("skipComparison", cmp)
	return lf.Write(a.Out)
}

// ---------------------------------------------------------------------------------------------
// Correspondence + oracle.

func refDist(a, b string) int { // independent reference: indel + substitution-2 distance
	m := make([][]int, len(a)+1)
	for i := range m {
		m[i] = make([]int, len(b)+1)
		m[i][0] = i
	}
	for j := 0; j <= len(b); j++ {
		m[0][j] = j
	}
	for i := 1; i <= len(a); i++ {
		for j := 1; j <= len(b); j++ {
			c := m[i-1][j-1]
			if a[i-1] != b[j-1] {
				c += 2
			}
			if v := m[i-1][j] + 1; v < c {
				c = v
			}
			if v := m[i][j-1] + 1; v < c {
				c = v
			}
			m[i][j] = c
		}
	}
	return m[len(a)][len(b)]
}

func allStrings(alpha string, maxLen int) []string {
	out := []string{""}
	cur := []string{""}
	for l := 1; l <= maxLen; l++ {
		var next []string
		for _, s := range cur {
			for _, c := range alpha {
				next = append(next, s+string(c))
			}
		}
		out = append(out, next...)
		cur = next
	}
	return out
}

func randString(r *hx.Rand, alpha string, maxLen int) string {
	n := r.Intn(maxLen + 1)
	b := make([]byte, n)
	for i := range b {
		b[i] = alpha[r.Intn(len(alpha))]
	}
	return string(b)
}

func run(a hx.RunArgs) error {
	out := hx.NewOut(a.OutDir)
	defer out.Close()
	out.Rule = "dist: every ordered pair of strings over a small alphabet up to a length bound (exhaustive) plus random longer pairs; " +
		"find: random candidate lists (0-8 names, with duplicates and ties) and names; a case is non-trivial when the two strings differ (dist) " +
		"or at least one candidate is within the threshold (find)"
	r := hx.NewRand(a.Seed)

	distCase := func(s, t string) {
		var d int
		p := hx.Safe(func() { d = similartext.VerifDistance(s, t) })
		obs := strconv.Itoa(d)
		if p != "" {
			obs = "crash:" + p
		}
		id := out.Case(hx.List("dist", hx.HexS(s), hx.HexS(t)), obs, s != t)
		out.Stat("dist")
		if p == "" && d != refDist(s, t) {
			out.OracleFail(id, "-", fmt.Sprintf("distanceForStrings(%q,%q)=%d, edit distance is %d", s, t, d, refDist(s, t)))
		}
	}
	findCase := func(names []string, src string, viaMap bool) {
		var res string
		p := hx.Safe(func() {
			if viaMap {
				m := map[string]int{}
				for _, n := range names {
					m[n] = 1
				}
				res = similartext.FindFromMap(m, src)
			} else {
				res = similartext.Find(names, src)
			}
		})
		// canonical observation: the list of suggested names (sorted for the map variant)
		obs := "none"
		var sugg []string
		if p != "" {
			obs = "crash:" + p
		} else if res != "" {
			body := strings.TrimSuffix(strings.TrimPrefix(res, ", maybe you mean "), "?")
			sugg = strings.Split(body, " or ")
			if viaMap {
				sort.Strings(sugg)
			}
			obs = hx.ListOf(sugg, hx.HexS)
		}
		kind := "find"
		cand := names
		if viaMap {
			kind = "findmap"
			set := map[string]bool{}
			cand = nil
			for _, n := range names {
				if !set[n] {
					set[n] = true
					cand = append(cand, n)
				}
			}
			sort.Strings(cand)
		}
		// property oracle, model free: suggestions = exactly the candidates at minimal distance < 3
		best := -1
		for _, n := range cand {
			d := refDist(n, src)
			if d < 3 && (best == -1 || d < best) {
				best = d
			}
		}
		var want []string
		if src != "" && best >= 0 {
			for _, n := range cand {
				if refDist(n, src) == best {
					want = append(want, n)
				}
			}
		}
		id := out.Case(hx.List(kind, hx.HexS(src), hx.ListOf(cand, hx.HexS)), obs, best >= 0)
		out.Stat(kind)
		if best >= 0 {
			out.Stat("find:some-within-threshold")
		}
		if len(want) > 1 {
			out.Stat("find:tie")
		}
		if p == "" && strings.Join(sugg, "\x00") != strings.Join(want, "\x00") {
			out.OracleFail(id, "-", fmt.Sprintf("Find(%q, %q) suggested %q, closest candidates are %q", names, src, sugg, want))
		}
	}

	// corpus: regression cases first
	distCase("", "")
	distCase("a", "")
	distCase("", "ab")
	distCase("kitten", "sitting")
	findCase([]string{"foo", "bar", "aka", "ake"}, "a", false)
	findCase([]string{"foo", "bar", "aka", "ake"}, "aka", false)

	maxLen, nRand, nFind := 4, 2000, 4000
	if a.Thorough {
		maxLen, nRand, nFind = 6, 300000, 600000
	}
	alpha := "abc"
	strs := allStrings(alpha, maxLen)
	if a.Thorough {
		// all pairs up to length 6 over {a,b,c} would be 1093^2 ≈ 1.2M: fine
	}
	for _, s := range strs {
		for _, t := range strs {
			distCase(s, t)
		}
	}
	for i := 0; i < nRand; i++ {
		distCase(randString(r, "abcd", 12), randString(r, "abcd", 12))
	}
	for i := 0; i < nFind; i++ {
		n := r.Intn(9)
		names := make([]string, n)
		base := randString(r, "abcd", 6)
		for k := range names {
			if r.Chance(2, 3) { // mostly near the name, so that thresholds and ties are exercised
				b := []byte(base)
				for e := r.Intn(3); e > 0 && len(b) > 0; e-- {
					pos := r.Intn(len(b))
					switch r.Intn(3) {
					case 0:
						b[pos] = "abcd"[r.Intn(4)]
					case 1:
						b = append(b[:pos], b[pos+1:]...)
					case 2:
						b = append(b[:pos], append([]byte{"abcd"[r.Intn(4)]}, b[pos:]...)...)
					}
				}
				names[k] = string(b)
			} else {
				names[k] = randString(r, "abcd", 7)
			}
		}
		src := base
		if r.Chance(1, 20) {
			src = ""
		}
		findCase(names, src, r.Chance(1, 4))
	}
	return nil
}
