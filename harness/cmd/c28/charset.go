// C28 — character-set streams: the string-like column types (ENUM, SET, CHAR/VARCHAR, TEXT) compute the length
// they announce at one site (type construction; TEXT: per session) and produce the bytes at another
// (Type.SQL / Type.SQLValue transcode into character_set_results at encode time).
//
//	(cslen <csty> <res>)         MaxTextResponseByteLength(ctx) of the compiled type under character_set_results = res
//	(cs <csty> <res> <csval>)    Type.SQL(ctx, nil, stored): bytes, whether they fit the announced length, whether the
//	                             bytes decoded from the effective result character set convert back to the stored value,
//	                             whether Type.SQLValue produces the same bytes
//	(cswirelen …) (cswire …)     the same through a real server.Server: table created by DDL with a column CHARACTER SET,
//	                             `SET character_set_results = …` and the SELECT on one connection of the real Handler;
//	                             ColumnLength of the field packet and the row bytes
//
// <csty>  = (enum <cs> (<cp>…)…) | (set <cs> (<cp>…)…) | (char <cs> n) | (varchar <cs> n) | (text <cs> maxBytes)
// <res>   = utf8mb4 | utf8mb3 | latin1 | ascii | utf16 | utf32 | binary | null
// <csval> = (idx i) | (bits b) | (str <cp>…)
//
// Out of the envelope (kept out by construction, with the reason):
//   - values with a character that the effective result character set or the column character set cannot encode:
//     Type.SQL fails with ErrCharSetFailedToEncode instead of substituting '?' (no wire representation to round-trip)
//   - values Type.Convert does not store (StringType.Convert counts UTF-8 bytes for single-byte character sets, so a
//     latin1 VARCHAR(3) rejects 'ééé': storing is C26's subject)
//   - binary column collation (these are the BINARY/BLOB types of the free stream)
package main

import (
	"context"
	"encoding/binary"
	"fmt"
	"go/ast"
	"sort"
	"strconv"
	"strings"
	"unicode/utf8"

	"github.com/dolthub/vitess/go/mysql"
	"github.com/dolthub/vitess/go/sqltypes"

	"github.com/dolthub/go-mysql-server/sql"
	"github.com/dolthub/go-mysql-server/sql/types"
	"github.com/dolthub/go-mysql-server/verifharness/hx"
	"github.com/dolthub/go-mysql-server/verifharness/hx/eng"
)

type csInfo struct {
	name string
	id   sql.CharacterSetID
	coll sql.CollationID // collation used for a column of this character set
}

var colCss = []csInfo{
	{"utf8mb4", sql.CharacterSet_utf8mb4, sql.Collation_Default},
	{"utf8mb3", sql.CharacterSet_utf8mb3, sql.Collation_utf8mb3_general_ci},
	{"latin1", sql.CharacterSet_latin1, sql.Collation_latin1_swedish_ci},
	{"ascii", sql.CharacterSet_ascii, sql.Collation_ascii_general_ci},
	{"utf16", sql.CharacterSet_utf16, sql.Collation_utf16_general_ci},
	{"utf32", sql.CharacterSet_utf32, sql.Collation_utf32_general_ci},
}

var allCss = append(append([]csInfo(nil), colCss...), csInfo{"binary", sql.CharacterSet_binary, sql.Collation_binary})

// values of character_set_results ("null" = NULL)
var resNames = []string{"utf8mb4", "utf8mb3", "latin1", "ascii", "utf16", "utf32", "binary", "null"}

func csByName(n string) csInfo {
	for _, c := range allCss {
		if c.name == n {
			return c
		}
	}
	panic("unknown character set " + n)
}

// the character set a client decodes with: what the bytes are in when character_set_results is NULL or binary is the
// column's character set (documented MySQL behaviour; the code under test makes the same choice at encode time)
func effectiveCs(res string, col csInfo) csInfo {
	if res == "null" || res == "binary" {
		return col
	}
	return csByName(res)
}

func encodable(cs csInfo, s string) bool {
	_, ok := cs.id.Encoder().Encode([]byte(s))
	return ok
}

func cpList(s string) string {
	var parts []string
	for _, r := range s {
		parts = append(parts, strconv.Itoa(int(r)))
	}
	return "(" + strings.Join(parts, " ") + ")"
}

// csTy: a string-like column type
type csTy struct {
	kind    string // enum set char varchar text
	col     csInfo
	members []string
	n       int // char/varchar: length; text: maxByteLength (filled from the compiled type)
	textDDL string
}

func (t csTy) goType() (gt sql.Type, err error) {
	p := hx.Safe(func() {
		switch t.kind {
		case "enum":
			gt, err = types.CreateEnumType(append([]string(nil), t.members...), t.col.coll)
		case "set":
			gt, err = types.CreateSetType(append([]string(nil), t.members...), t.col.coll)
		case "char":
			gt, err = types.CreateString(sqltypes.Char, int64(t.n), t.col.coll)
		case "varchar":
			gt, err = types.CreateString(sqltypes.VarChar, int64(t.n), t.col.coll)
		case "text":
			if t.textDDL == "TINYTEXT" {
				gt = types.CreateTinyText(t.col.coll)
			} else {
				gt = types.CreateText(t.col.coll)
			}
		}
	})
	if p != "" {
		return nil, fmt.Errorf("panic: %s", p)
	}
	return
}

func (t csTy) sexp() string {
	switch t.kind {
	case "enum", "set":
		items := []string{t.kind, t.col.name}
		for _, m := range t.members {
			items = append(items, cpList(m))
		}
		return hx.List(items...)
	}
	return hx.List(t.kind, t.col.name, strconv.Itoa(t.n))
}

func (t csTy) ddl() string {
	q := func(ms []string) string {
		var parts []string
		for _, m := range ms {
			parts = append(parts, "'"+m+"'")
		}
		return strings.Join(parts, ",")
	}
	var s string
	switch t.kind {
	case "enum":
		s = "ENUM(" + q(t.members) + ")"
	case "set":
		s = "SET(" + q(t.members) + ")"
	case "char":
		s = fmt.Sprintf("CHAR(%d)", t.n)
	case "varchar":
		s = fmt.Sprintf("VARCHAR(%d)", t.n)
	case "text":
		s = t.textDDL
	}
	return s + " CHARACTER SET " + t.col.name
}

// csVal: a value to store
type csVal struct {
	sexp string
	in   interface{} // uint16 index, uint64 bit field, string
	lit  string      // SQL literal for INSERT
	text string      // the string the client is expected to end up with
}

func (t csTy) idxVal(i int) csVal {
	return csVal{fmt.Sprintf("(idx %d)", i), uint16(i), "'" + t.members[i-1] + "'", t.members[i-1]}
}

func (t csTy) bitsVal(b uint64) csVal {
	var sel []string
	for i, m := range t.members {
		if b&(1<<uint(i)) != 0 {
			sel = append(sel, m)
		}
	}
	return csVal{fmt.Sprintf("(bits %d)", b), b, "'" + strings.Join(sel, ",") + "'", strings.Join(sel, ",")}
}

func strVal(s string) csVal {
	items := []string{"str"}
	for _, r := range s {
		items = append(items, strconv.Itoa(int(r)))
	}
	return csVal{hx.List(items...), s, "'" + s + "'", s}
}

var csAlphabet = []string{"a", "Z", "0", " ", ",", "%", "é", "ß", "€", "Ā", "中", "😀"}

var csMemberPool = []string{"r", "w", "x", "mon", "tue", "wed", "thu", "fri", "sat", "sun", "a", "bb", "ccc", "é", "ßu", "€5", "Āb", "中文", "x y", "Z9", "😀", "q😀z"}

type csGen struct{ r *hx.Rand }

func (g csGen) pickMembers(pool []string, k int) []string {
	p := append([]string(nil), pool...)
	for i := len(p) - 1; i > 0; i-- {
		j := g.r.Intn(i + 1)
		p[i], p[j] = p[j], p[i]
	}
	if k > len(p) {
		k = len(p)
	}
	return p[:k]
}

func (g csGen) randStr(alpha []string, maxChars int) string {
	n := g.r.Intn(maxChars + 1)
	var sb strings.Builder
	for i := 0; i < n; i++ {
		sb.WriteString(hx.Pick(g.r, alpha))
	}
	return strings.TrimRight(sb.String(), " ")
}

// widest: the character of alpha with the longest encoding in cs
func widest(cs csInfo, alpha []string) string {
	best, bl := alpha[0], 0
	for _, a := range alpha {
		if b, ok := cs.id.Encoder().Encode([]byte(a)); ok && len(b) > bl && a != " " {
			best, bl = a, len(b)
		}
	}
	return best
}

type csTyped struct {
	t  csTy
	vs []csVal
}

// typesFor: column types + values for one (column character set, character_set_results) pair. Every member / value
// consists of characters that both the column character set and the effective result character set can encode.
func (g csGen) typesFor(col csInfo, res string, per int, wire bool) []csTyped {
	eff := effectiveCs(res, col)
	ok := func(s string) bool { return encodable(col, s) && encodable(eff, s) }
	var pool, alpha []string
	for _, m := range csMemberPool {
		if ok(m) {
			pool = append(pool, m)
		}
	}
	for _, a := range csAlphabet {
		if ok(a) {
			alpha = append(alpha, a)
		}
	}
	var out []csTyped
	// ENUM
	et := csTy{kind: "enum", col: col, members: g.pickMembers(pool, 1+g.r.Intn(6))}
	var evs []csVal
	for i := 1; i <= len(et.members); i++ {
		evs = append(evs, et.idxVal(i))
	}
	out = append(out, csTyped{et, evs})
	// SET: the value holding all members fills the announced length; near-full and random selections
	nset := 2
	if wire {
		nset = 1
	}
	for k := 0; k < nset; k++ {
		st := csTy{kind: "set", col: col, members: g.pickMembers(pool, 1+g.r.Intn(8))}
		all := uint64(1)<<uint(len(st.members)) - 1
		svs := []csVal{st.bitsVal(all), st.bitsVal(0), st.bitsVal(all &^ (1 << uint(g.r.Intn(len(st.members)))))}
		for i := 0; i < per; i++ {
			svs = append(svs, st.bitsVal(g.r.U64()&all))
		}
		out = append(out, csTyped{st, svs})
	}
	// CHAR(n) / VARCHAR(n): random strings and the string of n widest characters
	for _, kind := range []string{"varchar", "char"} {
		n := 1 + g.r.Intn(12)
		ct := csTy{kind: kind, col: col, n: n}
		cvs := []csVal{strVal(strings.Repeat(widest(eff, alpha), n)), strVal("")}
		for i := 0; i < per; i++ {
			cvs = append(cvs, strVal(g.randStr(alpha, n)))
		}
		out = append(out, csTyped{ct, cvs})
		if wire {
			break
		}
	}
	// TEXT: 255 one-byte characters fill a TINYTEXT
	tt := csTy{kind: "text", col: col, textDDL: "TINYTEXT"}
	w := widest(eff, alpha)
	tvs := []csVal{strVal(strings.Repeat("a", 255)), strVal(strings.Repeat(w, 255/len(w))), strVal(g.randStr(alpha, 40))}
	out = append(out, csTyped{tt, tvs})
	if !wire {
		out = append(out, csTyped{csTy{kind: "text", col: col, textDDL: "TEXT"}, []csVal{strVal(g.randStr(alpha, 60)), strVal(strings.Repeat(w, 300))}})
	}
	return out
}

// session context with character_set_results = res
func csCtx(e *eng.Eng, res string) (*sql.Context, error) {
	ctx := e.Ctx()
	var v interface{} = res
	if res == "null" {
		v = nil
	}
	if err := ctx.SetSessionVariable(ctx, "character_set_results", v); err != nil {
		return nil, fmt.Errorf("harness: SET character_set_results = %s: %v", res, err)
	}
	return ctx, nil
}

// roundTrips: the bytes, decoded from the character set the client reads them in, convert back to the stored value
func roundTrips(ctx *sql.Context, gt sql.Type, eff csInfo, stored interface{}, text []byte) string {
	rt := "no"
	hx.Safe(func() {
		dec, ok := eff.id.Encoder().Decode(text)
		if !ok {
			return
		}
		back, _, err := gt.Convert(ctx, string(dec))
		if err != nil {
			return
		}
		if c, err := gt.Compare(ctx, stored, back); err == nil && c == 0 {
			rt = "ok"
		}
	})
	return rt
}

// sqlValueOf: the sql.Value the row-value path (RowValueToSQLValues) hands to Type.SQLValue
func sqlValueOf(gt sql.Type, stored interface{}) (sql.Value, bool) {
	switch x := stored.(type) {
	case uint16:
		b := make([]byte, 2)
		binary.LittleEndian.PutUint16(b, x)
		return sql.Value{Val: b, Typ: gt.Type()}, true
	case uint64:
		b := make([]byte, 8)
		binary.LittleEndian.PutUint64(b, x)
		return sql.Value{Val: b, Typ: gt.Type()}, true
	case string:
		return sql.Value{Val: []byte(x), Typ: gt.Type()}, true
	}
	return sql.Value{}, false
}

func csRegionDesc(t csTy, res string) string {
	return fmt.Sprintf("%s under character_set_results=%s", t.ddl(), res)
}

// corpus: witnesses of the listed finding and the value that fills the announced length exactly
func csCorpus() []struct {
	t   csTy
	res string
	vs  []csVal
} {
	latin1, utf8mb4, utf16, utf8mb3 := csByName("latin1"), csByName("utf8mb4"), csByName("utf16"), csByName("utf8mb3")
	e1 := csTy{kind: "enum", col: latin1, members: []string{"é"}}
	s1 := csTy{kind: "set", col: latin1, members: []string{"r", "w", "x"}}
	s2 := csTy{kind: "set", col: utf8mb4, members: []string{"r", "w", "x"}}
	s3 := csTy{kind: "set", col: utf8mb3, members: []string{"mon", "tue"}}
	t1 := csTy{kind: "text", col: utf16, textDDL: "TINYTEXT"}
	v1 := csTy{kind: "varchar", col: latin1, n: 3}
	return []struct {
		t   csTy
		res string
		vs  []csVal
	}{
		{e1, "utf8mb4", []csVal{e1.idxVal(1)}},
		{s1, "utf32", []csVal{s1.bitsVal(7), s1.bitsVal(1)}},
		{s2, "utf32", []csVal{s2.bitsVal(7), s2.bitsVal(5), s2.bitsVal(0)}},
		{s2, "utf16", []csVal{s2.bitsVal(7)}},
		{s3, "utf32", []csVal{s3.bitsVal(3)}},
		{t1, "binary", []csVal{strVal(strings.Repeat("a", 255)), strVal("ab")}},
		{v1, "utf8mb4", []csVal{strVal("é"), strVal("abc")}},
	}
}

// runCharsets: the in-process streams (cslen, cs)
func runCharsets(a hx.RunArgs, out *hx.Out, r *hx.Rand, e *eng.Eng) error {
	g := csGen{r.Fork()}
	per := 2
	if a.Thorough {
		per = 12
	}
	ctxs := map[string]*sql.Context{}
	for _, res := range resNames {
		ctx, err := csCtx(e, res)
		if err != nil {
			return err
		}
		ctxs[res] = ctx
	}
	lenSeen := map[string]bool{}
	one := func(t csTy, res string, vs []csVal) error {
		ctx := ctxs[res]
		gt, err := t.goType()
		if err != nil {
			out.Stat("cs:type-rejected")
			return nil // e.g. members that collide under the column collation
		}
		if t.kind == "text" {
			t.n = int(gt.(sql.StringType).MaxByteLength())
		}
		eff := effectiveCs(res, t.col)
		max := gt.MaxTextResponseByteLength(ctx)
		if key := t.sexp() + " " + res; !lenSeen[key] {
			lenSeen[key] = true
			out.Case(hx.List("cslen", t.sexp(), res), fmt.Sprintf("max=%d", max), max > 0)
			out.Stat("cslen:" + t.kind)
		}
		for _, v := range vs {
			var stored interface{}
			var cerr error
			if p := hx.Safe(func() { stored, _, cerr = gt.Convert(ctx, v.in) }); p != "" || cerr != nil || stored == nil {
				out.Stat("cs:not-storable:" + t.kind)
				continue
			}
			if s, isStr := v.in.(string); isStr && stored != s {
				out.Stat("cs:stored-differs:" + t.kind)
				continue
			}
			var obs, desc string
			fits := true
			p := hx.Safe(func() {
				sv, err := gt.SQL(ctx, nil, stored)
				if err != nil {
					obs = "err"
					desc = err.Error()
					return
				}
				text := append([]byte(nil), sv.Raw()...)
				fits = uint32(len(text)) <= max
				same := "same"
				if vt, ok := gt.(sql.ValueType); ok {
					if val, ok := sqlValueOf(gt, stored); ok {
						sv2, err := vt.SQLValue(ctx, val, nil)
						if err != nil || string(sv2.Raw()) != string(text) {
							same = "differs:" + hx.Hex(sv2.Raw())
						}
					}
				}
				obs = fmt.Sprintf("%s|fits=%s|rt=%s|sv=%s", hx.Hex(text), yesNo(fits), roundTrips(ctx, gt, eff, stored, text), same)
				desc = fmt.Sprintf("stored %q is sent as %d bytes in %s, the announced length is %d", v.text, len(text), eff.name, max)
			})
			if p != "" {
				obs = "crash:" + p
			}
			id := out.Case(hx.List("cs", t.sexp(), res, v.sexp), obs, v.text != "")
			out.Stat("cs:" + t.kind)
			out.Stat("cs:res=" + res)
			out.Stat("cs:col=" + t.col.name)
			if !strings.HasSuffix(obs, "|rt=ok|sv=same") || !fits {
				out.OracleFail(id, "-", csRegionDesc(t, res)+": "+desc+" ["+obs[strings.Index(obs, "|")+1:]+"]")
			}
		}
		return nil
	}
	for _, c := range csCorpus() {
		if err := one(c.t, c.res, c.vs); err != nil {
			return err
		}
	}
	rounds := 1
	if a.Thorough {
		rounds = 10
	}
	for round := 0; round < rounds; round++ {
		for _, col := range colCss {
			for _, res := range resNames {
				for _, tv := range g.typesFor(col, res, per, false) {
					if err := one(tv.t, res, tv.vs); err != nil {
						return err
					}
				}
			}
		}
	}
	return nil
}

func yesNo(b bool) string {
	if b {
		return "yes"
	}
	return "no"
}

// handlerSession runs the statements on one connection of the real Handler; the result of the last one is returned.
func (en *env) handlerSession(stmts []string) (colLen uint32, rows []hRow, errStr string) {
	connCounter++
	c := &mysql.Conn{ConnectionID: connCounter, Conn: dummyConn{}}
	p := hx.Safe(func() {
		en.handler.NewConnection(c)
		defer en.handler.ConnectionClosed(c)
		if err := en.handler.ComInitDB(c, "d"); err != nil {
			errStr = "initdb:" + err.Error()
			return
		}
		for i, q := range stmts {
			last := i == len(stmts)-1
			err := en.handler.ComQuery(context.Background(), c, q, func(r *sqltypes.Result, more bool) error {
				if !last {
					return nil
				}
				if len(r.Fields) == 2 {
					colLen = r.Fields[1].ColumnLength
				}
				for _, row := range r.Rows {
					id, _ := strconv.ParseInt(row[0].ToString(), 10, 64)
					rows = append(rows, hRow{id, row[1].IsNull(), append([]byte(nil), row[1].Raw()...)})
				}
				return nil
			})
			if err != nil {
				errStr = "err:" + q + ": " + err.Error()
				return
			}
		}
	})
	if p != "" {
		errStr = "crash:" + p
	}
	return
}

// runCharsetWire: the same types as columns of a real server, read through the Handler with the session's
// character_set_results set on the same connection.
func runCharsetWire(a hx.RunArgs, out *hx.Out, r *hx.Rand, en *env) error {
	g := csGen{r.Fork()}
	tblN := 0
	for _, col := range colCss {
		// one table per type; the values do not depend on the result character set here, so restrict them to what
		// every effective result character set of the chosen results can encode
		results := []string{"utf32", "null"}
		others := []string{"utf8mb4", "utf8mb3", "latin1", "ascii", "utf16", "binary"}
		if a.Thorough {
			results = append(results, others...)
		} else {
			results = append(results, others[g.r.Intn(len(others))], others[g.r.Intn(len(others))])
		}
		sort.Strings(results)
		// characters encodable everywhere: choose values under the most restrictive pair
		narrow := "ascii"
		for _, tv := range g.typesFor(col, narrow, 1, true) {
			t := tv.t
			gt, err := t.goType()
			if err != nil {
				out.Stat("cswire:type-rejected")
				continue
			}
			if t.kind == "text" {
				t.n = int(gt.(sql.StringType).MaxByteLength())
			}
			tblN++
			tbl := fmt.Sprintf("cs%d", tblN)
			if res := en.e.Query(en.e.Ctx(), fmt.Sprintf("CREATE TABLE %s (id INT PRIMARY KEY, v %s)", tbl, t.ddl())); res.Class() != "ok" {
				return fmt.Errorf("harness: CREATE TABLE %s (v %s): %s %v", tbl, t.ddl(), res.Class(), res.Err)
			}
			kept := map[int64]csVal{}
			for i, v := range tv.vs {
				if res := en.e.Query(en.e.Ctx(), fmt.Sprintf("INSERT INTO %s VALUES (%d, %s)", tbl, i, v.lit)); res.Class() != "ok" {
					out.Stat("cswire:insert-rejected:" + t.kind)
					continue
				}
				kept[int64(i)] = v
			}
			chk := en.e.Query(en.e.Ctx(), fmt.Sprintf("SELECT id, v FROM %s", tbl))
			if chk.Class() != "ok" {
				return fmt.Errorf("harness: SELECT FROM %s: %s %v", tbl, chk.Class(), chk.Err)
			}
			storedOf := map[int64]interface{}{}
			for _, row := range chk.Raw {
				id, _ := strconv.ParseInt(fmt.Sprint(row[0]), 10, 64)
				v := kept[id]
				want := v.in
				if fmt.Sprint(row[1]) != fmt.Sprint(want) {
					return fmt.Errorf("harness: %s: INSERT of %s stored %v, the generator meant %v", t.ddl(), v.lit, row[1], want)
				}
				storedOf[id] = row[1]
			}
			for _, res := range results {
				set := "SET character_set_results = '" + res + "'"
				if res == "null" {
					set = "SET character_set_results = NULL"
				}
				colLen, hrows, herr := en.handlerSession([]string{set, fmt.Sprintf("SELECT id, v FROM %s ORDER BY id", tbl)})
				if herr != "" {
					return fmt.Errorf("harness: handler %s / %s: %s", set, tbl, herr)
				}
				eff := effectiveCs(res, col)
				out.Case(hx.List("cswirelen", t.sexp(), res), fmt.Sprintf("max=%d", colLen), colLen > 0)
				out.Stat("cswirelen:" + t.kind)
				ctx, err := csCtx(en.e, res)
				if err != nil {
					return err
				}
				for _, hr := range hrows {
					v, ok := kept[hr.id]
					if !ok || hr.null {
						return fmt.Errorf("harness: %s id %d unexpected/NULL in the handler result", tbl, hr.id)
					}
					fits := uint32(len(hr.bytes)) <= colLen
					obs := fmt.Sprintf("%s|fits=%s|rt=%s", hx.Hex(hr.bytes), yesNo(fits), roundTrips(ctx, gt, eff, storedOf[hr.id], hr.bytes))
					id := out.Case(hx.List("cswire", t.sexp(), res, v.sexp), obs, v.text != "")
					out.Stat("cswire:" + t.kind)
					out.Stat("cswire:res=" + res)
					if !strings.HasSuffix(obs, "|rt=ok") || !fits {
						out.OracleFail(id, "-", fmt.Sprintf("%s: stored %q arrives as %d bytes in %s, the field packet announces %d [%s]", csRegionDesc(t, res), v.text, len(hr.bytes), eff.name, colLen,
							obs[strings.Index(obs, "|")+1:]))
					}
				}
			}
		}
	}
	return nil
}

// ---------------------------------------------------------------------------------------------
// Facts.

// extractCharsets: run-time dumps of the compiled character-set tables, encoders and string-like types + the
// result-character-set tests of the six encode functions.
func extractCharsets(a hx.ExtractArgs, lf *hx.LeanFile) error {
	var b strings.Builder
	b.WriteString("/-- (character set name, MaxLength()); the empty name is CharacterSet_Unspecified -/\ndef csMaxLens : List (String × Nat) := [")
	fmt.Fprintf(&b, "(\"\", %d)", sql.CharacterSet_Unspecified.MaxLength())
	for _, c := range allCss {
		if c.id.Name() != c.name {
			return fmt.Errorf("character set %s is named %s by the code", c.name, c.id.Name())
		}
		fmt.Fprintf(&b, ", (%s, %d)", hx.LeanString(c.name), c.id.MaxLength())
	}
	b.WriteString("]\n")
	// latin1: code point of every byte (0x110000 = not decodable)
	b.WriteString("/-- code point of every byte 0..255 under encodings.Latin1.Decode (1114112 = undecodable) -/\ndef latin1Table : List Nat := [")
	for i := 0; i < 256; i++ {
		if i > 0 {
			b.WriteString(", ")
		}
		d, ok := sql.CharacterSet_latin1.Encoder().Decode([]byte{byte(i)})
		cp := 0x110000
		if ok {
			if r, n := utf8.DecodeRune(d); n == len(d) && r != utf8.RuneError {
				cp = int(r)
			}
		}
		fmt.Fprintf(&b, "%d", cp)
	}
	b.WriteString("]\n")
	// encoders at the boundaries of every encoding form
	cps := []int{0, 0x41, 0x7F, 0x80, 0x81, 0x9F, 0xA0, 0xE9, 0xFF, 0x100, 0x152, 0x7FF, 0x800, 0x20AC, 0x4E2D, 0xD7FF, 0xE000, 0xFFFD, 0xFFFF, 0x10000, 0x1F600, 0x10FFFF}
	b.WriteString("/-- (character set, code point, Encoder().Encode of its UTF-8 form; [256] = Encode fails) -/\ndef encSamples : List (String × Nat × List Nat) := [")
	first := true
	for _, c := range allCss {
		for _, cp := range cps {
			if !first {
				b.WriteString(", ")
			}
			first = false
			enc, ok := c.id.Encoder().Encode([]byte(string(rune(cp))))
			var items []string
			if !ok {
				items = []string{"256"}
			} else {
				for _, x := range enc {
					items = append(items, strconv.Itoa(int(x)))
				}
			}
			fmt.Fprintf(&b, "(%s, %d, [%s])", hx.LeanString(c.name), cp, strings.Join(items, ", "))
		}
	}
	b.WriteString("]\n")
	// announced lengths of compiled ENUM / SET / CHAR / VARCHAR types (fixed at construction)
	memberSets := [][]string{{"r", "w", "x"}, {"mon", "tue", "wed", "thu", "fri", "sat", "sun"}, {"a"}, {"é", "bb"}, {"ccc", "Āb", "x y", "q"}, {"zz", "y"}}
	leanMembers := func(ms []string) string {
		var parts []string
		for _, m := range ms {
			var cpsS []string
			for _, r := range m {
				cpsS = append(cpsS, strconv.Itoa(int(r)))
			}
			parts = append(parts, "["+strings.Join(cpsS, ", ")+"]")
		}
		return "[" + strings.Join(parts, ", ") + "]"
	}
	ctx := sql.NewEmptyContext()
	b.WriteString("/-- (kind, column character set, members, n, MaxTextResponseByteLength) of compiled ENUM, SET, CHAR(n), VARCHAR(n) types -/\ndef csTypeLens : List (String × String × List (List Nat) × Nat × Nat) := [")
	first = true
	emit := func(kind, cs, members string, n int, l uint32) {
		if !first {
			b.WriteString(", ")
		}
		first = false
		fmt.Fprintf(&b, "(%s, %s, %s, %d, %d)", hx.LeanString(kind), hx.LeanString(cs), members, n, l)
	}
	for _, c := range colCss {
		for _, ms := range memberSets {
			et, err := types.CreateEnumType(append([]string(nil), ms...), c.coll)
			if err != nil {
				return fmt.Errorf("enum %v %s: %v", ms, c.name, err)
			}
			emit("enum", c.name, leanMembers(ms), 0, et.MaxTextResponseByteLength(ctx))
			st, err := types.CreateSetType(append([]string(nil), ms...), c.coll)
			if err != nil {
				return fmt.Errorf("set %v %s: %v", ms, c.name, err)
			}
			emit("set", c.name, leanMembers(ms), 0, st.MaxTextResponseByteLength(ctx))
		}
		for _, n := range []int{0, 1, 3, 20, 255} {
			ct, err := types.CreateString(sqltypes.Char, int64(n), c.coll)
			if err != nil {
				return err
			}
			emit("char", c.name, "[]", n, ct.MaxTextResponseByteLength(ctx))
			vt, err := types.CreateString(sqltypes.VarChar, int64(n), c.coll)
			if err != nil {
				return err
			}
			emit("varchar", c.name, "[]", n, vt.MaxTextResponseByteLength(ctx))
		}
	}
	b.WriteString("]\n")
	// TEXT: per session
	e := eng.New("d")
	b.WriteString("/-- (character_set_results, column character set, maxByteLength, MaxTextResponseByteLength(ctx)) of TINYTEXT and TEXT -/\ndef csTextLens : List (String × String × Nat × Nat) := [")
	first = true
	for _, res := range resNames {
		sctx, err := csCtx(e, res)
		if err != nil {
			return err
		}
		for _, c := range colCss {
			for _, tt := range []sql.StringType{types.CreateTinyText(c.coll), types.CreateText(c.coll)} {
				if !first {
					b.WriteString(", ")
				}
				first = false
				fmt.Fprintf(&b, "(%s, %s, %d, %d)", hx.LeanString(res), hx.LeanString(c.name), tt.MaxByteLength(), tt.MaxTextResponseByteLength(sctx))
			}
		}
	}
	b.WriteString("]\n")
	lf.Raw(b.String())

	// go/ast: which character set the six encode functions transcode into
	var tests []string
	for _, f := range []struct{ file, recv, fn string }{
		{"sql/types/enum.go", "EnumType", "SQL"}, {"sql/types/enum.go", "EnumType", "SQLValue"},
		{"sql/types/set.go", "SetType", "SQL"}, {"sql/types/set.go", "SetType", "SQLValue"},
		{"sql/types/strings.go", "StringType", "SQL"}, {"sql/types/strings.go", "StringType", "SQLValue"},
	} {
		src, err := hx.ParseSrc(a.Repo, f.file)
		if err != nil {
			return err
		}
		fd, err := src.Func(f.recv, f.fn)
		if err != nil {
			return err
		}
		var conds []string
		ast.Inspect(fd.Body, func(n ast.Node) bool {
			if is, ok := n.(*ast.IfStmt); ok {
				if c := src.Text(is.Cond); strings.Contains(c, "CharacterSet_") {
					// normalise the variable name (resultCharset / charset)
					c = strings.ReplaceAll(c, "resultCharset", "cs")
					c = strings.ReplaceAll(c, "charset", "cs")
					conds = append(conds, c)
				}
			}
			return true
		})
		if len(conds) == 0 {
			return fmt.Errorf("%s.%s: no test of the result character set found", f.recv, f.fn)
		}
		tests = append(tests, f.recv+"."+f.fn+": "+strings.Join(conds, "; "))
	}
	lf.DefStringList("resultCharsetTests", tests)
	return nil
}
