// C28 — Values round-trip through their wire representation
// (sql/types/*.go SQL() + MaxTextResponseByteLength, server/handler.go RowToSQL/schemaToFields, vitess + go-sql-driver).
//
// Streams of cases:
//
//	(sql <ty> <val>)    in-process: stored value v of type ty (obtained through Type.Convert and checked to be the
//	                    intended one) -> Type.SQL(ctx, nil, v) text, MaxTextResponseByteLength, and whether
//	                    Type.Convert(text) compares equal to v. The Lean model predicts all three (Impl model) and
//	                    says what the property demands (Spec) + the region when they differ.
//	(clamp <ity> <v>)   Type.SQL of an integer type on an int64/uint64 outside the type's range (the clamp branches)
//	(free <kind> ...)   types without a Lean text model (float, double, char/varchar/text, binary, enum, set, json):
//	                    model-free verdict `rt=… len=…` computed on the real code; the payload carries the text length
//	                    and the announced length so that the driver can decide the region
//	(wire <ty> <val>)   value stored in a table of a real server.Server; read back through the real Handler (field
//	                    packet ColumnLength + text value), go-sql-driver text protocol and go-sql-driver prepared
//	                    (binary) protocol; each received representation is converted back with the column type
//	(cslen …) (cs …) (cswirelen …) (cswire …)
//	                    ENUM / SET / CHAR / VARCHAR / TEXT under every column character set x every character_set_results:
//	                    announced length (computed at type construction) vs. transcoded text (produced at encode time)
//	                    and the round trip through the result character set — see charset.go
package main

import (
	"context"
	"io"
	"log"
	dsql "database/sql"
	"fmt"
	"go/ast"
	"math"
	"math/big"
	"net"
	"sort"
	"strconv"
	"strings"
	"time"

	"github.com/cockroachdb/apd/v3"
	"github.com/dolthub/vitess/go/mysql"
	"github.com/dolthub/vitess/go/sqltypes"
	gomysql "github.com/go-sql-driver/mysql"
	"github.com/sirupsen/logrus"

	"github.com/dolthub/go-mysql-server/memory"
	"github.com/dolthub/go-mysql-server/server"
	"github.com/dolthub/go-mysql-server/sql"
	"github.com/dolthub/go-mysql-server/sql/types"
	"github.com/dolthub/go-mysql-server/verifharness/hx"
	"github.com/dolthub/go-mysql-server/verifharness/hx/eng"
)

func main() { hx.Main(extract, run) }

// ---------------------------------------------------------------------------------------------
// Types of the Lean model.

type ty struct {
	kind string // int dec bit year date datetime timestamp time
	ity  string // i8 u8 …
	p, s int    // dec: precision, scale; bit: p = n; datetime/timestamp: p = precision
}

var itys = []string{"i8", "u8", "i16", "u16", "i24", "u24", "i32", "u32", "i64", "u64"}

func ityType(n string) sql.Type {
	switch n {
	case "i8":
		return types.Int8
	case "u8":
		return types.Uint8
	case "i16":
		return types.Int16
	case "u16":
		return types.Uint16
	case "i24":
		return types.Int24
	case "u24":
		return types.Uint24
	case "i32":
		return types.Int32
	case "u32":
		return types.Uint32
	case "i64":
		return types.Int64
	}
	return types.Uint64
}

func ityRange(n string) (lo, hi *big.Int) {
	bits := map[string]uint{"i8": 8, "u8": 8, "i16": 16, "u16": 16, "i24": 24, "u24": 24, "i32": 32, "u32": 32, "i64": 64, "u64": 64}[n]
	one := big.NewInt(1)
	if n[0] == 'u' {
		return big.NewInt(0), new(big.Int).Sub(new(big.Int).Lsh(one, bits), one)
	}
	h := new(big.Int).Lsh(one, bits-1)
	return new(big.Int).Neg(h), new(big.Int).Sub(h, one)
}

func (t ty) goType() sql.Type {
	switch t.kind {
	case "int":
		return ityType(t.ity)
	case "dec":
		return types.MustCreateColumnDecimalType(uint8(t.p), uint8(t.s))
	case "bit":
		return types.MustCreateBitType(uint8(t.p))
	case "year":
		return types.Year
	case "date":
		return types.Date
	case "datetime":
		return types.MustCreateDatetimeType(sqltypes.Datetime, t.p)
	case "timestamp":
		return types.MustCreateDatetimeType(sqltypes.Timestamp, t.p)
	}
	return types.Time
}

func (t ty) sexp() string {
	switch t.kind {
	case "int":
		return "(int " + t.ity + ")"
	case "dec":
		return fmt.Sprintf("(dec %d %d)", t.p, t.s)
	case "bit":
		return fmt.Sprintf("(bit %d)", t.p)
	case "datetime", "timestamp":
		return fmt.Sprintf("(datetime %d)", t.p) // the two share code and model
	}
	return "(" + t.kind + ")"
}

// wireSexp: TIMESTAMP(p) is its own column type at the wire level (field packet code differs)
func (t ty) wireSexp() string {
	if t.kind == "timestamp" {
		return fmt.Sprintf("(timestamp %d)", t.p)
	}
	return t.sexp()
}

func (t ty) ddl() string {
	switch t.kind {
	case "int":
		return map[string]string{"i8": "TINYINT", "u8": "TINYINT UNSIGNED", "i16": "SMALLINT", "u16": "SMALLINT UNSIGNED", "i24": "MEDIUMINT", "u24": "MEDIUMINT UNSIGNED",
			"i32": "INT", "u32": "INT UNSIGNED", "i64": "BIGINT", "u64": "BIGINT UNSIGNED"}[t.ity]
	case "dec":
		return fmt.Sprintf("DECIMAL(%d,%d)", t.p, t.s)
	case "bit":
		return fmt.Sprintf("BIT(%d)", t.p)
	case "year":
		return "YEAR"
	case "date":
		return "DATE"
	case "datetime":
		return fmt.Sprintf("DATETIME(%d)", t.p)
	case "timestamp":
		return fmt.Sprintf("TIMESTAMP(%d)", t.p)
	}
	return "TIME(6)"
}

// val is a value of the Lean model: canonical s-expression + what to hand to Convert / put in an INSERT.
type val struct {
	sexp string      // (int -5) (dec -123) (bit 257) (year 0) (date y m d) (datetime y m d h mi s us) (time neg h mi s us)
	in   interface{} // Go input for Type.Convert
	lit  string      // SQL literal
}

func pad(n, w int) string { return fmt.Sprintf("%0*d", w, n) }

func mkInt(v *big.Int) val {
	var in interface{}
	if v.IsInt64() {
		in = v.Int64()
	} else {
		in = v.Uint64()
	}
	return val{"(int " + v.String() + ")", in, v.String()}
}

func decString(c *big.Int, s int) string {
	a := new(big.Int).Abs(c).String()
	for len(a) <= s {
		a = "0" + a
	}
	out := a
	if s > 0 {
		out = a[:len(a)-s] + "." + a[len(a)-s:]
	}
	if c.Sign() < 0 {
		out = "-" + out
	}
	return out
}

func mkDec(c *big.Int, s int) val { return val{"(dec " + c.String() + ")", decString(c, s), decString(c, s)} }
func mkBit(v uint64) val          { return val{fmt.Sprintf("(bit %d)", v), v, strconv.FormatUint(v, 10)} }
func mkYear(y int) val            { return val{fmt.Sprintf("(year %d)", y), int64(y), strconv.Itoa(y)} }
func mkDate(y, m, d int) val {
	s := pad(y, 4) + "-" + pad(m, 2) + "-" + pad(d, 2)
	return val{fmt.Sprintf("(date %d %d %d)", y, m, d), s, "'" + s + "'"}
}
func mkDatetime(y, m, d, h, mi, s, us int) val {
	str := pad(y, 4) + "-" + pad(m, 2) + "-" + pad(d, 2) + " " + pad(h, 2) + ":" + pad(mi, 2) + ":" + pad(s, 2) + "." + pad(us, 6)
	return val{fmt.Sprintf("(datetime %d %d %d %d %d %d %d)", y, m, d, h, mi, s, us), str, "'" + str + "'"}
}
func mkTime(neg bool, h, mi, s, us int) val {
	str := pad(h, 2) + ":" + pad(mi, 2) + ":" + pad(s, 2) + "." + pad(us, 6)
	n := 0
	if neg {
		str = "-" + str
		n = 1
	}
	return val{fmt.Sprintf("(time %d %d %d %d %d)", n, h, mi, s, us), str, "'" + str + "'"}
}

// canon decomposes a stored Go value of type t into the model's s-expression ("?<…>" if it has no model form).
func canon(t ty, v interface{}) string {
	switch x := v.(type) {
	case nil:
		return "null"
	case int8:
		return fmt.Sprintf("(%s %d)", intKind(t), x)
	case int16:
		return fmt.Sprintf("(%s %d)", intKind(t), x)
	case int32:
		return fmt.Sprintf("(%s %d)", intKind(t), x)
	case int64:
		return fmt.Sprintf("(%s %d)", intKind(t), x)
	case int:
		return fmt.Sprintf("(%s %d)", intKind(t), x)
	case uint8:
		return fmt.Sprintf("(%s %d)", intKind(t), x)
	case uint16:
		return fmt.Sprintf("(%s %d)", intKind(t), x)
	case uint32:
		return fmt.Sprintf("(%s %d)", intKind(t), x)
	case uint64:
		return fmt.Sprintf("(%s %d)", intKind(t), x)
	case *apd.Decimal:
		return canonDec(t, x)
	case apd.Decimal:
		return canonDec(t, &x)
	case time.Time:
		if x.Equal(types.ZeroTime) {
			if t.kind == "date" {
				return "(date 0 0 0)"
			}
			return "(datetime 0 0 0 0 0 0 0)"
		}
		x = x.UTC()
		if t.kind == "date" {
			return fmt.Sprintf("(date %d %d %d)", x.Year(), int(x.Month()), x.Day())
		}
		return fmt.Sprintf("(datetime %d %d %d %d %d %d %d)", x.Year(), int(x.Month()), x.Day(), x.Hour(), x.Minute(), x.Second(), x.Nanosecond()/1000)
	case types.Timespan:
		us := int64(x)
		n := 0
		if us < 0 {
			n = 1
			us = -us
		}
		return fmt.Sprintf("(time %d %d %d %d %d)", n, us/3600000000, us/60000000%60, us/1000000%60, us%1000000)
	}
	return fmt.Sprintf("?<%T %v>", v, v)
}

func intKind(t ty) string {
	switch t.kind {
	case "bit":
		return "bit"
	case "year":
		return "year"
	}
	return "int"
}

func canonDec(t ty, d *apd.Decimal) string {
	if d.Form != apd.Finite {
		return "?<decimal form>"
	}
	c := new(big.Int).Set(d.Coeff.MathBigInt())
	e := int(d.Exponent)
	// bring to the column scale
	for ; e > -t.s; e-- {
		c.Mul(c, big.NewInt(10))
	}
	if e < -t.s {
		return fmt.Sprintf("?<decimal exponent %d>", d.Exponent)
	}
	if d.Negative {
		c.Neg(c)
	}
	return "(dec " + c.String() + ")"
}

// ---------------------------------------------------------------------------------------------
// Facts.

func extract(a hx.ExtractArgs) error {
	lf := hx.NewLeanFile("Gms.Generated.C28", "sql/types/number.go", "sql/types/datetime.go", "sql/types/year.go", "sql/types/bit.go", "server/handler.go",
		"MaxTextResponseByteLength of the compiled types")
	ctx := sql.NewEmptyContext()
	// run-time dump: announced lengths
	var b strings.Builder
	b.WriteString("/-- (type name, MaxTextResponseByteLength) of the integer types -/\ndef intLens : List (String × Nat) := [")
	for i, n := range itys {
		if i > 0 {
			b.WriteString(", ")
		}
		fmt.Fprintf(&b, "(%s, %d)", hx.LeanString(n), ityType(n).MaxTextResponseByteLength(ctx))
	}
	b.WriteString("]\n")
	b.WriteString("/-- (precision, scale, MaxTextResponseByteLength) of every DECIMAL(p,s) column type -/\ndef decLens : List (Nat × Nat × Nat) := [")
	first := true
	for p := 1; p <= 65; p++ {
		for s := 0; s <= p && s <= 30; s++ {
			t, err := types.CreateColumnDecimalType(uint8(p), uint8(s))
			if err != nil {
				return fmt.Errorf("decimal(%d,%d): %v", p, s, err)
			}
			if !first {
				b.WriteString(", ")
			}
			first = false
			fmt.Fprintf(&b, "(%d, %d, %d)", p, s, t.MaxTextResponseByteLength(ctx))
		}
	}
	b.WriteString("]\n")
	b.WriteString("/-- (n, MaxTextResponseByteLength) of BIT(n) -/\ndef bitLens : List (Nat × Nat) := [")
	for n := 1; n <= 64; n++ {
		if n > 1 {
			b.WriteString(", ")
		}
		fmt.Fprintf(&b, "(%d, %d)", n, types.MustCreateBitType(uint8(n)).MaxTextResponseByteLength(ctx))
	}
	b.WriteString("]\n")
	b.WriteString("/-- (precision, MaxTextResponseByteLength of DATETIME(p), of TIMESTAMP(p)) -/\ndef datetimeLens : List (Nat × Nat × Nat) := [")
	for p := 0; p <= 6; p++ {
		if p > 0 {
			b.WriteString(", ")
		}
		fmt.Fprintf(&b, "(%d, %d, %d)", p, types.MustCreateDatetimeType(sqltypes.Datetime, p).MaxTextResponseByteLength(ctx), types.MustCreateDatetimeType(sqltypes.Timestamp, p).MaxTextResponseByteLength(ctx))
	}
	b.WriteString("]\n")
	lf.Raw(b.String())
	lf.DefNat("yearLen", uint64(types.Year.MaxTextResponseByteLength(ctx)))
	lf.DefNat("dateLen", uint64(types.Date.MaxTextResponseByteLength(ctx)))
	lf.DefNat("timeLen", uint64(types.Time.MaxTextResponseByteLength(ctx)))
	lf.DefNat("floatLen", uint64(types.Float32.MaxTextResponseByteLength(ctx)))
	lf.DefNat("doubleLen", uint64(types.Float64.MaxTextResponseByteLength(ctx)))

	// go/ast: the clamp tests of SQLInt8 … SQLUint64
	src, err := hx.ParseSrc(a.Repo, "sql/types/number.go")
	if err != nil {
		return err
	}
	var clamps []string
	for _, fn := range []string{"SQLInt8", "SQLInt16", "SQLInt24", "SQLInt32", "SQLInt64", "SQLUint8", "SQLUint16", "SQLUint24", "SQLUint32", "SQLUint64"} {
		fd, err := src.Func("NumberTypeImpl_", fn)
		if err != nil {
			return err
		}
		var conds []string
		ast.Inspect(fd.Body, func(n ast.Node) bool {
			if is, ok := n.(*ast.IfStmt); ok {
				c := src.Text(is.Cond)
				if c != "err != nil" {
					conds = append(conds, c)
				}
			}
			return true
		})
		clamps = append(clamps, fn+": "+strings.Join(conds, "; "))
	}
	lf.DefStringList("intClampTests", clamps)

	// appendDateFormat: the tests that decide how the year is written
	src2, err := hx.ParseSrc(a.Repo, "sql/types/datetime.go")
	if err != nil {
		return err
	}
	fd, err := src2.Func("", "appendDateFormat")
	if err != nil {
		return err
	}
	var dconds []string
	ast.Inspect(fd.Body, func(n ast.Node) bool {
		if is, ok := n.(*ast.IfStmt); ok {
			dconds = append(dconds, src2.Text(is.Cond))
		}
		return true
	})
	lf.DefStringList("dateFormatTests", dconds)

	// schemaToFields: what is announced as ColumnLength
	src3, err := hx.ParseSrc(a.Repo, "server/handler.go")
	if err != nil {
		return err
	}
	fd3, err := src3.Func("", "schemaToFields")
	if err != nil {
		return err
	}
	colLen := ""
	ast.Inspect(fd3.Body, func(n ast.Node) bool {
		if kv, ok := n.(*ast.KeyValueExpr); ok {
			if id, ok := kv.Key.(*ast.Ident); ok && id.Name == "ColumnLength" {
				colLen = src3.Text(kv.Value)
			}
		}
		return true
	})
	if colLen == "" {
		return fmt.Errorf("schemaToFields: ColumnLength field not found")
	}
	lf.DefString("columnLengthExpr", colLen)
	if err := extractCharsets(a, lf); err != nil {
		return err
	}
	return lf.Write(a.Out)
}

// ---------------------------------------------------------------------------------------------
// Generators.

type gen struct{ r *hx.Rand }

func (g gen) bigBelow(n *big.Int) *big.Int { // uniform-ish in [0, n)
	if n.Sign() <= 0 {
		return big.NewInt(0)
	}
	words := (n.BitLen() + 63) / 64
	x := new(big.Int)
	for i := 0; i < words+1; i++ {
		x.Lsh(x, 64)
		x.Or(x, new(big.Int).SetUint64(g.r.U64()))
	}
	return x.Mod(x, n)
}

// magnitude with a random number of digits (so that short and long texts are equally likely)
func (g gen) bigMag(max *big.Int) *big.Int {
	digits := len(max.String())
	d := 1 + g.r.Intn(digits)
	lim := new(big.Int).Exp(big.NewInt(10), big.NewInt(int64(d)), nil)
	if lim.Cmp(max) > 0 {
		lim = new(big.Int).Add(max, big.NewInt(1))
	}
	return g.bigBelow(lim)
}

func (g gen) intVals(ity string, n int) []val {
	lo, hi := ityRange(ity)
	var out []val
	one := big.NewInt(1)
	for _, v := range []*big.Int{lo, new(big.Int).Add(lo, one), big.NewInt(0), big.NewInt(1), big.NewInt(-1), big.NewInt(9), big.NewInt(10), big.NewInt(-10), big.NewInt(99), big.NewInt(100),
		new(big.Int).Sub(hi, one), hi} {
		if v.Cmp(lo) >= 0 && v.Cmp(hi) <= 0 {
			out = append(out, mkInt(v))
		}
	}
	for i := 0; i < n; i++ {
		m := g.bigMag(hi)
		if lo.Sign() < 0 && g.r.Bool() {
			m = g.bigMag(new(big.Int).Neg(lo))
			m.Neg(m)
		}
		out = append(out, mkInt(m))
	}
	return out
}

func (g gen) decVals(p, s, n int) []val {
	max := new(big.Int).Sub(new(big.Int).Exp(big.NewInt(10), big.NewInt(int64(p)), nil), big.NewInt(1))
	unit := new(big.Int).Exp(big.NewInt(10), big.NewInt(int64(s)), nil)
	var out []val
	for _, v := range []*big.Int{big.NewInt(0), big.NewInt(1), big.NewInt(-1), max, new(big.Int).Neg(max), unit, new(big.Int).Neg(unit), new(big.Int).Sub(unit, big.NewInt(1))} {
		if new(big.Int).Abs(v).Cmp(max) <= 0 {
			out = append(out, mkDec(v, s))
		}
	}
	for i := 0; i < n; i++ {
		m := g.bigMag(max)
		if g.r.Bool() {
			m.Neg(m)
		}
		out = append(out, mkDec(m, s))
	}
	return out
}

func (g gen) bitVals(nbits, n int) []val {
	var max uint64 = math.MaxUint64
	if nbits < 64 {
		max = (uint64(1) << uint(nbits)) - 1
	}
	out := []val{mkBit(0), mkBit(max)}
	if max > 1 {
		out = append(out, mkBit(1), mkBit(max-1), mkBit(max/2+1))
	}
	if max >= 256 {
		out = append(out, mkBit(255), mkBit(256), mkBit(257))
	}
	for i := 0; i < n; i++ {
		out = append(out, mkBit(g.r.U64()>>uint(g.r.Intn(64))&max))
	}
	return out
}

func dim(y, m int) int {
	switch m {
	case 2:
		if y%4 == 0 && (y%100 != 0 || y%400 == 0) {
			return 29
		}
		return 28
	case 4, 6, 9, 11:
		return 30
	}
	return 31
}

func (g gen) ymd(minY, maxY int) (int, int, int) {
	var y int
	switch g.r.Intn(6) {
	case 0:
		y = minY + g.r.Intn(maxY-minY+1)
	case 1: // short years (1 … 999) when allowed
		y = 1 + g.r.Intn(999)
	default:
		y = 1000 + g.r.Intn(9000)
	}
	if y < minY {
		y = minY
	}
	if y > maxY {
		y = maxY
	}
	m := 1 + g.r.Intn(12)
	d := 1 + g.r.Intn(dim(y, m))
	if g.r.Chance(1, 10) {
		d = dim(y, m)
	}
	return y, m, d
}

func (g gen) dateVals(n int) []val {
	out := []val{mkDate(0, 0, 0), mkDate(1, 1, 1), mkDate(99, 1, 2), mkDate(999, 12, 31), mkDate(1000, 1, 1), mkDate(9999, 12, 31), mkDate(2024, 2, 29), mkDate(1900, 2, 28), mkDate(2000, 2, 29), mkDate(1969, 12, 31)}
	for i := 0; i < n; i++ {
		y, m, d := g.ymd(1, 9999)
		out = append(out, mkDate(y, m, d))
	}
	return out
}

func (g gen) usFor(p int) int {
	step := 1
	for i := p; i < 6; i++ {
		step *= 10
	}
	switch g.r.Intn(4) {
	case 0:
		return 0
	case 1:
		return (1000000/step - 1) * step
	}
	return g.r.Intn(1000000/step) * step
}

func (g gen) datetimeVals(p int, timestamp bool, n int) []val {
	var out []val
	if timestamp {
		out = append(out, mkDatetime(1970, 1, 1, 0, 0, 1, 0), mkDatetime(2038, 1, 19, 3, 14, 7, 0), mkDatetime(2024, 2, 29, 23, 59, 59, 0))
	} else {
		out = append(out, mkDatetime(0, 0, 0, 0, 0, 0, 0), mkDatetime(1, 1, 1, 0, 0, 0, 0), mkDatetime(99, 1, 2, 3, 4, 5, 0), mkDatetime(999, 12, 31, 23, 59, 59, 0), mkDatetime(1000, 1, 1, 0, 0, 0, 0),
			mkDatetime(9999, 12, 31, 23, 59, 59, g.usMax(p)), mkDatetime(2024, 2, 29, 9, 9, 9, 0))
	}
	for i := 0; i < n; i++ {
		var y, m, d int
		if timestamp {
			y, m, d = g.ymd(1971, 2037)
			if y < 1971 || y > 2037 {
				y = 2000
				d = 1
			}
		} else {
			y, m, d = g.ymd(1, 9999)
		}
		out = append(out, mkDatetime(y, m, d, g.r.Intn(24), g.r.Intn(60), g.r.Intn(60), g.usFor(p)))
	}
	return out
}

func (g gen) usMax(p int) int {
	step := 1
	for i := p; i < 6; i++ {
		step *= 10
	}
	return (1000000/step - 1) * step
}

func (g gen) timeVals(n int) []val {
	out := []val{mkTime(false, 0, 0, 0, 0), mkTime(false, 838, 59, 59, 0), mkTime(true, 838, 59, 59, 0), mkTime(false, 0, 0, 0, 1), mkTime(true, 0, 0, 0, 1), mkTime(false, 9, 59, 59, 999999),
		mkTime(false, 10, 0, 0, 0), mkTime(false, 99, 0, 0, 0), mkTime(true, 100, 1, 1, 100000), mkTime(false, 23, 59, 59, 999999)}
	for i := 0; i < n; i++ {
		h := g.r.Intn(839)
		if g.r.Bool() {
			h = g.r.Intn(24)
		}
		us := g.r.Intn(1000000)
		if g.r.Chance(1, 3) {
			us = 0
		}
		mi, s := g.r.Intn(60), g.r.Intn(60)
		if h == 838 && mi == 59 && s == 59 {
			us = 0
		}
		neg := g.r.Bool() && !(h == 0 && mi == 0 && s == 0 && us == 0)
		out = append(out, mkTime(neg, h, mi, s, us))
	}
	return out
}

type typedVals struct {
	t  ty
	vs []val
}

// all (type, values) pairs of one run; per is the number of random values per type instance
func (g gen) all(per int, decTypes int) []typedVals {
	var out []typedVals
	for _, n := range itys {
		out = append(out, typedVals{ty{kind: "int", ity: n}, g.intVals(n, per)})
	}
	decs := [][2]int{{1, 0}, {1, 1}, {3, 3}, {5, 2}, {10, 0}, {18, 9}, {30, 30}, {38, 10}, {65, 0}, {65, 30}, {31, 30}, {2, 1}}
	for i := 0; i < decTypes; i++ {
		p := 1 + g.r.Intn(65)
		s := g.r.Intn(min(p, 30) + 1)
		if g.r.Chance(1, 5) {
			s = min(p, 30)
		}
		decs = append(decs, [2]int{p, s})
	}
	for _, d := range decs {
		out = append(out, typedVals{ty{kind: "dec", p: d[0], s: d[1]}, g.decVals(d[0], d[1], per/2+1)})
	}
	for _, n := range []int{1, 2, 7, 8, 9, 15, 16, 17, 31, 32, 33, 63, 64, 1 + g.r.Intn(64), 1 + g.r.Intn(64)} {
		out = append(out, typedVals{ty{kind: "bit", p: n}, g.bitVals(n, per/3+1)})
	}
	var ys []val
	ys = append(ys, mkYear(0))
	for y := 1901; y <= 2155; y++ {
		ys = append(ys, mkYear(y))
	}
	out = append(out, typedVals{ty{kind: "year"}, ys})
	out = append(out, typedVals{ty{kind: "date"}, g.dateVals(per * 4)})
	for p := 0; p <= 6; p++ {
		out = append(out, typedVals{ty{kind: "datetime", p: p}, g.datetimeVals(p, false, per)})
		out = append(out, typedVals{ty{kind: "timestamp", p: p}, g.datetimeVals(p, true, per/2+1)})
	}
	out = append(out, typedVals{ty{kind: "time"}, g.timeVals(per * 4)})
	return out
}

func min(a, b int) int {
	if a < b {
		return a
	}
	return b
}

// ---------------------------------------------------------------------------------------------
// In-process observations.

// store converts the generator's input with the column type and checks that the stored value is the intended one.
func store(ctx *sql.Context, t ty, gt sql.Type, v val) (interface{}, error) {
	var stored interface{}
	var err error
	if p := hx.Safe(func() { stored, _, err = gt.Convert(ctx, v.in) }); p != "" {
		return nil, fmt.Errorf("harness: %s.Convert(%v) panicked: %s", gt, v.in, p)
	}
	if err != nil {
		return nil, fmt.Errorf("harness: %s.Convert(%v) failed: %v", gt, v.in, err)
	}
	if c := canon(t, stored); c != v.sexp {
		return nil, fmt.Errorf("harness: %s.Convert(%v) stored %s, the generator meant %s", gt, v.in, c, v.sexp)
	}
	return stored, nil
}

// denoted converts a received representation back with the column type and renders the result canonically.
func denoted(ctx *sql.Context, t ty, gt sql.Type, recv interface{}) string {
	var back interface{}
	var err error
	if p := hx.Safe(func() { back, _, err = gt.Convert(ctx, recv) }); p != "" {
		return "crash"
	}
	if err != nil {
		return "err"
	}
	return canon(t, back)
}

type sqlObs struct {
	text  []byte
	max   uint32
	back  string
	crash string
	err   error
}

func observeSQL(ctx *sql.Context, t ty, gt sql.Type, stored interface{}) sqlObs {
	var o sqlObs
	o.crash = hx.Safe(func() {
		sv, err := gt.SQL(ctx, nil, stored)
		if err != nil {
			o.err = err
			return
		}
		o.text = append([]byte(nil), sv.Raw()...)
		o.max = gt.MaxTextResponseByteLength(ctx)
	})
	if o.crash == "" && o.err == nil {
		var recv interface{} = string(o.text)
		o.back = denoted(ctx, t, gt, recv)
	}
	return o
}

// ---------------------------------------------------------------------------------------------
// Wire level.

type dummyConn struct{ net.Conn }
type addr struct{}

func (addr) Network() string                          { return "tcp" }
func (addr) String() string                           { return "127.0.0.1:9999" }
func (dummyConn) RemoteAddr() net.Addr                { return addr{} }
func (dummyConn) LocalAddr() net.Addr                 { return addr{} }
func (dummyConn) Close() error                        { return nil }
func (dummyConn) Read(b []byte) (int, error)          { select {} }
func (dummyConn) Write(b []byte) (int, error)         { return len(b), nil }
func (dummyConn) SetDeadline(t time.Time) error       { return nil }
func (dummyConn) SetReadDeadline(t time.Time) error   { return nil }
func (dummyConn) SetWriteDeadline(t time.Time) error  { return nil }

type env struct {
	e       *eng.Eng
	srv     *server.Server
	handler mysql.Handler
	db      *dsql.DB
}

func setup() (*env, error) {
	e := eng.New("d")
	l, err := net.Listen("tcp", "127.0.0.1:0")
	if err != nil {
		return nil, err
	}
	port := l.Addr().(*net.TCPAddr).Port
	l.Close()
	en := &env{e: e}
	cfg := server.Config{Protocol: "tcp", Address: fmt.Sprintf("127.0.0.1:%d", port)}
	srv, err := server.NewServerWithHandler(cfg, e.E, sql.NewContext, memory.NewSessionBuilder(e.Pro), nil,
		func(h mysql.Handler) (mysql.Handler, error) { en.handler = h; return h, nil })
	if err != nil {
		return nil, err
	}
	en.srv = srv
	go srv.Start()
	dsn := fmt.Sprintf("root@tcp(127.0.0.1:%d)/d", port)
	var db *dsql.DB
	for i := 0; i < 100; i++ {
		db, err = dsql.Open("mysql", dsn)
		if err == nil {
			if err = db.Ping(); err == nil {
				break
			}
		}
		time.Sleep(50 * time.Millisecond)
	}
	if err != nil {
		return nil, fmt.Errorf("cannot connect: %v", err)
	}
	db.SetMaxOpenConns(4)
	en.db = db
	return en, nil
}

var connCounter uint32 = 7000

type hRow struct {
	id    int64
	null  bool
	bytes []byte
}

// handlerRows runs q through the real Handler.ComQuery: ColumnLength announced for column 1 and the text values.
func (en *env) handlerRows(q string) (colLen, decimals uint32, rows []hRow, errStr string) {
	connCounter++
	c := &mysql.Conn{ConnectionID: connCounter, Conn: dummyConn{}}
	p := hx.Safe(func() {
		en.handler.NewConnection(c)
		defer en.handler.ConnectionClosed(c)
		if err := en.handler.ComInitDB(c, "d"); err != nil {
			errStr = "initdb:" + err.Error()
			return
		}
		err := en.handler.ComQuery(context.Background(), c, q, func(r *sqltypes.Result, more bool) error {
			if len(r.Fields) == 2 {
				colLen = r.Fields[1].ColumnLength
				decimals = r.Fields[1].Decimals
			}
			for _, row := range r.Rows {
				id, _ := strconv.ParseInt(row[0].ToString(), 10, 64)
				rows = append(rows, hRow{id, row[1].IsNull(), append([]byte(nil), row[1].Raw()...)})
			}
			return nil
		})
		if err != nil {
			errStr = "err:" + err.Error()
		}
	})
	if p != "" {
		errStr = "crash:" + p
	}
	return
}

// driverRows reads (id, v) through go-sql-driver; binary = prepared statement. Text rows are scanned as raw bytes,
// binary rows as the Go values the driver decodes.
func (en *env) driverRows(q string, binary bool) (map[int64]interface{}, string) {
	ctx, cancel := context.WithTimeout(context.Background(), 60*time.Second)
	defer cancel()
	var rs *dsql.Rows
	var err error
	if binary {
		st, perr := en.db.PrepareContext(ctx, q)
		if perr != nil {
			return nil, "err:" + perr.Error()
		}
		defer st.Close()
		rs, err = st.QueryContext(ctx)
	} else {
		rs, err = en.db.QueryContext(ctx, q)
	}
	if err != nil {
		return nil, "err:" + err.Error()
	}
	defer rs.Close()
	out := map[int64]interface{}{}
	for rs.Next() {
		var id int64
		var v interface{}
		if binary {
			if err := rs.Scan(&id, &v); err != nil {
				return out, "err:" + err.Error()
			}
			if b, ok := v.([]byte); ok {
				v = string(b)
			}
		} else {
			var raw dsql.RawBytes
			if err := rs.Scan(&id, &raw); err != nil {
				return out, "err:" + err.Error()
			}
			if raw == nil {
				v = nil
			} else {
				v = string(raw)
			}
		}
		out[id] = v
	}
	if err := rs.Err(); err != nil {
		return out, "err:" + err.Error()
	}
	return out, ""
}

// ---------------------------------------------------------------------------------------------

func run(a hx.RunArgs) error {
	out := hx.NewOut(a.OutDir)
	defer out.Close()
	out.Rule = "sql: for every integer type, DECIMAL(p,s) (fixed edge shapes + random p<=65, s<=min(p,30)), BIT(n), YEAR (all values), DATE, DATETIME(p)/TIMESTAMP(p) for p=0..6, TIME: edge values (range ends, digit-count boundaries, " +
		"zero date, years 1..999, leap days, fraction boundaries) and random values whose digit count is uniform; the stored value is produced by Type.Convert and checked against the intended one; " +
		"clamp: integers outside the type's range; free: floats (special magnitudes + random bit patterns), strings/binary/enum/set/json with multi-byte characters; " +
		"wire: the same generators through a real server.Server, read by Handler.ComQuery, go-sql-driver text and prepared (binary) protocol; " +
		"cs/cslen: ENUM, SET (all members, all but one, none, random selections), CHAR(n)/VARCHAR(n) (n widest characters, random strings), TINYTEXT/TEXT (255 one-byte characters, widest characters) for every column character set in " +
		"{utf8mb4, utf8mb3, latin1, ascii, utf16, utf32} x every character_set_results in {utf8mb4, utf8mb3, latin1, ascii, utf16, utf32, binary, NULL}, members and values drawn from characters both character sets encode (ASCII, Latin-1, cp1252 euro, Latin Extended, CJK, emoji); " +
		"cswire/cswirelen: the same types as DDL columns (CHARACTER SET …) of the real server, `SET character_set_results` + SELECT on one Handler connection. " +
		"A case is non-trivial when the value is non-zero/non-empty."
	r := hx.NewRand(a.Seed)
	g := gen{r.Fork()}
	ctx := sql.NewEmptyContext()

	per, decTypes, perWire := 60, 12, 6
	if a.Thorough {
		per, decTypes, perWire = 4000, 150, 60
	}

	// ---- sql stream ----------------------------------------------------------------------------
	sqlCase := func(t ty, v val) error {
		gt := t.goType()
		stored, err := store(ctx, t, gt, v)
		if err != nil {
			return err
		}
		o := observeSQL(ctx, t, gt, stored)
		var obs string
		switch {
		case o.crash != "":
			obs = "crash:" + o.crash
		case o.err != nil:
			obs = "err"
		default:
			rt := "no"
			if o.back == v.sexp {
				rt = "ok"
			}
			obs = fmt.Sprintf("%s|%d|rt=%s", hx.Hex(o.text), o.max, rt)
		}
		nontrivial := !strings.HasSuffix(v.sexp, " 0)") && !strings.Contains(v.sexp, " 0 0 0")
		id := out.Case(hx.List("sql", t.sexp(), v.sexp), obs, nontrivial)
		out.Stat("sql:" + t.kind)
		// model-free property oracle
		if o.crash != "" || o.err != nil {
			out.OracleFail(id, "-", fmt.Sprintf("%s.SQL(%s) fails: %s %v", gt, v.sexp, o.crash, o.err))
			return nil
		}
		if o.back != v.sexp {
			out.OracleFail(id, "-", fmt.Sprintf("%s: stored %s is sent as %q, which converts back to %s", gt, v.sexp, o.text, o.back))
		}
		if uint32(len(o.text)) > o.max {
			out.OracleFail(id, "-", fmt.Sprintf("%s: stored %s is sent as %q (%d bytes), announced maximum %d", gt, v.sexp, o.text, len(o.text), o.max))
		}
		return nil
	}

	// corpus: the witnesses of the listed findings first
	corpus := []typedVals{
		{ty{kind: "dec", p: 3, s: 3}, []val{mkDec(big.NewInt(-123), 3), mkDec(big.NewInt(500), 3)}},
		{ty{kind: "date"}, []val{mkDate(99, 1, 2), mkDate(999, 12, 31), mkDate(1000, 1, 1)}},
		{ty{kind: "datetime", p: 0}, []val{mkDatetime(99, 1, 2, 3, 4, 5, 0)}},
		{ty{kind: "year"}, []val{mkYear(0), mkYear(1901)}},
		{ty{kind: "int", ity: "i64"}, []val{mkInt(big.NewInt(math.MinInt64))}},
		{ty{kind: "time"}, []val{mkTime(true, 838, 59, 59, 0)}},
	}
	for _, tv := range corpus {
		for _, v := range tv.vs {
			if err := sqlCase(tv.t, v); err != nil {
				return err
			}
		}
	}
	all := g.all(per, decTypes)
	for _, tv := range all {
		for _, v := range tv.vs {
			if err := sqlCase(tv.t, v); err != nil {
				return err
			}
		}
	}

	// ---- clamp stream --------------------------------------------------------------------------
	for _, n := range itys {
		gt := ityType(n)
		lo, hi := ityRange(n)
		var vs []*big.Int
		vs = append(vs, new(big.Int).Add(hi, big.NewInt(1)), new(big.Int).Add(hi, big.NewInt(2)), new(big.Int).Sub(lo, big.NewInt(1)), big.NewInt(math.MaxInt64), big.NewInt(math.MinInt64),
			new(big.Int).SetUint64(math.MaxUint64))
		for i := 0; i < per/4; i++ {
			x := new(big.Int).SetUint64(g.r.U64() >> uint(g.r.Intn(64)))
			if g.r.Bool() {
				x = big.NewInt(int64(g.r.U64()) >> uint(g.r.Intn(64)))
			}
			vs = append(vs, x)
		}
		for _, x := range vs {
			var in interface{}
			kind := "i"
			switch {
			case x.IsInt64():
				in = x.Int64()
			case x.IsUint64():
				in = x.Uint64()
				kind = "u"
			default:
				continue
			}
			if n[0] == 'u' && x.Sign() < 0 {
				continue // negative -> unsigned goes through the wrap-around of convertToUint64: C27's subject
			}
			var obs string
			p := hx.Safe(func() {
				sv, err := gt.SQL(ctx, nil, in)
				if err != nil {
					obs = "err"
					return
				}
				obs = hx.Hex(sv.Raw())
			})
			if p != "" {
				obs = "crash:" + p
			}
			out.Case(hx.List("clamp", n, kind, x.String()), obs, x.Cmp(lo) < 0 || x.Cmp(hi) > 0)
			out.Stat("clamp")
		}
	}

	// ---- free stream ---------------------------------------------------------------------------
	freeCase := func(kind, tname string, gt sql.Type, in interface{}) {
		var stored interface{}
		var err error
		if p := hx.Safe(func() { stored, _, err = gt.Convert(ctx, in) }); p != "" || err != nil || stored == nil {
			return // not storable: outside the property
		}
		verdict := ""
		textLen, max := 0, uint32(0)
		p := hx.Safe(func() {
			sv, err := gt.SQL(ctx, nil, stored)
			if err != nil {
				verdict = "rt=err len=?"
				return
			}
			text := append([]byte(nil), sv.Raw()...)
			textLen = len(text)
			max = gt.MaxTextResponseByteLength(ctx)
			var recv interface{} = string(text)
			if types.IsBinaryType(gt) {
				recv = text
			}
			back, _, err := gt.Convert(ctx, recv)
			rt := "no"
			if err == nil {
				if c, err := gt.Compare(ctx, stored, back); err == nil && c == 0 {
					rt = "ok"
				}
			}
			ln := "ok"
			if uint32(textLen) > max {
				ln = "over"
			}
			verdict = "rt=" + rt + " len=" + ln
		})
		if p != "" {
			verdict = "crash:" + p
		}
		id := out.Case(hx.List("free", kind, hx.HexS(tname), hx.HexS(fmt.Sprintf("%v", in)), strconv.Itoa(textLen), strconv.FormatUint(uint64(max), 10)), verdict, textLen > 0)
		out.Stat("free:" + kind)
		if verdict != "rt=ok len=ok" {
			out.OracleFail(id, "-", fmt.Sprintf("%s value %v: %s (text %d bytes, announced %d)", tname, in, verdict, textLen, max))
		}
	}
	floats := []float64{0, 1, -1, 0.1, 1e15, 1e21, 1e-5, 123456789.125, math.MaxFloat64, -math.MaxFloat64, math.SmallestNonzeroFloat64, 2.2250738585072014e-308, -2.2250738585072014e-308, 1.7976931348623157e308}
	nf := per
	for i := 0; i < nf; i++ {
		f := math.Float64frombits(g.r.U64())
		if math.IsNaN(f) || math.IsInf(f, 0) {
			continue
		}
		floats = append(floats, f)
		floats = append(floats, float64(int64(g.r.U64())>>uint(g.r.Intn(64)))/float64(int64(1)<<uint(g.r.Intn(20))))
	}
	for _, f := range floats {
		freeCase("float", "double", types.Float64, f)
		if math.Abs(f) <= math.MaxFloat32 {
			freeCase("float", "float", types.Float32, float32(f))
		}
	}
	for i := 0; i < nf; i++ {
		f := math.Float32frombits(uint32(g.r.U64()))
		if f != f || math.IsInf(float64(f), 0) {
			continue
		}
		freeCase("float", "float", types.Float32, f)
	}
	alphabet := []string{"a", "Z", "0", " ", "é", "ß", "中", "😀", "'", "\\", "\x00", "\n", ",", "%"}
	randStr := func(maxChars int) string {
		n := g.r.Intn(maxChars + 1)
		var sb strings.Builder
		for i := 0; i < n; i++ {
			sb.WriteString(hx.Pick(g.r, alphabet))
		}
		return sb.String()
	}
	for i := 0; i < per; i++ {
		n := 1 + g.r.Intn(20)
		freeCase("string", fmt.Sprintf("varchar(%d)", n), types.MustCreateString(sqltypes.VarChar, int64(n), sql.Collation_Default), randStr(n))
		freeCase("string", fmt.Sprintf("char(%d)", n), types.MustCreateString(sqltypes.Char, int64(n), sql.Collation_Default), strings.TrimRight(randStr(n), " "))
		freeCase("string", "text", types.Text, randStr(40))
		freeCase("string", "tinytext", types.TinyText, randStr(40))
		freeCase("string", fmt.Sprintf("varchar(%d) latin1", n), types.MustCreateString(sqltypes.VarChar, int64(n), sql.Collation_latin1_swedish_ci), strings.Map(func(c rune) rune {
			if c > 0xff {
				return 'x'
			}
			return c
		}, randStr(n)))
		bs := make([]byte, g.r.Intn(n+1))
		for k := range bs {
			bs[k] = byte(g.r.U64())
		}
		freeCase("binary", fmt.Sprintf("varbinary(%d)", n), types.MustCreateBinary(sqltypes.VarBinary, int64(n)), bs)
		freeCase("binary", fmt.Sprintf("binary(%d)", n), types.MustCreateBinary(sqltypes.Binary, int64(n)), bs)
		freeCase("binary", "blob", types.Blob, bs)
	}
	elems := []string{"a", "bb", "ccc", "é", "中文", "x y", "Z9"}
	et := types.MustCreateEnumType(elems, sql.Collation_Default)
	st := types.MustCreateSetType(elems, sql.Collation_Default)
	for i := 1; i <= len(elems); i++ {
		freeCase("enum", "enum", et, i)
	}
	for i := 0; i < per; i++ {
		freeCase("set", "set", st, uint64(g.r.Intn(1<<uint(len(elems)))))
	}
	for _, j := range []string{`{"a": [1, 2.5, "x"]}`, `[]`, `"é😀"`, `{"k": {"n": null, "t": true}}`, `12345678901234567890`} {
		freeCase("json", "json", types.JSON, j)
	}

	// ---- wire stream ---------------------------------------------------------------------------
	logrus.SetOutput(io.Discard)
	gomysql.SetLogger(log.New(io.Discard, "", 0))
	en, err := setup()
	if err != nil {
		return fmt.Errorf("harness: server setup: %v", err)
	}
	defer en.srv.Close()
	gw := gen{r.Fork()}
	wireAll := gw.all(perWire, 4)
	// the corpus witnesses go over the wire too
	wireAll = append(corpus, wireAll...)
	for k, tv := range wireAll {
		gt := tv.t.goType()
		tbl := fmt.Sprintf("w%d", k)
		ectx := en.e.Ctx()
		if res := en.e.Query(ectx, fmt.Sprintf("CREATE TABLE %s (id INT PRIMARY KEY, v %s)", tbl, tv.t.ddl())); res.Class() != "ok" {
			return fmt.Errorf("harness: CREATE TABLE %s (v %s): %s %v", tbl, tv.t.ddl(), res.Class(), res.Err)
		}
		vs := tv.vs
		if len(vs) > 40 && !a.Thorough {
			vs = vs[:40]
		}
		// insert, then read the stored values back in-process to validate the generator
		kept := map[int64]val{}
		for i, v := range vs {
			res := en.e.Query(en.e.Ctx(), fmt.Sprintf("INSERT INTO %s VALUES (%d, %s)", tbl, i, v.lit))
			if res.Class() != "ok" {
				if tv.t.kind == "timestamp" || tv.t.kind == "date" || tv.t.kind == "datetime" {
					out.Stat("wire:insert-rejected:" + tv.t.kind)
					continue // e.g. TIMESTAMP range depends on the session time zone
				}
				return fmt.Errorf("harness: INSERT INTO %s (%s) VALUES (%s): %s %v", tbl, tv.t.ddl(), v.lit, res.Class(), res.Err)
			}
			kept[int64(i)] = v
		}
		chk := en.e.Query(en.e.Ctx(), fmt.Sprintf("SELECT id, v FROM %s", tbl))
		if chk.Class() != "ok" {
			return fmt.Errorf("harness: SELECT FROM %s: %s %v", tbl, chk.Class(), chk.Err)
		}
		for _, row := range chk.Raw {
			id, _ := strconv.ParseInt(fmt.Sprint(row[0]), 10, 64)
			v := kept[id]
			if c := canon(tv.t, row[1]); c != v.sexp {
				if tv.t.kind == "timestamp" {
					delete(kept, id)
					out.Stat("wire:timestamp-shifted")
					continue
				}
				return fmt.Errorf("harness: %s: INSERT of %s stored %s, the generator meant %s", tv.t.ddl(), v.lit, c, v.sexp)
			}
		}
		q := fmt.Sprintf("SELECT id, v FROM %s ORDER BY id", tbl)
		colLen, decimals, hrows, herr := en.handlerRows(q)
		if herr != "" {
			return fmt.Errorf("harness: handler %s: %s", q, herr)
		}
		// a failing result stream is an observation of the code under test: fall back to one query per row so that
		// every value gets its own
		readAll := func(binary bool) map[int64]interface{} {
			rows, e := en.driverRows(q, binary)
			if e == "" {
				return rows
			}
			out.Stat(fmt.Sprintf("wire:stream-error:binary=%v", binary))
			rows = map[int64]interface{}{}
			for id := range kept {
				one, e := en.driverRows(fmt.Sprintf("SELECT id, v FROM %s WHERE id = %d", tbl, id), binary)
				if e != "" {
					rows[id] = streamErr{e}
				} else if v, ok := one[id]; ok {
					rows[id] = v
				}
			}
			return rows
		}
		trows := readAll(false)
		brows := readAll(true)
		hmap := map[int64]hRow{}
		for _, hr := range hrows {
			hmap[hr.id] = hr
		}
		ids := make([]int64, 0, len(kept))
		for id := range kept {
			ids = append(ids, id)
		}
		sort.Slice(ids, func(i, j int) bool { return ids[i] < ids[j] })
		for _, id := range ids {
			v := kept[id]
			hr, ok := hmap[id]
			if !ok || hr.null {
				return fmt.Errorf("harness: %s id %d missing/NULL in the handler result", tbl, id)
			}
			tden, bden := "missing", "missing"
			if tv, ok := trows[id]; ok {
				if _, bad := tv.(streamErr); bad {
					tden = "stream-error"
				} else if s, isStr := tv.(string); isStr && s != string(hr.bytes) {
					tden = "differs-from-handler:" + hx.HexS(s)
				} else {
					tden = denoted(ctx, tvType(wireAll[k].t), gt, tv)
				}
			}
			if bv, ok := brows[id]; ok {
				if _, bad := bv.(streamErr); bad {
					bden = "stream-error"
				} else {
					bden = denoted(ctx, tvType(wireAll[k].t), gt, bv)
				}
			}
			obs := fmt.Sprintf("h=%s max=%d d=%d t=%s b=%s", hx.Hex(hr.bytes), colLen, decimals, tden, bden)
			cid := out.Case(hx.List("wire", tv.t.wireSexp(), v.sexp), obs, !strings.HasSuffix(v.sexp, " 0)"))
			out.Stat("wire:" + tv.t.kind)
			if tden != v.sexp {
				out.OracleFail(cid, "-", fmt.Sprintf("%s: stored %s; text protocol delivers %q which denotes %s", tv.t.ddl(), v.sexp, hr.bytes, tden))
			}
			if bden != v.sexp {
				out.OracleFail(cid, "-", fmt.Sprintf("%s: stored %s; binary protocol delivers %v which denotes %s", tv.t.ddl(), v.sexp, brows[id], bden))
			}
			if uint32(len(hr.bytes)) > colLen {
				out.OracleFail(cid, "-", fmt.Sprintf("%s: stored %s is sent as %q (%d bytes), the field packet announces %d", tv.t.ddl(), v.sexp, hr.bytes, len(hr.bytes), colLen))
			}
		}
	}

	// ---- character-set streams (charset.go) -----------------------------------------------------
	if err := runCharsets(a, out, r, en.e); err != nil {
		return err
	}
	return runCharsetWire(a, out, r, en)
}

func tvType(t ty) ty { return t }

// streamErr: the result stream of a query broke (the server aborts the connection)
type streamErr struct{ msg string }
