// rows.go — the statement-level streams of C34.
//
// A function node is built ONCE per statement and its Eval runs once per row. The single-call
// stream of main.go builds a fresh node for every call, so anything a node keeps between rows
// (a scratch buffer whose slice is handed out as the SQL value, a memoised argument or result, a
// counter) is invisible to it. The two streams here evaluate the SAME node for several rows and
// look at the results only AFTER THE LAST ROW, the way a client that fetches the whole result set —
// or a Sort/Distinct/Group node that buffers rows — does:
//
//	rows  : registry constructor over column references (GetField), Eval(row_0) … Eval(row_n-1)
//	        on one node; every returned Go value is RETAINED (not copied) and read after the last row;
//	stmt  : the same through Engine.Query: INSERT the rows into a table, `SELECT id, f(c0,…) FROM t
//	        ORDER BY id` (and `… AS v … ORDER BY v, id`, where the engine itself buffers the computed
//	        values in a Sort), fetch everything, then read the raw rows.
//
// Observation of a case `(rows|stmt name (r arg…) (r arg…) …)`: the list of the per-row results as
// read after the last row. The Lean driver answers with `rows.map (impl name)` (Gms.NodeRows:
// `fresh_observe` — for a node without state between rows the statement's results ARE the
// single-call results, whatever was evaluated in between). Model-free oracles on top:
//
//	(R1) the value returned for row i reads the same right after Eval(row i) and after the last row;
//	(R2) it equals the single call f(literals of row i) on a fresh node (itself a correspondence case);
//	(R3) no Eval writes into its arguments (a []byte cell of the row is the table's storage).
package main

import (
	"fmt"
	"reflect"
	"sort"
	"strings"
	"unicode/utf8"

	"github.com/dolthub/go-mysql-server/sql"
	"github.com/dolthub/go-mysql-server/sql/expression"
	"github.com/dolthub/go-mysql-server/sql/types"
	"github.com/dolthub/go-mysql-server/verifharness/hx"
	"github.com/dolthub/go-mysql-server/verifharness/hx/eng"
)

// admissible is the filter of randomCalls: what the model covers.
func admissible(name string, args []val) bool {
	if needsCaseless(name) {
		for _, a := range args {
			if a.isStr() && !caseless(a.b) {
				return false
			}
		}
	}
	return envelope(name, args) == nil
}

// colKinds: the kind of every argument column of a statement (NULL cells fit any column; a column
// of NULLs only is a LONGTEXT column).
func colKinds(rows [][]val) []kind {
	ks := make([]kind, len(rows[0]))
	for i := range ks {
		ks[i] = kNull
		for _, r := range rows {
			if r[i].k != kNull {
				ks[i] = r[i].k
				break
			}
		}
		if ks[i] == kNull {
			ks[i] = kText
		}
	}
	return ks
}

func kindType(k kind) sql.Type {
	switch k {
	case kInt:
		return types.Int64
	case kBlob:
		return types.LongBlob
	}
	return types.LongText
}

func argBytes(args []val) int {
	n := 0
	for _, a := range args {
		n += len(a.b)
	}
	return n
}

// drawRows draws the rows of one statement over function `name`: argument tuples of the per-function
// generator that agree on the arity and on the kind of every column. Scratch storage grows when a
// row needs more than it has and is reused otherwise, so half of the statements present their rows
// longest first (every later result fits into what an earlier one needed), some repeat a row, and
// some end in a row that is much longer than the others.
func (g *gen) drawRows(name string, n int, validText bool) [][]val {
	var rows [][]val
	var kinds []kind
	for tries := 0; tries < 12*n && len(rows) < n; tries++ {
		args := g.genArgs(name)
		if !admissible(name, args) {
			continue
		}
		if validText {
			bad := false
			for _, a := range args {
				if a.k == kText && !utf8.ValidString(a.b) {
					bad = true
				}
			}
			if bad {
				continue
			}
		}
		if rows == nil {
			kinds = make([]kind, len(args))
			for i, a := range args {
				kinds[i] = a.k
			}
			rows = append(rows, args)
			continue
		}
		if len(args) != len(kinds) {
			continue
		}
		fits := true
		for i, a := range args {
			if a.k != kNull && kinds[i] != kNull && a.k != kinds[i] {
				fits = false
			}
		}
		if !fits {
			continue
		}
		for i, a := range args {
			if kinds[i] == kNull {
				kinds[i] = a.k
			}
		}
		rows = append(rows, args)
	}
	if len(rows) == 0 {
		return nil
	}
	switch g.r.Intn(4) {
	case 0, 1:
		sort.SliceStable(rows, func(i, j int) bool { return argBytes(rows[i]) > argBytes(rows[j]) })
	case 2:
		rows = append(rows, rows[g.r.Intn(len(rows))])
	}
	return rows
}

func rowsPayload(head, name string, rows [][]val) string {
	parts := []string{head, name}
	for _, r := range rows {
		cells := []string{"r"}
		for _, a := range r {
			cells = append(cells, a.sexp())
		}
		parts = append(parts, "("+strings.Join(cells, " ")+")")
	}
	return "(" + strings.Join(parts, " ") + ")"
}

func goCell(a val) interface{} {
	switch a.k {
	case kNull:
		return nil
	case kInt:
		return a.i
	case kText:
		return a.b
	}
	return []byte(a.b)
}

// nodeRows evaluates ONE node of `name` for all rows and reads the retained results after the last.
func (w *world) nodeRows(name string, rows [][]val) {
	kinds := colKinds(rows)
	cols := make([]sql.Expression, len(kinds))
	for i, k := range kinds {
		cols[i] = expression.NewGetField(i, kindType(k), fmt.Sprintf("c%d", i), true)
	}
	var node sql.Expression
	if p := hx.Safe(func() {
		var err error
		node, err = w.buildOn(name, cols)
		if err != nil {
			node = nil
		}
	}); p != "" || node == nil {
		if harnessErr == nil {
			harnessErr = fmt.Errorf("rows: cannot construct %s over %d columns (%s)", name, len(cols), p)
		}
		return
	}
	type kept struct {
		raw   interface{} // the Go value Eval returned — NOT copied
		early string      // its reading right after Eval
		in    sql.Row
	}
	ks := make([]kept, len(rows))
	for i, r := range rows {
		row := make(sql.Row, len(r))
		for j, a := range r {
			row[j] = goCell(a)
		}
		ks[i].in = row
		p := hx.Safe(func() {
			v, err := node.Eval(w.ctx, row)
			if err != nil {
				ks[i].early = classify(err)
				ks[i].raw = evalFailed(ks[i].early)
				return
			}
			ks[i].raw = v
			ks[i].early = w.canon(v).obs
		})
		if p != "" {
			ks[i].early = "crash"
			ks[i].raw = evalFailed("crash")
		}
	}
	// after the last row
	late := make([]string, len(rows))
	distinct := map[string]bool{}
	for i := range ks {
		if f, ok := ks[i].raw.(evalFailed); ok {
			late[i] = string(f)
		} else {
			late[i] = w.canon(ks[i].raw).obs
		}
		if strings.HasPrefix(late[i], "(") {
			distinct[late[i]] = true
		}
	}
	key := rowsPayload("rows", name, rows)
	id := w.out.Case(key, "["+strings.Join(late, " ")+"]", len(distinct) >= 2)
	w.out.Stat("rows:" + name)
	w.out.Stat(fmt.Sprintf("rows:n=%d", len(rows)))
	for i := range ks {
		if ks[i].early != late[i] {
			w.fail(id, "-", "%s node, row %d %s: the value returned was %s, after the last row of the statement it reads %s (storage reused between rows)",
				name, i, payload(name, rows[i]), ks[i].early, late[i])
			break
		}
	}
	for i, r := range rows {
		_, single := w.ev(name, r...)
		if single.obs != ks[i].early {
			w.fail(id, "-", "%s node, row %d: %s gives %s as the %d-th row of a statement but %s as a single call (state kept between rows)",
				name, i, payload(name, r), ks[i].early, i+1, single.obs)
			break
		}
	}
	for i, r := range rows {
		for j, a := range r {
			if !reflect.DeepEqual(ks[i].in[j], goCell(a)) {
				w.fail(id, "-", "%s node, row %d: Eval changed its argument %d from %s to %v", name, i, j, a.sexp(), ks[i].in[j])
				return
			}
		}
	}
}

type evalFailed string

// ---------------------------------------------------------------------------------------------
// the same through Engine.Query

func sqlLit(a val) string {
	switch a.k {
	case kNull:
		return "NULL"
	case kInt:
		return fmt.Sprintf("%d", a.i)
	case kBlob:
		return fmt.Sprintf("X'%x'", a.b)
	}
	s := strings.ReplaceAll(a.b, `\`, `\\`)
	s = strings.ReplaceAll(s, `'`, `''`)
	return "'" + s + "'"
}

func sqlCall(name string, cols []string) string {
	switch name {
	case "trim_both":
		return "TRIM(BOTH " + cols[1] + " FROM " + cols[0] + ")"
	case "trim_leading":
		return "TRIM(LEADING " + cols[1] + " FROM " + cols[0] + ")"
	case "trim_trailing":
		return "TRIM(TRAILING " + cols[1] + " FROM " + cols[0] + ")"
	}
	return strings.ToUpper(name) + "(" + strings.Join(cols, ", ") + ")"
}

type stmtWorld struct {
	e   *eng.Eng
	ctx *sql.Context
	n   int
}

// stmtRows: the rows go into a table; one SELECT evaluates f once per row; the whole result set is
// fetched and only then read. form 0: ORDER BY id; form 1: ORDER BY the computed value (a Sort
// node buffers the computed values while later rows are evaluated).
func (w *world) stmtRows(sw *stmtWorld, name string, rows [][]val) {
	// only statements every row of which evaluates to a value: an error would abort the statement
	var singles []res
	var okRows [][]val
	for _, r := range rows {
		_, single := w.ev(name, r...)
		if !single.ok {
			w.out.Stat("stmt:dropped-error-row")
			continue
		}
		singles = append(singles, single)
		okRows = append(okRows, r)
	}
	if rows = okRows; len(rows) < 2 {
		w.out.Stat("stmt:too-few")
		return
	}
	kinds := colKinds(rows)
	sw.n++
	tbl := fmt.Sprintf("t%d", sw.n)
	var defs, cols []string
	for i, k := range kinds {
		ty := map[kind]string{kInt: "BIGINT", kText: "LONGTEXT", kBlob: "LONGBLOB"}[k]
		defs = append(defs, fmt.Sprintf("c%d %s", i, ty))
		cols = append(cols, fmt.Sprintf("c%d", i))
	}
	if r := sw.e.Query(sw.ctx, "CREATE TABLE "+tbl+" (id BIGINT PRIMARY KEY, "+strings.Join(defs, ", ")+")"); r.Class() != "ok" {
		if harnessErr == nil {
			harnessErr = fmt.Errorf("stmt: CREATE TABLE failed: %s %v", r.Class(), r.Err)
		}
		return
	}
	defer sw.e.Query(sw.ctx, "DROP TABLE "+tbl)
	var tuples []string
	for i, r := range rows {
		cells := []string{fmt.Sprintf("%d", i)}
		for _, a := range r {
			cells = append(cells, sqlLit(a))
		}
		tuples = append(tuples, "("+strings.Join(cells, ", ")+")")
	}
	if r := sw.e.Query(sw.ctx, "INSERT INTO "+tbl+" VALUES "+strings.Join(tuples, ", ")); r.Class() != "ok" {
		if harnessErr == nil {
			harnessErr = fmt.Errorf("stmt: INSERT failed: %s %v: %s", r.Class(), r.Err, strings.Join(tuples, ", "))
		}
		return
	}
	call := sqlCall(name, cols)
	for form, q := range []string{
		"SELECT id, " + call + " FROM " + tbl + " ORDER BY id",
		"SELECT id, " + call + " AS v FROM " + tbl + " ORDER BY v, id",
	} {
		r := sw.e.Query(sw.ctx, q)
		key := rowsPayload("stmt", name, rows)
		w.out.Stat("stmt:" + name)
		if r.Class() != "ok" || len(r.Raw) != len(rows) {
			id := w.out.Case(key, fmt.Sprintf("stmt-%s rows=%d", r.Class(), len(r.Raw)), false)
			w.fail(id, "-", "%q over rows whose single calls all succeed: %s %v, %d rows", q, r.Class(), r.Err, len(r.Raw))
			continue
		}
		// read the raw result rows now that the statement is complete
		late := make([]string, len(rows))
		early := make([]string, len(rows)) // text rendered by eng.Query when the row was fetched
		lateText := make([]string, len(rows))
		distinct := map[string]bool{}
		okIDs := true
		for k, raw := range r.Raw {
			idv, ok := goInt(raw[0])
			if !ok || idv < 0 || int(idv) >= len(rows) || late[idv] != "" {
				okIDs = false
				break
			}
			late[idv] = w.canon(raw[1]).obs
			early[idv] = r.Rows[k][1]
			lateText[idv], _ = eng.Text(sw.ctx, r.Schema[1].Type, raw[1])
			distinct[late[idv]] = true
		}
		if !okIDs {
			id := w.out.Case(key, "stmt-bad-ids", false)
			w.fail(id, "-", "%q does not return each id once", q)
			continue
		}
		id := w.out.Case(key, "["+strings.Join(late, " ")+"]", len(distinct) >= 2)
		for i := range rows {
			if early[i] != lateText[i] {
				w.fail(id, "-", "%s (form %d), row id=%d %s: fetched as %q, after the last row of the result set it reads %q (storage reused between rows)",
					call, form, i, payload(name, rows[i]), early[i], lateText[i])
				break
			}
		}
		for i := range rows {
			if late[i] != singles[i].obs {
				w.fail(id, "-", "%s (form %d), row id=%d: %s is %s in the result set but %s as a single call", call, form, i, payload(name, rows[i]), late[i], singles[i].obs)
				break
			}
		}
	}
}

// rowStreams runs both statement-level streams for every modelled function.
func rowStreams(w *world, g *gen, perFn, stmtPerFn int) {
	sw := &stmtWorld{e: eng.New("d")}
	sw.ctx = sw.e.Ctx()
	T := vText
	// corpus: a column of hex strings of similar length, a shorter one, then one that outgrows the rest
	w.nodeRows("unhex", [][]val{{T("616c706861")}, {T("627261766f")}, {T("78")}, {T("6c6f6e6765722076616c7565")}})
	w.nodeRows("from_base64", [][]val{{T("YWxwaGE=")}, {T("YnJhdm8=")}, {T("eA==")}})
	w.nodeRows("reverse", [][]val{{vBlob("abc")}, {vBlob("xyz")}, {vBlob("q")}})
	w.stmtRows(sw, "unhex", [][]val{{T("616c706861")}, {T("627261766f")}, {T("78")}, {T("6c6f6e6765722076616c7565")}})
	for _, name := range fnNames() {
		for i := 0; i < perFn; i++ {
			rows := g.drawRows(name, g.r.Range(2, 6), false)
			if len(rows) < 2 {
				w.out.Stat("rows:too-few")
				continue
			}
			w.nodeRows(name, rows)
		}
		for i := 0; i < stmtPerFn; i++ {
			rows := g.drawRows(name, g.r.Range(2, 6), true)
			if len(rows) < 2 {
				w.out.Stat("stmt:too-few")
				continue
			}
			w.stmtRows(sw, name, rows)
		}
	}
}
