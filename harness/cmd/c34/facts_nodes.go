// facts_nodes.go — regenerated facts about the STATE of the modelled function nodes.
//
// A node is built once per statement and evaluated once per row: a field that Eval writes (a scratch
// buffer, a memo, a counter) couples the rows of a statement. Two tables are regenerated on every run:
//
//	nodeFields          per modelled function: the fields of the node the registry constructor builds
//	                    (embedded structs flattened; from the freshly compiled code by reflection)
//	nodeReceiverWrites  every statement in a method of these node types (and of the structs they embed)
//	                    that writes through the receiver: assignment / ++ / -- with the receiver as the
//	                    root of the left-hand side, copy(recv.…, …), append(recv.…, …)   (go/ast)
//
// Gms.C34.facts_nodes_stateless proves: every field has a child/configuration type (expression,
// type, name, mode) and no method writes through its receiver.
package main

import (
	"fmt"
	"go/ast"
	"go/token"
	"os"
	"path/filepath"
	"reflect"
	"sort"
	"strings"

	"github.com/dolthub/go-mysql-server/sql"
	"github.com/dolthub/go-mysql-server/sql/expression"
	"github.com/dolthub/go-mysql-server/sql/types"
	"github.com/dolthub/go-mysql-server/verifharness/hx"
)

type structKey struct{ pkg, name string }

// flattenFields lists (path, type) of every field of t, descending into embedded structs.
func flattenFields(t reflect.Type, prefix string, structs map[structKey]bool, out *[][2]string) {
	for t.Kind() == reflect.Ptr {
		t = t.Elem()
	}
	if t.Kind() != reflect.Struct {
		*out = append(*out, [2]string{prefix, t.String()})
		return
	}
	structs[structKey{t.PkgPath(), t.Name()}] = true
	for i := 0; i < t.NumField(); i++ {
		f := t.Field(i)
		if f.Anonymous {
			ft := f.Type
			for ft.Kind() == reflect.Ptr {
				ft = ft.Elem()
			}
			if ft.Kind() == reflect.Struct {
				flattenFields(ft, prefix+f.Name+".", structs, out)
				continue
			}
		}
		*out = append(*out, [2]string{prefix + f.Name, f.Type.String()})
	}
}

func rootIdent(e ast.Expr) (string, bool) {
	depth := 0
	for {
		switch x := e.(type) {
		case *ast.Ident:
			return x.Name, depth > 0
		case *ast.SelectorExpr:
			e = x.X
		case *ast.IndexExpr:
			e = x.X
		case *ast.SliceExpr:
			e = x.X
		case *ast.StarExpr:
			e = x.X
		case *ast.ParenExpr:
			e = x.X
			continue
		default:
			return "", false
		}
		depth++
	}
}

// receiverWrites lists the statements of fd that write through its receiver.
func receiverWrites(src *hx.Src, fd *ast.FuncDecl) []string {
	if fd.Recv == nil || len(fd.Recv.List) == 0 || len(fd.Recv.List[0].Names) == 0 || fd.Body == nil {
		return nil
	}
	recv := fd.Recv.List[0].Names[0].Name
	if recv == "_" {
		return nil
	}
	through := func(e ast.Expr) bool {
		id, deep := rootIdent(e)
		return deep && id == recv
	}
	var out []string
	ast.Inspect(fd.Body, func(n ast.Node) bool {
		switch x := n.(type) {
		case *ast.AssignStmt:
			for _, l := range x.Lhs {
				if through(l) {
					out = append(out, src.Text(x))
					break
				}
			}
		case *ast.IncDecStmt:
			if through(x.X) {
				out = append(out, src.Text(x))
			}
		case *ast.CallExpr:
			if id, ok := x.Fun.(*ast.Ident); ok && (id.Name == "copy" || id.Name == "append") && len(x.Args) > 0 && through(x.Args[0]) {
				out = append(out, src.Text(x))
			}
		}
		return true
	})
	return out
}

func extractNodes(a hx.ExtractArgs, lf *hx.LeanFile, w *world) error {
	structs := map[structKey]bool{}
	var rows []string
	for _, name := range fnNames() {
		var fields [][2]string
		seenType, structName := "", ""
		for _, ar := range fnArity[name] {
			cols := make([]sql.Expression, ar)
			for i := range cols {
				cols[i] = expression.NewGetField(i, types.LongText, fmt.Sprintf("c%d", i), true)
			}
			node, err := w.buildOn(name, cols)
			if err != nil {
				return fmt.Errorf("node of %s/%d: %v", name, ar, err)
			}
			t := reflect.TypeOf(node)
			if seenType != "" && seenType != t.String() {
				return fmt.Errorf("%s: arity %d builds %s, another arity %s", name, ar, t.String(), seenType)
			}
			if seenType == "" {
				seenType = t.String()
				flattenFields(t, "", structs, &fields)
				et := t
				for et.Kind() == reflect.Ptr {
					et = et.Elem()
				}
				structName = strings.TrimPrefix(et.PkgPath(), "github.com/dolthub/go-mysql-server/") + "." + et.Name()
			}
		}
		cells := make([]string, len(fields))
		for i, f := range fields {
			cells[i] = fmt.Sprintf("(%s, %s)", hx.LeanString(f[0]), hx.LeanString(f[1]))
		}
		rows = append(rows, fmt.Sprintf("(%s, %s, [%s])", hx.LeanString(name), hx.LeanString(structName), strings.Join(cells, ", ")))
	}
	lf.Comment("per modelled function: the struct type of the node its constructor builds and the node's fields (embedded structs flattened), by reflection on the compiled code")
	lf.Raw("def nodeFields : List (String × String × List (String × String)) := [\n  " + strings.Join(rows, ",\n  ") + "]\n")

	// go/ast: methods of the node structs (and of the structs they embed) that write through the receiver
	const root = "github.com/dolthub/go-mysql-server/"
	byDir := map[string][]string{}
	for k := range structs {
		if !strings.HasPrefix(k.pkg, root) {
			return fmt.Errorf("node struct %s.%s is not from the repository", k.pkg, k.name)
		}
		dir := strings.TrimPrefix(k.pkg, root)
		byDir[dir] = append(byDir[dir], k.name)
	}
	var writes, scanned []string
	found := map[structKey]bool{}
	nMethods := 0
	var dirs []string
	for d := range byDir {
		dirs = append(dirs, d)
	}
	sort.Strings(dirs)
	for _, dir := range dirs {
		want := map[string]bool{}
		for _, n := range byDir[dir] {
			want[n] = true
		}
		ents, err := os.ReadDir(filepath.Join(a.Repo, dir))
		if err != nil {
			return err
		}
		for _, ent := range ents {
			fn := ent.Name()
			if ent.IsDir() || !strings.HasSuffix(fn, ".go") || strings.HasSuffix(fn, "_test.go") {
				continue
			}
			src, err := hx.ParseSrc(a.Repo, filepath.Join(dir, fn))
			if err != nil {
				return err
			}
			for _, d := range src.File.Decls {
				switch x := d.(type) {
				case *ast.GenDecl:
					if x.Tok != token.TYPE {
						continue
					}
					for _, sp := range x.Specs {
						if ts, ok := sp.(*ast.TypeSpec); ok && want[ts.Name.Name] {
							if _, ok := ts.Type.(*ast.StructType); ok {
								found[structKey{dir, ts.Name.Name}] = true
							}
						}
					}
				case *ast.FuncDecl:
					if x.Recv == nil || len(x.Recv.List) == 0 {
						continue
					}
					rn := hx.RecvName(x.Recv.List[0].Type)
					if !want[rn] {
						continue
					}
					nMethods++
					for _, s := range receiverWrites(src, x) {
						writes = append(writes, fmt.Sprintf("%s/%s (%s).%s: %s", dir, fn, rn, x.Name.Name, strings.Join(strings.Fields(s), " ")))
					}
				}
			}
		}
		for n := range want {
			if !found[structKey{dir, n}] {
				return fmt.Errorf("struct type %s not found in %s", n, dir)
			}
			scanned = append(scanned, dir+"."+n)
		}
	}
	if nMethods < 100 {
		return fmt.Errorf("only %d methods of the node types found", nMethods)
	}
	sort.Strings(scanned)
	sort.Strings(writes)
	lf.Comment("the struct types whose methods were scanned (node types and the structs they embed)")
	lf.DefStringList("nodeStructs", scanned)
	lf.Comment("statements in methods of these types that write through the receiver (go/ast)")
	lf.DefStringList("nodeReceiverWrites", writes)
	return nil
}
